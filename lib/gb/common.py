"""Shared plumbing of the check driver: building the Coq development and the extracted drivers,
reading the proof-obligation status, evidence files, replays, violation lines, known findings."""
import hashlib, json, os, re, subprocess, sys, time, glob

VERIF = os.path.dirname(os.path.dirname(os.path.dirname(os.path.abspath(__file__))))
COQ = os.path.join(VERIF, "coq")
OCAML = os.path.join(VERIF, "ocaml")
EVID = os.environ.get("VERIF_EVID", os.path.join(VERIF, "evidence"))
REPLAYS = os.path.join(EVID, "replays")
PROPERTY_FILES = ["Properties", "Properties2", "Properties3"]
FORBIDDEN = r"\bAdmitted\b|\badmit\b|\bAxiom\b|\bParameter\b|\bConjecture\b|Unset Guard|bypass_check|type-in-type|impredicative-set|Admit Obligations"

TRUSTED_BASE = [
    "Coq 8.16.1 kernel (coqc); vm_compute used in Example/_refuted proofs and the in-Coq cross-check; no native_compute",
    "Axioms: none (every property theorem is 'Closed under the global context' per Print Assumptions; coqchk -o in the thorough tier)",
    "Extraction: ExtrOcamlBasic only (bool, option, list, prod, unit, sumbool -> OCaml's); nat/Z/positive stay inductive; OCaml 4.13.1; the OCaml drivers (parsing/printing glue)",
    "Correspondence harness: Go hooks injected into a shadow copy (verifMutex shim by counted textual substitution of sync.Mutex, cooperative scheduler, read-only snapshot functions), Python generators/comparators",
    "Modelled, not verified: parallel slices as one list of pairs; slice capacity/aliasing; interface{} values as option Z; Go's native comparison operators as a strict total order (key tables checked ascending at run time); defer as explicit unlock lists; goroutines as threads with one scheduling point per Lock()/API call/callback (reduction, rests on C07); sync.Mutex as a non-reentrant flag without fairness; panics as values; memory model, GC, allocation failure",
]


def log(*a):
    print(*a, flush=True)


def run(cmd, cwd=None, timeout=None, env=None):
    return subprocess.run(cmd, cwd=cwd, timeout=timeout, env=env, capture_output=True, text=True)


def newer(target, sources):
    if not os.path.exists(target):
        return False
    t = os.path.getmtime(target)
    return all(os.path.getmtime(s) <= t for s in sources if os.path.exists(s))


def coq_sources():
    return [os.path.join(COQ, l.strip()) for l in open(os.path.join(COQ, "_CoqProject")) if l.strip().endswith(".v")]


def ensure_built(clean=False):
    """Full .vo build of coq/, Properties.v log, extraction, OCaml drivers. Returns dict with status.
    Serialised by a file lock: several checks may be started at the same time."""
    import fcntl
    os.makedirs(os.path.join(VERIF, ".cache"), exist_ok=True)
    with open(os.path.join(VERIF, ".cache", "build.lock"), "w") as lockf:
        fcntl.flock(lockf, fcntl.LOCK_EX)
        return _ensure_built(clean)


def _ensure_built(clean=False):
    st = {"ok": True, "errors": []}
    if clean:
        for pat in ("*.vo", "*.vok", "*.vos", "*.glob", ".*.aux", "Makefile", "Makefile.conf", ".Makefile.d", "*.log"):
            for p in glob.glob(os.path.join(COQ, pat)):
                os.remove(p)
    if not newer(os.path.join(COQ, "Makefile"), [os.path.join(COQ, "_CoqProject")]):
        r = run(["coq_makefile", "-f", "_CoqProject", "-o", "Makefile"], cwd=COQ)
        if r.returncode != 0:
            st["ok"] = False
            st["errors"].append("coq_makefile: " + r.stderr[-500:])
            return st
    r = run(["timeout", "3000", "make", "-j16"], cwd=COQ)
    if r.returncode != 0:
        st["ok"] = False
        st["errors"].append("coq build failed: " + (r.stdout + r.stderr)[-1500:])
        return st
    vos = glob.glob(os.path.join(COQ, "*.vo"))
    for pf in PROPERTY_FILES:
        if not os.path.exists(os.path.join(COQ, pf + ".v")):
            continue
        plog = os.path.join(COQ, pf.lower() + ".log")
        if not newer(plog, vos + coq_sources()):
            r = run(["timeout", "1800", "coqc", "-Q", ".", "GB", pf + ".v"], cwd=COQ)
            open(plog, "w").write(r.stdout + r.stderr)
            if r.returncode != 0:
                st["ok"] = False
                st["errors"].append("%s.v does not compile: %s" % (pf, (r.stdout + r.stderr)[-1500:]))
                return st
    # extraction + drivers
    for (extract_v, ml, drivers) in (("Extract.v", "gbmodel", ["seqdriver", "orderdriver"]), ("ExtractConc.v", "gbconc", ["concdriver"])):
        ev = os.path.join(COQ, extract_v)
        if not os.path.exists(ev):
            continue
        mlp = os.path.join(OCAML, ml + ".ml")
        if not newer(mlp, vos + [ev]):
            r = run(["coqc", "-Q", COQ, "GB", ev], cwd=OCAML)
            for junk in glob.glob(os.path.join(COQ, extract_v[:-2] + ".vo*")) + glob.glob(os.path.join(COQ, extract_v[:-2] + ".glob")) + glob.glob(os.path.join(COQ, "." + extract_v[:-2] + ".aux")):
                os.remove(junk)
            if r.returncode != 0:
                st["ok"] = False
                st["errors"].append("extraction failed: " + (r.stdout + r.stderr)[-800:])
                return st
        for d in drivers:
            src = os.path.join(OCAML, d + ".ml")
            if not os.path.exists(src):
                continue
            exe = os.path.join(OCAML, d)
            if not newer(exe, [mlp, src]):
                r = run(["ocamlfind", "ocamlopt", "-package", "zarith", "-linkpkg", ml + ".mli", ml + ".ml", d + ".ml", "-o", d], cwd=OCAML)
                if r.returncode != 0:
                    st["ok"] = False
                    st["errors"].append("ocaml build of %s failed: %s" % (d, r.stderr[-800:]))
                    return st
    return st


def forbidden_scan():
    bad = []
    for p in coq_sources() + glob.glob(os.path.join(COQ, "Extract*.v")):
        txt = open(p).read()
        txt = re.sub(r"\(\*.*?\*\)", "", txt, flags=re.S)
        for m in re.finditer(FORBIDDEN, txt):
            bad.append("%s: %s" % (os.path.basename(p), m.group(0)))
    return bad


def obligations(pid):
    """Returns (names, discharged_names, problems) for the theorems OBLIGATIONS.json lists under pid."""
    ob = json.load(open(os.path.join(COQ, "OBLIGATIONS.json")))
    names = ob.get(pid, {}).get("theorems", [])
    src, status = "", {}
    for pf in PROPERTY_FILES:
        vp = os.path.join(COQ, pf + ".v")
        if not os.path.exists(vp):
            continue
        one = open(vp).read()
        src += one + "\n"
        plog_path = os.path.join(COQ, pf.lower() + ".log")
        plog = open(plog_path).read() if os.path.exists(plog_path) else ""
        printed = re.findall(r"Print Assumptions\s+([A-Za-z0-9_']+)\s*\.", re.sub(r"\(\*.*?\*\)", "", one, flags=re.S))
        outs = re.findall(r"Closed under the global context|Axioms:", plog)
        if len(outs) == len(printed):
            status.update(dict(zip(printed, outs)))
    problems, done = [], []
    for n in names:
        if not re.search(r"(Theorem|Lemma|Corollary)\s+%s\b" % re.escape(n), src):
            problems.append("theorem %s is not stated in Properties.v" % n)
        elif status.get(n) != "Closed under the global context":
            problems.append("theorem %s: Print Assumptions does not report 'Closed under the global context' (%s)" % (n, status.get(n)))
        else:
            done.append(n)
    for b in forbidden_scan():
        problems.append("forbidden construct in development: " + b)
    return names, done, problems


def known_findings():
    p = os.path.join(VERIF, "KNOWN_FINDINGS.json")
    return json.load(open(p)) if os.path.exists(p) else {"known": [], "fixed": []}


def write_replay(pid, payload):
    os.makedirs(REPLAYS, exist_ok=True)
    blob = json.dumps(payload, sort_keys=True, indent=1)
    h = hashlib.sha256(blob.encode()).hexdigest()[:12]
    path = os.path.join(REPLAYS, "%s-%s.json" % (pid, h))
    open(path, "w").write(blob + "\n")
    return path


def violation(pid, payload, found_input=True):
    payload = dict(payload)
    payload["property"] = pid
    payload["failing_input_found"] = found_input
    path = write_replay(pid, payload)
    print("VIOLATION property=%s replay=%s%s" % (pid, path, "" if found_input else " no-failing-input-found"), flush=True)
    return path


def write_evidence(pid, tier, seed, level, coverage, wall, violations, assumptions=None):
    os.makedirs(EVID, exist_ok=True)
    ev = {"property_id": pid, "tier": tier, "seed": seed, "level": level, "coverage": coverage,
          "assumptions": assumptions or TRUSTED_BASE, "wall_s": round(wall, 2), "violations": violations}
    open(os.path.join(EVID, pid + ".json"), "w").write(json.dumps(ev, indent=1, sort_keys=True) + "\n")


def repo_fingerprint(repo=None):
    repo = repo or os.environ.get("VERIF_REPO", "/repo")
    h = hashlib.sha256()
    for p in sorted(glob.glob(os.path.join(repo, "*.go"))):
        if p.endswith("_test.go"):
            continue
        h.update(os.path.basename(p).encode())
        h.update(open(p, "rb").read())
    return h.hexdigest()[:16]


def coq_hash():
    h = hashlib.sha256()
    for p in sorted(coq_sources()):
        h.update(open(p, "rb").read())
    return h.hexdigest()[:16]


def coqchk(run_if_missing=False):
    """Independent re-check of the compiled development (coqchk -silent -o), cached per source hash.
    Returns dict(status=ok|failed|not-run, axioms=[...], seconds=...)."""
    cache = os.path.join(VERIF, ".cache")
    os.makedirs(cache, exist_ok=True)
    f = os.path.join(cache, "coqchk-%s.json" % coq_hash())
    if os.path.exists(f):
        return json.load(open(f))
    if not run_if_missing:
        return {"status": "not-run"}
    t0 = time.time()
    r = run(["timeout", "7200", "coqchk", "-silent", "-o", "-Q", ".", "GB"] + ["GB." + pf for pf in PROPERTY_FILES], cwd=COQ)
    out = r.stdout + r.stderr
    axioms = []
    m = re.search(r"\* Axioms:\s*(.*?)(?:\n\*|\Z)", out, flags=re.S)
    if m:
        axioms = [l.strip() for l in m.group(1).splitlines() if l.strip() and l.strip() != "<none>"]
    res = {"status": "ok" if r.returncode == 0 else "failed", "axioms": axioms, "seconds": round(time.time() - t0, 1), "tail": out[-1500:]}
    json.dump(res, open(f, "w"), indent=1)
    return res

#!/usr/bin/env python3
"""Regenerates Appendix C of DESIGN.md (which check reports which seeded change) from seeded/RESULTS.json
(all twelve quick checks per change) and seeded/RESULTS_target.json (target check re-run at the final state)."""
import json, os, re
V = "/verif"
res = json.load(open(os.path.join(V, "seeded", "RESULTS.json")))
tp = os.path.join(V, "seeded", "RESULTS_target.json")
tgt = json.load(open(tp)) if os.path.exists(tp) else {}
props = ["C%02d" % i for i in range(1, 13)]
lines = ["## Appendix C — seeded changes × checks (quick tier; `X` = concrete failing input, `n` = reported with no-failing-input-found, `.` = quiet; *at* = the /repo commit the row was evaluated against; *target now* = the targeted property's check re-run against the final state)", "",
         "| change | what it does | at | " + " | ".join(props) + " | target now |", "|---|---|---|" + "---|" * len(props) + "---|"]
ids = sorted(d for d in os.listdir(os.path.join(V, "seeded")) if os.path.isdir(os.path.join(V, "seeded", d)))
for sid in ids:
    meta = json.load(open(os.path.join(V, "seeded", sid, "meta.json")))
    what = meta.get("summary", "")
    if meta.get("obsolete_after"):
        what += " (**obsolete since %s**: no longer changes behaviour)" % meta["obsolete_after"]
    r = res.get(sid)
    row = []
    for p in props:
        c = (r or {}).get("checks", {}).get(p, {})
        row.append("?" if r is None else ("X" if c.get("violation") and c.get("concrete") else ("n" if c.get("violation") else ".")))
    t = tgt.get(sid, {}).get("checks", {})
    tnow = "; ".join("%s:%s" % (p, "X" if c.get("violation") and c.get("concrete") else ("n" if c.get("violation") else ".")) for p, c in sorted(t.items())) or ("—" if meta.get("obsolete_after") else "")
    lines.append("| %s | %s | %s | %s | %s |" % (sid, what, (r or {}).get("evaluated_at", ""), " | ".join(row), tnow))
txt = open(os.path.join(V, "DESIGN.md")).read()
txt = re.sub(r"\n## Appendix C —.*\Z", "", txt, flags=re.S).rstrip("\n") + "\n\n" + "\n".join(lines) + "\n"
open(os.path.join(V, "DESIGN.md"), "w").write(txt)
print("matrix rows:", len(ids))

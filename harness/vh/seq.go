package main

import (
	"bufio"
	"fmt"
	"os"
	"strconv"
	"strings"

	g "github.com/karrick/gobptree"
)

// runSeq executes every case of the cases file on the real trees, free-running (one goroutine), and
// writes one observation line per operation: result, full structure, leaf chain, held-lock count.
func runSeq(casesPath, obsPath string) error {
	in, err := os.Open(casesPath)
	if err != nil {
		return err
	}
	defer in.Close()
	out, err := os.Create(obsPath)
	if err != nil {
		return err
	}
	w := bufio.NewWriterSize(out, 1<<20)
	defer func() { w.Flush(); out.Close() }()
	sc := bufio.NewScanner(in)
	sc.Buffer(make([]byte, 1<<20), 1<<28)
	var id, typ string
	var order int
	var keys []string
	nodump := false
	for sc.Scan() {
		line := sc.Text()
		switch {
		case strings.HasPrefix(line, "CASE "):
			f := strings.Fields(line)
			id = f[1]
			keys = nil
			nodump = false
			for _, kv := range f[2:] {
				p := strings.SplitN(kv, "=", 2)
				switch p[0] {
				case "type":
					typ = p[1]
				case "order":
					order, _ = strconv.Atoi(p[1])
				case "nodump":
					nodump = p[1] == "1"
				}
			}
		case strings.HasPrefix(line, "KEYS"):
			keys = strings.Fields(line)[1:]
		case strings.HasPrefix(line, "OPS "):
			g.VerifHeld = 0
			t, err := newTree(typ, order, keys)
			if err != nil {
				fmt.Fprintf(w, "%s -1 error=%s\n", id, strings.ReplaceAll(err.Error(), " ", "_"))
				continue
			}
			ops := strings.Split(line[4:], ";")
			for idx, o := range ops {
				res, dead := seqOp(t, strings.Fields(o))
				d := "- chain=ok"
				if !nodump {
					d = safeDump(t)
				}
				fmt.Fprintf(w, "%s %d %s | %s locks=%d\n", id, idx, res, d, g.VerifHeld)
				if dead {
					break
				}
			}
		}
	}
	return sc.Err()
}

func safeDump(t *adapter) (s string) {
	defer func() {
		if r := recover(); r != nil {
			s = "DUMP-PANIC:" + panicCode(r)
		}
	}()
	return t.dump(false)
}

func seqOp(t *adapter, f []string) (res string, dead bool) {
	defer func() {
		if r := recover(); r != nil {
			res = "panic=" + panicCode(r)
			dead = true
		}
	}()
	switch f[0] {
	case "I":
		t.insert(parseKey(f[1]), parseVal(f[2]))
		return "ok", false
	case "U":
		d, _ := strconv.Atoi(f[2])
		calls, arg := 0, "nocall"
		t.update(parseKey(f[1]), addCb(d, &calls, &arg))
		return fmt.Sprintf("arg=%s calls=%d", arg, calls), false
	case "D":
		t.del(parseKey(f[1]))
		return "ok", false
	case "S":
		v, ok := t.search(parseKey(f[1]))
		if !ok {
			if v != nil {
				return "found=BADNONE", false
			}
			return "found=none", false
		}
		return "found=" + valStr(v), false
	case "C":
		n, _ := strconv.Atoi(f[2])
		closes, _ := strconv.Atoi(f[3])
		c := t.scanner(parseKey(f[1]))
		var got []string
		for i := 0; n < 0 || i < n; i++ {
			if !c.scan() {
				break
			}
			k, v := c.pair()
			got = append(got, k+"="+valStr(v))
		}
		for i := 0; i < closes; i++ {
			if err := c.close(); err != nil {
				return "closeerr", false
			}
		}
		return "pairs=" + strings.Join(got, ","), false
	}
	return "badop", true
}

type scase struct {
	id, typ string
	order   int
	keys    []string
	ops     []string
}

func readCases(path string) ([]*scase, error) {
	in, err := os.Open(path)
	if err != nil {
		return nil, err
	}
	defer in.Close()
	sc := bufio.NewScanner(in)
	sc.Buffer(make([]byte, 1<<20), 1<<28)
	var cs []*scase
	var c *scase
	for sc.Scan() {
		line := sc.Text()
		switch {
		case strings.HasPrefix(line, "CASE "):
			f := strings.Fields(line)
			c = &scase{id: f[1]}
			cs = append(cs, c)
			for _, kv := range f[2:] {
				p := strings.SplitN(kv, "=", 2)
				switch p[0] {
				case "type":
					c.typ = p[1]
				case "order":
					c.order, _ = strconv.Atoi(p[1])
				}
			}
		case strings.HasPrefix(line, "KEYS"):
			c.keys = strings.Fields(line)[1:]
		case strings.HasPrefix(line, "OPS "):
			c.ops = strings.Split(line[4:], ";")
		}
	}
	return cs, sc.Err()
}

// runPairs: consecutive cases are run on two trees obtained from the same constructor, their operations
// interleaved one by one; each tree must behave as if it were alone (C12: trees share no state).
func runPairs(casesPath, obsPath string) error {
	cs, err := readCases(casesPath)
	if err != nil {
		return err
	}
	out, err := os.Create(obsPath)
	if err != nil {
		return err
	}
	w := bufio.NewWriterSize(out, 1<<20)
	defer func() { w.Flush(); out.Close() }()
	for i := 0; i+2 < len(cs); i += 3 {
		a, b, late := cs[i], cs[i+1], cs[i+2]
		g.VerifHeld = 0
		ta, err := newTree(a.typ, a.order, a.keys)
		if err != nil {
			return err
		}
		tb, err := newTree(b.typ, b.order, b.keys)
		if err != nil {
			return err
		}
		var la, lb []string
		deadA, deadB := false, false
		for j := 0; j < len(a.ops) || j < len(b.ops); j++ {
			if j < len(a.ops) && !deadA {
				res, dead := seqOp(ta, strings.Fields(a.ops[j]))
				la = append(la, fmt.Sprintf("%s %d %s | %s locks=%d", a.id, j, res, safeDump(ta), g.VerifHeld))
				deadA = dead
			}
			if j < len(b.ops) && !deadB {
				res, dead := seqOp(tb, strings.Fields(b.ops[j]))
				lb = append(lb, fmt.Sprintf("%s %d %s | %s locks=%d", b.id, j, res, safeDump(tb), g.VerifHeld))
				deadB = dead
			}
		}
		for _, l := range la {
			fmt.Fprintln(w, l)
		}
		for _, l := range lb {
			fmt.Fprintln(w, l)
		}
		// a third tree, constructed only now (after the first two have split, merged and discarded nodes),
		// must be as empty and independent as any other
		tc, err := newTree(late.typ, late.order, late.keys)
		if err != nil {
			return err
		}
		for j, o := range late.ops {
			res, dead := seqOp(tc, strings.Fields(o))
			fmt.Fprintf(w, "%s %d %s | %s locks=%d\n", late.id, j, res, safeDump(tc), g.VerifHeld)
			if dead {
				break
			}
		}
	}
	return nil
}

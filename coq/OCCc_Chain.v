(* OCCc_Chain.v — the leaf a cursor moves to exists: the stored next link of a leaf in the tree is the next
   leaf of the tree (and not the root). *)
From Coq Require Import List Bool Lia PeanoNat Permutation.
From GB Require Import Model Inv ListLemmas TreeLemmas Conc GI EraseLemmas SoloSearch.
Import ListNotations.

Section Chain.
Variables (K V : Type).
Notation itree := (itree K V).

Lemma find_leaves : forall (t : itree) x i nx es,
  Conc.find x t = Some (ILeaf i nx es) -> In (i, nx, es) (leaves t).
Proof.
  induction t as [j nj ej|j cs IH] using itree_ind'; intros x i nx es Hf.
  - simpl in Hf. destruct (j =? x); [|discriminate]. inversion Hf; subst. simpl. auto.
  - rewrite find_node in Hf. destruct (j =? x); [discriminate|]. rewrite leaves_node.
    induction cs as [|[s c] r IHr]; [discriminate|].
    inversion IH as [|? ? Hc Hr]; subst. cbn [find_list] in Hf. rewrite leaves_list_cons. apply in_or_app.
    destruct (Conc.find x c) eqn:Ec.
    + inversion Hf; subst. left. simpl in Hc. eapply Hc; eauto.
    + right. apply IHr; auto.
Qed.

Lemma next_leaf_found (t : itree) leaf i nxt es :
  NoDup (ids t) -> chain_ok (leaf_links t) -> Conc.find leaf t = Some (ILeaf i (Some nxt) es) ->
  exists nx' es', Conc.find nxt t = Some (ILeaf nxt nx' es') /\ nxt <> nid t.
Proof.
  intros Hnd Hch Hf. apply find_leaves in Hf. rewrite leaves_links in Hch.
  destruct (in_split _ _ Hf) as [L [R E]]. rewrite E in Hch.
  pose proof (chain_next K V L i (Some nxt) es R Hch) as Hn.
  destruct R as [|[[j nj] ej] R]; [discriminate|]. inversion Hn; subst nxt. unfold lid. simpl.
  assert (Hin : In (j, nj, ej) (leaves t)).
  { rewrite E. apply in_or_app. right. right. left. reflexivity. }
  exists nj, ej. split; [apply leaves_find; auto|].
  intros Hr. destruct t as [r nr er|r cs].
  - simpl in E. destruct L as [|a [|b L]]; discriminate.
  - simpl in Hr. subst r. rewrite leaves_node in Hin. apply leaves_list_ids in Hin. unfold lid in Hin. simpl in Hin.
    rewrite ids_node in Hnd. inversion Hnd as [|? ? Hni _]. tauto.
Qed.

End Chain.

(* RD_Proof.v — READ discipline of the concurrent model, as NON-INTERFERENCE: two states that agree on the stepping
   thread's record, the lock table, the tree mutex, the allocation counter, the fields of the nodes the thread
   holds or is being granted, and (for the step that takes the tree mutex) the root pointer, make the same step.
   See the summary at the end of the file. *)
From Coq Require Import List Permutation Lia Bool PeanoNat.
From GB Require Import ListLemmas TreeLemmas Frame LockProof ConcProps UpdLemmas FrameRel FrameInv FrameBlocks FrameProof
  OCCc_Base OCCc_Total OCCc_Reb SoloBase RD_Base RD_Blocks RD_Reb RD_Unwind.
Import ListNotations.

Section RDProof.
Variables (K V : Type) (ltb : K -> K -> bool).
Variable order : nat.
Notation itree := (itree K V).
Notation view := (view K V).
Notation pc := (pc K V).
Notation st := (st K V).
Notation out := (out K V).
Notation thread := (thread K V).

(* what the proof needs from the invariant of a state *)
Definition rd_inv (s : st) : Prop := all_inv K V s /\ lossless order (tr s).

Lemma pres_same N (t1 t2 t : itree) : pres N t1 t2 t t.
Proof. intros y _. reflexivity. Qed.

Lemma links_of_pc (t : itree) fr (p : pc) stk :
  pc_ok t fr p ->
  match p with DelWantLeft _ s | DelWantChild _ s | DelWantRight _ s => s = stk | _ => False end -> links stk.
Proof.
  intros H E. destruct p; try contradiction; subst; simpl in H.
  - destruct stk as [|f rest]; [exact I|]. destruct H as (_ & H2 & H3). split; [exact H2|]. eapply stack_ok_links; eauto.
  - destruct stk as [|f rest]; [exact I|]. destruct H as (_ & _ & H2 & H3). split; [exact H2|]. eapply stack_ok_links; eauto.
  - eapply stack_ok_links; eauto.
Qed.

(* the lock a thread waits for is computed from nodes it holds *)
Lemma target_sim (s1 s2 : st) me th tg :
  rd_inv s1 -> get_thread me (ths s1) = Some th ->
  agree_on (held_by me (lk s1)) (tr s1) (tr s2) ->
  target s1 (tpc th) = Ok tg -> target s2 (tpc th) = Ok tg.
Proof.
  intros [(_ & Hinv & Hfi) _] Hme Hag Htg.
  destruct Hinv as [Hli Hwf2]. pose proof Hli as (_ & _ & _ & _ & Hth).
  destruct (Hth me th Hme) as [_ [HP _]].
  pose proof (Hwf2 me th Hme) as Hw. pose proof (Hfi me th Hme) as Hok.
  assert (Hheld : forall x, In x (pc_nodes (tpc th)) -> In x (held_by me (lk s1))).
  { intros x Hx. eapply Permutation_in; [apply Permutation_sym; exact HP | exact Hx]. }
  assert (Hfp : forall o stk f rest,
            match tpc th with DelWantLeft o' s | DelWantChild o' s | DelWantRight o' s => o' = o /\ s = stk | _ => False end ->
            stk = f :: rest -> node_view (fp f) (tr s1) = node_view (fp f) (tr s2)).
  { intros o stk f rest E ->. apply Hag. apply Hheld.
    assert (Hl : links (f :: rest)).
    { eapply links_of_pc; [exact Hok|]. destruct (tpc th); try contradiction; destruct E; auto. }
    assert (Hb : bottom_ok (nid (tr s1)) (f :: rest)).
    { destruct (tpc th); try contradiction; destruct E as [_ ->]; simpl in Hw; tauto. }
    assert (Hn : pc_nodes (tpc th) = frames_nodes (f :: rest)).
    { destruct (tpc th); try contradiction; destruct E as [_ ->]; reflexivity. }
    rewrite Hn. rewrite (frames_nodes_bottom (nid (tr s1))); [|discriminate|exact Hb].
    apply (fp_in_frames (nid (tr s1)) (f :: rest) Hl Hb f). left. reflexivity. }
  destruct (tpc th) as [ |o|o r|o lft rgt|o p c index|o p c r|o leaf mode index|o p c|o stk|o stk|o stk|leaf i n acc|leaf nxt n acc];
    simpl in *; try exact Htg.
  all: destruct stk as [|f rest]; [discriminate Htg|].
  all: match type of Htg with bind ?e _ = _ => destruct e as [x|] eqn:E; [cbn [bind] in Htg|discriminate Htg] end.
  all: erewrite child_id_agree; [exact Htg | eapply Hfp; eauto; simpl; auto | exact E].
Qed.

Ltac blk_top HB :=
  match type of HB with
  | bind ?e _ = Ok _ => let E := fresh "HE" in destruct e eqn:E; [cbn [bind] in HB; inversion HB; subst; clear HB | discriminate HB]
  end.

Ltac in_solve := simpl; rewrite ?in_app_iff; simpl; tauto.
Ltac fin0 := exists 0; split; [cbn [bind]; try reflexivity | split; [cbn [ofresh]; try lia | cbn [seq]]].
Ltac osim_fin := unfold osim; cbn [olk ofresh otm opc oev otr]; do 5 (split; [reflexivity|]); (split; [try rd_nid|]).

Lemma bottom_ok_same r1 r2 (stk : list frame) : stk <> [] -> bottom_ok r1 stk -> bottom_ok r2 stk -> r2 = r1.
Proof.
  unfold bottom_ok. intros Hne H1 H2. destruct (rev stk) eqn:E; [apply rev_nil_inv in E; contradiction | congruence].
Qed.

Lemma set_nth_in {A} (cs : list A) i a x : nth_error cs i = Some a -> In x (set_nth i x cs).
Proof.
  intros H. destruct (nth_error_split cs i H) as [l1 [l2 [E L]]]. subst. rewrite set_nth_app. in_solve.
Qed.
Lemma ins_set_in1 {A} (cs : list A) i a x y : nth_error cs i = Some a -> In x (ins_nth (i + 1) y (set_nth i x cs)).
Proof.
  intros H. destruct (nth_error_split cs i H) as [l1 [l2 [E L]]]. subst. rewrite set_nth_app, ins_nth_app1. in_solve.
Qed.
Lemma ins_set_in2 {A} (cs : list A) i a x y : nth_error cs i = Some a -> In y (ins_nth (i + 1) y (set_nth i x cs)).
Proof.
  intros H. destruct (nth_error_split cs i H) as [l1 [l2 [E L]]]. subst. rewrite set_nth_app, ins_nth_app1. in_solve.
Qed.

Lemma view_root2 r k1 (a : itree) k2 (b : itree) : NoDup (ids (INode r [(k1, a); (k2, b)])) ->
  node_view (nid a) (INode r [(k1, a); (k2, b)]) = Some (view_of a) /\
  node_view (nid b) (INode r [(k1, a); (k2, b)]) = Some (view_of b).
Proof.
  intros Hnd.
  assert (Hf : find r (INode r [(k1, a); (k2, b)]) = Some (INode r [(k1, a); (k2, b)])).
  { rewrite find_eq. simpl nid. rewrite Nat.eqb_refl. reflexivity. }
  split; eapply view_kid; eauto; simpl; auto.
Qed.

(* the root split of Insert/Update on two trees with the same root node *)
Lemma root_split_pres fr ls rs (t1 t2 lft1 rgt1 lft2 rgt2 : itree) :
  NoDup (ids t1) -> NoDup (ids t2) -> nid t2 = nid t1 ->
  isplit order fr t1 = Some (lft1, rgt1) -> isplit order fr t2 = Some (lft2, rgt2) ->
  tsim lft1 lft2 -> tsim rgt1 rgt2 ->
  ~ In fr (ids t1) -> ~ In (S fr) (ids t1) -> ~ In fr (ids t2) -> ~ In (S fr) (ids t2) ->
  icount t1 <= 2 * Nat.div2 order -> icount t2 <= 2 * Nat.div2 order ->
  pres [fr; S fr] t1 t2 (INode (S fr) [(ls, lft1); (rs, rgt1)]) (INode (S fr) [(ls, lft2); (rs, rgt2)]) /\
  NoDup (ids (INode (S fr) [(ls, lft1); (rs, rgt1)])) /\ NoDup (ids (INode (S fr) [(ls, lft2); (rs, rgt2)])).
Proof.
  intros N1 N2 Hn Hs1 Hs2 [Sl1 Sl2] [Sr1 Sr2] F1 F1' F2 F2' C1 C2.
  destruct (root_split_rel K V ltb True order [nid t1; fr; S fr] fr ls rs lft1 rgt1 t1 N1 Hs1 F1 F1') as (_ & A2 & A3);
    try in_solve.
  destruct (root_split_rel K V ltb True order [nid t1; fr; S fr] fr ls rs lft2 rgt2 t2 N2 Hs2 F2 F2') as (_ & B2 & B3);
    try in_solve.
  { rewrite Hn. in_solve. }
  split; [|split; assumption].
  destruct (isplit_rel K V order fr t1 lft1 rgt1 Hs1) as (I1 & I2 & _).
  destruct (isplit_rel K V order fr t2 lft2 rgt2 Hs2) as (J1 & J2 & _).
  destruct (view_root2 _ _ _ _ _ A3) as [V1 V2]. destruct (view_root2 _ _ _ _ _ B3) as [U1 U2].
  apply pres_frm with (Wr := [nid t1; fr; S fr]); auto.
  { intros y Hy. simpl in *. tauto. }
  intros y Hy _. destruct Hy as [<-|[<-|[<-|[]]]].
  - rewrite I1 in V1. rewrite J1, Hn in U1. rewrite V1, U1. f_equal. exact Sl2.
  - rewrite I2 in V2. rewrite J2 in U2. rewrite V2, U2. f_equal. exact Sr2.
  - rewrite (view_found K V (S fr) _ (INode (S fr) [(ls, lft1); (rs, rgt1)]))
      by (rewrite find_eq; simpl nid; rewrite Nat.eqb_refl; reflexivity).
    rewrite (view_found K V (S fr) _ (INode (S fr) [(ls, lft2); (rs, rgt2)]))
      by (rewrite find_eq; simpl nid; rewrite Nat.eqb_refl; reflexivity).
    simpl. rewrite Sl1, Sr1. reflexivity.
Qed.

Lemma blk_sim : forall (s1 s2 : st) me th tg (o1 : out),
  rd_inv s1 -> rd_inv s2 ->
  get_thread me (ths s1) = Some th -> get_thread me (ths s2) = Some th ->
  lk s1 = lk s2 -> tm s1 = tm s2 -> fresh s1 = fresh s2 ->
  (forall o, tpc th = WantT o -> nid (tr s1) = nid (tr s2)) ->
  target s1 (tpc th) = Ok tg -> target s2 (tpc th) = Ok tg -> is_free s1 tg = true ->
  blk ltb order s1 me th tg = Ok (Some o1) ->
  agree_on (footprint s1 me tg) (tr s1) (tr s2) ->
  exists o2 k, blk ltb order s2 me th tg = Ok (Some o2) /\ ofresh o1 = fresh s1 + k /\
    osim (seq (fresh s1) k) (tr s1) (tr s2) o1 o2.
Proof.
  intros s1 s2 me th tg o1 [([Hnd1 Hlt1] & Hinv1 & Hfi1) Hl1] [([Hnd2 Hlt2] & Hinv2 & Hfi2) Hl2] Hme1 Hme2 Elk Etm Efr
    Hroot Htg Htg2 Hfree HB Hag.
  destruct Hinv1 as [Hli1 Hwf1]. destruct Hinv2 as [Hli2 Hwf2].
  pose proof Hli1 as [Hndl [Hndt [Hlk [Htm Hth]]]].
  destruct (Hth me th Hme1) as [Hwf [HP HT]].
  pose proof (Hwf1 me th Hme1) as Hw1. pose proof (Hwf2 me th Hme2) as Hw2.
  pose proof (Hfi1 me th Hme1) as Hok1. pose proof (Hfi2 me th Hme2) as Hok2.
  rewrite <- Efr in Hlt2, Hok2.
  assert (Hfr1 : ~ In (fresh s1) (ids (tr s1))).
  { intro X. rewrite Forall_forall in Hlt1. apply Hlt1 in X. lia. }
  assert (Hfr1' : ~ In (S (fresh s1)) (ids (tr s1))).
  { intro X. rewrite Forall_forall in Hlt1. apply Hlt1 in X. lia. }
  assert (Hfr2 : ~ In (fresh s1) (ids (tr s2))).
  { intro X. rewrite Forall_forall in Hlt2. apply Hlt2 in X. lia. }
  assert (Hfr2' : ~ In (S (fresh s1)) (ids (tr s2))).
  { intro X. rewrite Forall_forall in Hlt2. apply Hlt2 in X. lia. }
  assert (Hheld : forall x, In x (pc_nodes (tpc th)) -> In x (held_by me (lk s1))).
  { intros x Hx. eapply Permutation_in; [apply Permutation_sym; exact HP | exact Hx]. }
  assert (Hagh : forall x, In x (held_by me (lk s1)) -> node_view x (tr s1) = node_view x (tr s2)).
  { intros x Hx. apply Hag. unfold footprint. apply in_or_app. left. exact Hx. }
  assert (Hagg : forall x, tg = Some (Some x) -> node_view x (tr s1) = node_view x (tr s2)).
  { intros x ->. apply Hag. unfold footprint. apply in_or_app. right. simpl. auto. }
  unfold blk in *. rewrite <- Elk, <- Etm, <- Efr. cbv zeta in *.
  destruct (tpc th) as [ |o|o r|o lft rgt|o p c index|o p c r|o leaf mode index|o p c|o stk|o stk|o stk|leaf i n acc|leaf nxt n acc] eqn:Hpc.
  all: cbv beta iota in HB |- *; simpl in Htg, Htg2; try (inversion Htg; subst tg; clear Htg).
  all: simpl in Hw1, Hw2, Hok1, Hok2, Hheld.
  - (* Idle *)
    destruct (prog th) as [|o rest]; [discriminate HB|]. unfold mk in *. cbn [bind] in *. inversion HB; subst; clear HB.
    eexists. fin0. osim_fin. apply pres_refl.
  - (* WantT *)
    unfold mk in *. cbn [bind] in *. inversion HB; subst; clear HB. rewrite <- (Hroot o eq_refl).
    eexists. fin0. osim_fin. apply pres_refl.
  - (* WantRoot *)
    subst r. symmetry in Hw2.
    pose proof (Hagg _ eq_refl) as Vr.
    assert (Hts : tsim (tr s1) (tr s2)) by (apply tsim_root; [symmetry; exact Hw2 | exact Vr]).
    blk_top HB.
    destruct o as [k v|k f|k|k|k cnt].
    1,2: pose proof (isplit_sim K V order (fresh s1) _ _ Hts) as Hsp;
      destruct (isplit order (fresh s1) (tr s1)) as [[lft1 rgt1]|] eqn:Hsp1;
      [ destruct Hsp as (lft2 & rgt2 & Hsp2 & Sl & Sr); rewrite Hsp2;
        rewrite (tsim_ismallest _ _ _ _ Sl), (tsim_ismallest _ _ _ _ Sr);
        destruct (ismallest lft1) as [ls|] eqn:Els; [cbn [bind] in HE |- *|discriminate HE];
        destruct (ismallest rgt1) as [rs|] eqn:Ers; [cbn [bind] in HE |- *|discriminate HE];
        match type of HE with context [INode _ [(?ls', _); _]] =>
          destruct (root_split_pres (fresh s1) ls' rs (tr s1) (tr s2) lft1 rgt1 lft2 rgt2 Hnd1 Hnd2 Hw2 Hsp1 Hsp2 Sl Sr
                      Hfr1 Hfr1' Hfr2 Hfr2' (lossless_root K V order _ Hl1) (lossless_root K V order _ Hl2)) as (Hpr & NT1 & NT2)
        end;
        match type of HE with (if ?c then _ else _) = _ => destruct c end;
        [ match type of HE with ins_descend _ _ _ ?T1 _ _ _ = _ =>
            match goal with |- context [ins_descend _ _ _ ?T2 _ _ _] =>
              destruct (ins_descend_sim K V ltb _ _ T1 T2 _ _ _ _ HE NT1 NT2 (Hpr _ (or_introl Vr))) as (o2 & A & B)
            end end;
          rewrite A; exists o2, 2; split; [reflexivity|]; split; [rewrite (ins_descend_fresh _ _ _ _ _ _ _ _ _ _ HE); lia|];
          eapply osim_trans; [exact Hpr | intros _; reflexivity | exact B]
        | unfold mk in *; inversion HE; subst; clear HE; eexists; exists 2; split; [reflexivity|]; split; [cbn [ofresh]; lia|];
          osim_fin; exact Hpr ]
      | rewrite Hsp;
        destruct (ins_descend_sim K V ltb _ _ _ (tr s2) _ _ _ _ HE Hnd1 Hnd2 Vr) as (o2 & A & B);
        rewrite A; exists o2; fin0; [rewrite (ins_descend_fresh _ _ _ _ _ _ _ _ _ _ HE); lia | exact B] ].
    + (* CDelete *)
      destruct (tr s1) as [i nx es|i cs] eqn:Et.
      * rewrite (tsim_leaf _ _ _ _ _ _ Hts).
        destruct (leaf_delete ltb (Nat.div2 order) k es) as [[es' sm]|]; [cbn [bind] in HE |- *|discriminate HE].
        unfold mk in *. inversion HE; subst; clear HE. eexists. fin0. osim_fin. apply pres_same.
      * destruct (tsim_node _ _ _ _ _ Hts) as [cs2 [Et2 Hp]]. rewrite Et2.
        destruct (del_descend ltb (CDelete k) [] (nid (INode i cs)) (INode i cs)) as [p|] eqn:Ed; [cbn [bind] in HE|discriminate HE].
        rewrite <- Et2.
        rewrite (del_descend_sim K V ltb _ _ _ _ _ _ Ed Vr). cbn [bind].
        unfold mk in *. inversion HE; subst; clear HE. eexists. fin0. osim_fin. apply pres_refl.
    + (* CSearch *)
      destruct (sea_descend_sim K V ltb _ _ _ (tr s2) _ _ _ _ HE Vr) as (o2 & A & B).
      rewrite A. exists o2. fin0; [rewrite (sea_descend_fresh _ _ _ _ _ _ _ _ _ _ HE); lia | exact B].
    + (* CScan *)
      destruct (sea_descend_sim K V ltb _ _ _ (tr s2) _ _ _ _ HE Vr) as (o2 & A & B).
      rewrite A. exists o2. fin0; [rewrite (sea_descend_fresh _ _ _ _ _ _ _ _ _ _ HE); lia | exact B].
  - (* InsWantRootRight *)
    blk_top HB.
    destruct (ins_descend_sim K V ltb _ _ _ (tr s2) _ _ _ _ HE Hnd1 Hnd2 (Hagg _ eq_refl)) as (o2 & A & B).
    rewrite A. exists o2. fin0; [rewrite (ins_descend_fresh _ _ _ _ _ _ _ _ _ _ HE); lia | exact B].
  - (* InsWantChild *)
    blk_top HB.
    destruct Hok1 as [Hplt1 Hca1]. destruct Hok2 as [Hplt2 Hca2].
    assert (Hp : In p (held_by me (lk s1))) by (apply Hheld; simpl; auto).
    pose proof (Hagh _ Hp) as Vp. pose proof (Hagg c eq_refl) as Vc.
    destruct (find p (tr s1)) as [[?|pi cs]|] eqn:Hfp; try discriminate HE.
    destruct (find c (tr s1)) as [child|] eqn:Hfc; [|discriminate HE].
    destruct (view_find _ _ _ _ _ _ Vp Hfp) as [n2 [Hfp2 Hs]]. destruct (tsim_node _ _ _ _ _ Hs) as [cs2 [-> Hpt]]. rewrite Hfp2.
    destruct (view_find _ _ _ _ _ _ Vc Hfc) as [child2 [Hfc2 Hsc]]. rewrite Hfc2.
    destruct (get_nth index cs) as [[sep ch0]|] eqn:Hg; [cbn [bind] in HE|discriminate HE].
    symmetry in Hpt.
    destruct (ptrs_get_nth _ _ _ _ _ _ _ Hpt Hg) as [ch02 [Hg2 Hn0]]. rewrite Hg2. cbn [bind].
    apply get_nth_Ok in Hg. apply get_nth_Ok in Hg2.
    assert (Hch : child = ch0).
    { pose proof (child_at_nth K V _ _ _ _ _ _ _ _ Hca1 Hfp Hg) as Hn.
      pose proof (find_child K V p pi cs sep ch0 (tr s1) Hnd1 Hfp (nth_error_In _ _ Hg)) as Hf2.
      rewrite Hn in Hf2. congruence. }
    assert (Hch2 : child2 = ch02).
    { pose proof (child_at_nth K V _ _ _ _ _ _ _ _ Hca2 Hfp2 Hg2) as Hn.
      pose proof (find_child K V p pi cs2 sep ch02 (tr s2) Hnd2 Hfp2 (nth_error_In _ _ Hg2)) as Hf2.
      rewrite Hn in Hf2. congruence. }
    subst ch0 ch02.
    cbn [bind] in HE |- *.
    remember (if index =? 0 then (if ltb (key_of o) sep then key_of o else sep) else sep) as sep' eqn:Hsep.
    assert (Hnc : nid child = c) by (eapply find_nid; eauto).
    assert (Hnc2 : nid child2 = c) by (eapply find_nid; eauto).
    pose proof (isplit_sim K V order (fresh s1) _ _ Hsc) as Hsp.
    destruct (isplit order (fresh s1) child) as [[lft rgt]|] eqn:Hsp1.
    + destruct Hsp as (lft2 & rgt2 & Hsp2 & Sl & Sr). rewrite Hsp2.
      rewrite (tsim_ismallest _ _ _ _ Sr).
      destruct (ismallest rgt) as [rs|] eqn:Ers; [cbn [bind] in HE |- *|discriminate HE].
      match type of HE with bind ?e _ = _ => destruct e as [t1'|] eqn:Hu1; [cbn [bind] in HE|discriminate HE] end.
      destruct (upd_total K V p (INode pi (ins_nth (index + 1) (rs, rgt2) (set_nth index (sep', lft2) cs2))) (tr s2)) as [t2' Hu2].
      rewrite Hu2. cbn [bind].
      destruct (ins_split_rel K V ltb True order [p; c; fresh s1] p pi cs index sep sep' rs child lft rgt
                  (fresh s1) (tr s1) t1' Hnd1 Hfp Hg Hsp1 Hu1 Hfr1) as (_ & A2 & A3 & A4); try in_solve.
      { rewrite Hnc. in_solve. }
      { intros _. eapply Hl1; eauto. }
      destruct (ins_split_rel K V ltb True order [p; c; fresh s1] p pi cs2 index sep sep' rs child2 lft2 rgt2
                  (fresh s1) (tr s2) t2' Hnd2 Hfp2 Hg2 Hsp2 Hu2 Hfr2) as (_ & B2 & B3 & B4); try in_solve.
      { rewrite Hnc2. in_solve. }
      { intros _. eapply Hl2; eauto. }
      assert (Hpr : pres [fresh s1] (tr s1) (tr s2) t1' t2').
      { apply pres_frm with (Wr := [p; c; fresh s1]); auto.
        { intros y Hy. simpl in *. tauto. }
        pose proof (find_upd_same K V p (INode pi cs) (INode pi (ins_nth (index + 1) (rs, rgt) (set_nth index (sep', lft) cs)))
                      eq_refl (tr s1) t1' Hnd1 Hfp Hu1) as F1'.
        pose proof (find_upd_same K V p (INode pi cs2) (INode pi (ins_nth (index + 1) (rs, rgt2) (set_nth index (sep', lft2) cs2)))
                      eq_refl (tr s2) t2' Hnd2 Hfp2 Hu2) as F2'.
        destruct (isplit_rel K V order (fresh s1) child lft rgt Hsp1) as (I1 & I2 & _).
        destruct (isplit_rel K V order (fresh s1) child2 lft2 rgt2 Hsp2) as (J1 & J2 & _).
        destruct Sl as [Sl1 Sl2]. destruct Sr as [Sr1 Sr2].
        intros y Hy _. destruct Hy as [<-|[<-|[<-|[]]]].
        - rewrite (view_found _ _ _ _ _ F1'), (view_found _ _ _ _ _ F2'). simpl.
          fold (ptrs (ins_nth (index + 1) (rs, rgt) (set_nth index (sep', lft) cs))).
          fold (ptrs (ins_nth (index + 1) (rs, rgt2) (set_nth index (sep', lft2) cs2))).
          rewrite !ptrs_ins_nth, !ptrs_set_nth, Hpt, Sl1, Sr1. reflexivity.
        - pose proof (view_kid K V _ _ _ _ _ _ A3 F1' (ins_set_in1 _ _ _ _ _ Hg)) as X1. rewrite I1, Hnc in X1.
          pose proof (view_kid K V _ _ _ _ _ _ B3 F2' (ins_set_in1 _ _ _ _ _ Hg2)) as X2. rewrite J1, Hnc2 in X2.
          rewrite X1, X2. f_equal. exact Sl2.
        - pose proof (view_kid K V _ _ _ _ _ _ A3 F1' (ins_set_in2 _ _ _ _ _ Hg)) as X1. rewrite I2 in X1.
          pose proof (view_kid K V _ _ _ _ _ _ B3 F2' (ins_set_in2 _ _ _ _ _ Hg2)) as X2. rewrite J2 in X2.
          rewrite X1, X2. f_equal. exact Sr2. }
      match type of HE with (if ?c then _ else _) = _ => destruct c end.
      * destruct (ins_descend_sim K V ltb _ _ t1' t2' _ _ _ _ HE A3 B3 (Hpr _ (or_introl Vc))) as (o2 & A & B).
        rewrite A. exists o2, 1. split; [reflexivity|]. split; [rewrite (ins_descend_fresh _ _ _ _ _ _ _ _ _ _ HE); lia|].
        eapply osim_trans; [exact Hpr | intros; congruence | exact B].
      * unfold mk in *. inversion HE; subst; clear HE. eexists. exists 1. split; [reflexivity|]. split; [cbn [ofresh]; lia|].
        osim_fin. exact Hpr.
    + rewrite Hsp.
      match type of HE with bind ?e _ = _ => destruct e as [t1'|] eqn:Hu1; [cbn [bind] in HE|discriminate HE] end.
      destruct (upd_total K V p (INode pi (set_nth index (sep', child2) cs2)) (tr s2)) as [t2' Hu2].
      rewrite Hu2. cbn [bind].
      destruct (ins_nosplit_rel K V True [p] p pi cs index sep sep' child (tr s1) t1' Hnd1 Hfp Hg Hu1) as (_ & A2 & A3 & A4);
        [in_solve|].
      destruct (ins_nosplit_rel K V True [p] p pi cs2 index sep sep' child2 (tr s2) t2' Hnd2 Hfp2 Hg2 Hu2) as (_ & B2 & B3 & B4);
        [in_solve|].
      assert (Hpr : pres [] (tr s1) (tr s2) t1' t2').
      { apply pres_frm with (Wr := [p]); auto.
        { intros y []. }
        pose proof (find_upd_same K V p (INode pi cs) (INode pi (set_nth index (sep', child) cs))
                      eq_refl (tr s1) t1' Hnd1 Hfp Hu1) as F1'.
        pose proof (find_upd_same K V p (INode pi cs2) (INode pi (set_nth index (sep', child2) cs2))
                      eq_refl (tr s2) t2' Hnd2 Hfp2 Hu2) as F2'.
        intros y [<-|[]] _.
        rewrite (view_found _ _ _ _ _ F1'), (view_found _ _ _ _ _ F2'). simpl.
        fold (ptrs (set_nth index (sep', child) cs)). fold (ptrs (set_nth index (sep', child2) cs2)).
        rewrite !ptrs_set_nth, Hpt, Hnc, Hnc2. reflexivity. }
      destruct (ins_descend_sim K V ltb _ _ t1' t2' _ _ _ _ HE A3 B3 (Hpr _ (or_introl Vc))) as (o2 & A & B).
      rewrite A. exists o2. fin0; [rewrite (ins_descend_fresh _ _ _ _ _ _ _ _ _ _ HE); lia |].
      eapply osim_trans; [exact Hpr | intros; congruence | exact B].
  - (* InsWantSplitRight *)
    blk_top HB.
    destruct (ins_descend_sim K V ltb _ _ _ (tr s2) _ _ _ _ HE Hnd1 Hnd2 (Hagg _ eq_refl)) as (o2 & A & B).
    rewrite A. exists o2. fin0; [rewrite (ins_descend_fresh _ _ _ _ _ _ _ _ _ _ HE); lia | exact B].
  - (* UpdCallback *)
    blk_top HB.
    assert (Hl : In leaf (held_by me (lk s1))) by (apply Hheld; simpl; auto).
    destruct o as [| k f | | |]; try discriminate HE.
    destruct (find leaf (tr s1)) as [[i nx es|?]|] eqn:Hfl; try discriminate HE.
    destruct (view_find _ _ _ _ _ _ (Hagh _ Hl) Hfl) as [n2 [Hfl2 Hs]]. rewrite (tsim_leaf _ _ _ _ _ _ Hs) in Hfl2. rewrite Hfl2.
    unfold mk in *. mirror HE; inversion HE; subst; clear HE.
    all: match goal with U : upd _ (fun _ => Ok (ILeaf _ _ ?es')) _ = Ok ?t1' |- _ =>
           destruct (upd_leaf_pres K V _ _ _ _ _ es' _ (tr s2) t1' Hnd1 Hnd2 Hfl Hfl2 U) as (t2' & U2 & P & _ & _ & R1 & R2); rewrite U2; cbn [bind] end.
    all: eexists; fin0; osim_fin; exact P.
  - (* SeaWantChild *)
    blk_top HB.
    destruct (sea_descend_sim K V ltb _ _ _ (tr s2) _ _ _ _ HE (Hagg _ eq_refl)) as (o2 & A & B).
    rewrite A. exists o2. fin0; [rewrite (sea_descend_fresh _ _ _ _ _ _ _ _ _ _ HE); lia | exact B].
  - (* DelWantLeft *)
    destruct stk as [|f l]; [discriminate Htg|].
    destruct (child_id (tr s1) (fp f) (fidx f - 1)) as [a|] eqn:E1; [cbn [bind] in Htg|discriminate Htg].
    inversion Htg; subst tg; clear Htg.
    unfold mk in *. cbn [bind] in *. inversion HB; subst; clear HB.
    eexists. fin0. osim_fin. apply pres_refl.
  - (* DelWantChild *)
    destruct stk as [|f l]; [discriminate Htg|].
    destruct (child_id (tr s1) (fp f) (fidx f)) as [a|] eqn:E1; [cbn [bind] in Htg|discriminate Htg].
    inversion Htg; subst tg; clear Htg.
    destruct (child_id (tr s2) (fp f) (fidx f)) as [a2|] eqn:E2; [cbn [bind] in Htg2|discriminate Htg2].
    inversion Htg2; subst a2; clear Htg2.
    blk_top HB.
    destruct Hok1 as (O1 & O2 & O3 & O4). destruct Hok2 as (P1 & P2 & P3 & P4).
    destruct Hw1 as [Hb1 Hfc]. destruct Hw2 as [Hb2 _].
    assert (Hroot2 : nid (tr s2) = nid (tr s1)) by (eapply bottom_ok_same; eauto; discriminate).
    pose proof (Hagg a eq_refl) as Va.
    assert (HbA1 : bottom_ok (nid (tr s1)) (set_fc f a :: l)) by (eapply bottom_ok_replace; eauto).
    assert (Hs1 : stack_ok (tr s1) (fresh s1) (set_fc f a :: l)).
    { simpl. split; [exact O1|]. split; [exact O2|]. split; [|split; [exact O3|exact O4]].
      exists a. split; [reflexivity|]. apply child_id_at. exact E1. }
    assert (Hs2 : stack_ok (tr s2) (fresh s1) (set_fc f a :: l)).
    { simpl. split; [exact P1|]. split; [exact P2|]. split; [|split; [exact P3|exact P4]].
      exists a. split; [reflexivity|]. apply child_id_at. exact E2. }
    assert (Hperm : Permutation (a :: held_by me (lk s1)) (nid (tr s1) :: flat_map fkids (set_fc f a :: l))).
    { rewrite HP. simpl pc_nodes. eapply perm_trans; [eapply frames_set_fc; eauto|].
      rewrite (frames_nodes_bottom (nid (tr s1))); [reflexivity | discriminate | exact HbA1]. }
    assert (Hga : NoDup (a :: held_by me (lk s1))) by (eapply granted_nodup; eauto).
    assert (Hnd1' : NoDup (nid (tr s1) :: flat_map fkids (set_fc f a :: l))).
    { eapply Permutation_NoDup; [exact Hperm | exact Hga]. }
    assert (Hin1 : incl (nid (tr s1) :: flat_map fkids (set_fc f a :: l)) (held_by me (lk s1) ++ [a])).
    { intros x Hx. eapply Permutation_in in Hx; [|apply Permutation_sym; exact Hperm]. destruct Hx as [<-|Hx]; in_solve. }
    assert (Hnota : forall g, In g (set_fc f a :: l) -> ~ In (fp g) [a]).
    { intros g Hg [Ea|[]].
      assert (Hgh : In (fp g) (held_by me (lk s1))).
      { apply Hheld.
        assert (Hlinks : links (f :: l)) by (split; [exact O3 | eapply stack_ok_links; eauto]).
        rewrite (frames_nodes_bottom (nid (tr s1))); [ | discriminate | exact Hb1].
        destruct Hg as [<-|Hg].
        - apply (fp_in_frames (nid (tr s1)) (f :: l) Hlinks Hb1 f). left. reflexivity.
        - apply (fp_in_frames (nid (tr s1)) (f :: l) Hlinks Hb1 g). right. exact Hg. }
      inversion Hga as [|? ? Hni _]. apply Hni. rewrite Ea. exact Hgh. }
    destruct (find a (tr s1)) as [[i nx es|i cs]|] eqn:Hfa; try discriminate HE.
    + destruct (view_find _ _ _ _ _ _ Va Hfa) as [n2 [Hfa2 Hs]]. rewrite (tsim_leaf _ _ _ _ _ _ Hs) in Hfa2. rewrite Hfa2.
      destruct (leaf_delete ltb (Nat.div2 order) (key_of o) es) as [[es' small]|] eqn:Hld; [cbn [bind] in HE |- *|discriminate HE].
      match type of HE with bind ?e _ = _ => destruct e as [t1'|] eqn:Hu; [cbn [bind] in HE|discriminate HE] end.
      destruct (upd_leaf_pres K V a i nx es nx es' (tr s1) (tr s2) t1' Hnd1 Hnd2 Hfa Hfa2 Hu) as (t2' & U2 & Ppres & N1' & N2' & R1 & R2).
      rewrite U2. cbn [bind].
      destruct (upd_leaf_rel K V True [a] a i nx nx es es' (tr s1) t1' Hnd1 Hfa Hu) as (_ & A2 & _ & _); [in_solve|].
      destruct (upd_leaf_rel K V True [a] a i nx nx es es' (tr s2) t2' Hnd2 Hfa2 U2) as (_ & B2 & _ & _); [in_solve|].
      destruct (unwind_sim K V ltb order (footprint s1 me (Some (Some a))) _ o (set_fc f a :: l) small None t1' t2' _ (fresh s1) _ o1 HE N1' N2')
        as (o2 & U & B).
      * eapply stack_ok_frm with (W := [a]); [exact A2 | apply le_n | exact Hnota | exact Hs1].
      * eapply stack_ok_frm with (W := [a]); [exact B2 | apply le_n | exact Hnota | exact Hs2].
      * rewrite R1. exact HbA1.
      * congruence.
      * discriminate.
      * rewrite R1. exact Hnd1'.
      * rewrite R1. intros x Hx. unfold footprint. simpl granted. apply Hin1. exact Hx.
      * intros x Hx. discriminate Hx.
      * eapply pres_agree0; eauto.
      * rewrite U. exists o2. fin0; [rewrite (unwind_fresh K V _ _ _ _ _ _ _ _ _ _ _ HE); lia|].
        eapply osim_trans; [exact Ppres | intros; congruence | exact B].
    + destruct (view_find _ _ _ _ _ _ Va Hfa) as [n2 [Hfa2 Hs]]. destruct (tsim_node _ _ _ _ _ Hs) as [cs2 [-> Hpt]]. rewrite Hfa2.
      match type of HE with bind ?e _ = _ => destruct e as [p|] eqn:Ed; [cbn [bind] in HE|discriminate HE] end.
      rewrite (del_descend_sim K V ltb _ _ _ _ _ _ Ed Va). cbn [bind].
      unfold mk in *. inversion HE; subst; clear HE. eexists. fin0. osim_fin. apply pres_refl.
  - (* DelWantRight *)
    destruct stk as [|f l]; [discriminate Htg|].
    destruct (child_id (tr s1) (fp f) (fidx f + 1)) as [a|] eqn:E1; [cbn [bind] in Htg|discriminate Htg].
    inversion Htg; subst tg; clear Htg.
    blk_top HB. destruct Hw1 as [Hb1 _]. destruct Hw2 as [Hb2 _].
    assert (Hroot2 : nid (tr s2) = nid (tr s1)) by (eapply bottom_ok_same; eauto; discriminate).
    assert (Hperm : Permutation (a :: held_by me (lk s1)) (nid (tr s1) :: a :: flat_map fkids (f :: l))).
    { rewrite HP. simpl pc_nodes. rewrite (frames_nodes_bottom (nid (tr s1))); [apply perm_swap | discriminate | exact Hb1]. }
    destruct (unwind_sim K V ltb order (footprint s1 me (Some (Some a))) _ o (f :: l) true (Some a) (tr s1) (tr s2) _ (fresh s1) _ o1 HE
                Hnd1 Hnd2 Hok1 Hok2 Hb1 Hroot2) as (o2 & U & B).
    + discriminate.
    + simpl opt_list. simpl app. eapply Permutation_NoDup; [exact Hperm | eapply granted_nodup; eauto].
    + intros x Hx. change (In x (nid (tr s1) :: a :: flat_map fkids (f :: l))) in Hx.
      eapply Permutation_in in Hx; [|apply Permutation_sym; exact Hperm].
      unfold footprint. destruct Hx as [<-|Hx]; in_solve.
    + intros x Hx. inversion Hx; subst. simpl. apply child_id_at. exact E1.
    + exact Hag.
    + rewrite U. exists o2. fin0; [rewrite (unwind_fresh K V _ _ _ _ _ _ _ _ _ _ _ HE); lia | exact B].
  - (* CurRest *)
    blk_top HB. destruct n as [|n'].
    + unfold mk in *. inversion HE; subst; clear HE. eexists. fin0. osim_fin. apply pres_refl.
    + assert (Hl : In leaf (held_by me (lk s1))) by (apply Hheld; simpl; auto).
      destruct (find leaf (tr s1)) as [[i0 nx es|?]|] eqn:Hfl; try discriminate HE.
      destruct (view_find _ _ _ _ _ _ (Hagh _ Hl) Hfl) as [n2 [Hfl2 Hs]]. rewrite (tsim_leaf _ _ _ _ _ _ Hs) in Hfl2. rewrite Hfl2.
      unfold mk in *. mirror HE; inversion HE; subst; clear HE; eexists; fin0; osim_fin; apply pres_refl.
  - (* CurWantNext *)
    blk_top HB.
    destruct (find nxt (tr s1)) as [[i0 nx [|e es]|?]|] eqn:Hf; try discriminate HE.
    destruct (view_find _ _ _ _ _ _ (Hagg nxt eq_refl) Hf) as [n2 [Hf2 Hs]]. rewrite (tsim_leaf _ _ _ _ _ _ Hs) in Hf2. rewrite Hf2.
    unfold mk in *. inversion HE; subst; clear HE. eexists. fin0. osim_fin. apply pres_refl.
Qed.

(* ------------------------------------------------------------------------------------------------ *)
(* the theorem, from the three structural invariants and the capacity bound                           *)
(* ------------------------------------------------------------------------------------------------ *)
(* strong form: besides the footprint, EVERY node on which the two trees agreed before the step (and every node
   allocated by the step) is a node on which they agree after the step; and if the root pointers agreed they still do *)
Theorem read_discipline_strong : forall (s1 s2 : st) me th s1' acq ev,
  rd_inv s1 -> rd_inv s2 ->
  get_thread me (ths s1) = Some th -> get_thread me (ths s2) = Some th ->
  lk s1 = lk s2 -> tm s1 = tm s2 -> fresh s1 = fresh s2 ->
  (forall o, tpc th = WantT o -> nid (tr s1) = nid (tr s2)) ->
  cstep ltb order s1 me = Stepped s1' acq ev ->
  agree_on (footprint s1 me acq) (tr s1) (tr s2) ->
  exists s2',
    cstep ltb order s2 me = Stepped s2' acq ev /\
    get_thread me (ths s2') = get_thread me (ths s1') /\
    lk s2' = lk s1' /\ tm s2' = tm s1' /\ fresh s2' = fresh s1' /\
    (nid (tr s1) = nid (tr s2) -> nid (tr s1') = nid (tr s2')) /\
    pres (seq (fresh s1) (fresh s1' - fresh s1)) (tr s1) (tr s2) (tr s1') (tr s2').
Proof.
  intros s1 s2 me th s1' acq ev I1 I2 Hme1 Hme2 Elk Etm Efr Hroot Hc Hag.
  rewrite cstep_eq, Hme1 in Hc.
  destruct (target s1 (tpc th)) as [tg|] eqn:Htg; [|discriminate Hc].
  destruct (negb (is_free s1 tg)) eqn:Hfree; [discriminate Hc|]. apply negb_false_iff in Hfree.
  destruct (blk ltb order s1 me th tg) as [[o1|]|] eqn:HB; try discriminate Hc.
  inversion Hc; subst s1' acq ev; clear Hc.
  assert (Htg2 : target s2 (tpc th) = Ok tg).
  { apply (target_sim s1 s2 me th tg I1 Hme1); [|exact Htg].
    intros x Hx. apply Hag. unfold footprint. apply in_or_app. left. exact Hx. }
  assert (Hfree2 : is_free s2 tg = true).
  { unfold is_free in *. rewrite <- Elk, <- Etm. exact Hfree. }
  destruct (blk_sim s1 s2 me th tg o1 I1 I2 Hme1 Hme2 Elk Etm Efr Hroot Htg Htg2 Hfree HB Hag)
    as (o2 & k & HB2 & Hk & (A & B & C & D & E & G & F)).
  exists (commit s2 me th o2). split.
  - rewrite cstep_eq, Hme2, Htg2, Hfree2, HB2. simpl. rewrite E. reflexivity.
  - unfold commit. cbn [ths lk tm fresh tr]. split; [|split; [exact A|split; [exact C|split; [exact B|split; [exact G|]]]]].
    + rewrite (get_set_same K V me th _ (ths s2) Hme2), (get_set_same K V me th _ (ths s1) Hme1).
      rewrite D, E. reflexivity.
    + replace (ofresh o1 - fresh s1) with k by lia. exact F.
Qed.

(* ------------------------------------------------------------------------------------------------ *)
(* the theorem, from the three structural invariants and the capacity bound                           *)
(* ------------------------------------------------------------------------------------------------ *)
Theorem read_discipline_core : forall (s1 s2 : st) me th s1' acq ev,
  rd_inv s1 -> rd_inv s2 ->
  get_thread me (ths s1) = Some th -> get_thread me (ths s2) = Some th ->
  lk s1 = lk s2 -> tm s1 = tm s2 -> fresh s1 = fresh s2 ->
  (forall o, tpc th = WantT o -> nid (tr s1) = nid (tr s2)) ->
  cstep ltb order s1 me = Stepped s1' acq ev ->
  agree_on (footprint s1 me acq) (tr s1) (tr s2) ->
  exists s2',
    cstep ltb order s2 me = Stepped s2' acq ev /\
    get_thread me (ths s2') = get_thread me (ths s1') /\
    lk s2' = lk s1' /\ tm s2' = tm s1' /\ fresh s2' = fresh s1' /\
    agree_on (footprint s1 me acq ++ seq (fresh s1) (fresh s1' - fresh s1)) (tr s1') (tr s2').
Proof.
  intros s1 s2 me th s1' acq ev I1 I2 Hme1 Hme2 Elk Etm Efr Hroot Hc Hag.
  destruct (read_discipline_strong s1 s2 me th s1' acq ev I1 I2 Hme1 Hme2 Elk Etm Efr Hroot Hc Hag)
    as (s2' & A & B & C & D & E & _ & F).
  exists s2'. repeat (split; [assumption|]). eapply pres_agree; eauto.
Qed.

End RDProof.

(* ------------------------------------------------------------------------------------------------ *)
(* the theorem as requested, from the assembled invariant BigInv of ASM_Proof.v                       *)
(* ------------------------------------------------------------------------------------------------ *)
From GB Require Import Inv CIDef LinDef ASM_Proof.

Section RDFinal.
Variables (K V : Type) (ltb : K -> K -> bool).
Variable order : nat.
Hypothesis Heven : Nat.even order = true.

Lemma BigInv_rd_inv (s : st K V) : BigInv K V ltb order s -> rd_inv K V order s.
Proof.
  intros (HC & _). destruct HC as (HF & HA & _). destruct HF as [[HG _] _].
  split; [exact HA|]. eapply GI_lossless; eauto.
Qed.

(* root-pointer premise exactly where the root pointer is read without being recorded in the thread's pc:
   the step WantT -> WantRoot, right after the tree mutex is taken *)
Theorem read_discipline_min : forall (s1 s2 : st K V) me th s1' acq ev,
  BigInv K V ltb order s1 -> BigInv K V ltb order s2 ->
  get_thread me (ths s1) = Some th -> get_thread me (ths s2) = Some th ->
  lk s1 = lk s2 -> tm s1 = tm s2 -> fresh s1 = fresh s2 ->
  (forall o, tpc th = WantT o -> nid (tr s1) = nid (tr s2)) ->
  cstep ltb order s1 me = Stepped s1' acq ev ->
  agree_on (footprint s1 me acq) (tr s1) (tr s2) ->
  exists s2',
    cstep ltb order s2 me = Stepped s2' acq ev /\
    get_thread me (ths s2') = get_thread me (ths s1') /\
    lk s2' = lk s1' /\ tm s2' = tm s1' /\ fresh s2' = fresh s1' /\
    agree_on (footprint s1 me acq ++ seq (fresh s1) (fresh s1' - fresh s1)) (tr s1') (tr s2').
Proof.
  intros s1 s2 me th s1' acq ev B1 B2. apply read_discipline_core; apply BigInv_rd_inv; assumption.
Qed.

Theorem read_discipline_strong_BigInv : forall (s1 s2 : st K V) me th s1' acq ev,
  BigInv K V ltb order s1 -> BigInv K V ltb order s2 ->
  get_thread me (ths s1) = Some th -> get_thread me (ths s2) = Some th ->
  lk s1 = lk s2 -> tm s1 = tm s2 -> fresh s1 = fresh s2 ->
  (forall o, tpc th = WantT o -> nid (tr s1) = nid (tr s2)) ->
  cstep ltb order s1 me = Stepped s1' acq ev ->
  agree_on (footprint s1 me acq) (tr s1) (tr s2) ->
  exists s2',
    cstep ltb order s2 me = Stepped s2' acq ev /\
    get_thread me (ths s2') = get_thread me (ths s1') /\
    lk s2' = lk s1' /\ tm s2' = tm s1' /\ fresh s2' = fresh s1' /\
    (nid (tr s1) = nid (tr s2) -> nid (tr s1') = nid (tr s2')) /\
    pres (seq (fresh s1) (fresh s1' - fresh s1)) (tr s1) (tr s2) (tr s1') (tr s2').
Proof.
  intros s1 s2 me th s1' acq ev B1 B2. apply read_discipline_strong; apply BigInv_rd_inv; assumption.
Qed.

(* the statement of the task: root-pointer agreement assumed for tree-mutex holders and for the WantT step *)
Theorem read_discipline : forall (s1 s2 : st K V) me th s1' acq ev,
  BigInv K V ltb order s1 -> BigInv K V ltb order s2 ->
  get_thread me (ths s1) = Some th -> get_thread me (ths s2) = Some th ->
  lk s1 = lk s2 -> tm s1 = tm s2 -> fresh s1 = fresh s2 ->
  (pc_holds_T (tpc th) = true \/ (exists o, tpc th = WantT o) -> nid (tr s1) = nid (tr s2)) ->
  cstep ltb order s1 me = Stepped s1' acq ev ->
  agree_on (footprint s1 me acq) (tr s1) (tr s2) ->
  exists s2',
    cstep ltb order s2 me = Stepped s2' acq ev /\
    get_thread me (ths s2') = get_thread me (ths s1') /\
    lk s2' = lk s1' /\ tm s2' = tm s1' /\ fresh s2' = fresh s1' /\
    agree_on (footprint s1 me acq ++ seq (fresh s1) (fresh s1' - fresh s1)) (tr s1') (tr s2').
Proof.
  intros s1 s2 me th s1' acq ev B1 B2 Hme1 Hme2 Elk Etm Efr Hroot.
  apply read_discipline_min with (th := th); try assumption. intros o Ho. apply Hroot. right. exists o. exact Ho.
Qed.

End RDFinal.

Print Assumptions read_discipline_strong.
Print Assumptions read_discipline_core.
Print Assumptions read_discipline.

(* ================================================================================================
   SUMMARY (files RD_Base.v, RD_Blocks.v, RD_Reb.v, RD_Unwind.v, RD_Proof.v, RD_Demo.v; no axioms)

   Definitions (RD_Base.v)
     agree_on W t1 t2  := forall x, In x W -> node_view x t1 = node_view x t2
     footprint s me tg := held_by me (lk s) ++ granted tg
     pres N t1 t2 t1' t2' := forall y, node_view y t1 = node_view y t2 \/ In y N -> node_view y t1' = node_view y t2'

   Theorems (this file), ALL thirteen program counters covered (Search/Scan/cursor, Insert/Update, Delete):
     read_discipline          the statement of the task, premises BigInv for both states, Nat.even order = true; root
                              premise  pc_holds_T (tpc th) = true \/ (exists o, tpc th = WantT o) -> nid (tr s1) = nid (tr s2)
     read_discipline_min      same with the root premise ONLY for the WantT step:
                                forall o, tpc th = WantT o -> nid (tr s1) = nid (tr s2)
     read_discipline_core     same as _min from rd_inv s := all_inv K V s /\ lossless order (tr s) (no SWO, no parity)
     read_discipline_strong   (+ _BigInv) conclusion strengthened to
                                (nid (tr s1) = nid (tr s2) -> nid (tr s1') = nid (tr s2')) /\
                                pres (seq (fresh s1) (fresh s1' - fresh s1)) (tr s1) (tr s2) (tr s1') (tr s2')
                              i.e. EVERY node on which the trees agreed (not only the footprint) and every node allocated
                              by the step is a node on which they agree afterwards, and root agreement is preserved.

   Findings
     1. No step reads a node field outside its footprint: the statement holds as proposed; no extra agreement premise
        was needed.
     2. Root pointer.  It is read by WantT (next pc := WantRoot o (nid t)), by WantRoot (the whole tree is handed to
        isplit / ins_descend / sea_descend / del_descend / the leaf-root Delete), and by the last step of unwind (nid t,
        root collapse).  Only for WantT is a premise needed: for WantRoot and the Delete pcs the pc itself records the
        root (lock_inv2/pc_wf2: WantRoot's r, the bottom frame of a Delete stack), so for two states with the same
        thread record that both satisfy the invariant the roots coincide.  InsWantRootRight holds the tree mutex but
        does not read the root pointer.  RD_Demo.rd_root_premise_needed shows (vm_compute, two reachable states) that
        the WantT premise cannot be dropped.
     3. target of the Delete pcs reads child ids of fp f (held); is_free reads the lock table / tree mutex only;
        CurWantNext reads the first pair of the granted leaf; irebalance reads the parent fp f, the child fc, the left
        sibling fl when 0 < fidx, and the right sibling only when it exists — and then it has just been granted
        (DelWantRight); all inside the footprint.
     4. RD_Demo.rd_demo_hypotheses / rd_demo: the hypotheses are satisfiable by two different reachable states (they
        differ in a leaf that the stepping thread neither holds nor is granted).
   ================================================================================================ *)

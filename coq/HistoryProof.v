(* HistoryProof.v — the per-operation theorems lifted to every finite history (C01, C02, C05, C08). *)
From Coq Require Import List Bool Lia PeanoNat.
From GB Require Import Model Spec Inv SearchProof SpecLaws InvProof SearchScanProof UpsertProof DeleteProof.
Import ListNotations.

Section H.
Variables (K V : Type) (ltb : K -> K -> bool).
Hypothesis HS : SWO ltb.
Notation tree := (tree K V).

Definition is_delete (o : op K V) : bool := match o with ODelete _ => true | _ => false end.
Definition no_delete (ops : list (op K V)) : Prop := forallb (fun o => negb (is_delete o)) ops = true.

(* orders at which every operation is covered: even and >= 4, or even and >= 2 when the history has no Delete *)
Definition order_ok (order : nat) (ops : list (op K V)) : Prop :=
  Nat.even order = true /\ (4 <= order \/ (2 <= order /\ no_delete ops)).

Lemma Inv_empty order : Inv ltb order (Leaf (@nil (K * V))).
Proof. repeat split; simpl; auto; lia. Qed.

Lemma step_refines order (t : tree) (o : op K V) :
  Nat.even order = true -> (4 <= order \/ (2 <= order /\ is_delete o = false)) -> Inv ltb order t ->
  exists t', step_tree ltb order t o = Ok (t', snd (step_spec ltb (entries t) o)) /\
             entries t' = fst (step_spec ltb (entries t) o) /\ Inv ltb order t'.
Proof.
  intros He Ho Hi. assert (H2 : 2 <= order) by (destruct Ho as [?|[? _]]; lia).
  destruct o as [k v|k f|k|k]; cbn [step_tree step_spec fst snd].
  - destruct (upsert_spec K V ltb HS order k (fun _ => v) t H2 He Hi) as [t' [E [En I']]].
    exists t'. rewrite E. cbn. auto.
  - destruct (upsert_spec K V ltb HS order k f t H2 He Hi) as [t' [E [En I']]].
    exists t'. rewrite E. cbn. auto.
  - destruct Ho as [H4|[_ Hd]]; [|discriminate].
    destruct (delete_spec K V ltb HS order k t H4 He Hi) as [t' [E [En I']]].
    exists t'. rewrite E. cbn. auto.
  - exists t. rewrite (search_correct K V ltb HS order k t Hi). cbn. auto.
Qed.

Theorem run_refines order : forall (ops : list (op K V)) (t : tree),
  order_ok order ops -> Inv ltb order t ->
  exists t', run_tree ltb order t ops = Ok (t', snd (run_spec ltb (entries t) ops)) /\
             entries t' = fst (run_spec ltb (entries t) ops) /\ Inv ltb order t'.
Proof.
  induction ops as [|o ops IH]; intros t [He Ho] Hi.
  - exists t. cbn. auto.
  - assert (Ho1 : 4 <= order \/ (2 <= order /\ is_delete o = false)).
    { destruct Ho as [?|[H2 Hn]]; [now left|right; split; [exact H2|]].
      unfold no_delete in Hn. cbn in Hn. apply andb_true_iff in Hn. destruct Hn as [Hn _].
      now apply negb_true_iff in Hn. }
    assert (Ho2 : order_ok order ops).
    { split; [exact He|]. destruct Ho as [?|[H2 Hn]]; [now left|right; split; [exact H2|]].
      unfold no_delete in *. cbn in Hn. apply andb_true_iff in Hn. tauto. }
    destruct (step_refines order t o He Ho1 Hi) as [t1 [E1 [En1 I1]]].
    destruct (IH t1 Ho2 I1) as [t2 [E2 [En2 I2]]].
    exists t2. cbn [run_tree run_spec]. rewrite E1. cbn [bind].
    destruct (step_spec ltb (entries t) o) as [m1 x1] eqn:Es. cbn [fst snd] in *. subst m1.
    rewrite E2. cbn [bind]. destruct (run_spec ltb (entries t1) ops) as [m2 xs] eqn:Er. cbn [fst snd] in *.
    auto.
Qed.

(* from the empty tree *)
Corollary history_refines order (ops : list (op K V)) : order_ok order ops ->
  exists t, run_tree ltb order (Leaf []) ops = Ok (t, snd (run_spec ltb [] ops)) /\
            entries t = fst (run_spec ltb [] ops) /\ Inv ltb order t.
Proof. intros Ho. exact (run_refines order ops (Leaf []) Ho (Inv_empty order)). Qed.

(* a scan of the tree reached by any history yields exactly the specification's suffix *)
Corollary history_scan order (ops : list (op K V)) k : order_ok order ops ->
  exists t, run_tree ltb order (Leaf []) ops = Ok (t, snd (run_spec ltb [] ops)) /\
            scan ltb k t = Ok (from ltb k (fst (run_spec ltb [] ops))).
Proof.
  intros Ho. destruct (history_refines order ops Ho) as [t [E [En I]]]. exists t. split; [exact E|].
  rewrite (scan_correct K V ltb HS order k t I). now rewrite En.
Qed.

(* a cursor stepped n times and closed yields the first n of them *)
Definition scan_n (k : K) (n : nat) (t : tree) : res (list (K * V)) := l <- scan ltb k t ;; Ok (firstn n l).
Corollary history_cursor_prefix order (ops : list (op K V)) k n : order_ok order ops ->
  exists t, run_tree ltb order (Leaf []) ops = Ok (t, snd (run_spec ltb [] ops)) /\
            scan_n k n t = Ok (firstn n (from ltb k (fst (run_spec ltb [] ops)))).
Proof.
  intros Ho. destruct (history_scan order ops k Ho) as [t [E Es]]. exists t. split; [exact E|].
  unfold scan_n. rewrite Es. reflexivity.
Qed.

End H.
Arguments order_ok {K V}. Arguments no_delete {K V}. Arguments is_delete {K V}. Arguments scan_n {K V}.

(* SLo_Step.v — every step of the concurrent model keeps every node outside its write set ([wset], PCb2_Step.v) that
   is on the leftmost path on the leftmost path ([lmr], SLo_Lemmas.v).  The case analysis is that of [cstep_bm]. *)
From Coq Require Import List Permutation Lia Bool PeanoNat.
From GB Require Import ListLemmas TreeLemmas Inv Frame LockProof ConcProps CInv UpdLemmas FrameRel FrameInv FrameBlocks FrameProof
  PCb2_Bounds PCb2_Blocks PCb2_Step NoGap SLo_Lemmas.
Import ListNotations.

Section Step.
Variables (K V : Type) (ltb : K -> K -> bool).
Notation itree := (itree K V).
Notation pc := (pc K V).
Notation st := (st K V).
Notation out := (out K V).
Notation thread := (thread K V).
Notation find := (@Conc.find K V).
Notation wset := (wset K V).
Notation lmr := (lmr K V).

Ltac blk_inv HB := unfold mk in HB; cbn [bind] in HB; crunch HB; try (inversion HB; subst; clear HB).
Ltac blk_top HB :=
  match type of HB with
  | bind ?e _ = Ok _ => let E := fresh "HE" in destruct e eqn:E; [cbn [bind] in HB; inversion HB; subst; clear HB | discriminate HB]
  end.
Ltac in_solve := simpl; rewrite ?in_app_iff; simpl; tauto.

Opaque unwind.

Lemma cstep_lm : forall order (s s' : st) me acq ev,
  1 <= Nat.div2 order ->
  ids_ok s -> lock_inv2 K V s -> frame_inv s ->
  cstep ltb order s me = Stepped s' acq ev ->
  lmr (wset s me acq) (tr s) (tr s').
Proof.
  intros order s s' me acq ev Hord [Hnd Hlt] Hinv Hfi H.
  unfold cstep in H.
  destruct (get_thread me (ths s)) as [th|] eqn:Hme; [|discriminate H].
  destruct (target s (tpc th)) as [tg|] eqn:Htg; [|discriminate H].
  destruct (negb (is_free s tg)) eqn:Hfree; [discriminate H|].
  apply negb_false_iff in Hfree.
  destruct Hinv as [Hinv Hwf2].
  pose proof Hinv as [Hndl [Hndt [Hlk [Htm Hth]]]].
  destruct (Hth me th Hme) as [Hwf [HP HT]].
  pose proof (Hwf2 me th Hme) as Hw2.
  pose proof (Hfi me th Hme) as Hok.
  assert (Hheld : forall x, In x (pc_nodes (tpc th)) -> In x (held_by me (lk s))).
  { intros x Hx. eapply Permutation_in; [apply Permutation_sym; exact HP | exact Hx]. }
  cbv zeta in H.
  assert (Hgen : forall o : out,
            lmr (wset s me tg) (tr s) (otr o) ->
            Stepped {| tr := otr o; tm := otm o; lk := olk o; fresh := ofresh o;
                       ths := set_thread me (if existsb (fun e => match e with EReturn _ => true | _ => false end) (oev o)
                                then {| prog := tl (prog th); tpc := opc o; results := flat_map (fun e => match e with EReturn r => [r] | _ => [] end) (oev o) ++ results th |}
                                else {| prog := prog th; tpc := opc o; results := results th |}) (ths s) |} tg (oev o) = Stepped s' acq ev ->
            lmr (wset s me acq) (tr s) (tr s')).
  { intros o Hb Hs. inversion Hs; subst. simpl. exact Hb. }
  assert (Hnil : forall W (a b : itree), lmr [] a b -> lmr W a b).
  { intros W a b Hab. eapply lmr_mono; [|exact Hab]. intros x []. }
  destruct (tpc th) as [ |o|o r|o lft rgt|o p c index|o p c r|o leaf mode index|o p c|o stk|o stk|o stk|leaf i n acc|leaf nxt n acc] eqn:Hpc.
  all: cbv beta iota in H; simpl in Htg; crunch Htg; inversion Htg; subst tg; clear Htg.
  all: match type of H with match ?B with _ => _ end = _ => destruct B as [[o1|]|] eqn:HB; try discriminate H end.
  all: match goal with o : out |- _ => apply (Hgen o); [clear H Hgen | exact H] end.
  all: simpl in Hw2, Hok, Hheld.
  all: unfold PCb2_Step.wset.
  - (* Idle *) blk_inv HB. apply lmr_refl.
  - (* WantT *) blk_inv HB. apply lmr_refl.
  - (* WantRoot *)
    subst r.
    blk_top HB.
    assert (Hins : forall o', (o' = o) -> match o' with CInsert _ _ | CUpdate _ _ => True | _ => False end ->
              match isplit order (fresh s) (tr s) with
              | Some (lft, rgt) =>
                ls <- ismallest lft ;; rs <- ismallest rgt ;;
                (if ltb (key_of o) rs
                 then ins_descend ltb o (nid (tr s)) (INode (S (fresh s)) [(if ltb (key_of o) ls then key_of o else ls, lft); (rs, rgt)])
                        ((nid (tr s), me) :: lk s) (S (S (fresh s))) None
                 else mk (INode (S (fresh s)) [(if ltb (key_of o) ls then key_of o else ls, lft); (rs, rgt)])
                        ((nid (tr s), me) :: lk s) (S (S (fresh s))) (tm s) (InsWantRootRight o (nid (tr s)) (fresh s)) [])
              | None => ins_descend ltb o (nid (tr s)) (tr s) ((nid (tr s), me) :: lk s) (fresh s) None
              end = Ok o1 ->
              lmr ((held_by me (lk s) ++ granted (Some (Some (nid (tr s))))) ++ [fresh s; S (fresh s)]) (tr s) (otr o1)).
    { intros o' _ _ HI. clear HE.
      destruct (isplit order (fresh s) (tr s)) as [[lft rgt]|] eqn:Hsp.
      - destruct (ismallest lft) as [ls|] eqn:Els; [cbn [bind] in HI|discriminate HI].
        destruct (ismallest rgt) as [rs|] eqn:Ers; [cbn [bind] in HI|discriminate HI].
        pose proof (root_split_lm K V order (fresh s) (if ltb (key_of o) ls then key_of o else ls) rs lft rgt (tr s)
                      Hsp Hord) as Hb1.
        apply Hnil.
        destruct (ltb (key_of o) rs).
        + eapply lmr_trans; [exact Hb1|]. eapply ins_descend_lm; exact HI.
        + unfold mk in HI. inversion HI; subst; clear HI. cbn [otr]. exact Hb1.
      - apply Hnil. eapply ins_descend_lm; exact HI. }
    destruct o as [k v|k f|k|k|k cnt].
    + apply (Hins _ eq_refl I HE).
    + apply (Hins _ eq_refl I HE).
    + (* CDelete *)
      clear Hins. destruct (tr s) as [i nx es|i cs] eqn:Et.
      * blk_inv HE. cbn [otr]. apply Hnil. apply leaf_root_lm.
      * blk_inv HE. cbn [otr]. apply lmr_refl.
    + (* CSearch *)
      destruct (sea_descend_rel K V ltb _ _ _ _ _ _ _ HE) as (B1 & B2 & B3). rewrite B2. apply lmr_refl.
    + (* CScan *)
      destruct (sea_descend_rel K V ltb _ _ _ _ _ _ _ HE) as (B1 & B2 & B3). rewrite B2. apply lmr_refl.
  - (* InsWantRootRight *)
    blk_top HB. apply Hnil. eapply ins_descend_lm; exact HE.
  - (* InsWantChild *)
    blk_top HB.
    destruct Hok as [Hplt Hca].
    destruct (find p (tr s)) as [[?|pi cs]|] eqn:Hfp; try discriminate HE.
    destruct (find c (tr s)) as [child|] eqn:Hfc; [|discriminate HE].
    destruct (get_nth index cs) as [[sep ch0]|] eqn:Hg; [cbn [bind] in HE|discriminate HE].
    apply get_nth_Ok in Hg.
    assert (Hch : child = ch0).
    { pose proof (child_at_nth K V _ _ _ _ _ _ _ _ Hca Hfp Hg) as Hn.
      pose proof (find_child K V p pi cs sep ch0 (tr s) Hnd Hfp (nth_error_In _ _ Hg)) as Hf2.
      rewrite Hn in Hf2. congruence. }
    subst ch0.
    cbn [bind] in HE.
    remember (if index =? 0 then (if ltb (key_of o) sep then key_of o else sep) else sep) as sep' eqn:Hsep.
    apply Hnil.
    destruct (isplit order (fresh s) child) as [[lft rgt]|] eqn:Hsp.
    + destruct (ismallest rgt) as [rs|] eqn:Ers; [cbn [bind] in HE|discriminate HE].
      match type of HE with bind ?e _ = _ => destruct e as [t'|] eqn:Hu; [cbn [bind] in HE|discriminate HE] end.
      pose proof (ins_split_lm K V order p pi cs index sep sep' rs child lft rgt (fresh s) (tr s) t'
                    Hfp Hg Hsp Hord Hu) as Hb1.
      destruct (ltb (key_of o) rs).
      * eapply lmr_trans; [exact Hb1|]. eapply ins_descend_lm; exact HE.
      * unfold mk in HE. inversion HE; subst; clear HE. cbn [otr]. exact Hb1.
    + match type of HE with bind ?e _ = _ => destruct e as [t'|] eqn:Hu; [cbn [bind] in HE|discriminate HE] end.
      pose proof (ins_nosplit_lm K V p pi cs index sep sep' child (tr s) t' Hfp Hg Hu) as Hb1.
      eapply lmr_trans; [exact Hb1|]. eapply ins_descend_lm; exact HE.
  - (* InsWantSplitRight *)
    blk_top HB. apply Hnil. eapply ins_descend_lm; exact HE.
  - (* UpdCallback *)
    blk_top HB.
    destruct o as [| k f | | |]; try discriminate HE.
    destruct (find leaf (tr s)) as [[i nx es|?]|] eqn:Hfl; try discriminate HE.
    assert (Hfin : forall es' t', upd leaf (fun _ => Ok (ILeaf i nx es')) (tr s) = Ok t' ->
              lmr ((held_by me (lk s) ++ granted None) ++ [fresh s; S (fresh s)]) (tr s) t').
    { intros es' t' Hu. apply Hnil. eapply upd_leaf_lm; eauto. }
    blk_inv HE; cbn [otr]; eapply Hfin; eassumption.
  - (* SeaWantChild *)
    blk_top HB.
    destruct (sea_descend_rel K V ltb _ _ _ _ _ _ _ HE) as (B1 & B2 & B3). rewrite B2. apply lmr_refl.
  - (* DelWantLeft *)
    blk_inv HB. cbn [otr]. apply lmr_refl.
  - (* DelWantChild *)
    blk_top HB. destruct Hw2 as [Hb Hfc].
    assert (Hroot : In (nid (tr s)) (held_by me (lk s))).
    { apply Hheld. rewrite (frames_nodes_bottom (nid (tr s))); [left; reflexivity | discriminate | exact Hb]. }
    destruct (find a (tr s)) as [[i nx es|i cs]|] eqn:Hfa; try discriminate HE.
    + destruct (leaf_delete ltb (Nat.div2 order) (key_of o) es) as [[es' small]|] eqn:Hld; [cbn [bind] in HE|discriminate HE].
      match type of HE with bind ?e _ = _ => destruct e as [t'|] eqn:Hu; [cbn [bind] in HE|discriminate HE] end.
      eapply lmr_trans; [apply Hnil; eapply upd_leaf_lm; eauto|].
      eapply lmr_mono; [|eapply (unwind_lm K V order); [exact Hord | exact HE]].
      intros x [<-|[]]. rewrite (upd_nid K V a (ILeaf i nx es) (ILeaf i nx es') (tr s) t' Hu Hfa eq_refl). in_solve.
    + blk_inv HE. cbn [otr]. apply lmr_refl.
  - (* DelWantRight *)
    blk_top HB. destruct Hw2 as [Hb _].
    assert (Hroot : In (nid (tr s)) (held_by me (lk s))).
    { apply Hheld. rewrite (frames_nodes_bottom (nid (tr s))); [left; reflexivity | discriminate | exact Hb]. }
    eapply lmr_mono; [|eapply (unwind_lm K V order); [exact Hord | exact HE]].
    intros x [<-|[]]. in_solve.
  - (* CurRest *) blk_top HB. unfold mk in HE. crunch HE; inversion HE; subst; clear HE; cbn [otr]; apply lmr_refl.
  - (* CurWantNext *) blk_top HB. unfold mk in HE. crunch HE; inversion HE; subst; clear HE; cbn [otr]; apply lmr_refl.
Qed.

Transparent unwind.

End Step.

(* SoloInsert.v — Insert / Update run alone: the step-wise descent with top-down splitting computes ins_loop. *)
From Coq Require Import List Bool Lia PeanoNat Permutation.
From GB Require Import Model Inv ListLemmas TreeLemmas Conc GI LockInv LockProof EraseLemmas EraseOps SoloBase SoloSearch.
Import ListNotations.

Lemma ins_nth_app1 {A} (a : list A) x y b : ins_nth (length a + 1) y (a ++ x :: b) = a ++ x :: y :: b.
Proof.
  replace (a ++ x :: b) with ((a ++ [x]) ++ b) by (rewrite <- app_assoc; reflexivity).
  replace (length a + 1) with (length (a ++ [x])) by (rewrite app_length; simpl; lia).
  rewrite ins_nth_app. rewrite <- app_assoc. reflexivity.
Qed.

Lemma set_ins_nth {A} i (x y : A) l : i <= length l -> set_nth i y (ins_nth i x l) = ins_nth i y l.
Proof.
  intros H. unfold set_nth, ins_nth. set (F := firstn i l). set (S' := skipn i l).
  assert (Hl : length F = i) by (subst F; rewrite firstn_length; lia).
  clearbody F S'. subst i. rewrite firstn_app_len, skipn_S_app_len. reflexivity.
Qed.

Lemma get_ins_nth {A} i (x : A) l : i <= length l -> get_nth i (ins_nth i x l) = Ok x.
Proof.
  intros H. unfold ins_nth. set (F := firstn i l). set (S' := skipn i l).
  assert (Hl : length F = i) by (subst F; rewrite firstn_length; lia).
  clearbody F S'. subst i. apply get_nth_app.
Qed.

Lemma outok_weaken {K V} ltb order me (o : cop K V) rest out (P Q : st K V -> Prop) r :
  (forall s, P s -> Q s) -> OutOK ltb order me o rest out P r -> OutOK ltb order me o rest out Q r.
Proof. intros H Hok s1 H1 H2 H3 H4. eapply completes_weaken; [exact H|]. apply Hok; auto. Qed.

Section Ins.
Variables (K V : Type) (ltb : K -> K -> bool) (order : nat) (me : tid).
Notation itree := (itree K V).
Notation tree := (tree K V).
Notation st := (st K V).
Variables (o : cop K V) (rest : list (cop K V)) (key : K) (f : option V -> V).
Hypothesis Hev : Nat.even order = true.

Definition is_ups : Prop :=
  match o with
  | CInsert k v => key = k /\ f = (fun _ => v)
  | CUpdate k g => key = k /\ f = g
  | _ => False
  end.
Definition ups_ret (arg : option V) : ores K V := match o with CInsert _ _ => RUnit | _ => RArg K arg end.

Lemma ups_key : is_ups -> key_of o = key.
Proof. unfold is_ups. destruct o; simpl; intros H; try tauto; destruct H; auto. Qed.

Definition InsPost (C : list (cframe K V)) (sub : itree) (sub' : tree) (fr : id) (s' : st) : Prop :=
  SoloInv me s' /\ me_at me s' Idle rest /\
  exists sub'', tr s' = plug C sub'' /\ erase_ids sub'' = sub' /\ wfc C sub'' (fresh s') /\ fr <= fresh s' /\
                links_equiv (leaf_links sub) (leaf_links sub'').

(* the callback step of Update *)
Definition cb_result (mode index : nat) (es0 : list (K * V)) : res (list (K * V) * option V) :=
  match mode with
  | 0 => Ok (es0 ++ [(key, f None)], None)
  | 1 => '(k', v') <- get_nth index es0 ;; Ok (set_nth index (k', f (Some v')) es0, Some v')
  | _ => '(k', _) <- get_nth index es0 ;; Ok (set_nth index (k', f None) es0, None)
  end.

Lemma cb_ok mode index C i nx es0 es' arg fr sub0 s1 :
  (exists g, o = CUpdate key g /\ f = g) ->
  wfc C (ILeaf i nx es0) fr -> cb_result mode index es0 = Ok (es', arg) ->
  leaf_links sub0 = [(i, nx)] ->
  SoloInv me s1 -> tr s1 = plug C (ILeaf i nx es0) -> fresh s1 = fr ->
  me_at me s1 (UpdCallback o i mode index) (o :: rest) ->
  Runs ltb order me s1 (InsPost C sub0 (Leaf es') fr) (RArg K arg).
Proof.
  intros (g & Ho & Hg) Hw Hcb Hlinks Hs Htr Hfr (th & Hget & Hpc & Hpr). subst g.
  assert (Hfind : Conc.find i (tr s1) = Some (ILeaf i nx es0)).
  { rewrite Htr. apply (find_plug_self _ _ C (ILeaf i nx es0) fr Hw). }
  assert (Hupd : forall es2, upd i (fun _ => Ok (ILeaf i nx es2)) (tr s1) = Ok (plug C (ILeaf i nx es2))).
  { intros es2. rewrite Htr. apply (upd_plug_self _ _ C (ILeaf i nx es0) fr _ Hw). }
  assert (Hpost : forall s2 : st, SoloInv me s2 -> tr s2 = plug C (ILeaf i nx es') -> fresh s2 = fr ->
                    me_at me s2 Idle rest -> InsPost C sub0 (Leaf es') fr s2).
  { intros s2 H1 H2 H3 H4. split; [exact H1|]. split; [exact H4|]. exists (ILeaf i nx es').
    split; [exact H2|]. split; [reflexivity|]. rewrite H3. split; [eapply wfc_same; [exact Hw|reflexivity]|].
    split; [lia|]. rewrite Hlinks. apply links_equiv_refl. }
  eapply (solo_step_out K V ltb order me s1 th None o rest
             {| otr := plug C (ILeaf i nx es'); olk := unlock i (lk s1); ofresh := fr; otm := tm s1; opc := Idle;
                oev := [EReturn (RArg K arg)] |}); eauto.
  - rewrite Hpc. reflexivity.
  - blk_pc Hpc. rewrite Ho at 1. rewrite Hfind. cbv beta iota.
    destruct mode as [|[|mode]]; cbn [cb_result] in Hcb.
    + inversion Hcb; subst es' arg. rewrite Hupd, Hfr. reflexivity.
    + destruct (get_nth index es0) as [[k' v']|]; [|discriminate]. cbn [bind] in *.
      inversion Hcb; subst es' arg. rewrite Hupd, Hfr. reflexivity.
    + destruct (get_nth index es0) as [[k' v']|]; [|discriminate]. cbn [bind] in *.
      inversion Hcb; subst es' arg. rewrite Hupd, Hfr. reflexivity.
  - intros s2 H1 H2 H3 H4. unfold Completes. simpl in *. split; [|now left]. apply Hpost; auto.
Qed.

Lemma ids_sep_irrel i pre (s s2 : K) (c : itree) post :
  ids (INode i (pre ++ (s2, c) :: post)) = ids (INode i (pre ++ (s, c) :: post)).
Proof. rewrite !ids_node, !ids_list_app, !ids_list_cons. reflexivity. Qed.

Lemma ins_post_leaf C i nx es es' fr (s2 : st) :
  wfc C (ILeaf i nx es) fr ->
  SoloInv me s2 -> tr s2 = plug C (ILeaf i nx es') -> fresh s2 = fr -> me_at me s2 Idle rest ->
  InsPost C (ILeaf i nx es) (Leaf es') fr s2.
Proof.
  intros Hw H1 H2 H3 H4. split; [exact H1|]. split; [exact H4|]. exists (ILeaf i nx es').
  split; [exact H2|]. split; [reflexivity|]. rewrite H3. split; [eapply wfc_same; [exact Hw|reflexivity]|].
  split; [lia|]. apply links_equiv_refl.
Qed.

Lemma ins_ok : forall fuel (sub : itree) C l fr tmx sub' arg,
  is_ups ->
  ins_loop ltb fuel order key f (erase_ids sub) = Ok (sub', arg) -> wfc C sub fr -> icap order sub ->
  exists out, ins_descend ltb o (nid sub) (plug C sub) l fr tmx = Ok out /\
     OutOK ltb order me o rest out (InsPost C sub sub' fr) (ups_ret arg).
Proof.
  induction fuel as [|fuel IH]; intros sub C l fr tmx sub' arg Hups Hs Hw Hcap; [discriminate Hs|].
  pose proof (ups_key Hups) as Hkey.
  unfold ins_descend. rewrite (find_plug_self _ _ C sub fr Hw).
  destruct sub as [i nx es|i cs].
  - (* leaf *)
    cbn [erase_ids ins_loop] in Hs.
    destruct (leaf_upsert ltb key f es) as [[es' arg']|] eqn:El; [|discriminate Hs]. cbn [bind] in Hs.
    inversion Hs; subst sub' arg'; clear Hs. cbn [nid].
    unfold is_ups in Hups. unfold ups_ret.
    destruct o as [k v|k g|k|k|k n] eqn:Eo; try (exfalso; exact Hups).
    + (* Insert *)
      destruct Hups as [Hk Hf]. subst k. rewrite <- Hf. rewrite El. cbn [bind].
      rewrite (upd_plug_self _ _ C (ILeaf i nx es) fr _ Hw). cbn [bind].
      eexists. split; [reflexivity|].
      intros s1 H1 H2 H3 H4. unfold Completes. simpl in *. split; [|now left].
      eapply ins_post_leaf; eauto.
    + (* Update *)
      destruct Hups as [Hk Hf]. subst k g. cbn [key_of].
      assert (Hg : exists g, CUpdate key f = CUpdate key g /\ f = g) by (exists f; auto).
      unfold leaf_upsert in El.
      destruct (last (map (fun e => Some (fst e)) es) None) as [lastk|] eqn:Elast.
      * destruct (ltb lastk key) eqn:Elt.
        -- inversion El; subst es' arg; clear El.
           eexists. split; [reflexivity|].
           intros s1 H1 H2 H3 H4. simpl in H2, H3, H4. apply completes_of_runs; [reflexivity|].
           rewrite <- Eo in *. eapply (cb_ok 0 0 C i nx es); eauto.
        -- destruct (search_ge ltb key (map fst es)) as [index|] eqn:Ei; [|discriminate El]. cbn [bind] in *.
           destruct (get_nth index es) as [[k0 v0]|] eqn:Eg; [|discriminate El]. cbn [bind] in *.
           destruct (eqvb ltb key k0) eqn:Eq.
           ++ inversion El; subst es' arg; clear El.
              eexists. split; [reflexivity|].
              intros s1 H1 H2 H3 H4. simpl in H2, H3, H4. apply completes_of_runs; [reflexivity|].
              rewrite <- Eo in *. eapply (cb_ok 1 index C i nx es); eauto.
              try (cbn [cb_result]; rewrite Eg; reflexivity).
           ++ inversion El; subst es' arg; clear El.
              rewrite (upd_plug_self _ _ C (ILeaf i nx es) fr _ Hw). cbn [bind].
              eexists. split; [reflexivity|].
              intros s1 H1 H2 H3 H4. simpl in H2, H3, H4. apply completes_of_runs; [reflexivity|].
              assert (Hle : index <= length es).
              { unfold get_nth in Eg. destruct (nth_error es index) eqn:En; [|discriminate].
                apply Nat.lt_le_incl. apply nth_error_Some. congruence. }
              rewrite <- Eo in *.
              eapply (cb_ok 2 index C i nx (ins_nth index (key, v0) es)); eauto.
              cbn [cb_result]. rewrite (get_ins_nth _ _ _ Hle). cbn [bind].
                 rewrite (set_ins_nth _ _ _ _ Hle). reflexivity.
      * inversion El; subst es' arg; clear El.
        eexists. split; [reflexivity|].
        intros s1 H1 H2 H3 H4. simpl in H2, H3, H4. apply completes_of_runs; [reflexivity|].
        rewrite <- Eo in *. eapply (cb_ok 0 0 C i nx es); eauto.
  - (* internal node *)
    rewrite erase_node in Hs. cbn [ins_loop] in Hs. rewrite erase_cs_fst in Hs. rewrite Hkey. cbn [nid].
    destruct (search_le ltb key (map fst cs)) as [index|] eqn:Ei; [|discriminate Hs]. cbn [bind] in *.
    destruct (get_nth index (erase_cs cs)) as [[sep e]|] eqn:Eg; [|discriminate Hs]. cbn [bind] in Hs.
    destruct (get_nth_erase _ _ index cs sep e Eg) as (c & Hgc & Hec & Hnc). rewrite Hgc. cbn [bind].
    subst e. cbn [bind] in Hs.
    set (sep' := if index =? 0 then if ltb key sep then key else sep else sep) in *.
    destruct (nth_error_split _ _ Hnc) as (pre & post & -> & Hlen).
    pose proof (wfc_node _ _ _ _ _ _ _ _ _ Hw) as Hwc.
    pose proof (wfc_child_neq _ _ _ _ _ _ _ _ _ Hw) as Hneq.
    pose proof (icap_child _ _ _ _ _ _ _ _ Hcap) as Hcapc.
    eexists. split; [reflexivity|].
    intros s1 Hs1 Htr Hfr (th1 & Hg1 & Hpc1 & Hpr1). simpl in Htr, Hfr, Hpc1, Hpr1.
    apply completes_of_runs; [reflexivity|].
    assert (Hfp : Conc.find i (tr s1) = Some (INode i (pre ++ (sep, c) :: post))).
    { rewrite Htr. apply (find_plug_self _ _ C _ fr Hw). }
    assert (Hfc : Conc.find (nid c) (tr s1) = Some c).
    { rewrite Htr. rewrite <- plug_mkcf. apply (find_plug_self _ _ _ _ fr Hwc). }
    assert (Hupd : forall cs2, upd i (fun _ => Ok (INode i cs2)) (tr s1) = Ok (plug C (INode i cs2))).
    { intros cs2. rewrite Htr. apply (upd_plug_self _ _ C _ fr _ Hw). }
    assert (Hfree : is_free s1 (Some (Some (nid c))) = true).
    { eapply free_node; eauto. rewrite Hpc1. simpl. intros [E|[]]. auto. }
    destruct (maybe_split order (erase_ids c)) as [[el er]|] eqn:Esp.
    + (* the child is split *)
      destruct (isplit_some _ _ order fr c el er Hev Hcapc Esp)
        as (lft & rgt & Hisp & Hel & Her & Hnl & Hnr & Hperm & Hlk & Hcl & Hcr).
      subst el er. rewrite ismallest_erase in Hs.
      destruct (ismallest rgt) as [rs|] eqn:Ers; [|discriminate Hs]. cbn [bind] in Hs.
      set (N2 := INode i (pre ++ (sep', lft) :: (rs, rgt) :: post)).
      assert (HwN : wfc C N2 (S fr)).
      { eapply (wfc_replace _ _ C _ N2 fr (S fr) [fr]); [exact Hw| |repeat constructor; simpl; tauto| |lia].
        - unfold N2. rewrite !ids_node, !ids_list_app, !ids_list_cons.
          generalize (ids_list pre) (ids_list post) (ids lft) (ids rgt) (ids c) Hperm.
          intros a b d1 d2 d3 Hp. perm_lia.
        - repeat constructor; lia. }
      assert (HlkN : links_equiv (leaf_links (INode i (pre ++ (sep, c) :: post))) (leaf_links N2)).
      { unfold N2. rewrite !links_node, !links_list_app, !links_list_cons.
        rewrite (app_assoc (leaf_links lft)). apply links_equiv_ctx. exact Hlk. }
      destruct (ltb key rs) eqn:Elt.
      * (* descend into the left half, which keeps the child's identity *)
        destruct (ins_loop ltb fuel order key f (erase_ids lft)) as [[l' arg']|] eqn:Eil; [|discriminate Hs].
        cbn [bind] in Hs. inversion Hs; subst sub' arg'; clear Hs.
        assert (Hwl : wfc (mkcf i pre sep' ((rs, rgt) :: post) :: C) lft (S fr)) by (apply wfc_node; exact HwN).
        destruct (IH lft (mkcf i pre sep' ((rs, rgt) :: post) :: C) (unlock i ((nid c, me) :: lk s1)) (S fr) (tm s1)
                     l' arg Hups Eil Hwl Hcl) as (out' & Ho' & Hok').
        eapply (solo_step_out K V ltb order me s1 th1 (Some (Some (nid c))) o rest out'); eauto.
        -- rewrite Hpc1. reflexivity.
        -- blk_pc Hpc1. rewrite Hfp, Hfc, Hgc. cbn [bind]. rewrite Hkey. cbn [bind]. fold sep'.
           rewrite Hfr, Hisp, Ers. cbn [bind]. rewrite Hupd. cbn [bind]. rewrite Elt.
           subst index. rewrite set_nth_app, ins_nth_app1.
           rewrite plug_mkcf, Hnl in Ho'. rewrite Ho'. reflexivity.
        -- eapply outok_weaken; [|exact Hok'].
           intros s' (Hp1 & Hp2 & sub'' & Hp3 & Hp4 & Hp5 & Hp6 & Hp7).
           split; [exact Hp1|]. split; [exact Hp2|].
           exists (INode i (pre ++ (sep', sub'') :: (rs, rgt) :: post)).
           split; [exact Hp3|]. split; [|split; [apply wfc_node_back; exact Hp5|split; [lia|]]].
           ++ rewrite erase_node. rewrite !erase_cs_app, !erase_cs_cons. subst index.
              rewrite <- (erase_cs_length _ _ pre). rewrite set_nth_app, ins_nth_app1. rewrite Hp4. reflexivity.
           ++ eapply links_equiv_trans; [exact HlkN|]. unfold N2.
              rewrite !links_node, !links_list_app, !links_list_cons. apply links_equiv_ctx. exact Hp7.
      * (* the right half is a new node: one more lock *)
        destruct (ins_loop ltb fuel order key f (erase_ids rgt)) as [[r' arg']|] eqn:Eir; [|discriminate Hs].
        cbn [bind] in Hs. inversion Hs; subst sub' arg'; clear Hs.
        assert (HN2 : N2 = INode i ((pre ++ [(sep', lft)]) ++ (rs, rgt) :: post)).
        { unfold N2. rewrite <- app_assoc. reflexivity. }
        assert (Hwr : wfc (mkcf i (pre ++ [(sep', lft)]) rs post :: C) rgt (S fr)).
        { apply wfc_node. rewrite <- HN2. exact HwN. }
        eapply (solo_step_out K V ltb order me s1 th1 (Some (Some (nid c))) o rest
                 {| otr := plug C N2; olk := (nid c, me) :: lk s1; ofresh := S fr; otm := tm s1;
                    opc := InsWantSplitRight o i (nid c) fr; oev := [] |}); eauto.
        -- rewrite Hpc1. reflexivity.
        -- blk_pc Hpc1. rewrite Hfp, Hfc, Hgc. cbn [bind]. rewrite Hkey. cbn [bind]. fold sep'.
           rewrite Hfr, Hisp, Ers. cbn [bind]. rewrite Hupd. cbn [bind]. rewrite Elt.
           subst index. rewrite set_nth_app, ins_nth_app1. reflexivity.
        -- intros s2 Hs2 Htr2 Hfr2 (th2 & Hg2 & Hpc2 & Hpr2). simpl in Htr2, Hfr2, Hpc2, Hpr2.
           apply completes_of_runs; [reflexivity|].
           destruct (IH rgt (mkcf i (pre ++ [(sep', lft)]) rs post :: C)
                        (unlock i (unlock (nid c) ((fr, me) :: lk s2))) (S fr) (tm s2)
                        r' arg Hups Eir Hwr Hcr) as (out' & Ho' & Hok').
           eapply (solo_step_out K V ltb order me s2 th2 (Some (Some fr)) o rest out'); eauto.
           ++ rewrite Hpc2. reflexivity.
           ++ eapply free_node; eauto. rewrite Hpc2. simpl.
              destruct Hw as [_ Hlt]. rewrite Forall_forall in Hlt.
              assert (Hi : i < fr) by (apply Hlt; apply in_or_app; left; rewrite ids_node; now left).
              assert (Hc : nid c < fr).
              { apply Hlt. apply in_or_app. left. rewrite ids_node. right.
                rewrite ids_list_app, ids_list_cons. apply in_or_app. right. apply in_or_app. left. apply nid_in_ids. }
              intros [E|[E|[]]]; lia.
           ++ blk_pc Hpc2. rewrite Htr2, Hfr2. rewrite plug_mkcf in Ho'. rewrite <- HN2 in Ho'.
              rewrite Hnr in Ho'. rewrite Ho'. reflexivity.
           ++ eapply outok_weaken; [|exact Hok'].
              intros s' (Hp1 & Hp2 & sub'' & Hp3 & Hp4 & Hp5 & Hp6 & Hp7).
              split; [exact Hp1|]. split; [exact Hp2|].
              exists (INode i (pre ++ (sep', lft) :: (rs, sub'') :: post)).
              split; [rewrite Hp3; rewrite plug_mkcf; rewrite <- app_assoc; reflexivity|].
              split; [|split; [|split; [lia|]]].
              ** rewrite erase_node. rewrite !erase_cs_app, !erase_cs_cons. subst index.
                 rewrite <- (erase_cs_length _ _ pre). rewrite set_nth_app, ins_nth_app1. rewrite Hp4. reflexivity.
              ** apply wfc_node_back in Hp5. rewrite <- app_assoc in Hp5. exact Hp5.
              ** eapply links_equiv_trans; [exact HlkN|]. unfold N2.
                 rewrite !links_node, !links_list_app, !links_list_cons.
                 rewrite !(app_assoc (links_list pre)). apply links_equiv_ctx. exact Hp7.
    + (* no split *)
      pose proof (isplit_none _ _ order fr c Esp) as Hisp.
      destruct (ins_loop ltb fuel order key f (erase_ids c)) as [[c' arg']|] eqn:Eic; [|discriminate Hs].
      cbn [bind] in Hs. inversion Hs; subst sub' arg'; clear Hs.
      assert (Hwc' : wfc (mkcf i pre sep' post :: C) c fr).
      { apply wfc_node. eapply wfc_same; [exact Hw|]. apply ids_sep_irrel. }
      destruct (IH c (mkcf i pre sep' post :: C) (unlock i ((nid c, me) :: lk s1)) fr (tm s1)
                   c' arg Hups Eic Hwc' Hcapc) as (out' & Ho' & Hok').
      eapply (solo_step_out K V ltb order me s1 th1 (Some (Some (nid c))) o rest out'); eauto.
      * rewrite Hpc1. reflexivity.
      * blk_pc Hpc1. rewrite Hfp, Hfc, Hgc. cbn [bind]. rewrite Hkey. cbn [bind]. fold sep'.
        rewrite Hfr, Hisp. rewrite Hupd. cbn [bind].
        subst index. rewrite set_nth_app. rewrite plug_mkcf in Ho'. rewrite Ho'. reflexivity.
      * eapply outok_weaken; [|exact Hok'].
        intros s' (Hp1 & Hp2 & sub'' & Hp3 & Hp4 & Hp5 & Hp6 & Hp7).
        split; [exact Hp1|]. split; [exact Hp2|].
        exists (INode i (pre ++ (sep', sub'') :: post)).
        split; [exact Hp3|]. split; [|split; [apply wfc_node_back; exact Hp5|split; [lia|]]].
        -- rewrite erase_node. rewrite !erase_cs_app, !erase_cs_cons. subst index.
           rewrite <- (erase_cs_length _ _ pre). rewrite set_nth_app. rewrite Hp4. reflexivity.
        -- rewrite !links_node, !links_list_app, !links_list_cons. apply links_equiv_ctx. exact Hp7.
Qed.

(* ---- the root: Insert / Update from WantRoot ---- *)
Definition TopPost (t' : tree) (s' : st) : Prop :=
  SoloInv me s' /\ me_at me s' Idle rest /\ erase_ids (tr s') = t' /\
  NoDup (ids (tr s')) /\ Forall (fun i => i < fresh s') (ids (tr s')) /\ chain_ok (leaf_links (tr s')).

Lemma ins_root : forall (s2 : st) t' arg,
  is_ups -> SoloInv me s2 -> me_at me s2 (WantRoot o (nid (tr s2))) (o :: rest) ->
  NoDup (ids (tr s2)) -> Forall (fun i => i < fresh s2) (ids (tr s2)) -> chain_ok (leaf_links (tr s2)) ->
  icap order (tr s2) ->
  upsert ltb order key f (erase_ids (tr s2)) = Ok (t', arg) ->
  Runs ltb order me s2 (TopPost t') (ups_ret arg).
Proof.
  intros s2 t' arg Hups Hs2 (th & Hg & Hpc & Hpr) Hnd Hlt Hch Hcap Hu.
  pose proof (ups_key Hups) as Hkey.
  set (T := tr s2) in *. set (fr := fresh s2) in *.
  assert (HwT : wfc [] T fr) by (apply wfc_nil; auto).
  assert (Htg : target s2 (tpc th) = Ok (Some (Some (nid T)))) by (rewrite Hpc; reflexivity).
  assert (Hfree : is_free s2 (Some (Some (nid T))) = true).
  { eapply free_node; eauto. rewrite Hpc. simpl. tauto. }
  assert (Hisups : match o with CInsert _ _ | CUpdate _ _ => True | _ => False end).
  { unfold is_ups in Hups. destruct o; tauto. }
  unfold upsert in Hu.
  destruct (maybe_split order (erase_ids T)) as [[el er]|] eqn:Esp.
  - (* the root is split first *)
    destruct (isplit_some _ _ order fr T el er Hev Hcap Esp)
      as (lft & rgt & Hisp & Hel & Her & Hnl & Hnr & Hperm & Hlk & Hcl & Hcr).
    subst el er. rewrite !ismallest_erase in Hu.
    destruct (ismallest lft) as [ls|] eqn:Els; [|discriminate Hu]. cbn [bind] in Hu.
    destruct (ismallest rgt) as [rs|] eqn:Ers; [|discriminate Hu]. cbn [bind] in Hu.
    set (ls' := if ltb key ls then key else ls) in *.
    set (N := INode (S fr) [(ls', lft); (rs, rgt)]).
    assert (HwN : wfc [] N (S (S fr))).
    { apply wfc_nil. unfold N. rewrite ids_node, !ids_list_cons. cbn [ids_list flat_map]. rewrite app_nil_r.
      assert (HP : Permutation (S fr :: ids lft ++ ids rgt) (S fr :: fr :: ids T)) by (apply perm_skip; exact Hperm).
      split.
      - eapply Permutation_NoDup; [apply Permutation_sym; exact HP|].
        rewrite Forall_forall in Hlt.
        constructor; [intros [E|Hi]; [lia|apply Hlt in Hi; lia]|].
        constructor; [intros Hi; apply Hlt in Hi; lia|exact Hnd].
      - eapply Permutation_Forall; [apply Permutation_sym; exact HP|].
        constructor; [lia|]. constructor; [lia|]. eapply Forall_impl; [|exact Hlt]. simpl. intros; lia. }
    assert (HchN : chain_ok (leaf_links N)).
    { unfold N. rewrite links_node, !links_list_cons. cbn [links_list flat_map]. rewrite app_nil_r.
      specialize (Hlk [] []). cbn [app] in Hlk. rewrite !app_nil_r in Hlk. apply Hlk. exact Hch. }
    destruct (ltb key rs) eqn:Elt.
    + destruct (ins_loop ltb (S (S (height (erase_ids T)))) order key f (erase_ids lft)) as [[l' arg']|] eqn:Eil;
        [|discriminate Hu]. cbn [bind] in Hu. inversion Hu; subst t' arg'; clear Hu.
      set (C1 := [mkcf (S fr) [] ls' [(rs, rgt)]]).
      assert (Hwl : wfc C1 lft (S (S fr))) by (apply wfc_node; exact HwN).
      destruct (ins_ok _ lft C1 ((nid T, me) :: lk s2) (S (S fr)) None l' arg Hups Eil Hwl Hcl) as (out' & Ho' & Hok').
      eapply (solo_step_out K V ltb order me s2 th (Some (Some (nid T))) o rest out'); eauto.
      * rewrite Hnl in Ho'.
        blk_pc Hpc. destruct o; try tauto; cbv beta iota zeta; fold T fr; rewrite Hisp, Els, Ers; cbn [bind];
          rewrite Hkey, Elt; exact (f_equal (fun x => r <- x ;; Ok (Some r)) Ho').
      * eapply outok_weaken; [|exact Hok'].
        intros s' (Hp1 & Hp2 & sub'' & Hp3 & Hp4 & Hp5 & Hp6 & Hp7).
        split; [exact Hp1|]. split; [exact Hp2|]. rewrite Hp3. unfold C1. rewrite plug_mkcf. cbn [plug app].
        apply wfc_node_back in Hp5. cbn [app] in Hp5. apply wfc_nil in Hp5. destruct Hp5 as [Hq1 Hq2].
        split; [rewrite erase_node, !erase_cs_cons, Hp4; reflexivity|]. split; [exact Hq1|]. split; [exact Hq2|].
        exact (chain_plug _ _ C1 lft sub'' Hp7 HchN).
    + destruct (ins_loop ltb (S (S (height (erase_ids T)))) order key f (erase_ids rgt)) as [[r' arg']|] eqn:Eir;
        [|discriminate Hu]. cbn [bind] in Hu. inversion Hu; subst t' arg'; clear Hu.
      set (C2 := [mkcf (S fr) [(ls', lft)] rs []]).
      assert (Hwr : wfc C2 rgt (S (S fr))) by (apply wfc_node; exact HwN).
      eapply (solo_step_out K V ltb order me s2 th (Some (Some (nid T))) o rest
               {| otr := N; olk := (nid T, me) :: lk s2; ofresh := S (S fr); otm := tm s2;
                  opc := InsWantRootRight o (nid T) fr; oev := [] |}); eauto.
      * blk_pc Hpc. destruct o; try tauto; cbv beta iota zeta; fold T fr; rewrite Hisp, Els, Ers; cbn [bind];
          rewrite Hkey, Elt; reflexivity.
      * intros s3 Hs3 Htr3 Hfr3 (th3 & Hg3 & Hpc3 & Hpr3). simpl in Htr3, Hfr3, Hpc3, Hpr3.
        apply completes_of_runs; [reflexivity|].
        destruct (ins_ok _ rgt C2 (unlock (nid T) ((fr, me) :: lk s3)) (S (S fr)) None r' arg Hups Eir Hwr Hcr)
          as (out' & Ho' & Hok').
        eapply (solo_step_out K V ltb order me s3 th3 (Some (Some fr)) o rest out'); eauto.
        -- rewrite Hpc3. reflexivity.
        -- eapply free_node; eauto. rewrite Hpc3. simpl. intros [E|[]].
           rewrite Forall_forall in Hlt. specialize (Hlt (nid T) (nid_in_ids _ _ T)). lia.
        -- blk_pc Hpc3. rewrite Htr3, Hfr3. rewrite Hnr in Ho'. exact (f_equal (fun x => r <- x ;; Ok (Some r)) Ho').
        -- eapply outok_weaken; [|exact Hok'].
           intros s' (Hp1 & Hp2 & sub'' & Hp3 & Hp4 & Hp5 & Hp6 & Hp7).
           split; [exact Hp1|]. split; [exact Hp2|]. rewrite Hp3. unfold C2. rewrite plug_mkcf. cbn [plug app].
           apply wfc_node_back in Hp5. cbn [app] in Hp5. apply wfc_nil in Hp5. destruct Hp5 as [Hq1 Hq2].
           split; [rewrite erase_node, !erase_cs_cons, Hp4; reflexivity|]. split; [exact Hq1|]. split; [exact Hq2|].
           exact (chain_plug _ _ C2 rgt sub'' Hp7 HchN).
  - (* no root split *)
    pose proof (isplit_none _ _ order fr T Esp) as Hisp.
    destruct (ins_ok _ T [] ((nid T, me) :: lk s2) fr None t' arg Hups Hu HwT Hcap) as (out' & Ho' & Hok').
    eapply (solo_step_out K V ltb order me s2 th (Some (Some (nid T))) o rest out'); eauto.
    + blk_pc Hpc. destruct o; try tauto; cbv beta iota zeta; fold T fr; rewrite Hisp;
        exact (f_equal (fun x => r <- x ;; Ok (Some r)) Ho').
    + eapply outok_weaken; [|exact Hok'].
      intros s' (Hp1 & Hp2 & sub'' & Hp3 & Hp4 & Hp5 & Hp6 & Hp7). cbn [plug] in Hp3.
      split; [exact Hp1|]. split; [exact Hp2|]. rewrite Hp3. apply wfc_nil in Hp5. destruct Hp5 as [Hq1 Hq2].
      split; [exact Hp4|]. split; [exact Hq1|]. split; [exact Hq2|].
      exact (chain_plug _ _ [] T sub'' Hp7 Hch).
Qed.

End Ins.

(* RD_Unwind.v — READ discipline for the return of Delete through its activations ([unwind]): it reads the nodes
   recorded in the stack (parents, left siblings, children), the right sibling just granted, and the root. *)
From Coq Require Import List Permutation Lia Bool PeanoNat.
From GB Require Import ListLemmas TreeLemmas Frame LockProof UpdLemmas FrameRel FrameInv FrameBlocks OCCc_Base OCCc_Total OCCc_Reb
  RD_Base RD_Blocks RD_Reb.
Import ListNotations.

Section RDUnwind.
Variables (K V : Type) (ltb : K -> K -> bool).
Notation itree := (itree K V).
Notation view := (view K V).
Notation pc := (pc K V).
Notation out := (out K V).

(* the only child of a root that is being replaced by it *)
Lemma root_collapse_view i k (c : itree) y :
  NoDup (ids (INode i [(k, c)])) ->
  node_view y c = if y =? i then None else node_view y (INode i [(k, c)]).
Proof.
  intros Hnd. rewrite ids_node in Hnd. unfold idsl in Hnd. simpl in Hnd. rewrite app_nil_r in Hnd.
  inversion Hnd as [|? ? Hni _]; subst.
  unfold node_view at 2. rewrite find_eq. simpl nid. rewrite (Nat.eqb_sym i y).
  destruct (y =? i) eqn:E.
  - apply Nat.eqb_eq in E. subst y. apply view_none. exact Hni.
  - rewrite findl_cons. simpl. unfold node_view. destruct (find y c); reflexivity.
Qed.

Lemma unwind_sim order W fuel : forall o stk small right (t1 t2 : itree) l fr tmx (o1 : out),
  unwind order fuel o stk small right t1 l fr tmx = Ok o1 ->
  NoDup (ids t1) -> NoDup (ids t2) ->
  stack_ok t1 fr stk -> stack_ok t2 fr stk ->
  bottom_ok (nid t1) stk -> nid t2 = nid t1 ->
  (stk = [] -> right = None) ->
  NoDup (nid t1 :: opt_list right ++ flat_map fkids stk) ->
  incl (nid t1 :: opt_list right ++ flat_map fkids stk) W ->
  (forall x, right = Some x -> match stk with f :: _ => child_at t1 (fp f) (fidx f + 1) x | [] => True end) ->
  agree_on W t1 t2 ->
  exists o2, unwind order fuel o stk small right t2 l fr tmx = Ok o2 /\ osim [] t1 t2 o1 o2.
Proof.
  induction fuel as [|fuel IH]; intros o stk small right t1 t2 l fr tmx o1 H N1 N2 Hs1 Hs2 Hb Hnid Hr Hheld HW Hright Hag;
    simpl in H; [discriminate|]. simpl.
  destruct stk as [|f rest].
  - rewrite Hnid.
    assert (Hts : tsim t1 t2).
    { apply tsim_root; [symmetry; exact Hnid|]. apply Hag. apply HW. left. reflexivity. }
    rewrite (tsim_icount _ _ _ _ Hts).
    unfold mk in *. inversion H; subst; clear H.
    destruct (negb small || (1 <? icount t1)) eqn:E.
    + rd_fin.
    + apply orb_false_iff in E. destruct E as [_ E]. apply Nat.ltb_ge in E.
      destruct t1 as [i nx es | i [|[k c] rest]].
      * rewrite (tsim_leaf _ _ _ _ _ _ Hts). rd_fin.
      * destruct (tsim_node _ _ _ _ _ Hts) as [cs2 [-> Hp]]. destruct cs2; [|discriminate Hp]. rd_fin.
      * destruct (tsim_node _ _ _ _ _ Hts) as [cs2 [-> Hp]]. simpl in E.
        destruct rest; [|simpl in E; lia].
        destruct cs2 as [|[k2 c2] [|x cs2]]; try discriminate Hp.
        assert (Hc2 : nid c2 = nid c) by (simpl in Hp; inversion Hp; reflexivity).
        rd_fin. intros y [Hy|[]].
        rewrite (root_collapse_view _ _ _ y N1), (root_collapse_view _ _ _ y N2). rewrite Hy. reflexivity.
  - destruct Hs1 as (S1 & S2 & S3 & S4 & S5). destruct Hs2 as (T1 & T2 & T3 & T4 & T5).
    assert (Hlinks : links (f :: rest)) by (split; [exact S4 | eapply stack_ok_links; eauto]).
    assert (Hrest : NoDup (nid t1 :: opt_list None ++ flat_map fkids rest)).
    { eapply nodup_sub; [|exact Hheld]. intros x. simpl. rewrite !cnt_app. lia. }
    assert (HWrest : incl (nid t1 :: opt_list None ++ flat_map fkids rest) W).
    { intros x Hx. apply HW. simpl in *. rewrite !in_app_iff. tauto. }
    assert (Hnext : forall small' (u1 u2 : itree), nid u1 = nid t1 -> nid u2 = nid t1 -> NoDup (ids u1) -> NoDup (ids u2) ->
              stack_ok u1 fr rest -> stack_ok u2 fr rest -> pres [] t1 t2 u1 u2 ->
              unwind order fuel o rest small' None u1 (unlock_frame_kids f right l) fr tmx = Ok o1 ->
              exists o2, unwind order fuel o rest small' None u2 (unlock_frame_kids f right l) fr tmx = Ok o2 /\ osim [] t1 t2 o1 o2).
    { intros small' u1 u2 Hn1 Hn2 Nu1 Nu2 Su1 Su2 Hp Hu.
      destruct (IH o rest small' None u1 u2 _ fr tmx o1 Hu Nu1 Nu2 Su1 Su2) as (o2 & A & B).
      - rewrite Hn1. eapply bottom_ok_tail; eauto.
      - congruence.
      - reflexivity.
      - rewrite Hn1. exact Hrest.
      - rewrite Hn1. exact HWrest.
      - intros x Hx. discriminate Hx.
      - eapply pres_agree0; eauto.
      - exists o2. split; [exact A|]. eapply osim_trans; eauto. intros _. congruence. }
    destruct (negb small) eqn:Es.
    + apply (Hnext false t1 t2); auto. apply pres_refl.
    + set (Wf := fp f :: opt_list right ++ fkids f).
      assert (HWf : incl Wf W).
      { intros x [<-|Hx].
        - pose proof (fp_in_frames (nid t1) (f :: rest) Hlinks Hb f (or_introl eq_refl)) as Hin.
          apply HW. simpl in Hin. simpl. rewrite !in_app_iff in *. tauto.
        - apply HW. simpl. rewrite !in_app_iff in *. tauto. }
      assert (Hfp : In (fp f) W) by (apply HWf; left; reflexivity).
      destruct (find (fp f) t1) as [[i nx es|pi cs]|] eqn:Hf; try discriminate H.
      destruct (view_find _ _ _ _ _ _ (Hag _ Hfp) Hf) as [n2 [Hf2 Hs]].
      destruct (tsim_node _ _ _ _ _ Hs) as [cs2 [-> Hp]]. rewrite Hf2.
      rewrite (ptrs_eq_length _ _ _ _ Hp).
      destruct ((fidx f + 1 <? length cs) && match right with None => true | Some _ => false end) eqn:Ec.
      * unfold mk in *. inversion H; subst; clear H. rd_fin.
      * destruct (irebalance order f t1) as [[t1' small']|] eqn:Er; [cbn [bind] in H|discriminate H].
        assert (Kc : forall k ch, nth_error cs (fidx f) = Some (k, ch) -> In (nid ch) Wf).
        { intros k ch Hn. destruct S3 as [c [Hfc Hca]].
          rewrite (child_at_nth K V _ _ _ _ _ _ _ _ Hca Hf Hn).
          unfold Wf, fkids. rewrite Hfc. right. rewrite !in_app_iff. right. right. simpl. auto. }
        assert (Kl : forall k ch, 0 < fidx f -> nth_error cs (fidx f - 1) = Some (k, ch) -> In (nid ch) Wf).
        { intros k ch Hpos Hn. destruct (S2 Hpos) as [l0 [Hfl Hca]].
          rewrite (child_at_nth K V _ _ _ _ _ _ _ _ Hca Hf Hn).
          unfold Wf, fkids. rewrite Hfl. right. rewrite !in_app_iff. right. left. simpl. auto. }
        assert (Kr : forall k ch, nth_error cs (fidx f + 1) = Some (k, ch) -> In (nid ch) Wf).
        { intros k ch Hn.
          assert (Hlt : fidx f + 1 < length cs) by (apply nth_error_Some; congruence).
          apply Nat.ltb_lt in Hlt. rewrite Hlt in Ec. simpl in Ec.
          destruct right as [x|]; [|discriminate Ec].
          specialize (Hright x eq_refl). simpl in Hright.
          rewrite (child_at_nth K V _ _ _ _ _ _ _ _ Hright Hf Hn).
          unfold Wf. right. simpl. left. reflexivity. }
        destruct (irebalance_sim K V order f t1 t2 t1' small' pi cs N1 N2 Er Hf (Hag _ Hfp)) as (t2' & Er2 & Hpres).
        { intros k ch Hn. apply Hag, HWf. eapply Kc; eauto. }
        { intros k ch Hpos Hn. apply Hag, HWf. eapply Kl; eauto. }
        { intros k ch Hn. apply Hag, HWf. eapply Kr; eauto. }
        rewrite Er2. cbn [bind].
        assert (Hback : forall j k ch2, nth_error cs2 j = Some (k, ch2) -> exists ch, nth_error cs j = Some (k, ch) /\ nid ch = nid ch2).
        { intros j k ch2 Hn. eapply ptrs_nth; eauto. }
        destruct (irebalance_rel K V ltb True order f t1 t1' small' pi cs Wf N1 Er Hf) as (_ & R2 & R3 & R4); auto.
        { left. reflexivity. }
        destruct (irebalance_rel K V ltb True order f t2 t2' small' pi cs2 Wf N2 Er2 Hf2) as (_ & Q2 & Q3 & Q4).
        { left. reflexivity. }
        { intros k ch2 Hn. destruct (Hback _ _ _ Hn) as [ch [A <-]]. eapply Kc; eauto. }
        { intros k ch2 Hpos Hn. destruct (Hback _ _ _ Hn) as [ch [A <-]]. eapply Kl; eauto. }
        { intros k ch2 Hn. destruct (Hback _ _ _ Hn) as [ch [A <-]]. eapply Kr; eauto. }
        apply (Hnext small' t1' t2'); auto.
        -- congruence.
        -- eapply stack_ok_frm with (W := Wf) (fr := fr); eauto.
           apply rest_fp_notin with (root := nid t1); auto.
        -- eapply stack_ok_frm with (W := Wf) (fr := fr); eauto.
           apply rest_fp_notin with (root := nid t1); auto.
Qed.

End RDUnwind.

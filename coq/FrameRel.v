(* FrameRel.v — two relations between a tree and its successor, and the rules to establish them:
     acct N t t'   : every identity of t' is an identity of t or one of the new identities N (with multiplicity)
     frm G W t t'  : a node outside W keeps its own fields, or (only if the guard G fails) has left the tree.
   The guard G is "no split drops entries" (see FrameProof.v). *)
From Coq Require Import List Permutation Lia Bool PeanoNat.
From GB Require Import ListLemmas TreeLemmas Frame UpdLemmas.
Import ListNotations.

Section Rel.
Variables (K V : Type).
Notation itree := (itree K V).
Notation view := (view K V).

Definition acct (N : list id) (t t' : itree) : Prop := forall x, cnt (ids t') x <= cnt (ids t) x + cnt N x.

Definition frm (G : Prop) (W : list id) (t t' : itree) : Prop :=
  forall y, ~ In y W -> node_view y t' = node_view y t \/ (~ G /\ node_view y t' = None).

Definition lsim (G : Prop) (W : list id) (l l' : list (id * view)) : Prop :=
  forall y, ~ In y W -> (forall v, In (y, v) l' <-> In (y, v) l) \/ (~ G /\ forall v, ~ In (y, v) l').

Lemma acct_refl t : acct [] t t.
Proof. intros x. lia. Qed.

Lemma acct_trans N t t1 t2 : acct N t t1 -> acct [] t1 t2 -> acct N t t2.
Proof. intros H1 H2 x. specialize (H1 x). specialize (H2 x). simpl in H2. lia. Qed.

Lemma acct_nil N t t' : acct [] t t' -> acct N t t'.
Proof. intros H x. specialize (H x). simpl in H. lia. Qed.

Lemma acct_nodup N t t' :
  NoDup (ids t) -> NoDup N -> (forall y, In y N -> ~ In y (ids t)) -> acct N t t' -> NoDup (ids t').
Proof.
  intros H1 H2 H3 H. apply cnt_nodup. intros x. specialize (H x).
  pose proof (proj1 (cnt_nodup _) H1 x). pose proof (proj1 (cnt_nodup _) H2 x).
  destruct (cnt N x) eqn:E; [lia|].
  assert (Hin : In x N) by (apply cnt_in; lia). apply H3 in Hin. apply cnt_notin in Hin. lia.
Qed.

Lemma acct_in N t t' x : acct N t t' -> In x (ids t') -> In x (ids t) \/ In x N.
Proof.
  intros H Hin. apply cnt_in in Hin. specialize (H x).
  destruct (cnt (ids t) x) eqn:E; [right|left]; apply cnt_in; lia.
Qed.

Lemma frm_refl (G : Prop) W t : frm G W t t.
Proof. intros y _. left. reflexivity. Qed.

Lemma frm_trans (G : Prop) W t t1 t2 : frm G W t t1 -> frm G W t1 t2 -> frm G W t t2.
Proof.
  intros H1 H2 y Hy. destruct (H1 y Hy) as [A|[A1 A2]]; destruct (H2 y Hy) as [B|[B1 B2]].
  - left. congruence.
  - right. auto.
  - right. split; [auto|congruence].
  - right. auto.
Qed.

Lemma frm_mono (G : Prop) W W' t t' : incl W W' -> frm G W t t' -> frm G W' t t'.
Proof. intros Hi H y Hy. apply H. intro X. apply Hy. apply Hi. exact X. Qed.

Lemma lsim_cases (G : Prop) (c : bool) W (l l' : list (id * view)) :
  (G -> c = true) -> NoDup (map fst l) ->
  (forall y v, ~ In y W -> In (y, v) l' -> In (y, v) l) ->
  (c = true -> forall y v, ~ In y W -> In (y, v) l -> In (y, v) l') -> lsim G W l l'.
Proof.
  intros HG Hnd Hf Hb y Hy. destruct c.
  - left. intros v. split; [apply Hf | apply Hb]; auto.
  - assert (HnG : ~ G) by (intro g; apply HG in g; discriminate).
    destruct (in_dec Nat.eq_dec y (map fst l')) as [Hin|Hni].
    + left. intros v. split; [apply Hf; auto|]. intros Hl.
      apply in_map_iff in Hin. destruct Hin as [[y' v'] [E Hin]]. simpl in E. subst y'.
      pose proof (Hf y v' Hy Hin) as Hl'.
      assert (v = v'); [|subst; exact Hin].
      clear - Hnd Hl Hl'. induction l as [|[z w] l IH]; simpl in *; [tauto|].
      inversion Hnd as [|? ? Hni Hnd']; subst.
      destruct Hl as [Hl|Hl]; destruct Hl' as [Hl'|Hl'].
      * congruence.
      * inversion Hl; subst. exfalso. apply Hni. apply in_map_iff. exists (y, v'). auto.
      * inversion Hl'; subst. exfalso. apply Hni. apply in_map_iff. exists (y, v). auto.
      * auto.
    + right. split; [exact HnG|]. intros v Hin. apply Hni. apply in_map_iff. exists (y, v). auto.
Qed.

Lemma lsim_ctx (G : Prop) W (l l' pre post : list (id * view)) :
  NoDup (map fst (pre ++ l ++ post)) -> lsim G W l l' -> lsim G W (pre ++ l ++ post) (pre ++ l' ++ post).
Proof.
  intros Hnd H y Hy. destruct (H y Hy) as [A|[A1 A2]].
  - left. intros v. rewrite !in_app_iff. rewrite A. tauto.
  - destruct (in_dec Nat.eq_dec y (map fst (pre ++ post))) as [Hin|Hni].
    + left. intros v. rewrite !in_app_iff.
      assert (Hl : ~ In (y, v) l).
      { intro Hl. rewrite !map_app in Hnd, Hin. rewrite in_app_iff in Hin.
        assert (Hyl : In y (map fst l)) by (apply in_map_iff; exists (y, v); auto).
        revert Hnd. rewrite !cnt_nodup. intros Hnd. specialize (Hnd y). repeat (rewrite ?map_app, ?cnt_app in Hnd).
        apply cnt_in in Hyl. destruct Hin as [Hin|Hin]; apply cnt_in in Hin; lia. }
      specialize (A2 v). tauto.
    + right. split; [exact A1|]. intros v. rewrite !in_app_iff. intros [Hin|[Hin|Hin]].
      * apply Hni. rewrite map_app, in_app_iff. left. apply in_map_iff. exists (y, v). auto.
      * eapply A2; eauto.
      * apply Hni. rewrite map_app, in_app_iff. right. apply in_map_iff. exists (y, v). auto.
Qed.

Lemma frm_of_lsim (G : Prop) W (t t' : itree) :
  NoDup (ids t) -> NoDup (ids t') -> lsim G W (nodes t) (nodes t') -> frm G W t t'.
Proof.
  intros H1 H2 H y Hy. destruct (H y Hy) as [A|[A1 A2]].
  - left. apply view_eq; auto.
  - right. split; [exact A1|]. destruct (node_view y t') eqn:E; [|reflexivity].
    apply view_in_nodes in E. exfalso. eapply A2; eauto.
Qed.

(* ---- the main rule: replacing the node found at x ---- *)
Lemma upd_rel (G : Prop) (c : bool) W N x (n n' t t' : itree) :
  NoDup (ids t) -> find x t = Some n -> nid n' = nid n -> upd x (fun _ => Ok n') t = Ok t' ->
  NoDup N -> (forall y, In y N -> ~ In y (ids t)) ->
  (forall y, cnt (ids n') y <= cnt (ids n) y + cnt N y) ->
  (G -> c = true) ->
  (forall y v, ~ In y W -> In (y, v) (nodes n') -> In (y, v) (nodes n)) ->
  (c = true -> forall y v, ~ In y W -> In (y, v) (nodes n) -> In (y, v) (nodes n')) ->
  acct N t t' /\ frm G W t t' /\ NoDup (ids t') /\ nid t' = nid t.
Proof.
  intros Hnd Hf Hn Hu HN Hdisj Hc HG Hfw Hbw.
  destruct (upd_nodes K V x n n' Hn t t' Hnd Hf Hu) as [Hroot [pre [post [P1 P2]]]].
  assert (Hacct : acct N t t').
  { intros y. rewrite <- !map_fst_nodes, P1, P2, !map_app, !cnt_app, !map_fst_nodes. specialize (Hc y). lia. }
  assert (Hnd' : NoDup (ids t')) by (eapply acct_nodup; eauto).
  split; [exact Hacct|]. split; [|split; [exact Hnd' | exact Hroot]].
  apply frm_of_lsim; auto. rewrite P1, P2. apply lsim_ctx.
  - rewrite <- P1, map_fst_nodes. exact Hnd.
  - apply lsim_cases with (c := c); auto.
    rewrite map_fst_nodes. eapply find_sub_nodup; eauto.
Qed.

(* ---- an internal node whose list of children changes in one segment ---- *)
Lemma kids_incl W pi (A B m1 m2 : list (K * itree)) :
  In pi W ->
  (forall y v, ~ In y W -> In (y, v) (nodesl m1) -> In (y, v) (nodesl m2)) ->
  forall y v, ~ In y W -> In (y, v) (nodes (INode pi (A ++ m1 ++ B))) -> In (y, v) (nodes (INode pi (A ++ m2 ++ B))).
Proof.
  intros Hpi H y v Hy. rewrite !nodes_node, !nodesl_app. simpl. rewrite !in_app_iff.
  intros [E|[Hin|[Hin|Hin]]]; auto.
  inversion E; subst. tauto.
Qed.

Lemma kids_cnt N pi (A B m1 m2 : list (K * itree)) :
  (forall y, cnt (idsl m2) y <= cnt (idsl m1) y + cnt N y) ->
  forall y, cnt (ids (INode pi (A ++ m2 ++ B))) y <= cnt (ids (INode pi (A ++ m1 ++ B))) y + cnt N y.
Proof.
  intros H y. rewrite !ids_node, !idsl_app. simpl. rewrite !cnt_app. specialize (H y). lia.
Qed.

Lemma upd_kids_rel (G : Prop) (c : bool) W N p pi (A mid mid' B : list (K * itree)) (t t' : itree) :
  NoDup (ids t) -> find p t = Some (INode pi (A ++ mid ++ B)) ->
  upd p (fun _ => Ok (INode pi (A ++ mid' ++ B))) t = Ok t' ->
  NoDup N -> (forall y, In y N -> ~ In y (ids t)) ->
  In p W ->
  (forall y, cnt (idsl mid') y <= cnt (idsl mid) y + cnt N y) ->
  (G -> c = true) ->
  (forall y v, ~ In y W -> In (y, v) (nodesl mid') -> In (y, v) (nodesl mid)) ->
  (c = true -> forall y v, ~ In y W -> In (y, v) (nodesl mid) -> In (y, v) (nodesl mid')) ->
  acct N t t' /\ frm G W t t' /\ NoDup (ids t') /\ nid t' = nid t.
Proof.
  intros Hnd Hf Hu HN Hdisj Hp Hc HG Hfw Hbw.
  assert (Hpi : pi = p) by (apply find_nid in Hf; exact Hf). subst pi.
  eapply upd_rel with (c := c) (n := INode p (A ++ mid ++ B)) (n' := INode p (A ++ mid' ++ B)); eauto.
  - apply kids_cnt. exact Hc.
  - apply kids_incl; auto.
  - intros Hct. apply kids_incl; auto.
Qed.

(* ---- a leaf whose pairs change ---- *)
Lemma upd_leaf_rel (G : Prop) W x i nx nx' es es' (t t' : itree) :
  NoDup (ids t) -> find x t = Some (ILeaf i nx es) -> upd x (fun _ => Ok (ILeaf i nx' es')) t = Ok t' ->
  In x W ->
  acct [] t t' /\ frm G W t t' /\ NoDup (ids t') /\ nid t' = nid t.
Proof.
  intros Hnd Hf Hu Hx.
  assert (Hi : i = x) by (apply find_nid in Hf; exact Hf). subst i.
  eapply upd_rel with (c := true) (n := ILeaf x nx es) (n' := ILeaf x nx' es'); eauto.
  - constructor.
  - intros y. simpl. lia.
  - simpl. intros y v Hy [E|[]]. inversion E; subst. tauto.
  - simpl. intros _ y v Hy [E|[]]. inversion E; subst. tauto.
Qed.

(* ---- children found by position are found by identity ---- *)
Lemma findl_sub_ids x (r : list (K * itree)) n y : findl x r = Some n -> In y (ids n) -> In y (idsl r).
Proof.
  induction r as [|[s c] r IH]; intros Hf Hy; [discriminate|].
  rewrite findl_cons in Hf. rewrite idsl_cons, in_app_iff. simpl.
  destruct (find x c) eqn:E.
  - inversion Hf; subst. left. eapply find_sub_ids; eauto.
  - right. apply IH; auto.
Qed.

Lemma find_trans p y (n m : itree) : forall t : itree,
  NoDup (ids t) -> find p t = Some n -> find y n = Some m -> find y t = Some m.
Proof.
  induction t as [i nx es|i cs IH] using itree_ind2; intros Hnd Hp Hy; rewrite find_eq in Hp; simpl nid in Hp.
  - destruct (i =? p); [|discriminate]. inversion Hp; subst. exact Hy.
  - destruct (i =? p) eqn:E; [inversion Hp; subst; exact Hy|].
    rewrite ids_node in Hnd. inversion Hnd as [|? ? Hni Hnd']; subst.
    assert (Hyn : In y (ids n)) by (eapply find_in_ids; eauto).
    assert (Hyc : In y (idsl cs)) by (eapply findl_sub_ids; eauto).
    rewrite find_eq. simpl nid.
    destruct (i =? y) eqn:E2; [apply Nat.eqb_eq in E2; subst; tauto|].
    clear E E2 Hni Hyc Hnd. induction cs as [|[s c] r IHr]; [discriminate|].
    inversion IH as [|? ? H1 H2]; subst. rewrite findl_cons in Hp. rewrite findl_cons. simpl in H1.
    rewrite idsl_cons in Hnd'. simpl in Hnd'.
    destruct (find p c) as [z|] eqn:Ec.
    + inversion Hp; subst z. rewrite (H1 (NoDup_app_remove_r _ _ Hnd') eq_refl Hy). reflexivity.
    + assert (Hyr : In y (idsl r)) by (eapply findl_sub_ids; eauto).
      assert (Hyc : ~ In y (ids c)) by (intro Hin; eapply NoDup_app_disj; eauto).
      rewrite (find_none _ _ _ _ Hyc). apply IHr; auto. eapply NoDup_app_remove_l; eauto.
Qed.

Lemma find_kid pi (cs : list (K * itree)) k ch :
  NoDup (ids (INode pi cs)) -> In (k, ch) cs -> find (nid ch) (INode pi cs) = Some ch.
Proof.
  intros Hnd Hin. rewrite ids_node in Hnd. inversion Hnd as [|? ? Hni Hnd']; subst.
  rewrite find_eq. simpl nid.
  destruct (pi =? nid ch) eqn:E.
  - apply Nat.eqb_eq in E. exfalso. apply Hni. rewrite E.
    apply in_flat_map. exists (k, ch). split; [auto | apply nid_in_ids].
  - clear E Hni Hnd. induction cs as [|[s c] r IH]; [destruct Hin|].
    rewrite findl_cons. rewrite idsl_cons in Hnd'. simpl in Hnd'.
    destruct Hin as [E|Hin].
    + inversion E; subst. rewrite find_eq, Nat.eqb_refl. reflexivity.
    + assert (Hyc : ~ In (nid ch) (ids c)).
      { intro Hc. eapply NoDup_app_disj; eauto.
        apply in_flat_map. exists (k, ch). split; [auto | apply nid_in_ids]. }
      rewrite (find_none _ _ _ _ Hyc). apply IH; auto. eapply NoDup_app_remove_l; eauto.
Qed.

Lemma find_child p pi (cs : list (K * itree)) k ch (t : itree) :
  NoDup (ids t) -> find p t = Some (INode pi cs) -> In (k, ch) cs -> find (nid ch) t = Some ch.
Proof.
  intros Hnd Hf Hin. eapply find_trans; eauto. eapply find_kid; eauto. eapply find_sub_nodup; eauto.
Qed.

End Rel.

Arguments acct {K V}. Arguments frm {K V}. Arguments lsim {K V}.

(* O2_Lin.v — LINa_Core.abs_step_nondelete_x / promise_own and LINa_Proof.abs_step_nondelete for order >= 2
   (4 <= order was used only to derive 2 <= order, resp. not at all).  Scripts copied from LINa_Core.v. *)
From Coq Require Import List Bool Lia PeanoNat Permutation Sorted.
From GB Require Import Model Spec Inv ListLemmas SearchProof TreeLemmas Conc GI LockInv LockProof CInv CIDef CInv3
  Frame FrameInv FrameProof EraseLemmas EraseOps SoloBase SoloSearch Lin LinDef GIa1_Ctx GIa1_Local GIa1_Blocks
  LINa_Lists LINa_Ctx LINa_Abs LINa_Prog LINa_Blocks LINa_Core LINa_Exact LINa_Proof.
From GB Require GIa1_Proof.
Import ListNotations.

Section Main.
Variables (K V : Type) (ltb : K -> K -> bool).
Hypothesis HS : SWO ltb.
Notation itree := (itree K V).
Notation st := (st K V).
Notation out := (out K V).
Notation pc := (pc K V).
Notation cop := (cop K V).
Notation thread := (thread K V).
Notation cframe := (cframe K V).
Notation SS := (StronglySorted (fun a b => ltb a b = true)).
Notation shape := (shape ltb).
Notation FAR := (FAR ltb).
Notation absP := (absP ltb).
Notation ltle := (ltle K ltb HS).

Local Notation is_delete_pc := (LINa_Core.is_delete_pc K V).
Local Notation cstep_inv := (LINa_Core.cstep_inv K V ltb).
Local Notation acquired_free := (LINa_Core.acquired_free K V).
Local Notation pc_ok3_me := (LINa_Core.pc_ok3_me K V ltb).
Local Notation lp_of_scan := (LINa_Core.lp_of_scan K V ltb).
Local Notation sea_geom := (LINa_Core.sea_geom K V ltb HS).
Local Notation GOAL := (LINa_Core.GOAL K V ltb).
Local Notation quiet_case := (LINa_Core.quiet_case K V ltb).
Local Notation ins_case := (LINa_Core.ins_case K V ltb HS).
Local Notation cb_case := (LINa_Core.cb_case K V ltb HS).
Local Notation sea_case := (LINa_Core.sea_case K V ltb HS).
Local Notation CIall_facts := (LINa_Core.CIall_facts K V ltb).
Local Notation sea_quiet := (LINa_Core.sea_quiet K V ltb).
Local Notation held_in := (LINa_Core.held_in K V).

Theorem abs_step_nondelete_x_nd : forall order (s : st) me th,
  Nat.even order = true -> 2 <= order ->
  CIall ltb order s -> prog_ok s -> pc_key_exact (tr s) (tpc th) ->
  get_thread me (ths s) = Some th -> is_delete_pc (tpc th) = false ->
  abs_step_ok ltb order s me.
Proof.
  intros order s me th Hev H2 HCI Hprog Hex Hget Hnd s' acq ev Hstep.
  destruct (CIall_facts order s HCI) as (Hsh & Hnodup & Hlt & Hli & Hpcs & Hpc3s).
  destruct (cstep_inv order s s' me acq ev Hstep) as (th0 & o & Hget0 & Htg & Hfree & Hb & -> & ->).
  rewrite Hget in Hget0. inversion Hget0; subst th0; clear Hget0.
  rewrite (lp_step_commit K V ltb s me th acq o Hget).
  pose proof Hli as (_ & Hndt & _).
  destruct (abs_decomp K V ltb s me th Hndt Hget) as (PO & HA0 & HA1 & HPO).
  destruct (commit_ths K V s me th o) as (th' & Hths' & Htpc').
  rewrite HA0, (HA1 _ th' Hths'), Htpc'. change (tr (commit s me th o)) with (otr o).
  change (GOAL s PO (tpc th) (prog th) acq o).
  pose proof (GIa1_Proof.pc_ok_me K V ltb order s me th Hpcs Hget) as Hpc.
  pose proof (pc_ok3_me s me th Hpc3s Hget) as Hpc3.
  pose proof (prog_ok_get K V s me th Hprog Hget) as Hpp.
  unfold blk in Hb. destruct (tpc th) eqn:Epc; cbv beta iota zeta in Hb; cbn [pc_prog] in Hpp.
  - (* Idle *)
    destruct (prog th) eqn:Epr; [discriminate|]. apply GIa1_Proof.bind_some_inv in Hb. unfold mk in Hb.
    inversion Hb; subst o. apply quiet_case; reflexivity.
  - (* WantT *)
    apply GIa1_Proof.bind_some_inv in Hb. unfold mk in Hb. inversion Hb; subst o. apply quiet_case; reflexivity.
  - (* WantRoot *)
    destruct (hd_error_cons _ _ Hpp) as [rest Epr]. rewrite Epr.
    apply GIa1_Proof.bind_some_inv in Hb. simpl in Htg. inversion Htg; subst acq; clear Htg.
    apply acquired_free in Hfree. cbn [pc_ok_b] in Hpc. apply Nat.eqb_eq in Hpc.
    destruct o0 as [k v|k f|k|k|k n].
    + destruct (root_prep K V ltb HS order (CInsert k v) r (tr s) _ _ _ o H2 Hev Hsh Hnodup Hlt Hpc Hb)
        as [(t' & fr' & Hprep & Hd)|Heff]; [pose proof (ins_eff_prep K V ltb HS order _ _ _ _ _ _ _ _ Hprep Hd) as Heff|];
        eapply (ins_case order s me PO); eauto.
    + destruct (root_prep K V ltb HS order (CUpdate k f) r (tr s) _ _ _ o H2 Hev Hsh Hnodup Hlt Hpc Hb)
        as [(t' & fr' & Hprep & Hd)|Heff]; [pose proof (ins_eff_prep K V ltb HS order _ _ _ _ _ _ _ _ Hprep Hd) as Heff|];
        eapply (ins_case order s me PO); eauto.
    + discriminate Hnd.
    + eapply (sea_case order s me PO Hsh Hli Hpcs HPO (WantRoot (CSearch k) r) k rest r [] (tr s) (fresh s)).
      * left. eauto.
      * reflexivity.
      * symmetry. exact Hpc.
      * apply wfc_nil. auto.
      * constructor.
      * intros _. constructor.
      * intros Hlo. exfalso. unfold below_lo, bounds in Hlo. subst r. rewrite (GIa1_Ctx.bounds_self K V) in Hlo. discriminate.
      * exact Hfree.
      * exact Hb.
    + destruct (sea_quiet _ _ _ _ _ _ _ Hb) as [Ht Hp]. apply quiet_case; [apply lp_of_scan|exact Ht|exact Hp].
  - (* InsWantRootRight *)
    destruct (hd_error_cons _ _ Hpp) as [rest Epr]. rewrite Epr.
    apply GIa1_Proof.bind_some_inv in Hb. simpl in Htg. inversion Htg; subst acq; clear Htg.
    apply acquired_free in Hfree. cbn [pc_ok_b] in Hpc.
    destruct (Conc.find r (tr s)) as [rt|] eqn:Hf; [|discriminate Hpc].
    apply andb_true_iff in Hpc. destruct Hpc as [_ Hr].
    pose proof (prep_refl K V ltb order o0 r (tr s) rt (fresh s) Hsh Hnodup Hlt Hf Hr) as Hprep.
    pose proof (ins_eff_prep K V ltb HS order _ _ _ _ _ _ _ _ Hprep Hb) as Heff.
    eapply (ins_case order s me PO); eauto.
  - (* InsWantChild *)
    destruct (hd_error_cons _ _ Hpp) as [rest Epr]. rewrite Epr.
    apply GIa1_Proof.bind_some_inv in Hb. simpl in Htg. inversion Htg; subst acq; clear Htg.
    apply acquired_free in Hfree.
    destruct (ins_child_prep_n K V ltb HS order o0 p c index (tr s) _ _ _ o H2 Hev Hsh Hnodup Hlt Hpc Hb)
      as [(t' & fr' & Hprep & Hd)|Heff]; [pose proof (ins_eff_prep K V ltb HS order _ _ _ _ _ _ _ _ Hprep Hd) as Heff|];
      eapply (ins_case order s me PO); eauto.
  - (* InsWantSplitRight *)
    destruct (hd_error_cons _ _ Hpp) as [rest Epr]. rewrite Epr.
    apply GIa1_Proof.bind_some_inv in Hb. simpl in Htg. inversion Htg; subst acq; clear Htg.
    apply acquired_free in Hfree. cbn [pc_ok_b] in Hpc.
    destruct (Conc.find p (tr s)) as [[?|pi cs]|] eqn:Hfp; try discriminate Hpc.
    destruct (Conc.find r (tr s)) as [rt|] eqn:Hf; [|discriminate Hpc].
    apply andb_true_iff in Hpc. destruct Hpc as [Hpc _].
    apply andb_true_iff in Hpc. destruct Hpc as [Hpc _].
    apply andb_true_iff in Hpc. destruct Hpc as [_ Hr].
    pose proof (prep_refl K V ltb order o0 r (tr s) rt (fresh s) Hsh Hnodup Hlt Hf Hr) as Hprep.
    pose proof (ins_eff_prep K V ltb HS order _ _ _ _ _ _ _ _ Hprep Hb) as Heff.
    eapply (ins_case order s me PO); eauto.
  - (* UpdCallback *)
    destruct (hd_error_cons _ _ Hpp) as [rest Epr]. rewrite Epr.
    apply GIa1_Proof.bind_some_inv in Hb.
    assert (Hheld : In (leaf, me) (lk s)).
    { eapply held_in; eauto. rewrite Epc. simpl. now left. }
    destruct (upd_cb_eff K V ltb HS order o0 leaf mode index (tr s) _ _ _ o Hsh Hnodup Hlt Hpc Hex Hb)
      as (k & f & a & Ho & Hopc & Hoev & Hfar & Hss & Hput & Hlook).
    eapply (cb_case order s me PO); eauto.
  - (* SeaWantChild *)
    destruct Hpp as [Hpp Hsea]. destruct (hd_error_cons _ _ Hpp) as [rest Epr]. rewrite Epr.
    apply GIa1_Proof.bind_some_inv in Hb. simpl in Htg. inversion Htg; subst acq; clear Htg.
    apply acquired_free in Hfree.
    destruct o0 as [k v|k f|k|k|k n]; try discriminate Hsea.
    + destruct (sea_geom order (tr s) (fresh s) (CSearch k) p c Hsh Hnodup Hlt Hpc Hpc3)
        as (C' & nd & Ht & Hn & Hw & HR & HL & Hin & _). cbn [key_of] in *.
      eapply (sea_case order s me PO Hsh Hli Hpcs HPO (SeaWantChild (CSearch k) p c) k rest c C' nd (fresh s)); eauto.
    + destruct (sea_quiet _ _ _ _ _ _ _ Hb) as [Ht Hp]. apply quiet_case; [apply lp_of_scan|exact Ht|exact Hp].
  - discriminate Hnd.
  - discriminate Hnd.
  - discriminate Hnd.
  - (* CurRest *)
    destruct Hpp as (k & cnt & Hpp). destruct (hd_error_cons _ _ Hpp) as [rest Epr]. rewrite Epr.
    apply GIa1_Proof.bind_some_inv in Hb. unfold mk in Hb.
    crunch Hb; inversion Hb; subst; apply quiet_case; try apply lp_of_scan; reflexivity.
  - (* CurWantNext *)
    destruct Hpp as (k & cnt & Hpp). destruct (hd_error_cons _ _ Hpp) as [rest Epr]. rewrite Epr.
    apply GIa1_Proof.bind_some_inv in Hb. unfold mk in Hb.
    crunch Hb; inversion Hb; subst; apply quiet_case; try apply lp_of_scan; reflexivity.
Qed.

(* a Search decided "absent" (routed below the separator of the node it rests on) stays decided, and answers
   "absent" when it reaches the leaf.  No hypothesis beyond CIall. *)
Theorem promise_own_nd : forall order (s s' : st) me acq ev,
  Nat.even order = true -> 2 <= order -> CIall ltb order s ->
  cstep ltb order s me = Stepped s' acq ev -> decided ltb s me = true ->
  match returns ev with Some r => r = RFound K None | None => decided ltb s' me = true end.
Proof.
  intros order s s' me acq ev Hev H4 HCI Hstep Hdec.
  destruct (CIall_facts order s HCI) as (Hsh & Hnodup & Hlt & Hli & Hpcs & Hpc3s).
  destruct (cstep_inv order s s' me acq ev Hstep) as (th & o & Hget & Htg & Hfree & Hb & -> & ->).
  unfold decided in Hdec. rewrite Hget in Hdec.
  destruct (tpc th) as [ |o0|o0 r0|o0 lft rgt|o0 p c index|o0 p c r0|o0 leaf mode index|o0 p c|o0 stk|o0 stk|o0 stk|leaf i n acc|leaf nxt n acc] eqn:Epc;
    try discriminate Hdec.
  destruct o0 as [k v|k f|k|k|k n]; try discriminate Hdec.
  pose proof (GIa1_Proof.pc_ok_me K V ltb order s me th Hpcs Hget) as Hpc.
  pose proof (pc_ok3_me s me th Hpc3s Hget) as Hpc3. rewrite Epc in Hpc, Hpc3.
  unfold blk in Hb. rewrite Epc in Hb. cbv beta iota zeta in Hb. apply GIa1_Proof.bind_some_inv in Hb.
  destruct (sea_geom order (tr s) (fresh s) (CSearch k) p c Hsh Hnodup Hlt Hpc Hpc3)
    as (C' & nd & Ht & Hn & Hw & _ & _ & Hin & Hprom). cbn [key_of] in *.
  specialize (Hprom Hdec). specialize (Hin Hprom).
  assert (Hf : Conc.find c (tr s) = Some nd) by (rewrite Ht, <- Hn; apply (find_plug_self K V C' nd _ Hw)).
  destruct nd as [i nx es|i cs].
  - destruct (sea_descend_leaf K V ltb HS _ _ _ _ _ _ _ _ _ _ Hf Hb) as (Ho & Hopc & r & Hoev & Hr).
    cbn [key_of] in Hr. rewrite Hoev. cbn [returns flat_map app]. f_equal.
    assert (Hss : SS (map fst es)).
    { rewrite Ht in Hsh. apply (leaf_sorted_ctx K V ltb HS order C' i nx es Hsh). }
    rewrite (Hr Hss). apply (LINa_Lists.lookup_above K V ltb). exact Hin.
  - destruct (sea_descend_node K V ltb _ _ _ _ _ _ _ _ _ Hf Hb) as (Ho & Hoev & idx & s0 & ch & _ & _ & Hopc).
    rewrite Hoev. cbn [returns flat_map].
    destruct (commit_ths K V s me th o) as (th' & Hths' & Htpc').
    unfold decided. rewrite Hths', (get_set_same K V me th th' _ Hget), Htpc', Hopc.
    change (tr (commit s me th o)) with (otr o). rewrite Ho. exact Hprom.
Qed.

Theorem abs_step_nondelete_nd : forall order (s : st) me th,
  Nat.even order = true -> 2 <= order ->
  CIall ltb order s -> lin_extra K V s ->
  get_thread me (ths s) = Some th -> is_delete_pc (tpc th) = false ->
  abs_step_ok ltb order s me.
Proof.
  intros order s me th Hev H2 HCI [Hp Hk] Hget Hnd.
  eapply (abs_step_nondelete_x_nd order s me th); eauto.
Qed.

End Main.

Print Assumptions abs_step_nondelete_nd.
Print Assumptions promise_own_nd.

(* SoloDelete.v — Delete run alone: the explicit stack of deleteKey activations and [unwind] compute del_node. *)
From Coq Require Import List Bool Lia PeanoNat Permutation Wf_nat.
From GB Require Import Model Inv ListLemmas TreeLemmas Conc GI LockInv LockProof EraseLemmas EraseOps SoloBase SoloSearch SoloInsert.
Import ListNotations.

(* ---- slice idioms at a known position ---- *)
Lemma nth_error_at {A} n (a : list A) x b : n = length a -> nth_error (a ++ x :: b) n = Some x.
Proof. intros ->. apply nth_error_app_len. Qed.
Lemma nth_error_at1 {A} n (a : list A) x y b : n = S (length a) -> nth_error (a ++ x :: y :: b) n = Some y.
Proof. intros ->. apply nth_error_app_len1. Qed.
Lemma get_nth_at {A} n (a : list A) x b : n = length a -> get_nth n (a ++ x :: b) = Ok x.
Proof. intros H. unfold get_nth. rewrite nth_error_at by exact H. reflexivity. Qed.
Lemma get_nth_at1 {A} n (a : list A) x y b : n = S (length a) -> get_nth n (a ++ x :: y :: b) = Ok y.
Proof. intros H. unfold get_nth. rewrite nth_error_at1 by exact H. reflexivity. Qed.
Lemma set_nth_at {A} n (a : list A) x y b : n = length a -> set_nth n y (a ++ x :: b) = a ++ y :: b.
Proof. intros ->. apply set_nth_app. Qed.
Lemma set_nth_at1 {A} n (a : list A) x y z b : n = S (length a) -> set_nth n z (a ++ x :: y :: b) = a ++ x :: z :: b.
Proof. intros ->. apply set_nth_app1. Qed.
Lemma del_nth_at {A} n (a : list A) x b : n = length a -> del_nth n (a ++ x :: b) = a ++ b.
Proof. intros ->. apply del_nth_app. Qed.
Lemma del_nth_at1 {A} n (a : list A) x y b : n = S (length a) -> del_nth n (a ++ x :: y :: b) = a ++ x :: b.
Proof. intros ->. apply del_nth_app1. Qed.

Lemma set_child_at {K V} n (a : list (K * tree K V)) s x c b :
  n = length a -> set_child n c (a ++ (s, x) :: b) = a ++ (s, c) :: b.
Proof. intros H. unfold set_child. rewrite nth_error_at by exact H. apply set_nth_at. exact H. Qed.
Lemma set_child_at1 {K V} n (a : list (K * tree K V)) p s x c b :
  n = S (length a) -> set_child n c (a ++ p :: (s, x) :: b) = a ++ p :: (s, c) :: b.
Proof. intros H. unfold set_child. rewrite nth_error_at1 by exact H. apply set_nth_at1. exact H. Qed.
Lemma set_child_i_at {K V} n (a : list (K * itree K V)) s x c b :
  n = length a -> set_child_i n c (a ++ (s, x) :: b) = a ++ (s, c) :: b.
Proof. intros H. unfold set_child_i. rewrite nth_error_at by exact H. apply set_nth_at. exact H. Qed.
Lemma set_child_i_at1 {K V} n (a : list (K * itree K V)) p s x c b :
  n = S (length a) -> set_child_i n c (a ++ p :: (s, x) :: b) = a ++ p :: (s, c) :: b.
Proof. intros H. unfold set_child_i. rewrite nth_error_at1 by exact H. apply set_nth_at1. exact H. Qed.

Section Del.
Variables (K V : Type) (ltb : K -> K -> bool) (order : nat) (me : tid).
Notation itree := (itree K V).
Notation tree := (tree K V).
Notation st := (st K V).
Variables (key : K) (rest : list (cop K V)) (fr : id).
Let o : cop K V := CDelete key.
Let mins : nat := Nat.div2 order.

Lemma irebalance_sim C p (cs : list (K * itree)) index ecs' small' f :
  fp f = p -> fidx f = index -> wfc C (INode p cs) fr ->
  rebalance mins index (erase_cs cs) = Ok (ecs', small') ->
  exists cs', irebalance order f (plug C (INode p cs)) = Ok (plug C (INode p cs'), small') /\
    erase_cs cs' = ecs' /\ wfc C (INode p cs') fr /\ links_equiv (links_list cs) (links_list cs').
Proof.
  intros Hfp Hfi Hw Hseq.
  pose proof (find_plug_self _ _ C _ fr Hw) as Hfind. cbn [nid] in Hfind.
  unfold irebalance. rewrite Hfp, Hfi. rewrite Hfind.
  unfold rebalance in Hseq.
  destruct (get_nth index (erase_cs cs)) as [[s0 e0]|] eqn:Eg; [|discriminate Hseq]. cbn [bind] in Hseq.
  destruct (get_nth_erase _ _ index cs s0 e0 Eg) as (child & Hgc & Hec & Hnc). rewrite Hgc. cbn [bind].
  cbv zeta in Hseq. cbv zeta. rewrite erase_cs_length in Hseq. rewrite !nth_error_erase in Hseq.
  fold mins.
  assert (HC : forall j, (match option_map (fun c : K * itree => (fst c, erase_ids (snd c))) (nth_error cs j) with
                          | Some (_, r) => count r | None => 0 end)
                       = (match nth_error cs j with Some (_, r) => icount r | None => 0 end)).
  { intros j. destruct (nth_error cs j) as [[? ?]|]; simpl; [apply icount_erase|reflexivity]. }
  rewrite !HC in Hseq. clear HC.
  rewrite !Nat.add_1_r in *.
  set (RC := if S index <? length cs then match nth_error cs (S index) with Some (_, r) => icount r | None => 0 end else 0) in *.
  set (LC := if 0 <? index then match nth_error cs (index - 1) with Some (_, l) => icount l | None => 0 end else 0) in *.
  assert (Hupd : forall cs2, upd p (fun _ => Ok (INode p cs2)) (plug C (INode p cs)) = Ok (plug C (INode p cs2))).
  { intros cs2. apply (upd_plug_self _ _ C (INode p cs) fr _ Hw). }
  assert (Hright : 0 < RC -> exists A s2 rgt B, cs = A ++ (s0, child) :: (s2, rgt) :: B /\ index = length A).
  { intros H. unfold RC in H. destruct (S index <? length cs) eqn:E; [|lia].
    destruct (nth_error cs (S index)) as [[s2 rgt]|] eqn:En; [|lia].
    destruct (nth_error_split2 _ _ _ _ Hnc En) as (A & B & HA & HB). exists A, s2, rgt, B. auto. }
  assert (Hleft : 0 < LC -> exists A s1 lft B, cs = A ++ (s1, lft) :: (s0, child) :: B /\ index = S (length A)).
  { intros H. unfold LC in H. destruct (0 <? index) eqn:E; [|lia]. apply Nat.ltb_lt in E.
    destruct index as [|j]; [lia|]. simpl in H. rewrite Nat.sub_0_r in H.
    destruct (nth_error cs j) as [[s1 lft]|] eqn:En; [|lia].
    destruct (nth_error_split2 _ _ _ _ En Hnc) as (A & B & HA & HB). exists A, s1, lft, B. subst j. auto. }
  assert (Hwfc : forall cs' L, Permutation (ids_list cs) (L ++ ids_list cs') -> wfc C (INode p cs') fr).
  { intros cs' L HP. eapply (wfc_shrink _ _ C (INode p cs) (INode p cs') fr L); [exact Hw|].
    rewrite !ids_node. generalize (ids_list cs) (ids_list cs') HP. intros a b HP'. perm_lia. }
  destruct ((S index <? length cs) && (mins <? RC)) eqn:B1.
  - (* borrow from the right sibling *)
    apply andb_true_iff in B1. destruct B1 as [_ B1]. apply Nat.ltb_lt in B1.
    destruct Hright as (A & s2 & rgt & B & -> & Hidx); [lia|].
    rewrite !erase_cs_app, !erase_cs_cons in Hseq.
    rewrite get_nth_at1 in Hseq by (rewrite erase_cs_length; lia). cbn [bind] in Hseq.
    rewrite <- Hec in Hseq.
    destruct (adopt_from_right (erase_ids child) (erase_ids rgt)) as [[c' r']|] eqn:Ead; [|discriminate Hseq].
    cbn [bind] in Hseq.
    destruct (adoptR_sim _ _ child rgt c' r' Ead) as (child2 & rgt2 & Hia & Hc' & Hr' & _ & _ & Hperm & Hlk).
    subst c' r'. rewrite ismallest_erase in Hseq.
    destruct (ismallest rgt2) as [rs|] eqn:Ers; [|discriminate Hseq]. cbn [bind] in Hseq.
    rewrite set_child_at in Hseq by (rewrite erase_cs_length; lia).
    rewrite set_nth_at1 in Hseq by (rewrite erase_cs_length; lia).
    inversion Hseq; subst ecs' small'; clear Hseq.
    rewrite get_nth_at1 by lia. cbn [bind]. rewrite Hia. cbn [bind]. rewrite Ers. cbn [bind].
    rewrite set_child_i_at by lia. rewrite set_nth_at1 by lia. rewrite Hupd. cbn [bind].
    eexists. split; [reflexivity|]. split; [|split].
    + rewrite !erase_cs_app, !erase_cs_cons. reflexivity.
    + apply (Hwfc _ []). rewrite !ids_list_app, !ids_list_cons. cbn [app].
      generalize (ids_list A) (ids_list B) (ids child) (ids rgt) (ids child2) (ids rgt2) Hperm.
      intros a b d1 d2 d3 d4 HP. perm_lia.
    + rewrite !links_list_app, !links_list_cons. rewrite !(app_assoc (leaf_links _)). rewrite Hlk.
      apply links_equiv_refl.
  - destruct ((0 <? index) && (mins <? LC)) eqn:B2.
    + (* borrow from the left sibling *)
      apply andb_true_iff in B2. destruct B2 as [_ B2]. apply Nat.ltb_lt in B2.
      destruct Hleft as (A & s1 & lft & B & -> & Hidx); [lia|].
      assert (Hi1 : index - 1 = length A) by lia. rewrite Hi1 in *.
      rewrite !erase_cs_app, !erase_cs_cons in Hseq.
      rewrite get_nth_at in Hseq by (rewrite erase_cs_length; lia). cbn [bind] in Hseq.
      rewrite <- Hec in Hseq.
      destruct (adopt_from_left (erase_ids lft) (erase_ids child)) as [[l' c']|] eqn:Ead; [|discriminate Hseq].
      cbn [bind] in Hseq.
      destruct (adoptL_sim _ _ lft child l' c' Ead) as (lft2 & child2 & Hia & Hl' & Hc' & _ & _ & Hperm & Hlk).
      subst l' c'. rewrite ismallest_erase in Hseq.
      destruct (ismallest child2) as [sm|] eqn:Esm; [|discriminate Hseq]. cbn [bind] in Hseq.
      rewrite set_child_at in Hseq by (rewrite erase_cs_length; lia).
      rewrite set_nth_at1 in Hseq by (rewrite erase_cs_length; lia).
      inversion Hseq; subst ecs' small'; clear Hseq.
      rewrite get_nth_at by lia. cbn [bind]. rewrite Hia. cbn [bind]. rewrite Esm. cbn [bind].
      rewrite set_child_i_at by lia. rewrite set_nth_at1 by lia. rewrite Hupd. cbn [bind].
      eexists. split; [reflexivity|]. split; [|split].
      * rewrite !erase_cs_app, !erase_cs_cons. reflexivity.
      * apply (Hwfc _ []). rewrite !ids_list_app, !ids_list_cons. cbn [app].
        generalize (ids_list A) (ids_list B) (ids child) (ids lft) (ids child2) (ids lft2) Hperm.
        intros a b d1 d2 d3 d4 HP. perm_lia.
      * rewrite !links_list_app, !links_list_cons. rewrite !(app_assoc (leaf_links _)). rewrite Hlk.
        apply links_equiv_refl.
    + destruct (0 <? LC) eqn:B3.
      * (* merge into the left sibling *)
        apply Nat.ltb_lt in B3.
        destruct Hleft as (A & s1 & lft & B & -> & Hidx); [lia|].
        assert (Hi1 : index - 1 = length A) by lia. rewrite Hi1 in *.
        rewrite !erase_cs_app, !erase_cs_cons in Hseq.
        rewrite get_nth_at in Hseq by (rewrite erase_cs_length; lia). cbn [bind] in Hseq.
        rewrite <- Hec in Hseq.
        destruct (absorb_right (erase_ids lft) (erase_ids child)) as [z|] eqn:Eab; [|discriminate Hseq].
        cbn [bind] in Hseq.
        destruct (absorb_sim _ _ lft child z Eab) as (z2 & Hia & Hz & _ & Hperm & Hlk). subst z.
        rewrite set_child_at in Hseq by (rewrite erase_cs_length; lia).
        rewrite del_nth_at1 in Hseq by (rewrite erase_cs_length; lia).
        inversion Hseq; subst ecs' small'; clear Hseq.
        rewrite get_nth_at by lia. cbn [bind]. rewrite Hia. cbn [bind].
        rewrite set_child_i_at by lia. rewrite del_nth_at1 by lia. rewrite Hupd. cbn [bind].
        eexists. split; [|split; [|split]].
        -- f_equal. f_equal. rewrite !app_length. cbn [length]. rewrite !erase_cs_length. reflexivity.
        -- rewrite !erase_cs_app, !erase_cs_cons. reflexivity.
        -- apply (Hwfc _ [nid child]). rewrite !ids_list_app, !ids_list_cons. cbn [app].
           generalize (ids_list A) (ids_list B) (ids child) (ids lft) (ids z2) (nid child) Hperm.
           intros a b d1 d2 d3 d4 HP. perm_lia.
        -- rewrite !links_list_app, !links_list_cons. rewrite !(app_assoc (leaf_links _)).
           apply links_equiv_ctx. exact Hlk.
      * destruct (RC =? 0) eqn:B4; [discriminate Hseq|].
        (* merge the right sibling into the child *)
        apply Nat.eqb_neq in B4.
        destruct Hright as (A & s2 & rgt & B & -> & Hidx); [lia|].
        rewrite !erase_cs_app, !erase_cs_cons in Hseq.
        rewrite get_nth_at1 in Hseq by (rewrite erase_cs_length; lia). cbn [bind] in Hseq.
        rewrite <- Hec in Hseq.
        destruct (absorb_right (erase_ids child) (erase_ids rgt)) as [z|] eqn:Eab; [|discriminate Hseq].
        cbn [bind] in Hseq.
        destruct (absorb_sim _ _ child rgt z Eab) as (z2 & Hia & Hz & _ & Hperm & Hlk). subst z.
        rewrite set_child_at in Hseq by (rewrite erase_cs_length; lia).
        rewrite del_nth_at1 in Hseq by (rewrite erase_cs_length; lia).
        inversion Hseq; subst ecs' small'; clear Hseq.
        rewrite get_nth_at1 by lia. cbn [bind]. rewrite Hia. cbn [bind].
        rewrite set_child_i_at by lia. rewrite del_nth_at1 by lia. rewrite Hupd. cbn [bind].
        eexists. split; [|split; [|split]].
        -- f_equal. f_equal. rewrite !app_length. cbn [length]. rewrite !erase_cs_length. reflexivity.
        -- rewrite !erase_cs_app, !erase_cs_cons. reflexivity.
        -- apply (Hwfc _ [nid rgt]). rewrite !ids_list_app, !ids_list_cons. cbn [app].
           generalize (ids_list A) (ids_list B) (ids child) (ids rgt) (ids z2) (nid rgt) Hperm.
           intros a b d1 d2 d3 d4 HP. perm_lia.
        -- rewrite !links_list_app, !links_list_cons. rewrite !(app_assoc (leaf_links _)).
           apply links_equiv_ctx. exact Hlk.
Qed.

(* ---- the sequential recursion, cut at the frames of a context ---- *)
Definition sframe : Type := (list (K * tree) * K * list (K * tree))%type.
Definition sstep (sf : sframe) (r : tree * bool) : res (tree * bool) :=
  let '(pre, s, post) := sf in
  let cs1 := pre ++ (s, fst r) :: post in
  if negb (snd r) then Ok (Node cs1, false)
  else '(cs', small') <- rebalance mins (length pre) cs1 ;; Ok (Node cs', small').
Fixpoint sunwind (ctx : list sframe) (r : tree * bool) : res (tree * bool) :=
  match ctx with [] => Ok r | sf :: c => r' <- sstep sf r ;; sunwind c r' end.
Definition ecf (cf : cframe K V) : sframe := (erase_cs (cpre cf), csep cf, erase_cs (cpost cf)).
Definition dpost (r : tree * bool) : res tree :=
  let t' := fst r in
  if negb (snd r) || (1 <? count t') then Ok t' else
  match t' with
  | Node ((_, c) :: _) => Ok c
  | Node [] => Panic PIndex
  | Leaf _ => Ok t'
  end.

Lemma delete_eq (t : tree) : delete ltb order key t = (r <- del_node ltb (S (height t)) mins key t ;; dpost r).
Proof. unfold delete. fold mins. destruct (del_node ltb (S (height t)) mins key t) as [[t' small]|]; reflexivity. Qed.

Lemma del_node_unfold fuel pre s e post :
  search_le ltb key (map fst (pre ++ (s, e) :: post)) = Ok (length pre) ->
  del_node ltb (S fuel) mins key (Node (pre ++ (s, e) :: post)) =
  (r0 <- del_node ltb fuel mins key e ;; sstep (pre, s, post) r0).
Proof.
  intros H. cbn [del_node]. rewrite H. cbn [bind]. rewrite get_nth_app. cbn [bind].
  destruct (del_node ltb fuel mins key e) as [[child small]|]; cbn [bind]; [|reflexivity].
  unfold sstep. cbn [fst snd]. rewrite set_child_at by reflexivity. reflexivity.
Qed.

(* ---- the stack of frames against the context ---- *)
Fixpoint smatch (c : id) (stk : list frame) (C : list (cframe K V)) : Prop :=
  match stk, C with
  | [], [] => True
  | f :: stk', cf :: C' =>
    fp f = cid cf /\ fidx f = length (cpre cf) /\
    (forall x, In x (fkids f) -> x = c \/ In x (ids_list (cpre cf))) /\ smatch (cid cf) stk' C'
  | _, _ => False
  end.
Definition left_ids (C : list (cframe K V)) : list id := flat_map (fun cf => cid cf :: ids_list (cpre cf)) C.

Lemma smatch_kids : forall stk C c, smatch c stk C ->
  forall x, In x (flat_map fkids stk) -> x = c \/ In x (left_ids C).
Proof.
  induction stk as [|f stk IH]; intros [|cf C] c Hm x Hx; simpl in Hm; try tauto; try (simpl in Hx; tauto).
  destruct Hm as (_ & _ & Hk & Hm). cbn [flat_map] in Hx. apply in_app_or in Hx. destruct Hx as [Hx|Hx].
  - destruct (Hk x Hx) as [->|Hp]; [now left|]. right. cbn [left_ids flat_map]. right. apply in_or_app. now left.
  - destruct (IH C (cid cf) Hm x Hx) as [->|Hp]; right; cbn [left_ids flat_map]; [now left|].
    right. apply in_or_app. now right.
Qed.

Lemma left_in_ctx C x : In x (left_ids C) -> In x (ctx_ids C).
Proof.
  induction C as [|cf C IH]; [tauto|]. cbn [left_ids flat_map]. rewrite ctx_ids_cons. unfold cf_ids.
  intros [H|H]; [left; exact H|]. apply in_app_or in H. destruct H as [H|H].
  - right. apply in_or_app. left. apply in_or_app. now left.
  - right. apply in_or_app. right. apply IH. exact H.
Qed.

Lemma nid_plug_left C (sub : itree) : nid (plug C sub) = nid sub \/ In (nid (plug C sub)) (left_ids C).
Proof.
  destruct (nid_plug _ _ C sub) as [H|H]; [now left|right].
  revert H. generalize (nid (plug C sub)). intros x H.
  induction C as [|cf C IH]; [exact H|]. cbn [left_ids flat_map]. simpl in H.
  destruct H as [H|H]; [left; exact H|]. right. apply in_or_app. right. apply IH. exact H.
Qed.

Lemma post_not_left cf C x :
  NoDup (ctx_ids (cf :: C)) -> In x (ids_list (cpost cf)) -> ~ In x (left_ids (cf :: C)).
Proof.
  rewrite ctx_ids_cons. unfold cf_ids. cbn [left_ids flat_map]. intros Hnd Hx.
  cbn [app] in Hnd. inversion Hnd as [|? ? Hn1 Hnd']; subst.
  apply nodup_app_iff in Hnd'. destruct Hnd' as (Hpq & _ & Hdis).
  apply nodup_app_iff in Hpq. destruct Hpq as (_ & _ & Hdis2).
  intros [E|H].
  - apply Hn1. rewrite E. apply in_or_app. left. apply in_or_app. now right.
  - apply in_app_or in H. destruct H as [H|H].
    + apply (Hdis2 x H Hx).
    + apply (Hdis x); [apply in_or_app; now right|apply left_in_ctx; exact H].
Qed.

Definition pc_del_stack (p : pc K V) : option (list frame) :=
  match p with DelWantLeft _ stk | DelWantChild _ stk | DelWantRight _ stk => Some stk | _ => None end.

Lemma del_nodes_sub (s : st) th stk x :
  SoloInv me s -> get_thread me (ths s) = Some th -> pc_del_stack (tpc th) = Some stk ->
  In x (pc_nodes (tpc th)) -> x = nid (tr s) \/ In x (flat_map fkids stk).
Proof.
  intros [[_ Hwf] _] Hg Hst Hin. specialize (Hwf me th Hg).
  assert (H : bottom_ok (nid (tr s)) stk /\ stk <> [] /\ pc_nodes (tpc th) = frames_nodes stk).
  { destruct (tpc th); simpl in Hst; try discriminate; inversion Hst; subst; simpl in Hwf |- *;
      destruct Hwf as [Hb Hne]; (split; [exact Hb|]); (split; [|reflexivity]).
    - destruct stk; [tauto|discriminate].
    - destruct stk; [tauto|discriminate].
    - exact Hne. }
  destruct H as (Hb & Hne & Hpn). rewrite Hpn in Hin.
  rewrite (frames_nodes_bottom _ _ Hne Hb) in Hin. destruct Hin as [H|H]; [left; auto|right; exact H].
Qed.

(* the identities a Delete pc may hold, in terms of the context: nothing in a right sibling subtree *)
Lemma del_locked_left (s : st) th stk C (sub : itree) x :
  SoloInv me s -> get_thread me (ths s) = Some th -> pc_del_stack (tpc th) = Some stk ->
  tr s = plug C sub -> smatch (nid sub) stk C ->
  In x (pc_nodes (tpc th)) -> x = nid sub \/ In x (left_ids C).
Proof.
  intros Hs Hg Hst Htr Hm Hin. destruct (del_nodes_sub s th stk x Hs Hg Hst Hin) as [->|H].
  - rewrite Htr. apply nid_plug_left.
  - eapply smatch_kids; eauto.
Qed.

Definition DelPost (tfinal : tree) (s' : st) : Prop :=
  SoloInv me s' /\ me_at me s' Idle rest /\ fresh s' = fr /\ erase_ids (tr s') = tfinal /\
  NoDup (ids (tr s')) /\ Forall (fun i => i < fr) (ids (tr s')) /\ chain_ok (leaf_links (tr s')).

Lemma erase_plug1 cf (x : itree) : erase_ids (plug1 cf x) = Node (erase_cs (cpre cf) ++ (csep cf, erase_ids x) :: erase_cs (cpost cf)).
Proof. unfold plug1. rewrite erase_node, erase_cs_app, erase_cs_cons. reflexivity. Qed.

Lemma unwind_cons fuel' (oo : cop K V) f rest0 small right (t : itree) l tmx :
  unwind order (S fuel') oo (f :: rest0) small right t l fr tmx =
  if negb small then unwind order fuel' oo rest0 false None t (unlock_frame_kids f right l) fr tmx
  else match Conc.find (fp f) t with
       | Some (INode _ cs) =>
         if (fidx f + 1 <? length cs) && (match right with None => true | Some _ => false end) then
           mk t l fr tmx (DelWantRight oo (f :: rest0)) []
         else
           '(t', small') <- irebalance order f t ;;
           unwind order fuel' oo rest0 small' None t' (unlock_frame_kids f right l) fr tmx
       | _ => Panic PIndex end.
Proof. reflexivity. Qed.

Lemma unwind_ok : forall stk C (sub : itree) small right l fuel tmx tfinal,
  length stk < fuel -> smatch (nid sub) stk C -> wfc C sub fr -> chain_ok (leaf_links (plug C sub)) ->
  (r <- sunwind (map ecf C) (erase_ids sub, small) ;; dpost r) = Ok tfinal ->
  exists out, unwind order fuel o stk small right (plug C sub) l fr tmx = Ok out /\
     OutOK ltb order me o rest out (DelPost tfinal) RUnit.
Proof.
  induction stk as [|f stk IH]; intros [|cf C] sub small right l fuel tmx tfinal Hfuel Hm Hw Hch Hseq;
    simpl in Hm; try tauto.
  - (* back in Delete *)
    destruct fuel as [|fuel]; [simpl in Hfuel; lia|]. cbn [unwind plug]. cbn [map sunwind bind] in Hseq.
    eexists. split; [reflexivity|].
    intros s1 Hs1 Htr Hfr Hat. unfold Completes. simpl in Htr, Hfr, Hat |- *. split; [|now left].
    apply wfc_nil in Hw. destruct Hw as [Hnd Hlt]. cbn [plug] in Hch.
    unfold dpost in Hseq. cbn [fst snd] in Hseq. rewrite icount_erase in Hseq.
    split; [exact Hs1|]. split; [exact Hat|]. split; [exact Hfr|]. rewrite Htr.
    destruct (negb small || (1 <? icount sub)) eqn:Ec.
    + inversion Hseq; subst. auto.
    + destruct sub as [i nx es|i [|[s c] cs]].
      * cbn [erase_ids] in Hseq. inversion Hseq; subst. auto.
      * cbn [erase_ids map] in Hseq. discriminate Hseq.
      * rewrite erase_node, erase_cs_cons in Hseq. inversion Hseq; subst.
        apply orb_false_iff in Ec. destruct Ec as [_ Ec]. apply Nat.ltb_ge in Ec. simpl in Ec.
        destruct cs; [|simpl in Ec; lia].
        rewrite ids_node, ids_list_cons in Hnd, Hlt. simpl in Hnd, Hlt. rewrite app_nil_r in *.
        inversion Hnd; subst. inversion Hlt; subst.
        rewrite links_node, links_list_cons in Hch. simpl in Hch. rewrite app_nil_r in Hch. auto.
  - (* one activation of deleteKey *)
    destruct Hm as (Hfp & Hfi & Hk & Hm).
    destruct fuel as [|fuel]; [lia|]. assert (Hfuel' : length stk < fuel) by (simpl in Hfuel; lia).
    cbn [plug]. cbn [map sunwind] in Hseq.
    pose proof (proj2 (wfc_push _ _ cf C sub fr) Hw) as Hw1.
    destruct small.
    + (* the child came back too small *)
      rewrite unwind_cons. cbn [negb].
      pose proof (find_plug_self _ _ C _ fr Hw1) as Hfind. cbn [nid plug1] in Hfind. rewrite <- Hfp in Hfind at 1.
      unfold plug1 in Hfind |- *. rewrite Hfind.
      (* the sequential step *)
      unfold sstep, ecf in Hseq. cbn [fst snd negb] in Hseq.
      destruct (rebalance mins (length (erase_cs (cpre cf)))
                  (erase_cs (cpre cf) ++ (csep cf, erase_ids sub) :: erase_cs (cpost cf))) as [[ecs' small']|] eqn:Erb;
        [|discriminate Hseq].
      cbn [bind] in Hseq.
      assert (Erb' : rebalance mins (fidx f) (erase_cs (cpre cf ++ (csep cf, sub) :: cpost cf)) = Ok (ecs', small')).
      { rewrite erase_cs_app, erase_cs_cons. rewrite Hfi. rewrite erase_cs_length in Erb. exact Erb. }
      destruct (irebalance_sim C (cid cf) _ (fidx f) ecs' small' f Hfp eq_refl Hw1 Erb')
        as (cs' & Hir & Hecs & Hw2 & Hlk).
      assert (HA : forall fuel2 right' l' tmx2, length stk < fuel2 -> exists out,
                 ('(t', small'0) <- irebalance order f (plug C (INode (cid cf) (cpre cf ++ (csep cf, sub) :: cpost cf))) ;;
                  unwind order fuel2 o stk small'0 None t' (unlock_frame_kids f right' l') fr tmx2) = Ok out /\
                 OutOK ltb order me o rest out (DelPost tfinal) RUnit).
      { intros fuel2 right' l' tmx2 Hf2. rewrite Hir. cbn [bind].
        apply (IH C (INode (cid cf) cs') small' None (unlock_frame_kids f right' l') fuel2 tmx2 tfinal Hf2 Hm Hw2).
        - eapply chain_plug; [|exact Hch]. rewrite links_node. exact Hlk.
        - rewrite erase_node, Hecs. exact Hseq. }
      destruct ((fidx f + 1 <? length (cpre cf ++ (csep cf, sub) :: cpost cf)) &&
                match right with None => true | Some _ => false end) eqn:Epark.
      * (* a right sibling must be locked first: park *)
        eexists. split; [reflexivity|].
        intros s1 Hs1 Htr Hfr (th1 & Hg1 & Hpc1 & Hpr1). simpl in Htr, Hfr, Hpc1, Hpr1.
        apply completes_of_runs; [reflexivity|].
        apply andb_true_iff in Epark. destruct Epark as [Ehr _]. apply Nat.ltb_lt in Ehr.
        rewrite app_length in Ehr. simpl in Ehr.
        destruct (cpost cf) as [|[s2 Y] post'] eqn:Epost; [simpl in Ehr; lia|].
        assert (Htg : target s1 (tpc th1) = Ok (Some (Some (nid Y)))).
        { rewrite Hpc1. cbn [target]. unfold child_id. rewrite Htr, Hfind. rewrite get_nth_at1 by lia. reflexivity. }
        destruct (HA (S (length (f :: stk))) (Some (nid Y)) ((nid Y, me) :: lk s1) (tm s1)) as (out' & Ho' & Hok');
          [simpl; lia|].
        eapply (solo_step_out K V ltb order me s1 th1 (Some (Some (nid Y))) o rest out'); eauto.
        -- eapply free_node; eauto. intros Hin.
           assert (Htr' : tr s1 = plug (cf :: C) sub) by (rewrite Htr; cbn [plug]; unfold plug1; rewrite Epost; reflexivity).
           assert (Hm' : smatch (nid sub) (f :: stk) (cf :: C)) by (simpl; auto).
           destruct (del_locked_left s1 th1 (f :: stk) (cf :: C) sub (nid Y) Hs1 Hg1) as [E|E]; auto.
           ++ rewrite Hpc1. reflexivity.
           ++ destruct Hw as [Hnd _]. apply nodup_app_iff in Hnd. destruct Hnd as (_ & _ & Hdis).
              apply (Hdis (nid Y)); [rewrite E; apply nid_in_ids|].
              rewrite ctx_ids_cons. apply in_or_app. left. unfold cf_ids. right. apply in_or_app. right.
              rewrite Epost, ids_list_cons. apply in_or_app. left. apply nid_in_ids.
           ++ destruct Hw as [Hnd _]. apply nodup_app_iff in Hnd. destruct Hnd as (_ & Hnd & _).
              apply (post_not_left cf C (nid Y) Hnd); [|exact E].
              rewrite Epost, ids_list_cons. apply in_or_app. left. apply nid_in_ids.
        -- blk_pc Hpc1. rewrite Htr, Hfr. rewrite unwind_cons. cbn [negb]. rewrite Hfind.
           replace ((fidx f + 1 <? length (cpre cf ++ (csep cf, sub) :: (s2, Y) :: post')) && false) with false
             by (rewrite andb_false_r; reflexivity).
           rewrite Ho'. reflexivity.
      * destruct (HA fuel right l tmx Hfuel') as (out' & Ho' & Hok'). exists out'. split; [exact Ho'|exact Hok'].
    + (* nothing to do at this level *)
      rewrite unwind_cons. cbn [negb].
      unfold sstep, ecf in Hseq. cbn [fst snd negb bind] in Hseq.
      apply (IH C (plug1 cf sub) false None (unlock_frame_kids f right l) fuel tmx tfinal Hfuel').
      * cbn [nid plug1]. exact Hm.
      * exact Hw1.
      * exact Hch.
      * rewrite erase_plug1. exact Hseq.
Qed.

(* ---- the descent ---- *)
Definition newframe (c : id) (idx : nat) : frame := {| fp := c; fidx := idx; fl := None; fc := None |}.

Lemma del_locked_top (s : st) th f stk C (sub : itree) x :
  SoloInv me s -> get_thread me (ths s) = Some th -> pc_del_stack (tpc th) = Some (f :: stk) ->
  tr s = plug C sub -> smatch (nid sub) stk C ->
  In x (pc_nodes (tpc th)) -> x = nid sub \/ In x (fkids f) \/ In x (left_ids C).
Proof.
  intros Hs Hg Hst Htr Hm Hin. destruct (del_nodes_sub s th (f :: stk) x Hs Hg Hst Hin) as [->|H].
  - rewrite Htr. destruct (nid_plug_left C sub); auto.
  - cbn [flat_map] in H. apply in_app_or in H. destruct H as [H|H]; [auto|].
    destruct (smatch_kids stk C _ Hm x H); auto.
Qed.

Lemma wfc_kid_notin C p (cs : list (K * itree)) x :
  wfc C (INode p cs) fr -> In x (ids_list cs) -> x <> p /\ ~ In x (ctx_ids C).
Proof.
  intros [Hnd _] Hx. apply nodup_app_iff in Hnd. destruct Hnd as (Hn & _ & Hdis). rewrite ids_node in *.
  split; [intros ->; inversion Hn; tauto|]. apply Hdis. now right.
Qed.

Lemma nth_in_firstn (cs : list (K * itree)) j n s y :
  nth_error cs j = Some (s, y) -> j < n -> In (nid y) (ids_list (firstn n cs)).
Proof.
  intros Hn Hlt. rewrite <- (nth_error_firstn cs n j Hlt) in Hn.
  destruct (nth_error_split _ _ Hn) as (a & b & E & _). rewrite E.
  rewrite ids_list_app, ids_list_cons. apply in_or_app. right. apply in_or_app. left. apply nid_in_ids.
Qed.

Definition DownP (fuel : nat) : Prop :=
  forall C p cs index f stk (s : st) tfinal,
  SoloInv me s -> tr s = plug C (INode p cs) -> fresh s = fr ->
  me_at me s (DelWantChild o (f :: stk)) (o :: rest) ->
  fp f = p -> fidx f = index -> fc f = None ->
  (forall x, fl f = Some x -> In x (ids_list (firstn index cs))) ->
  smatch p stk C -> wfc C (INode p cs) fr -> chain_ok (leaf_links (tr s)) ->
  search_le ltb key (map fst cs) = Ok index ->
  (r <- (r0 <- del_node ltb (S fuel) mins key (Node (erase_cs cs)) ;; sunwind (map ecf C) r0) ;; dpost r) = Ok tfinal ->
  Runs ltb order me s (DelPost tfinal) RUnit.

Lemma del_enter fuel : DownP fuel ->
  forall C c cs0 index' stk1 (s1 : st) tfinal,
  SoloInv me s1 -> tr s1 = plug C (INode c cs0) -> fresh s1 = fr ->
  me_at me s1 (if 0 <? index' then DelWantLeft o (newframe c index' :: stk1)
               else DelWantChild o (newframe c index' :: stk1)) (o :: rest) ->
  smatch c stk1 C -> wfc C (INode c cs0) fr -> chain_ok (leaf_links (tr s1)) ->
  search_le ltb key (map fst cs0) = Ok index' ->
  (r <- (r0 <- del_node ltb (S fuel) mins key (Node (erase_cs cs0)) ;; sunwind (map ecf C) r0) ;; dpost r) = Ok tfinal ->
  Runs ltb order me s1 (DelPost tfinal) RUnit.
Proof.
  intros HD C c cs0 index' stk1 s1 tfinal Hs1 Htr Hfr Hat Hm Hw Hch Hsl Hseq.
  destruct (0 <? index') eqn:E0.
  - destruct Hat as (th & Hg & Hpc & Hpr). apply Nat.ltb_lt in E0.
    assert (Hlt : index' < length cs0).
    { cbn [del_node] in Hseq. rewrite erase_cs_fst, Hsl in Hseq. cbn [bind] in Hseq.
      unfold get_nth in Hseq. destruct (nth_error (erase_cs cs0) index') eqn:En; [|discriminate Hseq].
      rewrite <- (erase_cs_length _ _ cs0). apply nth_error_Some. congruence. }
    destruct (nth_error cs0 (index' - 1)) as [[s1' lftc]|] eqn:Enl; [|apply nth_error_None in Enl; lia].
    pose proof (find_plug_self _ _ C _ fr Hw) as Hfind. cbn [nid] in Hfind.
    assert (Htg : target s1 (tpc th) = Ok (Some (Some (nid lftc)))).
    { rewrite Hpc. cbn [target newframe fp fidx]. unfold child_id. rewrite Htr, Hfind.
      unfold get_nth. rewrite Enl. reflexivity. }
    assert (Hin : In (nid lftc) (ids_list cs0)).
    { destruct (nth_error_split _ _ Enl) as (a & b & -> & _). rewrite ids_list_app, ids_list_cons.
      apply in_or_app. right. apply in_or_app. left. apply nid_in_ids. }
    destruct (wfc_kid_notin C c cs0 _ Hw Hin) as [Hnc Hnctx].
    eapply (solo_step_out K V ltb order me s1 th (Some (Some (nid lftc))) o rest
             {| otr := tr s1; olk := (nid lftc, me) :: lk s1; ofresh := fr; otm := tm s1;
                opc := DelWantChild o (set_fl (newframe c index') (nid lftc) :: stk1); oev := [] |}); eauto.
    + eapply free_node; eauto. intros Hx.
      destruct (del_locked_top s1 th (newframe c index') stk1 C (INode c cs0) (nid lftc) Hs1 Hg) as [H|[H|H]]; auto.
      * rewrite Hpc. reflexivity.
      * apply Hnctx. apply left_in_ctx. exact H.
    + blk_pc Hpc. rewrite Hfr. reflexivity.
    + intros s2 Hs2 Htr2 Hfr2 Hat2. simpl in Htr2, Hfr2, Hat2. apply completes_of_runs; [reflexivity|].
      eapply (HD C c cs0 index' (set_fl (newframe c index') (nid lftc)) stk1 s2 tfinal); eauto.
      * congruence.
      * simpl. intros x Hx. inversion Hx; subst. eapply nth_in_firstn; [exact Enl|lia].
      * rewrite Htr2. exact Hch.
  - eapply (HD C c cs0 index' (newframe c index') stk1 s1 tfinal); eauto.
    simpl. discriminate.
Qed.

Lemma del_down : forall fuel, DownP fuel.
Proof.
  induction fuel as [fuel IH] using lt_wf_ind.
  intros C p cs index f stk s tfinal Hs Htr Hfr (th & Hg & Hpc & Hpr) Hfp Hfi Hfc Hfl Hm Hw Hch Hsl Hseq.
  (* the sequential side, one level *)
  assert (Hget : exists s0 child0, nth_error cs index = Some (s0, child0)).
  { cbn [del_node] in Hseq. rewrite erase_cs_fst, Hsl in Hseq. cbn [bind] in Hseq.
    destruct (get_nth index (erase_cs cs)) as [[s0 e0]|] eqn:Eg; [|discriminate Hseq].
    destruct (get_nth_erase _ _ index cs s0 e0 Eg) as (c0 & _ & _ & Hn). eauto. }
  destruct Hget as (s0 & child0 & Hn).
  destruct (nth_error_split _ _ Hn) as (pre & post & -> & Hlen).
  set (cf := mkcf p pre s0 post).
  rewrite erase_cs_app, erase_cs_cons in Hseq.
  rewrite del_node_unfold in Hseq
    by (rewrite <- erase_cs_cons, <- erase_cs_app, erase_cs_fst, erase_cs_length, Hlen; exact Hsl).
  destruct (del_node ltb fuel mins key (erase_ids child0)) as [r1|] eqn:Edn; [|discriminate Hseq].
  cbn [bind] in Hseq.
  assert (Hseq' : (r <- sunwind (map ecf (cf :: C)) r1 ;; dpost r) = Ok tfinal) by exact Hseq.
  clear Hseq.
  pose proof (wfc_node _ _ _ _ _ _ _ _ _ Hw) as Hwc. fold cf in Hwc.
  pose proof (find_plug_self _ _ C _ fr Hw) as Hfind. cbn [nid] in Hfind.
  assert (Hfc0 : Conc.find (nid child0) (tr s) = Some child0).
  { rewrite Htr. rewrite <- plug_mkcf. apply (find_plug_self _ _ _ _ fr Hwc). }
  assert (Htg : target s (tpc th) = Ok (Some (Some (nid child0)))).
  { rewrite Hpc. cbn [target]. unfold child_id. rewrite Hfp, Hfi, Htr, Hfind.
    rewrite get_nth_at by lia. reflexivity. }
  assert (Hin : In (nid child0) (ids_list (pre ++ (s0, child0) :: post))).
  { rewrite ids_list_app, ids_list_cons. apply in_or_app. right. apply in_or_app. left. apply nid_in_ids. }
  destruct (wfc_kid_notin C p _ _ Hw Hin) as [Hnc Hnctx].
  assert (Hnpre : ~ In (nid child0) (ids_list pre)).
  { destruct Hw as [Hnd _]. apply nodup_app_iff in Hnd. destruct Hnd as (Hnd & _ & _).
    rewrite ids_node in Hnd. inversion Hnd as [|? ? _ Hnd']; subst.
    rewrite ids_list_app, ids_list_cons in Hnd'. apply nodup_app_iff in Hnd'. destruct Hnd' as (_ & _ & Hdis).
    intros Hx. apply (Hdis _ Hx). apply in_or_app. left. apply nid_in_ids. }
  assert (Hfree : is_free s (Some (Some (nid child0))) = true).
  { eapply free_node; eauto. intros Hx.
    destruct (del_locked_top s th f stk C (INode p (pre ++ (s0, child0) :: post)) (nid child0) Hs Hg) as [H|[H|H]]; auto.
    - rewrite Hpc. reflexivity.
    - unfold fkids in H. rewrite Hfc in H. simpl in H. rewrite app_nil_r in H.
      destruct (fl f) as [y|] eqn:Ey; simpl in H; [|tauto]. destruct H as [E|[]]. subst y.
      specialize (Hfl _ eq_refl). rewrite <- Hlen in Hfl. rewrite firstn_app_len in Hfl. tauto.
    - apply Hnctx. apply left_in_ctx. exact H. }
  assert (Hm1 : smatch (nid child0) (set_fc f (nid child0) :: stk) (cf :: C)).
  { cbn [smatch cf mkcf cid cpre]. split; [exact Hfp|]. split; [simpl; lia|]. split; [|exact Hm].
    intros x Hx. unfold fkids in Hx. simpl in Hx. apply in_app_or in Hx. destruct Hx as [Hx|Hx].
    - right. destruct (fl f) as [y|] eqn:Ey; simpl in Hx; [|tauto]. destruct Hx as [E|[]]. subst y.
      specialize (Hfl _ eq_refl). rewrite <- Hlen in Hfl. rewrite firstn_app_len in Hfl. exact Hfl.
    - destruct Hx as [<-|[]]. now left. }
  destruct child0 as [i nx es|c cs0].
  - (* the child is a leaf: delete there, then return through the activations *)
    destruct fuel as [|fuel']; [discriminate Edn|]. cbn [erase_ids del_node] in Edn.
    destruct (leaf_delete ltb mins key es) as [[es' small]|] eqn:Eld; [|discriminate Edn]. cbn [bind] in Edn.
    inversion Edn; subst r1; clear Edn. cbn [nid] in *.
    assert (Hw2 : wfc (cf :: C) (ILeaf i nx es') fr) by (eapply wfc_same; [exact Hwc|reflexivity]).
    assert (Hch2 : chain_ok (leaf_links (plug (cf :: C) (ILeaf i nx es')))).
    { eapply (chain_plug _ _ (cf :: C) (ILeaf i nx es)); [apply links_equiv_refl|].
      unfold cf. rewrite plug_mkcf. rewrite <- Htr. exact Hch. }
    destruct (unwind_ok (set_fc f i :: stk) (cf :: C) (ILeaf i nx es') small None ((i, me) :: lk s)
                (S (S (length (f :: stk)))) (tm s) tfinal) as (out' & Ho' & Hok'); auto; try (simpl; lia).
    eapply (solo_step_out K V ltb order me s th (Some (Some i)) o rest out'); eauto.
    blk_pc Hpc. rewrite Hfc0. cbn [key_of o]. fold mins. rewrite Eld. cbn [bind].
    rewrite Htr. rewrite <- plug_mkcf. fold cf.
    rewrite (upd_plug_self _ _ (cf :: C) (ILeaf i nx es) fr _ Hwc). cbn [bind].
    rewrite Hfr. rewrite Ho'. reflexivity.
  - (* the child is internal: one more activation *)
    destruct fuel as [|fuel']; [discriminate Edn|]. rewrite erase_node in Edn.
    assert (Hsl' : exists index', search_le ltb key (map fst cs0) = Ok index').
    { cbn [del_node] in Edn. rewrite erase_cs_fst in Edn.
      destruct (search_le ltb key (map fst cs0)) as [i'|]; [eauto|discriminate Edn]. }
    destruct Hsl' as (index' & Hsl'). cbn [nid] in *.
    eapply (solo_step_out K V ltb order me s th (Some (Some c)) o rest
             {| otr := tr s; olk := (c, me) :: lk s; ofresh := fr; otm := tm s;
                opc := (if 0 <? index' then DelWantLeft o (newframe c index' :: set_fc f c :: stk)
                        else DelWantChild o (newframe c index' :: set_fc f c :: stk)); oev := [] |}); eauto.
    + blk_pc Hpc. rewrite Hfc0. unfold del_descend. rewrite Hfc0. cbn [key_of o]. rewrite Hsl'. cbn [bind].
      rewrite Hfr. unfold newframe. reflexivity.
    + intros s1 Hs1 Htr1 Hfr1 Hat1. simpl in Htr1, Hfr1, Hat1. apply completes_of_runs; [reflexivity|].
      assert (Hlt : fuel' < S fuel') by lia.
      eapply (del_enter fuel' (IH fuel' Hlt) (cf :: C) c cs0 index' (set_fc f c :: stk) s1 tfinal); eauto.
      * rewrite Htr1, Htr. unfold cf. rewrite plug_mkcf. reflexivity.
      * rewrite Htr1. exact Hch.
      * rewrite Edn. exact Hseq'.
Qed.

(* ---- the root: Delete from WantRoot ---- *)
Lemma del_root : forall (s2 : st) tfinal,
  SoloInv me s2 -> me_at me s2 (WantRoot o (nid (tr s2))) (o :: rest) -> fresh s2 = fr ->
  NoDup (ids (tr s2)) -> Forall (fun i => i < fr) (ids (tr s2)) -> chain_ok (leaf_links (tr s2)) ->
  delete ltb order key (erase_ids (tr s2)) = Ok tfinal ->
  Runs ltb order me s2 (DelPost tfinal) RUnit.
Proof.
  intros s2 tfinal Hs2 (th & Hg & Hpc & Hpr) Hfr Hnd Hlt Hch Hd.
  rewrite delete_eq in Hd.
  assert (Htg : target s2 (tpc th) = Ok (Some (Some (nid (tr s2))))) by (rewrite Hpc; reflexivity).
  assert (Hfree : is_free s2 (Some (Some (nid (tr s2)))) = true).
  { eapply free_node; eauto. rewrite Hpc. simpl. tauto. }
  destruct (tr s2) as [i nx es|i cs] eqn:ET.
  - cbn [erase_ids height del_node] in Hd. 
    destruct (leaf_delete ltb mins key es) as [[es' small]|] eqn:Eld; [|discriminate Hd]. cbn [bind] in Hd.
    assert (Hfin : tfinal = Leaf es').
    { unfold dpost in Hd. cbn [fst snd] in Hd. destruct (negb small || (1 <? count (Leaf es'))); inversion Hd; reflexivity. }
    subst tfinal.
    eapply (solo_step_out K V ltb order me s2 th (Some (Some i)) o rest
             {| otr := ILeaf i nx es'; olk := unlock i ((i, me) :: lk s2); ofresh := fr; otm := None;
                opc := Idle; oev := [EReturn RUnit] |}); eauto.
    + blk_pc Hpc. unfold o. cbv beta iota. rewrite ET. cbv beta iota. fold mins. rewrite Eld. cbn [bind]. rewrite Hfr. reflexivity.
    + intros s1 Hs1 Htr1 Hfr1 Hat1. unfold Completes. simpl in Htr1, Hfr1, Hat1 |- *. split; [|now left].
      split; [exact Hs1|]. split; [exact Hat1|]. split; [exact Hfr1|]. rewrite Htr1.
      split; [reflexivity|]. split; [exact Hnd|]. split; [exact Hlt|]. exact Hch.
  - rewrite erase_node in Hd. cbn [height] in Hd.
    set (h := fold_right (fun (c : K * tree) (h : nat) => Nat.max (height (snd c)) h) 0 (erase_cs cs)) in Hd.
    assert (Hsl : exists index, search_le ltb key (map fst cs) = Ok index).
    { cbn [del_node] in Hd. rewrite erase_cs_fst in Hd.
      destruct (search_le ltb key (map fst cs)) as [i'|]; [eauto|discriminate Hd]. }
    destruct Hsl as (index & Hsl).
    assert (Hw : wfc [] (INode i cs) fr) by (apply wfc_nil; auto).
    eapply (solo_step_out K V ltb order me s2 th (Some (Some i)) o rest
             {| otr := INode i cs; olk := (i, me) :: lk s2; ofresh := fr; otm := tm s2;
                opc := (if 0 <? index then DelWantLeft o [newframe i index] else DelWantChild o [newframe i index]);
                oev := [] |}); eauto.
    + blk_pc Hpc. unfold o. cbv beta iota. rewrite ET. cbv beta iota.
      unfold del_descend. rewrite (find_self _ _ (INode i cs)).
      cbn [key_of]. rewrite Hsl. cbn [bind]. rewrite Hfr. unfold newframe. reflexivity.
    + intros s1 Hs1 Htr1 Hfr1 Hat1. simpl in Htr1, Hfr1, Hat1. apply completes_of_runs; [reflexivity|].
      eapply (del_enter (S h) (del_down (S h)) [] i cs index [] s1 tfinal); eauto.
      * simpl. exact I.
      * rewrite Htr1. exact Hch.
      * cbn [map sunwind]. destruct (del_node ltb (S (S h)) mins key (Node (erase_cs cs))); exact Hd.
Qed.

End Del.

Arguments DelPost {K V}.

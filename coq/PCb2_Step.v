(* PCb2_Step.v — every step of the concurrent model leaves the key range of every node outside its write set
   (the locks it holds, the lock it is granted, the identities it allocates) at least as wide as before.
   The case analysis follows [cstep_blk] (FrameProof.v). *)
From Coq Require Import List Permutation Lia Bool PeanoNat.
From GB Require Import ListLemmas TreeLemmas Inv Frame LockProof ConcProps CInv UpdLemmas FrameRel FrameInv FrameBlocks FrameProof
  PCb2_Bounds PCb2_Blocks.
Import ListNotations.

Section Step.
Variables (K V : Type) (ltb : K -> K -> bool).
Hypothesis HS : SWO ltb.
Notation itree := (itree K V).
Notation pc := (pc K V).
Notation st := (st K V).
Notation out := (out K V).
Notation thread := (thread K V).
Notation bm := (bm ltb).

Ltac blk_inv HB := unfold mk in HB; cbn [bind] in HB; crunch HB; try (inversion HB; subst; clear HB).
Ltac blk_top HB :=
  match type of HB with
  | bind ?e _ = Ok _ => let E := fresh "HE" in destruct e eqn:E; [cbn [bind] in HB; inversion HB; subst; clear HB | discriminate HB]
  end.
Ltac in_solve := simpl; rewrite ?in_app_iff; simpl; tauto.
Ltac incl_solve :=
  let x := fresh "x" in let Hx := fresh "Hx" in
  intros x Hx; simpl in Hx; repeat (destruct Hx as [Hx|Hx]; [subst; in_solve|]); try contradiction.

Definition wset (s : st) (me : tid) (tg : option (option id)) : list id :=
  (held_by me (lk s) ++ granted tg) ++ [fresh s; S (fresh s)].

Opaque unwind.

Lemma cstep_bm : forall order (s s' : st) me acq ev,
  1 <= Nat.div2 order ->
  ids_ok s -> lock_inv2 K V s -> frame_inv s -> lossless order (tr s) -> J ltb (tr s) ->
  cstep ltb order s me = Stepped s' acq ev ->
  bm (wset s me acq) (tr s) (tr s').
Proof.
  intros order s s' me acq ev Hord [Hnd Hlt] Hinv Hfi Hll HJ H.
  unfold cstep in H.
  destruct (get_thread me (ths s)) as [th|] eqn:Hme; [|discriminate H].
  destruct (target s (tpc th)) as [tg|] eqn:Htg; [|discriminate H].
  destruct (negb (is_free s tg)) eqn:Hfree; [discriminate H|].
  apply negb_false_iff in Hfree.
  destruct Hinv as [Hinv Hwf2].
  pose proof Hinv as [Hndl [Hndt [Hlk [Htm Hth]]]].
  destruct (Hth me th Hme) as [Hwf [HP HT]].
  pose proof (Hwf2 me th Hme) as Hw2.
  pose proof (Hfi me th Hme) as Hok.
  assert (Hfr1 : ~ In (fresh s) (ids (tr s))).
  { intro X. rewrite Forall_forall in Hlt. apply Hlt in X. lia. }
  assert (Hfr2 : ~ In (S (fresh s)) (ids (tr s))).
  { intro X. rewrite Forall_forall in Hlt. apply Hlt in X. lia. }
  assert (Hheld : forall x, In x (pc_nodes (tpc th)) -> In x (held_by me (lk s))).
  { intros x Hx. eapply Permutation_in; [apply Permutation_sym; exact HP | exact Hx]. }
  cbv zeta in H.
  assert (Hgen : forall o : out,
            bm (wset s me tg) (tr s) (otr o) ->
            Stepped {| tr := otr o; tm := otm o; lk := olk o; fresh := ofresh o;
                       ths := set_thread me (if existsb (fun e => match e with EReturn _ => true | _ => false end) (oev o)
                                then {| prog := tl (prog th); tpc := opc o; results := flat_map (fun e => match e with EReturn r => [r] | _ => [] end) (oev o) ++ results th |}
                                else {| prog := prog th; tpc := opc o; results := results th |}) (ths s) |} tg (oev o) = Stepped s' acq ev ->
            bm (wset s me acq) (tr s) (tr s')).
  { intros o Hb Hs. inversion Hs; subst. simpl. exact Hb. }
  destruct (tpc th) as [ |o|o r|o lft rgt|o p c index|o p c r|o leaf mode index|o p c|o stk|o stk|o stk|leaf i n acc|leaf nxt n acc] eqn:Hpc.
  all: cbv beta iota in H; simpl in Htg; crunch Htg; inversion Htg; subst tg; clear Htg.
  all: match type of H with match ?B with _ => _ end = _ => destruct B as [[o1|]|] eqn:HB; try discriminate H end.
  all: match goal with o : out |- _ => apply (Hgen o); [clear H Hgen | exact H] end.
  all: simpl in Hw2, Hok, Hheld.
  all: unfold wset.
  - (* Idle *) blk_inv HB. apply bm_refl.
  - (* WantT *) blk_inv HB. apply bm_refl.
  - (* WantRoot *)
    subst r.
    blk_top HB.
    assert (Hins : forall o', (o' = o) -> match o' with CInsert _ _ | CUpdate _ _ => True | _ => False end ->
              match isplit order (fresh s) (tr s) with
              | Some (lft, rgt) =>
                ls <- ismallest lft ;; rs <- ismallest rgt ;;
                (if ltb (key_of o) rs
                 then ins_descend ltb o (nid (tr s)) (INode (S (fresh s)) [(if ltb (key_of o) ls then key_of o else ls, lft); (rs, rgt)])
                        ((nid (tr s), me) :: lk s) (S (S (fresh s))) None
                 else mk (INode (S (fresh s)) [(if ltb (key_of o) ls then key_of o else ls, lft); (rs, rgt)])
                        ((nid (tr s), me) :: lk s) (S (S (fresh s))) (tm s) (InsWantRootRight o (nid (tr s)) (fresh s)) [])
              | None => ins_descend ltb o (nid (tr s)) (tr s) ((nid (tr s), me) :: lk s) (fresh s) None
              end = Ok o1 ->
              bm ((held_by me (lk s) ++ granted (Some (Some (nid (tr s))))) ++ [fresh s; S (fresh s)]) (tr s) (otr o1)).
    { intros o' _ _ HI. clear HE.
      destruct (isplit order (fresh s) (tr s)) as [[lft rgt]|] eqn:Hsp.
      - destruct (ismallest lft) as [ls|] eqn:Els; [cbn [bind] in HI|discriminate HI].
        destruct (ismallest rgt) as [rs|] eqn:Ers; [cbn [bind] in HI|discriminate HI].
        destruct (root_split_rel K V ltb True order [nid (tr s); fresh s; S (fresh s)] (fresh s)
                    (if ltb (key_of o) ls then key_of o else ls) rs lft rgt (tr s) Hnd Hsp Hfr1 Hfr2) as (A1 & A2 & A3);
          try in_solve.
        { intros _. apply (lossless_root K V order (tr s) Hll). }
        pose proof (root_split_bm K V ltb order (fresh s) (if ltb (key_of o) ls then key_of o else ls) rs lft rgt (tr s)
                      Hnd Hsp Ers Hfr1 Hfr2 (lossless_root K V order (tr s) Hll)) as Hb1.
        assert (Hb2 : bm ((held_by me (lk s) ++ granted (Some (Some (nid (tr s))))) ++ [fresh s; S (fresh s)]) (tr s)
                        (INode (S (fresh s)) [(if ltb (key_of o) ls then key_of o else ls, lft); (rs, rgt)])).
        { eapply bm_mono; [|exact Hb1]. incl_solve. }
        destruct (ltb (key_of o) rs).
        + eapply bm_trans; [exact Hb2|]. eapply bm_mono; [|eapply ins_descend_bm; [exact HI | exact A3]]. intros x [].
        + unfold mk in HI. inversion HI; subst; clear HI. cbn [otr]. exact Hb2.
      - eapply bm_mono; [|eapply ins_descend_bm; [exact HI | exact Hnd]]. intros x []. }
    destruct o as [k v|k f|k|k|k cnt].
    + apply (Hins _ eq_refl I HE).
    + apply (Hins _ eq_refl I HE).
    + (* CDelete *)
      clear Hins. destruct (tr s) as [i nx es|i cs] eqn:Et.
      * blk_inv HE. cbn [otr]. eapply bm_mono; [|apply leaf_root_bm]. intros x [].
      * blk_inv HE. cbn [otr]. apply bm_refl.
    + (* CSearch *)
      destruct (sea_descend_rel K V ltb _ _ _ _ _ _ _ HE) as (B1 & B2 & B3). rewrite B2. apply bm_refl.
    + (* CScan *)
      destruct (sea_descend_rel K V ltb _ _ _ _ _ _ _ HE) as (B1 & B2 & B3). rewrite B2. apply bm_refl.
  - (* InsWantRootRight *)
    blk_top HB. eapply bm_mono; [|eapply ins_descend_bm; [exact HE | exact Hnd]]. intros x [].
  - (* InsWantChild *)
    blk_top HB.
    destruct Hok as [Hplt Hca].
    assert (Hp : In p (held_by me (lk s))) by (apply Hheld; auto).
    destruct (find p (tr s)) as [[?|pi cs]|] eqn:Hfp; try discriminate HE.
    destruct (find c (tr s)) as [child|] eqn:Hfc; [|discriminate HE].
    destruct (get_nth index cs) as [[sep ch0]|] eqn:Hg; [cbn [bind] in HE|discriminate HE].
    apply get_nth_Ok in Hg.
    assert (Hch : child = ch0).
    { pose proof (child_at_nth K V _ _ _ _ _ _ _ _ Hca Hfp Hg) as Hn.
      pose proof (find_child K V p pi cs sep ch0 (tr s) Hnd Hfp (nth_error_In _ _ Hg)) as Hf2.
      rewrite Hn in Hf2. congruence. }
    subst ch0.
    cbn [bind] in HE.
    remember (if index =? 0 then (if ltb (key_of o) sep then key_of o else sep) else sep) as sep' eqn:Hsep.
    assert (Hnc : nid child = c) by (eapply find_nid; eauto).
    assert (Hs0 : index = 0 \/ sep' = sep).
    { destruct (index =? 0) eqn:E0; [left; apply Nat.eqb_eq; exact E0 | right; exact Hsep]. }
    destruct (isplit order (fresh s) child) as [[lft rgt]|] eqn:Hsp.
    + destruct (ismallest rgt) as [rs|] eqn:Ers; [cbn [bind] in HE|discriminate HE].
      match type of HE with bind ?e _ = _ => destruct e as [t'|] eqn:Hu; [cbn [bind] in HE|discriminate HE] end.
      destruct (ins_split_rel K V ltb True order [p; c; fresh s] p pi cs index sep sep' rs child lft rgt
                  (fresh s) (tr s) t' Hnd Hfp Hg Hsp Hu Hfr1) as (A1 & A2 & A3 & A4); try in_solve.
      { rewrite Hnc. in_solve. }
      { intros _. apply (Hll c child Hfc). }
      pose proof (ins_split_bm K V ltb order p pi cs index sep sep' rs child lft rgt (fresh s) (tr s) t'
                    Hnd Hfp Hg Hsp Ers Hu Hfr1 (Hll c child Hfc) Hs0) as Hb1.
      assert (Hb2 : bm ((held_by me (lk s) ++ granted (Some (Some c))) ++ [fresh s; S (fresh s)]) (tr s) t').
      { eapply bm_mono; [|exact Hb1]. rewrite Hnc. incl_solve. }
      destruct (ltb (key_of o) rs).
      * eapply bm_trans; [exact Hb2|]. eapply bm_mono; [|eapply ins_descend_bm; [exact HE | exact A3]]. intros x [].
      * unfold mk in HE. inversion HE; subst; clear HE. cbn [otr]. exact Hb2.
    + match type of HE with bind ?e _ = _ => destruct e as [t'|] eqn:Hu; [cbn [bind] in HE|discriminate HE] end.
      destruct (ins_nosplit_rel K V True [p] p pi cs index sep sep' child (tr s) t' Hnd Hfp Hg Hu)
        as (A1 & A2 & A3 & A4); [in_solve|].
      pose proof (ins_nosplit_bm K V ltb p pi cs index sep sep' child (tr s) t' Hnd Hfp Hg Hu Hs0) as Hb1.
      eapply bm_trans; [eapply bm_mono; [|exact Hb1]; rewrite Hnc; incl_solve|].
      eapply bm_mono; [|eapply ins_descend_bm; [exact HE | exact A3]]. intros x [].
  - (* InsWantSplitRight *)
    blk_top HB. eapply bm_mono; [|eapply ins_descend_bm; [exact HE | exact Hnd]]. intros x [].
  - (* UpdCallback *)
    blk_top HB.
    destruct o as [| k f | | |]; try discriminate HE.
    destruct (find leaf (tr s)) as [[i nx es|?]|] eqn:Hfl; try discriminate HE.
    assert (Hfin : forall es' t', upd leaf (fun _ => Ok (ILeaf i nx es')) (tr s) = Ok t' ->
              bm ((held_by me (lk s) ++ granted None) ++ [fresh s; S (fresh s)]) (tr s) t').
    { intros es' t' Hu. eapply bm_mono; [|eapply upd_leaf_bm; eauto]. intros x []. }
    blk_inv HE; cbn [otr]; eapply Hfin; eassumption.
  - (* SeaWantChild *)
    blk_top HB.
    destruct (sea_descend_rel K V ltb _ _ _ _ _ _ _ HE) as (B1 & B2 & B3). rewrite B2. apply bm_refl.
  - (* DelWantLeft *)
    blk_inv HB. cbn [otr]. apply bm_refl.
  - (* DelWantChild *)
    blk_top HB. destruct Hok as (O1 & O2 & O3 & O4). destruct Hw2 as [Hb Hfc].
    assert (Hb1 : bottom_ok (nid (tr s)) (set_fc f a :: l)) by (eapply bottom_ok_replace; eauto).
    assert (Hs1 : stack_ok (tr s) (fresh s) (set_fc f a :: l)).
    { simpl. split; [exact O1|]. split; [exact O2|]. split; [|split; [exact O3|exact O4]].
      exists a. split; [reflexivity|]. apply child_id_at. exact E0. }
    assert (Hperm : Permutation (a :: held_by me (lk s)) (nid (tr s) :: flat_map fkids (set_fc f a :: l))).
    { rewrite HP. simpl pc_nodes. eapply perm_trans; [eapply frames_set_fc; eauto|].
      rewrite (frames_nodes_bottom (nid (tr s))); [reflexivity | discriminate | exact Hb1]. }
    assert (Hga : NoDup (a :: held_by me (lk s))) by (eapply granted_nodup; eauto).
    assert (Hnd1 : NoDup (nid (tr s) :: flat_map fkids (set_fc f a :: l))).
    { eapply Permutation_NoDup; [exact Hperm | exact Hga]. }
    assert (Hin1 : incl (nid (tr s) :: flat_map fkids (set_fc f a :: l)) (held_by me (lk s) ++ [a])).
    { intros x Hx. eapply Permutation_in in Hx; [|apply Permutation_sym; exact Hperm]. destruct Hx as [<-|Hx]; in_solve. }
    destruct (find a (tr s)) as [[i nx es|i cs]|] eqn:Hfa; try discriminate HE.
    + destruct (leaf_delete ltb (Nat.div2 order) (key_of o) es) as [[es' small]|] eqn:Hld; [cbn [bind] in HE|discriminate HE].
      match type of HE with bind ?e _ = _ => destruct e as [t'|] eqn:Hu; [cbn [bind] in HE|discriminate HE] end.
      destruct (upd_leaf_rel K V True [a] a i nx nx es es' (tr s) t' Hnd Hfa Hu) as (A1 & A2 & A3 & A4);
        [in_solve|].
      assert (HJ' : J ltb t').
      { apply (proj1 (J_upd K V ltb a (ILeaf i nx es) (ILeaf i nx es') I (fun _ _ => I) (tr s) t' Hnd HJ Hfa Hu)). }
      eapply bm_trans; [eapply bm_mono; [|eapply upd_leaf_bm; eauto]; intros x []|].
      eapply bm_mono with (W := held_by me (lk s) ++ [a]); [intros x Hx; simpl; rewrite in_app_iff; left; exact Hx|].
      eapply (unwind_bm K V ltb HS order); [exact Hord | exact HE | exact A3 | exact HJ' | | | | | |].
      * eapply stack_ok_frm with (W := [a]); [exact A2 | apply le_n | | exact Hs1].
        intros g Hg [Ea|[]].
        assert (Hgh : In (fp g) (held_by me (lk s))).
        { apply Hheld.
          assert (Hlinks : links (f :: l)) by (split; [exact O3 | eapply stack_ok_links; eauto]).
          rewrite (frames_nodes_bottom (nid (tr s))); [ | discriminate | exact Hb].
          destruct Hg as [<-|Hg].
          - apply (fp_in_frames (nid (tr s)) (f :: l) Hlinks Hb f). left. reflexivity.
          - apply (fp_in_frames (nid (tr s)) (f :: l) Hlinks Hb g). right. exact Hg. }
        inversion Hga as [|? ? Hni _]. apply Hni. rewrite Ea. exact Hgh.
      * rewrite A4. exact Hb1.
      * discriminate.
      * rewrite A4. exact Hnd1.
      * rewrite A4. exact Hin1.
      * intros x Hx. discriminate Hx.
    + blk_inv HE. cbn [otr]. apply bm_refl.
  - (* DelWantRight *)
    blk_top HB. destruct Hw2 as [Hb _].
    assert (Hperm : Permutation (a :: held_by me (lk s)) (nid (tr s) :: a :: flat_map fkids (f :: l))).
    { rewrite HP. simpl pc_nodes. rewrite (frames_nodes_bottom (nid (tr s))); [apply perm_swap | discriminate | exact Hb]. }
    eapply bm_mono with (W := held_by me (lk s) ++ [a]); [intros x Hx; simpl; rewrite in_app_iff; left; exact Hx|].
    eapply (unwind_bm K V ltb HS order); [exact Hord | exact HE | exact Hnd | exact HJ | exact Hok | exact Hb | discriminate | | | ].
    + simpl opt_list. simpl app. eapply Permutation_NoDup; [exact Hperm | eapply granted_nodup; eauto].
    + intros x Hx. change (In x (nid (tr s) :: a :: flat_map fkids (f :: l))) in Hx.
      eapply Permutation_in in Hx; [|apply Permutation_sym; exact Hperm].
      destruct Hx as [<-|Hx]; in_solve.
    + intros x Hx. inversion Hx; subst. simpl. apply child_id_at. exact E0.
  - (* CurRest *) blk_top HB. unfold mk in HE. crunch HE; inversion HE; subst; clear HE; cbn [otr]; apply bm_refl.
  - (* CurWantNext *) blk_top HB. unfold mk in HE. crunch HE; inversion HE; subst; clear HE; cbn [otr]; apply bm_refl.
Qed.

Transparent unwind.

End Step.

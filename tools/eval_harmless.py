#!/usr/bin/env python3
"""eval_harmless.py: run the quick checks against each behaviour-preserving refactoring in harmless/ (on scratch
clones of /repo). Expectation: every check stays quiet, or reports only `no-failing-input-found` (a correspondence
that no longer matches, by the protocol not a concrete violation). Writes harmless/RESULTS.json."""
import json, os, shutil, subprocess, sys, tempfile, concurrent.futures
V = os.environ.get("VERIF_HOME", "/verif")
PROPS = ["C%02d" % i for i in range(1, 13)]


def run_one(rid):
    tmp = tempfile.mkdtemp(prefix="evalharm-", dir="/root")
    repo = os.path.join(tmp, "repo")
    subprocess.run(["git", "clone", "-q", "/repo", repo], check=True)
    r = subprocess.run(["git", "-C", repo, "apply", os.path.join(V, "harmless", rid, "patch.diff")], capture_output=True, text=True)
    res = {"id": rid, "checks": {}}
    if r.returncode != 0:
        res["error"] = r.stderr
        shutil.rmtree(tmp)
        return res
    env = dict(os.environ, VERIF_REPO=repo, VERIF_EVID=os.path.join(tmp, "evid"))
    for p in PROPS:
        c = subprocess.run([os.path.join(V, "check"), p, "quick"], cwd=V, env=env, capture_output=True, text=True)
        vio = [l for l in c.stdout.splitlines() if l.startswith("VIOLATION")]
        if vio or c.returncode != 0:
            res.setdefault("logs", {})[p] = (c.stdout + c.stderr)[-3000:]
        res["checks"][p] = "quiet" if not vio and c.returncode == 0 else ("no-failing-input-found" if vio and vio[0].endswith("no-failing-input-found") else "CONCRETE-VIOLATION" if vio else "rc=%d" % c.returncode)
    shutil.rmtree(tmp)
    return res


if __name__ == "__main__":
    ids = sys.argv[1:] or sorted(x for x in os.listdir(os.path.join(V, "harmless")) if os.path.isdir(os.path.join(V, "harmless", x)))
    out = {}
    with concurrent.futures.ThreadPoolExecutor(max_workers=3) as ex:
        for r in ex.map(run_one, ids):
            out[r["id"]] = r
            print(r["id"], r.get("error", ""), {p: v for p, v in r["checks"].items() if v != "quiet"} or "all quiet", flush=True)
    json.dump(out, open(os.path.join(V, "harmless", "RESULTS.json"), "w"), indent=1, sort_keys=True)

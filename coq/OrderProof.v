From Coq Require Import ZArith Lia Bool.
From GB Require Import Order.
Local Open Scope Z_scope.

Lemma land_pred_pow2 n : 0 <= n -> Z.land (2 ^ n) (2 ^ n - 1) = 0.
Proof.
  intros Hn. replace (2 ^ n - 1) with (Z.ones n) by (rewrite Z.ones_equiv; lia). apply Z.bits_inj'. intros i Hi.
  rewrite Z.land_spec, Z.bits_0, Z.pow2_bits_eqb by lia.
  destruct (Z.eqb_spec n i) as [->|Hne]; simpl; [|reflexivity].
  rewrite Z.ones_spec_high by lia. reflexivity.
Qed.

(* x & (x-1) clears the lowest set bit; if the result is 0 there was only one *)
Lemma land_pred_zero_pow2 p : Z.land (Zpos p) (Zpos p - 1) = 0 -> exists n, 0 <= n /\ Zpos p = 2 ^ n.
Proof.
  induction p as [p IH|p IH|]; intros H.
  - (* odd and > 1: x-1 = 2p, x & (x-1) = 2p <> 0 *)
    exfalso. replace (Z.pos p~1 - 1) with (Z.pos p~0) in H by lia.
    assert (Hb : Z.testbit (Z.land (Z.pos p~1) (Z.pos p~0)) (Z.log2 (Z.pos p~0)) = true).
    { rewrite Z.land_spec. rewrite (Z.bit_log2 (Z.pos p~0)) by lia.
      replace (Z.pos p~1) with (2 * Z.pos p + 1) by lia. replace (Z.pos p~0) with (2 * Z.pos p) by lia.
      assert (Hl : Z.log2 (2 * Z.pos p) = Z.succ (Z.log2 (Z.pos p))) by (apply Z.log2_double; lia).
      rewrite Hl. rewrite Z.testbit_odd_succ by (apply Z.log2_nonneg).
      rewrite Z.bit_log2 by lia. reflexivity. }
    rewrite H in Hb. rewrite Z.bits_0 in Hb. discriminate.
  - (* even: x = 2p, x-1 = 2(p-1)+1; x & (x-1) = 2 (p & (p-1)) *)
    replace (Z.pos p~0) with (2 * Z.pos p) in * by lia.
    replace (2 * Z.pos p - 1) with (2 * (Z.pos p - 1) + 1) in H by lia.
    assert (Hl : Z.land (Z.pos p) (Z.pos p - 1) = 0).
    { apply Z.bits_inj'. intros i Hi. rewrite Z.bits_0.
      assert (Hb : Z.testbit (Z.land (2 * Z.pos p) (2 * (Z.pos p - 1) + 1)) (Z.succ i) = false) by (rewrite H; apply Z.bits_0).
      rewrite Z.land_spec in Hb. rewrite Z.testbit_even_succ, Z.testbit_odd_succ in Hb by lia.
      rewrite Z.land_spec. exact Hb. }
    destruct (IH Hl) as [n [Hn Hp]]. exists (n + 1). split; [lia|].
    rewrite Z.pow_add_r by lia. rewrite <- Hp. lia.
  - exists 0. split; [lia|reflexivity].
Qed.

Theorem check_order_spec o : check_order o = true <-> exists n, 1 <= n /\ o = 2 ^ n.
Proof.
  unfold check_order. rewrite andb_true_iff, Z.leb_le, Z.eqb_eq. split.
  - intros [H2 Hl]. destruct o as [|p|p]; try lia.
    destruct (land_pred_zero_pow2 p Hl) as [n [Hn Hp]]. exists n. split; [|exact Hp].
    destruct (Z.eq_dec n 0) as [->|]; [simpl in Hp; lia|lia].
  - intros [n [Hn ->]]. split.
    + change 2 with (2 ^ 1) at 1. apply Z.pow_le_mono_r; lia.
    + apply land_pred_pow2; lia.
Qed.

(* within Go's int (64-bit): exactly 2^1 .. 2^62 *)
Corollary check_order_int64 o : - 2 ^ 63 <= o < 2 ^ 63 ->
  (check_order o = true <-> exists n, 1 <= n <= 62 /\ o = 2 ^ n).
Proof.
  intros Hr. rewrite check_order_spec. split; intros [n [Hn ->]]; exists n; split; try lia; try reflexivity.
  destruct (Z_le_gt_dec n 62) as [|Hgt]; [lia|]. exfalso.
  assert (2 ^ 63 <= 2 ^ n) by (apply Z.pow_le_mono_r; lia). lia.
Qed.

(* the subtraction order-1 cannot wrap for any order the first conjunct lets through *)
Lemma check_order_no_wrap o : - 2 ^ 63 <= o < 2 ^ 63 -> (2 <=? o) = true -> - 2 ^ 63 <= o - 1 < 2 ^ 63 /\ 0 <= o - 1.
Proof. intros Hr H. apply Z.leb_le in H. lia. Qed.

(* TERM_Proof.v — every call returns after a bounded number of its own steps, whatever the other threads do.
   A measure [measure s t] (an upper bound of the remaining own steps of thread t's call in flight) with
     (T1) an own step inside a call that does not return strictly decreases it        [own_step_decreases]
     (T2) steps of other threads never increase it                                    [other_step_no_increase]
     (T3) it is bounded linearly in the tree height (and the scan length)              [measure_bound]
     (T4) in any execution, t's call in flight returns within [measure s t] own steps  [returns_within_measure]
   See the summary at the end of the file. *)
From Coq Require Import List Bool Lia PeanoNat Permutation.
From GB Require Import Model Inv ListLemmas SearchProof TreeLemmas Conc GI LockInv LockProof CInv CIDef
  Frame UpdLemmas FrameRel FrameInv FrameBlocks FrameProof EraseLemmas SoloBase GIa2_Proof
  Lin LinDef LINb_Prog LINc_Blocks LINc_Proof ASM_Proof PCc_Proof Final TERM_Hgt TERM_Blocks.
Import ListNotations.

Section Measure.
Variables (K V : Type) (ltb : K -> K -> bool).
Notation itree := (itree K V).
Notation st := (st K V).
Notation out := (out K V).
Notation pc := (pc K V).
Notation cop := (cop K V).
Notation thread := (thread K V).
Notation event := (event K V).
Notation hat := (hat K V).
Notation hgt := (hgt K V).

(* ------------------------------------------------------------------------------------------------ *)
(* the measure                                                                                        *)
(* ------------------------------------------------------------------------------------------------ *)
(* the Scan steps of a scanner: n pairs, each possibly preceded by one hop to the next leaf, and Close *)
Definition scan_tail (o : cop) : nat := match o with CScan _ n => 2 * n + 1 | _ => 0 end.

(* remaining steps when about to lock the root, whose height is H *)
Definition mroot (o : cop) (H : nat) : nat :=
  match o with
  | CInsert _ _ | CUpdate _ _ => 2 * H + 3
  | CDelete _ => 3 * H + 4
  | CSearch _ | CScan _ _ => H + 2 + scan_tail o
  end.

Definition top_hat (t : itree) (stk : list frame) : nat := match stk with f :: _ => hat (fp f) t | [] => 0 end.

(* W bounds the height the tree can have when the thread obtains the tree mutex (used at [WantT] only) *)
Definition mpc (t : itree) (W : nat) (p : pc) : nat :=
  match p with
  | Idle => 0
  | WantT o => S (mroot o W)
  | WantRoot o r => mroot o (hat r t)
  | InsWantRootRight o l r => 2 * hat r t + 2
  | InsWantChild o p c i => 2 * hat p t + 1
  | InsWantSplitRight o p c r => 2 * hat p t
  | UpdCallback _ _ _ _ => 1
  | SeaWantChild o p c => hat p t + scan_tail o + 1
  | DelWantLeft o stk => 3 * top_hat t stk + length stk + 2
  | DelWantChild o stk => 3 * top_hat t stk + length stk + 1
  | DelWantRight o stk => length stk
  | CurRest _ _ n _ => 2 * n + 1
  | CurWantNext _ _ n _ => 2 * n + 2
  end.

(* root splits still to come: every Insert/Update call that has not yet passed the root can split it once *)
Definition ups_op (o : cop) : bool := match o with CInsert _ _ | CUpdate _ _ => true | _ => false end.
Definition count_ups (l : list cop) : nat := length (filter ups_op l).
Definition past_root (p : pc) : bool := match p with Idle | WantT _ | WantRoot _ _ => false | _ => true end.
Definition pend (th : thread) : nat := count_ups (if past_root (tpc th) then tl (prog th) else prog th).
Definition pending (s : st) : nat := list_sum (map (fun e => pend (snd e)) (ths s)).
(* the potential: tree height now plus the root splits still to come; never increases *)
Definition Phi (s : st) : nat := hgt (tr s) + pending s.

Definition tpc_of (s : st) (t : tid) : pc := match get_thread t (ths s) with Some th => tpc th | None => Idle end.

Definition measure (s : st) (t : tid) : nat := mpc (tr s) (Phi s) (tpc_of s t).

(* the call is past its invocation and owns or awaits a node (not Idle, not waiting for the tree mutex) *)
Definition scan_len (p : pc) : nat :=
  match p with
  | WantT (CScan _ n) | WantRoot (CScan _ n) _ | SeaWantChild (CScan _ n) _ _ => n
  | CurRest _ _ n _ | CurWantNext _ _ n _ => n
  | _ => 0
  end.

Lemma returns_returned (ev : list event) : returns ev = None <-> returned ev = false.
Proof.
  unfold returns, returned. induction ev as [|e ev IH]; cbn [flat_map existsb]; [tauto|].
  destruct e; cbn [app]; try exact IH. split; discriminate.
Qed.

Lemma mroot_mono o H H' : H <= H' -> mroot o H <= mroot o H'.
Proof. intros Hle. destruct o; cbn [mroot]; lia. Qed.

Lemma past_root_running (p : pc) : past_root p = true -> p <> Idle.
Proof. destruct p; intros H; try discriminate H; discriminate. Qed.

(* ------------------------------------------------------------------------------------------------ *)
(* successor pcs of the helper blocks (no invariant needed)                                           *)
(* ------------------------------------------------------------------------------------------------ *)
Lemma ins_descend_m o n (t : itree) l fr tmx (out : out) :
  ins_descend ltb o n t l fr tmx = Ok out -> returned (oev out) = false ->
  past_root (opc out) = true /\ forall t'' W', mpc t'' W' (opc out) <= 2 * hat n t'' + 1.
Proof.
  intros H Hr. unfold ins_descend, mk in H.
  crunch H; inversion H; subst; clear H; cbn [oev opc returned existsb] in *; try discriminate Hr.
  all: split; [reflexivity|]; intros t'' W'; cbn [mpc]; lia.
Qed.

Lemma sea_descend_m o n (t : itree) l fr tmx (out : out) :
  sea_descend ltb o n t l fr tmx = Ok out -> returned (oev out) = false ->
  otr out = t /\ past_root (opc out) = true /\ forall t'' W', mpc t'' W' (opc out) <= hat n t'' + scan_tail o + 1.
Proof.
  intros H Hr. unfold sea_descend, mk in H.
  crunch H; inversion H; subst; clear H; cbn [oev opc otr returned existsb] in *; try discriminate Hr.
  all: split; [reflexivity|]; split; [reflexivity|]; intros t'' W'; cbn [mpc scan_tail]; lia.
Qed.

Lemma del_descend_m (o : cop) stk n (t : itree) p :
  del_descend ltb o stk n t = Ok p ->
  past_root p = true /\ forall t'' W', mpc t'' W' p <= 3 * hat n t'' + length stk + 3.
Proof.
  intros H. unfold del_descend in H. crunch H; inversion H; subst; clear H.
  destruct (0 <? a); (split; [reflexivity|]); intros t'' W'; cbn [mpc top_hat fp length]; lia.
Qed.

Lemma unwind_m order fuel : forall (o : cop) stk small right (t : itree) l fr tmx (out : out),
  unwind order fuel o stk small right t l fr tmx = Ok out -> returned (oev out) = false ->
  exists stk', opc out = DelWantRight o stk' /\ length stk' <= length stk /\
    (right <> None -> length stk' < length stk).
Proof.
  induction fuel as [|fuel IH]; intros o stk small right t l fr tmx out H Hr; simpl in H; [discriminate|].
  destruct stk as [|f rest].
  - unfold mk in H. inversion H; subst out. cbn in Hr. discriminate Hr.
  - destruct (negb small).
    + destruct (IH _ _ _ _ _ _ _ _ _ H Hr) as (stk' & E & L & _). exists stk'. cbn [length]. split; [exact E|]. split; lia.
    + destruct (Conc.find (fp f) t) as [[?|pi cs]|]; try discriminate H.
      destruct ((fidx f + 1 <? length cs) && match right with None => true | Some _ => false end) eqn:Ec.
      * unfold mk in H. inversion H; subst out. cbn [opc]. exists (f :: rest). split; [reflexivity|]. split; [lia|].
        intros Hn. destruct right; [|congruence]. rewrite andb_false_r in Ec. discriminate Ec.
      * destruct (irebalance order f t) as [[t' small']|]; [cbn [bind] in H|discriminate H].
        destruct (IH _ _ _ _ _ _ _ _ _ H Hr) as (stk' & E & L & _). exists stk'. cbn [length]. split; [exact E|]. split; lia.
Qed.

Lemma existsb_kid (cs : list (K * itree)) x :
  existsb (fun e => nid (snd e) =? x) cs = true -> exists k ch, In (k, ch) cs /\ nid ch = x.
Proof.
  intros H. apply existsb_exists in H. destruct H as ([k ch] & Hin & E). apply Nat.eqb_eq in E.
  exists k, ch. auto.
Qed.

Variable order : nat.

(* Insert/Update at the root *)
Lemma ins_root_m o r (t : itree) l fr tm0 (out : out) :
  match isplit order fr t with
  | None => ins_descend ltb o r t l fr None
  | Some (lft, rgt) =>
    ls <- ismallest lft ;; rs <- ismallest rgt ;;
    if ltb (key_of o) rs
    then ins_descend ltb o r (INode (S fr) [(if ltb (key_of o) ls then key_of o else ls, lft); (rs, rgt)]) l (S (S fr)) None
    else mk (INode (S fr) [(if ltb (key_of o) ls then key_of o else ls, lft); (rs, rgt)]) l (S (S fr)) tm0
           (InsWantRootRight o r fr) []
  end = Ok out -> returned (oev out) = false ->
  past_root (opc out) = true /\
  ((exists lft rgt s1 s2, isplit order fr t = Some (lft, rgt) /\ otr out = INode (S fr) [(s1, lft); (s2, rgt)] /\
      opc out = InsWantRootRight o r fr) \/
   (forall t'' W', mpc t'' W' (opc out) <= 2 * hat r t'' + 1)).
Proof.
  intros H Hr. destruct (isplit order fr t) as [[lft rgt]|] eqn:Hsp.
  - destruct (ismallest lft) as [ls|] eqn:Els; [cbn [bind] in H|discriminate H].
    destruct (ismallest rgt) as [rs|] eqn:Ers; [cbn [bind] in H|discriminate H].
    destruct (ltb (key_of o) rs).
    + destruct (ins_descend_m _ _ _ _ _ _ _ H Hr) as [A B]. split; [exact A|]. right. exact B.
    + unfold mk in H. inversion H; subst out; clear H. cbn [opc otr]. split; [reflexivity|]. left.
      eexists _, _, _, _. split; [reflexivity|]. split; reflexivity.
  - destruct (ins_descend_m _ _ _ _ _ _ _ H Hr) as [A B]. split; [exact A|]. right. exact B.
Qed.

(* Insert/Update at an internal node *)
Lemma ins_child_m o p c index (t : itree) l l1 fr tm0 (out : out) :
  match Conc.find p t, Conc.find c t with
  | Some (INode pi cs), Some child =>
    '(sep, _) <- get_nth index cs ;;
    sep' <- Ok (if index =? 0 then (if ltb (key_of o) sep then key_of o else sep) else sep) ;;
    match isplit order fr child with
    | None =>
      t' <- upd p (fun _ => Ok (INode pi (set_nth index (sep', child) cs))) t ;;
      ins_descend ltb o c t' l1 fr tm0
    | Some (lft, rgt) =>
      rs <- ismallest rgt ;;
      t' <- upd p (fun _ => Ok (INode pi (ins_nth (index + 1) (rs, rgt) (set_nth index (sep', lft) cs)))) t ;;
      if ltb (key_of o) rs then ins_descend ltb o c t' l1 (S fr) tm0
      else mk t' l (S fr) tm0 (InsWantSplitRight o p c fr) []
    end
  | _, _ => Panic PIndex end = Ok out -> returned (oev out) = false ->
  past_root (opc out) = true /\
  (opc out = InsWantSplitRight o p c fr \/ (forall t'' W', mpc t'' W' (opc out) <= 2 * hat c t'' + 1)).
Proof.
  intros H Hr.
  destruct (Conc.find p t) as [[?|pi cs]|]; try discriminate H.
  destruct (Conc.find c t) as [child|]; [|discriminate H].
  destruct (get_nth index cs) as [[sep ?]|]; [cbn [bind] in H|discriminate H].
  cbn [bind] in H.
  destruct (isplit order fr child) as [[lft rgt]|].
  - destruct (ismallest rgt) as [rs|]; [cbn [bind] in H|discriminate H].
    match type of H with bind ?e _ = _ => destruct e as [t'|]; [cbn [bind] in H|discriminate H] end.
    destruct (ltb (key_of o) rs).
    + destruct (ins_descend_m _ _ _ _ _ _ _ H Hr) as [A B]. split; [exact A|]. right. exact B.
    + unfold mk in H. inversion H; subst out; clear H. cbn [opc]. split; [reflexivity|]. left. reflexivity.
  - match type of H with bind ?e _ = _ => destruct e as [t'|]; [cbn [bind] in H|discriminate H] end.
    destruct (ins_descend_m _ _ _ _ _ _ _ H Hr) as [A B]. split; [exact A|]. right. exact B.
Qed.

Definition running (p : pc) : bool := match p with Idle | WantT _ => false | _ => true end.

Lemma past_root_is_running (p : pc) : past_root p = true -> running p = true.
Proof. destruct p; intros H; try discriminate H; reflexivity. Qed.

(* ------------------------------------------------------------------------------------------------ *)
(* (T1) on the atomic blocks                                                                          *)
(* ------------------------------------------------------------------------------------------------ *)
Hypothesis HS : SWO ltb.
Hypothesis H4 : 4 <= order.

Theorem blk_decreases (s : st) me th tg (o : out) W W' :
  GI ltb order s -> pc_ok_b ltb order (tr s) (tpc th) = true ->
  target s (tpc th) = Ok tg -> blk ltb order s me th tg = Ok (Some o) ->
  returned (oev o) = false -> tpc th <> Idle -> hgt (tr s) <= W ->
  mpc (otr o) W' (opc o) < mpc (tr s) W (tpc th) /\ running (opc o) = true /\
  ((forall o0, tpc th <> WantT o0) -> past_root (opc o) = true).
Proof.
  intros HGI Hpc Etg Hb Hr Hidle HW.
  pose proof (blk_hle0 K V ltb HS order H4 s me th tg o HGI Hpc Etg Hb) as HH.
  pose proof HGI as (Hnd & Hlt & _).
  assert (Hin : forall y, In y (ids (tr s)) -> hat y (otr o) <= hat y (tr s)).
  { intros y Hy. apply HH. rewrite Forall_forall in Hlt. specialize (Hlt _ Hy). intros [<-|[<-|[]]]; lia. }
  assert (Hfin : forall y sub, Conc.find y (tr s) = Some sub -> hat y (otr o) <= hat y (tr s)).
  { intros y sub Hf. apply Hin. eapply find_in_ids; eauto. }
  clear HH.
  unfold blk in Hb.
  destruct (tpc th) as [ |o0|o0 r|o0 lft rgt|o0 p c index|o0 p c r|o0 leaf mode index|o0 p c|o0 stk|o0 stk|o0 stk|leaf i n acc|leaf nxt n acc]
    eqn:Epc; cbv beta iota zeta in Hb; [congruence| | | | | | | | | | | |].
  - (* WantT *)
    unfold mk in Hb. cbn [bind] in Hb. inversion Hb; subst o; clear Hb. cbn [opc otr mpc].
    split; [|split; [reflexivity|intros X; exfalso; eapply X; reflexivity]].
    rewrite hat_root. pose proof (mroot_mono o0 _ _ HW). lia.
  - (* WantRoot *)
    match type of Hb with bind ?e _ = _ => destruct e as [out'|] eqn:HE; [cbn [bind] in Hb|discriminate Hb] end.
    inversion Hb; subst out'; clear Hb.
    cbn [pc_ok_b] in Hpc. apply Nat.eqb_eq in Hpc. subst r.
    assert (Hroot : hat (nid (tr s)) (otr o) <= hat (nid (tr s)) (tr s)) by (apply Hin; apply nid_in_ids).
    rewrite hat_root in Hroot. cbn [mpc]. rewrite hat_root.
    assert (Hups : forall o1, o1 = o0 -> ups_op o1 = true ->
              match isplit order (fresh s) (tr s) with
              | None => ins_descend ltb o1 (nid (tr s)) (tr s) match tg with Some (Some x) => (x, me) :: lk s | _ => lk s end (fresh s) None
              | Some (lft, rgt) =>
                ls <- ismallest lft ;; rs <- ismallest rgt ;;
                if ltb (key_of o1) rs
                then ins_descend ltb o1 (nid (tr s)) (INode (S (fresh s)) [(if ltb (key_of o1) ls then key_of o1 else ls, lft); (rs, rgt)])
                       match tg with Some (Some x) => (x, me) :: lk s | _ => lk s end (S (S (fresh s))) None
                else mk (INode (S (fresh s)) [(if ltb (key_of o1) ls then key_of o1 else ls, lft); (rs, rgt)])
                       match tg with Some (Some x) => (x, me) :: lk s | _ => lk s end (S (S (fresh s)))
                       match tg with Some None => Some me | _ => tm s end (InsWantRootRight o1 (nid (tr s)) (fresh s)) []
              end = Ok o ->
              mpc (otr o) W' (opc o) < 2 * hgt (tr s) + 3 /\ running (opc o) = true /\ past_root (opc o) = true).
    { intros o1 -> _ HE'. destruct (ins_root_m _ _ _ _ _ _ _ HE' Hr) as [A [(lft & rgt & s1 & s2 & Hsp & Et & Ep)|B]].
      - split; [|split; [apply past_root_is_running; exact A|exact A]]. rewrite Et, Ep. cbn [mpc].
        pose proof (root_split_right K V order (fresh s) (tr s) lft rgt s1 s2 (fresh s) Hsp) as Hrs.
        assert (Hne : fresh s <> S (fresh s)) by lia. specialize (Hrs Hne). lia.
      - split; [|split; [apply past_root_is_running; exact A|exact A]]. specialize (B (otr o) W'). lia. }
    destruct o0 as [k v|k g|k|k|k n]; cbn [mroot scan_tail].
    + destruct (Hups _ eq_refl eq_refl HE) as (A & B & C). split; [exact A|]. split; [exact B|]. intros _. exact C.
    + destruct (Hups _ eq_refl eq_refl HE) as (A & B & C). split; [exact A|]. split; [exact B|]. intros _. exact C.
    + destruct (tr s) as [i nx es|i cs] eqn:ET.
      * destruct (leaf_delete ltb (Nat.div2 order) k es) as [[es' small]|] eqn:Eld; [|discriminate HE].
        cbn [bind] in HE. unfold mk in HE. inversion HE; subst o; clear HE. cbn in Hr. discriminate Hr.
      * cbn [nid] in HE.
        destruct (del_descend ltb (CDelete k) [] i (INode i cs)) as [p|] eqn:Ed; [|discriminate HE].
        cbn [bind] in HE. unfold mk in HE. inversion HE; subst o; clear HE. cbn [otr opc] in *.
        destruct (del_descend_m _ _ _ _ _ Ed) as [A B]. specialize (B (INode i cs) W'). cbn [length] in B.
        pose proof (hat_root K V (INode i cs)) as Hrt. cbn [nid] in Hrt. rewrite Hrt in B.
        split; [lia|]. split; [apply past_root_is_running; exact A|]. intros _. exact A.
    + destruct (sea_descend_m _ _ _ _ _ _ _ HE Hr) as (Et & A & B). specialize (B (otr o) W'). cbn [scan_tail] in B.
      split; [lia|]. split; [apply past_root_is_running; exact A|]. intros _. exact A.
    + destruct (sea_descend_m _ _ _ _ _ _ _ HE Hr) as (Et & A & B). specialize (B (otr o) W'). cbn [scan_tail] in B.
      split; [lia|]. split; [apply past_root_is_running; exact A|]. intros _. exact A.
  - (* InsWantRootRight *)
    match type of Hb with bind ?e _ = _ => destruct e as [out'|] eqn:HE; [cbn [bind] in Hb|discriminate Hb] end.
    inversion Hb; subst out'; clear Hb.
    cbn [pc_ok_b] in Hpc. destruct (Conc.find rgt (tr s)) as [rt|] eqn:Hf; [|discriminate Hpc].
    destruct (ins_descend_m _ _ _ _ _ _ _ HE Hr) as [A B]. specialize (B (otr o) W').
    pose proof (Hfin _ _ Hf). cbn [mpc].
    split; [lia|]. split; [apply past_root_is_running; exact A|]. intros _. exact A.
  - (* InsWantChild *)
    match type of Hb with bind ?e _ = _ => destruct e as [out'|] eqn:HE; [cbn [bind] in Hb|discriminate Hb] end.
    inversion Hb; subst out'; clear Hb.
    pose proof (ins_child_m _ _ _ _ _ _ _ _ _ _ HE Hr) as HM. clear HE.
    cbn [pc_ok_b] in Hpc.
    destruct (Conc.find p (tr s)) as [[?|pi cs]|] eqn:Hfp; try discriminate Hpc.
    apply andb_prop in Hpc; destruct Hpc as [Hpc _]. apply andb_prop in Hpc; destruct Hpc as [_ H3].
    destruct (nth_error cs index) as [[sep ch]|] eqn:Hn; [|discriminate H3]. apply Nat.eqb_eq in H3.
    pose proof (hat_child K V p pi cs sep ch (tr s) Hnd Hfp (nth_error_In _ _ Hn)) as Hlt'. rewrite H3 in Hlt'.
    pose proof (find_child K V p pi cs sep ch (tr s) Hnd Hfp (nth_error_In _ _ Hn)) as Hfc. rewrite H3 in Hfc.
    pose proof (Hfin _ _ Hfp). pose proof (Hfin _ _ Hfc). cbn [mpc].
    destruct HM as [A [Ep|B]].
    + rewrite Ep. cbn [mpc]. split; [lia|]. split; [reflexivity|]. intros _. reflexivity.
    + specialize (B (otr o) W'). split; [lia|]. split; [apply past_root_is_running; exact A|]. intros _. exact A.
  - (* InsWantSplitRight *)
    match type of Hb with bind ?e _ = _ => destruct e as [out'|] eqn:HE; [cbn [bind] in Hb|discriminate Hb] end.
    inversion Hb; subst out'; clear Hb.
    cbn [pc_ok_b] in Hpc.
    destruct (Conc.find p (tr s)) as [[?|pi cs]|] eqn:Hfp; try discriminate Hpc.
    destruct (Conc.find r (tr s)) as [rt|] eqn:Hfr; [|discriminate Hpc].
    apply andb_prop in Hpc; destruct Hpc as [_ Hex].
    destruct (existsb_kid _ _ Hex) as (k & ch & Hinc & Hnid).
    pose proof (hat_child K V p pi cs k ch (tr s) Hnd Hfp Hinc) as Hlt'. rewrite Hnid in Hlt'.
    pose proof (Hfin _ _ Hfr).
    destruct (ins_descend_m _ _ _ _ _ _ _ HE Hr) as [A B]. specialize (B (otr o) W'). cbn [mpc].
    split; [lia|]. split; [apply past_root_is_running; exact A|]. intros _. exact A.
  - (* UpdCallback: always returns *)
    exfalso.
    match type of Hb with bind ?e _ = _ => destruct e as [out'|] eqn:HE; [cbn [bind] in Hb|discriminate Hb] end.
    inversion Hb; subst out'; clear Hb.
    destruct o0 as [k v|k g|k|k|k n]; try discriminate HE.
    destruct (Conc.find leaf (tr s)) as [[i nx es|i cs]|] eqn:Hf; try discriminate HE.
    unfold mk in HE. crunch HE; inversion HE; subst; clear HE; cbn in Hr; discriminate Hr.
  - (* SeaWantChild *)
    match type of Hb with bind ?e _ = _ => destruct e as [out'|] eqn:HE; [cbn [bind] in Hb|discriminate Hb] end.
    inversion Hb; subst out'; clear Hb.
    cbn [pc_ok_b] in Hpc.
    destruct (Conc.find p (tr s)) as [[?|pi cs]|] eqn:Hfp; try discriminate Hpc.
    destruct (existsb_kid _ _ Hpc) as (k & ch & Hinc & Hnid).
    pose proof (hat_child K V p pi cs k ch (tr s) Hnd Hfp Hinc) as Hlt'. rewrite Hnid in Hlt'.
    destruct (sea_descend_m _ _ _ _ _ _ _ HE Hr) as (Et & A & B). specialize (B (otr o) W'). rewrite Et in *. cbn [mpc].
    split; [lia|]. split; [apply past_root_is_running; exact A|]. intros _. exact A.
  - (* DelWantLeft *)
    destruct stk as [|f rest]; [discriminate Hb|]. destruct tg as [[x|]|]; try discriminate Hb.
    unfold mk in Hb. cbn [bind] in Hb. inversion Hb; subst o; clear Hb. cbn [otr opc mpc top_hat set_fl fp length].
    split; [lia|]. split; [reflexivity|]. intros _. reflexivity.
  - (* DelWantChild *)
    destruct stk as [|f rest]; [discriminate Hb|]. destruct tg as [[c|]|]; try discriminate Hb.
    cbn [target] in Etg. unfold child_id in Etg.
    destruct (Conc.find (fp f) (tr s)) as [[?|pi cs]|] eqn:Hfp; try discriminate Etg.
    destruct (get_nth (fidx f) cs) as [[k ch]|] eqn:Eg; [|discriminate Etg]. cbn [bind] in Etg.
    inversion Etg; subst c; clear Etg. apply get_nth_Ok in Eg.
    pose proof (hat_child K V (fp f) pi cs k ch (tr s) Hnd Hfp (nth_error_In _ _ Eg)) as Hlt'.
    pose proof (hat_internal K V _ _ _ _ Hfp) as Hpos.
    cbn [mpc top_hat].
    destruct (Conc.find (nid ch) (tr s)) as [[i nx es|i cs']|] eqn:Hfc; [| |discriminate Hb].
    + destruct (leaf_delete ltb (Nat.div2 order) (key_of o0) es) as [[es' small]|] eqn:Eld; [|discriminate Hb]. cbn [bind] in Hb.
      destruct (upd (nid ch) (fun _ => Ok (ILeaf i nx es')) (tr s)) as [t'|] eqn:Eupd; [|discriminate Hb]. cbn [bind] in Hb.
      match type of Hb with bind ?e _ = _ => destruct e as [out'|] eqn:Eun; [cbn [bind] in Hb|discriminate Hb] end.
      inversion Hb; subst out'; clear Hb.
      destruct (unwind_m _ _ _ _ _ _ _ _ _ _ _ Eun Hr) as (stk' & Ep & L & _). rewrite Ep. cbn [mpc length] in *.
      split; [lia|]. split; [reflexivity|]. intros _. reflexivity.
    + destruct (del_descend ltb o0 (set_fc f (nid ch) :: rest) (nid ch) (tr s)) as [p|] eqn:Ed; [|discriminate Hb].
      cbn [bind] in Hb. unfold mk in Hb. cbn [bind] in Hb. inversion Hb; subst o; clear Hb. cbn [otr opc] in *.
      destruct (del_descend_m _ _ _ _ _ Ed) as [A B]. specialize (B (tr s) W'). cbn [length] in *.
      split; [lia|]. split; [apply past_root_is_running; exact A|]. intros _. exact A.
  - (* DelWantRight *)
    destruct tg as [[x|]|]; try discriminate Hb.
    match type of Hb with bind ?e _ = _ => destruct e as [out'|] eqn:Eun; [cbn [bind] in Hb|discriminate Hb] end.
    inversion Hb; subst out'; clear Hb.
    destruct (unwind_m _ _ _ _ _ _ _ _ _ _ _ Eun Hr) as (stk' & Ep & _ & L). rewrite Ep. cbn [mpc].
    assert (L' : length stk' < length stk) by (apply L; discriminate).
    split; [lia|]. split; [reflexivity|]. intros _. reflexivity.
  - (* CurRest *)
    match type of Hb with bind ?e _ = _ => destruct e as [out'|] eqn:HE; [cbn [bind] in Hb|discriminate Hb] end.
    inversion Hb; subst out'; clear Hb.
    unfold mk in HE. crunch HE; inversion HE; subst; clear HE; cbn [oev] in Hr; cbn in Hr; try discriminate Hr.
    all: cbn [opc otr mpc]; (split; [lia|]); (split; [reflexivity|]); intros _; reflexivity.
  - (* CurWantNext *)
    match type of Hb with bind ?e _ = _ => destruct e as [out'|] eqn:HE; [cbn [bind] in Hb|discriminate Hb] end.
    inversion Hb; subst out'; clear Hb.
    unfold mk in HE. crunch HE; inversion HE; subst; clear HE; cbn [oev] in Hr; cbn in Hr; try discriminate Hr.
    all: cbn [opc otr mpc]; (split; [lia|]); (split; [reflexivity|]); intros _; reflexivity.
Qed.

(* ------------------------------------------------------------------------------------------------ *)
(* monotonicity of the measure in the heights, and its bound                                          *)
(* ------------------------------------------------------------------------------------------------ *)
Lemma frames_top (t : itree) f rest :
  frames_ok_b t (f :: rest) = true -> exists pi cs, Conc.find (fp f) t = Some (INode pi cs).
Proof. intros H. destruct (GIa2_Proof.frames_ok_cons K V _ _ _ H) as (pi & cs & Hf & _). eauto. Qed.

Lemma mpc_mono (t t' : itree) W W' (p : pc) :
  pc_ok_b ltb order t p = true -> (forall y, In y (ids t) -> hat y t' <= hat y t) -> W' <= W ->
  mpc t' W' p <= mpc t W p.
Proof.
  intros Hpc Hin HW.
  assert (Hfin : forall y sub, Conc.find y t = Some sub -> hat y t' <= hat y t).
  { intros y sub Hf. apply Hin. eapply find_in_ids; eauto. }
  destruct p as [ |o|o r|o l r|o pn c i|o pn c r|o leaf mode i|o pn c|o stk|o stk|o stk|leaf i n acc|leaf nxt n acc];
    cbn [mpc pc_ok_b] in *; try lia.
  - pose proof (mroot_mono o _ _ HW). lia.
  - apply Nat.eqb_eq in Hpc. subst r. apply mroot_mono. apply Hin. apply nid_in_ids.
  - destruct (Conc.find r t) as [rt|] eqn:Hf; [|discriminate Hpc]. pose proof (Hfin _ _ Hf). lia.
  - destruct (Conc.find pn t) as [[?|pi cs]|] eqn:Hf; try discriminate Hpc. pose proof (Hfin _ _ Hf). lia.
  - destruct (Conc.find pn t) as [[?|pi cs]|] eqn:Hf; try discriminate Hpc. pose proof (Hfin _ _ Hf). lia.
  - destruct (Conc.find pn t) as [[?|pi cs]|] eqn:Hf; try discriminate Hpc. pose proof (Hfin _ _ Hf). lia.
  - destruct stk as [|f rest]; cbn [top_hat]; [lia|].
    destruct (frames_top _ _ _ Hpc) as (pi & cs & Hf). pose proof (Hfin _ _ Hf). lia.
  - destruct stk as [|f rest]; cbn [top_hat]; [lia|].
    destruct (frames_top _ _ _ Hpc) as (pi & cs & Hf). pose proof (Hfin _ _ Hf). lia.
Qed.

(* the frames of a Delete lie on one path: the top frame's node is at least [length rest] levels below the root *)
Lemma frames_depth (t : itree) : NoDup (ids t) -> forall rest f,
  frames_ok_b t (f :: rest) = true -> hat (fp f) t + length rest <= hgt t.
Proof.
  intros Hnd. induction rest as [|g rest IH]; intros f H.
  - destruct (GIa2_Proof.frames_ok_cons K V _ _ _ H) as (pi & cs & Hf & _ & _ & Hroot & _).
    rewrite <- Hroot. rewrite hat_root. cbn [length]. lia.
  - destruct (GIa2_Proof.frames_ok_cons K V _ _ _ H) as (pi & cs & Hf & _ & _ & Hlink & Hg).
    specialize (IH g Hg).
    destruct (GIa2_Proof.frames_ok_cons K V _ _ _ Hg) as (pg & csg & Hfg & _ & Hkid & _ & _).
    destruct (Hkid _ Hlink) as (k & c & Hn & Hnid).
    pose proof (hat_child K V (fp g) pg csg k c t Hnd Hfg (nth_error_In _ _ Hn)) as Hlt. rewrite Hnid in Hlt.
    cbn [length]. lia.
Qed.

Lemma mpc_bound (t : itree) W (p : pc) :
  NoDup (ids t) -> pc_ok_b ltb order t p = true ->
  mpc t W p <= 3 * (if running p then hgt t else W) + 2 * scan_len p + 5.
Proof.
  intros Hnd Hpc.
  destruct p as [ |o|o r|o l r|o pn c i|o pn c r|o leaf mode i|o pn c|o stk|o stk|o stk|leaf i n acc|leaf nxt n acc];
    cbn [mpc running scan_len pc_ok_b] in *; try lia.
  - destruct o; cbn [mroot scan_tail]; lia.
  - pose proof (hat_le_hgt K V r t). destruct o; cbn [mroot scan_tail]; lia.
  - pose proof (hat_le_hgt K V r t). lia.
  - pose proof (hat_le_hgt K V pn t). lia.
  - pose proof (hat_le_hgt K V pn t). lia.
  - pose proof (hat_le_hgt K V pn t). destruct o; cbn [scan_tail]; lia.
  - destruct stk as [|f rest]; cbn [top_hat length]; [lia|].
    pose proof (frames_depth t Hnd rest f Hpc). pose proof (hat_le_hgt K V (fp f) t). lia.
  - destruct stk as [|f rest]; cbn [top_hat length]; [lia|].
    pose proof (frames_depth t Hnd rest f Hpc). pose proof (hat_le_hgt K V (fp f) t). lia.
  - apply andb_prop in Hpc. destruct Hpc as [Hpc _]. destruct stk as [|f rest]; cbn [length]; [lia|].
    pose proof (frames_depth t Hnd rest f Hpc). lia.
Qed.

(* a call in flight has at least one step to go *)
Lemma mpc_pos (t : itree) W (p : pc) :
  pc_ok_b ltb order t p = true -> p <> Idle -> 1 <= mpc t W p.
Proof.
  intros Hpc Hp.
  destruct p as [ |o|o r|o l r|o pn c i|o pn c r|o leaf mode i|o pn c|o stk|o stk|o stk|leaf i n acc|leaf nxt n acc];
    cbn [mpc pc_ok_b] in *; try lia; try congruence.
  - destruct o; cbn [mroot]; lia.
  - destruct (Conc.find pn t) as [[?|pi cs]|] eqn:Hf; try discriminate Hpc.
    pose proof (hat_internal K V _ _ _ _ Hf). lia.
  - apply andb_prop in Hpc. destruct Hpc as [_ Hpc]. destruct stk as [|f rest]; [discriminate Hpc|]. cbn [length]. lia.
Qed.

(* ------------------------------------------------------------------------------------------------ *)
(* the potential [Phi]                                                                                *)
(* ------------------------------------------------------------------------------------------------ *)
Lemma set_thread_notin me (th' : thread) (l : list (tid * thread)) : ~ In me (map fst l) -> set_thread me th' l = l.
Proof.
  induction l as [|[a tha] l IH]; intros Hn; [reflexivity|]. cbn [map fst In] in Hn. unfold set_thread in *. cbn [map fst].
  destruct (a =? me) eqn:E; [apply Nat.eqb_eq in E; tauto|]. f_equal. apply IH. tauto.
Qed.

Lemma pending_set me (th th' : thread) (l : list (tid * thread)) :
  NoDup (map fst l) -> get_thread me l = Some th ->
  list_sum (map (fun e => pend (snd e)) (set_thread me th' l)) + pend th =
  list_sum (map (fun e => pend (snd e)) l) + pend th'.
Proof.
  assert (Hc : forall x r, list_sum (x :: r) = x + list_sum r) by reflexivity.
  assert (Hs : forall a tha r, set_thread me th' ((a, tha) :: r) =
                 (if a =? me then (me, th') else (a, tha)) :: set_thread me th' r) by reflexivity.
  induction l as [|[a tha] l IH]; intros Hnd Hg; [discriminate Hg|].
  cbn [map fst] in Hnd. inversion Hnd as [|? ? Hni Hnd']; subst.
  unfold get_thread in Hg. cbn [List.find fst] in Hg. rewrite Hs.
  destruct (a =? me) eqn:E.
  - inversion Hg; subst tha. apply Nat.eqb_eq in E. subst a.
    rewrite (set_thread_notin me th' l Hni). cbn [map snd]. rewrite !Hc. lia.
  - fold (get_thread me l) in Hg. specialize (IH Hnd' Hg). cbn [map snd]. rewrite !Hc.
    rewrite <- !Nat.add_assoc. f_equal. exact IH.
Qed.

Lemma count_ups_tl (l : list cop) : count_ups (tl l) <= count_ups l.
Proof. destruct l as [|o l]; [cbn; lia|]. unfold count_ups. cbn [tl filter]. destruct (ups_op o); cbn [length]; lia. Qed.

Lemma count_ups_cons o (l : list cop) : ups_op o = true -> count_ups (o :: l) = S (count_ups l).
Proof. intros H. unfold count_ups. cbn [filter]. rewrite H. reflexivity. Qed.

Lemma BigInv_parts (s : st) : BigInv K V ltb order s ->
  GI ltb order s /\ lock_inv2 K V s /\ all_pc_ok_b ltb order s = true /\ LINb_Prog.prog_ok K V s.
Proof. intros ((((HGI & HL & HP) & _) & _) & _ & _ & _ & _ & HPO). auto. Qed.

(* what one block does to the thread's contribution to the potential *)
Lemma blk_pend (s : st) me th tg (o : out) (th' : thread) :
  GI ltb order s -> pc_ok_b ltb order (tr s) (tpc th) = true -> pc_prog_ok K V (tpc th) (prog th) ->
  target s (tpc th) = Ok tg -> blk ltb order s me th tg = Ok (Some o) ->
  tpc th' = opc o -> prog th' = (if returned (oev o) then tl (prog th) else prog th) ->
  pend th' + (if is_ups_root K V (tpc th) then 1 else 0) <= pend th.
Proof.
  intros HGI Hpc Hprog Etg Hb Et Ep.
  assert (Hups : is_ups_root K V (tpc th) = true -> pend th = S (count_ups (tl (prog th)))).
  { intros Hu. unfold pend. destruct (tpc th) as [ |?|o0 r| | | | | | | | | | ]; try discriminate Hu.
    cbn [past_root]. cbn [pc_prog_ok] in Hprog. destruct Hprog as [rest ->]. cbn [tl].
    apply count_ups_cons. destruct o0; try discriminate Hu; reflexivity. }
  assert (Hgen : pend th' = count_ups (tl (prog th)) -> pend th' + (if is_ups_root K V (tpc th) then 1 else 0) <= pend th).
  { intros E. destruct (is_ups_root K V (tpc th)) eqn:Eu.
    - rewrite (Hups eq_refl). lia.
    - rewrite E. unfold pend. destruct (past_root (tpc th)); [lia|apply Nat.le_trans with (count_ups (tl (prog th))); [lia|apply count_ups_tl]]. }
  destruct (returned (oev o)) eqn:Hr.
  - pose proof (blk_prog K V ltb order s me th tg o Hprog Hb) as HQ. unfold Q in HQ. rewrite Hr in HQ.
    apply Hgen. unfold pend. rewrite Et, HQ, Ep. reflexivity.
  - destruct (tpc th) as [ |o0| | | | | | | | | | | ] eqn:Epc;
    [ destruct (blk_idle K V ltb order s me th tg o Epc Hb) as (o1 & rest & Hp & Ho & _);
      unfold pend; rewrite Et, Ho, Ep, Epc; cbn [past_root is_ups_root]; lia
    | destruct (blk_wantT K V ltb order s me th tg o o0 Epc Hb) as (Ho & _);
      unfold pend; rewrite Et, Ho, Ep, Epc; cbn [past_root is_ups_root]; lia
    | rewrite <- Epc in *; apply Hgen;
      destruct (blk_decreases s me th tg o (hgt (tr s)) 0 HGI Hpc Etg Hb Hr) as (_ & _ & HP);
        [rewrite Epc; discriminate|lia|];
      unfold pend; rewrite Et, HP, Ep; [reflexivity|rewrite Epc; discriminate] .. ].
Qed.

Theorem Phi_step (s s' : st) me acq ev :
  BigInv K V ltb order s -> cstep ltb order s me = Stepped s' acq ev -> Phi s' <= Phi s.
Proof.
  intros HB Hc. destruct (BigInv_parts s HB) as (HGI & HL & HP & HPO).
  destruct (cstep_parts K V ltb order s s' me acq ev Hc) as (th & o & Hme & Etg & _ & Hb & -> & ->).
  pose proof (all_pc_ok_elim K V ltb order s me th HP Hme) as Hpc.
  destruct (blk_hle_gen K V ltb HS order H4 s me th acq o HGI Hpc Etg Hb) as [_ Hh].
  unfold Phi, pending, commit. cbn [tr ths].
  set (th' := if returned (oev o) then _ else _).
  pose proof (pending_set me th th' (ths s) (proj1 (proj2 (proj1 HL))) Hme) as Hsum.
  assert (Hp : pend th' + (if is_ups_root K V (tpc th) then 1 else 0) <= pend th).
  { apply (blk_pend s me th acq o th' HGI Hpc (HPO me th Hme) Etg Hb); unfold th'; destruct (returned (oev o)); reflexivity. }
  unfold hbound in Hh. destruct (is_ups_root K V (tpc th)); lia.
Qed.

Lemma hgt_le_Phi (s : st) : hgt (tr s) <= Phi s.
Proof. unfold Phi. lia. Qed.

(* ------------------------------------------------------------------------------------------------ *)
(* (T1), (T2), (T3) on states                                                                         *)
(* ------------------------------------------------------------------------------------------------ *)
Lemma own_step (s s' : st) me acq ev :
  BigInv K V ltb order s -> cstep ltb order s me = Stepped s' acq ev ->
  returns ev = None -> tpc_of s me <> Idle ->
  measure s' me < measure s me /\ running (tpc_of s' me) = true.
Proof.
  intros HB Hc Hr Hidle. destruct (BigInv_parts s HB) as (HGI & HL & HP & HPO).
  destruct (cstep_parts K V ltb order s s' me acq ev Hc) as (th & o & Hme & Etg & _ & Hb & -> & ->).
  pose proof (all_pc_ok_elim K V ltb order s me th HP Hme) as Hpc.
  apply returns_returned in Hr.
  unfold measure, tpc_of in *. rewrite Hme in *.
  destruct (commit_me K V s me th o Hme) as (th' & Hme' & Et & _). rewrite Hme', Et.
  destruct (blk_decreases s me th acq o (Phi s) (Phi (commit s me th o)) HGI Hpc Etg Hb Hr Hidle (hgt_le_Phi s))
    as (A & B & _).
  split; [exact A|exact B].
Qed.

Theorem own_step_decreases (s s' : st) me acq ev :
  BigInv K V ltb order s -> cstep ltb order s me = Stepped s' acq ev ->
  returns ev = None -> tpc_of s me <> Idle -> measure s' me < measure s me.
Proof. intros HB Hc Hr Hi. exact (proj1 (own_step s s' me acq ev HB Hc Hr Hi)). Qed.

Theorem other_step_no_increase (s s' : st) me acq ev t :
  BigInv K V ltb order s -> cstep ltb order s me = Stepped s' acq ev -> t <> me ->
  measure s' t <= measure s t /\ tpc_of s' t = tpc_of s t.
Proof.
  intros HB Hc Hne. destruct (BigInv_parts s HB) as (HGI & HL & HP & HPO).
  pose proof (Phi_step s s' me acq ev HB Hc) as HPhi.
  pose proof (step_other_thread K V ltb order s s' me acq ev t Hc Hne) as Hoth.
  assert (Epc : tpc_of s' t = tpc_of s t) by (unfold tpc_of; rewrite Hoth; reflexivity).
  split; [|exact Epc]. unfold measure. rewrite Epc.
  destruct (cstep_parts K V ltb order s s' me acq ev Hc) as (th & o & Hme & Etg & _ & Hb & -> & ->).
  pose proof (all_pc_ok_elim K V ltb order s me th HP Hme) as Hpc.
  pose proof (blk_hle0 K V ltb HS order H4 s me th acq o HGI Hpc Etg Hb) as HH.
  pose proof HGI as (Hnd & Hlt & _).
  apply mpc_mono; [| |exact HPhi].
  - unfold tpc_of. destruct (get_thread t (ths s)) as [tht|] eqn:Ht; [|reflexivity].
    exact (all_pc_ok_elim K V ltb order s t tht HP Ht).
  - intros y Hy. cbn [commit tr]. apply HH. rewrite Forall_forall in Hlt. specialize (Hlt _ Hy).
    intros [<-|[<-|[]]]; lia.
Qed.

Theorem measure_bound (s : st) t :
  BigInv K V ltb order s ->
  measure s t <= 3 * (if running (tpc_of s t) then height (erase_ids (tr s)) else Phi s) + 2 * scan_len (tpc_of s t) + 5.
Proof.
  intros HB. destruct (BigInv_parts s HB) as (HGI & HL & HP & HPO). pose proof HGI as (Hnd & _).
  unfold measure. apply mpc_bound; [exact Hnd|].
  unfold tpc_of. destruct (get_thread t (ths s)) as [tht|] eqn:Ht; [|reflexivity].
  exact (all_pc_ok_elim K V ltb order s t tht HP Ht).
Qed.

Lemma measure_pos (s : st) t :
  BigInv K V ltb order s -> tpc_of s t <> Idle -> 1 <= measure s t.
Proof.
  intros HB Hi. destruct (BigInv_parts s HB) as (HGI & HL & HP & HPO).
  unfold measure. apply mpc_pos; [|exact Hi].
  unfold tpc_of. destruct (get_thread t (ths s)) as [tht|] eqn:Ht; [|reflexivity].
  exact (all_pc_ok_elim K V ltb order s t tht HP Ht).
Qed.

(* once the call is past [WantT] the measure does not depend on the potential: it is a function of the pc and of
   the heights of the subtrees at the nodes the pc names *)
Lemma mpc_running (t : itree) W W' (p : pc) : running p = true -> mpc t W p = mpc t W' p.
Proof. destruct p; intros H; try discriminate H; reflexivity. Qed.

Lemma measure_running (s : st) t :
  running (tpc_of s t) = true -> measure s t = mpc (tr s) (hgt (tr s)) (tpc_of s t).
Proof. intros H. unfold measure. apply mpc_running. exact H. Qed.

(* ------------------------------------------------------------------------------------------------ *)
(* (T4) executions                                                                                    *)
(* ------------------------------------------------------------------------------------------------ *)
Hypothesis Heven : Nat.even order = true.

Lemma BigInv_step_closed (s s' : st) me acq ev :
  BigInv K V ltb order s -> cstep ltb order s me = Stepped s' acq ev -> BigInv K V ltb order s'.
Proof.
  apply (BigInv_step K V ltb HS order Heven H4).
  - intros s0 s0' me0 acq0 ev0 B E.
    exact (pc_ok2_step K V ltb HS order s0 s0' me0 acq0 ev0 Heven H4 (base_conv K V ltb order s0 B) E).
  - intros s0 s0' me0 acq0 ev0 B E.
    exact (pc_ok3_step K V ltb HS order s0 s0' me0 acq0 ev0 Heven H4 (base_conv K V ltb order s0 B) E).
Qed.

(* the number of steps thread t takes in a history, and "t returns somewhere in the history" *)
Definition steps_of (t : tid) (h : list (tid * list event)) : nat := length (filter (fun e => fst e =? t) h).
Definition returned_in (t : tid) (h : list (tid * list event)) : Prop :=
  exists ev, In (t, ev) h /\ returns ev <> None.

Lemma exec_cons (s : st) u rest :
  exec ltb order s (u :: rest) =
  match cstep ltb order s u with
  | Stepped s' _ ev => (fst (exec ltb order s' rest), (u, ev) :: snd (exec ltb order s' rest))
  | _ => (s, [])
  end.
Proof. cbn [exec]. destruct (cstep ltb order s u); try reflexivity. destruct (exec ltb order s0 rest). reflexivity. Qed.

(* the call in flight of t returns within [measure s t] steps of t, whatever else is scheduled in between *)
Theorem returns_within_measure : forall sched (s : st) t,
  BigInv K V ltb order s -> tpc_of s t <> Idle ->
  measure s t <= steps_of t (snd (exec ltb order s sched)) ->
  returned_in t (snd (exec ltb order s sched)).
Proof.
  induction sched as [|u rest IH]; intros s t HB Hidle Hm.
  - cbn in Hm. pose proof (measure_pos s t HB Hidle). lia.
  - rewrite exec_cons in *. destruct (cstep ltb order s u) as [ | | |s1 acq ev|p] eqn:Hc;
      try (cbn in Hm; pose proof (measure_pos s t HB Hidle); lia).
    cbn [snd] in *. pose proof (BigInv_step_closed s s1 u acq ev HB Hc) as HB1.
    unfold steps_of in Hm. cbn [filter fst] in Hm.
    destruct (u =? t) eqn:Eu.
    + apply Nat.eqb_eq in Eu. subst u. cbn [length] in Hm. fold (steps_of t (snd (exec ltb order s1 rest))) in Hm.
      destruct (returns ev) as [r|] eqn:Er.
      * exists ev. split; [left; reflexivity|congruence].
      * destruct (own_step s s1 t acq ev HB Hc Er Hidle) as [Hlt Hrun].
        assert (Hidle1 : tpc_of s1 t <> Idle) by (intros E; rewrite E in Hrun; discriminate Hrun).
        destruct (IH s1 t HB1 Hidle1) as (ev' & Hin & Hr'); [lia|].
        exists ev'. split; [right; exact Hin|exact Hr'].
    + apply Nat.eqb_neq in Eu. fold (steps_of t (snd (exec ltb order s1 rest))) in Hm.
      assert (Hne : t <> u) by congruence.
      destruct (other_step_no_increase s s1 u acq ev t HB Hc Hne) as [Hle Epc].
      assert (Hidle1 : tpc_of s1 t <> Idle) by (rewrite Epc; exact Hidle).
      destruct (IH s1 t HB1 Hidle1) as (ev' & Hin & Hr'); [lia|].
      exists ev'. split; [right; exact Hin|exact Hr'].
Qed.

(* the explicit bound: 3 * (tree height + root splits still to come) + 2 * (scan length) + 5 own steps;
   once the call holds the tree mutex or a node (pc other than WantT): 3 * height + 2 * (scan length) + 5 *)
Corollary returns_within_bound : forall sched (s : st) t,
  BigInv K V ltb order s -> tpc_of s t <> Idle ->
  3 * (if running (tpc_of s t) then height (erase_ids (tr s)) else Phi s) + 2 * scan_len (tpc_of s t) + 5
    <= steps_of t (snd (exec ltb order s sched)) ->
  returned_in t (snd (exec ltb order s sched)).
Proof.
  intros sched s t HB Hidle Hm. apply returns_within_measure; [exact HB|exact Hidle|].
  pose proof (measure_bound s t HB). lia.
Qed.

(* from the initial state: in every reachable state the above applies *)
Corollary returns_within_measure_reachable : forall (progs : list (tid * list cop)) sched0 sched t,
  NoDup (map fst progs) ->
  let s := fst (exec ltb order (init_st progs) sched0) in
  tpc_of s t <> Idle ->
  measure s t <= steps_of t (snd (exec ltb order s sched)) ->
  returned_in t (snd (exec ltb order s sched)).
Proof.
  intros progs sched0 sched t Hnd s Hidle Hm. apply returns_within_measure; [|exact Hidle|exact Hm].
  apply (BigInv_reachable K V ltb HS order Heven H4).
  - intros s0 s0' me0 acq0 ev0 B E.
    exact (pc_ok2_step K V ltb HS order s0 s0' me0 acq0 ev0 Heven H4 (base_conv K V ltb order s0 B) E).
  - intros s0 s0' me0 acq0 ev0 B E.
    exact (pc_ok3_step K V ltb HS order s0 s0' me0 acq0 ev0 Heven H4 (base_conv K V ltb order s0 B) E).
  - exact (all_pc_ok2_init K V).
  - exact (all_pc_ok3_init K V ltb).
  - exact Hnd.
Qed.

(* the invocation step sets the measure to its initial value for the call *)
Lemma invocation_measure (s s' : st) me acq ev :
  cstep ltb order s me = Stepped s' acq ev -> tpc_of s me = Idle ->
  exists o, tpc_of s' me = WantT o /\ measure s' me = S (mroot o (Phi s')).
Proof.
  intros Hc Hi.
  destruct (cstep_parts K V ltb order s s' me acq ev Hc) as (th & o & Hme & Etg & _ & Hb & -> & ->).
  unfold tpc_of in Hi. rewrite Hme in Hi.
  destruct (blk_idle K V ltb order s me th acq o Hi Hb) as (o1 & rest & Hp & Ho & _).
  destruct (commit_me K V s me th o Hme) as (th' & Hme' & Et & _).
  exists o1. unfold measure, tpc_of. rewrite Hme', Et, Ho. split; reflexivity.
Qed.

End Measure.

(* ------------------------------------------------------------------------------------------------ *)
(* DISCREPANCY (machine-checked, K = V = nat, order 4): with the CURRENT tree height in place of the   *)
(* potential [Phi] at [WantT], a step of another thread CAN increase the measure: while thread 0 waits *)
(* for the tree mutex (pc WantT), thread 1's Insert splits the root and the tree grows by one level.   *)
(* The number of own steps of a call waiting at WantT is bounded only through the root splits the      *)
(* other threads' programs can still perform, which is what [Phi] counts.                              *)
(* ------------------------------------------------------------------------------------------------ *)
Section Counterexample.

Definition cex_progs : list (tid * list (cop nat nat)) :=
  [(0, [CSearch 7]); (1, [CInsert 1 1; CInsert 2 2; CInsert 3 3; CInsert 4 4; CInsert 5 5])].
(* thread 1 inserts four pairs (the root leaf is full), thread 0 invokes Search, thread 1 invokes its fifth
   Insert and takes the tree mutex *)
Definition cex_state : st nat nat :=
  fst (exec Nat.ltb 4 (init_st cex_progs) [1;1;1;1;1;1;1;1;1;1;1;1;0;1;1]).
Definition naive_measure (s : st nat nat) (t : tid) : nat :=
  mpc nat nat (tr s) (hgt nat nat (tr s)) (tpc_of nat nat s t).

Theorem naive_measure_increases :
  exists s' acq ev,
    tpc_of nat nat cex_state 0 = WantT (CSearch 7) /\
    cstep Nat.ltb 4 cex_state 1 = Stepped s' acq ev /\
    naive_measure cex_state 0 = 3 /\ naive_measure s' 0 = 4 /\
    measure nat nat cex_state 0 = 4 /\ measure nat nat s' 0 = 4.
Proof.
  eexists. eexists. eexists. split; [vm_compute; reflexivity|]. split; [vm_compute; reflexivity|].
  repeat split; vm_compute; reflexivity.
Qed.

End Counterexample.

Print Assumptions own_step_decreases.
Print Assumptions other_step_no_increase.
Print Assumptions measure_bound.
Print Assumptions returns_within_measure.
Print Assumptions returns_within_bound.
Print Assumptions returns_within_measure_reachable.
Print Assumptions naive_measure_increases.

(* ------------------------------------------------------------------------------------------------ *)
(* SUMMARY                                                                                            *)
(*                                                                                                    *)
(* Premises of every theorem: SWO ltb, 4 <= order (and Nat.even order = true for the theorems about    *)
(* executions, which need BigInv to be preserved).  hat y t is the height of the subtree of t rooted   *)
(* at node y (0 if y is not in t); hgt t = height (erase_ids t).                                       *)
(*                                                                                                    *)
(*   measure s t := mpc (tr s) (Phi s) (tpc_of s t)        (0 when t is Idle: no call in flight)       *)
(*   mpc t W pc :=                                                                                    *)
(*     WantT o                 => 1 + mroot o W                                                       *)
(*     WantRoot o r            => mroot o (hat r t)                                                   *)
(*         mroot (Insert/Update) H = 2H + 3;  mroot (Delete) H = 3H + 4;                              *)
(*         mroot (Search) H = H + 2;  mroot (Scan k n) H = H + 2 + (2n + 1)                           *)
(*     InsWantRootRight o l r  => 2 * hat r t + 2                                                     *)
(*     InsWantChild o p c i    => 2 * hat p t + 1                                                     *)
(*     InsWantSplitRight o p c r => 2 * hat p t                                                       *)
(*     UpdCallback             => 1                                                                   *)
(*     SeaWantChild o p c      => hat p t + 1 + (2n + 1 for Scan k n, 0 for Search)                   *)
(*     DelWantLeft o (f::stk)  => 3 * hat (fp f) t + length (f::stk) + 2                              *)
(*     DelWantChild o (f::stk) => 3 * hat (fp f) t + length (f::stk) + 1                              *)
(*     DelWantRight o stk      => length stk                                                          *)
(*     CurRest leaf i n acc    => 2n + 1;     CurWantNext leaf nxt n acc => 2n + 2                    *)
(*   Phi s := hgt (tr s) + pending s, pending s = number of Insert/Update calls of all threads (in     *)
(*     flight or still in their programs) that have not yet passed the root, i.e. the root splits that *)
(*     can still happen.  [Phi_step]: Phi never increases.                                            *)
(*                                                                                                    *)
(* PROVED                                                                                             *)
(*   TERM_Blocks.blk_hle_gen / blk_hle0 (KEY FACT): no step makes the subtree rooted at an existing    *)
(*     node higher: hat y (tr s') <= hat y (tr s) for every y other than the identities allocated by   *)
(*     the step; the tree itself grows (by one) only in the root split of an Insert/Update.            *)
(*   (T1) own_step_decreases : BigInv s -> cstep s me = Stepped s' acq ev -> returns ev = None ->      *)
(*          tpc_of s me <> Idle -> measure s' me < measure s me                                        *)
(*        (own_step adds: running (tpc_of s' me) = true; invocation_measure: the step from Idle sets   *)
(*         the measure to 1 + mroot o (Phi s'))                                                        *)
(*   (T2) other_step_no_increase : BigInv s -> cstep s me = Stepped s' acq ev -> t <> me ->            *)
(*          measure s' t <= measure s t /\ tpc_of s' t = tpc_of s t     (for EVERY pc, WantT included) *)
(*   (T3) measure_bound : BigInv s -> measure s t <=                                                   *)
(*          3 * (if running pc then height (erase_ids (tr s)) else Phi s) + 2 * scan_len pc + 5        *)
(*        measure_pos : a call in flight has measure >= 1                                              *)
(*   (T4) returns_within_measure : BigInv s -> tpc_of s t <> Idle ->                                   *)
(*          measure s t <= steps_of t (snd (exec s sched)) -> returned_in t (snd (exec s sched))       *)
(*        for every schedule (exec stops at the first impossible step, so the history contains exactly *)
(*        the steps that happened); returns_within_bound (explicit bound), and                         *)
(*        returns_within_measure_reachable (from init_st, all premises discharged).                    *)
(*   DISCREPANCY naive_measure_increases: with the current height instead of Phi at WantT, (T2) is     *)
(*        false (another thread's root split); for running pcs the measure does not depend on Phi      *)
(*        (measure_running), so there the bound is 3 * height + 2 * scan_len + 5.                      *)
(* Nothing remains open.                                                                               *)
(* ------------------------------------------------------------------------------------------------ *)

(* DeleteProof.v — Delete on a tree satisfying the invariant does not panic, behaves as [erase] on the
   abstract contents and re-establishes the invariant (order >= 4, even). *)
From Coq Require Import List Bool Lia PeanoNat.
From GB Require Import Model Spec Inv ListLemmas SearchProof.
Import ListNotations.

Section D.
Variables (K V : Type) (ltb : K -> K -> bool).
Hypothesis HS : SWO ltb.
Notation tree := (tree K V).
Notation ent := (fun c : K * tree => entries (snd c)).

(* ---------- order facts, local names ---------- *)
Lemma lirr a : ltb a a = false. Proof. apply (ltb_irrefl _ _ HS). Qed.
Lemma ltr a b c : ltb a b = true -> ltb b c = true -> ltb a c = true. Proof. apply (ltb_trans _ _ HS). Qed.
Lemma lasym a b : ltb a b = true -> ltb b a = false. Proof. apply (lt_asym _ _ HS). Qed.
(* a < b <= c *)
Lemma llt_le a b c : ltb a b = true -> ltb c b = false -> ltb a c = true. Proof. apply (lt_le_trans _ _ HS). Qed.
(* a <= b < c *)
Lemma lle_lt a b c : ltb b a = false -> ltb b c = true -> ltb a c = true. Proof. apply (le_lt_trans _ _ HS). Qed.
(* a <= b <= c, written with the negated comparisons *)
Lemma lle_le a b c : ltb b a = false -> ltb c b = false -> ltb c a = false.
Proof. intros H1 H2. apply (ltb_negtrans _ _ HS c b a); assumption. Qed.

(* ---------- list surgery at a known position ---------- *)
Lemma nth_error_mid {A} (pre : list A) x post i : i = length pre -> nth_error (pre ++ x :: post) i = Some x.
Proof. intros ->. induction pre; simpl; auto. Qed.
Lemma set_nth_mid {A} (pre : list A) x y post i : i = length pre -> set_nth i y (pre ++ x :: post) = pre ++ y :: post.
Proof. intros ->. unfold set_nth. induction pre; simpl; [reflexivity|]. f_equal. exact IHpre. Qed.
Lemma del_nth_mid {A} (pre : list A) x post i : i = length pre -> del_nth i (pre ++ x :: post) = pre ++ post.
Proof. intros ->. unfold del_nth. induction pre; simpl; [reflexivity|]. f_equal. exact IHpre. Qed.
Lemma get_nth_mid {A} (pre : list A) x post i : i = length pre -> get_nth i (pre ++ x :: post) = Ok x.
Proof. intros H. unfold get_nth. rewrite nth_error_mid by exact H. reflexivity. Qed.
Lemma set_child_mid (pre : list (K * tree)) s c c' post i : i = length pre ->
  set_child i c' (pre ++ (s, c) :: post) = pre ++ (s, c') :: post.
Proof. intros H. unfold set_child. rewrite nth_error_mid by exact H. apply set_nth_mid; exact H. Qed.
Lemma app_cons_snoc {A} (pre : list A) x l : pre ++ x :: l = (pre ++ [x]) ++ l.
Proof. rewrite <- app_assoc. reflexivity. Qed.
Lemma rev_cons_inv {A} (l : list A) x l' : rev l = x :: l' -> l = rev l' ++ [x].
Proof. intros H. rewrite <- (rev_involutive l), H. reflexivity. Qed.
Lemma snoc_cases {A} (l : list A) : l = [] \/ exists l' x, l = l' ++ [x].
Proof. destruct (rev l) as [|x l'] eqn:E.
  - left. rewrite <- (rev_involutive l), E. reflexivity.
  - right. exists (rev l'), x. apply rev_cons_inv; exact E. Qed.

(* ---------- erase ---------- *)
Lemma erase_app_lt k (pre l : list (K * V)) :
  (forall e, In e pre -> ltb (fst e) k = true) -> erase ltb k (pre ++ l) = pre ++ erase ltb k l.
Proof.
  induction pre as [|[k' v] pre IH]; intros H; [reflexivity|]. simpl.
  assert (E : ltb k' k = true) by (apply (H (k', v)); left; reflexivity).
  rewrite (lasym _ _ E), E. f_equal. apply IH. intros e He. apply H. right; exact He.
Qed.
Lemma erase_app_gt k (l post : list (K * V)) :
  (forall e, In e post -> ltb k (fst e) = true) -> erase ltb k (l ++ post) = erase ltb k l ++ post.
Proof.
  intros H. induction l as [|[k' v] l IH]; simpl.
  - destruct post as [|[k' v] post]; [reflexivity|]. simpl.
    assert (E : ltb k k' = true) by (apply (H (k', v)); left; reflexivity). rewrite E. reflexivity.
  - destruct (ltb k k'); [reflexivity|]. destruct (ltb k' k); [|reflexivity]. rewrite IH. reflexivity.
Qed.

(* ---------- key-list relations ---------- *)
Definition klt (a b : list K) : Prop := forall x y, In x a -> In y b -> ltb x y = true.
Definition kle (s : K) (b : list K) : Prop := forall y, In y b -> ltb y s = false.

Lemma klt_incl a b a' b' : klt a b -> incl a' a -> incl b' b -> klt a' b'.
Proof. unfold klt, incl. intros H Ha Hb x y Hx Hy. apply H; auto. Qed.
Lemma klt_app_l a1 a2 b : klt (a1 ++ a2) b <-> klt a1 b /\ klt a2 b.
Proof. unfold klt. split.
  - intros H; split; intros x y Hx Hy; apply H; auto; apply in_app_iff; auto.
  - intros [H1 H2] x y Hx Hy. apply in_app_iff in Hx. destruct Hx; auto. Qed.
Lemma klt_app_r a b1 b2 : klt a (b1 ++ b2) <-> klt a b1 /\ klt a b2.
Proof. unfold klt. split.
  - intros H; split; intros x y Hx Hy; apply H; auto; apply in_app_iff; auto.
  - intros [H1 H2] x y Hx Hy. apply in_app_iff in Hy. destruct Hy; auto. Qed.
Lemma klt_nil_l b : klt [] b. Proof. intros x y []. Qed.
Lemma klt_nil_r a : klt a []. Proof. intros x y _ []. Qed.
Lemma klt_cons_l x a b : klt (x :: a) b <-> (forall y, In y b -> ltb x y = true) /\ klt a b.
Proof. unfold klt. split.
  - intros H; split; [intros y Hy; apply H; simpl; auto|intros z y Hz Hy; apply H; simpl; auto].
  - intros [H1 H2] z y [->|Hz] Hy; auto. Qed.
Lemma klt_cons_r a y b : klt a (y :: b) <-> (forall x, In x a -> ltb x y = true) /\ klt a b.
Proof. unfold klt. split.
  - intros H; split; [intros x Hx; apply H; simpl; auto|intros x z Hx Hz; apply H; simpl; auto].
  - intros [H1 H2] x z Hx [<-|Hz]; auto. Qed.
(* a < s <= b *)
Lemma klt_via a s b : (forall x, In x a -> ltb x s = true) -> kle s b -> klt a b.
Proof. intros H1 H2 x y Hx Hy. eapply llt_le; [apply H1; exact Hx|apply H2; exact Hy]. Qed.
Lemma kle_incl s b b' : kle s b -> incl b' b -> kle s b'.
Proof. unfold kle, incl. auto. Qed.
Lemma kle_app s b1 b2 : kle s (b1 ++ b2) <-> kle s b1 /\ kle s b2.
Proof. unfold kle. split.
  - intros H; split; intros y Hy; apply H; apply in_app_iff; auto.
  - intros [H1 H2] y Hy. apply in_app_iff in Hy. destruct Hy; auto. Qed.
(* s < s' <= b *)
Lemma kle_lower s s' b : ltb s s' = true -> kle s' b -> kle s b.
Proof. intros H1 H2 y Hy. apply lasym. eapply llt_le; [exact H1|apply H2; exact Hy]. Qed.
Lemma kle_of_lt s b : (forall y, In y b -> ltb s y = true) -> kle s b.
Proof. intros H y Hy. apply lasym. apply H; exact Hy. Qed.

(* ---------- asc, strong form ---------- *)
Lemma asc_cons_iff x l : asc ltb (x :: l) <-> (forall y, In y l -> ltb x y = true) /\ asc ltb l.
Proof.
  split.
  - intros H. split; [|eapply asc_cons_inv; eauto].
    apply Forall_forall. apply (asc_forall _ _ HS). exact H.
  - intros [H1 H2]. destruct l as [|y l]; [exact I|]. split; [apply H1; left; reflexivity|exact H2].
Qed.
Lemma asc_app_iff a b : asc ltb (a ++ b) <-> asc ltb a /\ asc ltb b /\ klt a b.
Proof.
  induction a as [|x a IH].
  - simpl. split; [intros H; repeat split; auto; apply klt_nil_l|tauto].
  - rewrite <- app_comm_cons. rewrite !asc_cons_iff, IH, klt_cons_l. split.
    + intros (H1 & H2 & H3 & H4). repeat split; auto; intros y Hy; apply H1; apply in_app_iff; auto.
    + intros ((H1 & H2) & H3 & H4 & H5). repeat split; auto. intros y Hy. apply in_app_iff in Hy. destruct Hy; auto.
Qed.
Lemma asc_head_low x l : asc ltb (x :: l) -> kle x (x :: l).
Proof. intros H y [<-|Hy]; [apply lirr|]. apply lasym. apply asc_cons_iff in H. apply H; exact Hy. Qed.

(* ---------- all_kids as Forall ---------- *)
Lemma all_kids_Forall (P : tree -> Prop) cs : all_kids P cs <-> Forall (fun e => P (snd e)) cs.
Proof.
  induction cs as [|[s c] r IH]; simpl.
  - split; auto.
  - rewrite IH. split; [intros [H1 H2]; constructor; auto|intros H; inversion H; subst; auto].
Qed.

(* ---------- the node order in strong (pairwise) form ---------- *)
Definition fp (e : K * tree) : list K := fst e :: allkeys (snd e).
Definition kkeys (cs : list (K * tree)) : list K := flat_map fp cs.
Fixpoint ssorted (cs : list (K * tree)) : Prop :=
  match cs with [] => True | e :: r => klt (fp e) (map fst r) /\ ssorted r end.
Definition good (e : K * tree) : Prop := kle (fst e) (allkeys (snd e)) /\ ordered ltb (snd e).
Definition NOrd (cs : list (K * tree)) : Prop := Forall good cs /\ ssorted cs.

Lemma allkeys_node cs : allkeys (Node cs) = kkeys cs. Proof. reflexivity. Qed.
Lemma kkeys_app a b : kkeys (a ++ b) = kkeys a ++ kkeys b. Proof. apply flat_map_app. Qed.
Lemma kkeys_cons e b : kkeys (e :: b) = fp e ++ kkeys b. Proof. reflexivity. Qed.
Lemma seps_in_kkeys cs : incl (map fst cs) (kkeys cs).
Proof. induction cs as [|e r IH]; [apply incl_refl|]. simpl. intros y [<-|Hy]; [left; reflexivity|].
  right. apply in_app_iff. right. apply IH; exact Hy. Qed.
Lemma in_kkeys y cs : In y (kkeys cs) <-> exists e, In e cs /\ (y = fst e \/ In y (allkeys (snd e))).
Proof. unfold kkeys. rewrite in_flat_map. split; intros (e & He & H); exists e; split; auto.
  - destruct H as [H|H]; auto.
  - destruct H as [H|H]; [left; auto|right; auto]. Qed.

Lemma ssorted_app a b : ssorted (a ++ b) <-> ssorted a /\ ssorted b /\ klt (kkeys a) (map fst b).
Proof.
  induction a as [|e a IH].
  - simpl. split; [intros H; repeat split; auto; apply klt_nil_l|tauto].
  - rewrite <- app_comm_cons. cbn [ssorted]. rewrite IH, map_app, klt_app_r, kkeys_cons, klt_app_l. tauto.
Qed.

Lemma ordered_node_iff cs : ordered ltb (Node cs) <-> NOrd cs.
Proof.
  cbn [ordered]. unfold NOrd. induction cs as [|[s c] r IH].
  - simpl. split; auto.
  - cbn [map fst]. rewrite asc_cons_iff. cbn [seps_ok all_kids ssorted]. rewrite Forall_cons_iff.
    unfold good at 1, fp at 1. cbn [fst snd]. rewrite klt_cons_l. split.
    + intros ((Hlt & Ha) & (Hle & Hnext & Hs) & (Hoc & Hk)).
      destruct IH as [IH _]. destruct (IH (conj Ha (conj Hs Hk))) as [G S]. repeat split; auto.
      * intros y Hy. rewrite Forall_forall in Hle. apply Hle; exact Hy.
      * destruct r as [|[s' c'] r']; [apply klt_nil_r|].
        rewrite Forall_forall in Hnext. cbn [map fst] in *. apply klt_cons_r. split; [exact Hnext|].
        apply asc_cons_iff in Ha. destruct Ha as [Ha _].
        intros x y Hx Hy. eapply ltr; [apply Hnext; exact Hx|apply Ha; exact Hy].
    + intros (((Hle & Hoc) & G) & (Hlt & Hk) & S).
      destruct IH as [_ IH]. destruct (IH (conj G S)) as (Ha & Hs & Hkk). repeat split; auto.
      * apply Forall_forall. exact Hle.
      * destruct r as [|[s' c'] r']; [exact I|]. apply Forall_forall. intros x Hx. apply Hk; [exact Hx|left; reflexivity].
Qed.

Lemma NOrd_app a b : NOrd (a ++ b) <-> NOrd a /\ NOrd b /\ klt (kkeys a) (map fst b).
Proof. unfold NOrd. rewrite Forall_app, ssorted_app. tauto. Qed.

(* every footprint key of [a] is below every footprint key of [b] when it is below b's separators *)
Lemma kkeys_low a b : Forall good b -> klt a (map fst b) -> klt a (kkeys b).
Proof.
  intros G H x y Hx Hy. apply in_kkeys in Hy. destruct Hy as (e & He & Hy).
  assert (Hxe : ltb x (fst e) = true) by (apply H; [exact Hx|apply in_map; exact He]).
  destruct Hy as [->|Hy]; [exact Hxe|].
  rewrite Forall_forall in G. destruct (G e He) as [Gl _]. eapply llt_le; [exact Hxe|apply Gl; exact Hy].
Qed.

Lemma NOrd_head_low x cs : NOrd (x :: cs) -> kle (fst x) (kkeys (x :: cs)).
Proof.
  intros [G S]. inversion G as [|? ? Gx Gc]; subst. destruct S as [S1 S2].
  rewrite kkeys_cons. apply kle_app. split.
  - intros y [<-|Hy]; [apply lirr|]. apply Gx; exact Hy.
  - apply kle_of_lt. intros y Hy. apply (kkeys_low _ _ Gc S1); [left; reflexivity|exact Hy].
Qed.

(* replacing a segment by one whose footprint is included in the old one *)
Lemma NOrd_replace pre mid mid' post :
  NOrd (pre ++ mid ++ post) -> NOrd mid' -> incl (kkeys mid') (kkeys mid) -> NOrd (pre ++ mid' ++ post).
Proof.
  rewrite !NOrd_app, !map_app, !klt_app_r. intros (Hp & (Hm & Hq & Hmq) & Hpm & Hpq) Hm' Hi.
  repeat split; auto; try apply Hp; try apply Hm'; try apply Hq.
  - eapply klt_incl; [exact Hmq|exact Hi|apply incl_refl].
  - assert (X : klt (kkeys pre) (kkeys mid)) by (apply kkeys_low; [apply Hm|exact Hpm]).
    eapply klt_incl; [exact X|apply incl_refl|]. eapply incl_tran; [apply seps_in_kkeys|exact Hi].
Qed.

(* ---------- induction on trees (the generated principle ignores the nested occurrence) ---------- *)
Section TreeInd.
Variable P : tree -> Prop.
Hypothesis HL : forall es, P (Leaf es).
Hypothesis HN : forall cs, Forall (fun e => P (snd e)) cs -> P (Node cs).
Fixpoint tree_ind' (t : tree) : P t :=
  match t with
  | Leaf es => HL es
  | Node cs => HN cs ((fix go (cs : list (K * tree)) : Forall (fun e => P (snd e)) cs :=
       match cs with [] => Forall_nil _ | e :: r => Forall_cons e (tree_ind' (snd e)) (go r) end) cs)
  end.
End TreeInd.

Lemma entries_keys (t : tree) : incl (map fst (entries t)) (allkeys t).
Proof.
  induction t as [es|cs IH] using tree_ind'; [apply incl_refl|].
  cbn [entries allkeys]. induction IH as [|e r He _ IHr]; [apply incl_refl|].
  cbn [flat_map]. rewrite map_app. apply incl_app.
  - apply incl_tl. apply incl_appl. exact He.
  - apply incl_tl. apply incl_appr. exact IHr.
Qed.
Lemma entries_keys_kids (cs : list (K * tree)) : incl (map fst (flat_map ent cs)) (kkeys cs).
Proof. apply (entries_keys (Node cs)). Qed.

(* ---------- balance ---------- *)
Lemma bal_leaf d es : bal d (Leaf es : tree) <-> d = 0.
Proof. destruct d; simpl; split; auto; try discriminate; contradiction. Qed.
Lemma bal_leaf_any d es es' : bal d (Leaf es : tree) -> bal d (Leaf es' : tree).
Proof. rewrite !bal_leaf. auto. Qed.
Lemma bal_node d cs : bal d (Node cs : tree) <-> exists d', d = S d' /\ cs <> [] /\ Forall (fun e => bal d' (snd e)) cs.
Proof.
  destruct d as [|d]; cbn [bal].
  - split; [contradiction|intros (d' & E & _); discriminate].
  - rewrite all_kids_Forall. split.
    + intros [H1 H2]. exists d; auto.
    + intros (d' & E & H1 & H2). inversion E; subst. auto.
Qed.
Lemma bal_height d (t : tree) : bal d t -> height t = d.
Proof.
  revert d. induction t as [es|cs IH] using tree_ind'; intros d H.
  - apply bal_leaf in H. subst. reflexivity.
  - apply bal_node in H. destruct H as (d' & -> & Hne & Hk). cbn [height]. f_equal.
    induction cs as [|e r IHr]; [congruence|].
    inversion IH as [|? ? IHe IHr']; subst. inversion Hk as [|? ? Hke Hkr]; subst.
    cbn [fold_right]. rewrite (IHe _ Hke). destruct r as [|e' r'].
    + simpl. lia.
    + rewrite IHr; auto; [lia|discriminate].
Qed.

(* ---------- occupancy ---------- *)
Definition kids_occ (order : nat) (t : tree) : Prop :=
  match t with Leaf _ => True | Node cs => Forall (fun e => occ order false (snd e)) cs end.
Lemma occ_false_iff order (t : tree) :
  occ order false t <-> count t <= order /\ Nat.div2 order <= count t /\ kids_occ order t.
Proof. destruct t; cbn [occ kids_occ]; rewrite ?all_kids_Forall; tauto. Qed.
Lemma occ_true_iff order (t : tree) :
  occ order true t <-> count t <= order /\ match t with Leaf _ => True | Node _ => root_min order <= count t end /\ kids_occ order t.
Proof. destruct t; cbn [occ kids_occ]; rewrite ?all_kids_Forall; tauto. Qed.

Ltac splits0 := repeat match goal with |- _ /\ _ => split end.
Ltac splits := repeat match goal with |- _ /\ _ => split | |- ?x = ?x => reflexivity | |- True => exact I end.
Ltac inapp := repeat (progress (rewrite ?in_app_iff in *; cbn [In] in * )).

(* ====================================================================== *)
Section Ord.
Variable order : nat.
Hypothesis H4 : 4 <= order.
Notation m := (Nat.div2 order).
Notation kocc := (kids_occ order).
Notation occf := (fun e : K * tree => occ order false (snd e)).

(* the only arithmetic facts about the order that the proof uses; evenness is not needed *)
Lemma mm : m + m <= order.
Proof. generalize order. fix IH 1. intros [|[|n]]; simpl; try lia. specialize (IH n). lia. Qed.
Lemma m2 : 2 <= m.
Proof. assert (X : forall n, 4 <= n -> 2 <= Nat.div2 n) by (intros [|[|[|[|n]]]]; simpl; lia). apply X, H4. Qed.

(* ---------- absorb_right on two adjacent children ---------- *)
Lemma absorb_cases d sa (a : tree) sb (b : tree) :
  good (sa, a) -> good (sb, b) -> klt (allkeys a) [sb] -> bal d a -> bal d b -> kocc a -> kocc b ->
  exists t, absorb_right a b = Ok t /\ allkeys t = allkeys a ++ allkeys b /\ ordered ltb t /\
    entries t = entries a ++ entries b /\ bal d t /\ kocc t /\ count t = count a + count b.
Proof.
  intros [Ga Oa] [Gb Ob] Hlt Ba Bb Ka Kb. cbn [fst snd] in *.
  destruct a as [ea|ca], b as [eb|cb].
  - exists (Leaf (ea ++ eb)). cbn [absorb_right allkeys ordered entries count kids_occ] in *. splits.
    + apply map_app.
    + rewrite map_app. apply asc_app_iff. splits; auto.
      eapply klt_via; [|exact Gb]. intros x Hx. apply Hlt; [exact Hx|left; reflexivity].
    + apply bal_leaf. apply bal_leaf in Ba. exact Ba.
    + apply app_length.
  - apply bal_leaf in Ba. subst. contradiction.
  - apply bal_leaf in Bb. subst. contradiction.
  - exists (Node (ca ++ cb)). apply ordered_node_iff in Oa, Ob. rewrite allkeys_node in *.
    cbn [absorb_right entries count kids_occ] in *. splits.
    + rewrite allkeys_node. apply kkeys_app.
    + apply ordered_node_iff. apply NOrd_app. splits; try apply Oa; try apply Ob.
      eapply klt_via; [|eapply kle_incl; [exact Gb|apply seps_in_kkeys]].
      intros x Hx. apply Hlt; [exact Hx|left; reflexivity].
    + apply flat_map_app.
    + apply bal_node in Ba, Bb. destruct Ba as (d1 & E1 & N1 & F1). destruct Bb as (d2 & E2 & N2 & F2).
      apply bal_node. exists d1. subst d. inversion E2; subst d2. splits; auto.
      * destruct ca; [congruence|discriminate].
      * apply Forall_app; auto.
    + apply Forall_app; auto.
    + apply app_length.
Qed.

Lemma absorb_ok d sa (a : tree) sb (b : tree) :
  NOrd [(sa, a); (sb, b)] -> bal d a -> bal d b -> kocc a -> kocc b ->
  exists t, absorb_right a b = Ok t /\ NOrd [(sa, t)] /\ incl (kkeys [(sa, t)]) (kkeys [(sa, a); (sb, b)]) /\
    entries t = entries a ++ entries b /\ bal d t /\ kocc t /\ count t = count a + count b.
Proof.
  intros [G S] Ba Bb Ka Kb.
  inversion G as [|? ? Ga G']; subst. inversion G' as [|? ? Gb _]; subst. destruct S as (S1 & _).
  unfold fp in S1. cbn [map fst snd] in S1. apply klt_cons_l in S1. destruct S1 as [Hss Hlt].
  destruct (absorb_cases d sa a sb b Ga Gb Hlt Ba Bb Ka Kb) as (t & E & Hall & Ot & Hent & Bt & Kt & Ct).
  exists t. splits; auto.
  - split; [|cbn; split; [apply klt_nil_r|exact I]].
    constructor; [|constructor]. split; cbn [fst snd]; [|exact Ot]. rewrite Hall. apply kle_app. split; [apply Ga|].
    eapply kle_lower; [|apply Gb]. apply Hss. left; reflexivity.
  - unfold kkeys, fp. cbn [flat_map fst snd]. rewrite Hall. intros y Hy. inapp. tauto.
Qed.

(* ---------- adopt_from_right ---------- *)
Lemma adoptR_cases d (c : tree) sr (r : tree) :
  ordered ltb c -> good (sr, r) -> klt (allkeys c) [sr] -> bal d c -> bal d r -> kocc c -> kocc r -> 2 <= count r ->
  exists c' r' rs xk, adopt_from_right c r = Ok (c', r') /\ smallest r' = Ok rs /\
    allkeys c' = allkeys c ++ xk /\ allkeys r = xk ++ allkeys r' /\ ordered ltb c' /\ ordered ltb r' /\
    kle rs (allkeys r') /\ In rs (allkeys r') /\ klt xk [rs] /\
    entries c' ++ entries r' = entries c ++ entries r /\ bal d c' /\ bal d r' /\ kocc c' /\ kocc r' /\
    count c' = S (count c) /\ S (count r') = count r.
Proof.
  intros Oc [Gr Or] Hlt Bc Br Kc Kr Hcnt. cbn [fst snd] in *.
  assert (Hsr : forall x, In x (allkeys c) -> ltb x sr = true) by (intros x Hx; apply Hlt; [exact Hx|left; reflexivity]).
  destruct c as [ec|cc], r as [er|cr].
  - destruct er as [|x er]; [cbn in Hcnt; lia|]. destruct er as [|[k2 v2] er]; [cbn in Hcnt; lia|].
    exists (Leaf (ec ++ [x])), (Leaf ((k2, v2) :: er)), k2, [fst x].
    cbn [adopt_from_right smallest allkeys ordered entries count kids_occ map fst] in *.
    splits; auto; try (eapply bal_leaf_any; eassumption).
    + apply map_app.
    + rewrite map_app. apply asc_app_iff. splits; auto.
      eapply klt_via; [exact Hsr|]. eapply kle_incl; [exact Gr|]. intros y [<-|[]]. left; reflexivity.
    + eapply asc_cons_inv; exact Or.
    + apply asc_head_low. eapply asc_cons_inv; exact Or.
    + left; reflexivity.
    + intros a b [<-|[]] [<-|[]]. apply Or.
    + rewrite <- app_assoc. reflexivity.
    + rewrite app_length. simpl. lia.
  - apply bal_leaf in Bc. subst. contradiction.
  - apply bal_leaf in Br. subst. contradiction.
  - destruct cr as [|x cr]; [cbn in Hcnt; lia|]. destruct cr as [|x2 cr]; [cbn in Hcnt; lia|].
    exists (Node (cc ++ [x])), (Node (x2 :: cr)), (fst x2), (fp x).
    apply ordered_node_iff in Oc, Or. rewrite allkeys_node in *.
    change (x :: x2 :: cr) with ([x] ++ x2 :: cr) in Or. apply NOrd_app in Or. destruct Or as (Ox & Or' & Hx2).
    cbn [adopt_from_right entries count kids_occ] in *.
    splits0.
    + reflexivity.
    + destruct x2; reflexivity.
    + rewrite allkeys_node, kkeys_app. cbn. rewrite app_nil_r. reflexivity.
    + reflexivity.
    + apply ordered_node_iff. apply NOrd_app. splits; try apply Oc; try apply Ox.
      eapply klt_via; [exact Hsr|]. eapply kle_incl; [exact Gr|]. intros y [<-|[]]. left; reflexivity.
    + apply ordered_node_iff. exact Or'.
    + rewrite allkeys_node. apply NOrd_head_low. exact Or'.
    + left; reflexivity.
    + cbn [kkeys flat_map] in Hx2. rewrite app_nil_r in Hx2. cbn [map] in Hx2. apply klt_cons_r in Hx2. 
      intros a b Ha [<-|[]]. apply (proj1 Hx2); exact Ha.
    + rewrite flat_map_app. cbn [flat_map]. rewrite app_nil_r, <- app_assoc. reflexivity.
    + apply bal_node in Bc, Br. destruct Bc as (d1 & E1 & N1 & F1). destruct Br as (d2 & E2 & N2 & F2).
      apply bal_node. exists d1. subst d. inversion E2; subst d2. splits; auto.
      * destruct cc; discriminate.
      * apply Forall_app. split; auto. inversion F2; subst. constructor; auto.
    + apply bal_node in Br. destruct Br as (d2 & E2 & N2 & F2). apply bal_node. exists d2. splits; auto.
      * discriminate.
      * inversion F2; subst; auto.
    + apply Forall_app. split; auto. inversion Kr; subst. constructor; auto.
    + inversion Kr; subst; auto.
    + rewrite app_length. simpl. lia.
    + reflexivity.
Qed.

Lemma adoptR_ok d s (c : tree) sr (r : tree) :
  NOrd [(s, c); (sr, r)] -> bal d c -> bal d r -> kocc c -> kocc r ->
  S (count c) = m -> m < count r -> count r <= order ->
  exists c' r' rs, adopt_from_right c r = Ok (c', r') /\ smallest r' = Ok rs /\
    NOrd [(s, c'); (rs, r')] /\ incl (kkeys [(s, c'); (rs, r')]) (kkeys [(s, c); (sr, r)]) /\
    entries c' ++ entries r' = entries c ++ entries r /\ bal d c' /\ bal d r' /\
    occ order false c' /\ occ order false r'.
Proof.
  intros [G S] Bc Br Kc Kr Hc Hr Hro. pose proof m2 as Hm2. pose proof mm as Hmm.
  inversion G as [|? ? Gc G']; subst. inversion G' as [|? ? Gr _]; subst. destruct S as (S1 & _).
  unfold fp in S1. cbn [map fst snd] in S1. apply klt_cons_l in S1. destruct S1 as [Hss Hlt].
  assert (Hcr : 2 <= count r) by lia.
  destruct (adoptR_cases d c sr r (proj2 Gc) Gr Hlt Bc Br Kc Kr Hcr)
    as (c' & r' & rs & xk & E1 & E2 & A1 & A2 & O1 & O2 & L1 & I1 & X1 & En & B1 & B2 & K1 & K2 & C1 & C2).
  destruct Gc as [Gc Oc]. destruct Gr as [Gr Or]. cbn [fst snd] in *.
  exists c', r', rs.
  assert (Hs_sr : ltb s sr = true) by (apply Hss; left; reflexivity).
  assert (Hsr_rs : ltb rs sr = false). { apply Gr. rewrite A2. apply in_app_iff. right. exact I1. }
  splits0; auto.
  - split.
    + constructor; [|constructor; [|constructor]]; split; cbn [fst snd]; auto.
      rewrite A1. apply kle_app. split; [apply Gc|]. eapply kle_lower; [exact Hs_sr|].
      eapply kle_incl; [apply Gr|]. rewrite A2. apply incl_appl, incl_refl.
    + cbn [ssorted]. splits0; try exact I; try apply klt_nil_r. unfold fp; cbn [map fst snd]. rewrite A1.
      apply klt_cons_l. split.
      * intros y [<-|[]]. eapply llt_le; eauto.
      * apply klt_app_l. split; [|exact X1]. intros x y Hx [<-|[]].
        eapply llt_le; [apply Hlt; [exact Hx|left; reflexivity]|exact Hsr_rs].
  - unfold kkeys, fp. cbn [flat_map fst snd]. rewrite A1, A2. intros y Hy. inapp.
    repeat match goal with H : _ \/ _ |- _ => destruct H end; try contradiction; try subst y; tauto.
  - apply occ_false_iff. splits0; auto; lia.
  - apply occ_false_iff. splits0; auto; lia.
Qed.

(* ---------- adopt_from_left ---------- *)
Lemma adoptL_cases d sl (l : tree) s (c : tree) :
  good (sl, l) -> good (s, c) -> klt (allkeys l) [s] -> bal d l -> bal d c -> kocc l -> kocc c -> 2 <= count l ->
  exists l' c' sm xk, adopt_from_left l c = Ok (l', c') /\ smallest c' = Ok sm /\
    allkeys l = allkeys l' ++ xk /\ allkeys c' = xk ++ allkeys c /\ ordered ltb l' /\ ordered ltb c' /\
    In sm xk /\ kle sm xk /\ klt (allkeys l') [sm] /\ (exists k0, In k0 (allkeys l')) /\
    entries l' ++ entries c' = entries l ++ entries c /\ bal d l' /\ bal d c' /\ kocc l' /\ kocc c' /\
    S (count l') = count l /\ count c' = S (count c).
Proof.
  intros [Gl Ol] [Gc Oc] Hlt Bl Bc Kl Kc Hcnt. cbn [fst snd] in *.
  assert (Hs : forall x, In x (allkeys l) -> ltb x s = true) by (intros x Hx; apply Hlt; [exact Hx|left; reflexivity]).
  destruct l as [el|cl], c as [ec|cc].
  - destruct (rev el) as [|x el'] eqn:E.
    { cbn [count] in Hcnt. rewrite <- rev_length, E in Hcnt. simpl in Hcnt. lia. }
    assert (Ead : adopt_from_left (Leaf el : tree) (Leaf ec) = Ok (Leaf (rev el'), Leaf (x :: ec))).
    { cbn [adopt_from_left]. rewrite E. reflexivity. }
    apply rev_cons_inv in E. subst el. set (l0 := rev el') in *. clearbody l0.
    exists (Leaf l0), (Leaf (x :: ec)), (fst x), [fst x].
    cbn [allkeys ordered entries count kids_occ map] in *. rewrite map_app in *. cbn [map] in *.
    apply asc_app_iff in Ol. destruct Ol as (Ol0 & _ & Ol1).
    splits0; auto; try (eapply bal_leaf_any; eassumption).
    + destruct x; reflexivity.
    + apply asc_cons_iff. split; [|exact Oc]. intros y Hy. eapply llt_le; [|apply Gc; exact Hy].
      apply Hs. apply in_app_iff. right. left. reflexivity.
    + left; reflexivity.
    + intros y [<-|[]]. apply lirr.
    + destruct l0 as [|e0 l0]; [simpl in Hcnt; lia|]. exists (fst e0). left. reflexivity.
    + rewrite <- app_assoc. reflexivity.
    + rewrite app_length. simpl. lia.
  - apply bal_leaf in Bl. subst. contradiction.
  - apply bal_leaf in Bc. subst. contradiction.
  - destruct (rev cl) as [|x cl'] eqn:E.
    { cbn [count] in Hcnt. rewrite <- rev_length, E in Hcnt. simpl in Hcnt. lia. }
    assert (Ead : adopt_from_left (Node cl : tree) (Node cc) = Ok (Node (rev cl'), Node (x :: cc))).
    { cbn [adopt_from_left]. rewrite E. reflexivity. }
    apply rev_cons_inv in E. subst cl. set (l0 := rev cl') in *. clearbody l0.
    exists (Node l0), (Node (x :: cc)), (fst x), (fp x).
    apply ordered_node_iff in Ol, Oc. rewrite allkeys_node in *.
    apply NOrd_app in Ol. destruct Ol as (Ol0 & Ox & Ol1).
    rewrite kkeys_app in *. cbn [kkeys flat_map] in Gl, Hs, Hlt. rewrite app_nil_r in Gl, Hs, Hlt.
    cbn [entries count kids_occ] in *.
    apply bal_node in Bl, Bc. destruct Bl as (d1 & E1 & N1 & F1). destruct Bc as (d2 & E2 & N2 & F2).
    subst d. inversion E2; subst d2. apply Forall_app in F1. destruct F1 as [F1 F1x].
    apply Forall_app in Kl. destruct Kl as [Kl Klx].
    assert (Hl0 : l0 <> []). { destruct l0; [simpl in Hcnt; lia|discriminate]. }
    splits0; auto.
    + destruct x; reflexivity.
    + cbn [kkeys flat_map]. rewrite app_nil_r. reflexivity.
    + apply ordered_node_iff. exact Ol0.
    + apply ordered_node_iff. change (x :: cc) with ([x] ++ cc). apply NOrd_app. splits0; auto.
      cbn [kkeys flat_map]. rewrite app_nil_r. eapply klt_via.
      * intros y Hy. apply Hs. apply in_app_iff. right. exact Hy.
      * eapply kle_incl; [exact Gc|apply seps_in_kkeys].
    + left; reflexivity.
    + destruct Ox as [Gx _]. inversion Gx as [|? ? [Gx' _] _]; subst.
      intros y [<-|Hy]; [apply lirr|apply Gx'; exact Hy].
    + destruct l0 as [|e0 l0]; [congruence|]. exists (fst e0). left. reflexivity.
    + rewrite flat_map_app. cbn [flat_map]. rewrite app_nil_r, <- app_assoc. reflexivity.
    + apply bal_node. exists d1. auto.
    + apply bal_node. exists d1. splits0; auto; [discriminate|]. inversion F1x; subst. constructor; auto.
    + inversion Klx; subst. constructor; auto.
    + rewrite app_length. simpl. lia.
Qed.

Lemma adoptL_ok d sl (l : tree) s (c : tree) :
  NOrd [(sl, l); (s, c)] -> bal d l -> bal d c -> kocc l -> kocc c ->
  S (count c) = m -> m < count l -> count l <= order ->
  exists l' c' sm, adopt_from_left l c = Ok (l', c') /\ smallest c' = Ok sm /\
    NOrd [(sl, l'); (sm, c')] /\ incl (kkeys [(sl, l'); (sm, c')]) (kkeys [(sl, l); (s, c)]) /\
    entries l' ++ entries c' = entries l ++ entries c /\ bal d l' /\ bal d c' /\
    occ order false l' /\ occ order false c'.
Proof.
  intros [G S] Bl Bc Kl Kc Hc Hl Hlo. pose proof m2 as Hm2. pose proof mm as Hmm.
  inversion G as [|? ? Gl G']; subst. inversion G' as [|? ? Gc _]; subst. destruct S as (S1 & _).
  unfold fp in S1. cbn [map fst snd] in S1. apply klt_cons_l in S1. destruct S1 as [Hss Hlt].
  assert (Hcl : 2 <= count l) by lia.
  destruct (adoptL_cases d sl l s c Gl Gc Hlt Bl Bc Kl Kc Hcl)
    as (l' & c' & sm & xk & E1 & E2 & A1 & A2 & O1 & O2 & I1 & L1 & X1 & (k0 & Hk0) & En & B1 & B2 & K1 & K2 & C1 & C2).
  destruct Gl as [Gl Ol]. destruct Gc as [Gc Oc]. cbn [fst snd] in *.
  exists l', c', sm.
  assert (Hsm_s : ltb sm s = true). { apply Hlt; [|left; reflexivity]. rewrite A1. apply in_app_iff. right. exact I1. }
  splits0; auto.
  - split.
    + constructor; [|constructor; [|constructor]]; split; cbn [fst snd]; auto.
      * eapply kle_incl; [exact Gl|]. rewrite A1. apply incl_appl, incl_refl.
      * rewrite A2. apply kle_app. split; [exact L1|]. eapply kle_lower; [exact Hsm_s|exact Gc].
    + cbn [ssorted]. splits0; try exact I; try apply klt_nil_r. unfold fp; cbn [map fst snd].
      apply klt_cons_l. split; [|exact X1].
      intros y [<-|[]]. apply (lle_lt sl k0 sm).
      * apply Gl. rewrite A1. apply in_app_iff. left. exact Hk0.
      * apply X1; [exact Hk0|left; reflexivity].
  - unfold kkeys, fp. cbn [flat_map fst snd]. rewrite A1, A2. intros y Hy. inapp.
    repeat match goal with H : _ \/ _ |- _ => destruct H end; try contradiction; try subst y; tauto.
  - apply occ_false_iff. splits0; auto; lia.
  - apply occ_false_iff. splits0; auto; lia.
Qed.

(* ---------- rebalance: evaluation in each of the four successful cases ---------- *)
Notation bald d := (fun e : K * tree => bal d (snd e)).

Lemma reb_adoptR pre s (c : tree) sr (r : tree) post c' r' rs :
  (m <? count r) = true -> adopt_from_right c r = Ok (c', r') -> smallest r' = Ok rs ->
  rebalance m (length pre) (pre ++ (s, c) :: (sr, r) :: post) = Ok (pre ++ (s, c') :: (rs, r') :: post, false).
Proof.
  intros Hr Ea Es. unfold rebalance.
  rewrite get_nth_mid by reflexivity. cbn [bind].
  assert (Hhr : (length pre + 1 <? length (pre ++ (s, c) :: (sr, r) :: post)) = true)
    by (apply Nat.ltb_lt; rewrite app_length; simpl; lia).
  assert (Hnr : nth_error (pre ++ (s, c) :: (sr, r) :: post) (length pre + 1) = Some (sr, r)).
  { rewrite app_cons_snoc. apply nth_error_mid. rewrite app_length; simpl; lia. }
  rewrite Hhr, Hnr, Hr. cbn [andb]. unfold get_nth. rewrite Hnr. cbn [bind]. rewrite Ea. cbn [bind].
  rewrite Es. cbn [bind]. rewrite set_child_mid by reflexivity.
  rewrite (app_cons_snoc pre (s, c')). rewrite set_nth_mid by (rewrite app_length; simpl; lia).
  rewrite <- app_cons_snoc. reflexivity.
Qed.

Definition no_lend (post : list (K * tree)) : Prop :=
  match post with (_, r) :: _ => (m <? count r) = false | [] => True end.

Lemma reb_cond1 pre (x y : K * tree) post :
  no_lend post ->
  let cs := pre ++ x :: y :: post in
  let i := S (length pre) in
  ((i + 1 <? length cs) &&
   (m <? (if i + 1 <? length cs then match nth_error cs (i + 1) with Some (_, r) => count r | None => 0 end else 0))) = false.
Proof.
  intros Hp cs i. subst cs i. destruct post as [|[sr r] post].
  - replace (S (length pre) + 1 <? length (pre ++ [x; y])) with false; [reflexivity|].
    symmetry. apply Nat.ltb_ge. rewrite app_length. simpl. lia.
  - replace (S (length pre) + 1 <? length (pre ++ x :: y :: (sr, r) :: post)) with true
      by (symmetry; apply Nat.ltb_lt; rewrite app_length; simpl; lia).
    replace (nth_error (pre ++ x :: y :: (sr, r) :: post) (S (length pre) + 1)) with (Some (sr, r)).
    { cbn [andb]. exact Hp. }
    symmetry. rewrite (app_cons_snoc pre), (app_cons_snoc (pre ++ [x])). apply nth_error_mid.
    rewrite !app_length. simpl. lia.
Qed.

Lemma reb_adoptL pre sl (l : tree) s (c : tree) post l' c' sm :
  no_lend post -> (m <? count l) = true -> adopt_from_left l c = Ok (l', c') -> smallest c' = Ok sm ->
  rebalance m (S (length pre)) (pre ++ (sl, l) :: (s, c) :: post) = Ok (pre ++ (sl, l') :: (sm, c') :: post, false).
Proof.
  intros Hp Hl Ea Es. unfold rebalance.
  replace (S (length pre) - 1) with (length pre) by lia.
  assert (Hg : get_nth (S (length pre)) (pre ++ (sl, l) :: (s, c) :: post) = Ok (s, c)).
  { rewrite app_cons_snoc. apply get_nth_mid. rewrite app_length. simpl. lia. }
  assert (Hnl : nth_error (pre ++ (sl, l) :: (s, c) :: post) (length pre) = Some (sl, l)) by (apply nth_error_mid; reflexivity).
  rewrite Hg. cbn [bind]. rewrite (reb_cond1 pre (sl, l) (s, c) post Hp).
  change (0 <? S (length pre)) with true. rewrite Hnl, Hl. cbn [andb]. unfold get_nth. rewrite Hnl. cbn [bind].
  rewrite Ea. cbn [bind]. rewrite Es. cbn [bind]. rewrite set_child_mid by reflexivity.
  rewrite (app_cons_snoc pre (sl, l')). rewrite set_nth_mid by (rewrite app_length; simpl; lia).
  rewrite <- app_cons_snoc. reflexivity.
Qed.

Lemma reb_absorbL pre sl (l : tree) s (c : tree) post t :
  no_lend post -> (m <? count l) = false -> (0 <? count l) = true -> absorb_right l c = Ok t ->
  rebalance m (S (length pre)) (pre ++ (sl, l) :: (s, c) :: post) =
    Ok (pre ++ (sl, t) :: post, length (pre ++ (sl, t) :: post) <? m).
Proof.
  intros Hp Hl Hl0 Ea. unfold rebalance.
  replace (S (length pre) - 1) with (length pre) by lia.
  assert (Hg : get_nth (S (length pre)) (pre ++ (sl, l) :: (s, c) :: post) = Ok (s, c)).
  { rewrite app_cons_snoc. apply get_nth_mid. rewrite app_length. simpl. lia. }
  assert (Hnl : nth_error (pre ++ (sl, l) :: (s, c) :: post) (length pre) = Some (sl, l)) by (apply nth_error_mid; reflexivity).
  rewrite Hg. cbn [bind]. rewrite (reb_cond1 pre (sl, l) (s, c) post Hp).
  change (0 <? S (length pre)) with true. rewrite Hnl, Hl, Hl0. cbn [andb]. unfold get_nth. rewrite Hnl. cbn [bind].
  rewrite Ea. cbn [bind]. rewrite set_child_mid by reflexivity.
  rewrite (app_cons_snoc pre (sl, t)). rewrite del_nth_mid by (rewrite app_length; simpl; lia).
  rewrite <- app_cons_snoc. reflexivity.
Qed.

Lemma reb_absorbR s (c : tree) sr (r : tree) post t :
  (m <? count r) = false -> (count r =? 0) = false -> absorb_right c r = Ok t ->
  rebalance m 0 ((s, c) :: (sr, r) :: post) = Ok ((s, t) :: post, length ((s, t) :: post) <? m).
Proof.
  intros Hr Hr0 Ea. unfold rebalance, get_nth. cbn [nth_error bind Nat.add].
  change (0 <? 0) with false. cbn [andb].
  change (1 <? length ((s, c) :: (sr, r) :: post)) with true. cbn [andb]. rewrite Hr. cbn [andb].
  change (0 <? 0) with false. rewrite Hr0. cbn [bind]. rewrite Ea. cbn [bind]. reflexivity.
Qed.

(* ---------- rebalance: the result ---------- *)
Lemma Forall_mid {A} (P : A -> Prop) pre mid post : Forall P (pre ++ mid ++ post) -> Forall P mid.
Proof. rewrite !Forall_app. tauto. Qed.
Lemma NOrd_mid pre mid post : NOrd (pre ++ mid ++ post) -> NOrd mid.
Proof. rewrite !NOrd_app. tauto. Qed.

Lemma seg_replace d pre mid mid' post :
  NOrd (pre ++ mid ++ post) -> Forall (bald d) (pre ++ mid ++ post) -> Forall occf pre -> Forall occf post ->
  NOrd mid' -> incl (kkeys mid') (kkeys mid) -> flat_map ent mid' = flat_map ent mid ->
  Forall (bald d) mid' -> Forall occf mid' ->
  flat_map ent (pre ++ mid' ++ post) = flat_map ent (pre ++ mid ++ post) /\
  NOrd (pre ++ mid' ++ post) /\ Forall (bald d) (pre ++ mid' ++ post) /\ Forall occf (pre ++ mid' ++ post) /\
  incl (kkeys (pre ++ mid' ++ post)) (kkeys (pre ++ mid ++ post)).
Proof.
  intros HN HB Hpre Hpost HN' Hi He HB' Ho. splits0.
  - rewrite !flat_map_app, He. reflexivity.
  - eapply NOrd_replace; eauto.
  - rewrite !Forall_app in *. tauto.
  - rewrite !Forall_app. tauto.
  - rewrite !kkeys_app. apply incl_app; [apply incl_appl, incl_refl|]. apply incl_appr.
    apply incl_app; [apply incl_appl; exact Hi|apply incl_appr, incl_refl].
Qed.

Definition reb_post d (cs1 : list (K * tree)) (res : list (K * tree) * bool) : Prop :=
  flat_map ent (fst res) = flat_map ent cs1 /\ NOrd (fst res) /\ Forall (bald d) (fst res) /\
  Forall occf (fst res) /\ incl (kkeys (fst res)) (kkeys cs1) /\
  (length (fst res) = length cs1 \/ S (length (fst res)) = length cs1) /\
  (snd res = (length (fst res) <? m) \/ (snd res = false /\ length (fst res) = length cs1)).

Lemma rebalance_right d pre s (c : tree) sr (r : tree) post :
  NOrd (pre ++ (s, c) :: (sr, r) :: post) -> Forall (bald d) (pre ++ (s, c) :: (sr, r) :: post) ->
  Forall occf pre -> occ order false r -> Forall occf post -> S (count c) = m -> kocc c ->
  (m <? count r) = true ->
  exists res, rebalance m (length pre) (pre ++ (s, c) :: (sr, r) :: post) = Ok res /\
              reb_post d (pre ++ (s, c) :: (sr, r) :: post) res.
Proof.
  intros HN HB Hpre Hr Hpost Hc Kc Er.
  change (pre ++ (s, c) :: (sr, r) :: post) with (pre ++ [(s, c); (sr, r)] ++ post) in HN, HB.
  pose proof (NOrd_mid _ _ _ HN) as HNm. pose proof (Forall_mid _ _ _ _ HB) as HBm.
  inversion HBm as [|? ? Bc HBm']; subst. inversion HBm' as [|? ? Br _]; subst. cbn [snd] in *.
  apply occ_false_iff in Hr. destruct Hr as (Hr1 & Hr2 & Kr).
  pose proof (proj1 (Nat.ltb_lt _ _) Er) as Er'.
  destruct (adoptR_ok d s c sr r HNm Bc Br Kc Kr Hc Er' Hr1)
    as (c' & r' & rs & Ea & Es & HN' & Hi & He & Bc' & Br' & Oc' & Or').
  exists (pre ++ (s, c') :: (rs, r') :: post, false). split.
  - apply reb_adoptR; auto.
  - destruct (seg_replace d pre [(s, c); (sr, r)] [(s, c'); (rs, r')] post HN HB Hpre Hpost HN' Hi)
      as (R1 & R2 & R3 & R4 & R5).
    + cbn [flat_map]. rewrite !app_nil_r. exact He.
    + repeat constructor; auto.
    + repeat constructor; auto.
    + unfold reb_post. cbn [fst snd]. splits0.
      * exact R1. * exact R2. * exact R3. * exact R4. * exact R5.
      * left. rewrite !app_length. reflexivity.
      * right. split; auto. rewrite !app_length; reflexivity.
Qed.

Lemma rebalance_left d pre sl (l : tree) s (c : tree) post :
  NOrd (pre ++ (sl, l) :: (s, c) :: post) -> Forall (bald d) (pre ++ (sl, l) :: (s, c) :: post) ->
  Forall occf pre -> occ order false l -> Forall occf post -> S (count c) = m -> kocc c ->
  no_lend post ->
  exists res, rebalance m (S (length pre)) (pre ++ (sl, l) :: (s, c) :: post) = Ok res /\
              reb_post d (pre ++ (sl, l) :: (s, c) :: post) res.
Proof.
  intros HN HB Hpre Hl Hpost Hc Kc Hnl. pose proof m2 as Hm2. pose proof mm as Hmm.
  change (pre ++ (sl, l) :: (s, c) :: post) with (pre ++ [(sl, l); (s, c)] ++ post) in HN, HB.
  pose proof (NOrd_mid _ _ _ HN) as HNm. pose proof (Forall_mid _ _ _ _ HB) as HBm.
  inversion HBm as [|? ? Bl HBm']; subst. inversion HBm' as [|? ? Bc _]; subst. cbn [snd] in *.
  apply occ_false_iff in Hl. destruct Hl as (Hl1 & Hl2 & Kl).
  destruct (m <? count l) eqn:El.
  - pose proof (proj1 (Nat.ltb_lt _ _) El) as El'.
    destruct (adoptL_ok d sl l s c HNm Bl Bc Kl Kc Hc El' Hl1)
      as (l' & c' & sm & Ea & Es & HN' & Hi & He & Bl' & Bc' & Ol' & Oc').
    exists (pre ++ (sl, l') :: (sm, c') :: post, false). split.
    + apply reb_adoptL; auto.
    + destruct (seg_replace d pre [(sl, l); (s, c)] [(sl, l'); (sm, c')] post HN HB Hpre Hpost HN' Hi)
        as (R1 & R2 & R3 & R4 & R5).
      * cbn [flat_map]. rewrite !app_nil_r. exact He.
      * repeat constructor; auto.
      * repeat constructor; auto.
      * unfold reb_post. cbn [fst snd]. splits0.
        -- exact R1. -- exact R2. -- exact R3. -- exact R4. -- exact R5.
        -- left. rewrite !app_length. reflexivity.
        -- right. split; auto. rewrite !app_length; reflexivity.
  - pose proof (proj1 (Nat.ltb_ge _ _) El) as El'.
    destruct (absorb_ok d sl l s c HNm Bl Bc Kl Kc) as (t & Ea & HN' & Hi & He & Bt & Kt & Ct).
    exists (pre ++ (sl, t) :: post, length (pre ++ (sl, t) :: post) <? m). split.
    + apply reb_absorbL; auto. apply Nat.ltb_lt. lia.
    + destruct (seg_replace d pre [(sl, l); (s, c)] [(sl, t)] post HN HB Hpre Hpost HN' Hi)
        as (R1 & R2 & R3 & R4 & R5).
      * cbn [flat_map]. rewrite !app_nil_r. exact He.
      * repeat constructor; auto.
      * repeat constructor. cbn [snd]. apply occ_false_iff. splits0; auto; lia.
      * unfold reb_post. cbn [fst snd]. splits0.
        -- exact R1. -- exact R2. -- exact R3. -- exact R4. -- exact R5.
        -- right. rewrite !app_length. simpl. lia.
        -- left. reflexivity.
Qed.

Lemma rebalance_first d s (c : tree) sr (r : tree) post :
  NOrd ((s, c) :: (sr, r) :: post) -> Forall (bald d) ((s, c) :: (sr, r) :: post) ->
  occ order false r -> Forall occf post -> S (count c) = m -> kocc c ->
  (m <? count r) = false ->
  exists res, rebalance m 0 ((s, c) :: (sr, r) :: post) = Ok res /\
              reb_post d ((s, c) :: (sr, r) :: post) res.
Proof.
  intros HN HB Hr Hpost Hc Kc Er. pose proof m2 as Hm2. pose proof mm as Hmm.
  change ((s, c) :: (sr, r) :: post) with ([] ++ [(s, c); (sr, r)] ++ post) in HN, HB.
  pose proof (NOrd_mid _ _ _ HN) as HNm. pose proof (Forall_mid _ _ _ _ HB) as HBm.
  inversion HBm as [|? ? Bc HBm']; subst. inversion HBm' as [|? ? Br _]; subst. cbn [snd] in *.
  apply occ_false_iff in Hr. destruct Hr as (Hr1 & Hr2 & Kr).
  pose proof (proj1 (Nat.ltb_ge _ _) Er) as Er'.
  destruct (absorb_ok d s c sr r HNm Bc Br Kc Kr) as (t & Ea & HN' & Hi & He & Bt & Kt & Ct).
  exists ((s, t) :: post, length ((s, t) :: post) <? m). split.
  - apply reb_absorbR; auto. apply Nat.eqb_neq. lia.
  - destruct (seg_replace d [] [(s, c); (sr, r)] [(s, t)] post HN HB (Forall_nil _) Hpost HN' Hi)
      as (R1 & R2 & R3 & R4 & R5).
    + cbn [flat_map]. rewrite !app_nil_r. exact He.
    + repeat constructor; auto.
    + repeat constructor. cbn [snd]. apply occ_false_iff. splits0; auto; lia.
    + unfold reb_post. cbn [fst snd]. splits0.
      * exact R1. * exact R2. * exact R3. * exact R4. * exact R5.
      * right. reflexivity.
      * left. reflexivity.
Qed.

Lemma rebalance_ok d pre s (c : tree) post :
  NOrd (pre ++ (s, c) :: post) -> Forall (bald d) (pre ++ (s, c) :: post) ->
  Forall occf pre -> Forall occf post -> S (count c) = m -> kocc c ->
  2 <= length (pre ++ (s, c) :: post) ->
  exists res, rebalance m (length pre) (pre ++ (s, c) :: post) = Ok res /\
              reb_post d (pre ++ (s, c) :: post) res.
Proof.
  intros HN HB Hpre Hpost Hc Kc Hlen.
  assert (Hleft : forall pre' sl l, pre = pre' ++ [(sl, l)] -> no_lend post ->
     exists res, rebalance m (length pre) (pre ++ (s, c) :: post) = Ok res /\
              reb_post d (pre ++ (s, c) :: post) res).
  { intros pre' sl l -> Hnl.
    assert (E1 : (pre' ++ [(sl, l)]) ++ (s, c) :: post = pre' ++ (sl, l) :: (s, c) :: post)
      by (rewrite <- app_assoc; reflexivity).
    assert (E2 : length (pre' ++ [(sl, l)]) = S (length pre')) by (rewrite app_length; simpl; lia).
    rewrite E1 in *. rewrite E2. apply Forall_app in Hpre. destruct Hpre as [Hpre Hl].
    inversion Hl; subst. apply rebalance_left; auto. }
  destruct post as [|[sr r] post].
  - destruct (snoc_cases pre) as [->|(pre' & [sl l] & E)].
    + simpl in Hlen. lia.
    + eapply Hleft; [exact E|exact I].
  - inversion Hpost as [|? ? Hr Hpost']; subst. cbn [snd] in Hr.
    destruct (m <? count r) eqn:Er.
    + apply rebalance_right; auto.
    + destruct (snoc_cases pre) as [->|(pre' & [sl l] & E)].
      * apply rebalance_first; auto.
      * eapply Hleft; [exact E|exact Er].
Qed.

(* ---------- the leaf step ---------- *)
Lemma leaf_delete_ok k (es : list (K * V)) :
  asc ltb (map fst es) ->
  exists es' small, leaf_delete ltb m k es = Ok (es', small) /\ es' = erase ltb k es /\
    asc ltb (map fst es') /\ incl (map fst es') (map fst es) /\
    (length es' = length es \/ S (length es') = length es) /\
    (small = (length es' <? m) \/ (small = false /\ length es' = length es)).
Proof.
  intros Ha. destruct es as [|e0 es0].
  - exists [], false. splits0; auto. apply incl_refl.
  - remember (e0 :: es0) as es eqn:Ees. assert (Hne : es <> []) by (subst; discriminate). clear Ees.
    destruct (search_ge_split K ltb HS k es Ha Hne) as (index & pre & k0 & v & post & Hs & -> & Hlen & Hpre & Hd).
    rewrite Forall_forall in Hpre.
    unfold leaf_delete. rewrite Hs. cbn [bind]. rewrite nth_error_mid by auto.
    rewrite map_app in Ha. cbn [map fst] in Ha. apply asc_app_iff in Ha. destruct Ha as (Ha1 & Ha2 & Ha3).
    destruct (eqvb ltb k k0) eqn:Eq.
    + unfold eqvb in Eq. apply andb_true_iff in Eq. destruct Eq as [Eq1 Eq2].
      apply negb_true_iff in Eq1, Eq2. cbv zeta. rewrite del_nth_mid by auto.
      exists (pre ++ post), (length (pre ++ post) <? m). splits0; auto.
      * rewrite erase_app_lt by exact Hpre. cbn [erase]. rewrite Eq1, Eq2. reflexivity.
      * rewrite map_app. apply asc_app_iff. splits0; auto.
        -- eapply asc_cons_inv; exact Ha2.
        -- apply klt_cons_r in Ha3. apply Ha3.
      * rewrite !map_app. apply incl_app; [apply incl_appl, incl_refl|apply incl_appr, incl_tl, incl_refl].
      * right. rewrite !app_length. simpl. lia.
    + exists (pre ++ (k0, v) :: post), false. splits0; auto.
      * rewrite erase_app_lt by exact Hpre. f_equal. cbn [erase].
        destruct (ltb k k0) eqn:E1; [reflexivity|]. destruct (ltb k0 k) eqn:E2.
        -- destruct Hd as [Hd|[-> _]]; [congruence|reflexivity].
        -- unfold eqvb in Eq. rewrite E1, E2 in Eq. discriminate.
      * rewrite map_app. apply asc_app_iff. auto.
      * apply incl_refl.
Qed.

(* ---------- the recursion ---------- *)
Definition node_top (t : tree) : Prop := match t with Leaf _ => True | Node cs => 2 <= length cs end.

Lemma del_node_ok k : forall fuel d (n : tree),
  d < fuel -> bal d n -> ordered ltb n -> count n <= order -> node_top n -> kocc n ->
  exists n' small, del_node ltb fuel m k n = Ok (n', small) /\
    entries n' = erase ltb k (entries n) /\ ordered ltb n' /\ bal d n' /\ incl (allkeys n') (allkeys n) /\
    (count n' = count n \/ S (count n') = count n) /\
    (small = (count n' <? m) \/ (small = false /\ count n' = count n)) /\ kocc n'.
Proof.
  pose proof m2 as Hm2. pose proof mm as Hmm.
  induction fuel as [|fuel IH]; intros d n Hfuel Hbal Hord Hcnt Htop Hk; [lia|].
  destruct n as [es|cs].
  - cbn [del_node]. cbn [ordered] in Hord.
    destruct (leaf_delete_ok k es Hord) as (es' & small & E & He & Ha & Hi & Hl & Hsm).
    rewrite E. cbn [bind]. exists (Leaf es'), small. cbn [entries ordered allkeys count kids_occ].
    splits0; auto. eapply bal_leaf_any; exact Hbal.
  - apply bal_node in Hbal. destruct Hbal as (d' & -> & Hne & HB).
    pose proof (proj1 (ordered_node_iff cs) Hord) as HN. cbn [ordered] in Hord. destruct Hord as (Hasc & _).
    destruct (search_le_split K ltb HS k cs Hasc Hne) as (index & pre & s & c & post & Hs & -> & Hlen & Hpre & Hpost & Hidx).
    rewrite Forall_forall in Hpre, Hpost. symmetry in Hlen. subst index.
    cbn [del_node]. rewrite Hs. cbn [bind]. rewrite get_nth_mid by reflexivity. cbn [bind].
    cbn [kids_occ count node_top] in Hk, Hcnt, Htop.
    pose proof Hk as Hk0. apply Forall_app in Hk0. destruct Hk0 as [Kpre Kc]. inversion Kc as [|? ? Kc' Kpost]; subst.
    cbn [snd] in Kc'. apply occ_false_iff in Kc'. destruct Kc' as (Cc1 & Cc2 & Kc').
    pose proof HB as HB0. apply Forall_app in HB0. destruct HB0 as [Bpre Bc]. inversion Bc as [|? ? Bc' Bpost]; subst.
    cbn [snd] in Bc'.
    pose proof HN as HN0. apply NOrd_app in HN0. destruct HN0 as (Npre & Nc & Xpre).
    destruct Nc as [Gc Sc]. inversion Gc as [|? ? [Gc1 Oc] Gpost]; subst. cbn [fst snd] in Gc1, Oc.
    assert (Htopc : node_top c) by (destruct c; cbn in *; lia).
    assert (Hfuel' : d' < fuel) by lia.
    destruct (IH d' c Hfuel' Bc' Oc Cc1 Htopc Kc') as (c' & small & Ed & Hent & Oc' & Bc'' & Ic' & Cc' & Sc' & Kc'').
    rewrite Ed. cbn [bind]. rewrite set_child_mid by reflexivity.
    (* contents *)
    assert (HA : forall e, In e (flat_map ent pre) -> ltb (fst e) k = true).
    { intros e He. assert (Hp : 0 < length pre) by (destruct pre; [contradiction|simpl; lia]).
      specialize (Hidx Hp). apply (llt_le _ s); [|exact Hidx].
      apply Xpre; [|left; reflexivity]. apply entries_keys_kids. apply in_map. exact He. }
    assert (HBk : forall e, In e (flat_map ent post) -> ltb k (fst e) = true).
    { intros e He. apply in_flat_map in He. destruct He as (x & Hx & He).
      rewrite Forall_forall in Gpost. destruct (Gpost x Hx) as [Gx _].
      apply (llt_le _ (fst x)); [apply Hpost; exact Hx|]. apply Gx. apply entries_keys. apply in_map. exact He. }
    assert (Hentries : flat_map ent (pre ++ (s, c') :: post) = erase ltb k (flat_map ent (pre ++ (s, c) :: post))).
    { rewrite !flat_map_app. cbn [flat_map snd]. rewrite erase_app_lt by exact HA. f_equal.
      rewrite erase_app_gt by exact HBk. rewrite Hent. reflexivity. }
    (* the node with the child replaced *)
    assert (Hi1 : incl (kkeys [(s, c')]) (kkeys [(s, c)])).
    { unfold kkeys, fp. cbn [flat_map fst snd]. rewrite !app_nil_r. intros y [<-|Hy]; [left; reflexivity|right; apply Ic'; exact Hy]. }
    assert (HN1 : NOrd (pre ++ [(s, c')] ++ post)).
    { apply (NOrd_replace pre [(s, c)] [(s, c')] post); [exact HN| |exact Hi1].
      split; [|cbn; split; [apply klt_nil_r|exact I]]. constructor; [|constructor]. split; cbn [fst snd]; [|exact Oc'].
      eapply kle_incl; [exact Gc1|exact Ic']. }
    assert (HB1 : Forall (bald d') (pre ++ [(s, c')] ++ post)).
    { apply Forall_app. split; [exact Bpre|]. constructor; [exact Bc''|exact Bpost]. }
    assert (Hi2 : incl (kkeys (pre ++ [(s, c')] ++ post)) (kkeys (pre ++ (s, c) :: post))).
    { change (pre ++ (s, c) :: post) with (pre ++ [(s, c)] ++ post). rewrite !kkeys_app.
      apply incl_app; [apply incl_appl, incl_refl|]. apply incl_appr.
      apply incl_app; [apply incl_appl; exact Hi1|apply incl_appr, incl_refl]. }
    assert (Hlen1 : length (pre ++ (s, c') :: post) = length (pre ++ (s, c) :: post)) by (rewrite !app_length; reflexivity).
    change (pre ++ [(s, c')] ++ post) with (pre ++ (s, c') :: post) in HN1, HB1, Hi2.
    destruct small; cbn [negb].
    + assert (Hc' : S (count c') = m).
      { destruct Sc' as [Sc'|[Sc' _]]; [|discriminate]. symmetry in Sc'. apply Nat.ltb_lt in Sc'. lia. }
      assert (Hlen2 : 2 <= length (pre ++ (s, c') :: post)) by (rewrite Hlen1; exact Htop).
      destruct (rebalance_ok d' pre s c' post HN1 HB1 Kpre Kpost Hc' Kc'' Hlen2) as ([cs' small'] & Er & R).
      rewrite Er. cbn [bind].
      destruct R as (R1 & R2 & R3 & R4 & R5 & R6 & R7). cbn [fst snd] in *.
      exists (Node cs'), small'. cbn [entries count kids_occ]. rewrite !allkeys_node. splits0; auto.
      * rewrite R1. exact Hentries.
      * apply ordered_node_iff. exact R2.
      * apply bal_node. exists d'. splits0; auto. destruct cs'; [simpl in R6; lia|discriminate].
      * eapply incl_tran; [exact R5|exact Hi2].
      * lia.
      * destruct R7 as [R7|[R7 R8]]; [left; exact R7|right; split; [exact R7|lia]].
    + exists (Node (pre ++ (s, c') :: post)), false. cbn [entries count kids_occ]. rewrite !allkeys_node. splits0; auto.
      * apply ordered_node_iff. exact HN1.
      * apply bal_node. exists d'. splits0; auto. destruct pre; discriminate.
      * apply Forall_app. split; [exact Kpre|]. constructor; [|exact Kpost]. cbn [snd].
        apply occ_false_iff. splits0; auto; [lia|].
        destruct Sc' as [Sc'|[_ Sc']]; [|lia]. symmetry in Sc'. apply Nat.ltb_ge in Sc'. exact Sc'.
Qed.

Theorem delete_spec0 k (t : tree) :
  Inv ltb order t ->
  exists t', delete ltb order k t = Ok t' /\ entries t' = erase ltb k (entries t) /\ Inv ltb order t'.
Proof.
  pose proof m2 as Hm2. pose proof mm as Hmm.
  intros (Ho & Hb & Hocc). apply occ_true_iff in Hocc. destruct Hocc as (Hc & Hroot & Kt).
  unfold root_min in Hroot. rewrite (proj2 (Nat.leb_le 4 order) H4) in Hroot.
  assert (Htop : node_top t) by (destruct t; cbn; auto).
  destruct (del_node_ok k (S (height t)) (height t) t (Nat.lt_succ_diag_r _) Hb Ho Hc Htop Kt)
    as (n' & small & E & He & Ho' & Hb' & Hi & Hcnt & Hsm & Kn').
  unfold delete. rewrite E. cbn [bind].
  destruct (negb small || (1 <? count n')) eqn:Ec.
  - exists n'. splits0; auto. unfold Inv. splits0; auto.
    + rewrite (bal_height _ _ Hb'). exact Hb'.
    + apply occ_true_iff. splits0; auto; [lia|]. destruct n' as [es'|cs']; [exact I|].
      unfold root_min. rewrite (proj2 (Nat.leb_le 4 order) H4).
      apply orb_true_iff in Ec. destruct Ec as [Ec|Ec]; [|apply Nat.ltb_lt in Ec; lia].
      apply negb_true_iff in Ec. subst small.
      destruct Hsm as [Hsm|[_ Hsm]]; [symmetry in Hsm; apply Nat.ltb_ge in Hsm; lia|].
      rewrite Hsm. destruct t as [es|cs]; [|exact Hroot].
      apply bal_node in Hb'. destruct Hb' as (d' & Hd & _). cbn in Hd. discriminate.
  - apply orb_false_iff in Ec. destruct Ec as [Ec1 Ec2]. apply negb_false_iff in Ec1. apply Nat.ltb_ge in Ec2.
    destruct n' as [es'|cs'].
    + exists (Leaf es'). splits0; auto. unfold Inv. splits0; auto.
      apply occ_true_iff. splits0; auto; try exact I. lia.
    + pose proof Hb' as Hb2. apply bal_node in Hb2. destruct Hb2 as (d' & Hd & Hne & HB).
      destruct cs' as [|[s c] cs']; [congruence|]. destruct cs' as [|? ?]; [|cbn in Ec2; lia].
      exists c. splits0; auto.
      * rewrite <- He. cbn. rewrite app_nil_r. reflexivity.
      * apply ordered_node_iff in Ho'. destruct Ho' as [G _]. inversion G as [|? ? [_ Oc] _]; subst.
        inversion HB as [|? ? Bc _]; subst. cbn [snd] in *. cbn [kids_occ] in Kn'. inversion Kn' as [|? ? Kc _]; subst.
        cbn [snd] in Kc. apply occ_false_iff in Kc. destruct Kc as (Kc1 & Kc2 & Kc3).
        unfold Inv. splits0; auto.
        -- rewrite (bal_height _ _ Bc). exact Bc.
        -- apply occ_true_iff. splits0; auto. destruct c; [exact I|].
           unfold root_min. rewrite (proj2 (Nat.leb_le 4 order) H4). lia.
Qed.

End Ord.

(* [delete_spec0] holds for every order >= 4, odd ones included; the evenness hypothesis of the
   requested statement is not used. *)
Theorem delete_spec : forall (order : nat) (k : K) (t : tree),
  4 <= order -> Nat.even order = true -> Inv ltb order t ->
  exists t', delete ltb order k t = Ok t'
          /\ entries t' = erase ltb k (entries t)
          /\ Inv ltb order t'.
Proof. intros order k t H4 _ HI. apply delete_spec0; assumption. Qed.

End D.

Print Assumptions delete_spec.

(* FrameBlocks.v — the effect on the tree of the atomic blocks of Conc.v: descent of Insert/Update, splits,
   rebalancing and the unwinding of Delete, root split and root collapse. *)
From Coq Require Import List Permutation Lia Bool PeanoNat.
From GB Require Import ListLemmas TreeLemmas Frame LockProof UpdLemmas FrameRel FrameInv.
Import ListNotations.

Section Blocks.
Variables (K V : Type) (ltb : K -> K -> bool).
Notation itree := (itree K V).
Notation view := (view K V).
Notation pc := (pc K V).
Notation st := (st K V).
Notation out := (out K V).

(* ---- Insert/Update at an internal node: the separator update and the child split ---- *)
Lemma ins_nosplit_rel (G : Prop) W p pi cs index sep sep' child (t t' : itree) :
  NoDup (ids t) -> find p t = Some (INode pi cs) -> nth_error cs index = Some (sep, child) ->
  upd p (fun _ => Ok (INode pi (set_nth index (sep', child) cs))) t = Ok t' -> In p W ->
  acct [] t t' /\ frm G W t t' /\ NoDup (ids t') /\ nid t' = nid t.
Proof.
  intros Hnd Hf Hn Hu Hp.
  destruct (nth_error_split cs index Hn) as [A [B [E L]]]. subst cs index.
  rewrite set_nth_app in Hu.
  eapply upd_kids_rel with (c := true) (A := A) (B := B) (mid := [(sep, child)]) (mid' := [(sep', child)]) (N := []);
    eauto.
  - constructor.
  - intros y. simpl. lia.
Qed.

Lemma ins_split_rel (G : Prop) order W p pi cs index sep sep' rs child lft rgt fr (t t' : itree) :
  NoDup (ids t) -> find p t = Some (INode pi cs) -> nth_error cs index = Some (sep, child) ->
  isplit order fr child = Some (lft, rgt) ->
  upd p (fun _ => Ok (INode pi (ins_nth (index + 1) (rs, rgt) (set_nth index (sep', lft) cs)))) t = Ok t' ->
  ~ In fr (ids t) -> In p W -> In (nid child) W -> In fr W ->
  (G -> icount child <= 2 * Nat.div2 order) ->
  acct [fr] t t' /\ frm G W t t' /\ NoDup (ids t') /\ nid t' = nid t.
Proof.
  intros Hnd Hf Hn Hs Hu Hfr Hp Hc Hfw HG.
  destruct (nth_error_split cs index Hn) as [A [B [E L]]]. subst cs index.
  rewrite set_nth_app, ins_nth_app1 in Hu.
  destruct (isplit_rel K V order fr child lft rgt Hs) as (S1 & S2 & S3 & S4 & S5).
  eapply upd_kids_rel with (c := icount child <=? 2 * Nat.div2 order) (A := A) (B := B)
    (mid := [(sep, child)]) (mid' := [(sep', lft); (rs, rgt)]) (N := [fr]); eauto.
  - repeat constructor. simpl. tauto.
  - intros y [<-|[]]. exact Hfr.
  - intros y. unfold idsl. simpl. rewrite !app_nil_r. apply S3.
  - intros g. apply Nat.leb_le. auto.
  - intros y v Hy. unfold nodesl. simpl. rewrite !app_nil_r. apply S4; intro; subst; tauto.
  - intros Hle y v Hy. unfold nodesl. simpl. rewrite !app_nil_r. apply Nat.leb_le in Hle. apply S5; auto; intro; subst; tauto.
Qed.

(* ---- the root ---- *)
Lemma root_split_rel (G : Prop) order W fr ls rs lft rgt (t : itree) :
  NoDup (ids t) -> isplit order fr t = Some (lft, rgt) ->
  ~ In fr (ids t) -> ~ In (S fr) (ids t) ->
  In (nid t) W -> In fr W -> In (S fr) W -> (G -> icount t <= 2 * Nat.div2 order) ->
  acct [fr; S fr] t (INode (S fr) [(ls, lft); (rs, rgt)]) /\
  frm G W t (INode (S fr) [(ls, lft); (rs, rgt)]) /\
  NoDup (ids (INode (S fr) [(ls, lft); (rs, rgt)])).
Proof.
  intros Hnd Hs H1 H2 W1 W2 W3 HG.
  destruct (isplit_rel K V order fr t lft rgt Hs) as (S1 & S2 & S3 & S4 & S5).
  assert (Hacct : acct [fr; S fr] t (INode (S fr) [(ls, lft); (rs, rgt)])).
  { intros y. rewrite ids_node. unfold idsl. simpl. rewrite app_nil_r. specialize (S3 y). simpl in S3. lia. }
  assert (Hnd' : NoDup (ids (INode (S fr) [(ls, lft); (rs, rgt)]))).
  { eapply acct_nodup with (N := [fr; S fr]) (t := t); eauto.
    - repeat constructor; simpl; unfold id in *; intuition lia.
    - intros y [<-|[<-|[]]]; auto. }
  split; [exact Hacct|]. split; [|exact Hnd'].
  apply frm_of_lsim; auto.
  apply lsim_cases with (c := icount t <=? 2 * Nat.div2 order).
  - intros g. apply Nat.leb_le. auto.
  - rewrite map_fst_nodes. exact Hnd.
  - intros y v Hy. rewrite nodes_node. unfold nodesl. simpl. rewrite app_nil_r.
    intros [E|Hin]; [inversion E; subst; tauto|]. apply S4; auto; intro; subst; tauto.
  - intros Hle y v Hy Hin. apply Nat.leb_le in Hle. rewrite nodes_node. unfold nodesl. simpl. rewrite app_nil_r.
    right. apply S5; auto; intro; subst; tauto.
Qed.

Lemma root_collapse_rel (G : Prop) W r k (c : itree) rest :
  NoDup (ids (INode r ((k, c) :: rest))) -> In r W -> length ((k, c) :: rest) <= 1 ->
  acct [] (INode r ((k, c) :: rest)) c /\ frm G W (INode r ((k, c) :: rest)) c /\ NoDup (ids c).
Proof.
  intros Hnd Hr Hlen. destruct rest; [|simpl in Hlen; lia].
  assert (Hacct : acct [] (INode r [(k, c)]) c).
  { intros y. rewrite ids_node. unfold idsl. simpl. rewrite app_nil_r. lia. }
  assert (Hnd' : NoDup (ids c)).
  { rewrite ids_node in Hnd. unfold idsl in Hnd. simpl in Hnd. rewrite app_nil_r in Hnd. inversion Hnd; auto. }
  split; [exact Hacct|]. split; [|exact Hnd'].
  apply frm_of_lsim; auto. apply lsim_cases with (c := true); auto.
  - rewrite map_fst_nodes. exact Hnd.
  - intros y v Hy Hin. rewrite nodes_node. unfold nodesl. simpl. rewrite app_nil_r. right. exact Hin.
  - intros _ y v Hy. rewrite nodes_node. unfold nodesl. simpl. rewrite app_nil_r.
    intros [E|Hin]; [inversion E; subst; tauto | exact Hin].
Qed.

(* ---- descent blocks ---- *)
Lemma ins_descend_rel (G : Prop) W o n (t : itree) l fr tmx (out : out) :
  ins_descend ltb o n t l fr tmx = Ok out -> NoDup (ids t) -> In n W ->
  ofresh out = fr /\ acct [] t (otr out) /\ frm G W t (otr out) /\ NoDup (ids (otr out)) /\ nid (otr out) = nid t /\
  (forall fr', Forall (fun i => i < fr') (ids (otr out)) -> pc_ok (otr out) fr' (opc out)).
Proof.
  intros H Hnd Hn. unfold ins_descend, mk in H.
  destruct (find n t) as [[i nx es|pi cs]|] eqn:Hf; [| |discriminate H].
  - crunch H; inversion H; subst; clear H; cbn [otr ofresh opc]; (split; [reflexivity|]).
    all: try match goal with
         | Hu : upd _ _ _ = Ok ?t' |- _ =>
           destruct (upd_leaf_rel K V G W _ _ _ _ _ _ _ _ Hnd Hf Hu Hn) as (A1 & A2 & A3 & A4);
           repeat (split; [assumption|]); intros; exact I
         end.
    all: split; [apply acct_refl|]; split; [apply frm_refl|]; split; [exact Hnd|]; split; [reflexivity|]; intros; exact I.
  - crunch H; inversion H; subst; clear H; cbn [otr ofresh opc]; (split; [reflexivity|]).
    split; [apply acct_refl|]; split; [apply frm_refl|]; split; [exact Hnd|]; split; [reflexivity|].
    intros fr' Hall. simpl. split.
    + rewrite Forall_forall in Hall. apply Hall. eapply find_in_ids; eauto.
    + eapply find_child_at; eauto. apply get_nth_Ok. eassumption.
Qed.

Lemma sea_descend_rel o n (t : itree) l fr tmx (out : out) :
  sea_descend ltb o n t l fr tmx = Ok out ->
  ofresh out = fr /\ otr out = t /\ (forall t' fr', pc_ok t' fr' (opc out)).
Proof.
  intros H. unfold sea_descend, mk in H.
  crunch H; inversion H; subst; clear H; cbn [otr ofresh opc]; repeat split; intros; exact I.
Qed.

Lemma del_descend_ok o stk n (t : itree) p fr :
  del_descend ltb o stk n t = Ok p -> n < fr ->
  match stk with [] => True | g :: _ => fc g = Some n end -> stack_ok t fr stk -> pc_ok t fr p.
Proof.
  intros H Hn Hl Hs. unfold del_descend in H.
  crunch H; inversion H; subst; clear H.
  destruct (0 <? a) eqn:E0; simpl.
  - auto.
  - split; [exact Hn|]. split; [|auto]. intros Hpos. simpl in Hpos. apply Nat.ltb_ge in E0. lia.
Qed.

(* ---- rebalancing at one Delete frame ---- *)
Lemma irebalance_rel (G : Prop) order f (t t' : itree) small pi cs W :
  NoDup (ids t) -> irebalance order f t = Ok (t', small) ->
  find (fp f) t = Some (INode pi cs) ->
  In (fp f) W ->
  (forall k ch, nth_error cs (fidx f) = Some (k, ch) -> In (nid ch) W) ->
  (forall k ch, 0 < fidx f -> nth_error cs (fidx f - 1) = Some (k, ch) -> In (nid ch) W) ->
  (forall k ch, nth_error cs (fidx f + 1) = Some (k, ch) -> In (nid ch) W) ->
  acct [] t t' /\ frm G W t t' /\ NoDup (ids t') /\ nid t' = nid t.
Proof.
  intros Hnd H Hf Hp Hc Hl Hr. unfold irebalance in H. rewrite Hf in H.
  remember (fidx f) as index eqn:Hidx. clear Hidx.
  destruct (get_nth index cs) as [[k1 child]|] eqn:Eg; [cbn [bind] in H | discriminate H].
  apply get_nth_Ok in Eg. cbv zeta in H.
  match type of H with bind ?e _ = _ => destruct e as [[cs' sm]|] eqn:Ecs; [cbn [bind] in H|discriminate H] end.
  destruct (upd (fp f) (fun _ => Ok (INode pi cs')) t) as [t1|] eqn:Eu; [cbn [bind] in H|discriminate H].
  inversion H; subst t1 sm; clear H.
  pose proof (Hc _ _ Eg) as Wc.
  destruct ((index + 1 <? length cs) && (Nat.div2 order <? (if index + 1 <? length cs then match nth_error cs (index + 1) with Some (_, r) => icount r | None => 0 end else 0))) eqn:C1.
  { (* borrow from the right sibling *)
    destruct (get_nth (index + 1) cs) as [[k2 rgt]|] eqn:Eg2; [cbn [bind] in Ecs | discriminate Ecs].
    apply get_nth_Ok in Eg2.
    destruct (iadopt_right child rgt) as [[child' rgt']|] eqn:Ea; [cbn [bind] in Ecs | discriminate Ecs].
    destruct (ismallest rgt') as [rs|] eqn:Es; [cbn [bind] in Ecs | discriminate Ecs].
    inversion Ecs; subst cs'; clear Ecs.
    pose proof (Hr _ _ Eg2) as Wr.
    destruct (nth_error_split2 cs index _ _ Eg Eg2) as [A [B [E L]]]. subst cs index.
    unfold set_child_i in Eu. rewrite nth_error_app_len, set_nth_app, set_nth_app1 in Eu.
    destruct (iadopt_right_rel K V _ _ _ _ Ea) as (R1 & R2 & R3 & R4).
    eapply upd_kids_rel with (c := true) (A := A) (B := B) (mid := [(k1, child); (k2, rgt)])
      (mid' := [(k1, child'); (rs, rgt')]) (N := []); eauto.
    - constructor.
    - intros y. unfold idsl. simpl. rewrite !app_nil_r. rewrite R3. lia.
    - intros y v Hy. unfold nodesl. simpl. rewrite !app_nil_r. apply R4; intro; subst; tauto.
    - intros _ y v Hy. unfold nodesl. simpl. rewrite !app_nil_r. apply R4; intro; subst; tauto. }
  destruct ((0 <? index) && (Nat.div2 order <? (if 0 <? index then match nth_error cs (index - 1) with Some (_, l) => icount l | None => 0 end else 0))) eqn:C2.
  { (* borrow from the left sibling *)
    apply andb_prop in C2. destruct C2 as [C2 _]. apply Nat.ltb_lt in C2.
    destruct index as [|j]; [lia|].
    replace (S j - 1) with j in * by lia.
    destruct (get_nth j cs) as [[k0 lft]|] eqn:Eg0; [cbn [bind] in Ecs | discriminate Ecs].
    apply get_nth_Ok in Eg0.
    destruct (iadopt_left lft child) as [[lft' child']|] eqn:Ea; [cbn [bind] in Ecs | discriminate Ecs].
    destruct (ismallest child') as [sm|] eqn:Es; [cbn [bind] in Ecs | discriminate Ecs].
    inversion Ecs; subst cs'; clear Ecs.
    assert (Wl : In (nid lft) W) by (eapply (Hl k0 lft); [lia | replace (S j - 1) with j by lia; exact Eg0]).
    replace (S j) with (j + 1) in * by lia.
    destruct (nth_error_split2 cs j _ _ Eg0 Eg) as [A [B [E L]]]. subst cs j.
    unfold set_child_i in Eu. rewrite nth_error_app_len, set_nth_app, set_nth_app1 in Eu.
    destruct (iadopt_left_rel K V _ _ _ _ Ea) as (R1 & R2 & R3 & R4).
    eapply upd_kids_rel with (c := true) (A := A) (B := B) (mid := [(k0, lft); (k1, child)])
      (mid' := [(k0, lft'); (sm, child')]) (N := []); eauto.
    - constructor.
    - intros y. unfold idsl. simpl. rewrite !app_nil_r. rewrite R3. lia.
    - intros y v Hy. unfold nodesl. simpl. rewrite !app_nil_r. apply R4; intro; subst; tauto.
    - intros _ y v Hy. unfold nodesl. simpl. rewrite !app_nil_r. apply R4; intro; subst; tauto. }
  destruct (0 <? (if 0 <? index then match nth_error cs (index - 1) with Some (_, l) => icount l | None => 0 end else 0)) eqn:C3.
  { (* merge into the left sibling *)
    destruct (0 <? index) eqn:C0; [|discriminate C3]. apply Nat.ltb_lt in C0.
    destruct index as [|j]; [lia|].
    replace (S j - 1) with j in * by lia.
    destruct (get_nth j cs) as [[k0 lft]|] eqn:Eg0; [cbn [bind] in Ecs | discriminate Ecs].
    apply get_nth_Ok in Eg0.
    destruct (iabsorb lft child) as [lft'|] eqn:Ea; [cbn [bind] in Ecs | discriminate Ecs].
    inversion Ecs; subst cs'; clear Ecs.
    assert (Wl : In (nid lft) W) by (eapply (Hl k0 lft); [lia | replace (S j - 1) with j by lia; exact Eg0]).
    replace (S j) with (j + 1) in * by lia.
    destruct (nth_error_split2 cs j _ _ Eg0 Eg) as [A [B [E L]]]. subst cs j.
    unfold set_child_i in Eu. rewrite nth_error_app_len, set_nth_app, del_nth_app1 in Eu.
    destruct (iabsorb_rel K V _ _ _ Ea) as (R1 & R3 & R4).
    eapply upd_kids_rel with (c := true) (A := A) (B := B) (mid := [(k0, lft); (k1, child)])
      (mid' := [(k0, lft')]) (N := []); eauto.
    - constructor.
    - intros y. unfold idsl. simpl. rewrite !app_nil_r. specialize (R3 y). lia.
    - intros y v Hy. unfold nodesl. simpl. rewrite !app_nil_r. apply R4; intro; subst; tauto.
    - intros _ y v Hy. unfold nodesl. simpl. rewrite !app_nil_r. apply R4; intro; subst; tauto. }
  destruct ((if index + 1 <? length cs then match nth_error cs (index + 1) with Some (_, r) => icount r | None => 0 end else 0) =? 0) eqn:C4; [discriminate Ecs|].
  (* merge the right sibling into the child *)
  destruct (get_nth (index + 1) cs) as [[k2 rgt]|] eqn:Eg2; [cbn [bind] in Ecs | discriminate Ecs].
  apply get_nth_Ok in Eg2.
  destruct (iabsorb child rgt) as [child'|] eqn:Ea; [cbn [bind] in Ecs | discriminate Ecs].
  inversion Ecs; subst cs'; clear Ecs.
  pose proof (Hr _ _ Eg2) as Wr.
  destruct (nth_error_split2 cs index _ _ Eg Eg2) as [A [B [E L]]]. subst cs index.
  unfold set_child_i in Eu. rewrite nth_error_app_len, set_nth_app, del_nth_app1 in Eu.
  destruct (iabsorb_rel K V _ _ _ Ea) as (R1 & R3 & R4).
  eapply upd_kids_rel with (c := true) (A := A) (B := B) (mid := [(k1, child); (k2, rgt)])
    (mid' := [(k1, child')]) (N := []); eauto.
  - constructor.
  - intros y. unfold idsl. simpl. rewrite !app_nil_r. specialize (R3 y). lia.
  - intros y v Hy. unfold nodesl. simpl. rewrite !app_nil_r. apply R4; intro; subst; tauto.
  - intros _ y v Hy. unfold nodesl. simpl. rewrite !app_nil_r. apply R4; intro; subst; tauto.
Qed.

(* ---- the return through the deleteKey activations ---- *)
Lemma nodup_sub (a b : list id) : (forall x, cnt a x <= cnt b x) -> NoDup b -> NoDup a.
Proof. rewrite !cnt_nodup. intros H Hb x. specialize (H x). specialize (Hb x). lia. Qed.

Lemma unwind_rel (G : Prop) order W fuel : forall o stk small right (t : itree) l fr tmx (out : out),
  unwind order fuel o stk small right t l fr tmx = Ok out ->
  NoDup (ids t) -> stack_ok t fr stk -> bottom_ok (nid t) stk ->
  (stk = [] -> right = None) ->
  NoDup (nid t :: opt_list right ++ flat_map fkids stk) ->
  incl (nid t :: opt_list right ++ flat_map fkids stk) W ->
  (forall x, right = Some x -> match stk with f :: _ => child_at t (fp f) (fidx f + 1) x | [] => True end) ->
  ofresh out = fr /\ acct [] t (otr out) /\ frm G W t (otr out) /\ NoDup (ids (otr out)) /\
  pc_ok (otr out) fr (opc out).
Proof.
  induction fuel as [|fuel IH]; intros o stk small right t l fr tmx out H Hnd Hs Hb Hr Hheld HW Hright;
    simpl in H; [discriminate|].
  destruct stk as [|f rest].
  - unfold mk in H. inversion H; subst; clear H. cbn [otr ofresh opc]. split; [reflexivity|].
    destruct (negb small || (1 <? icount t)) eqn:E.
    + split; [apply acct_refl|]. split; [apply frm_refl|]. split; [exact Hnd | exact I].
    + apply orb_false_iff in E. destruct E as [_ E]. apply Nat.ltb_ge in E.
      destruct t as [i nx es | i [|[k c] rest]].
      * split; [apply acct_refl|]. split; [apply frm_refl|]. split; [exact Hnd | exact I].
      * split; [apply acct_refl|]. split; [apply frm_refl|]. split; [exact Hnd | exact I].
      * simpl in E.
        destruct (root_collapse_rel G W i k c rest Hnd) as (A1 & A2 & A3).
        { apply HW. left. reflexivity. }
        { simpl. lia. }
        split; [exact A1|]. split; [exact A2|]. split; [exact A3 | exact I].
  - destruct Hs as (S1 & S2 & S3 & S4 & S5).
    assert (Hlinks : links (f :: rest)) by (split; [exact S4 | eapply stack_ok_links; eauto]).
    assert (Hrest : NoDup (nid t :: opt_list None ++ flat_map fkids rest)).
    { eapply nodup_sub; [|exact Hheld]. intros x. simpl. rewrite !cnt_app. lia. }
    assert (HWrest : incl (nid t :: opt_list None ++ flat_map fkids rest) W).
    { intros x Hx. apply HW. simpl in *. rewrite !in_app_iff. tauto. }
    assert (Hnext : forall small' (t' : itree), nid t' = nid t -> NoDup (ids t') -> stack_ok t' fr rest ->
              acct [] t t' -> frm G W t t' ->
              unwind order fuel o rest small' None t' (unlock_frame_kids f right l) fr tmx = Ok out ->
              ofresh out = fr /\ acct [] t (otr out) /\ frm G W t (otr out) /\ NoDup (ids (otr out)) /\
              pc_ok (otr out) fr (opc out)).
    { intros small' t' Hn Hnd' Hs' Ha Hfm Hu.
      destruct (IH o rest small' None t' _ fr tmx out Hu Hnd' Hs') as (B1 & B2 & B3 & B4 & B5).
      - rewrite Hn. eapply bottom_ok_tail; eauto.
      - reflexivity.
      - rewrite Hn. exact Hrest.
      - rewrite Hn. exact HWrest.
      - intros x Hx. discriminate Hx.
      - split; [exact B1|]. split; [eapply acct_trans; eauto|]. split; [eapply frm_trans; eauto|]. auto. }
    destruct (negb small) eqn:Es.
    + apply (Hnext false t); auto. apply acct_refl. apply frm_refl.
    + destruct (find (fp f) t) as [[i nx es|pi cs]|] eqn:Hf; try discriminate H.
      destruct ((fidx f + 1 <? length cs) && match right with None => true | Some _ => false end) eqn:Ec.
      * unfold mk in H. inversion H; subst; clear H. cbn [otr ofresh opc].
        split; [reflexivity|]. split; [apply acct_refl|]. split; [apply frm_refl|]. split; [exact Hnd|].
        simpl. auto.
      * destruct (irebalance order f t) as [[t' small']|] eqn:Er; [cbn [bind] in H|discriminate H].
        set (Wf := fp f :: opt_list right ++ fkids f).
        destruct (irebalance_rel G order f t t' small' pi cs Wf Hnd Er Hf) as (R1 & R2 & R3 & R4).
        -- left. reflexivity.
        -- intros k ch Hn. destruct S3 as [c [Hfc Hca]].
           rewrite (child_at_nth K V _ _ _ _ _ _ _ _ Hca Hf Hn).
           unfold Wf, fkids. rewrite Hfc. right. rewrite !in_app_iff. right. right. simpl. auto.
        -- intros k ch Hpos Hn. destruct (S2 Hpos) as [l0 [Hfl Hca]].
           rewrite (child_at_nth K V _ _ _ _ _ _ _ _ Hca Hf Hn).
           unfold Wf, fkids. rewrite Hfl. right. rewrite !in_app_iff. right. left. simpl. auto.
        -- intros k ch Hn.
           assert (Hlt : fidx f + 1 < length cs) by (apply nth_error_Some; congruence).
           apply Nat.ltb_lt in Hlt. rewrite Hlt in Ec. simpl in Ec.
           destruct right as [x|]; [|discriminate Ec].
           specialize (Hright x eq_refl). simpl in Hright.
           rewrite (child_at_nth K V _ _ _ _ _ _ _ _ Hright Hf Hn).
           unfold Wf. right. simpl. left. reflexivity.
        -- assert (HWf : incl Wf W).
           { intros x [<-|Hx].
             - pose proof (fp_in_frames (nid t) (f :: rest) Hlinks Hb f (or_introl eq_refl)) as Hin.
               apply HW. simpl in Hin. simpl. rewrite !in_app_iff in *. tauto.
             - apply HW. simpl. rewrite !in_app_iff in *. tauto. }
           apply (Hnext small' t'); auto.
           ++ eapply stack_ok_frm with (W := Wf) (fr := fr); eauto.
              apply rest_fp_notin with (root := nid t); auto.
           ++ eapply frm_mono; eauto.
Qed.

End Blocks.

(* SLo_Proof.v — STABILITY of the scan lower-bound fact ([scan_lo_pc_b], NoGap.v) of a thread under the steps of OTHER
   threads.  A thread resting at SeaWantChild / CurRest _ _ _ [] / CurWantNext _ _ _ [] HOLDS the node x its fact speaks
   about, so the stepping thread does not hold x, is not granted x, and x is not a fresh identity: x is outside the
   write set of the step.  For such nodes
     (a) [in_lo k x] is stable because the key range of x is kept or widened ([cstep_bm], PCb2_Step.v; [in_lo_bm]);
     (b) [leftmost_b x] is stable ([cstep_lm], SLo_Step.v).
   See the summary at the end of the file. *)
From Coq Require Import List Permutation Lia Bool PeanoNat.
From GB Require Import ListLemmas TreeLemmas Inv InvProof Frame LockProof ConcProps CInv CIDef UpdLemmas FrameRel FrameInv FrameBlocks
  FrameProof PCb2_Bounds PCb2_View PCb2_Blocks PCb2_Step PCb2_Proof LinDef ASM_Proof NoGap SLo_Lemmas SLo_Step.
Import ListNotations.

Section SLo.
Variables (K V : Type) (ltb : K -> K -> bool).
Hypothesis HS : SWO ltb.
Variable order : nat.
Hypothesis Heven : Nat.even order = true.
Hypothesis H4 : 4 <= order.
Notation itree := (itree K V).
Notation pc := (pc K V).
Notation st := (st K V).
Notation thread := (thread K V).

(* ---------- the general form: any node held by a thread that does not move ---------- *)
Theorem lo_or_left_other_step : forall (s s' : st) me acq ev t th x k,
  CIfull ltb order s -> all_inv K V s ->
  cstep ltb order s me = Stepped s' acq ev -> t <> me ->
  get_thread t (ths s) = Some th ->
  In x (pc_nodes (tpc th)) ->
  lo_or_left ltb k x (tr s) = true ->
  lo_or_left ltb k x (tr s') = true.
Proof.
  intros s s' me acq ev t th x k [[HGI [_ Hall]] _] (Hids & Hli2 & Hfi) Hstep Hne Hget Hx Hlo.
  pose proof (GI_lossless K V ltb order s Heven HGI) as Hll.
  assert (HJ : J ltb (tr s)).
  { destruct HGI as (_ & _ & Ho & Hb & _). eapply J_of_ordered; eauto. }
  assert (Hord : 1 <= Nat.div2 order) by (pose proof (div2_ge2 order H4); lia).
  pose proof (cstep_bm K V ltb HS order s s' me acq ev Hord Hids Hli2 Hfi Hll HJ Hstep) as Hbm.
  pose proof (cstep_lm K V ltb order s s' me acq ev Hord Hids Hli2 Hfi Hstep) as Hlm.
  pose proof Hli2 as [Hli _]. pose proof Hli as (_ & _ & _ & _ & Hth).
  destruct (Hth t th Hget) as (_ & HPt & _).
  assert (Hxt : In x (held_by t (lk s))) by (eapply Permutation_in; [apply Permutation_sym; exact HPt | exact Hx]).
  assert (Hin : In x (ids (tr s))).
  { unfold lo_or_left in Hlo. apply orb_prop in Hlo. destruct Hlo as [Hlo|Hlo].
    - eapply in_lo_in; eauto.
    - eapply lm_in_ids; eauto. }
  assert (HW : ~ In x (wset K V s me acq)).
  { destruct Hids as [_ Hlt]. rewrite Forall_forall in Hlt. apply Hlt in Hin.
    unfold wset. rewrite !in_app_iff. intros [[X|X]|X].
    - apply Hne. eapply (locks_exclusive K V s x t me); eauto.
    - destruct acq as [[y|]|]; simpl in X; try contradiction. destruct X as [<-|[]].
      eapply (granted_was_free K V ltb order s s' me y ev t); eauto.
    - simpl in X. lia. }
  unfold lo_or_left in *. apply orb_prop in Hlo. apply orb_true_iff. destruct Hlo as [Hlo|Hlo].
  - left. eapply in_lo_bm; eauto.
  - right. apply (Hlm x HW Hlo).
Qed.

(* ---------- the statement as asked ---------- *)
Theorem scan_lo_other_step : forall (s s' : st) me acq ev t th,
  ASM_Proof.BigInv K V ltb order s -> nogap_st_b ltb s = true ->
  cstep ltb order s me = Stepped s' acq ev -> t <> me ->
  get_thread t (ths s) = Some th ->
  scan_lo_pc_b ltb (tr s) (prog th) (tpc th) = true ->
  scan_lo_pc_b ltb (tr s') (prog th) (tpc th) = true.
Proof.
  intros s s' me acq ev t th HB _ Hstep Hne Hget Hpc.
  destruct HB as ((HF & HA & _) & _).
  assert (Hgen : forall x k, In x (pc_nodes (tpc th)) ->
            lo_or_left ltb k x (tr s) = true -> lo_or_left ltb k x (tr s') = true).
  { intros x k Hx Hlo. eapply lo_or_left_other_step; eauto. }
  destruct (tpc th) as [ |o|o r|o lft rgt|o p c index|o p c r|o leaf mode index|o p c|o stk|o stk|o stk|leaf i n acc|leaf nxt n acc] eqn:Hp;
    simpl in Hpc |- *; try reflexivity.
  - (* SeaWantChild *) apply Hgen; [simpl; auto | exact Hpc].
  - (* CurRest *)
    destruct acc as [|e acc]; [|reflexivity].
    destruct (prog th) as [|[k v|k f|k|k|k cnt] pr]; try discriminate Hpc.
    apply Hgen; [simpl; auto | exact Hpc].
  - (* CurWantNext *)
    destruct acc as [|e acc]; [|reflexivity].
    destruct (prog th) as [|[k v|k f|k|k|k cnt] pr]; try discriminate Hpc.
    apply Hgen; [simpl; auto | exact Hpc].
Qed.

(* ---------- for the whole thread table: the facts of all non-moving threads survive ---------- *)
Corollary scan_lo_others_step : forall (s s' : st) me acq ev,
  ASM_Proof.BigInv K V ltb order s -> nogap_st_b ltb s = true -> scan_lo_b ltb s = true ->
  cstep ltb order s me = Stepped s' acq ev ->
  forall t th, t <> me -> get_thread t (ths s') = Some th ->
  scan_lo_pc_b ltb (tr s') (prog th) (tpc th) = true.
Proof.
  intros s s' me acq ev HB Hng Hall Hstep t th Hne Hget.
  rewrite (step_other_thread K V ltb order s s' me acq ev t Hstep Hne) in Hget.
  eapply scan_lo_other_step; eauto.
  unfold scan_lo_b in Hall. rewrite forallb_forall in Hall.
  apply (Hall (t, th)). eapply PCb2_Proof.get_thread_in. exact Hget.
Qed.

End SLo.

(* STATUS: everything above is proved; no axioms, nothing admitted.  The statement is TRUE as written (no
   counterexample, no extra hypothesis); the hypothesis [nogap_st_b ltb s = true] is not used, and of BigInv only
   CIfull and all_inv are used.

   Files (dependency order):
     SLo_Lemmas.v : [hdlm], [lm_leaf], [lm_node], [lm_root], [lm_in_ids]; the relation
                    [lmr W t t' := forall x, ~ In x W -> leftmost_b x t = true -> leftmost_b x t' = true] with
                    [lmr_refl/trans/mono]; [upd_lm] (upd at a node whose own leftmost path is kept keeps the leftmost
                    path of the whole tree; no NoDup needed), [upd_node_lm], and one lemma per atomic block:
                    [upd_leaf_lm], [leaf_root_lm], [ins_descend_lm], [ins_nosplit_lm], [split_lm] (the left half of a split
                    has the leftmost path of the node), [ins_split_lm], [root_split_lm], [root_collapse_lm] (loses the old
                    root only), [adoptR_lm], [adoptL_lm] (the lender has >= 2 children/pairs), [absorb_lm], [reb_lm] (over
                    [reb_shape], PCb2_Blocks.v), [irebalance_lm], [unwind_lm] (lmr [nid t]); [in_lo_bm], [in_lo_in].
     SLo_Step.v   : [cstep_lm] : 1 <= div2 order -> ids_ok s -> lock_inv2 s -> frame_inv s -> cstep s me = Stepped s' acq ev
                    -> lmr (wset s me acq) (tr s) (tr s')   (same case analysis as [cstep_bm]).
     SLo_Proof.v  : [lo_or_left_other_step] (any node x held by a thread t <> me keeps [lo_or_left k x]),
                    [scan_lo_other_step] (the requested statement, verbatim),
                    [scan_lo_others_step] (corollary over the post-state's thread table, from [scan_lo_b s]). *)

Print Assumptions lo_or_left_other_step.
Print Assumptions scan_lo_others_step.
Print Assumptions scan_lo_other_step.

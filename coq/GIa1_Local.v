(* GIa1_Local.v — what the local rewrites of Insert/Update do to a subtree inside its key bounds
   (sequential trees; no occupancy assumption). *)
From Coq Require Import List Bool Lia PeanoNat Permutation Sorted.
From GB Require Import Model Spec Inv ListLemmas SearchProof TreeLemmas UpsertProof Conc GI LockInv CInv
  EraseLemmas EraseOps GIa1_Ctx.
Import ListNotations.

Section Local.
Variables (K V : Type) (ltb : K -> K -> bool).
Hypothesis HS : SWO ltb.
Notation tree := (tree K V).
Notation SS := (StronglySorted (fun a b => ltb a b = true)).
Notation AK := (flat_map (fun c : K * tree => fst c :: allkeys (snd c))).
Notation irrefl := (irrefl K ltb HS).
Notation trans := (trans K ltb HS).
Notation asym := (asym K ltb HS).
Notation ltle := (ltle K ltb HS).
Notation lelt := (lelt K ltb HS).
Notation negtrans := (negtrans K ltb HS).
Notation asc_SS := (asc_SS K ltb HS).
Notation rng := (rng ltb).
Notation sub_ok := (sub_ok ltb).
Notation tshape := (tshape ltb).

(* ------------------------------------------------------------------------------------------------ *)
(* leaves                                                                                             *)
(* ------------------------------------------------------------------------------------------------ *)
Lemma leaf_put_ok order b d (es : list (K * V)) k f :
  sub_ok order b d (Leaf es) -> rng b k -> length es < order -> sub_ok order b d (Leaf (put ltb k f es)).
Proof.
  intros (Ho & Hr & Hb & Hc) Hk Hl. cbn [ordered allkeys cap count] in *.
  split; [|split; [|split]].
  - apply asc_SS. apply (put_SS K V ltb HS). apply asc_SS. exact Ho.
  - eapply (keys_from_forall K); [apply put_keys|exact Hr|exact Hk].
  - destruct d; simpl in *; exact Hb.
  - cbn [cap count]. split; [|exact I]. pose proof (put_length K V ltb k f es). lia.
Qed.

Lemma leaf_keys_ok order b d (es es' : list (K * V)) :
  map fst es' = map fst es -> sub_ok order b d (Leaf es) -> sub_ok order b d (Leaf es').
Proof.
  intros E (Ho & Hr & Hb & Hc). unfold GIa1_Ctx.sub_ok. cbn [ordered allkeys cap count] in *. rewrite E.
  repeat split; auto; [destruct d; simpl in *; exact Hb|]. rewrite <- (map_length fst es'), E, map_length. tauto.
Qed.

Lemma map_fst_set_nth (es : list (K * V)) i k v v' :
  nth_error es i = Some (k, v) -> map fst (set_nth i (k, v') es) = map fst es.
Proof.
  intros H. destruct (nth_error_split es i H) as (pre & post & -> & <-).
  rewrite set_nth_app. rewrite !map_app. reflexivity.
Qed.

(* the Update path's early store is the ideal map's put *)
Lemma ins_nth_is_put (es : list (K * V)) key lastk index k' v' :
  SS (map fst es) ->
  last (map (fun e => Some (fst e)) es) None = Some lastk -> ltb lastk key = false ->
  search_ge ltb key (map fst es) = Ok index -> get_nth index es = Ok (k', v') -> eqvb ltb key k' = false ->
  ins_nth index (key, v') es = put ltb key (fun _ => v') es.
Proof.
  intros Hs Hl Hlk Hse Hg He.
  pose proof (leaf_upsert_spec K V ltb HS key (fun _ => v') es Hs) as H.
  unfold leaf_upsert in H. rewrite Hl, Hlk, Hse in H. cbn [bind] in H. rewrite Hg in H. cbn [bind] in H.
  rewrite He in H. inversion H. reflexivity.
Qed.

Lemma app_is_put (es : list (K * V)) key v :
  SS (map fst es) ->
  (match last (map (fun e => Some (fst e)) es) None with None => true | Some lk => ltb lk key end) = true ->
  es ++ [(key, v)] = put ltb key (fun _ => v) es.
Proof.
  intros Hs Hl.
  pose proof (leaf_upsert_spec K V ltb HS key (fun _ => v) es Hs) as H.
  unfold leaf_upsert in H. destruct (last (map (fun e => Some (fst e)) es) None) as [lk|].
  - rewrite Hl in H. inversion H. reflexivity.
  - inversion H. reflexivity.
Qed.

(* ------------------------------------------------------------------------------------------------ *)
(* splitting a full node                                                                              *)
(* ------------------------------------------------------------------------------------------------ *)
Lemma cap_count order (t : tree) : cap order t -> count t <= order.
Proof. destruct t; simpl; tauto. Qed.

Lemma split_ok order b d (t l r : tree) :
  2 <= order -> Nat.even order = true ->
  maybe_split order t = Some (l, r) -> sub_ok order b d t ->
  sub_ok order b d l /\ sub_ok order b d r /\
  count l = Nat.div2 order /\ count r = Nat.div2 order /\ 1 <= Nat.div2 order /\ Nat.div2 order < order /\
  smallest l = smallest t /\ allkeys t = allkeys l ++ allkeys r /\
  (exists ls, smallest l = Ok ls) /\
  exists rs, smallest r = Ok rs /\ Forall (fun x => ltb x rs = true) (allkeys l) /\
             Forall (fun x => ltb x rs = false) (allkeys r) /\ rng b rs.
Proof.
  intros H2 Hev Hm (Ho & Hr & Hb & Hc). pose proof (cap_count order t Hc) as Hcnt. unfold GIa1_Ctx.sub_ok.
  destruct (maybe_split_some K V order t l r H2 Hev Hcnt Hm)
    as (Hh1 & Hh2 & [(a & c & -> & -> & -> & La & Lb)|(a & c & -> & -> & -> & La & Lb)]).
  - cbn [ordered allkeys count smallest cap] in *. rewrite map_app in *.
    apply asc_SS in Ho. pose proof Ho as Ho'. apply (SS_app_iff K ltb) in Ho'. destruct Ho' as (Hsa & Hsb & Hab).
    apply Forall_app in Hr. destruct Hr as [Hra Hrb].
    destruct d; [|simpl in Hb; tauto].
    split; [repeat split; auto; [apply asc_SS; assumption|lia]|].
    split; [repeat split; auto; [apply asc_SS; assumption|lia]|].
    repeat (split; [assumption|]).
    split; [destruct a as [|[k v] a]; [simpl in La; lia|reflexivity]|].
    split; [reflexivity|].
    split; [destruct a as [|[k v] a]; [simpl in La; lia|eexists; reflexivity]|].
    destruct c as [|[k v] c]; [simpl in Lb; lia|]. exists k. split; [reflexivity|]. split; [|split].
    + eapply Forall_impl; [|exact Hab]. intros x Hx. inversion Hx; auto.
    + cbn [map fst] in *. apply (SS_cons_iff K ltb) in Hsb. destruct Hsb as [_ Hsb].
      constructor; [apply irrefl|]. eapply Forall_impl; [|exact Hsb]. intros x Hx. now apply asym.
    + cbn [map fst] in Hrb. inversion Hrb; assumption.
  - cbn [count] in *. rewrite allkeys_node_app in Hr. apply Forall_app in Hr. destruct Hr as [Hra Hrb].
    pose proof Ho as Ho0.
    cbn [ordered] in Ho. destruct Ho as (Ha & Hso & Hak). rewrite map_app in Ha.
    pose proof Ha as Ha'. apply asc_SS in Ha'. apply (SS_app_iff K ltb) in Ha'. destruct Ha' as (Hsa & Hsb & Hab).
    pose proof (seps_ok_app_inv K V ltb _ _ Hso) as [Hso1 Hso2].
    apply all_kids_app in Hak. destruct Hak as [Hak1 Hak2].
    destruct d as [|d]; [simpl in Hb; tauto|]. cbn [bal] in Hb. destruct Hb as [_ Hb].
    apply all_kids_app in Hb. destruct Hb as [Hb1 Hb2].
    apply (cap_node K V) in Hc. destruct Hc as [_ Hc]. apply all_kids_app in Hc. destruct Hc as [Hc1 Hc2].
    assert (Hna : a <> []) by (destruct a; [simpl in La; lia|congruence]).
    assert (Hnc : c <> []) by (destruct c; [simpl in Lb; lia|congruence]).
    assert (Hol : ordered ltb (Node a)) by (cbn [ordered]; repeat split; auto; apply asc_SS; assumption).
    assert (Hor : ordered ltb (Node c)) by (cbn [ordered]; repeat split; auto; apply asc_SS; assumption).
    split; [split; [exact Hol|split; [exact Hra|split; [cbn [bal]; auto|apply (cap_node K V); split; [lia|exact Hc1]]]]|].
    split; [split; [exact Hor|split; [exact Hrb|split; [cbn [bal]; auto|apply (cap_node K V); split; [lia|exact Hc2]]]]|].
    repeat (split; [assumption|]).
    split; [destruct a as [|[s x] a]; [congruence|reflexivity]|].
    split; [apply (allkeys_node_app K V)|].
    split; [destruct a as [|[s x] a]; [congruence|eexists; reflexivity]|].
    destruct c as [|[s x] c]; [congruence|]. exists s. split; [reflexivity|]. split; [|split].
    + eapply (pre_below K V ltb HS); [|exact Hso]. apply asc_SS. rewrite map_app. exact Ha.
    + apply (smallest_le K V ltb HS); [exact Hor|reflexivity].
    + cbn [flat_map fst] in Hrb. inversion Hrb; assumption.
Qed.

(* ------------------------------------------------------------------------------------------------ *)
(* the node-level step of the descent (InsWantChild)                                                  *)
(* ------------------------------------------------------------------------------------------------ *)
Lemma frame_sep_hi order b d pre s (c : tree) post :
  sub_ok order b d (Node (pre ++ (s, c) :: post)) -> lt_hi ltb s (hi_of post (snd b)) = true.
Proof.
  intros Hok. destruct (frame_down K V ltb HS order b d pre s c post Hok) as (d' & Ed & _ & Hrs & Hss & Hs').
  destruct post as [|[s' c0] post]; [apply Hrs|]. cbn [hi_of lt_hi].
  rewrite map_app in Hss. cbn [map fst] in Hss. apply (SS_app_iff K ltb) in Hss. destruct Hss as (_ & Hss & _).
  apply (SS_cons_iff K ltb) in Hss. destruct Hss as [_ Hss]. inversion Hss; assumption.
Qed.

Definition new_sep (k : K) (index : nat) (s : K) (sm : res K) : res K :=
  if index =? 0 then x <- sm ;; Ok (if ltb k x then k else s) else Ok s.

Section Child.
Variables (order : nat) (b : option K * option K) (d : nat) (pre post : list (K * tree)) (s : K) (c : tree) (k : K).
Hypothesis Hok : sub_ok order b (S d) (Node (pre ++ (s, c) :: post)).
Hypothesis Hk : rng b k.
Hypothesis Hidx : 0 < length pre -> ltb k s = false.
Hypothesis Hpost : Forall (fun e : K * tree => ltb k (fst e) = true) post.
Variable sep' : K.
Hypothesis Hsep : new_sep k (length pre) s (smallest c) = Ok sep'.

Let hi' := hi_of post (snd b).

Lemma child_facts :
  sub_ok order (Some s, hi') d c /\ rng b s /\ (pre = [] \/ sep' = s) /\
  ltb k sep' = false /\ lt_hi ltb k hi' = true /\
  Forall (fun x => ltb x sep' = false) (allkeys c) /\
  rng (fst b, hi') sep' /\
  Forall (rng (fst b, hi')) (allkeys c) /\
  (forall sm, smallest c = Ok sm -> ltb sm sep' = false).
Proof.
  destruct (frame_down K V ltb HS order b (S d) pre s c post Hok) as (d' & Ed & Hc & Hrs & Hss & Hs').
  inversion Ed; subst d'. fold hi' in Hc.
  pose proof (frame_sep_hi order b (S d) pre s c post Hok) as Hshi. fold hi' in Hshi.
  destruct Hc as (Hco & Hcr & Hcb & Hcc).
  assert (Hcs : Forall (fun x => ltb x s = false) (allkeys c)).
  { eapply Forall_impl; [|exact Hcr]. intros x [Hx _]. simpl in Hx. apply negb_true_iff in Hx. exact Hx. }
  assert (Hkhi : lt_hi ltb k hi' = true).
  { subst hi'. destruct post as [|[s' c'] post']; [apply Hk|]. cbn [hi_of lt_hi]. inversion Hpost; assumption. }
  assert (Hcrng : Forall (rng (fst b, hi')) (allkeys c)).
  { eapply Forall_impl; [|exact Hcr]. intros x [Hx1 Hx2]. cbn [fst snd] in *. split; [|exact Hx2].
    simpl in Hx1. apply negb_true_iff in Hx1. eapply (ge_lo_trans K ltb HS); [exact Hx1|apply Hrs]. }
  split; [repeat split; assumption|]. split; [exact Hrs|].
  unfold new_sep in Hsep. destruct (length pre =? 0) eqn:E.
  - apply Nat.eqb_eq in E. destruct pre; [|discriminate].
    destruct (smallest c) as [sm|] eqn:Esm; [|discriminate]. cbn [bind] in Hsep. inversion Hsep; subst sep'; clear Hsep.
    pose proof (smallest_le K V ltb HS c sm Hco Esm) as Hsm.
    pose proof (smallest_in K V c sm Esm) as Hin.
    split; [now left|].
    destruct (ltb k sm) eqn:Ek.
    + split; [apply irrefl|]. split; [exact Hkhi|]. split; [|split; [|split]].
      * eapply Forall_impl; [|exact Hsm]. intros x Hx. cbn beta in Hx.
        destruct (ltb x k) eqn:Exk; auto. rewrite (trans _ _ _ Exk Ek) in Hx. discriminate.
      * split; [apply Hk|exact Hkhi].
      * exact Hcrng.
      * intros sm' E'. inversion E'; subst. now apply asym.
    + assert (Hks : ltb k s = false).
      { eapply negtrans; [exact Ek|]. rewrite Forall_forall in Hcs. apply Hcs. exact Hin. }
      split; [exact Hks|]. split; [exact Hkhi|]. split; [exact Hcs|]. split; [|split].
      * split; [apply Hrs|exact Hshi].
      * exact Hcrng.
      * intros sm' E'. inversion E'; subst. rewrite Forall_forall in Hcs. apply Hcs. exact Hin.
  - apply Nat.eqb_neq in E. inversion Hsep; subst sep'; clear Hsep.
    split; [now right|]. split; [apply Hidx; lia|]. split; [exact Hkhi|]. split; [exact Hcs|]. split; [|split].
    + split; [apply Hrs|exact Hshi].
    + exact Hcrng.
    + intros sm' E'. rewrite Forall_forall in Hcs. apply Hcs. now apply (smallest_in K V).
Qed.

(* no split: only the separator may change *)
Lemma child_nosplit :
  sub_ok order b (S d) (Node (pre ++ (sep', c) :: post)) /\ rng (Some sep', hi') k.
Proof.
  destruct child_facts as (Hc & Hrs & Hp & Hks & Hkhi & Hcs & Hsr & Hcr & _).
  destruct Hc as (Hco & _ & Hcb & Hcc).
  split; [|split; [simpl; rewrite Hks; reflexivity|exact Hkhi]].
  apply (node_replace K V ltb HS order b d pre s c post sep' c []); auto.
  - repeat constructor.
  - simpl. split; [exact Hcs|tauto].
  - simpl. tauto.
  - simpl. tauto.
  - simpl. tauto.
  - cbn [flat_map fst snd]. rewrite app_nil_r. constructor; assumption.
  - destruct Hok as (_ & _ & _ & Hcap). apply (cap_node K V) in Hcap. destruct Hcap as [Hl _].
    clear - Hl. cbn [count] in Hl. rewrite !app_length in *. cbn [length app] in *. lia.
Qed.

(* split: the right half becomes the next entry *)
Lemma child_split l r rs :
  2 <= order -> Nat.even order = true -> length (pre ++ (s, c) :: post) < order ->
  maybe_split order c = Some (l, r) -> smallest r = Ok rs ->
  sub_ok order b (S d) (Node (pre ++ (sep', l) :: (rs, r) :: post)) /\
  count l < order /\ count r < order /\
  (if ltb k rs then rng (Some sep', Some rs) k else rng (Some rs, hi') k).
Proof.
  intros H2 Hev Hlen Hm Hrs.
  destruct child_facts as (Hc & Hrss & Hp & Hks & Hkhi & Hcs & Hsr & Hcr & Hsm).
  assert (Hc' : sub_ok order (fst b, hi') d c).
  { destruct Hc as (A1 & _ & A3 & A4). repeat split; assumption. }
  destruct (split_ok order _ d c l r H2 Hev Hm Hc')
    as (Hl & Hr & Cl & Cr & Hh1 & Hh2 & Esm & Hak & [ls Els] & (rs' & Ers & Hlrs & Hrrs & Hrsr)).
  rewrite Hrs in Ers. inversion Ers; subst rs'; clear Ers.
  destruct Hl as (Hlo & Hlr & Hlb & Hlc). destruct Hr as (Hro & Hrr & Hrb & Hrc).
  rewrite Hak in Hcs. apply Forall_app in Hcs. destruct Hcs as [Hcsl Hcsr].
  assert (Hseprs : ltb sep' rs = true).
  { rewrite Esm in Els. pose proof (Hsm ls Els) as H1. rewrite <- Esm in Els.
    pose proof (smallest_in K V l ls Els) as Hin. rewrite Forall_forall in Hlrs. specialize (Hlrs ls Hin).
    eapply lelt; eauto. }
  split; [|split; [lia|split; [lia|]]].
  - change (pre ++ (sep', l) :: (rs, r) :: post) with (pre ++ ((sep', l) :: [(rs, r)]) ++ post).
    apply (node_replace K V ltb HS order b d pre s c post sep' l [(rs, r)]); auto.
    + cbn [map fst]. repeat constructor. exact Hseprs.
    + cbn [seps_ok]. split; [exact Hcsl|]. split; [exact Hlrs|]. split; [exact Hrrs|tauto].
    + simpl. tauto.
    + simpl. tauto.
    + simpl. tauto.
    + cbn [flat_map fst snd]. rewrite app_nil_r. constructor; [exact Hsr|].
      apply Forall_app. split; [exact Hlr|]. constructor; [exact Hrsr|exact Hrr].
    + clear - Hlen. rewrite !app_length in *. cbn [length app] in *. lia.
  - destruct (ltb k rs) eqn:Ekr.
    + split; simpl; [rewrite Hks; reflexivity|exact Ekr].
    + split; [simpl; rewrite Ekr; reflexivity|exact Hkhi].
Qed.

End Child.

(* ------------------------------------------------------------------------------------------------ *)
(* the root split                                                                                     *)
(* ------------------------------------------------------------------------------------------------ *)
Lemma root_split_ok order (t l r : tree) k ls rs :
  2 <= order -> Nat.even order = true -> tshape order t ->
  maybe_split order t = Some (l, r) -> smallest l = Ok ls -> smallest r = Ok rs ->
  let ls' := if ltb k ls then k else ls in
  tshape order (Node [(ls', l); (rs, r)]) /\ count l < order /\ count r < order /\
  (if ltb k rs then rng (Some ls', Some rs) k else rng (Some rs, None) k).
Proof.
  intros H2 Hev (Ho & [d Hb] & Hc) Hm Hls Hrs ls'.
  assert (Hok : sub_ok order (None, None) d t) by (apply (sub_ok_top K V ltb); auto).
  destruct (split_ok order _ d t l r H2 Hev Hm Hok)
    as (Hl & Hr & Cl & Cr & Hh1 & Hh2 & Esm & Hak & _ & (rs' & Ers & Hlrs & Hrrs & _)).
  rewrite Hrs in Ers. inversion Ers; subst rs'; clear Ers.
  destruct Hl as (Hlo & _ & Hlb & Hlc). destruct Hr as (Hro & _ & Hrb & Hrc).
  pose proof (smallest_le K V ltb HS l ls Hlo Hls) as Hlsm.
  pose proof (smallest_in K V l ls Hls) as Hin.
  assert (Hlsrs : ltb ls rs = true) by (rewrite Forall_forall in Hlrs; apply Hlrs; exact Hin).
  assert (Hkls : ltb k ls' = false).
  { subst ls'. destruct (ltb k ls) eqn:E; [apply irrefl|exact E]. }
  assert (Hls'rs : ltb ls' rs = true).
  { subst ls'. destruct (ltb k ls) eqn:E; [eapply trans; eauto|exact Hlsrs]. }
  assert (Hls' : Forall (fun x => ltb x ls' = false) (allkeys l)).
  { subst ls'. destruct (ltb k ls) eqn:E; [|exact Hlsm].
    eapply Forall_impl; [|exact Hlsm]. intros x Hx. cbn beta in Hx.
    destruct (ltb x k) eqn:Exk; auto. rewrite (trans _ _ _ Exk E) in Hx. discriminate. }
  split; [|split; [lia|split; [lia|]]].
  - split; [|split].
    + cbn [ordered map fst asc seps_ok all_kids]. unfold lt, le. repeat split; auto.
    + exists (S d). cbn [bal all_kids]. repeat split; auto. discriminate.
    + cbn [cap count length all_kids]. repeat split; auto.
  - destruct (ltb k rs) eqn:Ekr.
    + split; simpl; [rewrite Hkls; reflexivity|exact Ekr].
    + split; simpl; [rewrite Ekr; reflexivity|reflexivity].
Qed.

(* ------------------------------------------------------------------------------------------------ *)
(* F6: the node-level step for the NEW separator choice: the first separator is only ever lowered   *)
(* (sep' = key if index = 0 and key < sep, else sep); no reference to the child's smallest key.      *)
(* ------------------------------------------------------------------------------------------------ *)
Definition new_sep2 (k : K) (index : nat) (s : K) : K :=
  if index =? 0 then (if ltb k s then k else s) else s.

Section Child2.
Variables (order : nat) (b : option K * option K) (d : nat) (pre post : list (K * tree)) (s : K) (c : tree) (k : K).
Hypothesis Hok : sub_ok order b (S d) (Node (pre ++ (s, c) :: post)).
Hypothesis Hk : rng b k.
Hypothesis Hidx : 0 < length pre -> ltb k s = false.
Hypothesis Hpost : Forall (fun e : K * tree => ltb k (fst e) = true) post.
Variable sep' : K.
Hypothesis Hsep : new_sep2 k (length pre) s = sep'.

Let hi' := hi_of post (snd b).

Lemma child_facts2 :
  sub_ok order (Some s, hi') d c /\ rng b s /\ (pre = [] \/ sep' = s) /\
  ltb k sep' = false /\ lt_hi ltb k hi' = true /\
  Forall (fun x => ltb x sep' = false) (allkeys c) /\
  rng (fst b, hi') sep' /\
  Forall (rng (fst b, hi')) (allkeys c) /\
  (forall sm, smallest c = Ok sm -> ltb sm sep' = false).
Proof.
  destruct (frame_down K V ltb HS order b (S d) pre s c post Hok) as (d' & Ed & Hc & Hrs & Hss & Hs').
  inversion Ed; subst d'. fold hi' in Hc.
  pose proof (frame_sep_hi order b (S d) pre s c post Hok) as Hshi. fold hi' in Hshi.
  destruct Hc as (Hco & Hcr & Hcb & Hcc).
  assert (Hcs : Forall (fun x => ltb x s = false) (allkeys c)).
  { eapply Forall_impl; [|exact Hcr]. intros x [Hx _]. simpl in Hx. apply negb_true_iff in Hx. exact Hx. }
  assert (Hkhi : lt_hi ltb k hi' = true).
  { subst hi'. destruct post as [|[s' c'] post']; [apply Hk|]. cbn [hi_of lt_hi]. inversion Hpost; assumption. }
  assert (Hcrng : Forall (rng (fst b, hi')) (allkeys c)).
  { eapply Forall_impl; [|exact Hcr]. intros x [Hx1 Hx2]. cbn [fst snd] in *. split; [|exact Hx2].
    simpl in Hx1. apply negb_true_iff in Hx1. eapply (ge_lo_trans K ltb HS); [exact Hx1|apply Hrs]. }
  split; [repeat split; assumption|]. split; [exact Hrs|].
  unfold new_sep2 in Hsep. destruct (length pre =? 0) eqn:E.
  - apply Nat.eqb_eq in E. destruct pre; [|discriminate].
    split; [now left|].
    destruct (ltb k s) eqn:Ek; subst sep'.
    + split; [apply irrefl|]. split; [exact Hkhi|]. split; [|split; [|split]].
      * eapply Forall_impl; [|exact Hcs]. intros x Hx. cbn beta in Hx.
        destruct (ltb x k) eqn:Exk; auto. rewrite (trans _ _ _ Exk Ek) in Hx. discriminate.
      * split; [apply Hk|exact Hkhi].
      * exact Hcrng.
      * intros sm' E'. pose proof (smallest_in K V c sm' E') as Hin.
        rewrite Forall_forall in Hcs. specialize (Hcs sm' Hin).
        destruct (ltb sm' k) eqn:Exk; auto. rewrite (trans _ _ _ Exk Ek) in Hcs. discriminate.
    + split; [exact Ek|]. split; [exact Hkhi|]. split; [exact Hcs|]. split; [|split].
      * split; [apply Hrs|exact Hshi].
      * exact Hcrng.
      * intros sm' E'. rewrite Forall_forall in Hcs. apply Hcs. now apply (smallest_in K V).
  - apply Nat.eqb_neq in E. subst sep'.
    split; [now right|]. split; [apply Hidx; lia|]. split; [exact Hkhi|]. split; [exact Hcs|]. split; [|split].
    + split; [apply Hrs|exact Hshi].
    + exact Hcrng.
    + intros sm' E'. rewrite Forall_forall in Hcs. apply Hcs. now apply (smallest_in K V).
Qed.

(* no split: only the separator may change *)
Lemma child_nosplit2 :
  sub_ok order b (S d) (Node (pre ++ (sep', c) :: post)) /\ rng (Some sep', hi') k.
Proof.
  destruct child_facts2 as (Hc & Hrs & Hp & Hks & Hkhi & Hcs & Hsr & Hcr & _).
  destruct Hc as (Hco & _ & Hcb & Hcc).
  split; [|split; [simpl; rewrite Hks; reflexivity|exact Hkhi]].
  apply (node_replace K V ltb HS order b d pre s c post sep' c []); auto.
  - repeat constructor.
  - simpl. split; [exact Hcs|tauto].
  - simpl. tauto.
  - simpl. tauto.
  - simpl. tauto.
  - cbn [flat_map fst snd]. rewrite app_nil_r. constructor; assumption.
  - destruct Hok as (_ & _ & _ & Hcap). apply (cap_node K V) in Hcap. destruct Hcap as [Hl _].
    clear - Hl. cbn [count] in Hl. rewrite !app_length in *. cbn [length app] in *. lia.
Qed.

(* split: the right half becomes the next entry *)
Lemma child_split2 l r rs :
  2 <= order -> Nat.even order = true -> length (pre ++ (s, c) :: post) < order ->
  maybe_split order c = Some (l, r) -> smallest r = Ok rs ->
  sub_ok order b (S d) (Node (pre ++ (sep', l) :: (rs, r) :: post)) /\
  count l < order /\ count r < order /\
  (if ltb k rs then rng (Some sep', Some rs) k else rng (Some rs, hi') k).
Proof.
  intros H2 Hev Hlen Hm Hrs.
  destruct child_facts2 as (Hc & Hrss & Hp & Hks & Hkhi & Hcs & Hsr & Hcr & Hsm).
  assert (Hc' : sub_ok order (fst b, hi') d c).
  { destruct Hc as (A1 & _ & A3 & A4). repeat split; assumption. }
  destruct (split_ok order _ d c l r H2 Hev Hm Hc')
    as (Hl & Hr & Cl & Cr & Hh1 & Hh2 & Esm & Hak & [ls Els] & (rs' & Ers & Hlrs & Hrrs & Hrsr)).
  rewrite Hrs in Ers. inversion Ers; subst rs'; clear Ers.
  destruct Hl as (Hlo & Hlr & Hlb & Hlc). destruct Hr as (Hro & Hrr & Hrb & Hrc).
  rewrite Hak in Hcs. apply Forall_app in Hcs. destruct Hcs as [Hcsl Hcsr].
  assert (Hseprs : ltb sep' rs = true).
  { rewrite Esm in Els. pose proof (Hsm ls Els) as H1. rewrite <- Esm in Els.
    pose proof (smallest_in K V l ls Els) as Hin. rewrite Forall_forall in Hlrs. specialize (Hlrs ls Hin).
    eapply lelt; eauto. }
  split; [|split; [lia|split; [lia|]]].
  - change (pre ++ (sep', l) :: (rs, r) :: post) with (pre ++ ((sep', l) :: [(rs, r)]) ++ post).
    apply (node_replace K V ltb HS order b d pre s c post sep' l [(rs, r)]); auto.
    + cbn [map fst]. repeat constructor. exact Hseprs.
    + cbn [seps_ok]. split; [exact Hcsl|]. split; [exact Hlrs|]. split; [exact Hrrs|tauto].
    + simpl. tauto.
    + simpl. tauto.
    + simpl. tauto.
    + cbn [flat_map fst snd]. rewrite app_nil_r. constructor; [exact Hsr|].
      apply Forall_app. split; [exact Hlr|]. constructor; [exact Hrsr|exact Hrr].
    + clear - Hlen. rewrite !app_length in *. cbn [length app] in *. lia.
  - destruct (ltb k rs) eqn:Ekr.
    + split; simpl; [rewrite Hks; reflexivity|exact Ekr].
    + split; [simpl; rewrite Ekr; reflexivity|exact Hkhi].
Qed.

End Child2.

End Local.

Arguments new_sep {K} ltb k index s sm.
Arguments new_sep2 {K} ltb k index s.

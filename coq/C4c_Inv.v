(* C4c_Inv.v — [nogap_st_b] and [scan_lo_b] (NoGap.v) hold in every reachable state, given the three facts proved
   elsewhere (Section hypotheses nogap_step, nogap_init, scan_lo_other_step) and the own-step lemma of C4c_Own.v. *)
From Coq Require Import List Bool Lia PeanoNat.
From GB Require Import Model Inv Conc GI LockInv LockProof CInv CInv3 CIDef SoloBase LINc_Proof PCc_Proof OCCc_Base ASM_Proof
  C4_Lists C4_Blocks C4_Inv C4_Proof NoGap C4c_Own.
Import ListNotations.

Section Inv.
Variables (K V : Type) (ltb : K -> K -> bool).
Hypothesis HS : SWO ltb.
Variable order : nat.
Hypothesis Heven : Nat.even order = true.
Hypothesis H4 : 4 <= order.
Notation st := (st K V).
Notation BigInv := (BigInv K V ltb order).

Hypothesis nogap_step : forall (s s' : st) me acq ev,
  ASM_Proof.BigInv K V ltb order s -> nogap_st_b ltb s = true ->
  cstep ltb order s me = Stepped s' acq ev -> nogap_st_b ltb s' = true.
Hypothesis nogap_init : forall progs : list (tid * list (cop K V)), nogap_st_b ltb (init_st progs) = true.
Hypothesis scan_lo_other_step : forall (s s' : st) me acq ev t th,
  ASM_Proof.BigInv K V ltb order s -> nogap_st_b ltb s = true ->
  cstep ltb order s me = Stepped s' acq ev -> t <> me ->
  get_thread t (ths s) = Some th ->
  scan_lo_pc_b ltb (tr s) (prog th) (tpc th) = true ->
  scan_lo_pc_b ltb (tr s') (prog th) (tpc th) = true.

Theorem scan_lo_step : forall (s s' : st) me acq ev,
  BigInv s -> nogap_st_b ltb s = true -> scan_lo_b ltb s = true ->
  cstep ltb order s me = Stepped s' acq ev -> scan_lo_b ltb s' = true.
Proof.
  intros s s' me acq ev HB Hng Hsl Hc.
  assert (Hnd' : NoDup (map fst (ths s'))).
  { rewrite (step_thread_ids K V ltb order s s' me acq ev Hc). exact (BI_ths_nodup K V ltb order s HB). }
  unfold scan_lo_b. apply forallb_forall. intros [t th'] Hin. cbn [snd].
  pose proof (in_get_thread K V t th' (ths s') Hnd' Hin) as Hg'.
  destruct (Nat.eq_dec t me) as [->|Hne].
  - exact (scan_lo_own_step K V ltb HS order s s' me acq ev th' HB Hng Hsl Hc Hg').
  - rewrite (step_other_thread K V ltb order s s' me acq ev t Hc Hne) in Hg'.
    apply (scan_lo_other_step s s' me acq ev t th' HB Hng Hc Hne Hg').
    exact (scan_lo_get K V ltb s t th' Hsl Hg').
Qed.

Theorem scan_lo_init : forall progs : list (tid * list (cop K V)), scan_lo_b ltb (init_st progs) = true.
Proof.
  intros progs. unfold scan_lo_b, init_st. cbn [ths]. apply forallb_forall. intros e Hin.
  apply in_map_iff in Hin. destruct Hin as (p & <- & _). reflexivity.
Qed.

(* the invariant carried along a schedule *)
Definition LoInv (s : st) : Prop := CurInv ltb order s /\ nogap_st_b ltb s = true /\ scan_lo_b ltb s = true.

Lemma LoInv_step : forall (s s' : st) me acq ev, LoInv s -> cstep ltb order s me = Stepped s' acq ev -> LoInv s'.
Proof.
  intros s s' me acq ev (HI & Hng & Hsl) Hc. split; [|split].
  - exact (CurInv_step K V ltb HS order Heven H4 s s' me acq ev HI Hc).
  - exact (nogap_step s s' me acq ev (proj1 HI) Hng Hc).
  - exact (scan_lo_step s s' me acq ev (proj1 HI) Hng Hsl Hc).
Qed.

Lemma LoInv_exec : forall sched (s : st), LoInv s -> LoInv (fst (exec ltb order s sched)).
Proof.
  induction sched as [|t r IH]; intros s HI; simpl; [exact HI|].
  destruct (cstep ltb order s t) as [ | | |s' acq ev|p] eqn:Hc; try exact HI.
  specialize (IH s' (LoInv_step _ _ _ _ _ HI Hc)).
  destruct (exec ltb order s' r) as [s'' h]. exact IH.
Qed.

Theorem LoInv_reachable : forall (progs : list (tid * list (cop K V))) sched, NoDup (map fst progs) ->
  LoInv (fst (exec ltb order (init_st progs) sched)).
Proof.
  intros progs sched Hnd. apply LoInv_exec. split; [|split].
  - apply CurInv_init; assumption.
  - apply nogap_init.
  - apply scan_lo_init.
Qed.

Theorem scan_lo_reachable : forall (progs : list (tid * list (cop K V))) sched, NoDup (map fst progs) ->
  nogap_st_b ltb (fst (exec ltb order (init_st progs) sched)) = true /\
  scan_lo_b ltb (fst (exec ltb order (init_st progs) sched)) = true.
Proof. intros progs sched Hnd. exact (proj2 (LoInv_reachable progs sched Hnd)). Qed.

End Inv.

Arguments LoInv {K V} ltb order s.

Check scan_lo_step.
Check scan_lo_init.
Check scan_lo_reachable.
Print Assumptions scan_lo_reachable.

(* LINa_Lists.v — list-level facts for the linearization proof: filtering placeholder keys out of a sorted
   association list commutes with put / lookup for a key that is not a placeholder; the leaf-level searches of the
   concurrent model compute lookup. *)
From Coq Require Import List Bool Lia PeanoNat Sorted.
From GB Require Import Model Spec Inv ListLemmas SearchProof TreeLemmas UpsertProof.
Import ListNotations.

Section L.
Variables (K V : Type) (ltb : K -> K -> bool).
Hypothesis HS : SWO ltb.
Notation SS := (StronglySorted (fun a b => ltb a b = true)).
Notation irrefl := (irrefl K ltb HS).
Notation trans := (trans K ltb HS).
Notation asym := (asym K ltb HS).
Notation ltle := (ltle K ltb HS).
Notation lelt := (lelt K ltb HS).
Notation negtrans := (negtrans K ltb HS).

(* ---- equivalence of keys ---- *)
Lemma eqvb_true a b : eqvb ltb a b = true <-> ltb a b = false /\ ltb b a = false.
Proof. unfold eqvb. rewrite andb_true_iff, !negb_true_iff. tauto. Qed.

Lemma eqvb_sym a b : eqvb ltb a b = eqvb ltb b a.
Proof. unfold eqvb. apply andb_comm. Qed.

Lemma eqvb_lt_false a b : ltb a b = true -> eqvb ltb a b = false.
Proof. intros H. unfold eqvb. rewrite H. reflexivity. Qed.
Lemma eqvb_gt_false a b : ltb b a = true -> eqvb ltb a b = false.
Proof. intros H. unfold eqvb. rewrite H. apply andb_false_r. Qed.

Lemma eqvb_trans a b c : eqvb ltb a b = true -> eqvb ltb b c = true -> eqvb ltb a c = true.
Proof.
  rewrite !eqvb_true. intros [H1 H2] [H3 H4]. split; eapply negtrans; eauto.
Qed.

(* a key equivalent to one that is strictly on one side of k is not equivalent to k *)
Lemma eqvb_far k p q : eqvb ltb p q = true -> (ltb q k = true \/ ltb k q = true) -> eqvb ltb p k = false.
Proof.
  rewrite eqvb_true. intros [H1 H2] [H|H].
  - apply eqvb_lt_false. eapply lelt; eauto.
  - apply eqvb_gt_false. eapply ltle; eauto.
Qed.

(* ---- the filter ---- *)
Definition keepb (P : list K) (e : K * V) : bool := negb (existsb (fun k => eqvb ltb k (fst e)) P).
Definition absP (P : list K) (E : list (K * V)) : list (K * V) := filter (keepb P) E.

Lemma keepb_app A B e : keepb (A ++ B) e = keepb A e && keepb B e.
Proof. unfold keepb. rewrite existsb_app, negb_orb. reflexivity. Qed.

Lemma absP_ext P Q E : (forall e, keepb P e = keepb Q e) -> absP P E = absP Q E.
Proof. intros H. unfold absP. apply filter_ext. exact H. Qed.

Lemma filter_andb {A} (a b : A -> bool) l : filter (fun e => a e && b e) l = filter a (filter b l).
Proof.
  induction l as [|x l IH]; simpl; [reflexivity|].
  destruct (b x) eqn:Eb; simpl; [|rewrite andb_false_r; exact IH].
  rewrite andb_true_r. destruct (a x); [f_equal|]; exact IH.
Qed.

Lemma absP_app A B E : absP (A ++ B) E = absP A (absP B E).
Proof.
  unfold absP. rewrite <- filter_andb. apply filter_ext. intros e. apply keepb_app.
Qed.

Lemma absP_nil E : absP [] E = E.
Proof.
  unfold absP, keepb. simpl. induction E as [|e E IH]; simpl; [reflexivity|]. now rewrite IH.
Qed.

(* own placeholders [B] between the others' [A], [C] *)
Lemma absP_mid A B C E : absP (A ++ B ++ C) E = absP (A ++ C) (absP B E).
Proof.
  rewrite <- absP_app. apply absP_ext. intros e. rewrite !keepb_app.
  destruct (keepb A e), (keepb B e), (keepb C e); reflexivity.
Qed.

Lemma absP_In P E e : In e (absP P E) -> In e E.
Proof. unfold absP. intros H. apply filter_In in H. tauto. Qed.

Lemma absP_Forall (Q : K * V -> Prop) P E : Forall Q E -> Forall Q (absP P E).
Proof. rewrite !Forall_forall. intros H e He. apply H. eapply absP_In; eauto. Qed.

Lemma absP_SS P E : SS (map fst E) -> SS (map fst (absP P E)).
Proof.
  induction E as [|[k v] E IH]; simpl; intros H; [constructor|].
  apply (SS_cons_iff K ltb) in H. destruct H as [H1 H2].
  unfold absP in *. simpl. destruct (keepb P (k, v)); [|auto].
  simpl. apply (SS_cons_iff K ltb). split; [auto|].
  rewrite Forall_map in *. apply (absP_Forall _ P E H2).
Qed.

Lemma absP_id P E : Forall (fun e => keepb P e = true) E -> absP P E = E.
Proof.
  induction E as [|e E IH]; intros H; [reflexivity|]. inversion H; subst. unfold absP in *. simpl.
  rewrite H2. f_equal. auto.
Qed.

Lemma keepb_one k e : keepb [k] e = negb (eqvb ltb k (fst e)).
Proof. unfold keepb. simpl. rewrite orb_false_r. reflexivity. Qed.

(* k is not (equivalent to) a key in P *)
Definition fresh_for (k : K) (P : list K) : Prop := Forall (fun p => eqvb ltb p k = false) P.

Lemma keepb_fresh k P v : fresh_for k P -> keepb P (k, v) = true.
Proof.
  intros H. unfold keepb. apply negb_true_iff. simpl.
  induction H as [|p P Hp _ IH]; simpl; [reflexivity|]. rewrite Hp. exact IH.
Qed.

Lemma keepb_eqv P k k' v v' : eqvb ltb k k' = true -> keepb P (k, v) = keepb P (k', v').
Proof.
  intros H. unfold keepb. f_equal. simpl. induction P as [|p P IH]; simpl; [reflexivity|]. rewrite IH. f_equal.
  apply eqvb_true in H. destruct H as [H1 H2].
  unfold eqvb.
  assert (E1 : ltb p k = ltb p k').
  { destruct (ltb p k) eqn:A, (ltb p k') eqn:B; try reflexivity.
    - rewrite (negtrans _ _ _ B H2) in A. discriminate.
    - rewrite (negtrans _ _ _ A H1) in B. discriminate. }
  assert (E2 : ltb k p = ltb k' p).
  { destruct (ltb k p) eqn:A, (ltb k' p) eqn:B; try reflexivity.
    - rewrite (negtrans _ _ _ H1 B) in A. discriminate.
    - rewrite (negtrans _ _ _ H2 A) in B. discriminate. }
  rewrite E1, E2. reflexivity.
Qed.

Lemma put_above k f (M : list (K * V)) :
  Forall (fun e => ltb k (fst e) = true) M -> put ltb k f M = (k, f None) :: M.
Proof. destruct M as [|[k' v] M]; [reflexivity|]. intros H. inversion H; subst. simpl in *. now rewrite H2. Qed.

Lemma lookup_above k (M : list (K * V)) :
  Forall (fun e => ltb k (fst e) = true) M -> lookup ltb k M = None.
Proof. destruct M as [|[k' v] M]; [reflexivity|]. intros H. inversion H; subst. simpl in *. now rewrite H2. Qed.

Lemma SS_tail_above k v (M : list (K * V)) k0 :
  SS (map fst ((k, v) :: M)) -> ltb k0 k = true -> Forall (fun e => ltb k0 (fst e) = true) M.
Proof.
  simpl. intros H Hk. apply (SS_cons_iff K ltb) in H. destruct H as [_ H]. rewrite Forall_map in H.
  eapply Forall_impl; [|exact H]. intros e He. eapply trans; eauto.
Qed.

Theorem absP_put P k f (M : list (K * V)) :
  SS (map fst M) -> fresh_for k P -> absP P (put ltb k f M) = put ltb k f (absP P M).
Proof.
  intros Hs Hk. induction M as [|[k' v] M IH]; cbn [put].
  - unfold absP. simpl. rewrite (keepb_fresh k P _ Hk). reflexivity.
  - pose proof Hs as Hs0. simpl in Hs. apply (SS_cons_iff K ltb) in Hs. destruct Hs as [Hs1 Hs2].
    destruct (ltb k k') eqn:E1.
    + assert (Hall : Forall (fun e => ltb k (fst e) = true) ((k', v) :: M)).
      { constructor; [exact E1|]. eapply SS_tail_above; eauto. }
      rewrite (put_above k f (absP P ((k', v) :: M))) by (apply absP_Forall; exact Hall).
      unfold absP at 1. cbn [filter]. rewrite (keepb_fresh k P _ Hk). reflexivity.
    + destruct (ltb k' k) eqn:E2.
      * unfold absP in *. cbn [filter]. destruct (keepb P (k', v)).
        -- cbn [put]. rewrite E1, E2. f_equal. apply IH. exact Hs1.
        -- apply IH. exact Hs1.
      * assert (Heq : eqvb ltb k k' = true) by (apply eqvb_true; auto).
        unfold absP. cbn [filter].
        rewrite <- (keepb_eqv P k k' (f (Some v)) (f (Some v)) Heq), <- (keepb_eqv P k k' v v Heq).
        rewrite (keepb_fresh k P _ Hk), (keepb_fresh k P _ Hk). cbn [put]. rewrite E1, E2. reflexivity.
Qed.

Theorem absP_lookup P k (M : list (K * V)) :
  SS (map fst M) -> fresh_for k P -> lookup ltb k (absP P M) = lookup ltb k M.
Proof.
  intros Hs Hk. induction M as [|[k' v] M IH]; [reflexivity|].
  pose proof Hs as Hs0. simpl in Hs. apply (SS_cons_iff K ltb) in Hs. destruct Hs as [Hs1 Hs2].
  cbn [lookup]. destruct (ltb k k') eqn:E1.
  - apply lookup_above. apply absP_Forall. constructor; [exact E1|]. eapply SS_tail_above; eauto.
  - destruct (ltb k' k) eqn:E2.
    + unfold absP in *. cbn [filter]. destruct (keepb P (k', v)); [|auto].
      cbn [lookup]. rewrite E1, E2. auto.
    + assert (Heq : eqvb ltb k k' = true) by (apply eqvb_true; auto).
      unfold absP. cbn [filter]. rewrite <- (keepb_eqv P k k' v v Heq), (keepb_fresh k P _ Hk).
      cbn [lookup]. rewrite E1, E2. reflexivity.
Qed.

(* ---- a key stored as a placeholder ---- *)
Lemma absP_one_id k (E : list (K * V)) :
  Forall (fun e => ltb (fst e) k = true \/ ltb k (fst e) = true) E -> absP [k] E = E.
Proof.
  intros H. apply absP_id. eapply Forall_impl; [|exact H]. intros e He. rewrite keepb_one. apply negb_true_iff.
  destruct He as [He|He]; [apply eqvb_gt_false|apply eqvb_lt_false]; exact He.
Qed.

Lemma SS_mid_sides (A : list (K * V)) k w B :
  SS (map fst (A ++ (k, w) :: B)) ->
  Forall (fun e => ltb (fst e) k = true) A /\ Forall (fun e => ltb k (fst e) = true) B.
Proof.
  rewrite map_app. cbn [map fst]. intros H. apply (SS_app_iff K ltb) in H. destruct H as (_ & H2 & H3).
  apply (SS_cons_iff K ltb) in H2. destruct H2 as [_ H2]. rewrite Forall_map in *. split; [|exact H2].
  eapply Forall_impl; [|exact H3]. intros e He. inversion He; assumption.
Qed.

(* removing the placeholder entry; then the callback's store is the specification's put *)
Lemma placeholder_store (A : list (K * V)) k w B (f : option V -> V) :
  SS (map fst (A ++ (k, w) :: B)) ->
  absP [k] (A ++ (k, w) :: B) = A ++ B /\
  put ltb k f (A ++ B) = A ++ (k, f None) :: B /\
  lookup ltb k (A ++ B) = None.
Proof.
  intros H. destruct (SS_mid_sides A k w B H) as [HA HB]. split; [|split].
  - unfold absP. rewrite filter_app. cbn [filter]. rewrite keepb_one. cbn [fst].
    assert (E : eqvb ltb k k = true) by (apply eqvb_true; split; apply irrefl). rewrite E. cbn [negb].
    f_equal; apply absP_one_id.
    + eapply Forall_impl; [|exact HA]. intros; now left.
    + eapply Forall_impl; [|exact HB]. intros; now right.
  - rewrite (put_app_below K V ltb HS k f A B HA). f_equal. apply put_above. exact HB.
  - rewrite (lookup_app_below K V ltb HS k A B HA). apply lookup_above. exact HB.
Qed.

(* storing an absent key as a placeholder does not change the filtered list *)
Lemma placeholder_insert k g (E : list (K * V)) :
  SS (map fst E) -> lookup ltb k E = None -> absP [k] (put ltb k g E) = E.
Proof.
  intros Hs Hl. induction E as [|[k' v] E IH]; cbn [put].
  - unfold absP. cbn [filter]. rewrite keepb_one. cbn [fst].
    assert (E : eqvb ltb k k = true) by (apply eqvb_true; split; apply irrefl). rewrite E. reflexivity.
  - pose proof Hs as Hs0. simpl in Hs. apply (SS_cons_iff K ltb) in Hs. destruct Hs as [Hs1 Hs2].
    cbn [lookup] in Hl. destruct (ltb k k') eqn:E1.
    + unfold absP. cbn [filter]. rewrite keepb_one. cbn [fst].
      assert (Ek : eqvb ltb k k = true) by (apply eqvb_true; split; apply irrefl). rewrite Ek. cbn [negb].
      change (absP [k] ((k', v) :: E) = (k', v) :: E).
      apply absP_one_id. constructor; [right; exact E1|].
      eapply Forall_impl; [|exact (SS_tail_above _ _ _ _ Hs0 E1)]. intros; now right.
    + destruct (ltb k' k) eqn:E2; [|discriminate Hl].
      unfold absP in *. cbn [filter]. rewrite keepb_one. cbn [fst].
      rewrite (eqvb_gt_false k k' E2). cbn [negb]. f_equal. apply IH; assumption.
Qed.

(* ---- what the leaf-level code computes ---- *)
Lemma leaf_search_lookup k (es : list (K * V)) r :
  SS (map fst es) ->
  (match es with [] => Ok None | _ =>
     i <- search_ge ltb k (map fst es) ;; '(k', v) <- get_nth i es ;;
     Ok (if eqvb ltb k k' then Some v else None) end) = Ok r ->
  r = lookup ltb k es.
Proof.
  intros Hs H. destruct es as [|e0 es0]; [inversion H; reflexivity|].
  set (es := e0 :: es0) in *.
  assert (Hne : es <> []) by discriminate.
  destruct (search_ge_split K ltb HS k es (proj2 (asc_SS K ltb HS _) Hs) Hne)
    as (index & pre & k0 & v & post & Hsearch & Hsplit & Hlen & Hpre & Hk0).
  rewrite Hsearch in H. cbn [bind] in H. subst index. rewrite Hsplit in H. rewrite get_nth_app in H. cbn [bind] in H.
  inversion H; subst r; clear H. rewrite Hsplit.
  rewrite (lookup_app_below K V ltb HS k pre _ Hpre). cbn [lookup]. unfold eqvb.
  destruct Hk0 as [Hk0|[-> Hk0]].
  - rewrite Hk0. destruct (ltb k k0); reflexivity.
  - rewrite Hk0, (asym _ _ Hk0). reflexivity.
Qed.

Lemma mode1_store k k' v' i (f : option V -> V) (es : list (K * V)) :
  SS (map fst es) -> nth_error es i = Some (k', v') -> eqvb ltb k k' = true ->
  set_nth i (k', f (Some v')) es = put ltb k f es /\ lookup ltb k es = Some v'.
Proof.
  intros Hs Hn He. destruct (nth_error_split es i Hn) as (A & B & -> & <-).
  destruct (SS_mid_sides A k' v' B Hs) as [HA HB]. apply eqvb_true in He. destruct He as [H1 H2].
  assert (HA' : Forall (fun e : K * V => ltb (fst e) k = true) A).
  { eapply Forall_impl; [|exact HA]. intros e He. exact (ltle _ _ _ He H1). }
  rewrite set_nth_app, (put_app_below K V ltb HS k f A _ HA'), (lookup_app_below K V ltb HS k A _ HA').
  cbn [put lookup]. rewrite H1, H2. split; reflexivity.
Qed.

Lemma mode0_store k (f : option V -> V) (es : list (K * V)) :
  SS (map fst es) ->
  (match last (map (fun e => Some (fst e)) es) None with None => true | Some lk => ltb lk k end) = true ->
  es ++ [(k, f None)] = put ltb k f es /\ lookup ltb k es = None.
Proof.
  intros Hs Hl. pose proof (leaf_upsert_spec K V ltb HS k f es Hs) as H.
  unfold leaf_upsert in H. destruct (last (map (fun e => Some (fst e)) es) None) as [lk|].
  - rewrite Hl in H. inversion H. split; reflexivity.
  - inversion H. split; reflexivity.
Qed.

Lemma mode2_insert (es : list (K * V)) key lastk index k' v' :
  SS (map fst es) ->
  last (map (fun e => Some (fst e)) es) None = Some lastk -> ltb lastk key = false ->
  search_ge ltb key (map fst es) = Ok index -> get_nth index es = Ok (k', v') -> eqvb ltb key k' = false ->
  ins_nth index (key, v') es = put ltb key (fun _ => v') es /\ lookup ltb key es = None /\
  nth_error (ins_nth index (key, v') es) index = Some (key, v').
Proof.
  intros Hs Hl Hlk Hse Hg He.
  pose proof (leaf_upsert_spec K V ltb HS key (fun _ => v') es Hs) as H.
  unfold leaf_upsert in H. rewrite Hl, Hlk, Hse in H. cbn [bind] in H. rewrite Hg in H. cbn [bind] in H.
  rewrite He in H. inversion H. split; [reflexivity|]. split; [reflexivity|].
  unfold get_nth in Hg. destruct (nth_error es index) eqn:En; [|discriminate].
  assert (Hi : index < length es) by (apply nth_error_Some; congruence).
  unfold ins_nth. rewrite nth_error_app2; rewrite firstn_length; [|lia].
  replace (index - Nat.min index (length es)) with 0 by lia. reflexivity.
Qed.

(* ---- a leaf's entries inside the whole map ---- *)
Lemma put_in_ctx k f (L es R : list (K * V)) :
  Forall (fun e => ltb (fst e) k = true) L -> Forall (fun e => ltb k (fst e) = true) R ->
  put ltb k f (L ++ es ++ R) = L ++ put ltb k f es ++ R.
Proof.
  intros HL HR. rewrite (put_app_below K V ltb HS k f L _ HL), (put_app_above K V ltb k f es R HR). reflexivity.
Qed.

Lemma lookup_in_ctx k (L es R : list (K * V)) :
  Forall (fun e => ltb (fst e) k = true) L -> Forall (fun e => ltb k (fst e) = true) R ->
  lookup ltb k (L ++ es ++ R) = lookup ltb k es.
Proof.
  intros HL HR. rewrite (lookup_app_below K V ltb HS k L _ HL), (lookup_app_above K V ltb k es R HR). reflexivity.
Qed.

End L.

Arguments keepb {K V} ltb P e.
Arguments absP {K V} ltb P E.
Arguments fresh_for {K} ltb k P.

(* C4b_Final.v — property C04, general completeness of a scan, for every REACHABLE state of the concurrent model
   (premises as in Final.v / C4_Final.v: strict weak order, even order >= 4, distinct thread ids, EVERY schedule):
   the theorems of C4b_Proof.v instantiated with CurInv_reachable. *)
From Coq Require Import List PeanoNat.
From GB Require Import Model Inv Conc GI Lin LinDef C4_Lists C4_Blocks C4_Inv C4_Proof C4_Trace C4b_Blocks C4b_Proof.
Import ListNotations.

Section Final.
Variables (K V : Type) (ltb : K -> K -> bool).
Hypothesis HS : SWO ltb.
Variable order : nat.
Hypothesis Heven : Nat.even order = true.
Hypothesis H4 : 4 <= order.
Variable progs : list (tid * list (cop K V)).
Hypothesis Hnd : NoDup (map fst progs).

(* a reachable state *)
Variable sched : list tid.
Let s := fst (exec ltb order (init_st progs) sched).

Let reach_inv : CurInv ltb order s := CurInv_reachable K V ltb HS order Heven H4 progs sched Hnd.

(* GENERAL COMPLETENESS: s is a reachable state in which thread me is about to invoke CScan k cnt; sched2 is any
   continuation during which me does not return from that call and x (key not below k) stays stored; if me's next
   step reports the end of the scan, x is among the pairs it returns.  No assumption on how NewScanner landed. *)
Theorem C04_complete_general : forall me k cnt th sched2 x s2 acq ev,
  get_thread me (ths s) = Some th -> tpc th = Idle -> hd_error (prog th) = Some (CScan k cnt) ->
  ltb (fst x) k = false ->
  along K V ltb order (fun s1 => In x (abs ltb s1) /\ calling me (prog th) s1) s sched2 ->
  cstep ltb order (fst (exec ltb order s sched2)) me = Stepped s2 acq ev -> In EScanEnd ev ->
  exists acc, In x acc /\ ev = [EScanEnd; EReturn (RPairs (rev acc))].
Proof.
  intros me k cnt th sched2 x s2 acq ev Hg Hpc Hpr Hxk Hal Hc Hin.
  exact (scan_complete_general K V ltb HS order Heven H4 s me k cnt th sched2 x s2 acq ev reach_inv Hg Hpc Hpr Hxk Hal Hc Hin).
Qed.

(* the same, observed from a state in which the call has been invoked but the descent does not yet rest on an
   internal node (pc WantT / WantRoot) *)
Theorem C04_complete_invoked : forall me k cnt th sched2 x s2 acq ev,
  get_thread me (ths s) = Some th -> hd_error (prog th) = Some (CScan k cnt) ->
  is_seapc (tpc th) = false -> is_cur (tpc th) = false ->
  ltb (fst x) k = false ->
  along K V ltb order (fun s1 => In x (abs ltb s1) /\ calling me (prog th) s1) s sched2 ->
  cstep ltb order (fst (exec ltb order s sched2)) me = Stepped s2 acq ev -> In EScanEnd ev ->
  exists acc, In x acc /\ ev = [EScanEnd; EReturn (RPairs (rev acc))].
Proof.
  intros me k cnt th sched2 x s2 acq ev Hg Hpr Hns Hnc Hxk Hal Hc Hin.
  exact (scan_complete_invoked K V ltb HS order Heven H4 s me k cnt th sched2 x s2 acq ev reach_inv Hg Hpr Hns Hnc Hxk Hal Hc Hin).
Qed.

(* from any reachable state of the life of the call in which the life invariant holds *)
Theorem C04_complete_life : forall sched2 me k cnt x s2 acq ev,
  ltb (fst x) k = false ->
  along K V ltb order (fun s1 => In x (abs ltb s1) /\ scan_head me k cnt s1) s sched2 ->
  Life ltb me k cnt x s ->
  cstep ltb order (fst (exec ltb order s sched2)) me = Stepped s2 acq ev -> In EScanEnd ev ->
  exists acc, In x acc /\ ev = [EScanEnd; EReturn (RPairs (rev acc))].
Proof.
  intros sched2 me k cnt x s2 acq ev Hxk Hal HL Hc Hin.
  exact (scan_complete_life K V ltb HS order Heven H4 sched2 s me k cnt x s2 acq ev reach_inv Hxk Hal HL Hc Hin).
Qed.

(* the prefix yielded so far is complete *)
Theorem C04_prefix_general : forall me k cnt th sched2 x th1,
  get_thread me (ths s) = Some th -> tpc th = Idle -> hd_error (prog th) = Some (CScan k cnt) ->
  ltb (fst x) k = false ->
  along K V ltb order (fun s1 => In x (abs ltb s1) /\ calling me (prog th) s1) s sched2 ->
  get_thread me (ths (fst (exec ltb order s sched2))) = Some th1 -> is_cur (tpc th1) = true ->
  In x (yielded (tpc th1)) \/
  (exists e1 r, yielded (tpc th1) = e1 :: r /\ ltb (fst e1) (fst x) = true) \/
  yielded (tpc th1) = [].
Proof.
  intros me k cnt th sched2 x th1 Hg Hpc Hpr Hxk Hal Hg1 Hcur1.
  exact (scan_prefix_general K V ltb HS order Heven H4 s me k cnt th sched2 x th1 reach_inv Hg Hpc Hpr Hxk Hal Hg1 Hcur1).
Qed.

(* the scan closed after cnt Scan steps *)
Theorem C04_closed_general : forall me k cnt th sched2 x th1 leaf i acc s2 acq ev,
  get_thread me (ths s) = Some th -> tpc th = Idle -> hd_error (prog th) = Some (CScan k cnt) ->
  ltb (fst x) k = false ->
  along K V ltb order (fun s1 => In x (abs ltb s1) /\ calling me (prog th) s1) s sched2 ->
  get_thread me (ths (fst (exec ltb order s sched2))) = Some th1 -> tpc th1 = CurRest leaf i 0 acc ->
  cstep ltb order (fst (exec ltb order s sched2)) me = Stepped s2 acq ev ->
  ev = [EReturn (RPairs (rev acc))] /\
  (In x acc \/ (exists e1 r, acc = e1 :: r /\ ltb (fst e1) (fst x) = true) \/ acc = []).
Proof.
  intros me k cnt th sched2 x th1 leaf i acc s2 acq ev Hg Hpc Hpr Hxk Hal Hg1 Hpc1 Hc.
  exact (scan_closed_general K V ltb HS order Heven H4 s me k cnt th sched2 x th1 leaf i acc s2 acq ev
           reach_inv Hg Hpc Hpr Hxk Hal Hg1 Hpc1 Hc).
Qed.

End Final.

Print Assumptions C04_complete_general.
Print Assumptions C04_complete_invoked.
Print Assumptions C04_complete_life.
Print Assumptions C04_prefix_general.
Print Assumptions C04_closed_general.

(* TB_Link.v — invariants relating the instrumented state to the trace that led to it, and their preservation by
   an instrumented step (using only the classification [skind] of TB_Trace.v, i.e. [lin_step_ok] and facts read off
   the definition of [cstep]).
     Good T      : every return in T closes a call: matching invocation before it, no other invocation / return of
                   the thread in between, and (point operations) exactly one linearization point of the thread in
                   between, of the call's specification operation, whose recorded answer is the returned result.
     Link T i    : the same for the calls still in flight in i, with the ghost entry telling whether the call is
                   already linearized and with which answer.
     Seq P0 T i  : per thread, the linearization points taken so far followed by the specification operations of the
                   calls still to be linearized are the thread's whole program (P0). *)
From Coq Require Import List Bool PeanoNat Lia.
From GB Require Import LinDef SoloBase LINc_Blocks LINc_Proof TB_Trace.
Import ListNotations.

Section Link.
Variables (K V : Type) (ltb : K -> K -> bool).
Variable order : nat.
Notation st := (st K V).
Notation thread := (thread K V).
Notation cop := (cop K V).
Notation event := (event K V).
Notation ores := (ores K V).
Notation istate := (istate K V).
Notation pc := (pc K V).
Notation irec := (irec K V).

(* ---- positions of a trace ---- *)
Definition at_ (T : list irec) (j : nat) (P : irec -> Prop) : Prop := exists r, nth_error T j = Some r /\ P r.
Definition none_in (T : list irec) (P : irec -> Prop) (lo hi : nat) : Prop := forall j, lo <= j < hi -> ~ at_ T j P.

Definition is_inv (t : tid) (o : cop) (r : irec) : Prop := r_tid r = t /\ In (EInvoke o) (r_ev r).
Definition is_ret (t : tid) (x : ores) (r : irec) : Prop := r_tid r = t /\ In (EReturn x) (r_ev r).
Definition is_lp (t : tid) (po : op K V) (x : obs V) (r : irec) : Prop := r_tid r = t /\ r_lp r = Some (po, x).
Definition is_inv_any (t : tid) (r : irec) : Prop := r_tid r = t /\ exists o, In (EInvoke o) (r_ev r).
Definition is_ret_any (t : tid) (r : irec) : Prop := r_tid r = t /\ exists x, In (EReturn x) (r_ev r).
Definition is_lp_any (t : tid) (r : irec) : Prop := r_tid r = t /\ r_lp r <> None.

Lemma at_lt T j P : at_ T j P -> j < length T.
Proof. intros (r & H & _). apply nth_error_Some. rewrite H. discriminate. Qed.
Lemma at_app_l T T' j P : j < length T -> (at_ (T ++ T') j P <-> at_ T j P).
Proof. intros Hj. unfold at_. rewrite nth_error_app1 by exact Hj. reflexivity. Qed.
Lemma at_app_l1 T T' j P : at_ T j P -> at_ (T ++ T') j P.
Proof. intros H. apply at_app_l; [eapply at_lt; exact H|exact H]. Qed.
Lemma at_last T r P : at_ (T ++ [r]) (length T) P <-> P r.
Proof.
  unfold at_. rewrite nth_error_app2 by apply Nat.le_refl. rewrite Nat.sub_diag. simpl. split.
  - intros (r' & E & H). inversion E; subst. exact H.
  - intros H. exists r. split; [reflexivity|exact H].
Qed.
Lemma at_snoc T r j P : at_ (T ++ [r]) j P -> (j < length T /\ at_ T j P) \/ (j = length T /\ P r).
Proof.
  intros H. pose proof (at_lt _ _ _ H) as Hl. rewrite app_length in Hl. simpl in Hl.
  destruct (Nat.eq_dec j (length T)) as [->|Hne].
  - right. split; [reflexivity|]. exact (proj1 (at_last T r P) H).
  - left. assert (Hj : j < length T) by lia. split; [exact Hj|]. exact (proj1 (at_app_l T [r] j P Hj) H).
Qed.

Lemma none_in_app_l T T' P lo hi : hi <= length T -> none_in T P lo hi -> none_in (T ++ T') P lo hi.
Proof. intros Hh H j Hj X. apply (H j Hj). assert (Hl : j < length T) by lia. exact (proj1 (at_app_l T T' j P Hl) X). Qed.
Lemma none_in_snoc T r P lo : none_in T P lo (length T) -> ~ P r -> none_in (T ++ [r]) P lo (S (length T)).
Proof.
  intros H Hr j Hj X. destruct (at_snoc _ _ _ _ X) as [[Hl X']|[_ X']]; [|exact (Hr X')].
  apply (H j); [lia|exact X'].
Qed.
Lemma none_in_empty T P lo hi : hi <= lo -> none_in T P lo hi.
Proof. intros H j Hj. lia. Qed.
Lemma none_in_beyond T P lo hi : length T <= lo -> none_in T P lo hi.
Proof. intros H j Hj X. apply at_lt in X. lia. Qed.
Lemma none_in_weaken T P lo hi lo' hi' : lo <= lo' -> hi' <= hi -> none_in T P lo hi -> none_in T P lo' hi'.
Proof. intros A B H j Hj. apply H. lia. Qed.

(* ---- the statement about one completed call ---- *)
(* [a, n] is one call of t: invoked at a with o, no other invocation of t in (a, n], no return of t in [a, n) *)
Definition window (T : list irec) (t : tid) (a n : nat) (o : cop) : Prop :=
  a <= n /\ at_ T a (is_inv t o) /\ none_in T (is_inv_any t) (S a) (S n) /\ none_in T (is_ret_any t) a n.

(* m is the one and only linearization point of t in [a, n]; it is of operation po with answer x *)
Definition only_lp (T : list irec) (t : tid) (a n m : nat) (po : op K V) (x : obs V) : Prop :=
  a <= m <= n /\ at_ T m (is_lp t po x) /\ none_in T (is_lp_any t) a m /\ none_in T (is_lp_any t) (S m) (S n).

Definition completed (T : list irec) (n : nat) (t : tid) (res : ores) : Prop :=
  exists a o, window T t a n o /\
    (is_scan o = false ->
     exists m po x, only_lp T t a n m po x /\ spec_op o = Some po /\ ores_of_obs K x = res).

Definition Good (T : list irec) : Prop := forall n t res, at_ T n (is_ret t res) -> completed T n t res.

Lemma completed_app T T' n t res : n < length T -> completed T n t res -> completed (T ++ T') n t res.
Proof.
  intros Hn (a & o & (W1 & W2 & W3 & W4) & HL). exists a, o. split.
  - split; [exact W1|]. split; [apply at_app_l1; exact W2|].
    split; apply none_in_app_l; try assumption; lia.
  - intros Hsc. destruct (HL Hsc) as (m & po & x & ((M1 & M2) & M3 & M4 & M5) & R1 & R2).
    exists m, po, x. split; [|split; assumption].
    split; [split; assumption|]. split; [apply at_app_l1; exact M3|].
    split; apply none_in_app_l; try assumption; lia.
Qed.

Lemma Good_nil : Good [].
Proof. intros n t res H. apply at_lt in H. simpl in H. lia. Qed.

(* ---- the calls in flight ---- *)
Definition link_thread (T : list irec) (g : option (obs V)) (t : tid) (th : thread) : Prop :=
  tpc th <> Idle ->
  exists a o rest, prog th = o :: rest /\ pc_for (tpc th) o /\ a < length T /\
    at_ T a (is_inv t o) /\ none_in T (is_inv_any t) (S a) (length T) /\ none_in T (is_ret_any t) a (length T) /\
    match g with
    | None => none_in T (is_lp_any t) a (length T)
    | Some x => exists m po, a <= m < length T /\ at_ T m (is_lp t po x) /\ spec_op o = Some po /\
                  none_in T (is_lp_any t) a m /\ none_in T (is_lp_any t) (S m) (length T)
    end.

Definition Link (T : list irec) (i : istate) : Prop :=
  forall t th, get_thread t (ths (is_st i)) = Some th -> link_thread T (gget (is_ghost i) t) t th.

(* a record of another thread changes nothing for t *)
Lemma link_thread_other T g t th r : r_tid r <> t -> link_thread T g t th -> link_thread (T ++ [r]) g t th.
Proof.
  intros Hne H Hp. destruct (H Hp) as (a & o & rest & Hpr & Hfor & Ha & Hinv & N1 & N2 & HG).
  exists a, o, rest. rewrite app_length. cbn [length]. rewrite Nat.add_1_r.
  split; [exact Hpr|]. split; [exact Hfor|]. split; [lia|]. split; [apply at_app_l1; exact Hinv|].
  split; [apply none_in_snoc; [exact N1|intros [E _]; exact (Hne E)]|].
  split; [apply none_in_snoc; [exact N2|intros [E _]; exact (Hne E)]|].
  destruct g as [x|].
  - destruct HG as (m & po & Hm & M1 & M2 & M3 & M4). exists m, po.
    split; [lia|]. split; [apply at_app_l1; exact M1|]. split; [exact M2|].
    split; [apply none_in_app_l; [lia|exact M3]|].
    apply none_in_snoc; [exact M4|intros [E _]; exact (Hne E)].
  - apply none_in_snoc; [exact HG|intros [E _]; exact (Hne E)].
Qed.

(* ---- per thread: program order ---- *)
Definition map_spec (l : list cop) : list (op K V) :=
  flat_map (fun o => match spec_op o with Some po => [po] | None => [] end) l.

(* the linearization points of thread t, in trace order *)
Definition lps_thread (t : tid) (T : list irec) : list (op K V) :=
  flat_map (fun r => if r_tid r =? t then match r_lp r with Some p => [fst p] | None => [] end else []) T.

Lemma lps_thread_app t T1 T2 : lps_thread t (T1 ++ T2) = lps_thread t T1 ++ lps_thread t T2.
Proof. unfold lps_thread. apply flat_map_app. Qed.

(* the specification operations thread t has still to linearize *)
Definition todo (g : option (obs V)) (th : thread) : list (op K V) :=
  match tpc th with
  | Idle => map_spec (prog th)
  | _ => match g with None => map_spec (prog th) | Some _ => map_spec (tl (prog th)) end
  end.

Lemma todo_idle g th : tpc th = Idle -> todo g th = map_spec (prog th).
Proof. intros H. unfold todo. rewrite H. reflexivity. Qed.
Lemma todo_busy g th : tpc th <> Idle ->
  todo g th = match g with None => map_spec (prog th) | Some _ => map_spec (tl (prog th)) end.
Proof. intros H. unfold todo. destruct (tpc th); try reflexivity. congruence. Qed.

Definition Seq (P0 : tid -> list (op K V)) (T : list irec) (i : istate) : Prop :=
  forall t th, get_thread t (ths (is_st i)) = Some th ->
    P0 t = lps_thread t T ++ todo (gget (is_ghost i) t) th.

(* ---- every linearization point lies in a call of its thread, after the invocation, before any return, is of
   the call's specification operation and is the first of the call ---- *)
Definition lp_ok_at (T : list irec) (m : nat) (t : tid) (po : op K V) : Prop :=
  exists a o, a <= m /\ at_ T a (is_inv t o) /\ none_in T (is_inv_any t) (S a) (S m) /\
    none_in T (is_ret_any t) a m /\ none_in T (is_lp_any t) a m /\ spec_op o = Some po.
Definition LpOk (T : list irec) : Prop := forall m t po x, at_ T m (is_lp t po x) -> lp_ok_at T m t po.

Lemma lp_ok_at_app T T' m t po : m < length T -> lp_ok_at T m t po -> lp_ok_at (T ++ T') m t po.
Proof.
  intros Hm (a & o & A1 & A2 & A3 & A4 & A5 & A6). exists a, o.
  split; [exact A1|]. split; [apply at_app_l1; exact A2|].
  split; [apply none_in_app_l; [lia|exact A3]|]. split; [apply none_in_app_l; [lia|exact A4]|].
  split; [apply none_in_app_l; [lia|exact A5]|exact A6].
Qed.

(* ---- a step is an invocation (exactly one event), silent for the client, or a return (exactly one return) ---- *)
Definition rec_shape (r : irec) : Prop :=
  (exists o, r_ev r = [EInvoke o] /\ r_lp r = None) \/ quiet (r_ev r) \/ (exists x, retev (r_ev r) x).
Definition Shape (T : list irec) : Prop := forall r, In r T -> rec_shape r.

(* ---- all of them, and all records are steps of existing threads ---- *)
Definition TInv (P0 : tid -> list (op K V)) (T : list irec) (i : istate) : Prop :=
  Good T /\ Link T i /\ Seq P0 T i /\
  (forall r, In r T -> exists th, get_thread (r_tid r) (ths (is_st i)) = Some th) /\
  LpOk T /\ Shape T.

(* ---- preservation by one instrumented step ---- *)
Lemma TInv_step P0 T (i i' : istate) me ev :
  lin_step_ok ltb order i me ->
  istep ltb order i me = Some (i', ev) ->
  TInv P0 T i ->
  TInv P0 (T ++ [{| r_tid := me; r_ev := ev; r_lp := istep_lp ltb order i me |}]) i'.
Proof.
  intros Hlin Hi (HG & HL & HS & HT & HLp & HSh).
  set (rc := {| r_tid := me; r_ev := ev; r_lp := istep_lp ltb order i me |}).
  destruct (istep_thread _ _ _ _ _ _ _ _ Hi) as (th & Hme).
  assert (Hfor : tpc th <> Idle -> exists o rest, prog th = o :: rest /\ pc_for (tpc th) o).
  { intros Hp. destruct (HL _ _ Hme Hp) as (a & o & rest & Hpr & Hfor & _). eauto. }
  destruct (istep_kind _ _ _ _ _ _ _ _ _ Hi Hlin Hme Hfor) as (th' & Hme' & HK).
  assert (Hlen : length (T ++ [rc]) = S (length T)) by (rewrite app_length; simpl; lia).
  (* Link and Good for the stepping thread, from the classification *)
  assert (HME : link_thread (T ++ [rc]) (gget (is_ghost i') me) me th' /\
                (forall res, is_ret me res rc -> completed (T ++ [rc]) (length T) me res) /\
                (forall po x, is_lp me po x rc -> lp_ok_at (T ++ [rc]) (length T) me po) /\
                rec_shape rc).
  { destruct HK as [o rest Hidle Hpr Eev Hpc' Hpr' Hlp Hg'
                   |o rest Hnidle Hpr Hq Hfor' Hpr' Hlp
                   |o rest r Hnidle Hpr Hr Hidle' Hpr' Hlp Hres].
    - (* invocation *)
      split.
      + intros _. exists (length T), o, rest. rewrite Hlen, Hg'.
        split; [exact Hpr'|]. split; [rewrite Hpc'; reflexivity|]. split; [lia|].
        split; [apply at_last; split; [reflexivity|]; cbn [rc r_ev]; rewrite Eev; left; reflexivity|].
        split; [apply none_in_empty; lia|].
        split.
        * intros j Hj X. destruct (at_snoc _ _ _ _ X) as [[Hl _]|[_ [_ [x Hx]]]]; [lia|].
          cbn [rc r_ev] in Hx. rewrite Eev in Hx. destruct Hx as [Hx|[]]. discriminate Hx.
        * intros j Hj X. destruct (at_snoc _ _ _ _ X) as [[Hl _]|[_ [_ Hx]]]; [lia|].
          cbn [rc r_lp] in Hx. apply Hx. exact Hlp.
      + split; [|split].
        * intros res [_ Hin]. cbn [rc r_ev] in Hin. rewrite Eev in Hin. destruct Hin as [Hin|[]]. discriminate Hin.
        * intros po x [_ Hx]. cbn [rc r_lp] in Hx. rewrite Hlp in Hx. discriminate Hx.
        * left. exists o. split; [exact Eev|exact Hlp].
    - (* the call continues *)
      destruct (HL _ _ Hme Hnidle) as (a & o1 & rest1 & Hpr1 & Hfor1 & Ha & Hinv & N1 & N2 & HGh).
      rewrite Hpr in Hpr1. inversion Hpr1; subst o1 rest1. clear Hpr1.
      assert (NI : ~ is_inv_any me rc).
      { intros [_ [o' Hin]]. cbn [rc r_ev] in Hin. exact (quiet_no_invoke _ _ _ _ Hq Hin). }
      assert (NR : ~ is_ret_any me rc).
      { intros [_ [x Hin]]. cbn [rc r_ev] in Hin. exact (quiet_noret _ _ ltb _ _ Hq Hin). }
      split.
      + intros _. exists a, o, rest. rewrite Hlen.
        split; [exact Hpr'|]. split; [exact Hfor'|]. split; [lia|]. split; [apply at_app_l1; exact Hinv|].
        split; [apply none_in_snoc; assumption|]. split; [apply none_in_snoc; assumption|].
        destruct Hlp as [[Elp Eg]|(po & x & Elp & Hop & Eg & Eg')].
        * rewrite Eg. assert (NL : ~ is_lp_any me rc) by (intros [_ X]; apply X; exact Elp).
          destruct (gget (is_ghost i) me) as [x|].
          -- destruct HGh as (m & po & Hm & M1 & M2 & M3 & M4). exists m, po.
             split; [lia|]. split; [apply at_app_l1; exact M1|]. split; [exact M2|].
             split; [apply none_in_app_l; [lia|exact M3]|apply none_in_snoc; assumption].
          -- apply none_in_snoc; assumption.
        * rewrite Eg'. rewrite Eg in HGh. exists (length T), po.
          split; [lia|]. split; [apply at_last; split; [reflexivity|exact Elp]|]. split; [exact Hop|].
          split; [apply none_in_app_l; [lia|exact HGh]|apply none_in_empty; lia].
      + split; [|split].
        * intros res [_ Hin]. exfalso. apply NR. split; [reflexivity|]. exists res. exact Hin.
        * intros po x [_ Hx]. cbn [rc r_lp] in Hx.
          destruct Hlp as [[Elp Eg]|(po' & x' & Elp & Hop & Eg & Eg')]; [rewrite Elp in Hx; discriminate Hx|].
          rewrite Elp in Hx. inversion Hx; subst po' x'. rewrite Eg in HGh.
          exists a, o. split; [lia|]. split; [apply at_app_l1; exact Hinv|].
          split; [apply none_in_snoc; assumption|].
          split; [apply none_in_app_l; [lia|exact N2]|]. split; [apply none_in_app_l; [lia|exact HGh]|exact Hop].
        * right. left. exact Hq.
    - (* the call returns *)
      split; [intros Hp; exfalso; apply Hp; exact Hidle'|].
      destruct (HL _ _ Hme Hnidle) as (a & o1 & rest1 & Hpr1 & Hfor1 & Ha & Hinv & N1 & N2 & HGh).
      rewrite Hpr in Hpr1. inversion Hpr1; subst o1 rest1. clear Hpr1.
      assert (NI : ~ is_inv_any me rc).
      { intros [_ [o' Hin']]. cbn [rc r_ev] in Hin'. exact (retev_no_invoke _ _ _ _ _ Hr Hin'). }
      split; [|split]; [| |right; right; exists r; exact Hr].
      2:{ intros po x [_ Hx]. cbn [rc r_lp] in Hx.
          destruct Hlp as [[Elp Eg]|(po' & x' & Elp & Hop & Eg & Eg')]; [rewrite Elp in Hx; discriminate Hx|].
          rewrite Elp in Hx. inversion Hx; subst po' x'. rewrite Eg in HGh.
          exists a, o. split; [lia|]. split; [apply at_app_l1; exact Hinv|].
          split; [apply none_in_snoc; assumption|].
          split; [apply none_in_app_l; [lia|exact N2]|]. split; [apply none_in_app_l; [lia|exact HGh]|exact Hop]. }
      intros res [_ Hin]. cbn [rc r_ev] in Hin. pose proof (retev_in _ _ _ _ _ Hr Hin) as ->.
      exists a, o. split.
      + split; [lia|]. split; [apply at_app_l1; exact Hinv|].
        split; [apply none_in_snoc; assumption|apply none_in_app_l; [lia|exact N2]].
      + intros Hsc. destruct (Hres Hsc) as (x & Ex & Hx).
        destruct Hlp as [[Elp Eg]|(po & x' & Elp & Hop & Eg & Eg')].
        * assert (NL : ~ is_lp_any me rc) by (intros [_ X]; apply X; exact Elp).
          rewrite <- Eg, Ex in HGh. destruct HGh as (m & po & Hm & M1 & M2 & M3 & M4).
          exists m, po, x. split; [|split; assumption].
          split; [lia|]. split; [apply at_app_l1; exact M1|].
          split; [apply none_in_app_l; [lia|exact M3]|apply none_in_snoc; assumption].
        * rewrite Eg in HGh. rewrite Eg' in Ex. inversion Ex; subst x'.
          exists (length T), po, x. split; [|split; assumption].
          split; [lia|]. split; [apply at_last; split; [reflexivity|exact Elp]|].
          split; [apply none_in_app_l; [lia|exact HGh]|apply none_in_empty; lia]. }
  destruct HME as (HME1 & HME2 & HME3 & HME4).
  split; [|split; [|split; [|split; [|split]]]].
  - (* Good *)
    intros n t res X. destruct (at_snoc _ _ _ _ X) as [[Hl X']|[-> X']].
    + apply completed_app; [exact Hl|]. apply HG. exact X'.
    + assert (t = me) as -> by (destruct X' as [E _]; symmetry; exact E). apply HME2. exact X'.
  - (* Link *)
    intros t th1 Ht. destruct (Nat.eq_dec t me) as [->|Hne].
    + rewrite Hme' in Ht. inversion Ht; subst th1. exact HME1.
    + destruct (istep_other _ _ _ _ _ _ _ _ _ Hi Hne) as [E1 E2]. rewrite E1 in Ht. rewrite E2.
      apply link_thread_other; [cbn [rc r_tid]; congruence|]. apply HL. exact Ht.
  - (* Seq *)
    intros t th1 Ht. rewrite lps_thread_app. unfold lps_thread at 2. cbn [flat_map rc r_tid r_lp]. rewrite app_nil_r.
    destruct (Nat.eq_dec t me) as [->|Hne].
    + rewrite Hme' in Ht. inversion Ht; subst th1. rewrite Nat.eqb_refl. rewrite (HS _ _ Hme).
      rewrite <- app_assoc. f_equal.
      destruct HK as [o rest Hidle Hpr Eev Hpc' Hpr' Hlp Hg'
                     |o rest Hnidle Hpr Hq Hfor' Hpr' Hlp
                     |o rest r Hnidle Hpr Hr Hidle' Hpr' Hlp Hres].
      * rewrite Hlp, Hg'. rewrite (todo_idle _ _ Hidle), todo_busy by (rewrite Hpc'; discriminate).
        rewrite Hpr, Hpr'. reflexivity.
      * rewrite (todo_busy _ _ Hnidle), (todo_busy _ _ (pc_for_not_idle _ _ _ _ Hfor')). rewrite Hpr, Hpr'.
        destruct Hlp as [[Elp Eg]|(po & x & Elp & Hop & Eg & Eg')].
        -- rewrite Elp, Eg. reflexivity.
        -- rewrite Elp, Eg, Eg'. cbn [fst tl map_spec flat_map]. rewrite Hop. reflexivity.
      * rewrite (todo_busy _ _ Hnidle), (todo_idle _ _ Hidle'). rewrite Hpr, Hpr'. cbn [tl].
        destruct Hlp as [[Elp Eg]|(po & x & Elp & Hop & Eg & Eg')].
        -- rewrite Elp. cbn [app]. destruct (is_scan o) eqn:Hsc.
           ++ apply spec_op_scan in Hsc. destruct (gget (is_ghost i) me); [reflexivity|].
              cbn [map_spec flat_map]. rewrite Hsc. reflexivity.
           ++ destruct (Hres eq_refl) as (x & Ex & _). rewrite <- Eg, Ex. reflexivity.
        -- rewrite Elp, Eg. cbn [fst map_spec flat_map]. rewrite Hop. reflexivity.
    + destruct (istep_other _ _ _ _ _ _ _ _ _ Hi Hne) as [E1 E2]. rewrite E1 in Ht. rewrite E2.
      assert (E : (me =? t) = false) by (apply Nat.eqb_neq; congruence). rewrite E. rewrite app_nil_r.
      apply HS. exact Ht.
  - (* records belong to threads *)
    intros r Hin. apply in_app_or in Hin. destruct Hin as [Hin|[<-|[]]].
    + destruct (HT r Hin) as (th1 & H1). destruct (Nat.eq_dec (r_tid r) me) as [E|Hne].
      * rewrite E. eauto.
      * destruct (istep_other _ _ _ _ _ _ _ _ _ Hi Hne) as [E1 _]. rewrite E1. eauto.
    + cbn [rc r_tid]. eauto.
  - (* LpOk *)
    intros m t po x X. destruct (at_snoc _ _ _ _ X) as [[Hl X']|[-> X']].
    + apply lp_ok_at_app; [exact Hl|]. eapply HLp. exact X'.
    + assert (t = me) as -> by (destruct X' as [E _]; symmetry; exact E). eapply HME3. exact X'.
  - (* Shape *)
    intros r Hin. apply in_app_or in Hin. destruct Hin as [Hin|[<-|[]]]; [apply HSh; exact Hin|exact HME4].
Qed.

(* ---- along an execution ---- *)
Lemma itrace_iexec_inv P0 : forall sched (i : istate) T,
  (forall sched' me, lin_step_ok ltb order (iexec ltb order i sched') me) ->
  TInv P0 T i -> TInv P0 (T ++ itrace ltb order i sched) (iexec ltb order i sched).
Proof.
  induction sched as [|t r IH]; intros i T Hreach HI; simpl.
  - rewrite app_nil_r. exact HI.
  - destruct (istep ltb order i t) as [[i' ev]|] eqn:Hi.
    + change (T ++ {| r_tid := t; r_ev := ev; r_lp := istep_lp ltb order i t |} :: itrace ltb order i' r)
        with (T ++ [{| r_tid := t; r_ev := ev; r_lp := istep_lp ltb order i t |}] ++ itrace ltb order i' r).
      rewrite app_assoc. apply IH.
      * intros sched' me. specialize (Hreach (t :: sched') me). simpl in Hreach. rewrite Hi in Hreach. exact Hreach.
      * apply TInv_step; [exact (Hreach [] t)|exact Hi|exact HI].
    + rewrite app_nil_r. exact HI.
Qed.

End Link.

Arguments at_ {K V} T j P.
Arguments none_in {K V} T P lo hi.
Arguments is_inv {K V} t o r.
Arguments is_ret {K V} t x r.
Arguments is_lp {K V} t po x r.
Arguments is_inv_any {K V} t r.
Arguments is_ret_any {K V} t r.
Arguments is_lp_any {K V} t r.
Arguments window {K V} T t a n o.
Arguments only_lp {K V} T t a n m po x.
Arguments completed {K V} T n t res.
Arguments Good {K V} T.
Arguments map_spec {K V} l.
Arguments lps_thread {K V} t T.
Arguments todo {K V} g th.
Arguments Link {K V} T i.
Arguments Seq {K V} P0 T i.
Arguments TInv {K V} P0 T i.
Arguments lp_ok_at {K V} T m t po.
Arguments LpOk {K V} T.
Arguments rec_shape {K V} r.
Arguments Shape {K V} T.

(* SoloProof.v — the atomic executions of the concurrent model are the sequential model: a single call executed
   without interference by [cstep] performs exactly [step_tree] (point operations) / [scan] (a scanner that
   takes n steps) on the erased tree, and re-establishes well-formedness and quiescence.

   Auxiliary files: EraseLemmas.v (contexts, find/upd, identities, leaf chain), EraseOps.v (erase_ids vs split /
   adopt / absorb), SoloBase.v (cstep cut into target + block + commit; the solo-run invariant), SoloSearch.v,
   SoloInsert.v, SoloDelete.v (one simulation per operation). *)
From Coq Require Import List Bool Lia PeanoNat Permutation.
From GB Require Import Model Spec Inv ListLemmas TreeLemmas SearchScanProof UpsertProof DeleteProof
  Conc GI LockInv LockProof EraseLemmas EraseOps SoloBase SoloSearch SoloInsert SoloDelete.
Import ListNotations.

Section Solo.
Variables (K V : Type) (ltb : K -> K -> bool).
Hypothesis HS : SWO ltb.
Notation st := (st K V).
Notation itree := (itree K V).

(* run thread t alone until its current call returns *)
Fixpoint run_alone (fuel : nat) (order : nat) (s : st) (t : tid) : option (st * list (event K V)) :=
  match fuel with
  | 0 => None
  | S f =>
    match cstep ltb order s t with
    | Stepped s' _ ev =>
      if existsb (fun e => match e with EReturn _ => true | _ => false end) ev then Some (s', ev)
      else match run_alone f order s' t with Some (s'', ev') => Some (s'', ev ++ ev') | None => None end
    | _ => None
    end
  end.

Definition quiescent (s : st) : Prop :=
  lk s = [] /\ tm s = None /\ forall t th, get_thread t (ths s) = Some th -> tpc th = Idle.

(* the state is well formed: unique ids below the counter, leaf chain in order, and the erased tree satisfies the
   sequential invariant *)
Definition wf_state (order : nat) (s : st) : Prop :=
  NoDup (ids (tr s)) /\ Forall (fun i => i < fresh s) (ids (tr s)) /\ chain_ok (leaf_links (tr s)) /\
  NoDup (map fst (ths s)) /\ Inv ltb order (erase_ids (tr s)).

Definition op_of (o : cop K V) : option (op K V) :=
  match o with
  | CInsert k v => Some (OInsert k v) | CUpdate k f => Some (OUpdate k f)
  | CDelete k => Some (ODelete k) | CSearch k => Some (OSearch k) | CScan _ _ => None end.
(* [RArg] and [RFound] take the key type explicitly in Conc.v *)
Definition ores_of (x : obs V) : ores K V :=
  match x with ObsUnit => RUnit | ObsArg a => RArg K a | ObsFound a => RFound K a end.

Lemma run_alone_eq fuel order s t : run_alone fuel order s t = SoloBase.run_alone ltb fuel order s t.
Proof. reflexivity. Qed.

(* Idle -> WantT -> WantRoot: the call is invoked, the tree mutex taken, the root read *)
Lemma solo_prefix order me (s : st) o rest P r :
  SoloInv me s -> me_at me s Idle (o :: rest) ->
  (forall s2, SoloInv me s2 -> tr s2 = tr s -> fresh s2 = fresh s ->
     me_at me s2 (WantRoot o (nid (tr s))) (o :: rest) -> Runs ltb order me s2 P r) ->
  Runs ltb order me s P r.
Proof.
  intros Hs (th & Hg & Hpc & Hpr) Hk.
  eapply (solo_step_out K V ltb order me s th None o rest
           {| otr := tr s; olk := lk s; ofresh := fresh s; otm := tm s; opc := WantT o; oev := [EInvoke o] |}); eauto.
  - rewrite Hpc. reflexivity.
  - blk_pc Hpc. rewrite Hpr. reflexivity.
  - intros s1 Hs1 Htr1 Hfr1 (th1 & Hg1 & Hpc1 & Hpr1). simpl in Htr1, Hfr1, Hpc1, Hpr1.
    apply completes_of_runs; [reflexivity|].
    eapply (solo_step_out K V ltb order me s1 th1 (Some None) o rest
             {| otr := tr s; olk := lk s1; ofresh := fresh s; otm := Some me; opc := WantRoot o (nid (tr s));
                oev := [] |}); eauto.
    + rewrite Hpc1. reflexivity.
    + eapply free_tm; eauto. rewrite Hpc1. reflexivity.
    + blk_pc Hpc1. rewrite Htr1, Hfr1. reflexivity.
Qed.

Lemma quiescent_solo order me (s : st) : wf_state order s -> quiescent s -> SoloInv me s.
Proof. intros (_ & _ & _ & Hnd & _) (Hlk & Htm & Hidle). apply solo_init; auto. Qed.

Lemma solo_quiescent me (s : st) rest : SoloInv me s -> me_at me s Idle rest -> quiescent s.
Proof. intros Hs (th & Hg & Hpc & _). exact (solo_quiet K V me s th Hs Hg Hpc). Qed.

Lemma solo_threads me (s : st) : SoloInv me s -> NoDup (map fst (ths s)).
Proof. intros [[Hli _] _]. destruct Hli as (_ & H & _). exact H. Qed.

Theorem solo_scan : forall order (s : st) t th k n rest,
  wf_state order s -> quiescent s ->
  get_thread t (ths s) = Some th -> prog th = CScan k n :: rest ->
  exists fuel s' evs l,
    run_alone fuel order s t = Some (s', evs) /\
    scan ltb k (erase_ids (tr s)) = Ok l /\
    In (EReturn (RPairs (firstn n l))) evs /\
    tr s' = tr s /\ quiescent s' /\
    (exists th', get_thread t (ths s') = Some th' /\ prog th' = rest).
Proof.
  intros order s t th k n rest Hwf Hq Hg Hpr.
  pose proof (quiescent_solo order t s Hwf Hq) as Hs.
  destruct Hwf as (Hnd & Hlt & Hch & _ & Hinv). destruct Hq as (_ & _ & Hidle).
  pose proof (scan_correct K V ltb HS order k _ Hinv) as Hscan.
  set (l := from ltb k (entries (erase_ids (tr s)))) in *.
  assert (Hne : length (leaves (tr s)) <= 1 \/ Forall (fun l => snd l <> []) (leaves (tr s))).
  { destruct (inv_leaves K V ltb order _ Hinv) as [H|H]; rewrite tleaves_erase in H.
    - left. rewrite map_length in H. exact H.
    - right. rewrite Forall_map in H. exact H. }
  assert (HR : Runs ltb order t s (SeaPost t rest (tr s) (fresh s)) (RPairs (firstn n l))).
  { apply solo_prefix with (o := CScan k n) (rest := rest); [exact Hs|exists th; split; [exact Hg|split; [apply (Hidle t th Hg)|exact Hpr]]|].
    intros s2 Hs2 Htr2 Hfr2 (th2 & Hg2 & Hpc2 & Hpr2).
    assert (Hw : wfc [] (tr s) (fresh s)) by (apply wfc_nil; auto).
    destruct (scan_ok K V ltb order t k n rest (tr s) (fresh s) Hnd Hch Hne
                (S (height (erase_ids (tr s)))) (tr s) [] ((nid (tr s), t) :: lk s2) None l Hscan Hw eq_refl)
      as (out' & Ho' & Hok').
    replace (firstn n l) with (firstn n (l ++ flat_map snd (@rleaves K V [])))
      by (simpl; rewrite app_nil_r; reflexivity).
    eapply (solo_step_out K V ltb order t s2 th2 (Some (Some (nid (tr s)))) (CScan k n) rest out'); eauto.
    - rewrite Hpc2. reflexivity.
    - eapply free_node; eauto. rewrite Hpc2. simpl. tauto.
    - blk_pc Hpc2. rewrite Htr2, Hfr2. exact (f_equal (fun x => r <- x ;; Ok (Some r)) Ho'). }
  destruct HR as (fuel & s' & evs & Hrun & (Hs' & Hat' & Htr' & Hfr') & Hin).
  exists fuel, s', evs, l. rewrite run_alone_eq. split; [exact Hrun|]. split; [exact Hscan|].
  split; [exact Hin|]. split; [exact Htr'|]. split; [eapply solo_quiescent; eauto|].
  destruct Hat' as (th' & Hg' & _ & Hp'). eauto.
Qed.

Theorem solo_point_op : forall order (s : st) t th o rest po,
  Nat.even order = true -> (4 <= order \/ (2 <= order /\ forall k, o <> CDelete k)) ->
  wf_state order s -> quiescent s ->
  get_thread t (ths s) = Some th -> prog th = o :: rest -> op_of o = Some po ->
  exists fuel s' evs t' x,
    run_alone fuel order s t = Some (s', evs) /\
    step_tree ltb order (erase_ids (tr s)) po = Ok (t', x) /\
    erase_ids (tr s') = t' /\
    In (EReturn (ores_of x)) evs /\
    wf_state order s' /\ quiescent s' /\
    (exists th', get_thread t (ths s') = Some th' /\ prog th' = rest).
Proof.
  intros order s t th o rest po Hev Hord Hwf Hq Hg Hpr Hop.
  pose proof (quiescent_solo order t s Hwf Hq) as Hs.
  destruct Hwf as (Hnd & Hlt & Hch & _ & Hinv). destruct Hq as (_ & _ & Hidle).
  assert (H2 : 2 <= order) by (destruct Hord as [?|[? _]]; lia).
  assert (Hat0 : me_at t s Idle (o :: rest)).
  { exists th. split; [exact Hg|]. split; [apply (Hidle t th Hg)|exact Hpr]. }
  assert (Hcap : icap order (tr s)).
  { destruct Hinv as (_ & _ & Hocc). unfold icap. eapply occ_cap. exact Hocc. }
  destruct o as [k v|k f|k|k|k n]; simpl in Hop; inversion Hop; subst po; clear Hop.
  - (* Insert *)
    destruct (upsert_spec K V ltb HS order k (fun _ => v) _ H2 Hev Hinv) as (t' & Hu & _ & Hinv').
    assert (HR : Runs ltb order t s (TopPost K V t rest t') RUnit).
    { apply solo_prefix with (o := CInsert k v) (rest := rest); [exact Hs|exact Hat0|].
      intros s2 Hs2 Htr2 Hfr2 Hat2. rewrite <- Htr2 in Hat2.
      apply (ins_root K V ltb order t (CInsert k v) rest k (fun _ => v) Hev s2 t'
               (Spec.lookup ltb k (entries (erase_ids (tr s))))); auto.
      - simpl. auto.
      - rewrite Htr2. exact Hnd.
      - rewrite Htr2, Hfr2. exact Hlt.
      - rewrite Htr2. exact Hch.
      - rewrite Htr2. exact Hcap.
      - rewrite Htr2. exact Hu. }
    destruct HR as (fuel & s' & evs & Hrun & (Hs' & Hat' & Her & Hnd' & Hlt' & Hch') & Hin).
    exists fuel, s', evs, t', ObsUnit. rewrite run_alone_eq. split; [exact Hrun|].
    split; [cbn [step_tree]; rewrite Hu; reflexivity|]. split; [exact Her|]. split; [exact Hin|].
    split; [|split; [eapply solo_quiescent; eauto|destruct Hat' as (th' & Hg' & _ & Hp'); eauto]].
    split; [exact Hnd'|]. split; [exact Hlt'|]. split; [exact Hch'|]. split; [eapply solo_threads; eauto|].
    rewrite Her. exact Hinv'.
  - (* Update *)
    destruct (upsert_spec K V ltb HS order k f _ H2 Hev Hinv) as (t' & Hu & _ & Hinv').
    set (arg := Spec.lookup ltb k (entries (erase_ids (tr s)))) in *.
    assert (HR : Runs ltb order t s (TopPost K V t rest t') (RArg K arg)).
    { apply solo_prefix with (o := CUpdate k f) (rest := rest); [exact Hs|exact Hat0|].
      intros s2 Hs2 Htr2 Hfr2 Hat2. rewrite <- Htr2 in Hat2.
      apply (ins_root K V ltb order t (CUpdate k f) rest k f Hev s2 t' arg); auto.
      - simpl. auto.
      - rewrite Htr2. exact Hnd.
      - rewrite Htr2, Hfr2. exact Hlt.
      - rewrite Htr2. exact Hch.
      - rewrite Htr2. exact Hcap.
      - rewrite Htr2. exact Hu. }
    destruct HR as (fuel & s' & evs & Hrun & (Hs' & Hat' & Her & Hnd' & Hlt' & Hch') & Hin).
    exists fuel, s', evs, t', (ObsArg arg). rewrite run_alone_eq. split; [exact Hrun|].
    split; [cbn [step_tree]; rewrite Hu; reflexivity|]. split; [exact Her|]. split; [exact Hin|].
    split; [|split; [eapply solo_quiescent; eauto|destruct Hat' as (th' & Hg' & _ & Hp'); eauto]].
    split; [exact Hnd'|]. split; [exact Hlt'|]. split; [exact Hch'|]. split; [eapply solo_threads; eauto|].
    rewrite Her. exact Hinv'.
  - (* Delete *)
    assert (H4 : 4 <= order) by (destruct Hord as [?|[_ Hno]]; [assumption|exfalso; apply (Hno k); reflexivity]).
    destruct (delete_spec K V ltb HS order k _ H4 Hev Hinv) as (t' & Hd & _ & Hinv').
    assert (HR : Runs ltb order t s (DelPost t rest (fresh s) t') RUnit).
    { apply solo_prefix with (o := CDelete k) (rest := rest); [exact Hs|exact Hat0|].
      intros s2 Hs2 Htr2 Hfr2 Hat2. rewrite <- Htr2 in Hat2.
      apply (del_root K V ltb order t k rest (fresh s) s2 t'); auto.
      - rewrite Htr2. exact Hnd.
      - rewrite Htr2. exact Hlt.
      - rewrite Htr2. exact Hch.
      - rewrite Htr2. exact Hd. }
    destruct HR as (fuel & s' & evs & Hrun & (Hs' & Hat' & Hfr' & Her & Hnd' & Hlt' & Hch') & Hin).
    exists fuel, s', evs, t', ObsUnit. rewrite run_alone_eq. split; [exact Hrun|].
    split; [cbn [step_tree]; rewrite Hd; reflexivity|]. split; [exact Her|]. split; [exact Hin|].
    split; [|split; [eapply solo_quiescent; eauto|destruct Hat' as (th' & Hg' & _ & Hp'); eauto]].
    split; [exact Hnd'|]. split; [rewrite Hfr'; exact Hlt'|]. split; [exact Hch'|].
    split; [eapply solo_threads; eauto|]. rewrite Her. exact Hinv'.
  - (* Search *)
    pose proof (search_correct K V ltb HS order k _ Hinv) as Hsea.
    set (r := Spec.lookup ltb k (entries (erase_ids (tr s)))) in *.
    assert (HR : Runs ltb order t s (SeaPost t rest (tr s) (fresh s)) (RFound K r)).
    { apply solo_prefix with (o := CSearch k) (rest := rest); [exact Hs|exact Hat0|].
      intros s2 Hs2 Htr2 Hfr2 (th2 & Hg2 & Hpc2 & Hpr2).
      assert (Hw : wfc [] (tr s) (fresh s)) by (apply wfc_nil; auto).
      destruct (sea_ok K V ltb order t (CSearch k) rest (S (height (erase_ids (tr s)))) k (tr s) []
                  ((nid (tr s), t) :: lk s2) (fresh s) None r eq_refl Hsea Hw) as (out' & Ho' & Hok').
      eapply (solo_step_out K V ltb order t s2 th2 (Some (Some (nid (tr s)))) (CSearch k) rest out'); eauto.
      - rewrite Hpc2. reflexivity.
      - eapply free_node; eauto. rewrite Hpc2. simpl. tauto.
      - blk_pc Hpc2. rewrite Htr2, Hfr2. exact (f_equal (fun x => r <- x ;; Ok (Some r)) Ho'). }
    destruct HR as (fuel & s' & evs & Hrun & (Hs' & Hat' & Htr' & Hfr') & Hin).
    exists fuel, s', evs, (erase_ids (tr s)), (ObsFound r). rewrite run_alone_eq. split; [exact Hrun|].
    split; [cbn [step_tree]; rewrite Hsea; reflexivity|]. split; [rewrite Htr'; reflexivity|]. split; [exact Hin|].
    split; [|split; [eapply solo_quiescent; eauto|destruct Hat' as (th' & Hg' & _ & Hp'); eauto]].
    unfold wf_state. rewrite Htr', Hfr'. split; [exact Hnd|]. split; [exact Hlt|]. split; [exact Hch|].
    split; [eapply solo_threads; eauto|exact Hinv].
Qed.

End Solo.

Print Assumptions solo_point_op.

Print Assumptions solo_scan.

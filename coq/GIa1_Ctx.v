(* GIa1_Ctx.v — one-hole contexts versus the key bounds of CInv.v and the shape part of GI:
   decomposition of a tree at a found node, the bounds of the hole, and the replacement lemma
   (a subtree may be replaced by any subtree of the same depth, capacity-correct, ordered, whose keys
   stay inside the bounds of the hole). *)
From Coq Require Import List Bool Lia PeanoNat Permutation Sorted.
From GB Require Import Model Spec Inv ListLemmas SearchProof TreeLemmas UpsertProof Conc GI LockInv CInv
  EraseLemmas EraseOps.
Import ListNotations.

Section Ctx.
Variables (K V : Type) (ltb : K -> K -> bool).
Hypothesis HS : SWO ltb.
Notation itree := (itree K V).
Notation tree := (tree K V).
Notation cframe := (cframe K V).
Notation SS := (StronglySorted (fun a b => ltb a b = true)).
Notation AK := (flat_map (fun c : K * tree => fst c :: allkeys (snd c))).
Notation irrefl := (irrefl K ltb HS).
Notation trans := (trans K ltb HS).
Notation asym := (asym K ltb HS).
Notation ltle := (ltle K ltb HS).
Notation lelt := (lelt K ltb HS).
Notation negtrans := (negtrans K ltb HS).
Notation asc_SS := (asc_SS K ltb HS).

(* ------------------------------------------------------------------------------------------------ *)
(* key ranges                                                                                         *)
(* ------------------------------------------------------------------------------------------------ *)
Definition rng (b : option K * option K) (k : K) : Prop :=
  ge_lo ltb k (fst b) = true /\ lt_hi ltb k (snd b) = true.

Definition hi_of {A} (post : list (K * A)) (hi : option K) : option K :=
  match post with [] => hi | (s', _) :: _ => Some s' end.

Lemma hi_of_erase (post : list (K * itree)) hi : hi_of (erase_cs post) hi = hi_of post hi.
Proof. destruct post as [|[s c] post]; reflexivity. Qed.

Lemma ge_lo_trans k s lo : ltb k s = false -> ge_lo ltb s lo = true -> ge_lo ltb k lo = true.
Proof.
  destruct lo as [l|]; simpl; [|auto]. intros H1 H2. apply negb_true_iff in H2. apply negb_true_iff.
  eapply negtrans; eauto.
Qed.
Lemma lt_hi_trans k s hi : ltb k s = true -> lt_hi ltb s hi = true -> lt_hi ltb k hi = true.
Proof. destruct hi as [h|]; simpl; [|auto]. intros H1 H2. eapply trans; eauto. Qed.
Lemma lt_hi_le k s hi : ltb s k = false -> lt_hi ltb s hi = true -> lt_hi ltb k hi = true.
Proof. destruct hi as [h|]; simpl; [|auto]. intros H1 H2. eapply lelt; eauto. Qed.

Lemma rng_top k : rng (None, None) k.
Proof. split; reflexivity. Qed.

(* ------------------------------------------------------------------------------------------------ *)
(* shape of a subtree inside given bounds                                                             *)
(* ------------------------------------------------------------------------------------------------ *)
Definition sub_ok (order : nat) (b : option K * option K) (d : nat) (x : tree) : Prop :=
  ordered ltb x /\ Forall (rng b) (allkeys x) /\ bal d x /\ cap order x.

Definition tshape (order : nat) (x : tree) : Prop := ordered ltb x /\ (exists d, bal d x) /\ cap order x.
Definition shape (order : nat) (t : itree) : Prop := tshape order (erase_ids t) /\ chain_ok (leaf_links t).

Lemma sub_ok_top order d x : sub_ok order (None, None) d x <-> ordered ltb x /\ bal d x /\ cap order x.
Proof.
  unfold sub_ok. split; [tauto|]. intros (H1 & H2 & H3). repeat split; auto.
  apply Forall_forall. intros k _. apply rng_top.
Qed.

Lemma cap_node order (cs : list (K * tree)) : cap order (Node cs) <-> length cs <= order /\ all_kids (cap order) cs.
Proof. simpl. tauto. Qed.

Lemma allkeys_node_app (a b : list (K * tree)) : allkeys (Node (a ++ b)) = AK a ++ AK b.
Proof. simpl. apply flat_map_app. Qed.

Lemma all_kids_one (P : tree -> Prop) s c : all_kids P [(s, c)] <-> P c.
Proof. simpl. tauto. Qed.

(* ---- what a node promises to the child at the hole ---- *)
Lemma frame_down order b d pre s (c : tree) post :
  sub_ok order b d (Node (pre ++ (s, c) :: post)) ->
  exists d', d = S d' /\ sub_ok order (Some s, hi_of post (snd b)) d' c /\
    rng b s /\ SS (map fst (pre ++ (s, c) :: post)) /\
    (match post with [] => True | (s', _) :: _ => rng b s' end).
Proof.
  intros (Ho & Hr & Hb & Hc). destruct d as [|d']; [simpl in Hb; tauto|]. exists d'. split; [reflexivity|].
  cbn [ordered] in Ho. destruct Ho as (Ha & Hso & Hao). cbn [bal] in Hb. destruct Hb as [_ Hb].
  apply cap_node in Hc. destruct Hc as [_ Hc].
  apply all_kids_app in Hao. destruct Hao as [_ Hao]. apply all_kids_app in Hb. destruct Hb as [_ Hb].
  apply all_kids_app in Hc. destruct Hc as [_ Hc]. simpl in Hao, Hb, Hc.
  apply (seps_ok_app_inv K V ltb) in Hso. destruct Hso as [_ Hso].
  rewrite allkeys_node_app in Hr. apply Forall_app in Hr. destruct Hr as [_ Hr]. cbn [flat_map fst snd] in Hr.
  inversion Hr as [|? ? Hrs Hr']; subst. apply Forall_app in Hr'. destruct Hr' as [Hrc Hrp].
  assert (Hs' : match post with [] => True | (s', _) :: _ => rng b s' end).
  { destruct post as [|[s' c'] post]; [exact I|]. simpl in Hrp. inversion Hrp; assumption. }
  split; [|split; [exact Hrs|split; [apply asc_SS; exact Ha|exact Hs']]].
  split; [tauto|]. split; [|tauto].
  simpl in Hso. destruct Hso as (H1 & H2 & _).
  rewrite Forall_forall in *. intros k Hk. split; simpl.
  - apply negb_true_iff. apply H1. exact Hk.
  - destruct post as [|[s' c'] post]; simpl.
    + apply (Hrc k Hk).
    + rewrite Forall_forall in H2. apply H2. exact Hk.
Qed.

(* ---- replacing the hole's entry by a (short) list of entries ---- *)
Lemma node_replace order b d pre s (c : tree) post s1 c1 mid' :
  let mid := (s1, c1) :: mid' in
  sub_ok order b (S d) (Node (pre ++ (s, c) :: post)) ->
  (pre = [] \/ s1 = s) ->
  SS (map fst mid) -> seps_ok ltb mid -> all_kids (ordered ltb) mid -> all_kids (bal d) mid ->
  all_kids (cap order) mid ->
  Forall (rng (fst b, hi_of post (snd b))) (AK mid) ->
  length (pre ++ mid ++ post) <= order ->
  sub_ok order b (S d) (Node (pre ++ mid ++ post)).
Proof.
  intros mid Hok Hs1 Hmss Hmso Hmo Hmb Hmc Hmr Hlen.
  destruct (frame_down order b (S d) pre s c post Hok) as (d' & Ed & _ & Hrs & Hss & Hs').
  destruct Hok as (Ho & Hr & Hb & Hc).
  cbn [ordered] in Ho. destruct Ho as (Ha & Hso & Hao). cbn [bal] in Hb. destruct Hb as [_ Hb].
  apply cap_node in Hc. destruct Hc as [_ Hc].
  apply all_kids_app in Hao. destruct Hao as [Hao1 Hao2]. apply all_kids_app in Hb. destruct Hb as [Hb1 Hb2].
  apply all_kids_app in Hc. destruct Hc as [Hc1 Hc2]. simpl in Hao2, Hb2, Hc2.
  pose proof (seps_ok_app_inv K V ltb _ _ Hso) as [_ Hso2].
  assert (Hsop : seps_ok ltb post) by (simpl in Hso2; tauto).
  rewrite map_app in Hss. cbn [map fst] in Hss.
  pose proof Hss as Hss'. apply (SS_app_iff K ltb) in Hss'. destruct Hss' as (_ & Hssp & _).
  apply (SS_cons_iff K ltb) in Hssp. destruct Hssp as [Hssq Hsq].
  rewrite allkeys_node_app in Hr. apply Forall_app in Hr. destruct Hr as [Hr1 Hr2]. cbn [flat_map fst snd] in Hr2.
  inversion Hr2 as [|? ? _ Hr3]; subst. apply Forall_app in Hr3. destruct Hr3 as [_ Hr3].
  (* every key of mid is below every separator of post *)
  assert (Hmp : Forall (fun x => Forall (fun y => ltb x y = true) (map fst post)) (AK mid)).
  { destruct post as [|[s' c'] post]; [apply Forall_forall; intros; constructor|].
    eapply Forall_impl; [|exact Hmr]. intros x [_ Hx]. cbn [snd hi_of lt_hi] in Hx. cbn [map fst].
    constructor; [exact Hx|]. cbn [map fst] in Hssq. apply (SS_cons_iff K ltb) in Hssq. destruct Hssq as [_ Hq].
    eapply Forall_impl; [|exact Hq]. intros y Hy. eapply trans; eauto. }
  split; [|split; [|split]].
  - cbn [ordered]. split; [|split].
    + apply asc_SS. rewrite !map_app. subst mid. cbn [map fst].
      apply (SS_replace K ltb HS) with (s := s); [exact Hss| |destruct Hs1 as [-> | ->]; auto].
      change (SS (map fst ((s1, c1) :: mid') ++ map fst post)).
      apply (SS_app_iff K ltb). split; [exact Hmss|]. split; [exact Hssq|].
      apply Forall_forall. intros x Hx. rewrite Forall_forall in Hmp. apply Hmp. now apply (fst_in_AK K V).
    + subst mid. apply (seps_ok_replace K V ltb) with (s := s) (c := c); [exact Hso| |exact Hs1].
      change (seps_ok ltb (((s1, c1) :: mid') ++ post)).
      apply (seps_ok_app_intro K V ltb); [exact Hmso|exact Hsop|].
      destruct post as [|[s' c'] post]; [exact I|].
      eapply Forall_impl; [|exact Hmp]. intros x Hx. inversion Hx; auto.
    + apply all_kids_app. split; [exact Hao1|]. apply all_kids_app. split; [exact Hmo|tauto].
  - rewrite allkeys_node_app. apply Forall_app. split; [exact Hr1|].
    change (AK (mid ++ post)) with (allkeys (Node (mid ++ post))). rewrite allkeys_node_app.
    apply Forall_app. split; [|exact Hr3].
    eapply Forall_impl; [|exact Hmr]. intros x [Hx1 Hx2]. split; [exact Hx1|]. cbn [snd] in *.
    destruct post as [|[s' c'] post]; [exact Hx2|]. cbn [hi_of lt_hi] in Hx2.
    destruct Hs' as [_ Hs']. eapply lt_hi_trans; eauto.
  - cbn [bal]. split; [destruct pre; discriminate|].
    apply all_kids_app. split; [exact Hb1|]. apply all_kids_app. split; [exact Hmb|tauto].
  - apply cap_node. split; [exact Hlen|].
    apply all_kids_app. split; [exact Hc1|]. apply all_kids_app. split; [exact Hmc|tauto].
Qed.

Lemma frame_up order b d pre s (c c' : tree) post :
  sub_ok order b (S d) (Node (pre ++ (s, c) :: post)) ->
  sub_ok order (Some s, hi_of post (snd b)) d c' ->
  sub_ok order b (S d) (Node (pre ++ (s, c') :: post)).
Proof.
  intros Hok (Ho & Hr & Hb & Hc).
  destruct (frame_down order b (S d) pre s c post Hok) as (d' & Ed & _ & Hrs & Hss & Hs').
  assert (Hrs' : lt_hi ltb s (hi_of post (snd b)) = true).
  { destruct post as [|[s' c0] post]; [apply Hrs|]. cbn [hi_of lt_hi].
    rewrite map_app in Hss. cbn [map fst] in Hss. apply (SS_app_iff K ltb) in Hss. destruct Hss as (_ & Hss & _).
    apply (SS_cons_iff K ltb) in Hss. destruct Hss as [_ Hss]. inversion Hss; assumption. }
  apply (node_replace order b d pre s c post s c' []); auto.
  - repeat constructor.
  - simpl. split; [|tauto]. eapply Forall_impl; [|exact Hr]. intros k [Hk _]. simpl in Hk.
    apply negb_true_iff in Hk. exact Hk.
  - simpl. tauto.
  - simpl. tauto.
  - simpl. tauto.
  - cbn [flat_map fst snd]. rewrite app_nil_r. constructor.
    + split; [apply Hrs|exact Hrs'].
    + eapply Forall_impl; [|exact Hr]. intros k [Hk1 Hk2]. cbn [fst snd] in *. split; [|exact Hk2].
      simpl in Hk1. apply negb_true_iff in Hk1. eapply ge_lo_trans; [exact Hk1|apply Hrs].
  - destruct Hok as (_ & _ & _ & Hcap). apply cap_node in Hcap. destruct Hcap as [Hl _].
    clear - Hl. cbn [count] in Hl. rewrite !app_length in *. cbn [length app] in *. rewrite ?app_length in *. cbn [length] in *. lia.
Qed.

(* ------------------------------------------------------------------------------------------------ *)
(* bounds of the hole of a context                                                                   *)
(* ------------------------------------------------------------------------------------------------ *)
Fixpoint cbounds (C : list cframe) : option K * option K :=
  match C with
  | [] => (None, None)
  | cf :: C' => (Some (csep cf), hi_of (cpost cf) (snd (cbounds C')))
  end.

Lemma erase_plug1 (cf : cframe) (x : itree) :
  erase_ids (plug1 cf x) = Node (erase_cs (cpre cf) ++ (csep cf, erase_ids x) :: erase_cs (cpost cf)).
Proof. unfold plug1. rewrite erase_node, erase_cs_app. reflexivity. Qed.

Lemma bal_unique d d' (x : tree) : bal d x -> bal d' x -> d = d'.
Proof. intros H1 H2. apply bal_height in H1. apply bal_height in H2. congruence. Qed.

(* the replacement lemma *)
Lemma shape_ctx order (C : list cframe) : forall sub : itree,
  shape order (plug C sub) ->
  exists d, sub_ok order (cbounds C) d (erase_ids sub) /\
    forall sub' : itree, sub_ok order (cbounds C) d (erase_ids sub') ->
      links_equiv (leaf_links sub) (leaf_links sub') -> shape order (plug C sub').
Proof.
  induction C as [|cf C IH]; intros sub Hsh.
  - simpl in *. destruct Hsh as [(Ho & [d Hb] & Hc) Hch]. exists d. split; [apply sub_ok_top; auto|].
    intros sub' Hok Hl. apply sub_ok_top in Hok. destruct Hok as (Ho' & Hb' & Hc').
    split; [split; [exact Ho'|split; [exists d; exact Hb'|exact Hc']]|].
    specialize (Hl [] []). simpl in Hl. rewrite !app_nil_r in Hl. auto.
  - cbn [plug] in Hsh. destruct (IH (plug1 cf sub) Hsh) as (d & Hok & Hrep).
    rewrite erase_plug1 in Hok.
    destruct (frame_down order _ d _ _ _ _ Hok) as (d' & -> & Hsub & _).
    exists d'. cbn [cbounds]. rewrite hi_of_erase in Hsub. split; [exact Hsub|].
    intros sub' Hok' Hl. cbn [plug]. apply Hrep.
    + rewrite erase_plug1. eapply frame_up; [exact Hok|]. rewrite hi_of_erase. exact Hok'.
    + rewrite !links_plug1. apply links_equiv_ctx. exact Hl.
Qed.

(* ------------------------------------------------------------------------------------------------ *)
(* decomposition at a found node                                                                     *)
(* ------------------------------------------------------------------------------------------------ *)
Lemma plug_app (C1 C2 : list cframe) (x : itree) : plug (C1 ++ C2) x = plug C2 (plug C1 x).
Proof. revert x. induction C1 as [|cf C1 IH]; intros x; simpl; [reflexivity|apply IH]. Qed.

Lemma find_list_some x (cs : list (K * itree)) (n : itree) :
  find_list x cs = Some n -> exists pre s c post, cs = pre ++ (s, c) :: post /\ Conc.find x c = Some n.
Proof.
  induction cs as [|[s c] r IH]; cbn [find_list]; [discriminate|].
  destruct (Conc.find x c) as [y|] eqn:E.
  - intros H. inversion H; subst. exists [], s, c, r. split; [reflexivity|exact E].
  - intros H. destruct (IH H) as (pre & s' & c' & post & -> & Hf). exists ((s, c) :: pre), s', c', post. auto.
Qed.

Lemma find_plug_ex x : forall (t sub : itree), Conc.find x t = Some sub -> exists C, t = plug C sub.
Proof.
  induction t as [i nx es|i cs IH] using (itree_ind' K V); intros sub Hf.
  - simpl in Hf. destruct (i =? x); [|discriminate]. inversion Hf; subst. exists []. reflexivity.
  - rewrite find_node in Hf. destruct (i =? x); [inversion Hf; subst; exists []; reflexivity|].
    destruct (find_list_some x cs sub Hf) as (pre & s & c & post & -> & Hc).
    apply Forall_app in IH. destruct IH as [_ IH]. inversion IH as [|? ? Hc' _]; subst. simpl in Hc'.
    destruct (Hc' sub Hc) as [C ->]. exists (C ++ [mkcf i pre s post]). rewrite plug_app. reflexivity.
Qed.

Lemma wfc_of_plug (C : list cframe) fr : forall sub : itree, wfc [] (plug C sub) fr -> wfc C sub fr.
Proof.
  induction C as [|cf C IH]; intros sub H; [exact H|]. cbn [plug] in H. apply IH in H. apply wfc_push. exact H.
Qed.

Lemma wfc_to_plug (C : list cframe) fr : forall sub : itree, wfc C sub fr -> wfc [] (plug C sub) fr.
Proof.
  induction C as [|cf C IH]; intros sub H; [exact H|]. cbn [plug]. apply IH. apply wfc_push. exact H.
Qed.

Lemma find_decompose x (t sub : itree) fr :
  NoDup (ids t) -> Forall (fun i => i < fr) (ids t) -> Conc.find x t = Some sub ->
  exists C, t = plug C sub /\ wfc C sub fr /\ nid sub = x.
Proof.
  intros Hnd Hlt Hf. destruct (find_plug_ex x t sub Hf) as [C ->]. exists C. split; [reflexivity|].
  split; [apply wfc_of_plug; apply wfc_nil; auto|].
  clear Hnd Hlt. revert Hf. generalize (plug C sub). intros t.
  induction t as [i nx es|i cs IH] using (itree_ind' K V); intros Hf.
  - simpl in Hf. destruct (i =? x) eqn:E; [|discriminate]. inversion Hf; subst. apply Nat.eqb_eq in E. exact E.
  - rewrite find_node in Hf. destruct (i =? x) eqn:E; [inversion Hf; subst; apply Nat.eqb_eq in E; exact E|].
    destruct (find_list_some x cs sub Hf) as (pre & s & c & post & -> & Hc).
    apply Forall_app in IH. destruct IH as [_ IH]. inversion IH as [|? ? Hc' _]; subst. apply Hc'. exact Hc.
Qed.

(* ---- CInv.bounds through a context ---- *)
Fixpoint bounds_list (hi : option K) (x : id) (cs : list (K * itree)) : option (option K * option K) :=
  match cs with
  | [] => None
  | (s, c) :: r =>
    match bounds_in (Some s) (hi_of r hi) x c with Some b => Some b | None => bounds_list hi x r end
  end.

Lemma bounds_node lo hi x i (cs : list (K * itree)) :
  bounds_in lo hi x (INode i cs) = if i =? x then Some (lo, hi) else bounds_list hi x cs.
Proof.
  simpl. destruct (i =? x); [reflexivity|].
  induction cs as [|[s c] r IH]; simpl; [reflexivity|].
  replace (match r with [] => hi | (s', _) :: _ => Some s' end) with (hi_of r hi) by (destruct r as [|[? ?] ?]; reflexivity).
  destruct (bounds_in (Some s) (hi_of r hi) x c); [reflexivity|exact IH].
Qed.

Lemma bounds_self lo hi (t : itree) : bounds_in lo hi (nid t) t = Some (lo, hi).
Proof. destruct t; simpl; rewrite Nat.eqb_refl; reflexivity. Qed.

Lemma bounds_notin x : forall (t : itree) lo hi, ~ In x (ids t) -> bounds_in lo hi x t = None.
Proof.
  induction t as [i nx es|i cs IH] using (itree_ind' K V); intros lo hi Hn.
  - simpl in *. destruct (i =? x) eqn:E; [apply Nat.eqb_eq in E; tauto|reflexivity].
  - rewrite bounds_node. rewrite ids_node in Hn. simpl in Hn.
    destruct (i =? x) eqn:E; [apply Nat.eqb_eq in E; tauto|].
    assert (Hn' : ~ In x (ids_list cs)) by tauto. clear Hn E.
    induction cs as [|[s c] r IHr]; simpl; [reflexivity|].
    inversion IH as [|? ? Hc Hr]; subst. rewrite ids_list_cons in Hn'. simpl in Hc.
    rewrite Hc by (intros Hi; apply Hn'; apply in_or_app; now left).
    apply IHr; [exact Hr|]. intros Hi; apply Hn'; apply in_or_app; now right.
Qed.

Lemma bounds_list_app_notin hi x (pre r : list (K * itree)) :
  ~ In x (ids_list pre) -> bounds_list hi x (pre ++ r) = bounds_list hi x r.
Proof.
  induction pre as [|[s c] pre IH]; intros Hn; [reflexivity|]. cbn [app bounds_list].
  rewrite ids_list_cons in Hn.
  rewrite bounds_notin by (intros Hi; apply Hn; apply in_or_app; now left).
  apply IH. intros Hi; apply Hn; apply in_or_app; now right.
Qed.

Lemma bounds_plug1 lo hi (cf : cframe) (sub : itree) x b :
  ~ In x (cf_ids cf) -> bounds_in (Some (csep cf)) (hi_of (cpost cf) hi) x sub = Some b ->
  bounds_in lo hi x (plug1 cf sub) = Some b.
Proof.
  intros Hn Hb. unfold plug1. rewrite bounds_node. unfold cf_ids in Hn. simpl in Hn.
  destruct (cid cf =? x) eqn:E; [apply Nat.eqb_eq in E; tauto|].
  rewrite bounds_list_app_notin by (intros H; apply Hn; right; apply in_or_app; now left).
  cbn [bounds_list]. rewrite Hb. reflexivity.
Qed.

Lemma bounds_plug (C : list cframe) : forall (sub : itree) x b,
  ~ In x (ctx_ids C) -> bounds_in (fst (cbounds C)) (snd (cbounds C)) x sub = Some b ->
  bounds x (plug C sub) = Some b.
Proof.
  induction C as [|cf C IH]; intros sub x b Hn Hb; [exact Hb|].
  cbn [plug]. rewrite ctx_ids_cons in Hn. apply IH; [intros H; apply Hn; apply in_or_app; now right|].
  apply bounds_plug1; [intros H; apply Hn; apply in_or_app; now left|]. exact Hb.
Qed.

Lemma bounds_plug_self (C : list cframe) (sub : itree) fr :
  wfc C sub fr -> bounds (nid sub) (plug C sub) = Some (cbounds C).
Proof.
  intros H. apply bounds_plug; [eapply wfc_notin; [exact H|apply nid_in_ids]|].
  rewrite bounds_self. destruct (cbounds C); reflexivity.
Qed.

Lemma in_range_plug (C : list cframe) (sub : itree) fr k :
  wfc C sub fr -> in_range ltb k (nid sub) (plug C sub) = true <-> rng (cbounds C) k.
Proof.
  intros H. unfold in_range. rewrite (bounds_plug_self C sub fr H). unfold rng.
  destruct (cbounds C) as [lo hi]. cbn [fst snd]. rewrite andb_true_iff. tauto.
Qed.

(* a found node in range: the context form *)
Lemma find_in_range x (t sub : itree) fr k :
  NoDup (ids t) -> Forall (fun i => i < fr) (ids t) -> Conc.find x t = Some sub ->
  in_range ltb k x t = true ->
  exists C, t = plug C sub /\ wfc C sub fr /\ nid sub = x /\ rng (cbounds C) k.
Proof.
  intros Hnd Hlt Hf Hr. destruct (find_decompose x t sub fr Hnd Hlt Hf) as (C & -> & Hw & Hn).
  exists C. split; [reflexivity|]. split; [exact Hw|]. split; [exact Hn|]. subst x. apply (proj1 (in_range_plug C sub fr k Hw)). exact Hr.
Qed.

End Ctx.

Arguments rng {K} ltb b k.
Arguments hi_of {K A} post hi.
Arguments sub_ok {K V} ltb order b d x.
Arguments tshape {K V} ltb order x.
Arguments shape {K V} ltb order t.
Arguments cbounds {K V} C.

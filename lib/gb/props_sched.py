"""Checks decided by the scheduled correspondence: C03, C04, C05, C06, C08 (drained), C09, C10."""
import hashlib, json, os, shutil, time
from . import common, gensched, schedcheck, shadow, seqcheck, crosscheck

KINDS = {
    "C03": "IIUDDDS", "C04": "IIDDDCCCU", "C05": "UUUUIDS", "C06": "IDDDDCCCUS", "C08": "IIUDDDSC",
    "C09": "IIUDDDSCC", "C10": "IIUSCCD",
}


def load_corpus(pid, tier="quick"):
    p = os.path.join(common.VERIF, "corpus", "sched.json")
    if not os.path.exists(p):
        return []
    out = []
    for c in json.load(open(p)):
        if pid in c.get("properties", []) or "*" in c.get("properties", []):
            types = shadow.TYPE_NAMES if c["type"] == "*" else [c["type"]]
            for t in types:
                keys = c.get("keys", {})
                k = keys.get(t, keys.get("*", [])) if isinstance(keys, dict) else keys
                out.append(dict(id="%s-%s" % (c["id"], t), type=t, order=c["order"], keys=[] if t == "comparable" else list(k),
                                init=list(c["init"]), progs={int(a): list(b) for a, b in c["progs"].items()},
                                sched=[x if tier == "quick" or not x.startswith("all") else "all -1 30000" for x in c["sched"]]
                                      + ([] if tier == "quick" else ["pct 11 1500 3 100"]),
                                dump=c.get("dump", "steps"), corpus=c["id"]))
    return out


def counter_cases(seed, n):
    """N threads each Update(k, +1) on one key, among neighbours: the final value must be init + N (C05)."""
    import random
    rng = random.Random(seed * 31 + 5)
    cases = []
    for i in range(n):
        typ = shadow.TYPE_NAMES[i % 6]
        U = rng.randint(8, 24)
        from . import gen
        keys = gen.key_table(rng, typ, U)
        init = ["I %d.0 %d" % (c, 100 + c) for c in rng.sample(range(U), rng.randint(3, U))]
        k = rng.randrange(U)
        nth = rng.randint(2, 4)
        progs = {t: ["U %d.0 1" % k] * rng.randint(1, 2) for t in range(1, nth + 1)}
        if rng.random() < 0.5:
            progs[nth + 1] = [rng.choice(["I %d.0 7" % ((k + 1) % U), "D %d.0" % ((k + 1) % U), "S %d.0" % k, "D %d.0" % k])]
        cases.append(dict(id="ctr%d" % i, type=typ, order=4, keys=keys, init=init, progs=progs,
                          sched=["rand %d 6 400" % rng.randrange(10**9)], dump="steps"))
    return cases


def run_sched_property(pid, tier, seed, level="other", level_note=None, extra_cases=None, seq_part=None):
    t0 = time.time()
    names, done, problems = common.obligations(pid)
    chk = common.coqchk(run_if_missing=(tier == "thorough"))
    if chk.get("status") == "failed":
        problems = problems + ["coqchk rejects the compiled development: " + chk.get("tail", "")[-300:]]
    tmp = None
    try:
        try:
            tmp, vh = shadow.build()
        except shadow.ShadowError as e:
            common.violation(pid, dict(kind="correspondence-broken", what=str(e),
                                       correspondence="shadow build of /repo with verification hooks"), found_input=False)
            common.write_evidence(pid, tier, seed, "other", dict(explanation="harness could not be built against the current tree: %s" % e), time.time() - t0, 1)
            return 1
        n = 150 if tier == "quick" else 1500
        nsched = 4 if tier == "quick" else 8
        orders = (4, 4, 8, 4, 16) if pid in ("C04", "C06") else (4, 4, 8, 2, 4, 16)
        corpus = load_corpus(pid, tier)
        cases = list(corpus)
        cases += gensched.gen_sched_cases(seed, n, shadow.TYPE_NAMES, orders=orders, nsched=nsched, kinds=KINDS[pid])
        if pid == "C05":
            cases += counter_cases(seed, 30 if tier == "quick" else 300)
        if extra_cases:
            cases += extra_cases
        byid = {c["id"]: c for c in cases}
        go, mo = {}, {}
        SH = 200
        for s in range(0, len(cases), SH):
            g1, m1 = schedcheck.run_cases(vh, cases[s:s + SH], tmp, tag="sch%d" % s, ci=(pid in ("C03", "C04", "C06", "C08")))
            go.update(g1)
            mo.update(m1)
        mismatches, mon_viol = [], []
        nsteps = 0
        preempt_runs = set()
        for key, grun in go.items():
            case = byid[key[0]]
            nsteps += len(grun["steps"])
            sch = schedcheck.executed_schedule(grun)
            sw = sum(1 for a, b in zip(sch, sch[1:]) if a != b)
            if sw >= 2:
                preempt_runs.add((key[0], tuple(sch)))
            mm = schedcheck.first_mismatch(pid, grun, mo.get(key))
            if mm:
                mismatches.append((key, mm))
            v = schedcheck.monitor_run(pid, case, grun)
            if v:
                mon_viol.append((key, v))
        viol_count = 0
        ci = dict(schedcheck.CI_STATS)
        if ci["gi_failures"] or ci["pc_failures"] or ci["lin_failures"]:
            problems = problems + ["the concurrent invariant CI (GI + program-counter consistency) or the linearization-point check (abs changes exactly at linearization points, as the specification says) fails on a state of the model reached by an executed schedule: %s" % ci.get("first")]
        proof_broken = bool(problems)
        if mon_viol:
            key, v = mon_viol[0]
            case = dict(byid[key[0]])
            case["sched"] = ["list " + " ".join(map(str, schedcheck.executed_schedule(go[key])))]
            common.violation(pid, dict(kind="sched", case=case, run=list(key), failure=v[0],
                                       go_trace=[s["raw"][:500] for s in go[key]["steps"]][-12:], runs_violating=len(mon_viol)))
            viol_count = len(mon_viol)
        elif mismatches or proof_broken:
            what = {}
            if mismatches:
                key, mm = mismatches[0]
                case = dict(byid[key[0]])
                case["sched"] = ["list " + " ".join(map(str, schedcheck.executed_schedule(go[key])))]
                what = dict(correspondence="scheduled model/implementation correspondence, projection of %s" % pid, case=case,
                            run=list(key), mismatch=mm, runs_mismatching=len(mismatches))
            if proof_broken:
                what["proof_obligations_broken"] = problems
            common.violation(pid, dict(kind="sched", **what), found_input=False)
            viol_count = max(1, len(mismatches))
        xcc = None
        if pid in ("C03", "C04") and not viol_count:
            xn, xsteps, xmism, xerr = crosscheck.run_conc(byid, go, tmp, limit_steps=3000 if tier == "quick" else 20000)
            xcc = dict(runs=xn, steps=xsteps, mismatches=xmism, error=xerr)
            if xerr or xmism:
                common.violation(pid, dict(kind="sched", correspondence="in-Coq (vm_compute) evaluation of the concurrent model vs the implementation's final structure and results",
                                           mismatch=xmism, error=xerr), found_input=False)
                viol_count = 1
        gocov = None
        if pid == "C03":
            cp = os.path.join(tmp, "cov.ccases")
            gensched.write_cases([c for c in cases if not any(x.startswith("all") for x in c["sched"])][:200], cp)
            gocov = shadow.coverage_of(tmp, vh, "sched", cp)
        sample_key = next(iter(go))
        sample_case = byid[sample_key[0]]
        coverage = dict(
            obligations=len(names), discharged=len(done), theorems=names,
            checker_cmd="cd /verif/coq && make -j16 && for f in Properties Properties2 Properties3; do coqc -Q . GB $f.v; done  (Print Assumptions under every theorem; coqchk -silent -o in the thorough tier)",
            trusted_base=common.TRUSTED_BASE, coqchk={k: v for k, v in chk.items() if k != "tail"},
            evaluations=len(go), scheduled_steps=nsteps, programs=len(cases),
            distinct_nontrivial=len(preempt_runs),
            rule="seeded client programs (2-3 goroutines x 1-3 calls, random initial trees) under seeded random schedules chosen by the cooperative scheduler; every executed schedule is replayed on the extracted concurrent model and compared step by step; distinct = different (case, executed schedule); non-trivial = at least two context switches",
            traces_validated_against_impl=len(go) - len(mismatches),
            correspondence_mismatches=len(mismatches), monitor_violations=len(mon_viol),
            exhaustively_enumerated_programs=len(corpus), enumerations_truncated=sum(1 for r in go.values() if r.get("enum_truncated")),
            model_invariant_CI=ci, in_coq_crosscheck_concurrent=xcc, go_statement_coverage=gocov,
            deadlocks_seen=sum(1 for r in go.values() if r["deadlock"]), truncated_runs=sum(1 for r in go.values() if r["truncated"]),
            samples=[dict(type=sample_case["type"], order=sample_case["order"], init=sample_case["init"][:10], progs=sample_case["progs"],
                          schedule=schedcheck.executed_schedule(go[sample_key])[:60])],
            repo_fingerprint=common.repo_fingerprint(),
            explanation=level_note or "")
        lvl = level if (names and len(done) == len(names)) else "other"
        if seq_part:
            coverage["sequential_part"] = seq_part["coverage"]
            viol_count += seq_part["violations"]
            coverage["evaluations"] += seq_part["coverage"].get("evaluations", 0)
        if not coverage["explanation"]:
            coverage["explanation"] = "scheduled correspondence + monitors; theorems listed under 'theorems'"
        common.write_evidence(pid, tier, seed, lvl, coverage, time.time() - t0, viol_count)
        common.log("%s %s: %d programs, %d runs, %d steps, corr mismatches %d, monitor violations %d, theorems %d/%d, %.1fs"
                   % (pid, tier, len(cases), len(go), nsteps, len(mismatches), len(mon_viol), len(done), len(names), time.time() - t0))
        return 1 if viol_count else 0
    finally:
        if tmp:
            shutil.rmtree(tmp, ignore_errors=True)

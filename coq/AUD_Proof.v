(* AUD_Proof.v — four closing lemmas asked for by the external review of the property theorems.
   (1) cursor_blocks_only_its_leaf (+ corollary cursor_blocks_only_its_leaf_unfree)     [C10]
   (2) quiescent_Inv                                                                     [C08]
   (3) writes_only_under_lock_exact_closed                                               [C07]
   (4) accepted_order_ok, accepted_order_order_ok, accepted_orders_are_usable            [C12]
   Stdlib only, no axioms. *)
From Coq Require Import ZArith Lia List Bool PeanoNat Permutation.
From GB Require Import Model Spec Inv Order OrderProof InvProof HistoryProof Conc GI LockInv LockProof ConcProps
     Frame FrameInv FrameProof CInv CIDef LinDef Final Footprint OCCc_Base EraseOps EraseLemmas TreeLemmas.
Import ListNotations.
Open Scope nat_scope.

(* ================================================================================================ *)
(* generic helpers (no invariant needed)                                                            *)
(* ================================================================================================ *)
Section Helpers.
Variables (K V : Type).
Notation itree := (itree K V).
Notation st := (st K V).

Lemma holder_some_in : forall (x : id) (t : tid) (l : list (id * tid)), holder x l = Some t -> In (x, t) l.
Proof.
  intros x t l Hh. unfold holder in Hh.
  destruct (List.find (fun e => fst e =? x) l) as [[y u]|] eqn:E; [|discriminate].
  inversion Hh; subst. apply find_some in E. destruct E as [Hin Heq]. simpl in Heq.
  apply Nat.eqb_eq in Heq. subst y. exact Hin.
Qed.

Lemma holder_some_held : forall (x : id) (t : tid) (l : list (id * tid)), holder x l = Some t -> In x (held_by t l).
Proof. intros x t l Hh. apply In_held_by. apply holder_some_in. exact Hh. Qed.

Lemma perm_single_in : forall (A : Type) (l : list A) (a x : A), Permutation l [a] -> In x l -> x = a.
Proof.
  intros A l a x Hp Hin. pose proof (Permutation_in x Hp Hin) as H. simpl in H.
  destruct H as [H|[]]. symmetry. exact H.
Qed.

(* minimum occupancy (no exempt node) + capacity, on the tree with identities = the sequential occupancy clause *)
Lemma iocc_occ : forall (order : nat) (t : itree) (b : bool),
  cap order (erase_ids t) -> iocc_b order None b t = true -> occ order b (erase_ids t).
Proof.
  intros order t. induction t as [i nx es|i cs IH] using (itree_ind' K V); intros b Hcap Hocc.
  - rewrite iocc_eq in Hocc. apply andb_true_iff in Hocc. destruct Hocc as [Htop _].
    unfold top_ok in Htop. simpl in Htop. simpl. simpl in Hcap. destruct Hcap as [Hc _].
    split; [exact Hc|]. split; [|exact I]. destruct b; [exact I|]. apply Nat.leb_le. exact Htop.
  - rewrite iocc_eq in Hocc. apply andb_true_iff in Hocc. destruct Hocc as [Htop Hkids].
    unfold top_ok in Htop. simpl in Htop. unfold kids_occ, ioccl in Hkids. rewrite forallb_forall in Hkids.
    cbn [erase_ids cap] in Hcap. destruct Hcap as [Hc Hck]. rewrite all_kids_Forall in Hck.
    rewrite Forall_map in Hck. simpl in Hck. rewrite Forall_forall in Hck. rewrite Forall_forall in IH.
    apply occ_unfold. cbn [erase_ids count] in *. rewrite map_length in *. split; [exact Hc|]. split.
    + destruct b; apply Nat.leb_le; exact Htop.
    + unfold occ_kids. rewrite all_kids_Forall. rewrite Forall_map. simpl. rewrite Forall_forall.
      intros c Hin. apply (IH c Hin false); [exact (Hck c Hin)|exact (Hkids c Hin)].
Qed.

(* when every thread is Idle no node is exempt from minimum occupancy *)
Lemma exempt_none_idle : forall (l : list (tid * thread K V)),
  (forall e, In e l -> tpc (snd e) = Idle) ->
  fold_right (fun e acc => match exempt_of (tpc (snd e)) with Some x => Some x | None => acc end) None l = None.
Proof.
  induction l as [|e l IH]; intros Hall; [reflexivity|]. simpl.
  rewrite (Hall e (or_introl eq_refl)). simpl. apply IH. intros e' Hin. apply Hall. right. exact Hin.
Qed.

End Helpers.

(* ================================================================================================ *)
(* the four lemmas, for every reachable state                                                       *)
(* ================================================================================================ *)
Section AUD.
Variables (K V : Type) (ltb : K -> K -> bool).
Hypothesis HS : SWO ltb.
Variable order : nat.
Hypothesis Heven : Nat.even order = true.
Hypothesis H4 : 4 <= order.

(* a thread resting with an open cursor (between calls, or hopping to the next leaf) or inside an Update callback *)
Definition rests_on (p : pc K V) (l : id) : Prop :=
  (exists i n acc, p = CurRest l i n acc) \/ (exists nxt n acc, p = CurWantNext l nxt n acc) \/
  (exists o m i, p = UpdCallback o l m i).

(* such a thread holds exactly its one leaf, and not the tree mutex *)
Lemma resting_holds_exactly : forall (progs : list (tid * list (cop K V))) sched t th l,
  NoDup (map fst progs) ->
  let s := fst (exec ltb order (init_st progs) sched) in
  get_thread t (ths s) = Some th -> rests_on (tpc th) l ->
  Permutation (held_by t (lk s)) [l] /\ tm s <> Some t.
Proof.
  intros progs sched t th l Hnd s Hg Hr.
  pose proof (footprint_parent_child K V ltb HS order Heven H4 progs sched t th Hnd Hg) as Hf.
  fold s in Hf.
  destruct Hr as [(i & n & acc & E)|[(nxt & n & acc & E)|(o & m & i & E)]]; rewrite E in Hf; exact Hf.
Qed.

(* ---------------------------------------------------------------------------------------------- *)
(* (1) DIRECT BLOCKING (C10)                                                                        *)
(* ---------------------------------------------------------------------------------------------- *)
(* the core: whatever lock is unavailable because of a resting thread t is t's one leaf *)
Lemma resting_thread_owns_only_its_leaf : forall (progs : list (tid * list (cop K V))) sched t th l tg,
  NoDup (map fst progs) ->
  let s := fst (exec ltb order (init_st progs) sched) in
  get_thread t (ths s) = Some th -> rests_on (tpc th) l ->
  ((exists x, tg = Some (Some x) /\ holder x (lk s) = Some t) \/ (tg = Some None /\ tm s = Some t)) ->
  tg = Some (Some l).
Proof.
  intros progs sched t th l tg Hnd s Hg Hr Hblk.
  destruct (resting_holds_exactly progs sched t th l Hnd Hg Hr) as [Hperm Htm]. fold s in Hperm, Htm.
  destruct Hblk as [(x & Etg & Hh)|[Etg Ht]].
  - subst tg. apply holder_some_held in Hh. rewrite (perm_single_in _ _ _ _ Hperm Hh). reflexivity.
  - exfalso. exact (Htm Ht).
Qed.

Theorem cursor_blocks_only_its_leaf : forall (progs : list (tid * list (cop K V))) sched t th u thu l tg,
  NoDup (map fst progs) ->
  let s := fst (exec ltb order (init_st progs) sched) in
  get_thread t (ths s) = Some th ->
  ((exists i n acc, tpc th = CurRest l i n acc) \/ (exists nxt n acc, tpc th = CurWantNext l nxt n acc) \/
   (exists o m i, tpc th = UpdCallback o l m i)) ->
  u <> t -> get_thread u (ths s) = Some thu -> Conc.target s (tpc thu) = Ok tg ->
  ((exists x, tg = Some (Some x) /\ holder x (lk s) = Some t) \/ (tg = Some None /\ tm s = Some t)) ->
  tg = Some (Some l).
Proof.
  intros progs sched t th u thu l tg Hnd s Hg Hr _ _ _ Hblk.
  exact (resting_thread_owns_only_its_leaf progs sched t th l tg Hnd Hg Hr Hblk).
Qed.

(* converse-flavoured: if u's awaited lock is not free and whoever holds it is the resting thread t,
   then u is waiting for t's leaf (in particular u is not waiting for the tree mutex) *)
Corollary cursor_blocks_only_its_leaf_unfree : forall (progs : list (tid * list (cop K V))) sched t th u thu l tg,
  NoDup (map fst progs) ->
  let s := fst (exec ltb order (init_st progs) sched) in
  get_thread t (ths s) = Some th ->
  ((exists i n acc, tpc th = CurRest l i n acc) \/ (exists nxt n acc, tpc th = CurWantNext l nxt n acc) \/
   (exists o m i, tpc th = UpdCallback o l m i)) ->
  u <> t -> get_thread u (ths s) = Some thu -> Conc.target s (tpc thu) = Ok tg ->
  is_free s tg = false ->
  (forall x, tg = Some (Some x) -> holder x (lk s) = Some t) ->
  (tg = Some None -> tm s = Some t) ->
  tg = Some (Some l).
Proof.
  intros progs sched t th u thu l tg Hnd s Hg Hr Hne Hgu Htg Hfree Hnode Hmut.
  apply (cursor_blocks_only_its_leaf progs sched t th u thu l tg Hnd Hg Hr Hne Hgu Htg).
  destruct tg as [[x|]|].
  - left. exists x. split; [reflexivity|]. apply Hnode. reflexivity.
  - right. split; [reflexivity|]. apply Hmut. reflexivity.
  - simpl in Hfree. discriminate.
Qed.

(* hence a thread that does not need that leaf is not blocked by t at all: if u's target is not t's leaf,
   then t is not the holder of what u waits for *)
Corollary cursor_does_not_block_others : forall (progs : list (tid * list (cop K V))) sched t th u thu l tg,
  NoDup (map fst progs) ->
  let s := fst (exec ltb order (init_st progs) sched) in
  get_thread t (ths s) = Some th ->
  ((exists i n acc, tpc th = CurRest l i n acc) \/ (exists nxt n acc, tpc th = CurWantNext l nxt n acc) \/
   (exists o m i, tpc th = UpdCallback o l m i)) ->
  u <> t -> get_thread u (ths s) = Some thu -> Conc.target s (tpc thu) = Ok tg ->
  tg <> Some (Some l) ->
  (forall x, tg = Some (Some x) -> holder x (lk s) <> Some t) /\ (tg = Some None -> tm s <> Some t).
Proof.
  intros progs sched t th u thu l tg Hnd s Hg Hr Hne Hgu Htg Hnl. split.
  - intros x Etg Hh. apply Hnl.
    apply (cursor_blocks_only_its_leaf progs sched t th u thu l tg Hnd Hg Hr Hne Hgu Htg).
    left. exists x. split; [exact Etg|exact Hh].
  - intros Etg Ht. apply Hnl.
    apply (cursor_blocks_only_its_leaf progs sched t th u thu l tg Hnd Hg Hr Hne Hgu Htg).
    right. split; [exact Etg|exact Ht].
Qed.

(* ---------------------------------------------------------------------------------------------- *)
(* (2) QUIESCENT SHAPE (C08)                                                                        *)
(* ---------------------------------------------------------------------------------------------- *)
Theorem quiescent_Inv : forall (progs : list (tid * list (cop K V))) sched,
  NoDup (map fst progs) ->
  let s := fst (exec ltb order (init_st progs) sched) in
  (forall t th, get_thread t (ths s) = Some th -> tpc th = Idle) ->
  Inv ltb order (erase_ids (tr s)) /\ chain_ok (leaf_links (tr s)).
Proof.
  intros progs sched Hnd s Hidle.
  pose proof (final_invariant_reachable K V ltb HS order Heven H4 progs sched Hnd) as HCI. fold s in HCI.
  destruct HCI as [[[HGI [HL2 _]] Hocc] _].
  destruct HGI as (_ & _ & Hord & Hbal & Hcap & Hchain).
  pose proof (lock_inv2_lock_inv _ _ _ HL2) as HL. destruct HL as (_ & Hndt & _).
  assert (Hex : exempt_node s = None).
  { unfold exempt_node. apply exempt_none_idle. intros [t th] Hin. simpl.
    apply (Hidle t th). apply OCCc_Base.in_get_thread; [exact Hndt|exact Hin]. }
  unfold occ_ok_b in Hocc. rewrite Hex in Hocc.
  split; [|exact Hchain]. split; [exact Hord|]. split; [exact Hbal|].
  apply iocc_occ; [exact Hcap|exact Hocc].
Qed.

(* ---------------------------------------------------------------------------------------------- *)
(* (3) LOSSLESS DISCHARGED (C07)                                                                    *)
(* ---------------------------------------------------------------------------------------------- *)
Lemma reach_lossless : forall (progs : list (tid * list (cop K V))) sched,
  NoDup (map fst progs) -> lossless order (tr (reach ltb order progs sched)).
Proof.
  intros progs sched Hnd. apply (GI_lossless K V ltb order _ Heven). unfold reach.
  exact (final_GI_reachable K V ltb HS order Heven H4 progs sched Hnd).
Qed.

Theorem writes_only_under_lock_exact_closed :
  forall (progs : list (tid * list (cop K V))) sched me s' acq ev x,
  NoDup (map fst progs) ->
  let s := reach ltb order progs sched in
  cstep ltb order s me = Stepped s' acq ev ->
  In x (ids (tr s)) -> ~ In x (held_by me (lk s)) -> acq <> Some (Some x) ->
  node_view x (tr s') = node_view x (tr s).
Proof.
  intros progs sched me s' acq ev x Hnd s Hstep Hin Hnh Hacq.
  exact (reach_step_frame K V ltb order progs sched me s' acq ev x Hnd (reach_lossless progs sched Hnd) Hstep Hin Hnh Hacq).
Qed.

End AUD.

(* ================================================================================================ *)
(* (4) ACCEPTED ORDERS ARE USABLE (C12)                                                             *)
(* ================================================================================================ *)
Theorem accepted_order_ok : forall o : Z, check_order o = true ->
  Nat.even (Z.to_nat o) = true /\ 2 <= Z.to_nat o /\ (o <> 2%Z -> 4 <= Z.to_nat o).
Proof.
  intros o Hc. apply check_order_spec in Hc. destruct Hc as [n [Hn Ho]].
  assert (Hp : (0 < 2 ^ (n - 1))%Z) by (apply Z.pow_pos_nonneg; lia).
  assert (E1 : o = (2 * 2 ^ (n - 1))%Z).
  { subst o. rewrite <- Z.pow_succ_r by lia. f_equal. lia. }
  split; [|split].
  - rewrite E1. rewrite Z2Nat.inj_mul by lia. apply Nat.even_spec.
    exists (Z.to_nat (2 ^ (n - 1))). change (Z.to_nat 2) with 2. reflexivity.
  - lia.
  - intros Hne. assert (Hn2 : (2 <= n)%Z).
    { destruct (Z.eq_dec n 1) as [E|E]; [|lia]. exfalso. apply Hne. subst o n. reflexivity. }
    assert (Hq : (0 < 2 ^ (n - 2))%Z) by (apply Z.pow_pos_nonneg; lia).
    assert (E2 : o = (4 * 2 ^ (n - 2))%Z).
    { subst o. change 4%Z with (2 ^ 2)%Z. rewrite <- Z.pow_add_r by lia. f_equal. lia. }
    lia.
Qed.

Theorem accepted_order_order_ok : forall (K V : Type) (o : Z) (ops : list (op K V)),
  check_order o = true -> (o <> 2%Z \/ no_delete ops) -> order_ok (Z.to_nat o) ops.
Proof.
  intros K V o ops Hc Hd. destruct (accepted_order_ok o Hc) as (He & H2 & H4).
  split; [exact He|]. destruct Hd as [Hne|Hnd]; [left; exact (H4 Hne)|right; split; [exact H2|exact Hnd]].
Qed.

(* every order the constructors accept (other than 2; or 2 as well, for histories without Delete) is usable:
   every history from the empty tree runs without panic, returns exactly what the ideal map returns, leaves the
   ideal map's contents and the shape invariant *)
Theorem accepted_orders_are_usable :
  forall (K V : Type) (ltb : K -> K -> bool), SWO ltb ->
  forall (o : Z) (ops : list (op K V)), check_order o = true -> (o <> 2%Z \/ no_delete ops) ->
  exists t, run_tree ltb (Z.to_nat o) (Leaf []) ops = Ok (t, snd (run_spec ltb [] ops)) /\
            entries t = fst (run_spec ltb [] ops) /\ Inv ltb (Z.to_nat o) t.
Proof.
  intros K V ltb HS o ops Hc Hd.
  exact (history_refines K V ltb HS (Z.to_nat o) ops (accepted_order_order_ok K V o ops Hc Hd)).
Qed.

Check cursor_blocks_only_its_leaf.
Check cursor_blocks_only_its_leaf_unfree.
Check cursor_does_not_block_others.
Check quiescent_Inv.
Check writes_only_under_lock_exact_closed.
Check accepted_order_ok.
Check accepted_order_order_ok.
Check accepted_orders_are_usable.

Print Assumptions cursor_blocks_only_its_leaf.
Print Assumptions cursor_blocks_only_its_leaf_unfree.
Print Assumptions cursor_does_not_block_others.
Print Assumptions quiescent_Inv.
Print Assumptions writes_only_under_lock_exact_closed.
Print Assumptions accepted_order_ok.
Print Assumptions accepted_order_order_ok.
Print Assumptions accepted_orders_are_usable.

"""check replay <path>: re-run a recorded violation against the current /repo."""
import json, shutil, subprocess, os
from . import common, shadow, seqcheck, schedcheck


def main(path):
    d = json.load(open(path))
    pid = d.get("property", "?")
    kind = d.get("kind")
    st = common.ensure_built()
    if not st["ok"]:
        print("framework does not build:", st["errors"])
        return 2
    tmp = None
    try:
        if kind == "seq" and "case" in d:
            tmp, vh = shadow.build()
            c = d["case"]
            go, mo = seqcheck.run_cases(vh, [c], tmp, tag="replay")
            g, m = go.get(c["id"], []), mo.get(c["id"], [])
            v, known = seqcheck.monitor_case(pid, c, g)
            mm = seqcheck.first_mismatch(pid, c, g, m)
            for l in g[-5:]:
                print("go:", l["raw"][:300])
            print("monitor:", v[:1], "mismatch:", mm)
            return 1 if (v or mm) else 0
        if kind == "sched" and "case" in d:
            tmp, vh = shadow.build()
            c = d["case"]
            c["progs"] = {int(k): v for k, v in c["progs"].items()}
            go, mo = schedcheck.run_cases(vh, [c], tmp, tag="replay")
            bad = 0
            for key, run in go.items():
                v = schedcheck.monitor_run(pid, c, run)
                mm = schedcheck.first_mismatch(pid, run, mo.get(key))
                for s in run["steps"][-8:]:
                    print("go:", s["raw"][:300])
                if run["deadlock"]:
                    print("go:", run["deadlock"][:300])
                print("monitor:", v[:1], "mismatch:", mm)
                bad += bool(v or mm)
            return 1 if bad else 0
        if kind in ("race", "race-stress-failure"):
            tmp, vr = shadow.build(shim=False, harness="vrace", race=True)
            args = d["run"]["args"]
            r = subprocess.run([vr] + args, capture_output=True, text=True, env=dict(os.environ, GORACE="halt_on_error=1 exitcode=66"))
            print(r.stdout[-1000:], r.stderr[-3000:])
            return 1 if r.returncode != 0 else 0
        print(json.dumps(d, indent=1)[:4000])
        print("this replay names a broken theorem/correspondence or a framework failure; re-run the property's check")
        return 1
    finally:
        if tmp:
            shutil.rmtree(tmp, ignore_errors=True)

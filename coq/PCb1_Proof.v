(* PCb1_Proof.v — after any step, the NEW program counter of the thread that stepped is consistent (pc_ok_b of
   CInv.v) with the NEW tree.  See the summary at the end of the file. *)
From Coq Require Import List Permutation Lia Bool PeanoNat.
From GB Require Import Model Inv ListLemmas TreeLemmas Conc GI CInv CIDef Frame LockProof ConcProps
  UpdLemmas FrameRel FrameInv FrameBlocks FrameProof EraseLemmas EraseOps SoloBase PCb1_Bounds PCb1_Blocks.
Import ListNotations.

Section Proof.
Variables (K V : Type) (ltb : K -> K -> bool).
Hypothesis HS : SWO ltb.
Notation itree := (itree K V).
Notation pc := (pc K V).
Notation st := (st K V).
Notation out := (out K V).
Notation thread := (thread K V).

(* the extra executable fact: a thread waiting for the LEFT sibling is at a positive child index *)
Definition all_left_pos_b (s : st) : bool := forallb (fun e => left_pos_b (tpc (snd e))) (ths s).

Lemma get_thread_in me (l : list (tid * thread)) th : get_thread me l = Some th -> In (me, th) l.
Proof.
  unfold get_thread. destruct (List.find (fun e => fst e =? me) l) as [[u w]|] eqn:E; [|discriminate].
  intros H. inversion H; subst. apply find_some in E. destruct E as [Hin Hx]. simpl in Hx.
  apply Nat.eqb_eq in Hx. subst. exact Hin.
Qed.

Ltac blk_top HB :=
  match type of HB with
  | bind ?e _ = Ok _ => let E := fresh "HE" in destruct e eqn:E; [cbn [bind] in HB; inversion HB; subst; clear HB | discriminate HB]
  end.
Ltac lp H :=
  crunch H;
  try (unfold mk in H; inversion H; reflexivity);
  try (eapply ins_descend_lp; eassumption).
Ltac in_solve := simpl; rewrite ?in_app_iff; simpl; tauto.

Opaque unwind.

Lemma own_core : forall order (s : st) me th tg (o : out),
  1 <= order -> CIfull ltb order s -> all_inv K V s ->
  get_thread me (ths s) = Some th -> target s (tpc th) = Ok tg -> is_free s tg = true ->
  left_pos_b (tpc th) = true ->
  blk ltb order s me th tg = Ok (Some o) ->
  pc_ok_b ltb order (otr o) (opc o) = true /\ left_pos_b (opc o) = true.
Proof.
  intros order s me th tg o Ho [[HGI [_ Hpcs]] Hocc] (Hids & Hinv & Hfi) Hme Htg Hfree Hlp HB.
  destruct HGI as (Hnd & Hlt & Hord & Hbal & Hcap & Hchain).
  assert (Hok0 : pc_ok_b ltb order (tr s) (tpc th) = true).
  { unfold all_pc_ok_b in Hpcs. rewrite forallb_forall in Hpcs. apply (Hpcs (me, th)). apply get_thread_in; auto. }
  destruct Hinv as [Hinv Hwf2]. pose proof Hinv as [Hndl [Hndt [Hlk [Htm Hth]]]].
  destruct (Hth me th Hme) as [Hwf [HP HT]].
  pose proof (Hwf2 me th Hme) as Hw2.
  pose proof (Hfi me th Hme) as Hok.
  assert (Hfr1 : ~ In (fresh s) (ids (tr s))).
  { intro X. rewrite Forall_forall in Hlt. apply Hlt in X. lia. }
  assert (Hfr2 : ~ In (S (fresh s)) (ids (tr s))).
  { intro X. rewrite Forall_forall in Hlt. apply Hlt in X. lia. }
  assert (Hheld : forall x, In x (pc_nodes (tpc th)) -> In x (held_by me (lk s))).
  { intros x Hx. eapply Permutation_in; [apply Permutation_sym; exact HP | exact Hx]. }
  unfold blk in HB.
  destruct (tpc th) as [ |o0|o0 r|o0 lft rgt|o0 p c index|o0 p c r|o0 leaf mode index|o0 p c|o0 stk|o0 stk|o0 stk|leaf i n acc|leaf nxt n acc] eqn:Hpc.
  all: cbv beta iota zeta in HB; simpl in Htg; crunch Htg; inversion Htg; subst tg; clear Htg.
  all: simpl in Hw2, Hok, Hheld.
  - (* Idle *) destruct (prog th); [discriminate HB|]. unfold mk in HB. simpl in HB. inversion HB; subst. split; reflexivity.
  - (* WantT *) blk_top HB. unfold mk in HE. inversion HE; subst. simpl. rewrite Nat.eqb_refl. split; reflexivity.
  - (* WantRoot *)
    blk_top HB.
    destruct o0 as [k v|k f|k|k|k cnt].
    + split; [eapply (ins_root_pc K V ltb HS order _ _ (tr s)); [exact Ho | exact Hnd | exact Hfr1 | exact Hfr2 | reflexivity | exact HE] | lp HE].
    + split; [eapply (ins_root_pc K V ltb HS order _ _ (tr s)); [exact Ho | exact Hnd | exact Hfr1 | exact Hfr2 | reflexivity | exact HE] | lp HE].
    + destruct (tr s) as [i nx es|i cs] eqn:Et.
      * unfold mk in HE. crunch HE. inversion HE; subst. split; reflexivity.
      * destruct (del_descend ltb (CDelete k) [] (nid (INode i cs)) (INode i cs)) as [p|] eqn:Ed; [cbn [bind] in HE|discriminate HE].
        unfold mk in HE. inversion HE; subst; clear HE. cbn [otr opc].
        eapply (del_descend_pc K V ltb HS order); [exact Ed | exact Hord | exact Hbal | reflexivity | reflexivity].
    + split; [eapply sea_descend_pc; eauto | eapply sea_descend_lp; eauto].
    + split; [eapply sea_descend_pc; eauto | eapply sea_descend_lp; eauto].
  - (* InsWantRootRight *)
    blk_top HB. unfold pc_ok_b in Hok0.
    destruct (find rgt (tr s)) as [rt|] eqn:Hfr; [|discriminate Hok0].
    apply andb_prop in Hok0. destruct Hok0 as [Hc Hr]. apply Nat.ltb_lt in Hc.
    split; [eapply (ins_descend_pc K V ltb HS); eauto | eapply ins_descend_lp; eauto].
  - (* InsWantChild *)
    blk_top HB.
    split; [eapply (ins_child_pc_f6 K V ltb HS order o0 p c index (tr s)); [exact Ho | exact Hnd | exact Hfr1 | exact Hord | exact Hok0 | exact HE] | lp HE].
  - (* InsWantSplitRight *)
    blk_top HB. unfold pc_ok_b in Hok0.
    destruct (find p (tr s)) as [[?|pi cs]|] eqn:Hfp; try discriminate Hok0.
    destruct (find r (tr s)) as [rt|] eqn:Hfr; [|discriminate Hok0].
    repeat (apply andb_prop in Hok0; destruct Hok0 as [Hok0 ?]). apply Nat.ltb_lt in Hok0.
    split; [eapply (ins_descend_pc K V ltb HS); eauto | eapply ins_descend_lp; eauto].
  - (* UpdCallback *)
    blk_top HB. unfold mk in HE. crunch HE; inversion HE; subst; split; reflexivity.
  - (* SeaWantChild *)
    blk_top HB. split; [eapply sea_descend_pc; eauto | eapply sea_descend_lp; eauto].
  - (* DelWantLeft *)
    blk_top HB. unfold mk in HE. inversion HE; subst; clear HE. cbn [otr opc].
    split; [|reflexivity]. unfold pc_ok_b in *.
    eapply frames_set_fl_ok; eauto.
  - (* DelWantChild *)
    blk_top HB. destruct Hok as (O1 & O2 & O3 & O4). destruct Hw2 as [Hb Hfc].
    assert (Hfo1 : frames_ok_b (tr s) (set_fc f a :: l) = true).
    { unfold pc_ok_b in Hok0. eapply frames_set_fc_ok; eauto. }
    assert (Hb1 : bottom_ok (nid (tr s)) (set_fc f a :: l)) by (eapply bottom_ok_replace; eauto).
    assert (Hs1 : stack_ok (tr s) (fresh s) (set_fc f a :: l)).
    { simpl. split; [exact O1|]. split; [exact O2|]. split; [|split; [exact O3|exact O4]].
      exists a. split; [reflexivity|]. apply child_id_at. exact E0. }
    assert (Hperm : Permutation (a :: held_by me (lk s)) (nid (tr s) :: flat_map fkids (set_fc f a :: l))).
    { rewrite HP. simpl pc_nodes. eapply perm_trans; [eapply frames_set_fc; eauto|].
      rewrite (frames_nodes_bottom (nid (tr s))); [reflexivity | discriminate | exact Hb1]. }
    assert (Hga : NoDup (a :: held_by me (lk s))) by (eapply granted_nodup; eauto).
    assert (Hnd1 : NoDup (nid (tr s) :: flat_map fkids (set_fc f a :: l))).
    { eapply Permutation_NoDup; [exact Hperm | exact Hga]. }
    destruct (find a (tr s)) as [[i nx es|i cs]|] eqn:Hfa; try discriminate HE.
    + destruct (leaf_delete ltb (Nat.div2 order) (key_of o0) es) as [[es' small]|] eqn:Hld; [cbn [bind] in HE|discriminate HE].
      match type of HE with bind ?e _ = _ => destruct e as [t'|] eqn:Hu; [cbn [bind] in HE|discriminate HE] end.
      destruct (upd_leaf_rel K V True [a] a i nx nx es es' (tr s) t' Hnd Hfa Hu) as (A1 & A2 & A3 & A4);
        [in_solve|].
      assert (Hne : forall g, In g (set_fc f a :: l) -> ~ In (fp g) [a]).
      { intros g Hg [Ea|[]].
        assert (Hgh : In (fp g) (held_by me (lk s))).
        { apply Hheld.
          assert (Hlinks : links (f :: l)) by (split; [exact O3 | eapply stack_ok_links; eauto]).
          rewrite (frames_nodes_bottom (nid (tr s))); [ | discriminate | exact Hb].
          destruct Hg as [<-|Hg].
          - apply (fp_in_frames (nid (tr s)) (f :: l) Hlinks Hb f). left. reflexivity.
          - apply (fp_in_frames (nid (tr s)) (f :: l) Hlinks Hb g). right. exact Hg. }
        inversion Hga as [|? ? Hni _]. apply Hni. rewrite Ea. exact Hgh. }
      split; [|eapply unwind_lp; eauto].
      eapply (unwind_pc K V ltb order) with (t := t'); [exact HE | exact A3 | | | | | | |].
      * eapply stack_ok_frm with (W := [a]); [exact A2 | apply le_n | exact Hne | exact Hs1].
      * rewrite A4. exact Hb1.
      * discriminate.
      * rewrite A4. exact Hnd1.
      * intros x Hx. discriminate Hx.
      * eapply frames_ok_view; [exact A4 | | exact Hfo1].
        intros g Hg. destruct (A2 (fp g) (Hne g Hg)) as [E|[E _]]; [exact E|tauto].
      * intros ->. unfold small_kid. cbn [set_fc fc].
        destruct (upd_self_facts K V a (tr s) t' _ (ILeaf i nx es') Hnd Hfa) as (F1 & _);
          [apply (find_nid' K V) in Hfa; exact Hfa | exact Hu |].
        rewrite F1. simpl. apply Nat.ltb_lt. eapply leaf_delete_small; eauto.
    + destruct (del_descend ltb o0 (set_fc f a :: l) a (tr s)) as [p|] eqn:Ed; [cbn [bind] in HE|discriminate HE].
      unfold mk in HE. inversion HE; subst; clear HE. cbn [otr opc].
      eapply (del_descend_pc K V ltb HS order); [exact Ed | exact Hord | exact Hbal | exact Hfo1 | reflexivity].
  - (* DelWantRight *)
    blk_top HB. destruct Hw2 as [Hb _].
    assert (Hperm : Permutation (a :: held_by me (lk s)) (nid (tr s) :: a :: flat_map fkids (f :: l))).
    { rewrite HP. simpl pc_nodes. rewrite (frames_nodes_bottom (nid (tr s))); [apply perm_swap | discriminate | exact Hb]. }
    unfold pc_ok_b in Hok0. apply andb_prop in Hok0. destruct Hok0 as [Hfo Hsm].
    split; [|eapply unwind_lp; eauto].
    eapply (unwind_pc K V ltb order) with (t := tr s);
      [exact HE | exact Hnd | exact Hok | exact Hb | discriminate | | | exact Hfo | intros _; exact Hsm].
    + simpl opt_list. simpl app. eapply Permutation_NoDup; [exact Hperm | eapply granted_nodup; eauto].
    + intros x Hx. inversion Hx; subst. simpl. apply child_id_at. exact E0.
  - (* CurRest *)
    blk_top HB. unfold mk in HE. crunch HE; inversion HE; subst; clear HE; cbn [otr opc]; (split; [|reflexivity]); try reflexivity.
    all: unfold pc_ok_b; rewrite ?E0, ?E; try reflexivity; apply Nat.eqb_refl.
  - (* CurWantNext *)
    blk_top HB. unfold mk in HE. crunch HE; inversion HE; subst; clear HE; cbn [otr opc]; (split; [|reflexivity]).
    unfold pc_ok_b. rewrite E. reflexivity.
Qed.

Transparent unwind.

(* ---- cstep = target + block + commit ---- *)
Lemma cstep_out order (s s' : st) me acq ev :
  cstep ltb order s me = Stepped s' acq ev ->
  exists th o, get_thread me (ths s) = Some th /\ target s (tpc th) = Ok acq /\ is_free s acq = true /\
    blk ltb order s me th acq = Ok (Some o) /\ s' = commit s me th o.
Proof.
  rewrite cstep_eq. destruct (get_thread me (ths s)) as [th|] eqn:Hme; [|discriminate].
  destruct (target s (tpc th)) as [tg|] eqn:Htg; [|discriminate].
  destruct (negb (is_free s tg)) eqn:Hfree; [discriminate|]. apply negb_false_iff in Hfree.
  destruct (blk ltb order s me th tg) as [[o|]|] eqn:HB; try discriminate.
  intros H. inversion H; subst. exists th, o. auto.
Qed.

Lemma commit_own (s : st) me th (o : out) th' :
  get_thread me (ths s) = Some th -> get_thread me (ths (commit s me th o)) = Some th' ->
  tr (commit s me th o) = otr o /\ tpc th' = opc o.
Proof.
  intros Hme Hg. unfold commit in *. simpl in *.
  rewrite (get_set_same K V me th _ (ths s) Hme) in Hg. inversion Hg; subst th'.
  split; [reflexivity|]. destruct (returned (oev o)); reflexivity.
Qed.

(* ---- the theorem, with the extra fact about the OLD program counter of the stepping thread ---- *)
Theorem own_pc_ok_step_lp : forall order (s s' : st) me acq ev th th',
  Nat.even order = true -> 4 <= order ->
  CIfull ltb order s -> all_inv K V s ->
  get_thread me (ths s) = Some th -> left_pos_b (tpc th) = true ->
  cstep ltb order s me = Stepped s' acq ev ->
  get_thread me (ths s') = Some th' ->
  pc_ok_b ltb order (tr s') (tpc th') = true /\ left_pos_b (tpc th') = true.
Proof.
  intros order s s' me acq ev th th' _ Ho HCI Hai Hme Hlp Hs Hg.
  destruct (cstep_out order s s' me acq ev Hs) as (th0 & o & Hme0 & Htg & Hfree & HB & ->).
  rewrite Hme in Hme0. inversion Hme0; subst th0.
  destruct (commit_own s me th o th' Hme Hg) as [E1 E2]. rewrite E1, E2.
  eapply own_core; eauto. lia.
Qed.

(* ... stated with the fact as a predicate on states, and its own preservation *)
Lemma all_left_pos_get (s : st) me th : all_left_pos_b s = true -> get_thread me (ths s) = Some th -> left_pos_b (tpc th) = true.
Proof.
  unfold all_left_pos_b. rewrite forallb_forall. intros H Hg. apply (H (me, th)). apply get_thread_in. exact Hg.
Qed.

Theorem own_pc_ok_step_x : forall order (s s' : st) me acq ev th',
  Nat.even order = true -> 4 <= order ->
  CIfull ltb order s -> all_inv K V s -> all_left_pos_b s = true ->
  cstep ltb order s me = Stepped s' acq ev ->
  get_thread me (ths s') = Some th' ->
  pc_ok_b ltb order (tr s') (tpc th') = true.
Proof.
  intros order s s' me acq ev th' He Ho HCI Hai Hlp Hs Hg.
  destruct (cstep_out order s s' me acq ev Hs) as (th & o & Hme & _).
  eapply (own_pc_ok_step_lp order s s' me acq ev th th'); eauto. eapply all_left_pos_get; eauto.
Qed.

(* the extra fact needs no invariant to be preserved *)
Lemma del_descend_lp (o : cop K V) stk n (t : itree) p : del_descend ltb o stk n t = Ok p -> left_pos_b p = true.
Proof.
  unfold del_descend. intros H. crunch H; inversion H; subst; clear H.
  destruct (0 <? a) eqn:E0; simpl; auto.
Qed.

Opaque unwind.
Lemma blk_lp order (s : st) me th tg (o : out) :
  blk ltb order s me th tg = Ok (Some o) -> left_pos_b (opc o) = true.
Proof.
  unfold blk.
  destruct (tpc th) as [ |o0|o0 r|o0 lft rgt|o0 p c index|o0 p c r|o0 leaf mode index|o0 p c|o0 stk|o0 stk|o0 stk|leaf i n acc|leaf nxt n acc];
    cbv beta iota zeta; intros HB.
  - destruct (prog th); [discriminate HB|]. unfold mk in HB. simpl in HB. inversion HB; subst. reflexivity.
  - blk_top HB. unfold mk in HE. inversion HE; subst. reflexivity.
  - blk_top HB. destruct o0; lp HE.
    all: try (eapply sea_descend_lp; eassumption).
    all: try (match goal with Hd : del_descend _ _ _ _ _ = Ok _, Hm : mk _ _ _ _ _ _ = Ok _ |- _ => apply del_descend_lp in Hd; unfold mk in Hm; inversion Hm; subst; simpl; exact Hd end).
  - blk_top HB. eapply ins_descend_lp; eauto.
  - blk_top HB. lp HE.
  - blk_top HB. eapply ins_descend_lp; eauto.
  - blk_top HB. lp HE.
  - blk_top HB. eapply sea_descend_lp; eauto.
  - blk_top HB. lp HE.
  - blk_top HB. lp HE.
    all: try (eapply unwind_lp; eassumption).
    all: try (match goal with Hd : del_descend _ _ _ _ _ = Ok _, Hm : mk _ _ _ _ _ _ = Ok _ |- _ => apply del_descend_lp in Hd; unfold mk in Hm; inversion Hm; subst; simpl; exact Hd end).
  - blk_top HB. lp HE. all: try (eapply unwind_lp; eassumption).
  - blk_top HB. lp HE.
  - blk_top HB. lp HE.
Qed.
Transparent unwind.

Theorem all_left_pos_step : forall order (s s' : st) me acq ev,
  all_left_pos_b s = true -> cstep ltb order s me = Stepped s' acq ev -> all_left_pos_b s' = true.
Proof.
  intros order s s' me acq ev Hlp Hs.
  destruct (cstep_out order s s' me acq ev Hs) as (th & o & Hme & Htg & Hfree & HB & ->).
  pose proof (blk_lp order s me th acq o HB) as Ho.
  unfold all_left_pos_b in *. unfold commit. cbn [ths]. unfold set_thread.
  rewrite forallb_forall in *. intros e He. apply in_map_iff in He. destruct He as [e0 [E Hin]].
  destruct (fst e0 =? me); [|subst e; apply Hlp; exact Hin].
  subst e. cbn [snd]. destruct (returned (oev o)); exact Ho.
Qed.

Theorem all_left_pos_init : forall progs, all_left_pos_b (init_st (K:=K) (V:=V) progs) = true.
Proof.
  intros progs. unfold all_left_pos_b, init_st. simpl. rewrite forallb_forall. intros e He.
  apply in_map_iff in He. destruct He as [x [<- _]]. reflexivity.
Qed.

Theorem all_left_pos_exec : forall order sched (s : st), all_left_pos_b s = true -> all_left_pos_b (fst (exec ltb order s sched)) = true.
Proof.
  intros order sched. induction sched as [|t rest IH]; intros s Hinv; simpl; [exact Hinv|].
  destruct (cstep ltb order s t) as [ | | |s1 acq ev| ] eqn:Hs; simpl; try exact Hinv.
  pose proof (IH s1 (all_left_pos_step order s s1 t acq ev Hinv Hs)) as H.
  destruct (exec ltb order s1 rest) as [s2 h]. simpl in *. exact H.
Qed.

(* hence the extra fact holds in every reachable state, unconditionally *)
Corollary all_left_pos_reachable : forall order (progs : list (tid * list (cop K V))) sched,
  all_left_pos_b (reach ltb order progs sched) = true.
Proof. intros. unfold reach. apply all_left_pos_exec. apply all_left_pos_init. Qed.

(* ---- the statement as requested, restricted by an explicit boolean predicate on the old pc ---- *)
Definition not_del_left_b (p : pc) : bool := match p with DelWantLeft _ _ => false | _ => true end.

Theorem own_pc_ok_step_restricted : forall order (s s' : st) me acq ev th th',
  Nat.even order = true -> 4 <= order ->
  CIfull ltb order s -> all_inv K V s ->
  get_thread me (ths s) = Some th -> not_del_left_b (tpc th) = true ->
  cstep ltb order s me = Stepped s' acq ev ->
  get_thread me (ths s') = Some th' ->
  pc_ok_b ltb order (tr s') (tpc th') = true.
Proof.
  intros order s s' me acq ev th th' He Ho HCI Hai Hme Hr Hs Hg.
  eapply (own_pc_ok_step_lp order s s' me acq ev th th'); eauto.
  destruct (tpc th); try reflexivity. discriminate Hr.
Qed.

End Proof.

(* ------------------------------------------------------------------------------------------------ *)
(* DISCREPANCY: the statement without the extra fact is false (machine-checked, K = V = nat, order 4)  *)
(* ------------------------------------------------------------------------------------------------ *)
Section Counterexample.

Lemma nat_SWO : SWO Nat.ltb.
Proof.
  split.
  - apply Nat.ltb_irrefl.
  - intros a b c H1 H2. apply Nat.ltb_lt in H1, H2. apply Nat.ltb_lt. lia.
  - intros a b c H1 H2. apply Nat.ltb_ge in H1, H2. apply Nat.ltb_ge. lia.
Qed.

(* thread 0 runs Delete 0 and rests at DelWantLeft with child index 0 (a pc the model never produces:
   del_descend parks at DelWantLeft only when 0 < index).  Every clause of CIfull and all_inv holds.  The step
   locks child 0 as "left sibling" and moves to DelWantChild with fl = Some 2 at index 0, which frames_ok_b
   rejects (it requires 0 < fidx for a recorded left sibling). *)
Definition cexL : st nat nat :=
  {| tr := INode 1 [(0, ILeaf 2 (Some 3) [(0, 0); (1, 1)]); (5, ILeaf 3 None [(5, 5); (6, 6)])];
     tm := Some 0; lk := [(1, 0)]; fresh := 4;
     ths := [(0, {| prog := [CDelete 0];
                    tpc := DelWantLeft (CDelete 0) [{| fp := 1; fidx := 0; fl := None; fc := None |}];
                    results := [] |})] |}.

Lemma one_threadL (p : thread nat nat) t th : get_thread t [(0, p)] = Some th -> t = 0 /\ th = p.
Proof.
  unfold get_thread. simpl. destruct t; simpl; intros H; [inversion H; auto | discriminate H].
Qed.

Lemma cexL_inv2 : lock_inv2 nat nat cexL.
Proof.
  split.
  - unfold lock_inv, cexL. simpl.
    split; [repeat constructor; simpl; tauto|].
    split; [repeat constructor; simpl; tauto|].
    split; [intros x t [H|[]]; inversion H; subst; eexists; reflexivity|].
    split; [intros t H; inversion H; subst; eexists; reflexivity|].
    intros t th H. apply one_threadL in H. destruct H as [-> ->]. simpl.
    split; [discriminate|]. split; [apply Permutation_refl | tauto].
  - intros t th H. apply one_threadL in H. destruct H as [-> ->]. simpl. unfold bottom_ok. simpl. auto.
Qed.

Lemma cexL_CIfull : CIfull Nat.ltb 4 cexL.
Proof.
  split; [split; [|split]|].
  - unfold GI, cexL. simpl.
    split; [repeat constructor; simpl; intuition discriminate|].
    split; [repeat constructor|].
    split; [unfold lt, le; simpl; repeat split; repeat constructor|].
    split; [repeat split; discriminate|].
    split; [repeat split; lia|].
    auto.
  - exact cexL_inv2.
  - vm_compute. reflexivity.
  - vm_compute. reflexivity.
Qed.

Lemma cexL_all_inv : all_inv nat nat cexL.
Proof.
  split; [|split].
  - unfold ids_ok, cexL. simpl. split; repeat constructor; simpl; intuition discriminate.
  - exact cexL_inv2.
  - intros t th H. apply one_threadL in H. destruct H as [-> ->]. simpl. repeat split. lia.
Qed.

Theorem own_pc_ok_step_needs_left_pos :
  exists (s s' : st nat nat) acq ev th',
    SWO Nat.ltb /\ Nat.even 4 = true /\ 4 <= 4 /\
    CIfull Nat.ltb 4 s /\ all_inv nat nat s /\
    cstep Nat.ltb 4 s 0 = Stepped s' acq ev /\
    get_thread 0 (ths s') = Some th' /\
    pc_ok_b Nat.ltb 4 (tr s') (tpc th') = false /\
    all_left_pos_b nat nat s = false.
Proof.
  exists cexL. eexists. eexists. eexists. eexists.
  split; [exact nat_SWO|]. split; [reflexivity|]. split; [lia|].
  split; [exact cexL_CIfull|]. split; [exact cexL_all_inv|].
  split; [vm_compute; reflexivity|].
  split; [vm_compute; reflexivity|].
  split; vm_compute; reflexivity.
Qed.

End Counterexample.

(* STATUS: everything above is proved; no axioms, no proof left open.

   The requested statement [own_pc_ok_step] is FALSE as written: [pc_ok_b] is true in reachable states but not
   inductive from [CIfull s /\ all_inv s].  Machine-checked counterexample: [own_pc_ok_step_needs_left_pos]
   (state [cexL], order 4): a thread resting at [DelWantLeft o (f :: _)] with [fidx f = 0] satisfies every clause
   of CIfull and all_inv ([pc_ok_b] for DelWantLeft is only [frames_ok_b], and pc_wf2 / frame_inv say nothing
   about the index), its step locks child 0 as "left sibling" and parks at [DelWantChild] with [fl f = Some _] and
   [fidx f = 0], which [frames_ok_b] rejects ([0 <? fidx f] is required for a recorded left sibling).

   The extra executable fact about the OLD state that makes it inductive:
       left_pos_b p  := match p with DelWantLeft _ (f :: _) => 0 <? fidx f | _ => true end      (PCb1_Blocks.v)
       all_left_pos_b s := forallb (fun e => left_pos_b (tpc (snd e))) (ths s)
   It needs no validation by testing: it holds initially ([all_left_pos_init]), is preserved by every step with
   no hypothesis at all ([all_left_pos_step]) and hence holds in every reachable state ([all_left_pos_reachable]).
   It should be added to [pc_ok_b] (clause for DelWantLeft) or to CI.

   Proved (all for SWO ltb, Nat.even order = true, 4 <= order, CIfull ltb order s, all_inv K V s,
   cstep ltb order s me = Stepped s' acq ev, get_thread me (ths s') = Some th'):
     own_pc_ok_step_lp          + get_thread me (ths s) = Some th, left_pos_b (tpc th) = true
                                |- pc_ok_b ltb order (tr s') (tpc th') = true /\ left_pos_b (tpc th') = true
     own_pc_ok_step_x           + all_left_pos_b s = true   |- pc_ok_b ltb order (tr s') (tpc th') = true
     own_pc_ok_step_restricted  + get_thread me (ths s) = Some th, not_del_left_b (tpc th) = true  (old pc is not DelWantLeft)
                                |- pc_ok_b ltb order (tr s') (tpc th') = true
   All thirteen program counters are covered; nothing remains.  (Of the hypotheses, [Nat.even order] and
   [occ_ok_b] are not used; only [1 <= order] is needed of the order.) *)

Print Assumptions own_pc_ok_step_lp.
Print Assumptions own_pc_ok_step_x.
Print Assumptions own_pc_ok_step_restricted.
Print Assumptions all_left_pos_step.
Print Assumptions all_left_pos_init.
Print Assumptions all_left_pos_reachable.
Print Assumptions own_pc_ok_step_needs_left_pos.

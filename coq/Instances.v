(* Instances.v — the key/value instances the correspondence harness runs, and their executable entry points.
   Keys are pairs (class, tag) compared by class only: for the five native key types the harness maps
   class i to the i-th key of an ascending table of real keys (tag 0); for ComparableTree the tag makes
   keys that are order-equivalent but distinguishable, so the stored representative is observable. *)
From Coq Require Import ZArith.
From GB Require Import Model Spec Inv Order.

Definition HK : Type := (Z * Z)%type.
Definition HV : Type := option Z.          (* None = nil interface value *)
Definition hltb (a b : HK) : bool := Z.ltb (fst a) (fst b).
Definition htree := tree HK HV.

(* callback used by the harness: old + d, or d when absent / nil *)
Definition add_cb (d : Z) (a : option HV) : HV :=
  match a with Some (Some x) => Some (x + d)%Z | _ => Some d end.

Definition h_upsert := @upsert HK HV hltb.
Definition h_delete := @delete HK HV hltb.
Definition h_search := @search HK HV hltb.
Definition h_scan := @scan HK HV hltb.
Definition h_inv_b := @inv_b HK HV hltb.
Definition h_entries := @entries HK HV.
Definition h_put := @put HK HV hltb.
Definition h_remove := @erase HK HV hltb.
Definition h_lookup := @lookup HK HV hltb.
Definition h_from := @from HK HV hltb.
Definition h_check_order := check_order.
Definition h_search_ge := @search_ge HK hltb.
Definition h_search_le := @search_le HK hltb.

(* C4_Lists.v — list-level facts for the cursor property C04: strictly sorted association lists around an
   element / around two adjacent elements, the position computed by [leaf_scan_pos], and the "strictly descending
   by key" predicate on the list of pairs a cursor has yielded. *)
From Coq Require Import List Bool Lia PeanoNat Sorted.
From GB Require Import Model Spec Inv ListLemmas SearchProof TreeLemmas SearchScanProof.
Import ListNotations.

Section L.
Variables (K V : Type) (ltb : K -> K -> bool).
Hypothesis HS : SWO ltb.
Notation SS := (StronglySorted (fun a b => ltb a b = true)).
Notation irrefl := (irrefl K ltb HS).
Notation trans := (trans K ltb HS).
Notation asym := (asym K ltb HS).
Notation ltle := (ltle K ltb HS).
Notation lelt := (lelt K ltb HS).
Notation negtrans := (negtrans K ltb HS).
Notation SS_app_iff := (SS_app_iff K ltb).
Notation SS_cons_iff := (SS_cons_iff K ltb).

(* the pairs yielded so far, most recent first: strictly descending by key *)
Definition kdesc (l : list (K * V)) : Prop := StronglySorted (fun a b => ltb (fst b) (fst a) = true) l.

Lemma kdesc_nil : kdesc []. Proof. constructor. Qed.
Lemma kdesc_one e : kdesc [e]. Proof. constructor; constructor. Qed.

Lemma kdesc_cons e e0 acc : kdesc (e0 :: acc) -> ltb (fst e0) (fst e) = true -> kdesc (e :: e0 :: acc).
Proof.
  intros H He. constructor; [exact H|]. constructor; [exact He|].
  inversion H as [|? ? _ Hall]; subst. eapply Forall_impl; [|exact Hall]. intros x Hx. simpl in Hx. eapply trans; eauto.
Qed.

(* the reversed list (in the order the pairs were yielded) is strictly ascending *)
Lemma kdesc_rev_SS acc : kdesc acc -> SS (map fst (rev acc)).
Proof.
  induction acc as [|e acc IH]; intros H; [constructor|].
  inversion H as [|? ? Hs Hall]; subst. simpl. rewrite map_app. apply SS_app_iff. split; [auto|]. split.
  - simpl. constructor; constructor.
  - apply Forall_forall. intros x Hx. constructor; [|constructor].
    apply in_map_iff in Hx. destruct Hx as (y & <- & Hy). apply in_rev in Hy.
    rewrite Forall_forall in Hall. apply Hall. exact Hy.
Qed.

(* ---- an element of the middle part of a strictly sorted list ---- *)
Lemma SS_mid (A es B : list (K * V)) e :
  SS (map fst (A ++ es ++ B)) -> In e es ->
  Forall (fun a => ltb (fst a) (fst e) = true) A /\ Forall (fun b => ltb (fst e) (fst b) = true) B.
Proof.
  intros Hs Hin. rewrite !map_app in Hs. apply SS_app_iff in Hs. destruct Hs as (_ & Hs & HA).
  apply SS_app_iff in Hs. destruct Hs as (_ & _ & HB). split.
  - apply Forall_forall. intros a Ha. rewrite Forall_forall in HA.
    specialize (HA (fst a) (in_map fst _ _ Ha)). rewrite Forall_forall in HA. apply HA.
    apply in_or_app. left. apply in_map. exact Hin.
  - apply Forall_forall. intros b Hb. rewrite Forall_forall in HB.
    specialize (HB (fst e) (in_map fst _ _ Hin)). rewrite Forall_forall in HB. apply HB. apply in_map. exact Hb.
Qed.

(* ---- nothing lies strictly between two adjacent elements ---- *)
Lemma SS_adjacent (P Q : list (K * V)) a b x :
  SS (map fst (P ++ a :: b :: Q)) -> In x (P ++ a :: b :: Q) ->
  ltb (fst a) (fst x) = true -> ltb (fst x) (fst b) = false.
Proof.
  intros Hs Hin Hax. rewrite map_app in Hs. cbn [map] in Hs. apply SS_app_iff in Hs. destruct Hs as (_ & Hs & HP).
  apply SS_cons_iff in Hs. destruct Hs as (Hs & Ha). apply SS_cons_iff in Hs. destruct Hs as (_ & Hb).
  apply in_app_or in Hin. destruct Hin as [Hin|[<-|[<-|Hin]]].
  - exfalso. rewrite Forall_forall in HP. specialize (HP (fst x) (in_map fst _ _ Hin)).
    inversion HP as [|? ? Hxa _]; subst. rewrite (asym _ _ Hxa) in Hax. discriminate.
  - rewrite irrefl in Hax. discriminate.
  - apply irrefl.
  - apply asym. rewrite Forall_forall in Hb. apply Hb. apply in_map. exact Hin.
Qed.

Lemma SS_adjacent_lt (P Q : list (K * V)) a b :
  SS (map fst (P ++ a :: b :: Q)) -> ltb (fst a) (fst b) = true.
Proof.
  intros Hs. rewrite map_app in Hs. cbn [map] in Hs. apply SS_app_iff in Hs. destruct Hs as (_ & Hs & _).
  apply SS_cons_iff in Hs. destruct Hs as (_ & Ha). inversion Ha; subst. assumption.
Qed.

(* ---- nothing lies above the last element ---- *)
Lemma SS_last (P : list (K * V)) a x :
  SS (map fst (P ++ [a])) -> In x (P ++ [a]) -> ltb (fst a) (fst x) = false.
Proof.
  intros Hs Hin. rewrite map_app in Hs. apply SS_app_iff in Hs. destruct Hs as (_ & _ & HP).
  apply in_app_or in Hin. destruct Hin as [Hin|[<-|[]]]; [|apply irrefl].
  apply asym. rewrite Forall_forall in HP. specialize (HP (fst x) (in_map fst _ _ Hin)).
  inversion HP; subst. assumption.
Qed.

(* ---- after / before an element ---- *)
Lemma SS_after (P Q : list (K * V)) a x :
  SS (map fst (P ++ a :: Q)) -> In x Q -> ltb (fst a) (fst x) = true.
Proof.
  intros Hs Hin. rewrite map_app in Hs. cbn [map] in Hs. apply SS_app_iff in Hs. destruct Hs as (_ & Hs & _).
  apply SS_cons_iff in Hs. destruct Hs as (_ & Ha). rewrite Forall_forall in Ha. apply Ha. apply in_map. exact Hin.
Qed.

Lemma SS_before (P Q : list (K * V)) a x :
  SS (map fst (P ++ a :: Q)) -> In x P -> ltb (fst x) (fst a) = true.
Proof.
  intros Hs Hin. rewrite map_app in Hs. cbn [map] in Hs. apply SS_app_iff in Hs. destruct Hs as (_ & _ & HP).
  rewrite Forall_forall in HP. specialize (HP (fst x) (in_map fst _ _ Hin)). inversion HP; subst. assumption.
Qed.

(* two entries of a strictly sorted list with equivalent keys are the same entry *)
Lemma SS_inj (M : list (K * V)) a b :
  SS (map fst M) -> In a M -> In b M -> ltb (fst a) (fst b) = false -> ltb (fst b) (fst a) = false -> a = b.
Proof.
  intros Hs Ha Hb H1 H2. apply in_split in Ha. destruct Ha as (P & Q & ->).
  apply in_app_or in Hb. destruct Hb as [Hb|[Hb|Hb]].
  - rewrite (SS_before P Q a b Hs Hb) in H2. discriminate.
  - exact Hb.
  - rewrite (SS_after P Q a b Hs Hb) in H1. discriminate.
Qed.

(* ---- splitting a list at a position ---- *)
Lemma split_two_S {A} (l : list A) : forall j a b,
  nth_error l j = Some a -> nth_error l (S j) = Some b -> l = firstn j l ++ a :: b :: skipn (S (S j)) l.
Proof.
  induction l as [|x l IH]; intros [|j] a b Ha Hb; simpl in *; try discriminate.
  - inversion Ha; subst. destruct l as [|y l]; simpl in *; [discriminate|]. inversion Hb; subst. reflexivity.
  - f_equal. apply IH; assumption.
Qed.

Lemma split_two {A} (l : list A) i a b :
  0 < i -> nth_error l (i - 1) = Some a -> nth_error l i = Some b ->
  l = firstn (i - 1) l ++ a :: b :: skipn (S i) l.
Proof.
  intros Hi Ha Hb. destruct i as [|j]; [lia|]. replace (S j - 1) with j in * by lia.
  apply split_two_S; assumption.
Qed.

Lemma split_last {A} (l : list A) i a :
  0 < i -> nth_error l (i - 1) = Some a -> nth_error l i = None -> l = firstn (i - 1) l ++ [a] /\ i = length l.
Proof.
  intros Hi Ha Hn. destruct i as [|j]; [lia|]. replace (S j - 1) with j in * by lia.
  destruct (nth_error_split' l j a Ha) as [E _]. apply nth_error_None in Hn.
  assert (Hlt : j < length l) by (apply nth_error_Some; congruence).
  split; [|lia]. rewrite E at 1. f_equal. f_equal. apply skipn_all2. exact Hn.
Qed.

Lemma last_entry {A} (l : list A) a :
  0 < length l -> nth_error l (length l - 1) = Some a -> l = firstn (length l - 1) l ++ [a].
Proof.
  intros Hl Ha. apply (split_last l (length l) a Hl Ha). apply nth_error_None. lia.
Qed.

Lemma firstn_past {A} (l : list A) i : nth_error l i = None -> firstn i l = l.
Proof. intros H. apply nth_error_None in H. apply firstn_all2. exact H. Qed.

(* ---- the position NewScanner computes in the landed leaf ---- *)
Lemma scan_pos_split k (es : list (K * V)) i :
  asc ltb (map fst es) -> leaf_scan_pos ltb k es = Ok i ->
  Forall (fun e => ltb (fst e) k = true) (firstn i es) /\ Forall (fun e => ltb (fst e) k = false) (skipn i es).
Proof.
  intros Ha Hp. destruct es as [|e0 es'].
  - unfold leaf_scan_pos in Hp. simpl in Hp. inversion Hp; subst. simpl. split; constructor.
  - destruct (search_ge_split K ltb HS k (e0 :: es') Ha ltac:(discriminate))
      as (index & pre & k0 & v & post & Hs & Hsplit & Hlen & Hpre & Hk0).
    unfold leaf_scan_pos in Hp. rewrite Hs in Hp. cbn [bind] in Hp. rewrite Hsplit in *. subst index.
    rewrite nth_error_elt in Hp.
    assert (Hss : SS (map fst (pre ++ (k0, v) :: post))) by (apply (asc_SS K ltb HS); exact Ha).
    rewrite map_app in Hss. apply SS_app_iff in Hss. destruct Hss as (_ & Hss & _). cbn [map fst] in Hss.
    apply SS_cons_iff in Hss. destruct Hss as (_ & Hpost).
    destruct Hk0 as [Hk0|[-> Hk0]]; rewrite Hk0 in Hp; inversion Hp; subst i; clear Hp.
    + rewrite firstn_app, firstn_all, Nat.sub_diag. simpl. rewrite app_nil_r. split; [exact Hpre|].
      rewrite skipn_elt. constructor; [exact Hk0|]. apply Forall_forall. intros e He.
      rewrite Forall_forall in Hpost. specialize (Hpost (fst e) (in_map fst _ _ He)).
      destruct (ltb (fst e) k) eqn:E; [|reflexivity]. rewrite (trans _ _ _ Hpost E) in Hk0. discriminate.
    + rewrite skipn_S_elt. split; [|constructor].
      rewrite firstn_all2 by (rewrite app_length; simpl; lia).
      apply Forall_app. split; [exact Hpre|]. constructor; [exact Hk0|constructor].
Qed.

Lemma asc_nth_lt (es : list (K * V)) i j a b :
  asc ltb (map fst es) -> nth_error es i = Some a -> nth_error es j = Some b -> i < j -> ltb (fst a) (fst b) = true.
Proof.
  intros Ha Hi Hj Hlt. apply (sorted_nth_lt K ltb (map fst es) i j); [apply (asc_SS K ltb HS); exact Ha| | |exact Hlt].
  - rewrite nth_error_map', Hi. reflexivity.
  - rewrite nth_error_map', Hj. reflexivity.
Qed.

End L.

Arguments kdesc {K V} ltb l.

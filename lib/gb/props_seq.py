"""Checks decided by the sequential correspondence: C01, C02, C08 (sequential part), C11, and the sequential
halves used by C05/C09/C12."""
import hashlib, json, os, shutil, time
from . import common, gen, seqcheck, shadow, crosscheck

ORDERS_QUICK = [2, 4, 8, 16, 32, 64]
ORDERS_THOROUGH = [2, 4, 8, 16, 32, 64, 128, 256]


def load_corpus(pid):
    p = os.path.join(common.VERIF, "corpus", "seq.json")
    if not os.path.exists(p):
        return []
    out = []
    for c in json.load(open(p)):
        if pid in c.get("properties", []) or "*" in c.get("properties", []):
            out.append(c)
    return out


def expand_corpus(cs):
    """A corpus entry with type '*' runs on all six trees."""
    out = []
    for c in cs:
        types = shadow.TYPE_NAMES if c["type"] == "*" else [c["type"]]
        for t in types:
            keys = c.get("keys", {})
            k = keys.get(t, keys.get("*", [])) if isinstance(keys, dict) else keys
            if t == "comparable":
                k = []
            out.append(dict(id="%s-%s" % (c["id"], t), type=t, order=c["order"], keys=list(k), ops=list(c["ops"]), corpus=c["id"]))
    return out


def case_stats(case, go):
    splits = merges = 0
    prev = 1
    internal = False
    for i, l in enumerate(go):
        n = l["snap"].count("L[")
        if n > prev:
            splits += 1
        elif n < prev:
            merges += 1
        prev = n
        internal = internal or l["snap"].startswith("N")
    return dict(splits=splits, merges=merges, internal=internal)


def extreme_cases(seed, n, orders):
    """Cases whose key tables sit on the extremes of each type (C11)."""
    import random
    rng = random.Random(seed * 7919 + 11)
    cases = []
    for i in range(n):
        typ = shadow.TYPE_NAMES[i % 6]
        order = orders[(i // 6) % len(orders)]
        U = rng.randint(order + 2, order * 6 + 6)
        if typ == "string":
            keys = gen.key_table(rng, typ, U)
        elif typ == "comparable":
            keys = []
        else:
            lo, hi = gen.INT_RANGES[typ]
            half = U // 2
            ks = list(range(lo, lo + half)) + list(range(hi - (U - half) + 1, hi + 1))
            if lo < 0 and U > 8:
                ks = list(range(lo, lo + U // 3)) + list(range(-(U // 6), U // 6 + 1)) + list(range(hi - U // 3 + 1, hi + 1))
            ks = sorted(set(ks))
            U = len(ks)
            keys = [str(k) for k in ks]
        ops = gen.gen_ops(rng, typ, order, U, rng.randint(40, 200), allow_delete=(order != 2))
        cases.append(dict(id="x%d" % i, type=typ, order=order, keys=keys, ops=ops))
    return cases


LAST = {}


def run_seq_property(pid, tier, seed, extra_cases=None, level="proof", ncases=None, note=None, post=None, write=True, proj=None):
    t0 = time.time()
    names, done, problems = common.obligations(pid)
    chk = common.coqchk(run_if_missing=(tier == "thorough"))
    if chk.get("status") == "failed":
        problems = problems + ["coqchk rejects the compiled development: " + chk.get("tail", "")[-300:]]
    tmp = vh = None
    viol_count = 0
    coverage = {}
    try:
        try:
            tmp, vh = shadow.build()
        except shadow.ShadowError as e:
            common.violation(pid, dict(kind="correspondence-broken", what=str(e),
                                       correspondence="shadow build of /repo with verification hooks"), found_input=False)
            common.write_evidence(pid, tier, seed, "other", dict(explanation="harness could not be built against the current tree: %s" % e), time.time() - t0, 1)
            return 1
        orders = ORDERS_QUICK if tier == "quick" else ORDERS_THOROUGH
        n = ncases if ncases is not None else (216 if tier == "quick" else 216 * 20)
        corpus = expand_corpus(load_corpus(pid))
        cases = list(corpus)
        if pid == "C11":
            cases += extreme_cases(seed, n, orders)
        else:
            cases += gen.gen_seq_cases(seed, n, shadow.TYPE_NAMES, orders)
            cases += gen.gen_growshrink_cases(seed, 24 if tier == "quick" else 240, shadow.TYPE_NAMES)
        if extra_cases:
            cases += extra_cases
        byid = {c["id"]: c for c in cases}
        go, mo = {}, {}
        SH = 400
        for s in range(0, len(cases), SH):
            g1, m1 = seqcheck.run_cases(vh, cases[s:s + SH], tmp, tag="seq%d" % s)
            go.update(g1)
            mo.update(m1)
        # 1. proof obligations
        proof_broken = bool(problems)
        # 2. correspondence on this property's projection
        mismatches = []
        for cid, c in byid.items():
            mm = seqcheck.first_mismatch(pid, c, go.get(cid, []), mo.get(cid, []))
            if mm:
                mismatches.append((cid, mm))
        # monitors always run (cheap): the property's own statement on the Go side
        mon_viol, known_hits = [], []
        for cid, c in byid.items():
            v, k = seqcheck.monitor_case(pid, c, go.get(cid, []))
            if v:
                mon_viol.append((cid, v))
            known_hits += [(cid, x) for x in k]
        for cid, x in known_hits:
            common.log("KNOWN-FINDING: property=%s %s (case %s op %d %s)" % (pid, x["what"], cid, x["index"], x["op"]))
        if post:
            extra_v = post(byid, go, mo)
            mon_viol += extra_v

        def rerun_bad(kind):
            def f(c2):
                try:
                    g2, m2 = seqcheck.run_cases(vh, [c2], tmp, tag="shrink")
                except Exception:
                    return False
                gl, ml = g2.get(c2["id"], []), m2.get(c2["id"], [])
                if kind == "monitor":
                    v, _ = seqcheck.monitor_case(pid, c2, gl)
                    return bool(v)
                return seqcheck.first_mismatch(pid, c2, gl, ml) is not None
            return f

        if mon_viol:
            # concrete failing input on the implementation
            cid, v = mon_viol[0]
            c = byid[cid]
            small = seqcheck.shrink(vh, tmp, c, rerun_bad("monitor")) if not c.get("noshrink") else c
            g2, _ = seqcheck.run_cases(vh, [small], tmp, tag="final")
            v2, _ = seqcheck.monitor_case(pid, small, g2.get(small["id"], []))
            common.violation(pid, dict(kind="seq", case=small, original_case_id=cid, failure=(v2 or v)[0],
                                       go_observations=[l["raw"] for l in g2.get(small["id"], [])][-6:],
                                       cases_violating=len(mon_viol)))
            viol_count = len(mon_viol)
        elif mismatches or proof_broken:
            what = {}
            if mismatches:
                cid, mm = mismatches[0]
                small = seqcheck.shrink(vh, tmp, byid[cid], rerun_bad("corr"))
                g2, m2 = seqcheck.run_cases(vh, [small], tmp, tag="final")
                what = dict(correspondence="sequential model/implementation correspondence, projection of %s" % pid,
                            case=small, mismatch=seqcheck.first_mismatch(pid, small, g2.get(small["id"], []), m2.get(small["id"], [])),
                            cases_mismatching=len(mismatches))
            if proof_broken:
                what["proof_obligations_broken"] = problems
            common.violation(pid, dict(kind="seq", **what), found_input=False)
            viol_count = max(1, len(mismatches))
        # in-Coq cross-check of a sample (kernel evaluation vs extraction vs implementation)
        xc = None
        if pid in ("C01", "C02", "C11") and not viol_count:
            small = [c for c in cases if len(c["ops"]) <= 160 and c["order"] <= 16][:40 if tier == "quick" else 400]
            xn, xops, xmism, xerr = crosscheck.run(small, go, tmp, limit_ops=4000 if tier == "quick" else 40000, drop_kinds=("C" if pid == "C01" else ""))
            xc = dict(cases=xn, ops=xops, mismatches=xmism, error=xerr)
            if xerr or xmism:
                common.violation(pid, dict(kind="seq", correspondence="in-Coq (vm_compute) evaluation of the model vs the implementation's observations",
                                           mismatch=xmism, error=xerr), found_input=False)
                viol_count = 1
        sh = None
        if pid == "C08" and not viol_count:
            shn, shm = seqcheck.search_helper_check(vh, tmp, seed, 400 if tier == "quick" else 4000)
            sh = dict(queries=shn, mismatches=len(shm))
            if shm:
                common.violation(pid, dict(kind="search-helper", correspondence="binary search helpers vs search_ge/search_le of the model", mismatch=shm[:3]), found_input=False)
                viol_count = len(shm)
        gocov = None
        if pid == "C01":
            cp = os.path.join(tmp, "cov.cases")
            gen.write_cases(cases, cp)
            gocov = shadow.coverage_of(tmp, vh, "seq", cp)
        # evidence
        nops = sum(len(c["ops"]) for c in cases)
        seen, nontrivial = set(), 0
        dist_ops = {}
        by_type, by_order = {}, {}
        tot_splits = tot_merges = 0
        for c in cases:
            h = hashlib.sha256(("%s|%d|%s|%s" % (c["type"], c["order"], " ".join(c["keys"]), ";".join(c["ops"]))).encode()).hexdigest()
            st = case_stats(c, go.get(c["id"], []))
            tot_splits += st["splits"]
            tot_merges += st["merges"]
            by_type[c["type"]] = by_type.get(c["type"], 0) + 1
            by_order[str(c["order"])] = by_order.get(str(c["order"]), 0) + 1
            for o in c["ops"]:
                dist_ops[o[0]] = dist_ops.get(o[0], 0) + 1
            if h not in seen:
                seen.add(h)
                if st["splits"] >= 1 and (c["order"] == 2 or st["merges"] >= 1):
                    nontrivial += 1
        sample = cases[len(corpus)] if len(cases) > len(corpus) else cases[0]
        coverage = dict(
            obligations=len(names), discharged=len(done), theorems=names,
            checker_cmd="cd /verif/coq && make -j16 && for f in Properties Properties2 Properties3; do coqc -Q . GB $f.v; done  (Print Assumptions under every theorem; coqchk -silent -o in the thorough tier)",
            trusted_base=common.TRUSTED_BASE, coqchk={k: v for k, v in chk.items() if k != "tail"},
            evaluations=nops, cases=len(cases), distinct_nontrivial=nontrivial,
            rule="seeded structured (70%) / uniform (30%) histories over per-case key tables, each run on the Go tree and the extracted Coq model; distinct = different (type, order, key table, ops); non-trivial = at least one node split and (order 2 or) at least one merge observed in the Go snapshots",
            traces_validated_against_impl=len(cases) - len(mismatches),
            correspondence_mismatches=len(mismatches), monitor_violations=len(mon_viol), known_finding_hits=len(known_hits),
            distribution=dict(ops_by_kind=dist_ops, cases_by_type=by_type, cases_by_order=by_order, node_splits_seen=tot_splits, node_merges_seen=tot_merges),
            samples=[dict(type=sample["type"], order=sample["order"], keys=sample["keys"][:8], ops=sample["ops"][:25])],
            repo_fingerprint=common.repo_fingerprint(), in_coq_crosscheck=xc, go_statement_coverage=gocov, search_helper_queries=sh)
        if note:
            coverage["explanation"] = note
        lvl = level if (len(done) == len(names) and names) else "other"
        if lvl == "other" and "explanation" not in coverage:
            coverage["explanation"] = "not every listed theorem is discharged; see obligations/discharged"
        LAST.clear()
        LAST.update(coverage=coverage, level=lvl, violations=viol_count)
        if write:
            common.write_evidence(pid, tier, seed, lvl, coverage, time.time() - t0, viol_count)
        common.log("%s %s: %d cases, %d ops, corr mismatches %d, monitor violations %d, theorems %d/%d, %.1fs"
                   % (pid, tier, len(cases), nops, len(mismatches), len(mon_viol), len(done), len(names), time.time() - t0))
        return 1 if viol_count else 0
    finally:
        if tmp:
            shutil.rmtree(tmp, ignore_errors=True)

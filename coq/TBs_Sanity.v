(* TBs_Sanity.v — the definition [linearizable_q] of TBs_Def.v has teeth (keys and values: nat, order Nat.ltb):
   it ACCEPTS a history in which a scan runs concurrently with inserts (the scan sees the insert that was linearized
   before its first step and misses the one linearized between its steps), and it REJECTS the history of the task
   statement, in which thread 4 saw 23 present and 25 absent and afterwards thread 2's first pair from 22 is 25. *)
From Coq Require Import List Bool PeanoNat Lia Sorted.
From GB Require Import Model Inv Spec Conc LinDef ListLemmas SearchProof SpecLaws TB_Trace TBs_Def TBs_Spec.
Import ListNotations.

(* ================================================================================================ *)
(* generic helpers                                                                                   *)
(* ================================================================================================ *)
Section Helpers.
Variables (K V : Type) (ltb : K -> K -> bool).
Notation hev := (hev K V).
Notation item := (item K V).

(* ---- the next event of a thread, computed ---- *)
Fixpoint next_pos (t : tid) (l : list hev) (j : nat) : option nat :=
  match l with
  | [] => None
  | e :: l' => if hev_tid e =? t then Some j else next_pos t l' (S j)
  end.
Definition next_of (h : list hev) (t : tid) (a : nat) : option nat := next_pos t (skipn (S a) h) (S a).

Lemma next_pos_spec t : forall l j n, j <= n ->
  (exists e, nth_error l (n - j) = Some e /\ hev_tid e = t) ->
  (forall i e, j <= i < n -> nth_error l (i - j) = Some e -> hev_tid e <> t) -> next_pos t l j = Some n.
Proof.
  induction l as [|e0 l IH]; intros j n Hjn (e & He & Ht) Hq.
  - destruct (n - j); discriminate He.
  - simpl. destruct (Nat.eq_dec n j) as [->|Hne].
    + rewrite Nat.sub_diag in He. simpl in He. inversion He; subst e0. rewrite Ht, Nat.eqb_refl. reflexivity.
    + assert (H0 : hev_tid e0 <> t) by (apply (Hq j e0); [lia|rewrite Nat.sub_diag; reflexivity]).
      apply Nat.eqb_neq in H0. rewrite H0. apply IH; [lia| |].
      * exists e. replace (n - j) with (S (n - S j)) in He by lia. split; [exact He|exact Ht].
      * intros i e' Hi Hn. apply (Hq i e'); [lia|]. replace (i - j) with (S (i - S j)) by lia. exact Hn.
Qed.

Lemma next_of_spec (h : list hev) t a n e :
  next_ev h t a n -> nth_error h n = Some e -> hev_tid e = t -> next_of h t a = Some n.
Proof.
  intros [Hlt Hq] Hn Ht. unfold next_of. apply next_pos_spec; [lia| |].
  - exists e. rewrite nth_error_skipn. replace (S a + (n - S a)) with n by lia. auto.
  - intros i e' Hi Hi'. rewrite nth_error_skipn in Hi'. replace (S a + (i - S a)) with i in Hi' by lia.
    apply (Hq i e'); [lia|exact Hi'].
Qed.

(* a completed operation ends at the next event of the thread of its start event *)
Lemma completed_next_of (h : list hev) a n c r : completed_q h a n c r ->
  exists ea, nth_error h a = Some ea /\ next_of h (hev_tid ea) a = Some n.
Proof.
  intros [t o po x Ha Hop Hn Hnext|t q r0 Hst Hrs Hnext].
  - exists (HInv t o). split; [exact Ha|]. exact (next_of_spec h t a n _ Hnext Hn eq_refl).
  - destruct Hst as [k cnt Ha|e0 Ha]; destruct Hrs as [e Hn|Hn]; eexists; (split; [exact Ha|]);
      exact (next_of_spec h t a n _ Hnext Hn eq_refl).
Qed.

(* ... and conversely, a checker for next_ev *)
Definition next_ev_b (h : list hev) (t : tid) (a n : nat) : bool :=
  (a <? n) && forallb (fun e => negb (hev_tid e =? t)) (firstn (n - S a) (skipn (S a) h)).

Lemma nth_firstn_lt {A} : forall (l : list A) n j, j < n -> nth_error (firstn n l) j = nth_error l j.
Proof.
  induction l as [|x l IH]; intros n j Hj; [rewrite firstn_nil; reflexivity|].
  destruct n as [|n]; [lia|]. destruct j as [|j]; [reflexivity|]. simpl. apply IH. lia.
Qed.

Lemma next_ev_b_ok (h : list hev) t a n : next_ev_b h t a n = true -> next_ev h t a n.
Proof.
  unfold next_ev_b. rewrite andb_true_iff, Nat.ltb_lt, forallb_forall. intros [Hlt Hall]. split; [exact Hlt|].
  intros j e Hj Hn E.
  assert (Hin : In e (firstn (n - S a) (skipn (S a) h))).
  { apply (nth_error_In _ (j - S a)). rewrite nth_firstn_lt by lia. rewrite nth_error_skipn.
    replace (S a + (j - S a)) with j by lia. exact Hn. }
  specialize (Hall e Hin). rewrite E, Nat.eqb_refl in Hall. discriminate Hall.
Qed.

(* ---- runs of the extended specification ---- *)
Lemma run_q_cons_fst (m : list (K * V)) (a : act K V) l : fst (run_q ltb m (a :: l)) = fst (run_q ltb (fst (step_q ltb m a)) l).
Proof. simpl. destruct (step_q ltb m a) as [m' x]. cbn [fst]. destruct (run_q ltb m' l). reflexivity. Qed.

Lemma run_q_app (m : list (K * V)) (l1 l2 : list (act K V)) :
  run_q ltb m (l1 ++ l2) =
  (fst (run_q ltb (fst (run_q ltb m l1)) l2), snd (run_q ltb m l1) ++ snd (run_q ltb (fst (run_q ltb m l1)) l2)).
Proof.
  revert m. induction l1 as [|a l1 IH]; intros m; simpl.
  - destruct (run_q ltb m l2); reflexivity.
  - destruct (step_q ltb m a) as [m' x]. rewrite IH. destruct (run_q ltb m' l1) as [m1 xs1]. reflexivity.
Qed.

Lemma run_q_length (l : list (act K V)) : forall m : list (K * V), length (snd (run_q ltb m l)) = length l.
Proof.
  induction l as [|a l IH]; intros m; simpl; [reflexivity|].
  destruct (step_q ltb m a) as [m' x]. specialize (IH m'). destruct (run_q ltb m' l). simpl in *. rewrite IH. reflexivity.
Qed.

Lemma app_eq_len {A} : forall (l1 l1' l2 l2' : list A),
  l1 ++ l2 = l1' ++ l2' -> length l1 = length l1' -> l1 = l1' /\ l2 = l2'.
Proof.
  induction l1 as [|x l1 IH]; intros [|y l1'] l2 l2' H Hl; simpl in *; try discriminate Hl; [auto|].
  inversion H; subst. destruct (IH l1' l2 l2' H2 ltac:(lia)) as [-> ->]. auto.
Qed.

(* the item after the prefix P of a legal witness is answered on the map reached by P *)
Lemma legal_split (P : list item) it R : seq_legal_q ltb (P ++ it :: R) ->
  snd (step_q ltb (fst (run_q ltb [] (map i_act P))) (i_act it)) = i_ans it.
Proof.
  unfold seq_legal_q. rewrite !map_app, run_q_app. cbn [snd map]. intros H.
  apply app_eq_len in H; [|rewrite run_q_length, !map_length; reflexivity]. destruct H as [_ H].
  simpl in H. destruct (step_q ltb (fst (run_q ltb [] (map i_act P))) (i_act it)) as [m2 x].
  destruct (run_q ltb m2 (map i_act R)). simpl in H. inversion H. reflexivity.
Qed.

(* two prefixes of the same list are comparable *)
Lemma prefix_cmp {A} : forall (P P' X Y : list A), P ++ X = P' ++ Y -> (exists Z, P' = P ++ Z) \/ (exists Z, P = P' ++ Z).
Proof.
  induction P as [|x P IH]; intros P' X Y H; [left; exists P'; reflexivity|].
  destruct P' as [|y P']; [right; exists (x :: P); reflexivity|]. simpl in H. inversion H; subst y.
  destruct (IH P' X Y H2) as [[Z ->]|[Z ->]]; [left|right]; exists Z; reflexivity.
Qed.

Hypothesis HS : SWO ltb.

Lemma run_q_asc (l : list (act K V)) : forall m : list (K * V), asc ltb (map fst m) -> asc ltb (map fst (fst (run_q ltb m l))).
Proof.
  induction l as [|a l IH]; intros m Ha; [exact Ha|]. rewrite run_q_cons_fst. apply IH.
  destruct a as [po|q]; simpl; [apply (step_spec_asc K V ltb HS); exact Ha|exact Ha].
Qed.

Lemma run_q_SS (l : list (act K V)) : StronglySorted (fun a b => ltb a b = true) (map fst (fst (run_q ltb [] l))).
Proof. apply (asc_sorted K ltb HS). apply run_q_asc. exact I. Qed.

End Helpers.

Arguments next_of {K V} h t a.
Arguments next_ev_b {K V} h t a n.

(* ================================================================================================ *)
(* nat keys                                                                                          *)
(* ================================================================================================ *)
Lemma nat_SWO : SWO Nat.ltb.
Proof.
  split; intros.
  - apply Nat.ltb_irrefl.
  - apply Nat.ltb_lt in H, H0. apply Nat.ltb_lt. lia.
  - apply Nat.ltb_ge in H, H0. apply Nat.ltb_ge. lia.
Qed.

Lemma put_in_nat k f (m : list (nat * nat)) x : In x (map fst (put Nat.ltb k f m)) <-> x = k \/ In x (map fst m).
Proof.
  induction m as [|[k' v] r IH]; simpl; [intuition|].
  destruct (k <? k') eqn:E1; [simpl; intuition|]. destruct (k' <? k) eqn:E2; simpl.
  - rewrite IH. intuition.
  - apply Nat.ltb_ge in E1, E2. assert (k = k') by lia. subst k'. intuition.
Qed.

(* runs that consist of inserts and queries only: the keys present are exactly those inserted *)
Definition insq (c : act nat nat) : Prop := match c with AOp (OInsert _ _) => True | AQry _ => True | _ => False end.

Lemma ins_run_keys l : forall m, Forall insq l -> forall x,
  In x (map fst (fst (run_q Nat.ltb m l))) <-> In x (map fst m) \/ exists v, In (AOp (OInsert x v)) l.
Proof.
  induction l as [|a l IH]; intros m Hall x.
  - simpl. split; [auto|]. intros [H|[v []]]. exact H.
  - inversion Hall as [|? ? Ha Hl]; subst. rewrite run_q_cons_fst. rewrite (IH _ Hl x).
    destruct a as [[k v|k f|k|k]|q]; simpl in Ha; try contradiction; simpl.
    + rewrite put_in_nat. split.
      * intros [[->|H]|[v0 H]]; [right; exists v; left; reflexivity|left; exact H|right; exists v0; right; exact H].
      * intros [H|[v0 [H|H]]]; [left; right; exact H| |right; exists v0; exact H].
        inversion H; subst. left. left. reflexivity.
    + split.
      * intros [H|[v0 H]]; [left; exact H|right; exists v0; right; exact H].
      * intros [H|[v0 [H|H]]]; [left; exact H|discriminate H|right; exists v0; exact H].
Qed.

(* ================================================================================================ *)
(* ACCEPTED: a scan concurrent with two inserts                                                      *)
(* ================================================================================================ *)
(* thread 2 scans from 3 (at most 2 steps); thread 1 inserts 5 (completed before the first step returns) and then 4
   (concurrent with both steps).  The scan returns (5,7) and then "end": it sees 5 and misses 4. *)
Definition h_good : list (hev nat nat) :=
  [HInv 2 (CScan 3 2); HInv 1 (CInsert 5 7); HRes 1 RUnit; HInv 1 (CInsert 4 9); HPair 2 (5, 7); HRes 1 RUnit;
   HEnd 2; HRes 2 (RPairs [(5, 7)])].

(* Insert 5; first step (QFirst 3 -> (5,7)); second step (QNext 5 -> end); Insert 4.  Not in the order of the start
   positions: the first step starts (position 0) before Insert 5 does (position 1) *)
Definition S_good : list (item nat nat) :=
  [(1, AOp (OInsert 5 7), ROp ObsUnit); (0, AQry (QFirst 3), RQry (Some (5, 7)));
   (4, AQry (QNext 5), RQry None); (3, AOp (OInsert 4 9), ROp ObsUnit)].

Theorem concurrent_scan_linearizable : linearizable_q Nat.ltb h_good.
Proof.
  exists S_good. split; [|split; [|split]].
  - (* (a) *)
    split.
    + simpl. repeat constructor; simpl; intuition discriminate.
    + intros e [<-|[<-|[<-|[<-|[]]]]]; cbn [i_start i_act fst snd].
      * eapply St_op; reflexivity.
      * eapply St_step. eapply SS_first. reflexivity.
      * eapply St_step. apply (SS_next nat nat h_good 4 2 (5, 7)). reflexivity.
      * eapply St_op; reflexivity.
  - (* (b) *)
    intros a n c r Hc. destruct (completed_next_of _ _ _ _ _ _ _ Hc) as (ea & Hea & Hno).
    destruct a as [|[|[|[|[|[|[|[|a]]]]]]]]; simpl in Hea; try (destruct a; discriminate Hea);
      inversion Hea; subst ea; vm_compute in Hno; try discriminate Hno; inversion Hno; subst n;
      (destruct Hc as [t o po x Ha Hop Hn _|t q r0 Hst Hrs _];
       [ simpl in Ha, Hn; try discriminate Ha; inversion Ha; subst; simpl in Hop; try discriminate Hop;
         inversion Hop; subst; try discriminate Hn; inversion Hn as [Hx]; destruct x; try discriminate Hx;
         simpl; auto 10
       | destruct Hst as [k cnt Ha|e0 Ha]; simpl in Ha; try discriminate Ha; inversion Ha; subst;
         destruct Hrs as [e Hn|Hn]; simpl in Hn; try discriminate Hn; inversion Hn; subst; simpl; auto 10 ]).
  - (* (c) *)
    reflexivity.
  - (* (d) *)
    intros S1 e2 S2 e1 ES Hin (n1 & c & r & Hc & Hle).
    destruct (completed_next_of _ _ _ _ _ _ _ Hc) as (ea & Hea & Hno).
    destruct S1 as [|y0 [|y1 [|y2 [|y3 S1]]]]; simpl in ES; inversion ES; subst; simpl in Hin;
      try (destruct S1; discriminate);
      repeat (destruct Hin as [<-|Hin]; [cbn in Hea, Hle; inversion Hea; subst ea; vm_compute in Hno;
                                          inversion Hno; subst n1; lia|]); try contradiction.
Qed.

(* ================================================================================================ *)
(* REJECTED: the history of the task statement                                                       *)
(* ================================================================================================ *)
(* the map initially contains 28 and 30 (thread 5 inserts them first); v = 1, w = 2 *)
Definition h_bad : list (hev nat nat) :=
  [HInv 5 (CInsert 28 0); HRes 5 RUnit; HInv 5 (CInsert 30 0); HRes 5 RUnit;
   HInv 1 (CInsert 25 1);                      (*  4 *)
   HInv 2 (CScan 22 1);                        (*  5 *)
   HInv 4 (CInsert 23 2); HRes 4 RUnit;        (*  6  7 *)
   HInv 4 (CScan 23 2);                        (*  8 *)
   HPair 4 (23, 2);                            (*  9 *)
   HPair 4 (28, 0);                            (* 10 *)
   HRes 4 (RPairs [(23, 2); (28, 0)]);         (* 11 *)
   HRes 1 RUnit;                               (* 12 *)
   HPair 2 (25, 1);                            (* 13 *)
   HRes 2 (RPairs [(25, 1)])].                 (* 14 *)

Definition I23 : item nat nat := (6, AOp (OInsert 23 2), ROp ObsUnit).
Definition N4 : item nat nat := (9, AQry (QNext 23), RQry (Some (28, 0))).
Definition F2 : item nat nat := (5, AQry (QFirst 22), RQry (Some (25, 1))).

Lemma c_I23 : completed_q h_bad 6 7 (AOp (OInsert 23 2)) (ROp ObsUnit).
Proof. apply (CQ_op nat nat h_bad 6 7 4 (CInsert 23 2)); try reflexivity. apply next_ev_b_ok. reflexivity. Qed.
Lemma c_N4 : completed_q h_bad 9 10 (AQry (QNext 23)) (RQry (Some (28, 0))).
Proof.
  apply (CQ_step nat nat h_bad 9 10 4).
  - apply (SS_next nat nat h_bad 9 4 (23, 2)). reflexivity.
  - apply SR_pair. reflexivity.
  - apply next_ev_b_ok. reflexivity.
Qed.
Lemma c_F2 : completed_q h_bad 5 13 (AQry (QFirst 22)) (RQry (Some (25, 1))).
Proof.
  apply (CQ_step nat nat h_bad 5 13 2).
  - apply (SS_first nat nat h_bad 5 2 22 1). reflexivity.
  - apply SR_pair. reflexivity.
  - apply next_ev_b_ok. reflexivity.
Qed.

Theorem task_history_not_linearizable : ~ linearizable_q Nat.ltb h_bad.
Proof.
  intros (S & [Hnd Hst] & Hc & Hleg & Hrt).
  pose proof (Hc _ _ _ _ c_I23) as In_I23. fold I23 in In_I23.
  pose proof (Hc _ _ _ _ c_N4) as In_N4. fold N4 in In_N4.
  pose proof (Hc _ _ _ _ c_F2) as In_F2. fold F2 in In_F2.
  (* every action of S is an insert or a query *)
  assert (Hins : Forall insq (map i_act S)).
  { apply Forall_forall. intros c Hcin. apply in_map_iff in Hcin. destruct Hcin as (it & <- & Hit).
    pose proof (Hst it Hit) as Hs. remember (i_start it) as a eqn:Ea. remember (i_act it) as c0 eqn:Ec. clear Ea Ec.
    destruct Hs as [t o po Ha Hop|t q _]; [|exact I].
    do 15 (destruct a as [|a]; [simpl in Ha; try discriminate Ha; inversion Ha; subst; simpl in Hop;
                                try discriminate Hop; inversion Hop; exact I|]).
    destruct a; discriminate Ha. }
  (* thread 4's second step: S = P ++ N4 :: R *)
  destruct (in_split _ _ In_N4) as (P & R & ES).
  pose proof Hleg as HlegN. rewrite ES in HlegN. apply legal_split in HlegN.
  set (mP := fst (run_q Nat.ltb [] (map i_act P))) in *. simpl in HlegN. inversion HlegN as [HqN]. clear HlegN.
  assert (HinsP : Forall insq (map i_act P)).
  { rewrite ES, map_app in Hins. apply Forall_app in Hins. exact (proj1 Hins). }
  (* Insert 23 precedes it in real time, hence in S *)
  assert (I23_P : In I23 P).
  { rewrite ES in In_I23. apply in_app_or in In_I23. destruct In_I23 as [H|[H|H]]; [exact H|discriminate H|].
    exfalso. apply (Hrt P N4 R I23 ES H). exists 7, (AOp (OInsert 23 2)), (ROp ObsUnit). split; [exact c_I23|unfold N4, i_start; simpl; lia]. }
  (* 25 is absent at that point: the successor of 23 is 28 *)
  assert (no25 : ~ In 25 (map fst mP)).
  { intros H. apply in_map_iff in H. destruct H as ([k' v'] & Ek & Hin'). simpl in Ek. subst k'.
    destruct (first_gt_some_inv nat nat Nat.ltb nat_SWO 23 mP _ (run_q_SS nat nat Nat.ltb nat_SWO _) HqN) as (_ & _ & Hleast).
    specialize (Hleast (25, v') Hin' eq_refl). discriminate Hleast. }
  (* thread 2's first step: S = P' ++ F2 :: R' *)
  destruct (in_split _ _ In_F2) as (P' & R' & ES').
  pose proof Hleg as HlegF. rewrite ES' in HlegF. apply legal_split in HlegF.
  set (mP' := fst (run_q Nat.ltb [] (map i_act P'))) in *. simpl in HlegF. inversion HlegF as [HqF]. clear HlegF.
  assert (HinsP' : Forall insq (map i_act P')).
  { rewrite ES', map_app in Hins. apply Forall_app in Hins. exact (proj1 Hins). }
  destruct (first_ge_some_inv nat nat Nat.ltb nat_SWO 22 mP' _ (run_q_SS nat nat Nat.ltb nat_SWO _) HqF)
    as (Hin25 & _ & Hleast).
  (* 25 is present there, so some Insert 25 is in P' *)
  assert (H25 : exists v, In (AOp (OInsert 25 v)) (map i_act P')).
  { apply (in_map fst) in Hin25. simpl in Hin25. apply (ins_run_keys _ [] HinsP' 25) in Hin25.
    destruct Hin25 as [[]|H]. exact H. }
  destruct H25 as (v25 & H25).
  rewrite ES in ES'. destruct (prefix_cmp _ _ _ _ ES') as [[Z EP]|[Z EP]].
  - (* P is a prefix of P': Insert 23 is in P', so 23 is present, and QFirst 22 cannot answer 25 *)
    assert (H23 : In 23 (map fst mP')).
    { apply (ins_run_keys _ [] HinsP' 23). right. exists 2. rewrite EP, map_app. apply in_or_app. left.
      apply (in_map i_act) in I23_P. exact I23_P. }
    apply in_map_iff in H23. destruct H23 as ([k' v'] & Ek & Hin'). simpl in Ek. subst k'.
    specialize (Hleast (23, v') Hin' eq_refl). discriminate Hleast.
  - (* P' is a prefix of P: Insert 25 is in P, so 25 is present at thread 4's second step *)
    apply no25. apply (ins_run_keys _ [] HinsP 25). right. exists v25. rewrite EP, map_app. apply in_or_app. left. exact H25.
Qed.

Print Assumptions concurrent_scan_linearizable.
Print Assumptions task_history_not_linearizable.

"""C07 (race detector on the unmodified tree + lock discipline) and C12 (constructors)."""
import json, os, re, shutil, subprocess, time
from . import common, shadow, props_seq, seqcheck, gen


def run_c07(tier, seed):
    pid = "C07"
    t0 = time.time()
    names, done, problems = common.obligations(pid)
    chk = common.coqchk(run_if_missing=(tier == "thorough"))
    if chk.get("status") == "failed":
        problems = problems + ["coqchk rejects the compiled development: " + chk.get("tail", "")[-300:]]
    tmp = None
    try:
        try:
            tmp, vr = shadow.build(shim=False, harness="vrace", race=True)
        except shadow.ShadowError as e:
            common.violation(pid, dict(kind="correspondence-broken", what=str(e)), found_input=False)
            common.write_evidence(pid, tier, seed, "other", dict(explanation="race harness could not be built: %s" % e), time.time() - t0, 1)
            return 1
        dur = "1500ms" if tier == "quick" else "10s"
        configs = []
        for typ in shadow.TYPE_NAMES:
            configs.append((typ, 4, 8, 24))
            configs.append((typ, 64 if tier == "quick" else 256, 12, 400))
        if tier != "quick":
            configs += [(typ, 8, 16, 64) for typ in shadow.TYPE_NAMES] + [(typ, 2, 6, 16) for typ in shadow.TYPE_NAMES]
        runs, races, other_fail = [], [], []
        procs = []
        for i, (typ, order, workers, keys) in enumerate(configs):
            args = [vr, "-type", typ, "-order", str(order), "-workers", str(workers), "-keys", str(keys), "-dur", dur, "-seed", str(seed + i), "-counter"] + (["-nodelete"] if order == 2 else [])
            env = dict(os.environ, GORACE="halt_on_error=1 exitcode=66")
            procs.append((args, subprocess.Popen(args, stdout=subprocess.PIPE, stderr=subprocess.PIPE, text=True, env=env)))
        total_ops = 0
        for args, p in procs:
            try:
                out, err = p.communicate(timeout=180)
            except subprocess.TimeoutExpired:
                p.kill()
                out, err = p.communicate()
                other_fail.append(dict(args=args[1:], what="timeout (possible deadlock)"))
                continue
            m = re.search(r"ops=(\d+)", out)
            if m:
                total_ops += int(m.group(1))
            rec = dict(args=args[1:], rc=p.returncode, out=out.strip()[-300:])
            runs.append(rec)
            if "DATA RACE" in err or p.returncode == 66:
                races.append(dict(args=args[1:], report=err[:3000]))
            elif p.returncode != 0:
                other_fail.append(dict(args=args[1:], rc=p.returncode, out=out[-500:], err=err[-1500:]))
        viol = 0
        if races:
            common.violation(pid, dict(kind="race", program="harness/vrace (go build -race, unmodified copy of /repo)", run=races[0], races=len(races)))
            viol = len(races)
        elif other_fail:
            # a crash / lost counter update / watchdog under real concurrency: a concrete failing execution, though not a race report
            common.violation(pid, dict(kind="race-stress-failure", run=other_fail[0]))
            viol = len(other_fail)
        elif problems:
            common.violation(pid, dict(kind="proof", proof_obligations_broken=problems), found_input=False)
            viol = 1
        coverage = dict(
            explanation="C07 can only be partial with this technique: Coq carries the lock-discipline theorems of the concurrent model (listed under theorems); that the Go statements sit inside those lock windows, and the Go memory model itself, are not modelled. The deciding dynamic part is Go's race detector (happens-before based) on stress programs over the unmodified tree (real sync.Mutex), all six types, small and large orders, plus the Update counter.",
            obligations=len(names), discharged=len(done), theorems=names, trusted_base=common.TRUSTED_BASE, coqchk={k: v for k, v in chk.items() if k != "tail"},
            evaluations=total_ops, distinct_nontrivial=len(runs), programs=len(configs),
            rule="one stress program per (type, order, goroutines, key universe); non-trivial = ran to completion with >= 6 goroutines mixing all operations and scans",
            samples=runs[:3], races=len(races), other_failures=len(other_fail), repo_fingerprint=common.repo_fingerprint())
        common.write_evidence(pid, tier, seed, "other", coverage, time.time() - t0, viol)
        common.log("C07 %s: %d stress programs, %d ops, races %d, other failures %d, %.1fs" % (tier, len(configs), total_ops, len(races), len(other_fail), time.time() - t0))
        return 1 if viol else 0
    finally:
        if tmp:
            shutil.rmtree(tmp, ignore_errors=True)


def is_pow2(o):
    return o >= 2 and bin(o).count("1") == 1


def run_c12(tier, seed):
    pid = "C12"
    t0 = time.time()
    names, done, problems = common.obligations(pid)
    chk = common.coqchk(run_if_missing=(tier == "thorough"))
    if chk.get("status") == "failed":
        problems = problems + ["coqchk rejects the compiled development: " + chk.get("tail", "")[-300:]]
    tmp = None
    try:
        try:
            tmp, vh = shadow.build()
        except shadow.ShadowError as e:
            common.violation(pid, dict(kind="correspondence-broken", what=str(e)), found_input=False)
            common.write_evidence(pid, tier, seed, "other", dict(explanation="harness could not be built: %s" % e), time.time() - t0, 1)
            return 1
        # 1. validation: exhaustive over the stated ranges
        orders = list(range(-70000, 70001))
        for n in range(0, 63):
            orders += [2 ** n + d for d in range(-16, 17)]
            orders += [-(2 ** n) + d for d in range(-2, 3)]
        orders += [-2 ** 63, -2 ** 63 + 1, 2 ** 63 - 1, 2 ** 63 - 2]
        orders = sorted(set(o for o in orders if -2 ** 63 <= o <= 2 ** 63 - 1))
        inp = os.path.join(tmp, "orders.txt")
        open(inp, "w").write("\n".join(map(str, orders)) + "\n")
        go_out, mo_out = os.path.join(tmp, "orders.go"), os.path.join(tmp, "orders.model")
        r = common.run(["timeout", "600", vh, "order", inp, go_out])
        if r.returncode != 0:
            raise RuntimeError("go harness (order) failed: " + (r.stdout + r.stderr)[-1500:])
        r = common.run(["timeout", "600", os.path.join(common.OCAML, "orderdriver"), inp, mo_out])
        if r.returncode != 0:
            raise RuntimeError("model driver (order) failed: " + (r.stdout + r.stderr)[-1500:])
        g = dict(l.split(" ", 1) for l in open(go_out).read().splitlines())
        m = dict(l.split(" ", 1) for l in open(mo_out).read().splitlines())
        mism, monv = [], []
        for o in orders:
            gs, ms = g.get(str(o)), m.get(str(o))
            want = "accept" if is_pow2(o) else "reject"
            if gs is None or gs.split()[0] != ms:
                mism.append(dict(order=o, go=gs, model=ms))
            # monitor: independent power-of-two test; every constructor: nil tree <=> error <=> reject
            if gs is None or gs != " ".join([want] + [("tree+nil" if want == "accept" else "nil+err")] * 6):
                # constructing huge trees is skipped by the harness (marked 'skipped'), only checkOrder is consulted there
                if not (gs and gs.split()[0] == want and all(x in ("skipped", "tree+nil" if want == "accept" else "nil+err") for x in gs.split()[1:])):
                    monv.append(dict(order=o, go=gs, expected=want))
        # 2. construction and use at every accepted order up to 2^16; two independent trees
        use_cases = []
        import random
        rng = random.Random(seed)
        top = 12 if tier == "quick" else 16
        for e in range(1, top + 1):
            order = 2 ** e
            for typ in (shadow.TYPE_NAMES if e <= 10 else [shadow.TYPE_NAMES[e % 6]]):
                U = 2 * order + 50
                keys = gen.key_table(rng, typ, U) if e <= 8 else ([str(i) for i in range(U)] if typ not in ("string", "comparable") else (["%08x" % i for i in range(U)] if typ == "string" else []))
                ops = ["I %d.0 %d" % (i, i % 1000) for i in rng.sample(range(U), U)] if e <= 6 else ["I %d.0 %d" % (i, i % 1000) for i in range(U)]
                ops += ["S %d.0" % rng.randrange(U) for _ in range(5)] + ["C %d.0 -1 0" % rng.randrange(U)]
                if order > 2:
                    ops += ["D %d.0" % rng.randrange(U) for _ in range(10)] + ["C 0.0 -1 0"]
                use_cases.append(dict(id="o%d-%s" % (order, typ), type=typ, order=order, keys=keys, ops=ops, noshrink=True, nodump=(e > 7), nomodel=(e > 12)))
        rc = props_seq.run_seq_property(pid, tier, seed, extra_cases=use_cases, ncases=0, write=False)
        seq = dict(props_seq.LAST)
        # two trees from one call site mutated alternately (pairs mode)
        pair_cases = []
        for g_i, a in enumerate(gen.gen_growshrink_cases(seed + 77, 12 if tier == "quick" else 60, shadow.TYPE_NAMES, orders=(4, 8))):
            # two trees from one call site mutated alternately + a third constructed after they have merged/discarded nodes
            U = len(a["keys"]) if a["keys"] else 40
            a["id"] = "p%da" % g_i
            b = dict(a, id="p%db" % g_i, ops=gen.gen_ops(rng, a["type"], a["order"], max(U, 4), min(len(a["ops"]), 300), True))
            late = dict(a, id="p%dc" % g_i, ops=["C 0.0 -1 0", "S 0.0"] + gen.gen_ops(rng, a["type"], a["order"], max(U, 4), 30, True) + ["C 0.0 -1 0"])
            pair_cases += [a, b, late]
        # larger orders (node-recycling "optimisations" tend to apply only to big nodes): fill to several leaves, merge
        # leaves in the middle of the chain, then construct the late tree and scan it
        g_i = len(pair_cases) // 3
        for order in (16, 64):
            for typ in shadow.TYPE_NAMES:
                U = 5 * order
                keys = gen.key_table(rng, typ, U)
                fill = ["I %d.0 %d" % (c, c) for c in range(U)]
                lo = rng.randrange(order, 2 * order)
                dels = ["D %d.0" % c for c in range(lo, lo + 2 * order)]
                a = dict(id="p%da" % g_i, type=typ, order=order, keys=keys, ops=fill + dels + ["C 0.0 -1 0"], noshrink=True)
                b = dict(id="p%db" % g_i, type=typ, order=order, keys=keys, ops=fill[: 3 * order] + ["D %d.0" % c for c in range(order // 2, order + order // 2)] + ["C 0.0 -1 0"], noshrink=True)
                late = dict(id="p%dc" % g_i, type=typ, order=order, keys=keys, ops=["C 0.0 -1 0", "S 0.0"] + ["I %d.0 %d" % (c, c) for c in range(0, U, 7)] + ["C 0.0 -1 0"], noshrink=True)
                pair_cases += [a, b, late]
                g_i += 1
        gp, mp = seqcheck.run_cases(vh, pair_cases, tmp, tag="pairs", mode="pairs")
        pair_mm = []
        for c in pair_cases:
            mm = seqcheck.first_mismatch("C12", c, gp.get(c["id"], []), mp.get(c["id"], []))
            if mm:
                pair_mm.append(dict(case=c, mismatch=mm))
        viol = seq.get("violations", 0)
        if monv:
            common.violation(pid, dict(kind="order", failure=monv[0], orders_failing=len(monv)))
            viol += len(monv)
        elif pair_mm:
            common.violation(pid, dict(kind="pairs", what="two trees built by separate constructor calls and mutated alternately do not behave like two independent model trees (shared state?)", **pair_mm[0]))
            viol += len(pair_mm)
        elif mism or problems:
            common.violation(pid, dict(kind="order", correspondence="checkOrder vs check_order", mismatch=mism[:3], proof_obligations_broken=problems), found_input=False)
            viol += 1
        cov = dict(seq["coverage"]) if seq.get("coverage") else {}
        cov.update(obligations=len(names), discharged=len(done), theorems=names, trusted_base=common.TRUSTED_BASE, coqchk={k: v for k, v in chk.items() if k != "tail"},
                   checker_cmd="cd /verif/coq && make -j16 && for f in Properties Properties2 Properties3; do coqc -Q . GB $f.v; done",
                   orders_validated=len(orders), exhaustive=True,
                   exhaustive_scope="order validation: every int in [-70000,70000], 2^n+d for n<=62,|d|<=16, -2^n+-2, MinInt64, MaxInt64; six constructors each (construction skipped above 2^20, checkOrder consulted)",
                   validation_mismatches=len(mism), validation_monitor_failures=len(monv),
                   construction_cases=len(use_cases), construction_cases_monitor_only=sum(1 for c in use_cases if c.get("nomodel")), independent_tree_groups=len(pair_cases) // 3, pair_mismatches=len(pair_mm),
                   evaluations=len(orders) + cov.get("evaluations", 0),
                   explanation="independence of two trees is a property of Go aliasing that an immutable model cannot express: tied by correspondence only (pairs mode)")
        lvl = "proof" if names and len(done) == len(names) else "other"
        common.write_evidence(pid, tier, seed, lvl, cov, time.time() - t0, viol)
        common.log("C12 %s: %d orders validated (mismatch %d, monitor %d), %d construction cases, %d tree groups (mismatch %d), theorems %d/%d, %.1fs"
                   % (tier, len(orders), len(mism), len(monv), len(use_cases), len(pair_cases) // 3, len(pair_mm), len(done), len(names), time.time() - t0))
        return 1 if viol else 0
    finally:
        if tmp:
            shutil.rmtree(tmp, ignore_errors=True)

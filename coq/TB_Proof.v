(* TB_Proof.v — linearizability of the concurrent B+tree model as a statement about WHOLE HISTORIES, derived from
   the per-step statement [Final.final_linearizable] (linearization-point form).
   For every strict weak order, every even order >= 4, every set of client programs with distinct thread ids and
   EVERY schedule, with  tr := itrace ltb order (iinit progs) sched  (one record per executed step):
     (a) legal_history      : the linearization points of tr, in trace order, are a legal run of the specification
                              from the empty map whose final map is the contents of the final tree;
     (b) completed_calls    : every return in tr closes a call of its thread: matching invocation before it, no other
                              invocation/return of the thread in between, and for a point operation exactly ONE
                              linearization point of the thread in between, which is of the call's specification
                              operation and whose specification answer is the returned result;
     (c) program_order      : per thread, the linearization points are, in order, the specification operations of
                              a prefix of the thread's program (all of it once the thread has finished).
   See the summary at the end of the file. *)
From Coq Require Import List Bool PeanoNat Lia.
From GB Require Import Model Inv LinDef SoloBase LINc_Blocks LINc_Proof LockProof OCCc_Base Final TB_Trace TB_Link.
Import ListNotations.

Section TB.
Variables (K V : Type) (ltb : K -> K -> bool).
Hypothesis HS : SWO ltb.
Variable order : nat.
Hypothesis Heven : Nat.even order = true.
Hypothesis H4 : 4 <= order.
Variable progs : list (tid * list (cop K V)).
Hypothesis Hnd : NoDup (map fst progs).

Notation irec := (irec K V).
Notation istate := (istate K V).

(* every reachable instrumented state satisfies the per-step statement: this is Final.final_linearizable, the only
   fact about the B+tree used in this file *)
Lemma reach_lin : forall sched me, lin_step_ok ltb order (iexec ltb order (iinit progs) sched) me.
Proof. intros sched me. exact (final_linearizable K V ltb HS order Heven H4 progs sched me Hnd). Qed.

(* ---- the initial state ---- *)
Definition P0 (t : tid) : list (op K V) :=
  match get_thread t (ths (init_st progs)) with Some th => map_spec (prog th) | None => [] end.

Lemma init_thread t p : In (t, p) progs ->
  get_thread t (ths (init_st progs)) = Some {| prog := p; tpc := Idle; results := [] |}.
Proof.
  intros Hin. apply in_get_thread.
  - unfold init_st. cbn [ths]. rewrite map_map. cbn [fst]. exact Hnd.
  - unfold init_st. cbn [ths]. apply in_map_iff. exists (t, p). split; [reflexivity|exact Hin].
Qed.

Lemma P0_progs t p : In (t, p) progs -> P0 t = map_spec p.
Proof. intros Hin. unfold P0. rewrite (init_thread t p Hin). reflexivity. Qed.

Lemma TInv_init : TInv P0 [] (iinit progs).
Proof.
  split; [apply Good_nil|]. split; [|split].
  - intros t th Ht Hp. exfalso. apply Hp. exact (get_thread_init K V progs t th Ht).
  - intros t th Ht. cbn [lps_thread flat_map app]. unfold P0. cbn [iinit is_st] in Ht. rewrite Ht.
    rewrite todo_idle; [reflexivity|]. exact (get_thread_init K V progs t th Ht).
  - split; [intros r []|]. split; [|intros r []].
    intros m t po x H. apply at_lt in H. simpl in H. lia.
Qed.

Lemma TInv_reach sched :
  TInv P0 (itrace ltb order (iinit progs) sched) (iexec ltb order (iinit progs) sched).
Proof.
  change (itrace ltb order (iinit progs) sched) with ([] ++ itrace ltb order (iinit progs) sched).
  apply itrace_iexec_inv; [exact reach_lin|exact TInv_init].
Qed.

(* ================================================================================================ *)
(* (a) LEGAL SEQUENTIAL HISTORY                                                                      *)
(* ================================================================================================ *)
Theorem legal_history sched :
  let tr := itrace ltb order (iinit progs) sched in
  let lps := flat_map (fun r => match r_lp r with Some p => [p] | None => [] end) tr in
  snd (run_spec ltb [] (map fst lps)) = map snd lps /\
  fst (run_spec ltb [] (map fst lps)) = abs ltb (is_st (iexec ltb order (iinit progs) sched)).
Proof.
  intros tr lps. pose proof (run_spec_trace K V ltb order sched (iinit progs)) as H.
  change (is_abs (iinit progs)) with (@nil (K * V)) in H.
  change (lps_of (itrace ltb order (iinit progs) sched)) with lps in H.
  rewrite H. cbn [fst snd]. split; [reflexivity|].
  apply iexec_abs; [exact reach_lin|reflexivity].
Qed.

(* ================================================================================================ *)
(* (b) EVERY COMPLETED CALL IS IN IT, ONCE, BETWEEN ITS INVOCATION AND ITS RETURN, WITH ITS RESULT   *)
(* ================================================================================================ *)
Theorem completed_calls sched :
  let tr := itrace ltb order (iinit progs) sched in
  forall n t res, at_ tr n (is_ret t res) -> completed tr n t res.
Proof. intros tr. exact (proj1 (TInv_reach sched)). Qed.

(* the same with every definition unfolded *)
Corollary completed_calls_explicit sched :
  let tr := itrace ltb order (iinit progs) sched in
  forall n rn res, nth_error tr n = Some rn -> In (EReturn res) (r_ev rn) ->
  let t := r_tid rn in
  exists a ra o,
    a <= n /\ nth_error tr a = Some ra /\ r_tid ra = t /\ In (EInvoke o) (r_ev ra) /\
    (forall j rj o', a < j <= n -> nth_error tr j = Some rj -> r_tid rj = t -> ~ In (EInvoke o') (r_ev rj)) /\
    (forall j rj x, a <= j < n -> nth_error tr j = Some rj -> r_tid rj = t -> ~ In (EReturn x) (r_ev rj)) /\
    (is_scan o = false ->
     exists m rm po x,
       a <= m <= n /\ nth_error tr m = Some rm /\ r_tid rm = t /\ r_lp rm = Some (po, x) /\
       spec_op o = Some po /\ ores_of_obs K x = res /\
       (forall j rj, a <= j <= n -> nth_error tr j = Some rj -> r_tid rj = t -> r_lp rj <> None -> j = m)).
Proof.
  intros tr n rn res Hn Hin t.
  assert (X : at_ tr n (is_ret t res)) by (exists rn; split; [exact Hn|split; [reflexivity|exact Hin]]).
  destruct (completed_calls sched n t res X) as (a & o & (W1 & (ra & Ea & Ra1 & Ra2) & W3 & W4) & HL).
  exists a, ra, o. split; [exact W1|]. split; [exact Ea|]. split; [exact Ra1|]. split; [exact Ra2|].
  split; [|split].
  - intros j rj o' Hj Ej Et Hi. apply (W3 j); [lia|]. exists rj. split; [exact Ej|]. split; [exact Et|eauto].
  - intros j rj x Hj Ej Et Hi. apply (W4 j); [lia|]. exists rj. split; [exact Ej|]. split; [exact Et|eauto].
  - intros Hsc. destruct (HL Hsc) as (m & po & x & (Hm & (rm & Em & Rm1 & Rm2) & M3 & M4) & Hop & Hres).
    exists m, rm, po, x. repeat (split; [assumption|]).
    intros j rj Hj Ej Et Hlp.
    destruct (Nat.lt_trichotomy j m) as [Hlt|[Heq|Hgt]]; [|exact Heq|]; exfalso.
    + apply (M3 j); [lia|]. exists rj. split; [exact Ej|split; assumption].
    + apply (M4 j); [lia|]. exists rj. split; [exact Ej|split; assumption].
Qed.

(* ================================================================================================ *)
(* (c) PER THREAD, THE LINEARIZATION POINTS FOLLOW THE PROGRAM                                       *)
(* ================================================================================================ *)
Theorem program_order sched t p : In (t, p) progs ->
  let tr := itrace ltb order (iinit progs) sched in
  let final := is_st (iexec ltb order (iinit progs) sched) in
  (exists rest, map_spec p = lps_thread t tr ++ rest) /\
  (unfinished final t = false -> lps_thread t tr = map_spec p).
Proof.
  intros Hin tr final. destruct (TInv_reach sched) as (_ & _ & HSeq & _).
  destruct (iexec_keeps_thread K V ltb order t sched (iinit progs) _ (init_thread t p Hin)) as (th & Ht).
  specialize (HSeq t th Ht). rewrite (P0_progs t p Hin) in HSeq. fold tr in HSeq. split.
  - eexists. exact HSeq.
  - intros Hun. unfold unfinished in Hun. fold final in Ht. rewrite Ht in Hun.
    destruct (tpc th) eqn:Hp; try discriminate Hun. destruct (prog th) eqn:Hpr; [|discriminate Hun].
    rewrite todo_idle in HSeq by exact Hp. rewrite Hpr in HSeq. cbn [map_spec flat_map] in HSeq.
    rewrite app_nil_r in HSeq. symmetry. exact HSeq.
Qed.

(* ================================================================================================ *)
(* (d) EVERY LINEARIZATION POINT LIES IN A CALL OF ITS THREAD (also those of calls still pending)    *)
(* ================================================================================================ *)
(* a linearization point of thread t at position m: there is an invocation of t at some a <= m with no other
   invocation of t in (a, m], no return of t in [a, m), no other linearization point of t in [a, m), and the
   operation linearized is the specification operation of the call invoked at a *)
Theorem lp_in_call sched :
  let tr := itrace ltb order (iinit progs) sched in
  forall m t po x, at_ tr m (is_lp t po x) -> lp_ok_at tr m t po.
Proof. intros tr. destruct (TInv_reach sched) as (_ & _ & _ & _ & H & _). exact H. Qed.

(* every step is an invocation (one event, no linearization point), silent for the client, or a return *)
Theorem trace_shape sched r : In r (itrace ltb order (iinit progs) sched) -> rec_shape r.
Proof. destruct (TInv_reach sched) as (_ & _ & _ & _ & _ & H). apply H. Qed.

(* every record of the trace is a step of one of the given threads *)
Lemma trace_tids sched r : In r (itrace ltb order (iinit progs) sched) -> In (r_tid r) (map fst progs).
Proof.
  intros Hin. destruct (TInv_reach sched) as (_ & _ & _ & HT & _). destruct (HT r Hin) as (th & Hth).
  rewrite iexec_st in Hth. cbn [iinit is_st] in Hth.
  apply OCCc_Base.get_thread_in in Hth. apply (in_map fst) in Hth. cbn [fst] in Hth.
  assert (E : forall sched0 (s : st K V), map fst (ths (fst (exec ltb order s sched0))) = map fst (ths s)).
  { induction sched0 as [|u q IH]; intros s; simpl; [reflexivity|].
    destruct (cstep ltb order s u) as [ | | |s' acq ev|pp] eqn:Hc; try reflexivity.
    specialize (IH s'). destruct (exec ltb order s' q) as [s'' h]. cbn [fst] in *. rewrite IH.
    exact (ASM_Proof.step_thread_ids K V ltb order s s' u acq ev Hc). }
  rewrite E in Hth. unfold init_st in Hth. cbn [ths] in Hth. rewrite map_map in Hth. exact Hth.
Qed.

End TB.

Print Assumptions legal_history.
Print Assumptions completed_calls_explicit.
Print Assumptions program_order.
Print Assumptions lp_in_call.
Print Assumptions trace_shape.

(* SUMMARY (agent TB).  Everything is proved; no axioms (all "Closed under the global context").
   Files: TB_Trace.v (trace, step classification), TB_Link.v (trace invariants and their preservation),
          TB_Proof.v (this file: closed theorems (a)-(d)), TB_Counter.v (counter corollary), TB_HW.v (abstract
          Herlihy-Wing definition and theorem, well-formedness), TB_HW_Sanity.v (the definition accepts/rejects
          two four-event histories as it should).
   Compile in that order with  coqc -Q . GB <file>.

   Premises of every closed theorem: SWO ltb, Nat.even order = true, 4 <= order, NoDup (map fst progs).
   tr := itrace ltb order (iinit progs) sched, for EVERY schedule sched.

   Definitions (TB_Trace.v):
     Record irec := { r_tid : tid; r_ev : list event; r_lp : option (op K V * obs V) }
     istep_lp ltb order i me = Some (po, snd (step_spec ltb (is_abs i) po))  when the step of me from i is a
                               linearization point of operation po (lp_step), else None
     itrace ltb order i sched  mirrors iexec: one record {me; ev; istep_lp i me} per executed step
     spec_op : cop -> option op   (CInsert k v => OInsert k v, ..., CScan => None)
   Definitions (TB_Link.v):  at_ T j P := exists r, nth_error T j = Some r /\ P r;
     none_in T P lo hi := no j in [lo,hi) with at_ T j P;  is_inv t o / is_ret t x / is_lp t po x (record of
     thread t containing EInvoke o / EReturn x / with r_lp = Some (po,x)), is_inv_any / is_ret_any / is_lp_any;
     window T t a n o := a <= n /\ at_ T a (is_inv t o) /\ none_in T (is_inv_any t) (S a) (S n)
                         /\ none_in T (is_ret_any t) a n
     only_lp T t a n m po x := a <= m <= n /\ at_ T m (is_lp t po x) /\ none_in T (is_lp_any t) a m
                         /\ none_in T (is_lp_any t) (S m) (S n)
     completed T n t res := exists a o, window T t a n o /\ (is_scan o = false -> exists m po x,
                         only_lp T t a n m po x /\ spec_op o = Some po /\ ores_of_obs K x = res)

   Theorems of this file:
     legal_history    : with lps := flat_map (fun r => match r_lp r with Some p => [p] | None => [] end) tr,
                          snd (run_spec ltb [] (map fst lps)) = map snd lps /\
                          fst (run_spec ltb [] (map fst lps)) = abs ltb (is_st (iexec ltb order (iinit progs) sched))
     completed_calls  : forall n t res, at_ tr n (is_ret t res) -> completed tr n t res
     completed_calls_explicit : the same with nth_error / In / inequalities only (statement above)
     program_order    : In (t,p) progs -> (exists rest, map_spec p = lps_thread t tr ++ rest) /\
                          (unfinished final t = false -> lps_thread t tr = map_spec p)
                        (map_spec p: the specification operations of the point operations of p, in order;
                         lps_thread t tr: the operations of the linearization points of t, in trace order)
     lp_in_call       : every linearization point of t at m lies in a call of t: invocation at a <= m, no other
                        invocation in (a,m], no return in [a,m), no other linearization point in [a,m), and its
                        operation is the specification operation of that call (also for calls still pending)
     trace_shape      : every record is an invocation ([EInvoke o], no linearization point), quiet ([] or [EPair e])
                        or a return ([EReturn r] or [EScanEnd; EReturn r])
     trace_tids       : every record's thread id is one of map fst progs
   The only fact about the B+tree used is Final.final_linearizable (lemma reach_lin), at every prefix of the
   schedule, plus facts read off the definition of cstep (blk_idle, blk_outcome, commit_me, commit_other, lp_step).

   Reusable: TB_Trace.istep_kind (classification [skind] of a step of the stepping thread: invocation / the call
   continues / the call returns, with what happens to the ghost entry and the linearization point), istep_other,
   run_spec_trace (generic (a)), iexec_abs, lp_step_op (lp_step yields the specification operation of the head of
   the program), istep_keeps_thread;  TB_Link.TInv (Good /\ Link /\ Seq /\ threads /\ LpOk /\ Shape), TInv_step,
   itrace_iexec_inv (for any start state), at_/none_in lemmas.
   NOTE: iexec/exec stop at the first step that is not possible, so iexec over sched1 ++ sched2 is NOT iexec of
   sched2 after iexec of sched1 in general; all inductions here go from the left with an accumulated trace prefix. *)

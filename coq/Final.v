(* Final.v — the concurrent theorems with every premise discharged: for every key order that is a strict weak
   order, every even order >= 4, every finite set of client programs and EVERY schedule. *)
From Coq Require Import List PeanoNat.
From GB Require Import Model Inv Conc GI CIDef NoDeadlock LinDef Lin ASM_Proof PCc_Proof.
Import ListNotations.

Section Final.
Variables (K V : Type) (ltb : K -> K -> bool).
Hypothesis HS : SWO ltb.
Variable order : nat.
Hypothesis Heven : Nat.even order = true.
Hypothesis H4 : 4 <= order.

(* the two definitions of Base (one per proof file) are the same proposition *)
Lemma base_conv (s : st K V) : ASM_Proof.Base K V ltb order s -> PCc_Proof.Base K V ltb order s.
Proof. exact (fun h => h). Qed.

Let P2 := fun (s s' : st K V) me acq ev (B : ASM_Proof.Base K V ltb order s) (E : cstep ltb order s me = Stepped s' acq ev) =>
  pc_ok2_step K V ltb HS order s s' me acq ev Heven H4 (base_conv s B) E.
Let P3 := fun (s s' : st K V) me acq ev (B : ASM_Proof.Base K V ltb order s) (E : cstep ltb order s me = Stepped s' acq ev) =>
  pc_ok3_step K V ltb HS order s s' me acq ev Heven H4 (base_conv s B) E.
Let PD := fun (s s' : st K V) me acq ev t (B : ASM_Proof.Base K V ltb order s) (E : cstep ltb order s me = Stepped s' acq ev) (N : t <> me) =>
  decided_other_step K V ltb order s s' me acq ev t Heven H4 (base_conv s B) E N.

Theorem final_invariant_reachable : forall (progs : list (tid * list (cop K V))) sched,
  NoDup (map fst progs) -> CIall ltb order (fst (exec ltb order (init_st progs) sched)).
Proof. exact (CIall_reachable K V ltb HS order Heven H4 P2 P3 (all_pc_ok2_init K V) (all_pc_ok3_init K V ltb)). Qed.

Theorem final_BigInv_reachable : forall (progs : list (tid * list (cop K V))) sched,
  NoDup (map fst progs) -> BigInv K V ltb order (fst (exec ltb order (init_st progs) sched)).
Proof. exact (BigInv_reachable K V ltb HS order Heven H4 P2 P3 (all_pc_ok2_init K V) (all_pc_ok3_init K V ltb)). Qed.

Theorem final_GI_reachable : forall (progs : list (tid * list (cop K V))) sched,
  NoDup (map fst progs) -> GI ltb order (fst (exec ltb order (init_st progs) sched)).
Proof. exact (GI_reachable K V ltb HS order Heven H4 P2 P3 (all_pc_ok2_init K V) (all_pc_ok3_init K V ltb)). Qed.

Theorem final_no_crash : forall (progs : list (tid * list (cop K V))) sched me p,
  NoDup (map fst progs) -> cstep ltb order (fst (exec ltb order (init_st progs) sched)) me <> Crash p.
Proof. exact (no_crash_reachable K V ltb HS order Heven H4 P2 P3 (all_pc_ok2_init K V) (all_pc_ok3_init K V ltb)). Qed.

Theorem final_no_deadlock : forall (progs : list (tid * list (cop K V))) sched,
  NoDup (map fst progs) ->
  let s := fst (exec ltb order (init_st progs) sched) in
  (exists t, unfinished s t = true) -> exists t, enabled order s t = true.
Proof. exact (no_deadlock_reachable K V ltb HS order Heven H4 P2 P3 (all_pc_ok2_init K V) (all_pc_ok3_init K V ltb)). Qed.

Theorem final_linearizable : forall (progs : list (tid * list (cop K V))) sched me,
  NoDup (map fst progs) -> lin_step_ok ltb order (iexec ltb order (iinit progs) sched) me.
Proof. exact (linearizable K V ltb HS order Heven H4 P2 P3 PD (all_pc_ok2_init K V) (all_pc_ok3_init K V ltb)). Qed.

End Final.
Print Assumptions final_linearizable.
Print Assumptions final_no_deadlock.
Print Assumptions final_no_crash.
Print Assumptions final_GI_reachable.

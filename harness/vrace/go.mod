module vrace

go 1.21

require github.com/karrick/gobptree v0.0.0

replace github.com/karrick/gobptree => ../shadow

(* LINb_Prog.v — the operation recorded in a program counter is the call in flight, i.e. the head of the
   thread's program ([lp_step] and [call_in_flight] read the operation from the program, the blocks of Conc.v read
   it from the pc).  None of CIfull, all_inv, all_left_pos_b, all_pc_ok2_b, all_pc_ok3_b, all_small_b, all_op_b
   says so; the invariant [prog_ok] below does, holds initially and is preserved by every step (no other
   invariant needed), hence holds in every reachable state. *)
From Coq Require Import List Permutation Lia Bool PeanoNat.
From GB Require SoloBase.
From GB Require Import ListLemmas TreeLemmas Conc Frame LockProof UpdLemmas FrameRel FrameInv OCCc_Op.
Import ListNotations.

Section Prog.
Variables (K V : Type) (ltb : K -> K -> bool).
Notation itree := (itree K V).
Notation pc := (pc K V).
Notation st := (st K V).
Notation out := (out K V).
Notation thread := (thread K V).
Notation cop := (cop K V).

Definition pc_prog_ok (p : pc) (pr : list cop) : Prop :=
  match p with
  | Idle => True
  | WantT o | WantRoot o _ | InsWantRootRight o _ _ | InsWantChild o _ _ _ | InsWantSplitRight o _ _ _
  | UpdCallback o _ _ _ | SeaWantChild o _ _ => exists r, pr = o :: r
  | DelWantLeft o _ | DelWantChild o _ | DelWantRight o _ => exists k r, o = CDelete k /\ pr = o :: r
  | CurRest _ _ _ _ | CurWantNext _ _ _ _ => exists k n r, pr = CScan k n :: r
  end.

Definition prog_ok (s : st) : Prop :=
  forall t th, get_thread t (ths s) = Some th -> pc_prog_ok (tpc th) (prog th).

(* what a block leaves: a returning block ends at Idle, any other at a pc of the same call *)
Definition Q (pr : list cop) (o : out) : Prop :=
  if SoloBase.returned (oev o) then opc o = Idle else pc_prog_ok (opc o) pr.

Lemma prog_ok_init progs : prog_ok (init_st (K:=K) (V:=V) progs).
Proof.
  intros t th H. unfold get_thread, init_st in H. cbn [ths] in H.
  destruct (List.find _ _) as [e|] eqn:E; [|discriminate H]. inversion H; subst th; clear H.
  apply find_some in E. destruct E as [E _]. apply in_map_iff in E. destruct E as [x [<- _]]. exact I.
Qed.

Lemma ins_descend_prog o n (t : itree) l fr tmx (out : out) pr :
  ins_descend ltb o n t l fr tmx = Ok out -> (exists r, pr = o :: r) -> Q pr out.
Proof.
  intros H Ho. unfold ins_descend, mk in H.
  crunch H; inversion H; subst; clear H; unfold Q; cbn [oev opc SoloBase.returned existsb orb pc_prog_ok]; auto.
Qed.

Lemma sea_descend_prog o n (t : itree) l fr tmx (out : out) pr :
  sea_descend ltb o n t l fr tmx = Ok out -> (exists r, pr = o :: r) -> Q pr out.
Proof.
  intros H [r Ho]. unfold sea_descend, mk in H.
  crunch H; inversion H; subst; clear H; unfold Q; cbn [oev opc SoloBase.returned existsb orb pc_prog_ok]; eauto.
Qed.

Lemma del_descend_prog o stk n (t : itree) p pr :
  del_descend ltb o stk n t = Ok p -> (exists k r, o = CDelete k /\ pr = o :: r) -> pc_prog_ok p pr.
Proof. intros H Ho. unfold del_descend in H. crunch H; inversion H; subst; clear H. destruct (0 <? a); exact Ho. Qed.

Lemma unwind_prog order fuel : forall o stk small right (t : itree) l fr tmx (out : out) pr,
  unwind order fuel o stk small right t l fr tmx = Ok out -> (exists k r, o = CDelete k /\ pr = o :: r) -> Q pr out.
Proof.
  induction fuel as [|fuel IH]; intros o stk small right t l fr tmx out pr H Ho; simpl in H; [discriminate|].
  destruct stk as [|f rest]; [unfold mk in H; inversion H; reflexivity|].
  destruct (negb small); [eapply IH; eauto|].
  destruct (find (fp f) t) as [[?|pi cs]|]; try discriminate H.
  destruct ((fidx f + 1 <? length cs) && match right with None => true | Some _ => false end).
  - unfold mk in H. inversion H. unfold Q. cbn [oev opc SoloBase.returned existsb pc_prog_ok]. exact Ho.
  - destruct (irebalance order f t) as [[t' small']|]; [cbn [bind] in H|discriminate H]. eapply IH; eauto.
Qed.

Opaque unwind.

Ltac qmk := unfold Q; cbn [oev opc SoloBase.returned existsb orb pc_prog_ok]; eauto.

Lemma blk_prog order (s : st) me th tg (r : out) :
  pc_prog_ok (tpc th) (prog th) -> SoloBase.blk ltb order s me th tg = Ok (Some r) -> Q (prog th) r.
Proof.
  intros Hop H. unfold SoloBase.blk in H. cbv zeta in H.
  destruct (tpc th) as [ |o|o r0|o lft rgt|o p c index|o p c r0|o leaf mode index|o p c|o stk|o stk|o stk|leaf i n acc|leaf nxt n acc];
    cbn [pc_prog_ok] in Hop.
  - destruct (prog th) as [|o pr]; unfold mk in H; cbn [bind] in H; inversion H. qmk.
  - unfold mk in H. cbn [bind] in H. inversion H. qmk.
  - blk_top H. destruct o as [k v|k f|k|k|k cnt].
    + destruct (isplit order (fresh s) (tr s)) as [[l1 r1]|].
      * crunch HE; try (eapply ins_descend_prog; [eassumption|exact Hop]). unfold mk in HE. inversion HE. qmk.
      * eapply ins_descend_prog; [eassumption|exact Hop].
    + destruct (isplit order (fresh s) (tr s)) as [[l1 r1]|].
      * crunch HE; try (eapply ins_descend_prog; [eassumption|exact Hop]). unfold mk in HE. inversion HE. qmk.
      * eapply ins_descend_prog; [eassumption|exact Hop].
    + destruct (tr s) as [i nx es|i cs].
      * unfold mk in HE. crunch HE. inversion HE. qmk.
      * unfold mk in HE. crunch HE. inversion HE. subst. unfold Q. cbn [oev opc SoloBase.returned existsb].
        eapply del_descend_prog; eauto. destruct Hop as [r1 Hr1]. eauto.
    + eapply sea_descend_prog; eauto.
    + eapply sea_descend_prog; eauto.
  - blk_top H. eapply ins_descend_prog; eauto.
  - blk_top H. unfold mk in HE.
    crunch HE; try (eapply ins_descend_prog; eassumption); inversion HE; subst; qmk.
  - blk_top H. eapply ins_descend_prog; eauto.
  - blk_top H. unfold mk in HE. crunch HE; inversion HE; qmk.
  - blk_top H. eapply sea_descend_prog; eauto.
  - blk_top H. unfold mk in HE. crunch HE; inversion HE; qmk.
  - blk_top H. unfold mk in HE.
    crunch HE; try (eapply unwind_prog; eassumption); inversion HE; subst;
      unfold Q; cbn [oev opc SoloBase.returned existsb]; eapply del_descend_prog; eauto.
  - blk_top H. crunch HE. eapply unwind_prog; eauto.
  - blk_top H. unfold mk in HE. crunch HE; inversion HE; qmk.
  - blk_top H. unfold mk in HE. crunch HE; inversion HE; qmk.
Qed.

Transparent unwind.

(* prog_ok is inductive (no other invariant needed) *)
Theorem prog_ok_step : forall order (s s' : st) me acq ev,
  prog_ok s -> cstep ltb order s me = Stepped s' acq ev -> prog_ok s'.
Proof.
  intros order s s' me acq ev Hok H. rewrite SoloBase.cstep_eq in H.
  destruct (get_thread me (ths s)) as [th|] eqn:Hme; [|discriminate H].
  destruct (target s (tpc th)) as [tg|]; [|discriminate H].
  destruct (negb (is_free s tg)); [discriminate H|].
  destruct (SoloBase.blk ltb order s me th tg) as [[o|]|] eqn:HB; try discriminate H.
  inversion H; subst s' acq ev; clear H.
  pose proof (blk_prog order s me th _ o (Hok me th Hme) HB) as X. unfold Q in X.
  intros t th' Hg. unfold SoloBase.commit in Hg. cbn [ths] in Hg.
  destruct (Nat.eq_dec t me) as [->|Hne].
  - rewrite (get_set_same K V me th _ (ths s) Hme) in Hg. inversion Hg; subst th'; clear Hg.
    destruct (SoloBase.returned (oev o)); cbn [tpc prog]; [rewrite X; exact I|exact X].
  - rewrite (get_set_other K V me t _ (ths s) Hne) in Hg. apply (Hok t th' Hg).
Qed.

Theorem prog_ok_exec order : forall sched (s : st), prog_ok s -> prog_ok (fst (exec ltb order s sched)).
Proof.
  induction sched as [|t sched IH]; intros s H; [exact H|]. cbn [exec].
  destruct (cstep ltb order s t) as [| | |s' acq ev|p] eqn:E; try exact H.
  specialize (IH s' (prog_ok_step order s s' t acq ev H E)).
  destruct (exec ltb order s' sched) as [s'' h]. exact IH.
Qed.

Theorem prog_ok_reachable order progs sched :
  prog_ok (fst (exec ltb order (init_st progs) sched)).
Proof. apply prog_ok_exec. apply prog_ok_init. Qed.

End Prog.

Print Assumptions prog_ok_reachable.

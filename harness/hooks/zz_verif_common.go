//go:build verif

// Verification hooks, injected into a shadow copy of the package (never into /repo).
// verifMutex replaces sync.Mutex by a counted textual substitution; in free-running mode it is a
// plain non-reentrant flag that panics on misuse, in scheduled mode every Lock() parks the calling
// goroutine until the cooperative scheduler grants the mutex.
package gobptree

import "fmt"

type verifMutex struct{ holder int }

// VerifHeld counts verifMutexes currently held anywhere (also in detached nodes).
var VerifHeld int

// VerifLockLog, when non-nil, receives every Lock/Unlock in free-running mode.
var VerifLockLog func(m *verifMutex, acquire bool)

type vpark struct {
	w    int
	m    *verifMutex // nil: API boundary / callback (always enabled)
	done bool
}

// VSched is the cooperative scheduler: exactly one worker goroutine runs at any time.
type VSched struct {
	cur     int
	resume  map[int]chan struct{}
	parked  chan vpark
	pending map[int]*verifMutex
	state   map[int]string // "lock", "free", "done"
	ids     []int
}

var VS *VSched

func (m *verifMutex) Lock() {
	vs := VS // read once: a goroutine abandoned by an earlier run must never see a later scheduler
	if vs == nil {
		if m.holder != 0 {
			panic("verif: Lock of a held mutex in free-running mode")
		}
		m.holder = -1
		VerifHeld++
		if VerifLockLog != nil {
			VerifLockLog(m, true)
		}
		return
	}
	w := vs.cur
	ch := vs.resume[w]
	vs.parked <- vpark{w: w, m: m}
	<-ch
	if m.holder != 0 {
		panic("verif: scheduler granted a held mutex")
	}
	m.holder = w
	VerifHeld++
}

// TryLock mirrors sync.Mutex.TryLock (non-blocking, not a scheduling point); the repository does not use it,
// but a change under test might.
func (m *verifMutex) TryLock() bool {
	if m.holder != 0 {
		return false
	}
	if VS == nil {
		m.holder = -1
		if VerifLockLog != nil {
			VerifLockLog(m, true)
		}
	} else {
		m.holder = VS.cur
	}
	VerifHeld++
	return true
}

func (m *verifMutex) Unlock() {
	if m.holder == 0 {
		panic("verif: Unlock of an unlocked mutex")
	}
	m.holder = 0
	VerifHeld--
	if VS == nil && VerifLockLog != nil {
		VerifLockLog(m, false)
	}
}

// VerifYield parks the current worker at an always-enabled point (API boundary, callback).
func VerifYield() {
	vs := VS
	if vs == nil {
		return
	}
	w := vs.cur
	ch := vs.resume[w]
	vs.parked <- vpark{w: w}
	<-ch
}

// VerifStart creates one parked goroutine per worker; nothing runs until Step is called.
func VerifStart(ids []int, workers map[int]func()) *VSched {
	s := &VSched{resume: map[int]chan struct{}{}, parked: make(chan vpark), pending: map[int]*verifMutex{}, state: map[int]string{}}
	VS = s
	s.ids = append(s.ids, ids...)
	for _, w := range s.ids {
		s.resume[w] = make(chan struct{})
		s.state[w] = "free"
	}
	for _, w := range s.ids {
		w, f, ch := w, workers[w], s.resume[w]
		go func() {
			<-ch // the maps are complete and never written again before any worker runs
			f()
			s.parked <- vpark{w: w, done: true}
		}()
	}
	return s
}

func (s *VSched) IDs() []int { return s.ids }

// State returns "free", "lock" or "done".
func (s *VSched) State(w int) string { return s.state[w] }

func (s *VSched) Pending(w int) *verifMutex { return s.pending[w] }

func (s *VSched) Enabled() []int {
	var e []int
	for _, w := range s.ids {
		switch s.state[w] {
		case "free":
			e = append(e, w)
		case "lock":
			if s.pending[w].holder == 0 {
				e = append(e, w)
			}
		}
	}
	return e
}

func (s *VSched) IsEnabled(w int) bool {
	switch s.state[w] {
	case "free":
		return true
	case "lock":
		return s.pending[w].holder == 0
	}
	return false
}

func (s *VSched) Alive() int {
	n := 0
	for _, w := range s.ids {
		if s.state[w] != "done" {
			n++
		}
	}
	return n
}

// Step resumes w and waits until it parks again; returns the mutex it acquired (nil if none).
func (s *VSched) Step(w int) *verifMutex {
	var acq *verifMutex
	if s.state[w] == "lock" {
		acq = s.pending[w]
	}
	s.cur = w
	s.resume[w] <- struct{}{}
	p := <-s.parked
	switch {
	case p.done:
		s.state[w] = "done"
	case p.m == nil:
		s.state[w] = "free"
	default:
		s.state[w] = "lock"
		s.pending[w] = p.m
	}
	return acq
}

// Stop abandons the scheduler (goroutines still parked are leaked on purpose: deadlocked runs).
func (s *VSched) Stop() { VS = nil }

func VerifHolder(m *verifMutex) int { return m.holder }

func VerifCheckOrder(order int) bool { return checkOrder(order) == nil }

func verifVal(v interface{}) string {
	if v == nil {
		return "nil"
	}
	return fmt.Sprintf("%v", v)
}

// VerifMutex lets the harness name the mutex type.
type VerifMutex = verifMutex

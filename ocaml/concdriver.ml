(* concdriver.ml — replays, on the extracted concurrent model, the schedules the Go harness executed,
   printing the same canonical trace.  Glue only: parsing and printing. *)
open Gbconc
let rec pos_of_int n = if n = 1 then XH else if n land 1 = 0 then XO (pos_of_int (n/2)) else XI (pos_of_int (n/2))
let z_of_int n = if n = 0 then Z0 else if n > 0 then Zpos (pos_of_int n) else Zneg (pos_of_int (-n))
let rec int_of_pos = function XH -> 1 | XO p -> 2 * int_of_pos p | XI p -> 2 * int_of_pos p + 1
let int_of_z = function Z0 -> 0 | Zpos p -> int_of_pos p | Zneg p -> - (int_of_pos p)
let rec nat_of_int n = if n <= 0 then O else S (nat_of_int (n-1))
let rec int_of_nat = function O -> 0 | S n -> 1 + int_of_nat n

let key_of_string s = match String.split_on_char '.' s with
  | [c; t] -> (z_of_int (int_of_string c), z_of_int (int_of_string t))
  | _ -> failwith ("bad key " ^ s)
let key_str (c, t) = Printf.sprintf "%d.%d" (int_of_z c) (int_of_z t)
let val_of_string s = if s = "nil" then None else Some (z_of_int (int_of_string s))
let val_str = function None -> "nil" | Some z -> string_of_int (int_of_z z)
let optval_str = function None -> "none" | Some v -> val_str v
let pairs_str l = String.concat "," (List.map (fun (k, v) -> key_str k ^ "=" ^ val_str v) l)

let hold s x = match c_holder x s.lk with Some t -> int_of_nat t | None -> 0
let rec dump s b t = match t with
  | ILeaf (i, _, es) -> Buffer.add_string b (Printf.sprintf "L@%d[" (hold s i));
      List.iteri (fun j (k, v) -> if j > 0 then Buffer.add_char b ' '; Buffer.add_string b (key_str k ^ "=" ^ val_str v)) es;
      Buffer.add_char b ']'
  | INode (i, cs) -> Buffer.add_string b (Printf.sprintf "N@%d[" (hold s i));
      List.iteri (fun j (k, c) -> if j > 0 then Buffer.add_char b ' '; Buffer.add_string b (key_str k ^ ":"); dump s b c) cs;
      Buffer.add_char b ']'
let pos s x = match c_path_of x s.tr with
  | Some p -> "r" ^ String.concat "" (List.map (fun j -> "." ^ string_of_int (int_of_nat j)) p)
  | None -> "X"
let chain s =
  let ls = c_leaf_links s.tr in
  let rec go i = function
    | [] -> "ok"
    | [(_, nx)] -> if nx = None then "ok" else Printf.sprintf "bad@%d" i
    | (_, nx) :: (((j, _) :: _) as r) -> if nx = Some j then go (i + 1) r else Printf.sprintf "bad@%d" i in
  go 0 ls
let pend_str s t th =
  if not (c_unfinished s t) then "done" else
  match c_target s th.tpc with
  | Ok None -> "-" | Ok (Some None) -> "T" | Ok (Some (Some x)) -> pos s x | Panic _ -> "?"
let state s tids =
  let b = Buffer.create 256 in
  dump s b s.tr;
  Buffer.add_string b (Printf.sprintf " chain=%s T=%d pend:" (chain s) (match s.tm with Some t -> int_of_nat t | None -> 0));
  List.iter (fun ti -> let t = nat_of_int ti in
    match List.assoc_opt t s.ths with
    | Some th -> Buffer.add_string b (Printf.sprintf " w%d=%s" ti (pend_str s t th))
    | None -> ()) tids;
  Buffer.contents b

let parse_op str =
  match List.filter (fun s -> s <> "") (String.split_on_char ' ' (String.trim str)) with
  | ["I"; k; v] -> CInsert (key_of_string k, val_of_string v)
  | ["U"; k; d] -> CUpdate (key_of_string k, add_cb (z_of_int (int_of_string d)))
  | ["D"; k] -> CDelete (key_of_string k)
  | ["S"; k] -> CSearch (key_of_string k)
  | ["C"; k; n] -> CScan (key_of_string k, nat_of_int (int_of_string n))
  | _ -> failwith ("bad op: " ^ str)
let split_ops s = List.filter (fun x -> String.trim x <> "") (String.split_on_char ';' s)

let res_str = function
  | RUnit -> "ok" | RArg a -> "arg=" ^ optval_str a ^ "/calls=1"
  | RFound a -> "found=" ^ optval_str a
  | RPairs l -> "pairs=" ^ pairs_str l
let panic_str = function
  | PFuel -> "fuel" | PIndex -> "index" | PLeafEmpty -> "leafempty" | PInternalEmpty -> "internalempty"
  | PNoSiblings -> "nosiblings" | PAdoptR -> "adoptr" | PAdoptL -> "adoptl" | PAbsorb -> "absorb"

type case = { id : string; order : nat; init : string list; progs : (int * string list) list; dumpsteps : bool }

let run_init c =
  let t0 = O in
  let s = ref (c_init [(t0, List.map parse_op c.init)]) in
  let continue = ref true in
  while !continue do
    match c_cstep c.order !s t0 with
    | Stepped (s', _, _) -> s := s'
    | Finished -> continue := false
    | Blocked -> failwith "init blocked" | NoThread -> failwith "init nothread"
    | Crash p -> failwith ("init crash " ^ panic_str p)
  done;
  { !s with ths = List.map (fun (t, ops) -> (nat_of_int t, { prog = List.map parse_op ops; tpc = Idle; results = [] })) c.progs }

let gibad = ref 0
let pcbad = ref 0
let gisteps = ref 0
let linbad = ref 0
let lpcount = ref 0
let lpdone : (int, hV obs option) Hashtbl.t = Hashtbl.create 8
let check_gi = Array.length Sys.argv > 4 && Sys.argv.(4) = "gi"
let () =
  let cases = Hashtbl.create 64 in
  let ic = open_in Sys.argv.(1) in
  let cur = ref None in
  let flush () = match !cur with Some c -> Hashtbl.replace cases c.id { c with progs = List.rev c.progs } | None -> () in
  (try while true do
    let line = input_line ic in
    let starts p = String.length line >= String.length p && String.sub line 0 (String.length p) = p in
    if starts "CASE " then begin
      flush ();
      let f = String.split_on_char ' ' line in
      let c = ref { id = List.nth f 1; order = O; init = []; progs = []; dumpsteps = true } in
      List.iter (fun kv -> match String.split_on_char '=' kv with
        | ["order"; n] -> c := { !c with order = nat_of_int (int_of_string n) }
        | ["dump"; d] -> c := { !c with dumpsteps = (d = "steps") }
        | _ -> ()) f;
      cur := Some !c
    end else if starts "INIT" then
      (match !cur with Some c -> cur := Some { c with init = if String.length line > 5 then split_ops (String.sub line 5 (String.length line - 5)) else [] } | None -> ())
    else if starts "PROG " then
      (match !cur, String.split_on_char ' ' line with
       | Some c, _ :: t :: rest -> cur := Some { c with progs = (int_of_string t, split_ops (String.concat " " rest)) :: c.progs }
       | _ -> ())
  done with End_of_file -> ());
  flush (); close_in ic;
  (* replay the runs recorded in the Go output *)
  let ic = open_in Sys.argv.(2) and oc = open_out Sys.argv.(3) in
  let s = ref None and cs = ref None and dead = ref false in
  let tids c = List.map fst c.progs in
  let opidx = Hashtbl.create 8 in
  (try while true do
    let line = input_line ic in
    let starts p = String.length line >= String.length p && String.sub line 0 (String.length p) = p in
    if starts "RUN " then begin
      (match String.split_on_char ' ' line with
       | [_; id; _] ->
         let c = Hashtbl.find cases id in
         cs := Some c; dead := false; Hashtbl.reset opidx; Hashtbl.reset lpdone;
         (try s := Some (run_init c) with Failure m -> (dead := true; s := None; Printf.fprintf oc "%s\nMODEL-INIT-FAILED %s\n" line m));
         if not !dead then output_string oc (line ^ "\n")
       | _ -> ())
    end else if !dead then ()
    else match !s, !cs with
    | Some st, Some c ->
      if starts "START " then Printf.fprintf oc "START %s\n" (state st (tids c))
      else if starts "STEP " then begin
        let w = int_of_string (List.nth (String.split_on_char ' ' line) 1) in
        match c_cstep c.order st (nat_of_int w) with
        | Stepped (st', tg, evs) ->
          s := Some st';
          let a = match tg with None -> "-" | Some None -> "T" | Some (Some x) -> pos st' x in
          let k = try Hashtbl.find opidx w with Not_found -> 0 in
          let ev = List.map (function
            | EInvoke _ -> "inv:" ^ String.concat "_" (List.filter (fun x -> x <> "") (String.split_on_char ' ' (List.nth (List.assoc w c.progs) k)))
            | EReturn r -> Hashtbl.replace opidx w (k + 1); "ret:" ^ res_str r
            | EPair e -> "pair:" ^ pairs_str [e]
            | EScanEnd -> "end") evs in
          let ev = if ev = [] then "-" else String.concat "," ev in
          let en = String.concat "," (List.filter_map (fun t -> if c_enabled c.order st' (nat_of_int t) then Some (string_of_int t) else None) (tids c)) in
          let check_gi = check_gi && int_of_nat c.order >= 4 in
          if check_gi then incr gisteps;
          if check_gi && not (c_gi_full_b c.order st') then incr gibad;
          if check_gi && not (c_occ_ok_b c.order st') then (incr pcbad; if !pcbad <= 3 then Printf.printf "PCBAD(occ) case %s after step of %d: %s\n" c.id w (state st' (tids c)));
          if check_gi then begin
            (* linearization points: abs changes exactly at an LP, as the specification says, and every returning
               call was linearized between its invocation and its return with the result it returns *)
            let a = c_abs st and a' = c_abs st' in
            let ret = List.filter_map (function EReturn r -> Some r | _ -> None) evs in
            List.iter (function EInvoke _ -> Hashtbl.replace lpdone w None | _ -> ()) evs;
            let bad msg = incr linbad; if !linbad <= 5 then Printf.printf "LINBAD(%s) case %s step of %d: %s\n" msg c.id w (state st' (tids c)) in
            (match c_lp_step st (nat_of_int w) tg evs st' with
             | None -> if a <> a' then bad "abs changed without LP"
             | Some po ->
               incr lpcount;
               let (a2, x) = c_step_spec a po in
               if a2 <> a' then bad "abs differs from spec at LP";
               (match Hashtbl.find_opt lpdone w with Some (Some _) -> bad "second LP in one call" | _ -> ());
               Hashtbl.replace lpdone w (Some x);
               (match po, x, ret with
                | OInsert _, ObsUnit, [RUnit] -> ()
                | OUpdate _, ObsArg a0, [RArg a1] -> if a0 <> a1 then bad "Update argument differs from spec"
                | ODelete _, ObsUnit, _ -> ()
                | OSearch _, ObsFound a0, [RFound a1] -> if a0 <> a1 then bad "Search result differs from spec"
                | OSearch _, ObsFound None, [] -> ()
                | OSearch _, ObsFound (Some _), [] -> bad "early Search LP with a present key"
                | _ -> bad "unexpected LP shape"));
            (match ret with
             | [RFound a1] -> (match Hashtbl.find_opt lpdone w with
                               | Some (Some (ObsFound a0)) -> if a0 <> a1 then bad "Search returns other than linearized"
                               | _ -> bad "Search returned without LP")
             | [RUnit] | [RArg _] -> (match Hashtbl.find_opt lpdone w with Some (Some _) -> () | _ -> bad "call returned without LP")
             | _ -> ())
          end;
          if check_gi && not (c_nogap_b st') then (incr pcbad; if !pcbad <= 3 then Printf.printf "PCBAD(nogap) case %s after step of %d: %s\n" c.id w (state st' (tids c)));
          if check_gi && not (c_scan_lo_b st') then (incr pcbad; if !pcbad <= 3 then Printf.printf "PCBAD(scanlo) case %s after step of %d: %s\n" c.id w (state st' (tids c)));
          if check_gi && not (c_all_pc_ok3_b st') then (incr pcbad; if !pcbad <= 3 then Printf.printf "PCBAD(ok3) case %s after step of %d: %s\n" c.id w (state st' (tids c)));
          if check_gi && not (c_all_pc_ok2_b st') then (incr pcbad; if !pcbad <= 3 then Printf.printf "PCBAD(adj) case %s after step of %d: %s\n" c.id w (state st' (tids c)));
          if check_gi && not (c_all_pc_ok_b c.order st') then (incr pcbad; if !pcbad <= 3 then Printf.printf "PCBAD case %s after step of %d: %s\n" c.id w (state st' (tids c)));
          if c.dumpsteps then Printf.fprintf oc "STEP %d acq=%s ev=%s en=%s | %s\n" w a ev en (state st' (tids c))
          else Printf.fprintf oc "STEP %d acq=%s ev=%s en=%s\n" w a ev en
        | Blocked -> dead := true; Printf.fprintf oc "STEP %d MODEL-BLOCKED\n" w
        | NoThread -> dead := true; Printf.fprintf oc "STEP %d MODEL-NOTHREAD\n" w
        | Finished -> dead := true; Printf.fprintf oc "STEP %d MODEL-FINISHED\n" w
        | Crash p -> dead := true; Printf.fprintf oc "STEP %d MODEL-CRASH %s\n" w (panic_str p)
      end
      else if starts "DEADLOCK" then begin
        let en = List.filter (fun t -> c_enabled c.order st (nat_of_int t)) (tids c) in
        if en <> [] then Printf.fprintf oc "MODEL-NOT-DEADLOCKED enabled=%s\n" (String.concat "," (List.map string_of_int en))
        else begin
          let alive = List.filter_map (fun ti -> let t = nat_of_int ti in
            if c_unfinished st t then Some (Printf.sprintf "w%d->%s" ti (pend_str st t (List.assoc t st.ths))) else None) (tids c) in
          Printf.fprintf oc "DEADLOCK %s | %s\n" (String.concat "," alive) (state st (tids c))
        end
      end
      else if starts "TRUNCATED" then output_string oc "TRUNCATED\n"
      else if starts "END " then
        Printf.fprintf oc "END %s held=%d\n" (state st (tids c)) (List.length st.lk + (match st.tm with Some _ -> 1 | None -> 0))
      else if starts "RES " then begin
        let w = int_of_string (List.nth (String.split_on_char ' ' line) 1) in
        let th = List.assoc (nat_of_int w) st.ths in
        Printf.fprintf oc "RES %d %s\n" w (String.concat ";" (List.rev_map res_str th.results))
      end
      else if starts "ENUM-TRUNCATED" then output_string oc (line ^ "\n")
    | _ -> ()
  done with End_of_file -> ());
  close_out oc;
  Printf.printf "model_ci_steps %d model_gi_failures %d model_pc_failures %d lin_failures %d lps %d\n" !gisteps !gibad !pcbad !linbad !lpcount

(* ConcProps.v — lock-table theorems restated for every state reachable under every schedule of every
   finite set of client programs started on the empty tree (a sequential prefix that builds an initial tree
   is the schedule in which one thread runs first). *)
From Coq Require Import List.
From GB Require Import Model Conc LockInv LockProof.
Import ListNotations.

Section R.
Variables (K V : Type) (ltb : K -> K -> bool).

Definition reach (order : nat) (progs : list (tid * list (cop K V))) (sched : list tid) : st K V :=
  fst (exec ltb order (init_st progs) sched).

Lemma reach_inv2 order progs sched : NoDup (map fst progs) -> lock_inv2 K V (reach order progs sched).
Proof. intros H. apply lock_inv2_exec. apply lock_inv2_init. exact H. Qed.

Theorem reach_returns_hold_nothing order progs sched me s' acq ev r :
  NoDup (map fst progs) ->
  cstep ltb order (reach order progs sched) me = Stepped s' acq ev -> In (EReturn r) ev ->
  held_by me (lk s') = [] /\ tm s' <> Some me.
Proof. intros H Hs Hr. eapply returns_hold_nothing; eauto. apply reach_inv2; exact H. Qed.

Theorem reach_cursor_holds_one_leaf order progs sched t th :
  NoDup (map fst progs) -> get_thread t (ths (reach order progs sched)) = Some th ->
  let s := reach order progs sched in
  (forall leaf i n acc, tpc th = CurRest leaf i n acc -> held_by t (lk s) = [leaf] /\ tm s <> Some t) /\
  (forall leaf nxt n acc, tpc th = CurWantNext leaf nxt n acc -> held_by t (lk s) = [leaf] /\ tm s <> Some t) /\
  (forall o leaf m i, tpc th = UpdCallback o leaf m i -> held_by t (lk s) = [leaf] /\ tm s <> Some t).
Proof. intros H Hg. apply cursor_holds_one_leaf; [apply lock_inv2_lock_inv, reach_inv2; exact H|exact Hg]. Qed.

Theorem reach_footprint order progs sched t th :
  NoDup (map fst progs) -> get_thread t (ths (reach order progs sched)) = Some th ->
  pc_is_delete (tpc th) = false ->
  let s := reach order progs sched in
  length (held_by t (lk s)) <= 2 /\
  (tm s = Some t -> held_by t (lk s) = [] \/ exists o l r, tpc th = InsWantRootRight o l r /\ held_by t (lk s) = [l]).
Proof. intros H Hg Hd. apply footprint_at_most_two; [apply lock_inv2_lock_inv, reach_inv2; exact H|exact Hg|exact Hd]. Qed.

Theorem reach_exclusive order progs sched x t1 t2 :
  NoDup (map fst progs) ->
  In x (held_by t1 (lk (reach order progs sched))) -> In x (held_by t2 (lk (reach order progs sched))) -> t1 = t2.
Proof. intros H. apply locks_exclusive. apply lock_inv2_lock_inv, reach_inv2; exact H. Qed.

(* a finished execution (every thread idle with an empty program) holds no lock at all *)
Theorem reach_idle_holds_nothing order progs sched t th :
  NoDup (map fst progs) -> get_thread t (ths (reach order progs sched)) = Some th ->
  tpc th = Idle -> held_by t (lk (reach order progs sched)) = [] /\ tm (reach order progs sched) <> Some t.
Proof.
  intros H Hg Hp. pose proof (lock_inv2_lock_inv _ _ _ (reach_inv2 order progs sched H)) as Hi.
  destruct Hi as (_ & _ & _ & _ & Hth). destruct (Hth t th Hg) as (_ & Hperm & Htm).
  rewrite Hp in Hperm, Htm. simpl in Hperm, Htm. split.
  - apply Permutation.Permutation_nil. apply Permutation.Permutation_sym. exact Hperm.
  - intros E. apply Htm in E. discriminate.
Qed.

End R.
Arguments reach {K V}.

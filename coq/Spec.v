(* Spec.v — the ideal map the tree is supposed to be: an association list kept strictly ascending by key.
   Short on purpose; laws about it are proved in SpecLaws.v. *)
From GB Require Export Base.

Set Implicit Arguments.

Section Spec.
Variables (K V : Type) (ltb : K -> K -> bool).

Definition map_t := list (K * V).

(* the value bound to the key equivalent to k *)
Fixpoint lookup (k : K) (m : map_t) : option V :=
  match m with
  | [] => None
  | (k', v) :: r => if ltb k k' then None else if ltb k' k then lookup k r else Some v
  end.

(* Insert / Update: bind k to f (current value). An existing entry keeps its stored key. *)
Fixpoint put (k : K) (f : option V -> V) (m : map_t) : map_t :=
  match m with
  | [] => [(k, f None)]
  | (k', v) :: r =>
    if ltb k k' then (k, f None) :: m
    else if ltb k' k then (k', v) :: put k f r
    else (k', f (Some v)) :: r
  end.

Fixpoint erase (k : K) (m : map_t) : map_t :=
  match m with
  | [] => []
  | (k', v) :: r =>
    if ltb k k' then m
    else if ltb k' k then (k', v) :: erase k r
    else r
  end.

(* what a scan from k must yield: the entries whose key is not below k *)
Fixpoint from (k : K) (m : map_t) : map_t :=
  match m with
  | [] => []
  | (k', v) :: r => if ltb k' k then from k r else m
  end.

Definition step_spec (m : map_t) (o : op K V) : map_t * obs V :=
  match o with
  | OInsert k v => (put k (fun _ => v) m, ObsUnit)
  | OUpdate k f => (put k f m, ObsArg (lookup k m))
  | ODelete k => (erase k m, ObsUnit)
  | OSearch k => (m, ObsFound (lookup k m))
  end.

Fixpoint run_spec (m : map_t) (ops : list (op K V)) : map_t * list (obs V) :=
  match ops with
  | [] => (m, [])
  | o :: ops' => let '(m', x) := step_spec m o in let '(m'', xs) := run_spec m' ops' in (m'', x :: xs)
  end.
End Spec.

(* CrossCheckConc.v — evaluates the CONCURRENT model inside Coq (vm_compute) on schedules the Go harness executed,
   with the implementation's final structure and results embedded: cross-checks the OCaml extraction of Conc.v
   against the kernel's own evaluation.  The harness writes a cases file that imports this one. *)
From Coq Require Import ZArith List Bool PeanoNat.
From GB Require Import Model Instances Conc CrossCheck.
Import ListNotations.

Inductive xcop := XCI (k : HK) (v : HV) | XCU (k : HK) (d : Z) | XCD (k : HK) | XCS (k : HK) | XCC (k : HK) (n : nat).
Definition xcop_to (o : xcop) : cop HK HV :=
  match o with
  | XCI k v => CInsert k v | XCU k d => CUpdate k (add_cb d) | XCD k => CDelete k | XCS k => CSearch k | XCC k n => CScan k n
  end.

Inductive xores := XRUnit | XRArg (a : option HV) | XRFound (a : option HV) | XRPairs (l : list (HK * HV)).
Definition xores_eqb (a : ores HK HV) (b : xores) : bool :=
  match a, b with
  | RUnit, XRUnit => true
  | RArg _ x, XRArg y => ohv_eqb x y
  | RFound _ x, XRFound y => ohv_eqb x y
  | RPairs x, XRPairs y => pairs_eqb x y
  | _, _ => false
  end.
Fixpoint results_eqb (a : list (ores HK HV)) (b : list xores) : bool :=
  match a, b with
  | [], [] => true
  | x :: a', y :: b' => xores_eqb x y && results_eqb a' b'
  | _, _ => false
  end.

(* run the initial history sequentially as thread 0 (bounded by fuel), then install the client threads *)
Fixpoint run_init (fuel : nat) (order : nat) (s : st HK HV) : option (st HK HV) :=
  match fuel with
  | 0 => None
  | S f => match cstep hltb order s 0 with
           | Stepped s' _ _ => run_init f order s'
           | Finished => Some s
           | _ => None end
  end.

Record xccase := { xc_id : nat; xc_order : nat; xc_init : list xcop; xc_progs : list (tid * list xcop);
                   xc_sched : list tid; xc_final : htree; xc_results : list (tid * list xores) }.

Definition xc_ok (c : xccase) : bool :=
  match run_init (200 * (1 + length (xc_init c))) (xc_order c) (init_st [(0, map xcop_to (xc_init c))]) with
  | None => false
  | Some s0 =>
    let s1 := {| tr := tr s0; tm := tm s0; lk := lk s0; fresh := fresh s0;
                 ths := map (fun p => (fst p, {| prog := map xcop_to (snd p); tpc := Idle; results := [] |})) (xc_progs c) |} in
    let '(s2, h) := exec hltb (xc_order c) s1 (xc_sched c) in
    (length h =? length (xc_sched c)) &&
    tree_eqb (erase_ids (tr s2)) (xc_final c) &&
    forallb (fun e => match get_thread (fst e) (ths s2) with
                      | Some th => results_eqb (rev (results th)) (snd e)
                      | None => false end) (xc_results c)
  end.

Definition xc_mismatches (cs : list xccase) : list nat :=
  flat_map (fun c => if xc_ok c then [] else [xc_id c]) cs.

(* LINc_Blocks.v — program-counter succession facts of [cstep], read off its atomic blocks ([SoloBase.blk]):
   which pc / events can follow which pc.  Used by LINc_Proof.v for the ghost bookkeeping of the
   linearization-point proof.  No invariant is needed for any of these facts. *)
From Coq Require Import List Bool PeanoNat Lia.
From GB Require Import LinDef SoloBase.
Import ListNotations.

Section Blocks.
Variables (K V : Type) (ltb : K -> K -> bool).
Notation itree := (itree K V).
Notation pc := (pc K V).
Notation st := (st K V).
Notation out := (out K V).
Notation thread := (thread K V).
Notation cop := (cop K V).
Notation event := (event K V).
Notation ores := (ores K V).

(* ---- kinds of calls ---- *)
Definition is_ups (o : cop) : bool := match o with CInsert _ _ | CUpdate _ _ => true | _ => false end.
Definition is_del (o : cop) : bool := match o with CDelete _ => true | _ => false end.
Definition is_sea (o : cop) : bool := match o with CSearch _ | CScan _ _ => true | _ => false end.

(* the pc [p] belongs to an execution of the call [o] *)
Definition pc_for (p : pc) (o : cop) : Prop :=
  match p with
  | Idle => False
  | WantT o' | WantRoot o' _ => o' = o
  | InsWantRootRight o' _ _ | InsWantChild o' _ _ _ | InsWantSplitRight o' _ _ _ | UpdCallback o' _ _ _ =>
    o' = o /\ is_ups o = true
  | SeaWantChild o' _ _ => o' = o /\ is_sea o = true
  | DelWantLeft o' _ | DelWantChild o' _ | DelWantRight o' _ => o' = o /\ is_del o = true
  | CurRest _ _ _ _ | CurWantNext _ _ _ _ => is_scan o = true
  end.

Definition is_dwr (p : pc) : bool := match p with DelWantRight _ _ => true | _ => false end.

(* ---- shapes of the event list of one step ---- *)
Definition quiet (ev : list event) : Prop := ev = [] \/ exists e, ev = [EPair e].
Definition retev (ev : list event) (r : ores) : Prop := ev = [EReturn r] \/ ev = [EScanEnd; EReturn r].

Lemma quiet_returns ev : quiet ev -> returns ev = None.
Proof. intros [->|[e ->]]; reflexivity. Qed.
Lemma quiet_invokes ev : quiet ev -> invokes ev = false.
Proof. intros [->|[e ->]]; reflexivity. Qed.
Lemma quiet_returned ev : quiet ev -> returned ev = false.
Proof. intros [->|[e ->]]; reflexivity. Qed.
Lemma quiet_noret ev r : quiet ev -> ~ In (EReturn r) ev.
Proof. intros [->|[e ->]] H; simpl in H; [tauto|]. destruct H as [H|H]; [discriminate H|tauto]. Qed.
Lemma retev_returns ev r : retev ev r -> returns ev = Some r.
Proof. intros [->| ->]; reflexivity. Qed.
Lemma retev_invokes ev r : retev ev r -> invokes ev = false.
Proof. intros [->| ->]; reflexivity. Qed.
Lemma retev_returned ev r : retev ev r -> returned ev = true.
Proof. intros [->| ->]; reflexivity. Qed.
Lemma retev_in ev r r' : retev ev r -> In (EReturn r') ev -> r' = r.
Proof.
  intros [->| ->] H; simpl in H.
  - destruct H as [H|H]; [inversion H; reflexivity|tauto].
  - destruct H as [H|[H|H]]; [discriminate H|inversion H; reflexivity|tauto].
Qed.

(* the outcome of an atomic block run for the call [o]: either the call continues (no return event, the new pc
   still belongs to [o]) or it returns (exactly one return event, the new pc is Idle; a Delete returns unit) *)
Inductive outcome (o : cop) (out : out) : Prop :=
| OCont : quiet (oev out) -> pc_for (opc out) o -> outcome o out
| ORet r : retev (oev out) r -> opc out = Idle -> (is_del o = true -> r = RUnit) -> outcome o out.

(* ---- the helper blocks ---- *)
Lemma ins_descend_outcome o n (t : itree) l fr tmx (out : out) :
  ins_descend ltb o n t l fr tmx = Ok out -> is_ups o = true -> outcome o out.
Proof.
  intros H Ho. unfold ins_descend, mk in H.
  crunch H; inversion H; subst; clear H;
    first [ eapply ORet; [left; reflexivity|reflexivity|intros X; discriminate X]
          | apply OCont; [left; reflexivity|simpl; auto] ].
Qed.

Lemma sea_descend_outcome o n (t : itree) l fr tmx (out : out) :
  sea_descend ltb o n t l fr tmx = Ok out -> is_sea o = true -> outcome o out.
Proof.
  intros H Ho. unfold sea_descend, mk in H.
  crunch H; inversion H; subst; clear H; try discriminate Ho;
    first [ eapply ORet; [left; reflexivity|reflexivity|intros X; discriminate X]
          | apply OCont; [left; reflexivity|simpl; auto] ].
Qed.

(* from an internal node a Delete goes on to wait for the left sibling or for the child *)
Lemma del_descend_succ (o : cop) stk n (t : itree) p :
  del_descend ltb o stk n t = Ok p -> exists stk', p = DelWantLeft o stk' \/ p = DelWantChild o stk'.
Proof.
  intros H. unfold del_descend in H. crunch H; inversion H; subst; clear H.
  eexists. destruct (0 <? a); [left|right]; reflexivity.
Qed.
Lemma del_descend_internal (o : cop) stk n (t : itree) p :
  del_descend ltb o stk n t = Ok p -> is_leaf_at n t = false.
Proof. intros H. unfold del_descend in H. unfold is_leaf_at. crunch H; reflexivity. Qed.

(* unwinding ends the call (one return event, pc Idle) or parks at DelWantRight (no event) *)
Lemma unwind_succ order fuel : forall (o : cop) stk small right (t : itree) l fr tmx (out : out),
  unwind order fuel o stk small right t l fr tmx = Ok out ->
  (oev out = [EReturn RUnit] /\ opc out = Idle) \/ (oev out = [] /\ exists stk', opc out = DelWantRight o stk').
Proof.
  induction fuel as [|fuel IH]; intros o stk small right t l fr tmx out H; simpl in H; [discriminate|].
  destruct stk as [|f rest]; [unfold mk in H; inversion H; left; split; reflexivity|].
  destruct (negb small); [eapply IH; eauto|].
  destruct (Conc.find (fp f) t) as [[?|pi cs]|]; try discriminate H.
  destruct ((fidx f + 1 <? length cs) && match right with None => true | Some _ => false end).
  - unfold mk in H. inversion H. right. split; [reflexivity|]. eexists. reflexivity.
  - destruct (irebalance order f t) as [[t' small']|]; [cbn [bind] in H|discriminate H]. eapply IH; eauto.
Qed.

Lemma unwind_outcome order fuel (o : cop) stk small right (t : itree) l fr tmx (out : out) :
  unwind order fuel o stk small right t l fr tmx = Ok out -> is_del o = true -> outcome o out.
Proof.
  intros H Ho. destruct (unwind_succ _ _ _ _ _ _ _ _ _ _ _ H) as [[E1 E2]|[E1 [stk' E2]]].
  - eapply ORet; [left; exact E1|exact E2|reflexivity].
  - apply OCont; [left; exact E1|rewrite E2; simpl; auto].
Qed.

Ltac blk_top HB :=
  match type of HB with
  | bind ?e _ = Ok _ => let E := fresh "HE" in destruct e eqn:E; [cbn [bind] in HB; inversion HB; subst; clear HB | discriminate HB]
  end.

Opaque unwind.

(* ---- the step from Idle: an invocation ---- *)
Lemma blk_idle order (s : st) me th tg (r : out) :
  tpc th = Idle -> blk ltb order s me th tg = Ok (Some r) ->
  exists o rest, prog th = o :: rest /\ opc r = WantT o /\ oev r = [EInvoke o].
Proof.
  intros Hp H. unfold blk in H. cbv zeta in H. rewrite Hp in H.
  destruct (prog th) as [|o rest]; [discriminate H|].
  unfold mk in H. cbn [bind] in H. inversion H. exists o, rest. auto.
Qed.

(* ---- every other step: the call continues or returns ---- *)
Lemma blk_outcome order (s : st) me th tg (r : out) o :
  pc_for (tpc th) o -> blk ltb order s me th tg = Ok (Some r) -> outcome o r.
Proof.
  intros Hop H. unfold blk in H. cbv zeta in H.
  destruct (tpc th) as [ |o0|o0 r0|o0 lft rgt|o0 p c index|o0 p c r0|o0 leaf mode index|o0 p c|o0 stk|o0 stk|o0 stk|leaf i n acc|leaf nxt n acc];
    simpl in Hop.
  - destruct Hop.
  - subst o0. unfold mk in H. cbn [bind] in H. inversion H. apply OCont; [left; reflexivity|reflexivity].
  - subst o0. blk_top H. destruct o as [k v|k f|k|k|k cnt].
    + destruct (isplit order (fresh s) (tr s)) as [[l1 r1]|].
      * crunch HE; try (eapply ins_descend_outcome; [eassumption|reflexivity]).
        unfold mk in HE. inversion HE. apply OCont; [left; reflexivity|simpl; auto].
      * eapply ins_descend_outcome; [eassumption|reflexivity].
    + destruct (isplit order (fresh s) (tr s)) as [[l1 r1]|].
      * crunch HE; try (eapply ins_descend_outcome; [eassumption|reflexivity]).
        unfold mk in HE. inversion HE. apply OCont; [left; reflexivity|simpl; auto].
      * eapply ins_descend_outcome; [eassumption|reflexivity].
    + destruct (tr s) as [i nx es|i cs].
      * unfold mk in HE. crunch HE. inversion HE. eapply ORet; [left; reflexivity|reflexivity|reflexivity].
      * unfold mk in HE. crunch HE. inversion HE. subst. apply OCont; [left; reflexivity|]. cbn [opc].
        destruct (del_descend_succ _ _ _ _ _ E) as [stk' [-> | ->]]; simpl; auto.
    + eapply sea_descend_outcome; [eassumption|reflexivity].
    + eapply sea_descend_outcome; [eassumption|reflexivity].
  - destruct Hop as [-> Hu]. blk_top H. eapply ins_descend_outcome; eauto.
  - destruct Hop as [-> Hu]. blk_top H. unfold mk in HE.
    crunch HE; try (eapply ins_descend_outcome; eassumption).
    inversion HE; subst. apply OCont; [left; reflexivity|simpl; auto].
  - destruct Hop as [-> Hu]. blk_top H. eapply ins_descend_outcome; eauto.
  - destruct Hop as [-> Hu]. blk_top H. unfold mk in HE.
    crunch HE; inversion HE; (eapply ORet; [left; reflexivity|reflexivity|intros X; discriminate X]).
  - destruct Hop as [-> Hu]. blk_top H. eapply sea_descend_outcome; eauto.
  - destruct Hop as [-> Hu]. blk_top H. unfold mk in HE. crunch HE; inversion HE.
    apply OCont; [left; reflexivity|simpl; auto].
  - destruct Hop as [-> Hu]. blk_top H. unfold mk in HE.
    crunch HE; try (eapply unwind_outcome; eassumption).
    inversion HE; subst. apply OCont; [left; reflexivity|]. cbn [opc].
    destruct (del_descend_succ _ _ _ _ _ E4) as [stk' [-> | ->]]; simpl; auto.
  - destruct Hop as [-> Hu]. blk_top H. crunch HE. eapply unwind_outcome; eauto.
  - blk_top H. unfold mk in HE. crunch HE; inversion HE;
      first [ eapply ORet; [left; reflexivity|reflexivity|intros X; destruct o; discriminate]
            | eapply ORet; [right; reflexivity|reflexivity|intros X; destruct o; discriminate]
            | apply OCont; [left; reflexivity|exact Hop]
            | apply OCont; [right; eexists; reflexivity|exact Hop] ].
  - blk_top H. unfold mk in HE. crunch HE; inversion HE.
    apply OCont; [right; eexists; reflexivity|exact Hop].
Qed.

(* ---- Delete: where the leaf delete (the linearization point) happens, and what follows it ---- *)
Definition del_lp (p : pc) (acq : option (option id)) (t : itree) : bool :=
  match p, acq with
  | WantRoot _ _, _ => is_leaf_at (nid t) t
  | DelWantChild _ _, Some (Some c) => is_leaf_at c t
  | _, _ => false
  end.

Lemma is_leaf_at_root (t : itree) : is_leaf_at (nid t) t = match t with ILeaf _ _ _ => true | INode _ _ => false end.
Proof. unfold is_leaf_at. destruct t; simpl; rewrite Nat.eqb_refl; reflexivity. Qed.

(* a Delete step returns only at or after its leaf delete; if it does not return, it is parked at DelWantRight
   exactly when the leaf delete is done (now or earlier) *)
Lemma blk_del order (s : st) me th tg (r : out) o :
  is_del o = true -> pc_for (tpc th) o -> blk ltb order s me th tg = Ok (Some r) ->
  (returns (oev r) <> None -> del_lp (tpc th) tg (tr s) || is_dwr (tpc th) = true) /\
  (returns (oev r) = None -> is_dwr (opc r) = del_lp (tpc th) tg (tr s) || is_dwr (tpc th)).
Proof.
  intros Hd Hop H. unfold blk in H. cbv zeta in H.
  destruct (tpc th) as [ |o0|o0 r0|o0 lft rgt|o0 p c index|o0 p c r0|o0 leaf mode index|o0 p c|o0 stk|o0 stk|o0 stk|leaf i n acc|leaf nxt n acc];
    simpl in Hop.
  - destruct Hop.
  - subst o0. unfold mk in H. cbn [bind] in H. inversion H. simpl. split; [intros X; exfalso; apply X; reflexivity|reflexivity].
  - subst o0. blk_top H. destruct o as [k v|k f|k|k|k cnt]; try discriminate Hd.
    unfold del_lp. rewrite is_leaf_at_root.
    destruct (tr s) as [i nx es|i cs].
    + unfold mk in HE. crunch HE. inversion HE. simpl. split; [reflexivity|intros X; discriminate X].
    + unfold mk in HE. crunch HE. inversion HE. subst. cbn [opc oev]. split; [intros X; exfalso; apply X; reflexivity|].
      intros _. destruct (del_descend_succ _ _ _ _ _ E) as [stk' [-> | ->]]; reflexivity.
  - destruct Hop as [_ Hu]. destruct o; discriminate.
  - destruct Hop as [_ Hu]. destruct o; discriminate.
  - destruct Hop as [_ Hu]. destruct o; discriminate.
  - destruct Hop as [_ Hu]. destruct o; discriminate.
  - destruct Hop as [_ Hu]. destruct o; discriminate.
  - destruct Hop as [-> Hu]. blk_top H. unfold mk in HE. crunch HE; inversion HE. simpl.
    split; [intros X; exfalso; apply X; reflexivity|reflexivity].
  - destruct Hop as [-> Hu]. blk_top H. unfold mk in HE. crunch HE.
    + (* leaf *)
      assert (L : del_lp (DelWantChild o (f :: l)) (Some (Some i)) (tr s) = true)
        by (unfold del_lp, is_leaf_at; rewrite E2; reflexivity).
      rewrite L. simpl. split; [reflexivity|].
      destruct (unwind_succ _ _ _ _ _ _ _ _ _ _ _ HE) as [[X1 X2]|[X1 [stk' X2]]]; rewrite X1, X2; simpl.
      * intros X; discriminate X.
      * reflexivity.
    + (* internal *)
      assert (L : del_lp (DelWantChild o (f :: l)) (Some (Some i)) (tr s) = false)
        by (unfold del_lp, is_leaf_at; rewrite E2; reflexivity).
      rewrite L. inversion HE; subst. cbn [opc oev]. split; [intros X; exfalso; apply X; reflexivity|].
      intros _. destruct (del_descend_succ _ _ _ _ _ E4) as [stk' [-> | ->]]; reflexivity.
  - destruct Hop as [-> Hu]. blk_top H. crunch HE. simpl. split; [reflexivity|].
    destruct (unwind_succ _ _ _ _ _ _ _ _ _ _ _ HE) as [[X1 X2]|[X1 [stk' X2]]]; rewrite X1, ?X2; simpl.
    + intros X; discriminate X.
    + reflexivity.
  - destruct o; discriminate.
  - destruct o; discriminate.
Qed.

(* from WantT the thread goes to WantRoot, with no event *)
Lemma blk_wantT order (s : st) me th tg (r : out) o :
  tpc th = WantT o -> blk ltb order s me th tg = Ok (Some r) -> opc r = WantRoot o (nid (tr s)) /\ oev r = [].
Proof.
  intros Hp H. unfold blk in H. cbv zeta in H. rewrite Hp in H. unfold mk in H. cbn [bind] in H. inversion H. auto.
Qed.

Transparent unwind.

End Blocks.

Arguments is_ups {K V} o.
Arguments is_del {K V} o.
Arguments is_sea {K V} o.
Arguments pc_for {K V} p o.
Arguments is_dwr {K V} p.
Arguments quiet {K V} ev.
Arguments retev {K V} ev r.
Arguments outcome {K V} o out.
Arguments del_lp {K V} p acq t.

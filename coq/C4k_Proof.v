(* C4k_Proof.v — property C04, completeness of a scan at KEY level:
   a key kx that is not below the start key k of the scan and that is PRESENT (bound to some value, the value may be
   changed by concurrent Updates/Inserts) in every state of the life of the scan call, from its invocation to the step
   that reports EScanEnd, is reported: some pair whose key is equivalent to kx is among the pairs the scan returns.

   Route: the invariant of C4b_Proof.v (Life / desc_ok / land_step / Life_step) restated for a KEY instead of a pair.
   desc_ok, pendingx depend on x only through fst x, and below_lo / the order facts respect key equivalence; at each
   step the pair-level lemmas (desc_ok_step, land_step, B3_successor, B5_first_general, B4_end_after, B4_end_first) are applied to the
   pair x that carries the key IN THE CURRENT STATE (it may be a different pair in each state).
   Second part: every pair the scan has yielded was emitted by a step of the observed run at which it was in abs
   (or had been yielded before the observed run started) — [yield_origin]; combined: [scan_complete_key_stored]. *)
From Coq Require Import List Bool Lia PeanoNat Sorted Permutation.
From GB Require Import Model Spec Inv ListLemmas SearchProof TreeLemmas Conc GI LockInv LockProof CInv CInv3
  CIDef SoloBase GIa1_Ctx LINa_Lists LINa_Ctx LINa_Abs Lin LinDef LINa_Prog LINc_Proof PCc_Proof ASM_Proof UpdLemmas
  C4_Lists C4_Geom C4_Blocks C4_Inv C4_Proof C4_Trace C4b_Geom C4b_Blocks C4b_Proof.
Import ListNotations.

Section P.
Variables (K V : Type) (ltb : K -> K -> bool).
Hypothesis HS : SWO ltb.
Variable order : nat.
Hypothesis Heven : Nat.even order = true.
Hypothesis H4 : 4 <= order.
Notation itree := (itree K V).
Notation pc := (pc K V).
Notation cop := (cop K V).
Notation st := (st K V).
Notation out := (out K V).
Notation thread := (thread K V).
Notation event := (event K V).
Notation BigInv := (BigInv K V ltb order).
Notation CurInv := (CurInv ltb order).
Notation along := (along K V ltb order).
Notation negtrans := (negtrans K ltb HS).
Notation ltle := (ltle K ltb HS).
Notation lelt := (lelt K ltb HS).

(* ------------------------------------------------------------------------------------------------ *)
(* key equivalence                                                                                   *)
(* ------------------------------------------------------------------------------------------------ *)
Lemma eqv_split (a b : K) : eqvb ltb a b = true -> ltb a b = false /\ ltb b a = false.
Proof. unfold eqvb. rewrite andb_true_iff, !negb_true_iff. tauto. Qed.

Lemma eqv_join (a b : K) : ltb a b = false -> ltb b a = false -> eqvb ltb a b = true.
Proof. intros H1 H2. unfold eqvb. rewrite H1, H2. reflexivity. Qed.

(* a key equivalent to kx is bound in the abstract map of s *)
Definition key_stored (kx : K) (s : st) : Prop :=
  exists x, In x (abs ltb s) /\ eqvb ltb (fst x) kx = true.

Lemma below_lo_eqv (a b : K) n (t : itree) :
  eqvb ltb a b = true -> below_lo ltb a n t = false -> below_lo ltb b n t = false.
Proof.
  intros He Hlo. apply eqv_split in He. destruct He as [_ Hba].
  exact (below_lo_mono K V ltb HS a b n t Hlo Hba).
Qed.

(* ------------------------------------------------------------------------------------------------ *)
(* the descent invariant, for a key                                                                  *)
(* ------------------------------------------------------------------------------------------------ *)
Definition desc_okk (kx : K) (me : tid) (s : st) : Prop :=
  forall th o pn c, get_thread me (ths s) = Some th -> tpc th = SeaWantChild o pn c ->
    ltb kx (key_of o) = false -> below_lo ltb kx pn (tr s) = false.

Lemma desc_okk_pair (kx : K) (x : K * V) me s :
  eqvb ltb (fst x) kx = true -> desc_okk kx me s -> desc_ok ltb x me s.
Proof.
  intros He Hd th o pn c Hg Hpc Hxo. pose proof (eqv_split _ _ He) as [Hxk Hkx].
  apply (below_lo_eqv kx (fst x)).
  - apply eqv_join; assumption.
  - apply (Hd th o pn c Hg Hpc). exact (negtrans _ _ _ Hkx Hxo).
Qed.

Lemma desc_pair_okk (kx : K) (x : K * V) me s :
  eqvb ltb (fst x) kx = true -> desc_ok ltb x me s -> desc_okk kx me s.
Proof.
  intros He Hd th o pn c Hg Hpc Hko. pose proof (eqv_split _ _ He) as [Hxk Hkx].
  apply (below_lo_eqv (fst x) kx pn (tr s) He).
  apply (Hd th o pn c Hg Hpc). exact (negtrans _ _ _ Hxk Hko).
Qed.

Theorem desc_okk_step (s s' : st) t acq ev me (kx : K) :
  BigInv s -> key_stored kx s -> desc_okk kx me s -> cstep ltb order s t = Stepped s' acq ev -> desc_okk kx me s'.
Proof.
  intros HB (x & Hx & He) Hd Hc.
  apply (desc_pair_okk kx x me s' He).
  apply (desc_ok_step K V ltb HS order Heven H4 s s' t acq ev me x HB Hx); [|exact Hc].
  apply (desc_okk_pair kx x me s He Hd).
Qed.

(* ------------------------------------------------------------------------------------------------ *)
(* the invariant of the whole life of the scan call, for a key                                       *)
(* ------------------------------------------------------------------------------------------------ *)
(* a pair with a key equivalent to kx has been yielded, or the last pair yielded is strictly below kx *)
Definition coveredk (kx : K) (acc : list (K * V)) : Prop :=
  (exists y, In y acc /\ eqvb ltb (fst y) kx = true) \/
  (exists e1 r, acc = e1 :: r /\ ltb (fst e1) kx = true).

(* nothing yielded yet and kx is not below the lower bound of the leaf where NewScanner landed *)
Definition pendingk (kx : K) (s : st) (p : pc) : Prop :=
  yielded p = [] /\ exists leaf, cur_leaf p = Some leaf /\ below_lo ltb kx leaf (tr s) = false.

Definition LifeK (me : tid) (k : K) (cnt : nat) (kx : K) (s : st) : Prop :=
  desc_okk kx me s /\
  exists th, get_thread me (ths s) = Some th /\ hd_error (prog th) = Some (CScan k cnt) /\
    (is_cur (tpc th) = true -> coveredk kx (yielded (tpc th)) \/ pendingk kx s (tpc th)).

Lemma LifeK_start (s : st) me th k cnt (kx : K) :
  get_thread me (ths s) = Some th -> hd_error (prog th) = Some (CScan k cnt) ->
  is_seapc (tpc th) = false -> is_cur (tpc th) = false -> LifeK me k cnt kx s.
Proof.
  intros Hg Hpr Hns Hnc. split.
  - intros th1 o pn c Hg1 Hpc1 _. rewrite Hg in Hg1. inversion Hg1; subst th1. rewrite Hpc1 in Hns. discriminate.
  - exists th. split; [exact Hg|]. split; [exact Hpr|]. intros X. rewrite X in Hnc. discriminate.
Qed.

(* after yielding a pair e that is not above the pair x currently carrying the key, kx is still covered *)
Lemma coveredk_next (kx : K) (x e : K * V) acc :
  eqvb ltb (fst x) kx = true -> ltb (fst x) (fst e) = false -> coveredk kx (e :: acc).
Proof.
  intros He Hxe. pose proof (eqv_split _ _ He) as [Hxk Hkx].
  destruct (ltb (fst e) kx) eqn:E.
  - right. exists e, acc. auto.
  - left. exists e. split; [left; reflexivity|]. apply eqv_join; [exact E|].
    exact (negtrans _ _ _ Hkx Hxe).
Qed.

Theorem LifeK_step (s s' : st) t acq ev me k cnt (kx : K) :
  CurInv s -> ltb kx k = false -> key_stored kx s -> LifeK me k cnt kx s ->
  cstep ltb order s t = Stepped s' acq ev -> scan_head me k cnt s' -> LifeK me k cnt kx s'.
Proof.
  intros HI Hkk Hks (Hd & th & Hg & Hpr & Hph) Hc (th' & Hg' & Hpr'). pose proof HI as [HB _].
  split; [exact (desc_okk_step s s' t acq ev me kx HB Hks Hd Hc)|].
  destruct Hks as (x & Hx & He). pose proof (eqv_split _ _ He) as [Hxk Hkx].
  assert (Hxk0 : ltb (fst x) k = false) by exact (negtrans _ _ _ Hxk Hkk).
  exists th'. split; [exact Hg'|]. split; [exact Hpr'|]. intros Hcur'.
  destruct (Nat.eq_dec me t) as [->|Hne].
  - destruct (is_cur (tpc th)) eqn:Hcur.
    + (* a step of the cursor *)
      destruct (cur_own_inv K V ltb order s s' t acq ev th th' Hc Hg Hcur Hg' Hcur') as (Htr & Hprog & Hcase).
      destruct Hcase as [(Eev & Hy & Hl)|(e & Eev & Hy)].
      * destruct (Hph eq_refl) as [Hcov|(Hy0 & leaf & Hleaf & Hlo)].
        -- left. rewrite Hy. exact Hcov.
        -- right. split; [rewrite Hy; exact Hy0|]. exists leaf. rewrite Hl, Htr. auto.
      * left. rewrite Hy.
        assert (Hin : In (EPair e) ev) by (rewrite Eev; simpl; auto).
        destruct (Hph eq_refl) as [[(y & Hin0 & Hey)|(e1 & r & Eacc & Hlt)]|(Hy0 & leaf & Hleaf & Hlo)].
        -- left. exists y. split; [right; exact Hin0|exact Hey].
        -- destruct (B3_successor K V ltb HS order s s' t acq ev e th e1 r HI Hc Hin Hg Eacc) as [_ (_ & _ & Hsucc)].
           apply (coveredk_next kx x e _ He). apply (Hsucc x Hx).
           exact (ltle _ _ _ Hlt Hxk).
        -- destruct (B5_first_general K V ltb HS order H4 s s' t acq ev e th leaf k cnt HI Hc Hin Hg Hleaf Hy0 Hpr)
             as (_ & _ & Hleast).
           rewrite Hy0. apply (coveredk_next kx x e _ He). apply (Hleast x Hx Hxk0).
           apply (below_lo_eqv kx (fst x)); [apply eqv_join; assumption|exact Hlo].
    + (* the landing *)
      destruct (land_step K V ltb HS order s s' t acq ev th th' k cnt x HB Hx
                  (desc_okk_pair kx x t s He Hd) Hc Hg Hpr Hxk0 Hcur Hg' Hcur') as (_ & Hy & leaf & Hleaf & Hlo).
      right. split; [exact Hy|]. exists leaf. split; [exact Hleaf|]. exact (below_lo_eqv (fst x) kx leaf (tr s') He Hlo).
  - (* a step of another thread *)
    destruct (step_threads K V ltb order s s' t acq ev Hc) as (_ & _ & _ & _ & _ & _ & _ & Hoth).
    pose proof Hg' as Hg2. rewrite (Hoth me Hne), Hg in Hg2. inversion Hg2; subst th'.
    destruct (Hph Hcur') as [Hcov|(Hy0 & leaf & Hleaf & Hlo)]; [left; exact Hcov|].
    right. split; [exact Hy0|]. exists leaf. split; [exact Hleaf|].
    rewrite (cursor_lo_stable K V ltb order Heven H4 s s' t acq ev me th th leaf kx HI Hc Hg Hg' Hleaf Hleaf).
    exact Hlo.
Qed.

Theorem LifeK_exec : forall sched s me k cnt kx,
  CurInv s -> ltb kx k = false ->
  along (fun s1 => key_stored kx s1 /\ scan_head me k cnt s1) s sched ->
  LifeK me k cnt kx s -> LifeK me k cnt kx (fst (exec ltb order s sched)).
Proof.
  induction sched as [|t r IH]; intros s me k cnt kx HI Hkk Hal HL; simpl in *; [exact HL|].
  destruct Hal as [[Hx Hsc] Hal].
  destruct (cstep ltb order s t) as [ | | |s' acq ev|p] eqn:Hc; try exact HL.
  pose proof (along_here _ _ _ _ _ _ _ Hal) as [_ Hsc'].
  specialize (IH s' me k cnt kx (CurInv_step K V ltb HS order Heven H4 _ _ _ _ _ HI Hc) Hkk Hal
                 (LifeK_step s s' t acq ev me k cnt kx HI Hkk Hx HL Hc Hsc')).
  destruct (exec ltb order s' r) as [s'' h]. exact IH.
Qed.

(* what LifeK says when the scan reports its end; the list acc is the list the cursor has yielded *)
Lemma LifeK_end (s s2 : st) me k cnt kx acq ev :
  CurInv s -> ltb kx k = false -> key_stored kx s -> LifeK me k cnt kx s ->
  cstep ltb order s me = Stepped s2 acq ev -> In EScanEnd ev ->
  exists th acc x, get_thread me (ths s) = Some th /\ yielded (tpc th) = acc /\
    In x acc /\ eqvb ltb (fst x) kx = true /\ ev = [EScanEnd; EReturn (RPairs (rev acc))].
Proof.
  intros HI Hkk (x & Hx & He) (_ & th & Hg & Hpr & Hph) Hc Hin.
  pose proof (eqv_split _ _ He) as [Hxk Hkx].
  destruct (end_step_inv K V ltb order s s2 me acq ev Hc Hin) as (acc & es & Hes & Eev).
  destruct Hes as [th1 leaf i n' acc j es Hg1 Hpc Hf Hn]. rewrite Hg in Hg1. inversion Hg1; subst th1.
  rewrite Hpc in Hph. cbn [yielded is_cur] in Hph.
  destruct (Hph eq_refl) as [[(y & Hin0 & Hey)|(e1 & r & Eacc & Hlt)]|(Hy0 & _)].
  - exists th, acc, y. split; [exact Hg|]. split; [rewrite Hpc; reflexivity|]. auto.
  - exfalso. assert (Hy : yielded (tpc th) = e1 :: r) by (rewrite Hpc; exact Eacc).
    pose proof (B4_end_after K V ltb HS order s s2 me acq ev th e1 r HI Hc Hin Hg Hy x Hx) as Hno.
    rewrite (ltle _ _ _ Hlt Hxk) in Hno. discriminate.
  - exfalso. assert (Hy : yielded (tpc th) = []) by (rewrite Hpc; exact Hy0).
    destruct (B4_end_first K V ltb HS order H4 s s2 me acq ev th HI Hc Hin Hg Hy) as (k1 & cnt1 & Hpr1 & Hall).
    rewrite Hpr in Hpr1. inversion Hpr1; subst k1 cnt1.
    pose proof (Hall x Hx) as Hlt. rewrite (negtrans _ _ _ Hxk Hkk) in Hlt. discriminate.
Qed.

(* ------------------------------------------------------------------------------------------------ *)
(* where the yielded pairs come from                                                                 *)
(* ------------------------------------------------------------------------------------------------ *)
(* Q holds of some step (s1 --t--> s1', events ev) of the run of sched from s *)
Fixpoint sometime (Q : st -> tid -> st -> list event -> Prop) (s : st) (sched : list tid) : Prop :=
  match sched with
  | [] => False
  | t :: r => match cstep ltb order s t with
              | Stepped s' _ ev => Q s t s' ev \/ sometime Q s' r
              | _ => False
              end
  end.

(* thread me emits the pair y, and y is in the abstract map at that step (which does not change the map) *)
Definition yields (me : tid) (y : K * V) (s1 : st) (t : tid) (s1' : st) (ev : list event) : Prop :=
  t = me /\ ev = [EPair y] /\ In y (abs ltb s1') /\ abs ltb s1' = abs ltb s1.

(* the pairs thread me's cursor has yielded ([] when me is not a cursor) *)
Definition Y (me : tid) (s : st) : list (K * V) :=
  match get_thread me (ths s) with Some th => yielded (tpc th) | None => [] end.

Lemma yielded_notcur (p : pc) : is_cur p = false -> yielded p = [].
Proof. destruct p; simpl; try reflexivity; discriminate. Qed.

Lemma Y_step (s s' : st) t acq ev me y :
  CurInv s -> cstep ltb order s t = Stepped s' acq ev -> In y (Y me s') ->
  In y (Y me s) \/ yields me y s t s' ev.
Proof.
  intros HI Hc Hin. pose proof HI as [HB _]. unfold Y in *.
  destruct (Nat.eq_dec me t) as [->|Hne].
  - destruct (own_step K V ltb order s s' t acq ev Hc) as (th & r & th' & Hg & Hblk & Hg' & Hpc' & Htr & Eev).
    rewrite Hg' in Hin. rewrite Hg.
    destruct (is_cur (tpc th')) eqn:Hcur'; [|rewrite (yielded_notcur _ Hcur') in Hin; destruct Hin].
    destruct (is_cur (tpc th)) eqn:Hcur.
    + destruct (cur_own_inv K V ltb order s s' t acq ev th th' Hc Hg Hcur Hg' Hcur') as (_ & _ & Hcase).
      destruct Hcase as [(_ & Hy & _)|(e & Eev' & Hy)].
      * left. rewrite <- Hy. exact Hin.
      * rewrite Hy in Hin. destruct Hin as [<-|Hin]; [|left; exact Hin].
        right. assert (Hine : In (EPair e) ev) by (rewrite Eev'; simpl; auto).
        split; [reflexivity|]. split; [exact Eev'|]. split.
        -- exact (B1_stored K V ltb HS order s s' t acq ev e HI Hc Hine).
        -- exact (pair_step_abs K V ltb HS order s s' t acq ev e HI Hc Hine).
    + (* the landing: nothing yielded *)
      exfalso.
      destruct (blk_class K V ltb order s t th acq r Hblk)
        as [Hpl
           |o n k1 cnt1 j nx es i Hpc Ho Hf Hi Hopc Hotr Hoev
           |leaf i n' acc j nx es e Hpc Hf Hn Hopc Hotr Hoev
           |leaf i n' acc j y0 es Hpc Hf Hn Hopc Hotr Hoev
           |leaf i n' acc j es Hpc Hf Hn Hopc Hotr Hoev
           |leaf nxt n acc j nx e es' Hpc Hf Hopc Hotr Hoev];
        try (rewrite Hpc in Hcur; discriminate Hcur).
      * destruct Hpl as [Hpl _]. rewrite <- Hpc', Hcur' in Hpl. discriminate.
      * rewrite Hpc', Hopc in Hin. destruct Hin.
  - destruct (step_threads K V ltb order s s' t acq ev Hc) as (_ & _ & _ & _ & _ & _ & _ & Hoth).
    rewrite (Hoth me Hne) in Hin. left. exact Hin.
Qed.

(* every pair yielded at the end of a run was yielded before the run, or was emitted by a step of the run at which
   it was stored *)
Theorem yield_origin : forall sched s me y,
  CurInv s -> In y (Y me (fst (exec ltb order s sched))) ->
  In y (Y me s) \/ sometime (yields me y) s sched.
Proof.
  induction sched as [|t r IH]; intros s me y HI Hin; simpl in *; [left; exact Hin|].
  destruct (cstep ltb order s t) as [ | | |s' acq ev|p] eqn:Hc; try (left; exact Hin).
  pose proof (CurInv_step K V ltb HS order Heven H4 _ _ _ _ _ HI Hc) as HI'.
  assert (Hin' : In y (Y me (fst (exec ltb order s' r)))).
  { destruct (exec ltb order s' r) as [s'' h]. exact Hin. }
  destruct (IH s' me y HI' Hin') as [H|H]; [|right; right; exact H].
  destruct (Y_step s s' t acq ev me y HI Hc H) as [H1|H1]; [left; exact H1|right; left; exact H1].
Qed.

(* ------------------------------------------------------------------------------------------------ *)
(* key-level completeness                                                                            *)
(* ------------------------------------------------------------------------------------------------ *)
Theorem scan_complete_key_life : forall sched s me k cnt kx s2 acq ev,
  CurInv s -> ltb kx k = false ->
  along (fun s1 => key_stored kx s1 /\ scan_head me k cnt s1) s sched ->
  LifeK me k cnt kx s ->
  cstep ltb order (fst (exec ltb order s sched)) me = Stepped s2 acq ev -> In EScanEnd ev ->
  exists acc x, In x acc /\ eqvb ltb (fst x) kx = true /\ ev = [EScanEnd; EReturn (RPairs (rev acc))] /\
    (In x (Y me s) \/ sometime (yields me x) s sched).
Proof.
  intros sched s me k cnt kx s2 acq ev HI Hkk Hal HL Hc Hin.
  destruct (LifeK_end (fst (exec ltb order s sched)) s2 me k cnt kx acq ev) as (th & acc & x & Hg & Hy & Hx & He & Eev); auto.
  - apply (CurInv_exec K V ltb HS order Heven H4). exact HI.
  - exact (proj1 (along_end _ _ _ _ _ _ _ Hal)).
  - apply LifeK_exec; assumption.
  - exists acc, x. split; [exact Hx|]. split; [exact He|]. split; [exact Eev|].
    apply (yield_origin sched s me x HI). unfold Y. rewrite Hg, Hy. exact Hx.
Qed.

(* KEY-LEVEL COMPLETENESS.  s0: any state satisfying the invariant of reachable states in which thread me is about to
   invoke CScan k cnt.  If a key equivalent to kx (kx not below k) is bound in every state of the run s0 --sched--> s1,
   thread me does not return from that call during the run, and me's next step reports the end of the scan, then a
   pair x whose key is equivalent to kx is among the pairs that step returns; moreover x was emitted (EPair x) by a
   step of me within the run, and x was in the abstract map at that step. *)
Theorem scan_complete_key_stored : forall (s0 : st) me k cnt th sched kx s2 acq ev,
  CurInv s0 ->
  get_thread me (ths s0) = Some th -> tpc th = Idle -> hd_error (prog th) = Some (CScan k cnt) ->
  ltb kx k = false ->
  along (fun s1 => key_stored kx s1 /\ calling me (prog th) s1) s0 sched ->
  cstep ltb order (fst (exec ltb order s0 sched)) me = Stepped s2 acq ev -> In EScanEnd ev ->
  exists acc x, In x acc /\ eqvb ltb (fst x) kx = true /\ ev = [EScanEnd; EReturn (RPairs (rev acc))] /\
    sometime (yields me x) s0 sched.
Proof.
  intros s0 me k cnt th sched kx s2 acq ev HI Hg Hpc Hpr Hkk Hal Hc Hin.
  destruct (scan_complete_key_life sched s0 me k cnt kx s2 acq ev HI Hkk) as (acc & x & Hx & He & Eev & Hor); auto.
  - eapply (along_impl K V ltb order); [|exact Hal]. intros s [Hx (th1 & Hg1 & Hp1)]. split; [exact Hx|].
    exists th1. split; [exact Hg1|]. rewrite Hp1. exact Hpr.
  - apply (LifeK_start s0 me th k cnt kx Hg Hpr); rewrite Hpc; reflexivity.
  - exists acc, x. split; [exact Hx|]. split; [exact He|]. split; [exact Eev|].
    destruct Hor as [Hor|Hor]; [|exact Hor]. unfold Y in Hor. rewrite Hg, Hpc in Hor. destruct Hor.
Qed.

Theorem scan_complete_key : forall (s0 : st) me k cnt th sched kx s2 acq ev,
  CurInv s0 ->
  get_thread me (ths s0) = Some th -> tpc th = Idle -> hd_error (prog th) = Some (CScan k cnt) ->
  ltb kx k = false ->
  along (fun s1 => key_stored kx s1 /\ calling me (prog th) s1) s0 sched ->
  cstep ltb order (fst (exec ltb order s0 sched)) me = Stepped s2 acq ev -> In EScanEnd ev ->
  exists acc x, In x acc /\ eqvb ltb (fst x) kx = true /\ ev = [EScanEnd; EReturn (RPairs (rev acc))].
Proof.
  intros s0 me k cnt th sched kx s2 acq ev HI Hg Hpc Hpr Hkk Hal Hc Hin.
  destruct (scan_complete_key_stored s0 me k cnt th sched kx s2 acq ev HI Hg Hpc Hpr Hkk Hal Hc Hin)
    as (acc & x & Hx & He & Eev & _).
  exists acc, x. auto.
Qed.

(* the prefix yielded so far is complete at key level: at any cursor state of the life of the call a pair with a key
   equivalent to kx has been yielded, or the last pair yielded is strictly below kx, or nothing has been yielded *)
Theorem scan_prefix_key : forall (s0 : st) me k cnt th sched kx th1,
  CurInv s0 ->
  get_thread me (ths s0) = Some th -> tpc th = Idle -> hd_error (prog th) = Some (CScan k cnt) ->
  ltb kx k = false ->
  along (fun s1 => key_stored kx s1 /\ calling me (prog th) s1) s0 sched ->
  get_thread me (ths (fst (exec ltb order s0 sched))) = Some th1 -> is_cur (tpc th1) = true ->
  (exists y, In y (yielded (tpc th1)) /\ eqvb ltb (fst y) kx = true) \/
  (exists e1 r, yielded (tpc th1) = e1 :: r /\ ltb (fst e1) kx = true) \/
  yielded (tpc th1) = [].
Proof.
  intros s0 me k cnt th sched kx th1 HI Hg Hpc Hpr Hkk Hal Hg1 Hcur1.
  assert (HL : LifeK me k cnt kx (fst (exec ltb order s0 sched))).
  { apply LifeK_exec; auto.
    - eapply (along_impl K V ltb order); [|exact Hal]. intros s [Hx (th2 & Hg2 & Hp2)]. split; [exact Hx|].
      exists th2. split; [exact Hg2|]. rewrite Hp2. exact Hpr.
    - apply (LifeK_start s0 me th k cnt kx Hg Hpr); rewrite Hpc; reflexivity. }
  destruct HL as (_ & th2 & Hg2 & _ & Hph). rewrite Hg1 in Hg2. inversion Hg2; subst th2.
  destruct (Hph Hcur1) as [[H|H]|[H _]]; auto.
Qed.

End P.

Arguments key_stored {K V} ltb kx s.
Arguments desc_okk {K V} ltb kx me s.
Arguments coveredk {K V} ltb kx acc.
Arguments pendingk {K V} ltb kx s p.
Arguments LifeK {K V} ltb me k cnt kx s.
Arguments sometime {K V} ltb order Q s sched.
Arguments yields {K V} ltb me y s1 t s1' ev.
Arguments Y {K V} me s.

Check desc_okk_step.
Check LifeK_step.
Check LifeK_exec.
Check yield_origin.
Check scan_complete_key_life.
Check scan_complete_key_stored.
Check scan_complete_key.
Check scan_prefix_key.
Print Assumptions scan_complete_key_stored.
Print Assumptions scan_complete_key.
Print Assumptions scan_prefix_key.

(* O2b_TB.v — the textbook forms of linearizability (TB_Proof / TB_HW / TB_Counter) for every EVEN order >= 2
   (in particular ORDER 2) and client programs WITHOUT Delete.
   Section Gen: the theorems of TB_Proof.v, TB_HW.v (Section HWFinal) and TB_Counter.v restated over the single
   hypothesis  Hlin : forall sched me, lin_step_ok ltb order (iexec ltb order (iinit progs) sched) me
   (the only fact about the B+tree that those files use; there it is Final.final_linearizable, which needs 4 <= order).
   Section O2: Hlin discharged with O2_Proof.o2_linearizable.  See the summary at the end of the file. *)
From Coq Require Import List Bool PeanoNat Lia.
From GB Require Import Model Inv Spec SpecLaws LinDef SoloBase LINc_Blocks LINc_Proof LockProof OCCc_Base
  TB_Trace TB_Link TB_Proof TB_HW TB_Counter O2_NoDel O2_Proof.
Import ListNotations.

(* ================================================================================================ *)
(* generic over the per-step statement                                                               *)
(* ================================================================================================ *)
Section Gen.
Variables (K V : Type) (ltb : K -> K -> bool).
Hypothesis HS : SWO ltb.
Variable order : nat.
Variable progs : list (tid * list (cop K V)).
Hypothesis Hnd : NoDup (map fst progs).
Hypothesis Hlin : forall sched me, lin_step_ok ltb order (iexec ltb order (iinit progs) sched) me.

Notation irec := (irec K V).
Notation P0 := (P0 K V progs).

Lemma g_TInv_init : TInv P0 [] (iinit progs).
Proof.
  split; [apply Good_nil|]. split; [|split].
  - intros t th Ht Hp. exfalso. apply Hp. exact (get_thread_init K V progs t th Ht).
  - intros t th Ht. cbn [lps_thread flat_map app]. unfold TB_Proof.P0. cbn [iinit is_st] in Ht. rewrite Ht.
    rewrite todo_idle; [reflexivity|]. exact (get_thread_init K V progs t th Ht).
  - split; [intros r []|]. split; [|intros r []].
    intros m t po x H. apply at_lt in H. simpl in H. exfalso. clear - H. lia.
Qed.

Lemma g_TInv_reach sched :
  TInv P0 (itrace ltb order (iinit progs) sched) (iexec ltb order (iinit progs) sched).
Proof.
  change (itrace ltb order (iinit progs) sched) with ([] ++ itrace ltb order (iinit progs) sched).
  apply itrace_iexec_inv; [exact Hlin|exact g_TInv_init].
Qed.

Theorem g_legal_history sched :
  let tr := itrace ltb order (iinit progs) sched in
  let lps := flat_map (fun r => match r_lp r with Some p => [p] | None => [] end) tr in
  snd (run_spec ltb [] (map fst lps)) = map snd lps /\
  fst (run_spec ltb [] (map fst lps)) = abs ltb (is_st (iexec ltb order (iinit progs) sched)).
Proof.
  intros tr lps. pose proof (run_spec_trace K V ltb order sched (iinit progs)) as H.
  change (is_abs (iinit progs)) with (@nil (K * V)) in H.
  change (lps_of (itrace ltb order (iinit progs) sched)) with lps in H.
  rewrite H. cbn [fst snd]. split; [reflexivity|].
  apply iexec_abs; [exact Hlin|reflexivity].
Qed.

Theorem g_completed_calls sched :
  let tr := itrace ltb order (iinit progs) sched in
  forall n t res, at_ tr n (is_ret t res) -> completed tr n t res.
Proof. intros tr. exact (proj1 (g_TInv_reach sched)). Qed.

Theorem g_program_order sched t p : In (t, p) progs ->
  let tr := itrace ltb order (iinit progs) sched in
  let final := is_st (iexec ltb order (iinit progs) sched) in
  (exists rest, map_spec p = lps_thread t tr ++ rest) /\
  (unfinished final t = false -> lps_thread t tr = map_spec p).
Proof.
  intros Hin tr final. destruct (g_TInv_reach sched) as (_ & _ & HSeq & _).
  destruct (iexec_keeps_thread K V ltb order t sched (iinit progs) _ (init_thread K V progs Hnd t p Hin)) as (th & Ht).
  specialize (HSeq t th Ht). rewrite (P0_progs K V progs Hnd t p Hin) in HSeq. fold tr in HSeq. split.
  - eexists. exact HSeq.
  - intros Hun. unfold unfinished in Hun. fold final in Ht. rewrite Ht in Hun.
    destruct (tpc th) eqn:Hp; try discriminate Hun. destruct (prog th) eqn:Hpr; [|discriminate Hun].
    rewrite todo_idle in HSeq by exact Hp. rewrite Hpr in HSeq. cbn [map_spec flat_map] in HSeq.
    rewrite app_nil_r in HSeq. symmetry. exact HSeq.
Qed.

Theorem g_lp_in_call sched :
  let tr := itrace ltb order (iinit progs) sched in
  forall m t po x, at_ tr m (is_lp t po x) -> lp_ok_at tr m t po.
Proof. intros tr. destruct (g_TInv_reach sched) as (_ & _ & _ & _ & H & _). exact H. Qed.

Theorem g_trace_shape sched r : In r (itrace ltb order (iinit progs) sched) -> rec_shape r.
Proof. destruct (g_TInv_reach sched) as (_ & _ & _ & _ & _ & H). apply H. Qed.

Lemma g_trace_tids sched r : In r (itrace ltb order (iinit progs) sched) -> In (r_tid r) (map fst progs).
Proof.
  intros Hin. destruct (g_TInv_reach sched) as (_ & _ & _ & HT & _). destruct (HT r Hin) as (th & Hth).
  rewrite iexec_st in Hth. cbn [iinit is_st] in Hth.
  apply OCCc_Base.get_thread_in in Hth. apply (in_map fst) in Hth. cbn [fst] in Hth.
  assert (E : forall sched0 (s : st K V), map fst (ths (fst (exec ltb order s sched0))) = map fst (ths s)).
  { induction sched0 as [|u q IH]; intros s; simpl; [reflexivity|].
    destruct (cstep ltb order s u) as [ | | |s' acq ev|pp] eqn:Hc; try reflexivity.
    specialize (IH s'). destruct (exec ltb order s' q) as [s'' h]. cbn [fst] in *. rewrite IH.
    exact (ASM_Proof.step_thread_ids K V ltb order s s' u acq ev Hc). }
  rewrite E in Hth. unfold init_st in Hth. cbn [ths] in Hth. rewrite map_map in Hth. exact Hth.
Qed.

(* ---- TB_HW ---- *)
Theorem g_history_linearizable sched :
  linearizable ltb (history_of (itrace ltb order (iinit progs) sched)).
Proof.
  destruct (g_TInv_reach sched) as (HG & _ & _ & _ & HLp & HSh).
  apply trace_linearizable; try assumption.
  exact (proj1 (g_legal_history sched)).
Qed.

Theorem g_history_linearizable_witness sched :
  let tr := itrace ltb order (iinit progs) sched in
  let S := witness tr in
  ops_of_history (history_of tr) S /\ complete_in (history_of tr) S /\ seq_legal ltb S /\
  respects_rt (history_of tr) S /\
  fst (run_spec ltb [] (map s_op S)) = abs ltb (is_st (iexec ltb order (iinit progs) sched)).
Proof.
  intros tr S.
  destruct (g_TInv_reach sched) as (HG & _ & _ & _ & HLp & HSh).
  destruct (g_legal_history sched) as [L1 L2].
  fold tr in HG, HLp, HSh.
  split; [apply witness_ops; assumption|]. split; [apply witness_complete; assumption|].
  split; [apply witness_legal; exact L1|]. split; [apply witness_rt; assumption|].
  rewrite <- L2. f_equal. f_equal. unfold S, witness.
  change (flat_map (fun r : irec => match r_lp r with Some p => [p] | None => [] end)
            (itrace ltb order (iinit progs) sched)) with (lps_of tr).
  rewrite <- (witness_lps_gen K V tr tr 0). rewrite !map_map. reflexivity.
Qed.

Theorem g_history_well_formed sched :
  well_formed (history_of (itrace ltb order (iinit progs) sched)).
Proof.
  intros t. set (tr := itrace ltb order (iinit progs) sched).
  assert (HW : WFinv K V tr (iexec ltb order (iinit progs) sched)).
  { change tr with ([] ++ itrace ltb order (iinit progs) sched).
    apply (WF_exec K V ltb order P0).
    - exact Hlin.
    - exact g_TInv_init.
    - intros u th Hu. simpl. rewrite (LockProof.get_thread_init K V progs u th Hu). reflexivity. }
  destruct (get_thread t (ths (is_st (iexec ltb order (iinit progs) sched)))) as [th|] eqn:Ht.
  - apply alternates_status. fold (proj K V t (history_of tr)). fold (status K V t (history_of tr)).
    rewrite (HW t th Ht). discriminate.
  - destruct (g_TInv_reach sched) as (_ & _ & _ & HT & _). fold tr in HT.
    assert (E : forall T : list irec, (forall r, In r T -> r_tid r <> t) ->
                filter (fun e : hev K V => hev_tid e =? t) (history_of T) = []).
    { induction T as [|r T IH]; intros HT'; [reflexivity|]. unfold history_of. simpl. rewrite filter_app.
      fold (history_of T). rewrite IH by (intros q Hq; apply HT'; right; exact Hq).
      rewrite app_nil_r. apply (proj_other K V). apply HT'. left. reflexivity. }
    rewrite E; [exact I|]. intros r Hr Er. destruct (HT r Hr) as (th & Hth). rewrite Er, Ht in Hth. discriminate Hth.
Qed.

(* ---- TB_Counter ---- *)
Section GCounter.
Variable k : K.
Variable inc : option V -> V.
Notation is_writer := (is_writer K V ltb k).
Notation writers := (writers K V ltb progs k).
Hypothesis Hops : forall t p o, In (t, p) progs -> In o p -> is_writer o = true -> exists k', o = CUpdate k' inc.

Theorem g_counter sched :
  let final := is_st (iexec ltb order (iinit progs) sched) in
  (forall t, In t (map fst progs) -> unfinished final t = false) ->
  lookup ltb k (abs ltb final) = Nat.iter writers (fun a => Some (inc a)) None.
Proof.
  intros final Hfin.
  destruct (g_legal_history sched) as [_ Hfinal].
  fold final in Hfinal. rewrite <- Hfinal.
  set (tr := itrace ltb order (iinit progs) sched) in *.
  change (flat_map (fun r : irec => match r_lp r with Some p => [p] | None => [] end) tr) with (lps_of tr).
  assert (Hthr : forall t p, In (t, p) progs -> lps_thread t tr = map_spec p).
  { intros t p Hin. apply (proj2 (g_program_order sched t p Hin)).
    apply Hfin. apply in_map_iff. exists (t, p). split; [reflexivity|exact Hin]. }
  assert (Htid : forall r, In r tr -> In (r_tid r) (map fst progs)).
  { intros r Hr. exact (g_trace_tids sched r Hr). }
  rewrite (run_spec_lookup K V ltb HS k inc).
  - cbn [lookup]. f_equal. unfold cw.
    rewrite (count_by_thread K V (wop ltb k) (map fst progs) Hnd tr Htid).
    rewrite map_map. unfold TB_Counter.writers. rewrite <- writers_sum. f_equal. apply map_ext_in.
    intros [t p] Hin. cbn [fst snd]. rewrite (Hthr t p Hin). apply cw_map_spec.
  - exact I.
  - intros po Hpo Hw. apply in_map_iff in Hpo. destruct Hpo as (q & <- & Hq).
    destruct (lps_of_thread K V tr q Hq) as (r & Hr & Hin).
    pose proof (Htid r Hr) as Ht. apply in_map_iff in Ht. destruct Ht as ([t p] & Et & Htp). cbn [fst] in Et.
    rewrite <- Et, (Hthr t p Htp) in Hin. destruct (in_map_spec _ _ _ _ Hin) as (o & Ho & Hso).
    rewrite (wop_spec K V ltb k o _ Hso) in Hw. destruct (Hops t p o Htp Ho Hw) as (k' & ->).
    cbn [spec_op] in Hso. inversion Hso. eauto.
Qed.
End GCounter.

End Gen.

Section GenNat.
Variables (K : Type) (ltb : K -> K -> bool).
Hypothesis HS : SWO ltb.
Variable order : nat.
Variable progs : list (tid * list (cop K nat)).
Hypothesis Hnd : NoDup (map fst progs).
Hypothesis Hlin : forall sched me, lin_step_ok ltb order (iexec ltb order (iinit progs) sched) me.
Variable k : K.
Hypothesis Hall : forall t p o, In (t, p) progs -> In o p -> o = CUpdate k plus_one.

Theorem g_counter_nat sched :
  let final := is_st (iexec ltb order (iinit progs) sched) in
  let N := length (concat (map snd progs)) in
  (forall t, In t (map fst progs) -> unfinished final t = false) ->
  lookup ltb k (abs ltb final) = match N with 0 => None | S _ => Some N end.
Proof.
  intros final N Hfin.
  assert (Hops : forall t p o, In (t, p) progs -> In o p -> is_writer K nat ltb k o = true ->
                   exists k', o = CUpdate k' plus_one).
  { intros t p o Htp Ho _. exists k. exact (Hall t p o Htp Ho). }
  pose proof (g_counter K nat ltb HS order progs Hnd Hlin k plus_one Hops sched Hfin) as H.
  fold final in H. rewrite H. clear H.
  assert (E : writers K nat ltb progs k = N).
  { unfold writers, N. f_equal. apply filter_all. intros o Ho.
    apply in_concat in Ho. destruct Ho as (p & Hp & Ho). apply in_map_iff in Hp. destruct Hp as ([t p'] & <- & Htp).
    rewrite (Hall t p' o Htp Ho). cbn [is_writer]. unfold eqvb. rewrite (SearchProof.ltb_irrefl K ltb HS k). reflexivity. }
  rewrite E. apply iter_plus_one.
Qed.
End GenNat.

(* ================================================================================================ *)
(* the closed theorems: even order >= 2, no Delete                                                   *)
(* ================================================================================================ *)
Section O2.
Variables (K V : Type) (ltb : K -> K -> bool).
Hypothesis HS : SWO ltb.
Variable order : nat.
Hypothesis Heven : Nat.even order = true.
Hypothesis H2 : 2 <= order.
Variable progs : list (tid * list (cop K V)).
Hypothesis Hnd : NoDup (map fst progs).
Hypothesis Hno : no_delete_progs K V progs.

Lemma reach_lin_o2 : forall sched me, lin_step_ok ltb order (iexec ltb order (iinit progs) sched) me.
Proof. intros sched me. exact (o2_linearizable K V ltb HS order Heven H2 progs Hnd Hno sched me). Qed.

Theorem history_linearizable_order2_no_delete sched :
  linearizable ltb (history_of (itrace ltb order (iinit progs) sched)).
Proof. exact (g_history_linearizable K V ltb order progs reach_lin_o2 sched). Qed.

Theorem history_linearizable_witness_order2_no_delete sched :
  let tr := itrace ltb order (iinit progs) sched in
  let S := witness tr in
  ops_of_history (history_of tr) S /\ complete_in (history_of tr) S /\ seq_legal ltb S /\
  respects_rt (history_of tr) S /\
  fst (run_spec ltb [] (map s_op S)) = abs ltb (is_st (iexec ltb order (iinit progs) sched)).
Proof. exact (g_history_linearizable_witness K V ltb order progs reach_lin_o2 sched). Qed.

Theorem history_well_formed_order2_no_delete sched :
  well_formed (history_of (itrace ltb order (iinit progs) sched)).
Proof. exact (g_history_well_formed K V ltb order progs reach_lin_o2 sched). Qed.

Theorem legal_history_order2_no_delete sched :
  let tr := itrace ltb order (iinit progs) sched in
  let lps := flat_map (fun r => match r_lp r with Some p => [p] | None => [] end) tr in
  snd (run_spec ltb [] (map fst lps)) = map snd lps /\
  fst (run_spec ltb [] (map fst lps)) = abs ltb (is_st (iexec ltb order (iinit progs) sched)).
Proof. exact (g_legal_history K V ltb order progs reach_lin_o2 sched). Qed.

Theorem completed_calls_order2_no_delete sched :
  let tr := itrace ltb order (iinit progs) sched in
  forall n t res, at_ tr n (is_ret t res) -> completed tr n t res.
Proof. exact (g_completed_calls K V ltb order progs reach_lin_o2 sched). Qed.

Theorem program_order_order2_no_delete sched t p : In (t, p) progs ->
  let tr := itrace ltb order (iinit progs) sched in
  let final := is_st (iexec ltb order (iinit progs) sched) in
  (exists rest, map_spec p = lps_thread t tr ++ rest) /\
  (unfinished final t = false -> lps_thread t tr = map_spec p).
Proof. exact (g_program_order K V ltb order progs Hnd reach_lin_o2 sched t p). Qed.

Theorem lp_in_call_order2_no_delete sched :
  let tr := itrace ltb order (iinit progs) sched in
  forall m t po x, at_ tr m (is_lp t po x) -> lp_ok_at tr m t po.
Proof. exact (g_lp_in_call K V ltb order progs reach_lin_o2 sched). Qed.

Theorem trace_shape_order2_no_delete sched r : In r (itrace ltb order (iinit progs) sched) -> rec_shape r.
Proof. exact (g_trace_shape K V ltb order progs reach_lin_o2 sched r). Qed.

(* the counter corollary (TB_Counter.counter): every call that writes (a key equivalent to) k is an Update with
   callback inc; once all threads have finished, the value of k is inc folded once per such call from "absent" *)
Theorem counter_order2_no_delete (k : K) (inc : option V -> V) :
  (forall t p o, In (t, p) progs -> In o p -> is_writer K V ltb k o = true -> exists k', o = CUpdate k' inc) ->
  forall sched,
  let final := is_st (iexec ltb order (iinit progs) sched) in
  (forall t, In t (map fst progs) -> unfinished final t = false) ->
  lookup ltb k (abs ltb final) = Nat.iter (writers K V ltb progs k) (fun a => Some (inc a)) None.
Proof. intros Hops sched. exact (g_counter K V ltb HS order progs Hnd reach_lin_o2 k inc Hops sched). Qed.

End O2.

(* the instance V = nat, every call is  CUpdate k plus_one  (Properties2.C05_counter_plus_one); the hypothesis
   no_delete_progs follows from Hall *)
Theorem counter_plus_one_order2 (K : Type) (ltb : K -> K -> bool) (HS : SWO ltb) (order : nat)
  (Heven : Nat.even order = true) (H2 : 2 <= order) (progs : list (tid * list (cop K nat)))
  (Hnd : NoDup (map fst progs)) (k : K)
  (Hall : forall t p o, In (t, p) progs -> In o p -> o = CUpdate k plus_one) sched :
  let final := is_st (iexec ltb order (iinit progs) sched) in
  let N := length (concat (map snd progs)) in
  (forall t, In t (map fst progs) -> unfinished final t = false) ->
  lookup ltb k (abs ltb final) = match N with 0 => None | S _ => Some N end.
Proof.
  assert (Hno : no_delete_progs K nat progs).
  { intros t p o Htp Ho k' E. rewrite (Hall t p o Htp Ho) in E. discriminate E. }
  exact (g_counter_nat K ltb HS order progs Hnd (reach_lin_o2 K nat ltb HS order Heven H2 progs Hnd Hno) k Hall sched).
Qed.

(* SUMMARY (agent O2b).  Everything in this file is proved; no axioms.  Nothing remains open for goals (1) and (2).
   Premises of the closed theorems: SWO ltb, Nat.even order = true, 2 <= order, NoDup (map fst progs),
   no_delete_progs K V progs.  The statements are those of TB_HW.history_linearizable(_witness) / history_well_formed,
   TB_Proof.legal_history / completed_calls / program_order / lp_in_call / trace_shape and TB_Counter.counter /
   counter_nat with "4 <= order" replaced by "2 <= order" + no Delete (counter_plus_one_order2 needs no separate
   no-Delete hypothesis: every call is CUpdate k plus_one).
   Section Gen (names prefixed g_): the same theorems for ANY order and programs, given only
     Hlin : forall sched me, lin_step_ok ltb order (iexec ltb order (iinit progs) sched) me
   (TB_Proof.TInv_init carries a spurious 4 <= order picked up by lia; g_TInv_init re-proves it without). *)

Check history_linearizable_order2_no_delete.
Check history_linearizable_witness_order2_no_delete.
Check history_well_formed_order2_no_delete.
Check legal_history_order2_no_delete.
Check completed_calls_order2_no_delete.
Check program_order_order2_no_delete.
Check lp_in_call_order2_no_delete.
Check trace_shape_order2_no_delete.
Check counter_order2_no_delete.
Check counter_plus_one_order2.
Print Assumptions history_linearizable_order2_no_delete.
Print Assumptions history_linearizable_witness_order2_no_delete.
Print Assumptions history_well_formed_order2_no_delete.
Print Assumptions legal_history_order2_no_delete.
Print Assumptions program_order_order2_no_delete.
Print Assumptions counter_order2_no_delete.
Print Assumptions counter_plus_one_order2.

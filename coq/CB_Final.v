(* CB_Final.v — property C05: "Update(k, f) calls f exactly once, before Update returns, with the value currently
   stored for k and true, or with nil and false when k is absent, and stores f's result as the value of k".
   For every key order that is a strict weak order, every even order >= 4, every finite set of client programs with
   distinct thread ids and EVERY schedule (every reachable state).  See the summary at the end of the file.
   Files: CB_Blocks.v (blocks, step classification), CB_Count.v (counting), CB_Final.v (this file). *)
From Coq Require Import List Bool PeanoNat Lia.
From GB Require Import Model Inv Spec SpecLaws SearchScanProof Conc GI CIDef LinDef Lin SoloBase
  LINc_Blocks LINc_Proof ASM_Proof Final TERM_Blocks TERM_Proof CB_Blocks CB_Count.
From GB Require LINa_Prog LINb_Prog OCCc_Base OCCc_Blocks.
Import ListNotations.

Section Final.
Variables (K V : Type) (ltb : K -> K -> bool).
Hypothesis HS : SWO ltb.
Variable order : nat.
Hypothesis Heven : Nat.even order = true.
Hypothesis H4 : 4 <= order.
Notation st := (st K V).
Notation thread := (thread K V).
Notation cop := (cop K V).
Notation event := (event K V).
Notation BigInv := (BigInv K V ltb order).
Notation abs := (abs ltb).
Notation cb_steps := (cb_steps K V ltb order).

(* ------------------------------------------------------------------------------------------------ *)
(* BigInv implies the call discipline of CB_Blocks.v                                                 *)
(* ------------------------------------------------------------------------------------------------ *)
Lemma hd_cons (pr : list cop) o : hd_error pr = Some o -> exists rest, pr = o :: rest.
Proof. destruct pr as [|o' rest]; simpl; intros H; inversion H. eauto. Qed.

Lemma BigInv_call_ok (s : st) : BigInv s -> call_ok s.
Proof.
  intros (_ & _ & HOp & _ & (HPa & _) & HPb) t th Hg.
  pose proof (LINa_Prog.prog_ok_get K V s t th HPa Hg) as Ha.
  pose proof (HPb t th Hg) as Hb.
  assert (Hop : OCCc_Blocks.pc_op_b (tpc th) = true).
  { unfold OCCc_Blocks.all_op_b in HOp. rewrite forallb_forall in HOp.
    apply (HOp (t, th)). apply OCCc_Base.get_thread_in. exact Hg. }
  unfold thread_ok.
  destruct (tpc th) as [ |o|o r0|o lft rgt|o p c index|o p c r0|o leaf mode index|o p c|o stk|o stk|o stk|leaf i n acc|leaf nxt n acc];
    cbn [LINa_Prog.pc_prog LINb_Prog.pc_prog_ok OCCc_Blocks.pc_op_b] in Ha, Hb, Hop.
  - left. reflexivity.
  - right. destruct (hd_cons _ _ Ha) as [rest Hr]. exists o, rest. split; [exact Hr|reflexivity].
  - right. destruct (hd_cons _ _ Ha) as [rest Hr]. exists o, rest. split; [exact Hr|reflexivity].
  - right. destruct (hd_cons _ _ Ha) as [rest Hr]. exists o, rest. split; [exact Hr|]. split; [reflexivity|exact Hop].
  - right. destruct (hd_cons _ _ Ha) as [rest Hr]. exists o, rest. split; [exact Hr|]. split; [reflexivity|exact Hop].
  - right. destruct (hd_cons _ _ Ha) as [rest Hr]. exists o, rest. split; [exact Hr|]. split; [reflexivity|exact Hop].
  - right. destruct (hd_cons _ _ Ha) as [rest Hr]. exists o, rest. split; [exact Hr|]. split; [reflexivity|].
    destruct o; try discriminate Hop; reflexivity.
  - right. destruct Ha as [Ha Hs]. destruct (hd_cons _ _ Ha) as [rest Hr]. exists o, rest.
    split; [exact Hr|]. split; [reflexivity|exact Hs].
  - right. destruct Hb as (k & r & -> & Hr). exists (CDelete k), r. split; [exact Hr|]. split; reflexivity.
  - right. destruct Hb as (k & r & -> & Hr). exists (CDelete k), r. split; [exact Hr|]. split; reflexivity.
  - right. destruct Hb as (k & r & -> & Hr). exists (CDelete k), r. split; [exact Hr|]. split; reflexivity.
  - right. destruct Hb as (k & n0 & r & Hr). exists (CScan k n0), r. split; [exact Hr|reflexivity].
  - right. destruct Hb as (k & n0 & r & Hr). exists (CScan k n0), r. split; [exact Hr|reflexivity].
Qed.

(* ------------------------------------------------------------------------------------------------ *)
(* the abstract map is strictly ascending: "the value stored for k" is well defined                  *)
(* ------------------------------------------------------------------------------------------------ *)
Lemma asc_filter (P : K * V -> bool) (m : list (K * V)) :
  asc ltb (map fst m) -> asc ltb (map fst (filter P m)).
Proof.
  induction m as [|[k v] m IH]; intros Ha; [exact I|].
  cbn [map fst] in Ha. apply (SpecLaws.asc_cons_iff K ltb HS) in Ha. destruct Ha as [Hall Ha].
  cbn [filter]. destruct (P (k, v)); [|apply IH; exact Ha].
  cbn [map fst]. apply (SpecLaws.asc_cons_iff K ltb HS). split; [|apply IH; exact Ha].
  rewrite Forall_forall in *. intros x Hx. apply Hall.
  apply in_map_iff in Hx. destruct Hx as (e & <- & He). apply filter_In in He. apply in_map. tauto.
Qed.

Lemma abs_asc (s : st) : BigInv s -> asc ltb (map fst (abs s)).
Proof.
  intros HB. unfold Lin.abs. apply asc_filter. apply (entries_asc K V ltb HS).
  destruct (BigInv_parts K V ltb order s HB) as ((_ & _ & Ho & _) & _). exact Ho.
Qed.

(* [lookup ltb k (abs s)] is the binding of k in the abstract map: [Some v] iff a pair (k', v) with k' equivalent
   to k is in it, [None] iff there is no such pair *)
Lemma abs_lookup_some (s : st) k v : BigInv s ->
  (lookup ltb k (abs s) = Some v <-> exists k', eqv ltb k k' /\ In (k', v) (abs s)).
Proof. intros HB. apply (lookup_In K V ltb HS). apply abs_asc. exact HB. Qed.

Lemma abs_lookup_none (s : st) k : BigInv s ->
  (lookup ltb k (abs s) = None <-> forall k' v, In (k', v) (abs s) -> ~ eqv ltb k k').
Proof.
  intros HB. split.
  - intros Hn k' v Hin He.
    assert (X : lookup ltb k (abs s) = Some v) by (apply (abs_lookup_some s k v HB); eauto).
    congruence.
  - intros Hn. destruct (lookup ltb k (abs s)) as [v|] eqn:E; [|reflexivity].
    apply (abs_lookup_some s k v HB) in E. destruct E as (k' & He & Hin). exfalso. exact (Hn k' v Hin He).
Qed.

(* ------------------------------------------------------------------------------------------------ *)
(* C05 (A): the callback step                                                                        *)
(* ------------------------------------------------------------------------------------------------ *)
(* A step taken from [UpdCallback o leaf mode index]: the call in flight is [o = CUpdate k f], the head of the
   program; the step needs no lock (the goroutine holds the leaf), applies f to [arg] = the binding of k in the
   abstract map of the pre-state, returns [RArg arg] — this step is the call's last: the thread is Idle afterwards
   and its program has lost the call — and the abstract map becomes [put k f], in which k is bound to [f arg]. *)
Theorem callback_step (s s' : st) t th o leaf mode index acq ev :
  BigInv s -> get_thread t (ths s) = Some th -> tpc th = UpdCallback o leaf mode index ->
  cstep ltb order s t = Stepped s' acq ev ->
  exists k f th',
    let arg := lookup ltb k (abs s) in
    o = CUpdate k f /\ hd_error (prog th) = Some o /\ acq = None /\
    get_thread t (ths s') = Some th' /\ tpc th' = Idle /\ prog th' = tl (prog th) /\
    results th' = RArg K arg :: results th /\
    ev = [EReturn (RArg K arg)] /\
    lp_step ltb s t acq ev s' = Some (OUpdate k f) /\
    abs s' = put ltb k f (abs s) /\
    lookup ltb k (abs s') = Some (f arg) /\
    exists k', eqv ltb k k' /\ In (k', f arg) (abs s').
Proof.
  intros HB Hg Hpc Hc.
  pose proof (BigInv_call_ok s HB) as Hok.
  destruct (own_step_class K V ltb order s s' t acq ev th Hok Hg Hc) as (th' & Hg' & Hk).
  destruct Hk as [k f leaf' mode' index' a Hpc' Hp Hpc1 Hev Hres|Hcbf _ _ _|o' Hcbf _ _ _ _];
    [|rewrite Hpc in Hcbf; discriminate Hcbf|rewrite Hpc in Hcbf; discriminate Hcbf].
  rewrite Hpc in Hpc'. inversion Hpc'; subst o leaf' mode' index'; clear Hpc'.
  (* no lock is acquired *)
  assert (Hacq : acq = None).
  { destruct (cstep_parts K V ltb order s s' t acq ev Hc) as (th0 & o0 & Hg0 & Htg & _).
    rewrite Hg in Hg0. inversion Hg0; subst th0. rewrite Hpc in Htg. cbn [target] in Htg. inversion Htg. reflexivity. }
  (* this step is the linearization point of the Update *)
  assert (Hlp : lp_step ltb s t acq ev s' = Some (OUpdate k f)).
  { unfold lp_step. rewrite Hg, Hg', Hpc, Hp, Hev. reflexivity. }
  pose proof (BigInv_abs_step_ok K V ltb HS order Heven H4 s t HB s' acq ev Hc) as Habs.
  rewrite Hlp in Habs. destruct Habs as [Habs Hres_ok].
  cbn [step_spec fst snd] in Habs, Hres_ok. rewrite Hev in Hres_ok. cbn in Hres_ok.
  inversion Hres_ok as [Ha]. clear Hres_ok.
  pose proof (abs_asc s HB) as Hasc.
  assert (Hlk : lookup ltb k (abs s') = Some (f (lookup ltb k (abs s)))).
  { rewrite Habs. apply (lookup_put_same K V ltb HS). exact Hasc. }
  exists k, f, th'. cbv zeta.
  split; [reflexivity|]. split; [rewrite Hp; reflexivity|]. split; [exact Hacq|].
  split; [exact Hg'|]. split; [exact Hpc1|]. split; [rewrite Hp; reflexivity|].
  split; [rewrite Hres, Ha; reflexivity|]. split; [rewrite Hev, Ha; reflexivity|].
  split; [exact Hlp|]. split; [exact Habs|]. split; [exact Hlk|].
  apply (lookup_In K V ltb HS k _ (abs s')); [|exact Hlk].
  rewrite Habs. apply (put_asc K V ltb HS). exact Hasc.
Qed.

(* the converse direction: an Update call returns only through the callback step (from any other pc a step of an
   in-flight Update emits no event at all) *)
Theorem update_returns_only_from_callback (s s' : st) t th k f rest acq ev :
  BigInv s -> get_thread t (ths s) = Some th -> prog th = CUpdate k f :: rest -> tpc th <> Idle ->
  cstep ltb order s t = Stepped s' acq ev ->
  (is_cb (tpc th) = true /\ returned ev = true) \/ (is_cb (tpc th) = false /\ ev = []).
Proof.
  intros HB Hg Hp Hnidle Hc.
  pose proof (BigInv_call_ok s HB) as Hok.
  destruct (Hok t th Hg) as [Hidle|(o0 & rest0 & Hp0 & Hfor)]; [contradiction|].
  rewrite Hp in Hp0. inversion Hp0; subst o0 rest0; clear Hp0.
  destruct (is_cb (tpc th)) eqn:Ecb.
  - left. split; [reflexivity|].
    destruct (own_step_class K V ltb order s s' t acq ev th Hok Hg Hc) as (th' & Hg' & Hk).
    destruct Hk as [k1 f1 leaf mode index a _ _ _ Hev _|Hcbf _ _ _|o' Hcbf _ _ _ _]; try congruence.
    rewrite Hev. reflexivity.
  - right. split; [reflexivity|].
    destruct (cstep_unpack _ _ _ _ _ _ _ _ _ Hc) as (th0 & o & Hg0 & HBk & _ & ->).
    rewrite Hg in Hg0. inversion Hg0; subst th0.
    exact (blk_upd_noret K V ltb order s t th acq o k f Hfor Ecb HBk).
Qed.

(* ------------------------------------------------------------------------------------------------ *)
(* C05 (B): exactly once per call, for every state satisfying BigInv                                 *)
(* ------------------------------------------------------------------------------------------------ *)
Theorem update_calls_f_once sched (s : st) t th th2 k f rest :
  BigInv s -> get_thread t (ths s) = Some th -> tpc th = Idle -> prog th = CUpdate k f :: rest ->
  get_thread t (ths (fst (exec ltb order s sched))) = Some th2 -> prog th2 = rest ->
  cb_steps t s sched = 1.
Proof.
  intros HB Hg _ Hp Hg2 Hp2. eapply update_once; eauto. apply BigInv_call_ok. exact HB.
Qed.

Theorem update_not_called_early sched (s : st) t th th2 k f rest :
  BigInv s -> get_thread t (ths s) = Some th -> prog th = CUpdate k f :: rest ->
  get_thread t (ths (fst (exec ltb order s sched))) = Some th2 -> prog th2 = CUpdate k f :: rest ->
  cb_steps t s sched = 0.
Proof.
  intros HB Hg Hp Hg2 Hp2. eapply update_not_yet; eauto; [apply BigInv_call_ok; exact HB|congruence].
Qed.

Theorem other_calls_never_call_f sched (s : st) t th th2 pre :
  BigInv s -> get_thread t (ths s) = Some th ->
  get_thread t (ths (fst (exec ltb order s sched))) = Some th2 -> prog th = pre ++ prog th2 ->
  (forall o, In o pre -> is_upd o = false) ->
  cb_steps t s sched = 0.
Proof.
  intros HB Hg Hg2 Hpr Hn. eapply no_update_no_callback; eauto. apply BigInv_call_ok. exact HB.
Qed.

(* the general form: the number of callback steps is the number of Updates among the calls that returned *)
Theorem callbacks_are_returned_updates sched (s : st) t th :
  BigInv s -> get_thread t (ths s) = Some th ->
  exists th2 pre,
    get_thread t (ths (fst (exec ltb order s sched))) = Some th2 /\
    prog th = pre ++ prog th2 /\
    cb_steps t s sched = count_upd pre /\
    ret_steps K V t (snd (exec ltb order s sched)) = length pre.
Proof. intros HB Hg. apply cb_count; [apply BigInv_call_ok; exact HB|exact Hg]. Qed.

(* ---- with TERM: an in-flight Update that is scheduled [measure s t] times does call f ---- *)
Lemma steps_of_ret (t : tid) (h : list (tid * list event)) :
  returned_in K V t h -> 1 <= ret_steps K V t h.
Proof.
  intros (ev & Hin & Hr). unfold ret_steps.
  assert (X : In (t, ev) (filter (fun e => (fst e =? t) && returned (snd e)) h)).
  { apply filter_In. split; [exact Hin|]. cbn [fst snd]. rewrite Nat.eqb_refl. cbn [andb].
    destruct (returned ev) eqn:E; [reflexivity|]. apply (returns_returned K V) in E. contradiction. }
  destruct (filter (fun e => (fst e =? t) && returned (snd e)) h); [destruct X|cbn [length]; lia].
Qed.

Theorem update_calls_f_eventually sched (s : st) t th k f rest :
  BigInv s -> get_thread t (ths s) = Some th -> tpc th <> Idle -> prog th = CUpdate k f :: rest ->
  measure K V s t <= steps_of K V t (snd (exec ltb order s sched)) ->
  1 <= cb_steps t s sched.
Proof.
  intros HB Hg Hnidle Hp Hm.
  assert (Hr : returned_in K V t (snd (exec ltb order s sched))).
  { apply (returns_within_measure K V ltb order HS H4 Heven sched s t HB); [|exact Hm].
    unfold tpc_of. rewrite Hg. exact Hnidle. }
  apply steps_of_ret in Hr.
  destruct (callbacks_are_returned_updates sched s t th HB Hg) as (th2 & pre & _ & Hpr & Hcb & Hrs).
  rewrite Hcb. rewrite Hrs in Hr. destruct pre as [|o pre]; [cbn [length] in Hr; lia|].
  rewrite Hp in Hpr. cbn [app] in Hpr. inversion Hpr; subst o.
  rewrite count_upd_cons. cbn [is_upd]. lia.
Qed.

(* ------------------------------------------------------------------------------------------------ *)
(* the same for every reachable state: every SWO, every even order >= 4, every programs, every schedule *)
(* ------------------------------------------------------------------------------------------------ *)
Section Reachable.
Variable progs : list (tid * list cop).
Hypothesis Hnd : NoDup (map fst progs).
Variable sched0 : list tid.
Let s := fst (exec ltb order (init_st progs) sched0).

Lemma reach_BigInv : BigInv s.
Proof. exact (final_BigInv_reachable K V ltb HS order Heven H4 progs sched0 Hnd). Qed.

Theorem C05_callback_step s' t th o leaf mode index acq ev :
  get_thread t (ths s) = Some th -> tpc th = UpdCallback o leaf mode index ->
  cstep ltb order s t = Stepped s' acq ev ->
  exists k f th',
    let arg := lookup ltb k (abs s) in
    o = CUpdate k f /\ hd_error (prog th) = Some o /\ acq = None /\
    get_thread t (ths s') = Some th' /\ tpc th' = Idle /\ prog th' = tl (prog th) /\
    results th' = RArg K arg :: results th /\
    ev = [EReturn (RArg K arg)] /\
    lp_step ltb s t acq ev s' = Some (OUpdate k f) /\
    abs s' = put ltb k f (abs s) /\
    lookup ltb k (abs s') = Some (f arg) /\
    exists k', eqv ltb k k' /\ In (k', f arg) (abs s').
Proof. apply callback_step. exact reach_BigInv. Qed.

Theorem C05_arg_some k v :
  lookup ltb k (abs s) = Some v <-> exists k', eqv ltb k k' /\ In (k', v) (abs s).
Proof. apply abs_lookup_some. exact reach_BigInv. Qed.

Theorem C05_arg_none k :
  lookup ltb k (abs s) = None <-> forall k' v, In (k', v) (abs s) -> ~ eqv ltb k k'.
Proof. apply abs_lookup_none. exact reach_BigInv. Qed.

Theorem C05_exactly_once sched t th th2 k f rest :
  get_thread t (ths s) = Some th -> tpc th = Idle -> prog th = CUpdate k f :: rest ->
  get_thread t (ths (fst (exec ltb order s sched))) = Some th2 -> prog th2 = rest ->
  cb_steps t s sched = 1.
Proof. apply update_calls_f_once. exact reach_BigInv. Qed.

Theorem C05_not_before sched t th th2 k f rest :
  get_thread t (ths s) = Some th -> prog th = CUpdate k f :: rest ->
  get_thread t (ths (fst (exec ltb order s sched))) = Some th2 -> prog th2 = CUpdate k f :: rest ->
  cb_steps t s sched = 0.
Proof. apply update_not_called_early. exact reach_BigInv. Qed.

Theorem C05_only_updates sched t th th2 pre :
  get_thread t (ths s) = Some th ->
  get_thread t (ths (fst (exec ltb order s sched))) = Some th2 -> prog th = pre ++ prog th2 ->
  (forall o, In o pre -> is_upd o = false) ->
  cb_steps t s sched = 0.
Proof. apply other_calls_never_call_f. exact reach_BigInv. Qed.

Theorem C05_count sched t th :
  get_thread t (ths s) = Some th ->
  exists th2 pre,
    get_thread t (ths (fst (exec ltb order s sched))) = Some th2 /\
    prog th = pre ++ prog th2 /\
    cb_steps t s sched = count_upd pre /\
    ret_steps K V t (snd (exec ltb order s sched)) = length pre.
Proof. apply callbacks_are_returned_updates. exact reach_BigInv. Qed.

Theorem C05_eventually sched t th k f rest :
  get_thread t (ths s) = Some th -> tpc th <> Idle -> prog th = CUpdate k f :: rest ->
  measure K V s t <= steps_of K V t (snd (exec ltb order s sched)) ->
  1 <= cb_steps t s sched.
Proof. apply update_calls_f_eventually. exact reach_BigInv. Qed.

End Reachable.
End Final.

(* SUMMARY (agent CB).  Everything is proved; no axioms, nothing admitted, nothing remains.
   Files in dependency order: CB_Blocks.v, CB_Count.v, CB_Demo.v (vm_compute sanity checks), CB_Final.v.

   The model applies the callback f of [CUpdate k f] in the block of pc [UpdCallback] only (the three modes of that
   block, Conc.v lines 371/374/377, are the only occurrences of an application of f in [cstep]); each run of the
   block applies it once.  So "how often is f called" = [cb_steps t s sched], the number of steps of
   [exec ltb order s sched] that thread t takes from a pc [UpdCallback _ _ _ _] (CB_Count.v, mirrors [exec]).

   (A) [callback_step] / [C05_callback_step]: in a state with BigInv (every reachable state), a step of t from
       [UpdCallback o leaf mode index] has o = CUpdate k f = the head of t's program; it acquires no lock (acq = None:
       the goroutine holds the leaf, the step is always enabled); with arg := lookup ltb k (abs ltb s):
       ev = [EReturn (RArg arg)], the thread is Idle afterwards, its program is tl, its results gain RArg arg;
       the step is the Update's linearization point (lp_step = Some (OUpdate k f)), abs ltb s' = put ltb k f (abs ltb s),
       lookup ltb k (abs ltb s') = Some (f arg) and some (k', f arg) with k' equivalent to k is in abs ltb s'.
       [C05_arg_some]/[C05_arg_none]: arg = Some v iff some (k', v), k' equivalent to k, is in abs ltb s; None iff no
       such pair (abs is strictly ascending: [abs_asc]).
       [update_returns_only_from_callback]: every other step of an in-flight Update emits no event at all.
   (B) [cb_count] (CB_Count.v; needs only [call_ok], an inductive invariant proved in CB_Blocks.v with no hypothesis on
       the key order or the tree order; BigInv implies it: [BigInv_call_ok]) / [C05_count]: over any execution stretch
       the program of t loses a prefix pre (the calls that returned), cb_steps = number of Updates in pre and
       length pre = number of return steps of t.  Hence
       [C05_exactly_once]  prog goes from CUpdate k f :: rest to rest              ->  cb_steps = 1
       [C05_not_before]    prog is still CUpdate k f :: rest (call in flight)      ->  cb_steps = 0
       [C05_only_updates]  the calls that returned are not Updates                 ->  cb_steps = 0
       [C05_eventually]    (with TERM) an in-flight Update scheduled [measure s t] times has called f.
   Nothing in the statement of the task was found false.  Remark on the statement of (B): "tpc th2 = Idle" is not
   needed (prog th2 = rest suffices: the program only ever loses its head, at a return step), and "tpc th = Idle" at
   the start is not needed either (the call may already be in flight: before the callback step f was not applied). *)

Check C05_callback_step.
Check C05_exactly_once.
Check C05_not_before.
Check C05_only_updates.
Check C05_count.
Check C05_eventually.
Print Assumptions C05_callback_step.
Print Assumptions C05_arg_some.
Print Assumptions C05_arg_none.
Print Assumptions C05_exactly_once.
Print Assumptions C05_not_before.
Print Assumptions C05_only_updates.
Print Assumptions C05_count.
Print Assumptions C05_eventually.
Print Assumptions update_returns_only_from_callback.

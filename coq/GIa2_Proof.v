(* GIa2_Proof.v — the global structural invariant GI of the concurrent model is preserved by every step of a
   thread that is executing Delete (pcs WantRoot (CDelete _), DelWantLeft, DelWantChild, DelWantRight).
   Sequential ingredients in GIa2_Seq.v. *)
From Coq Require Import List Bool Lia PeanoNat Permutation.
From GB Require Import Model Inv ListLemmas SearchProof TreeLemmas DeleteProof Conc GI LockInv LockProof CInv CIDef
  Frame UpdLemmas FrameProof EraseLemmas EraseOps SoloBase SoloDelete GIa2_Seq.
Import ListNotations.

Section G.
Variables (K V : Type) (ltb : K -> K -> bool).
Hypothesis HS : SWO ltb.
Variable order : nat.
Hypothesis H4 : 4 <= order.
Notation itree := (itree K V).
Notation tree := (tree K V).
Notation st := (st K V).
Notation out := (out K V).
Notation m := (Nat.div2 order).
Notation refines := (refines K V ltb order).

(* ------------------------------------------------------------------------------------------------ *)
(* the tree part of GI (without the identities), and replacement of a subtree                        *)
(* ------------------------------------------------------------------------------------------------ *)
Definition TI (t : itree) : Prop :=
  ordered ltb (erase_ids t) /\ (exists d, bal d (erase_ids t)) /\ cap order (erase_ids t) /\ chain_ok (leaf_links t).

Definition irefines (a b : itree) : Prop :=
  refines (erase_ids a) (erase_ids b) /\ links_equiv (leaf_links a) (leaf_links b).

Lemma irefines_plug1 cf (a b : itree) : irefines a b -> irefines (plug1 cf a) (plug1 cf b).
Proof.
  intros [H1 H2]. split.
  - rewrite !erase_plug1. apply refines_node; auto.
  - rewrite !links_plug1. apply links_equiv_ctx. exact H2.
Qed.

(* the context lemma: replacing the subtree at the hole *)
Lemma irefines_plug C : forall a b : itree, irefines a b -> irefines (plug C a) (plug C b).
Proof. induction C as [|cf C IH]; intros a b H; simpl; [exact H|]. apply IH. apply irefines_plug1. exact H. Qed.

Lemma TI_irefines (a b : itree) : TI a -> irefines a b -> TI b.
Proof.
  intros (O & (d & B) & C & Ch) [H1 H2]. destruct (H1 d O B C) as (O' & B' & C' & _).
  split; [exact O'|]. split; [eauto|]. split; [exact C'|].
  specialize (H2 [] []). simpl in H2. rewrite !app_nil_r in H2. auto.
Qed.

Lemma wfc_plug C : forall (sub : itree) fr, wfc C sub fr <-> wfc [] (plug C sub) fr.
Proof. induction C as [|cf C IH]; intros sub fr; simpl; [tauto|]. rewrite <- IH. symmetry. apply wfc_push. Qed.

Lemma GI_intro (s : st) : wfc [] (tr s) (fresh s) -> TI (tr s) -> GI ltb order s.
Proof.
  intros Hw (O & (d & B) & C & Ch). apply wfc_nil in Hw. destruct Hw as [Hn Hf]. unfold GI.
  rewrite (DeleteProof.bal_height K V d _ B). tauto.
Qed.

Lemma GI_elim (s : st) : GI ltb order s -> wfc [] (tr s) (fresh s) /\ TI (tr s).
Proof.
  intros (Hn & Hf & O & B & C & Ch). split; [apply wfc_nil; auto|]. unfold TI. eauto 10.
Qed.

(* ------------------------------------------------------------------------------------------------ *)
(* the concurrent node operations succeed only if the sequential ones do                              *)
(* ------------------------------------------------------------------------------------------------ *)
Lemma iadoptR_conv (l r l2 r2 : itree) : iadopt_right l r = Ok (l2, r2) ->
  adopt_from_right (erase_ids l) (erase_ids r) = Ok (erase_ids l2, erase_ids r2).
Proof.
  destruct l as [li ln le|li lc], r as [ri rn [|x re]|ri [|x rc]]; simpl; intros H; inversion H; subst; clear H;
    simpl; try reflexivity.
  rewrite map_app. reflexivity.
Qed.

Lemma iadoptL_conv (l r l2 r2 : itree) : iadopt_left l r = Ok (l2, r2) ->
  adopt_from_left (erase_ids l) (erase_ids r) = Ok (erase_ids l2, erase_ids r2).
Proof.
  destruct l as [li ln le|li lc], r as [ri rn re|ri rc]; simpl; intros H; try discriminate H.
  - destruct (rev le) as [|x le'] eqn:E; [discriminate H|]. inversion H; subst. reflexivity.
  - rewrite <- map_rev. destruct (rev lc) as [|x lc'] eqn:E; [discriminate H|]. inversion H; subst. simpl.
    rewrite map_rev. reflexivity.
Qed.

Lemma iabsorb_conv (l r z : itree) : iabsorb l r = Ok z ->
  absorb_right (erase_ids l) (erase_ids r) = Ok (erase_ids z).
Proof.
  destruct l as [li ln le|li lc], r as [ri rn re|ri rc]; simpl; intros H; inversion H; subst; clear H; simpl;
    try reflexivity.
  rewrite map_app. reflexivity.
Qed.

Lemma get_nth_erase_fw j (cs : list (K * itree)) s c :
  get_nth j cs = Ok (s, c) -> get_nth j (erase_cs cs) = Ok (s, erase_ids c).
Proof.
  unfold get_nth. rewrite nth_error_erase. destruct (nth_error cs j) as [[s' c']|]; simpl; intros H; inversion H.
  reflexivity.
Qed.

Lemma rebalance_nopanic fr C p (cs : list (K * itree)) index f r :
  wfc C (INode p cs) fr -> Conc.fp f = p -> fidx f = index ->
  irebalance order f (plug C (INode p cs)) = Ok r ->
  exists r', rebalance m index (erase_cs cs) = Ok r'.
Proof.
  intros Hw Hfp Hfi H. pose proof (find_plug_self _ _ C _ fr Hw) as Hfind. cbn [nid] in Hfind.
  unfold irebalance in H. rewrite Hfp, Hfi, Hfind in H.
  unfold rebalance.
  destruct (get_nth index cs) as [[s0 child]|] eqn:Eg; [|discriminate H]. cbn [bind] in H.
  rewrite (get_nth_erase_fw _ _ _ _ Eg). cbn [bind]. cbv zeta in H |- *.
  rewrite erase_cs_length. rewrite !nth_error_erase.
  assert (HC : forall j, (match option_map (fun c : K * itree => (fst c, erase_ids (snd c))) (nth_error cs j) with
                          | Some (_, r) => count r | None => 0 end)
                       = (match nth_error cs j with Some (_, r) => icount r | None => 0 end)).
  { intros j. destruct (nth_error cs j) as [[? ?]|]; simpl; [apply icount_erase|reflexivity]. }
  rewrite !HC. clear HC.
  rewrite !Nat.add_1_r in *.
  set (RC := if S index <? length cs then match nth_error cs (S index) with Some (_, r) => icount r | None => 0 end else 0) in *.
  set (LC := if 0 <? index then match nth_error cs (index - 1) with Some (_, l) => icount l | None => 0 end else 0) in *.
  clearbody RC LC.
  destruct ((S index <? length cs) && (m <? RC)).
  - destruct (get_nth (S index) cs) as [[s2 rgt]|] eqn:E1; [|discriminate H]. cbn [bind] in H.
    destruct (iadopt_right child rgt) as [[c2 r2]|] eqn:E2; [|discriminate H]. cbn [bind] in H.
    destruct (ismallest r2) as [rs|] eqn:E3; [|discriminate H].
    rewrite (get_nth_erase_fw _ _ _ _ E1). cbn [bind]. rewrite (iadoptR_conv _ _ _ _ E2). cbn [bind].
    rewrite ismallest_erase, E3. cbn [bind]. eexists; reflexivity.
  - destruct ((0 <? index) && (m <? LC)).
    + destruct (get_nth (index - 1) cs) as [[s1 lft]|] eqn:E1; [|discriminate H]. cbn [bind] in H.
      destruct (iadopt_left lft child) as [[l2 c2]|] eqn:E2; [|discriminate H]. cbn [bind] in H.
      destruct (ismallest c2) as [sm|] eqn:E3; [|discriminate H].
      rewrite (get_nth_erase_fw _ _ _ _ E1). cbn [bind]. rewrite (iadoptL_conv _ _ _ _ E2). cbn [bind].
      rewrite ismallest_erase, E3. cbn [bind]. eexists; reflexivity.
    + destruct (0 <? LC).
      * destruct (get_nth (index - 1) cs) as [[s1 lft]|] eqn:E1; [|discriminate H]. cbn [bind] in H.
        destruct (iabsorb lft child) as [z|] eqn:E2; [|discriminate H].
        rewrite (get_nth_erase_fw _ _ _ _ E1). cbn [bind]. rewrite (iabsorb_conv _ _ _ E2). cbn [bind].
        eexists; reflexivity.
      * destruct (RC =? 0); [discriminate H|].
        destruct (get_nth (S index) cs) as [[s2 rgt]|] eqn:E1; [|discriminate H]. cbn [bind] in H.
        destruct (iabsorb child rgt) as [z|] eqn:E2; [|discriminate H].
        rewrite (get_nth_erase_fw _ _ _ _ E1). cbn [bind]. rewrite (iabsorb_conv _ _ _ E2). cbn [bind].
        eexists; reflexivity.
Qed.

(* ------------------------------------------------------------------------------------------------ *)
(* one application of irebalance                                                                     *)
(* ------------------------------------------------------------------------------------------------ *)
Lemma irebalance_gi fr C cf (sub : itree) f t' small' :
  Conc.fp f = cid cf -> fidx f = length (cpre cf) -> wfc (cf :: C) sub fr -> icount sub < m ->
  irebalance order f (plug (cf :: C) sub) = Ok (t', small') ->
  exists cs', t' = plug C (INode (cid cf) cs') /\ wfc C (INode (cid cf) cs') fr /\
     irefines (plug (cf :: C) sub) (plug C (INode (cid cf) cs')) /\ (small' = true -> length cs' < m).
Proof.
  intros Hfp Hfi Hw Hsm H.
  set (cs := cpre cf ++ (csep cf, sub) :: cpost cf).
  assert (Hw1 : wfc C (INode (cid cf) cs) fr) by (apply wfc_push in Hw; exact Hw).
  change (plug (cf :: C) sub) with (plug C (INode (cid cf) cs)) in *.
  destruct (rebalance_nopanic fr C (cid cf) cs (fidx f) f _ Hw1 Hfp eq_refl H) as [[ecs' sm] Hr].
  destruct (irebalance_sim K V order fr C (cid cf) cs (fidx f) ecs' sm f Hfp eq_refl Hw1 Hr)
    as (cs' & Hir & Hecs & Hw2 & Hlk).
  rewrite Hir in H. inversion H; subst t' small'; clear H.
  destruct (rebalance_refines K V ltb HS order H4 (fidx f) (erase_cs cs) ecs' sm) as [Href Hs']; [|exact Hr|].
  { intros s c Hn. unfold cs in Hn. rewrite erase_cs_app, erase_cs_cons, Hfi in Hn.
    rewrite nth_error_at in Hn by (rewrite erase_cs_length; reflexivity). inversion Hn; subst.
    rewrite icount_erase. exact Hsm. }
  exists cs'. split; [reflexivity|]. split; [exact Hw2|]. split.
  - apply irefines_plug. split; [rewrite !erase_node, Hecs; exact Href|rewrite !links_node; exact Hlk].
  - intros E. rewrite <- (erase_cs_length _ _ cs'), Hecs. auto.
Qed.

(* ------------------------------------------------------------------------------------------------ *)
(* the stack of frames against a context                                                             *)
(* ------------------------------------------------------------------------------------------------ *)
Fixpoint fmatch (stk : list frame) (C : list (cframe K V)) : Prop :=
  match stk, C with
  | [], [] => True
  | f :: stk', cf :: C' => Conc.fp f = cid cf /\ fidx f = length (cpre cf) /\ fmatch stk' C'
  | _, _ => False
  end.

Lemma frames_ok_cons (t : itree) f rest :
  frames_ok_b t (f :: rest) = true ->
  exists pi cs, Conc.find (Conc.fp f) t = Some (INode pi cs) /\ fidx f < length cs /\
    (forall x, fc f = Some x -> exists s c, nth_error cs (fidx f) = Some (s, c) /\ nid c = x) /\
    (match rest with [] => nid t = Conc.fp f | g :: _ => fc g = Some (Conc.fp f) end) /\
    frames_ok_b t rest = true.
Proof.
  cbn [frames_ok_b]. destruct (Conc.find (Conc.fp f) t) as [[|pi cs]|]; try discriminate. intros H.
  apply andb_true_iff in H. destruct H as [H HE].
  apply andb_true_iff in H. destruct H as [H HD].
  apply andb_true_iff in H. destruct H as [H HC].
  apply andb_true_iff in H. destruct H as [HA HB].
  exists pi, cs. split; [reflexivity|]. split; [apply Nat.ltb_lt; exact HA|]. split; [|split; [|exact HE]].
  - intros x Hx. rewrite Hx in HC. destruct (nth_error cs (fidx f)) as [[s c]|]; [|discriminate HC].
    apply Nat.eqb_eq in HC. eauto.
  - destruct rest as [|g rest']; [apply Nat.eqb_eq; exact HD|]. destruct (fc g) as [x|]; [|discriminate HD].
    apply Nat.eqb_eq in HD. subst; reflexivity.
Qed.

Lemma ctx_child fr C p (cs : list (K * itree)) j s ch :
  wfc C (INode p cs) fr -> nth_error cs j = Some (s, ch) ->
  exists pre post, cs = pre ++ (s, ch) :: post /\ length pre = j /\ wfc (mkcf p pre s post :: C) ch fr.
Proof.
  intros Hw Hn. destruct (nth_error_split _ _ Hn) as (pre & post & -> & Hl).
  exists pre, post. split; [reflexivity|]. split; [exact Hl|]. apply wfc_node. exact Hw.
Qed.

Lemma frames_node_ctx fr : forall stk f (t : itree), wfc [] t fr -> frames_ok_b t (f :: stk) = true ->
  exists C cs, t = plug C (INode (Conc.fp f) cs) /\ fmatch stk C /\ wfc C (INode (Conc.fp f) cs) fr.
Proof.
  induction stk as [|g stk IH]; intros f t Hw H.
  - destruct (frames_ok_cons _ _ _ H) as (pi & cs & Hf & _ & _ & Hroot & _).
    rewrite <- Hroot in Hf. rewrite find_self in Hf. inversion Hf as [Ht]. clear Hf.
    rewrite Ht in Hroot. cbn [nid] in Hroot. subst pi.
    exists [], cs. split; [reflexivity|]. split; [exact I|]. rewrite <- Ht. exact Hw.
  - destruct (frames_ok_cons _ _ _ H) as (pi & cs & Hf & _ & _ & Hlink & Hg).
    destruct (IH g t Hw Hg) as (C & csg & Ht & Hm & Hwg).
    destruct (frames_ok_cons _ _ _ Hg) as (pg & csg' & Hfg & _ & Hkid & _ & _).
    pose proof (find_plug_self _ _ C _ fr Hwg) as Hfind. cbn [nid] in Hfind.
    rewrite <- Ht, Hfg in Hfind. inversion Hfind; subst pg csg'. clear Hfind.
    destruct (Hkid _ Hlink) as (s & ch & Hn & Hnid).
    destruct (ctx_child fr C _ csg _ s ch Hwg Hn) as (pre & post & Ecs & Hl & Hwc).
    assert (Hch : ch = INode pi cs).
    { pose proof (find_plug_self _ _ _ _ fr Hwc) as Hfc. rewrite Hnid in Hfc. rewrite plug_mkcf in Hfc.
      rewrite <- Ecs, <- Ht in Hfc. congruence. }
    pose proof (UpdLemmas.find_nid _ _ _ _ _ Hf) as Hpi. cbn [nid] in Hpi. subst pi.
    exists (mkcf (Conc.fp g) pre s post :: C), cs. split; [|split].
    + rewrite Ht, Ecs, <- Hch. reflexivity.
    + cbn [fmatch mkcf cid cpre]. auto.
    + rewrite <- Hch. exact Hwc.
Qed.

Lemma frames_child_ctx fr f stk (t : itree) pi cs0 s ch :
  wfc [] t fr -> frames_ok_b t (f :: stk) = true ->
  Conc.find (Conc.fp f) t = Some (INode pi cs0) -> nth_error cs0 (fidx f) = Some (s, ch) ->
  exists cf C, t = plug (cf :: C) ch /\ Conc.fp f = cid cf /\ fidx f = length (cpre cf) /\ fmatch stk C /\
    wfc (cf :: C) ch fr.
Proof.
  intros Hw H Hf Hn. destruct (frames_node_ctx fr stk f t Hw H) as (C & cs & Ht & Hm & Hwn).
  pose proof (find_plug_self _ _ C _ fr Hwn) as Hfind. cbn [nid] in Hfind. rewrite <- Ht, Hf in Hfind.
  inversion Hfind; subst pi cs0. clear Hfind.
  destruct (ctx_child fr C _ cs _ s ch Hwn Hn) as (pre & post & Ecs & Hl & Hwc).
  exists (mkcf (Conc.fp f) pre s post), C. split; [rewrite Ht, Ecs; reflexivity|].
  cbn [mkcf cid cpre]. auto.
Qed.

(* ------------------------------------------------------------------------------------------------ *)
(* unwind                                                                                            *)
(* ------------------------------------------------------------------------------------------------ *)
Lemma root_collapse_gi fr i s (c : itree) :
  wfc [] (INode i [(s, c)]) fr -> TI (INode i [(s, c)]) -> wfc [] c fr /\ TI c.
Proof.
  intros Hw (O & (d & B) & C & Ch). split.
  - eapply (wfc_shrink _ _ [] _ c fr [i]); [exact Hw|]. simpl. rewrite app_nil_r. apply Permutation_refl.
  - rewrite erase_node in O, B, C. cbn [erase_cs map fst snd] in O, B, C.
    destruct (root_collapse K V ltb HS order s (erase_ids c) d O B C) as (O' & B' & C').
    split; [exact O'|]. split; [exact B'|]. split; [exact C'|].
    rewrite links_node in Ch. cbn [links_list flat_map snd] in Ch. rewrite app_nil_r in Ch. exact Ch.
Qed.

Lemma unwind_gi fr : forall stk C (sub : itree) small right l fuel tmx o (out : out),
  fmatch stk C -> wfc C sub fr -> TI (plug C sub) ->
  (small = true -> icount sub < m) ->
  unwind order fuel o stk small right (plug C sub) l fr tmx = Ok out ->
  wfc [] (otr out) fr /\ TI (otr out) /\ ofresh out = fr.
Proof.
  induction stk as [|f stk IH]; intros [|cf C] sub small right l fuel tmx o out Hm Hw HT Hsm H;
    simpl in Hm; try tauto.
  - (* back in Delete: the root collapse *)
    destruct fuel as [|fuel]; [discriminate H|]. cbn [unwind plug] in H. unfold mk in H.
    inversion H; subst out; clear H. cbn [otr ofresh]. cbn [plug] in HT.
    assert (Hgoal : forall t' : itree, wfc [] t' fr /\ TI t' -> wfc [] t' fr /\ TI t' /\ fr = fr) by (intros; tauto).
    apply Hgoal. clear Hgoal.
    destruct (negb small || (1 <? icount sub)) eqn:Ec; [tauto|].
    apply orb_false_iff in Ec. destruct Ec as [_ Ec]. apply Nat.ltb_ge in Ec.
    destruct sub as [i nx es|i [|[s c] cs]]; [tauto|tauto|].
    cbn [icount length] in Ec. destruct cs as [|x cs]; [|simpl in Ec; lia].
    apply (root_collapse_gi fr i s c Hw HT).
  - (* one activation of deleteKey *)
    destruct Hm as (Hfp & Hfi & Hm).
    destruct fuel as [|fuel]; [discriminate H|].
    pose proof (proj2 (wfc_push _ _ cf C sub fr) Hw) as Hw1.
    rewrite unwind_cons in H. destruct small; cbn [negb] in H.
    + assert (Hfind : Conc.find (Conc.fp f) (plug C (plug1 cf sub)) = Some (plug1 cf sub)).
      { rewrite Hfp. apply (find_plug_self K V C (plug1 cf sub) fr Hw1). }
      change (plug (cf :: C) sub) with (plug C (plug1 cf sub)) in H. rewrite Hfind in H.
      unfold plug1 in H at 1.
      destruct ((fidx f + 1 <? length (cpre cf ++ (csep cf, sub) :: cpost cf)) &&
                match right with None => true | Some _ => false end).
      * unfold mk in H. inversion H; subst out; clear H. cbn [otr ofresh].
        split; [|split; [exact HT|reflexivity]]. apply wfc_plug in Hw. exact Hw.
      * destruct (irebalance order f (plug C (plug1 cf sub))) as [[t' small']|] eqn:Er; [|discriminate H].
        cbn [bind] in H.
        destruct (irebalance_gi fr C cf sub f t' small' Hfp Hfi Hw (Hsm eq_refl) Er) as (cs' & -> & Hw2 & Hir & Hs').
        apply (IH C (INode (cid cf) cs') small' None (unlock_frame_kids f right l) fuel tmx o out Hm Hw2);
          [eapply TI_irefines; [exact HT|exact Hir]|exact Hs'|exact H].
    + apply (IH C (plug1 cf sub) false None (unlock_frame_kids f right l) fuel tmx o out Hm Hw1 HT);
        [discriminate|exact H].
Qed.

(* ------------------------------------------------------------------------------------------------ *)
(* the steps                                                                                         *)
(* ------------------------------------------------------------------------------------------------ *)
Lemma leaf_step_irefines k i nx (es es' : list (K * V)) small :
  leaf_delete ltb m k es = Ok (es', small) -> irefines (ILeaf i nx es) (ILeaf i nx es').
Proof.
  intros H. split; [|apply links_equiv_refl]. cbn [erase_ids].
  eapply leaf_delete_refines; eauto.
Qed.

Lemma del_child_gi fr (t t' : itree) f rest c i nx es es' small k o l tmx fuel (out : out) :
  wfc [] t fr -> TI t -> frames_ok_b t (f :: rest) = true -> child_id t (Conc.fp f) (fidx f) = Ok c ->
  Conc.find c t = Some (ILeaf i nx es) -> leaf_delete ltb m k es = Ok (es', small) ->
  upd c (fun _ => Ok (ILeaf i nx es')) t = Ok t' ->
  unwind order fuel o (set_fc f c :: rest) small None t' l fr tmx = Ok out ->
  wfc [] (otr out) fr /\ TI (otr out) /\ ofresh out = fr.
Proof.
  intros Hw HT Hfr Hcid Hfc Hld Hupd Hun.
  unfold child_id in Hcid. destruct (Conc.find (Conc.fp f) t) as [[|pi cs0]|] eqn:Hf; try discriminate Hcid.
  destruct (get_nth (fidx f) cs0) as [[s ch]|] eqn:Eg; [|discriminate Hcid]. cbn [bind] in Hcid.
  inversion Hcid; subst c; clear Hcid.
  apply UpdLemmas.get_nth_Ok in Eg.
  destruct (frames_child_ctx fr f rest t pi cs0 s ch Hw Hfr Hf Eg) as (cf & C & Ht & Hfp & Hfi & Hm & Hwc).
  pose proof (find_plug_self _ _ _ _ fr Hwc) as Hfind. rewrite <- Ht, Hfc in Hfind. inversion Hfind as [Hch]. clear Hfind.
  subst ch. cbn [nid] in *.
  rewrite Ht in Hupd. rewrite (upd_plug_self _ _ (cf :: C) (ILeaf i nx es) fr _ Hwc) in Hupd.
  inversion Hupd; subst t'; clear Hupd.
  apply (unwind_gi fr (set_fc f i :: rest) (cf :: C) (ILeaf i nx es') small None l fuel tmx o out).
  - cbn [fmatch set_fc Conc.fp fidx]. auto.
  - eapply wfc_same; [exact Hwc|reflexivity].
  - apply (TI_irefines (plug (cf :: C) (ILeaf i nx es))); [rewrite <- Ht; exact HT|].
    apply irefines_plug. eapply leaf_step_irefines; eauto.
  - cbn [icount]. apply (leaf_delete_small K V ltb order H4 k es es' small Hld).
  - exact Hun.
Qed.

Lemma del_right_gi fr (t : itree) stk o x l tmx fuel (out : out) :
  wfc [] t fr -> TI t -> pc_ok_b ltb order t (DelWantRight o stk) = true ->
  unwind order fuel o stk true (Some x) t l fr tmx = Ok out ->
  wfc [] (otr out) fr /\ TI (otr out) /\ ofresh out = fr.
Proof.
  intros Hw HT Hpc Hun. cbn [pc_ok_b] in Hpc. apply andb_true_iff in Hpc. destruct Hpc as [Hfr Hsm].
  destruct stk as [|f rest]; [discriminate Hsm|].
  destruct (fc f) as [c|] eqn:Efc; [|discriminate Hsm].
  destruct (Conc.find c t) as [ct|] eqn:Hfc; [|discriminate Hsm]. apply Nat.ltb_lt in Hsm.
  destruct (frames_ok_cons _ _ _ Hfr) as (pi & cs0 & Hf & _ & Hkid & _ & _).
  destruct (Hkid _ Efc) as (s & ch & Hn & Hnid).
  destruct (frames_child_ctx fr f rest t pi cs0 s ch Hw Hfr Hf Hn) as (cf & C & Ht & Hfp & Hfi & Hm & Hwc).
  pose proof (find_plug_self _ _ _ _ fr Hwc) as Hfind. rewrite <- Ht, Hnid, Hfc in Hfind. inversion Hfind as [Hch]. clear Hfind.
  subst ct. rewrite Ht in Hun, HT.
  apply (unwind_gi fr (f :: rest) (cf :: C) ch true (Some x) l fuel tmx o out).
  - cbn [fmatch]. auto.
  - exact Hwc.
  - exact HT.
  - intros _. exact Hsm.
  - exact Hun.
Qed.

Lemma get_thread_in me (l : list (tid * thread K V)) th : get_thread me l = Some th -> exists e, In e l /\ snd e = th.
Proof.
  unfold get_thread. destruct (List.find (fun e => fst e =? me) l) as [e|] eqn:E; [|discriminate].
  intros H. inversion H; subst. apply find_some in E. exists e. tauto.
Qed.

Definition is_delete_pc (p : pc K V) : bool :=
  match p with
  | DelWantLeft _ _ | DelWantChild _ _ | DelWantRight _ _ => true
  | WantRoot (CDelete _) _ => true
  | _ => false end.

(* the core statement: only GI and the consistency of the stepping thread's own pc are used (no occupancy,
   no lock-table invariant, no evenness of the order) *)
Theorem gi_step_delete_core (s s' : st) me th acq ev :
  GI ltb order s -> get_thread me (ths s) = Some th -> pc_ok_b ltb order (tr s) (tpc th) = true ->
  is_delete_pc (tpc th) = true ->
  cstep ltb order s me = Stepped s' acq ev -> GI ltb order s'.
Proof.
  intros HGI Hg Hpcme Hd Hs.
  apply GI_elim in HGI. destruct HGI as [Hw HT].
  rewrite cstep_eq, Hg in Hs. destruct (target s (tpc th)) as [tg|] eqn:Etg; [|discriminate Hs].
  destruct (negb (is_free s tg)); [discriminate Hs|].
  destruct (blk ltb order s me th tg) as [[o|]|] eqn:Hb; try discriminate Hs.
  inversion Hs; subst s' acq ev; clear Hs.
  assert (Hgoal : wfc [] (otr o) (ofresh o) /\ TI (otr o)); [|destruct Hgoal; apply GI_intro; assumption].
  unfold blk in Hb.
  destruct (tpc th) as [ |o0|o0 r|o0 lft rgt|o0 p c index|o0 p c r|o0 leaf mode index|o0 p c|o0 stk|o0 stk|o0 stk|leaf i n acc|leaf nxt n acc]
    eqn:Epc; simpl in Hd; try discriminate Hd; cbv beta iota zeta in Hb.
  - (* WantRoot (CDelete k) r *)
    destruct o0 as [k v|k g|k|k|k n]; try discriminate Hd.
    destruct (tr s) as [i nx es|i cs] eqn:ET.
    + destruct (leaf_delete ltb m k es) as [[es' small]|] eqn:Eld; [|discriminate Hb].
      cbn [bind] in Hb. unfold mk in Hb. cbn [bind] in Hb. inversion Hb; subst o; clear Hb. cbn [otr ofresh].
      split.
      * eapply wfc_same; [exact Hw|reflexivity].
      * eapply TI_irefines; [exact HT|]. eapply leaf_step_irefines; eauto.
    + destruct (del_descend ltb (CDelete k) [] r (INode i cs)) as [p|]; [|discriminate Hb].
      cbn [bind] in Hb. unfold mk in Hb. cbn [bind] in Hb. inversion Hb; subst o; clear Hb. cbn [otr ofresh].
      split; assumption.
  - (* DelWantLeft *)
    destruct stk as [|f rest]; [discriminate Hb|]. destruct tg as [[x|]|]; try discriminate Hb.
    unfold mk in Hb. cbn [bind] in Hb. inversion Hb; subst o; clear Hb. cbn [otr ofresh]. split; assumption.
  - (* DelWantChild *)
    destruct stk as [|f rest]; [discriminate Hb|]. destruct tg as [[c|]|]; try discriminate Hb.
    cbn [target] in Etg.
    destruct (child_id (tr s) (Conc.fp f) (fidx f)) as [x|] eqn:Ecid; [|discriminate Etg].
    cbn [bind] in Etg. inversion Etg; subst x; clear Etg.
    cbn [pc_ok_b] in Hpcme.
    destruct (Conc.find c (tr s)) as [[i nx es|i cs]|] eqn:Hfc; [| |discriminate Hb].
    + destruct (leaf_delete ltb m (key_of o0) es) as [[es' small]|] eqn:Eld; [|discriminate Hb]. cbn [bind] in Hb.
      destruct (upd c (fun _ => Ok (ILeaf i nx es')) (tr s)) as [t'|] eqn:Eupd; [|discriminate Hb]. cbn [bind] in Hb.
      destruct (unwind order (S (S (length (f :: rest)))) o0 (set_fc f c :: rest) small None t'
                  ((c, me) :: lk s) (fresh s) (tm s)) as [out'|] eqn:Eun; [|discriminate Hb].
      cbn [bind] in Hb. inversion Hb; subst out'; clear Hb.
      destruct (del_child_gi (fresh s) (tr s) t' f rest c i nx es es' small (key_of o0) o0 _ _ _ o
                  Hw HT Hpcme Ecid Hfc Eld Eupd Eun) as (A1 & A2 & A3).
      rewrite A3. split; assumption.
    + destruct (del_descend ltb o0 (set_fc f c :: rest) c (tr s)) as [p|]; [|discriminate Hb].
      cbn [bind] in Hb. unfold mk in Hb. cbn [bind] in Hb. inversion Hb; subst o; clear Hb. cbn [otr ofresh].
      split; assumption.
  - (* DelWantRight *)
    destruct tg as [[x|]|]; try discriminate Hb.
    destruct (unwind order (S (S (length stk))) o0 stk true (Some x) (tr s) ((x, me) :: lk s) (fresh s) (tm s))
      as [out'|] eqn:Eun; [|discriminate Hb].
    cbn [bind] in Hb. inversion Hb; subst out'; clear Hb.
    destruct (del_right_gi (fresh s) (tr s) stk o0 x _ _ _ o Hw HT Hpcme Eun) as (A1 & A2 & A3).
    rewrite A3. split; assumption.
Qed.

Theorem gi_step_delete0 (s s' : st) me th acq ev :
  CIfull ltb order s -> get_thread me (ths s) = Some th -> is_delete_pc (tpc th) = true ->
  cstep ltb order s me = Stepped s' acq ev -> GI ltb order s'.
Proof.
  intros [[HGI [Hli Hpc]] Hocc] Hg Hd Hs.
  assert (Hpcme : pc_ok_b ltb order (tr s) (tpc th) = true).
  { destruct (get_thread_in _ _ _ Hg) as (e & Hin & <-). unfold all_pc_ok_b in Hpc.
    rewrite forallb_forall in Hpc. apply (Hpc e Hin). }
  eapply gi_step_delete_core; eauto.
Qed.

End G.

Section Final.
Variables (K V : Type) (ltb : K -> K -> bool).
Hypothesis HS : SWO ltb.

Theorem gi_step_delete : forall order (s s' : st K V) me th acq ev,
  Nat.even order = true -> 4 <= order ->
  CIfull ltb order s -> all_inv K V s ->
  get_thread me (ths s) = Some th -> is_delete_pc K V (tpc th) = true ->
  cstep ltb order s me = Stepped s' acq ev ->
  GI ltb order s'.
Proof.
  intros order s s' me th acq ev _ H4 HCI _ Hg Hd Hs.
  exact (gi_step_delete0 K V ltb HS order H4 s s' me th acq ev HCI Hg Hd Hs).
Qed.
End Final.

Print Assumptions gi_step_delete.

(* Nothing remains: [gi_step_delete] is proved for all four Delete pcs as stated.
   Remarks: the hypotheses [Nat.even order = true], [all_inv K V s], [lock_inv2] and [occ_ok_b] are not used;
   [gi_step_delete_core] needs only [GI ltb order s], [pc_ok_b ltb order (tr s) (tpc th) = true] and [4 <= order]. *)

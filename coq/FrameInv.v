(* FrameInv.v — the auxiliary invariant [frame_inv] (what the identities recorded in a program counter mean in
   the tree) and the effect of every tree-changing primitive of Conc.v in terms of [acct] and [frm]. *)
From Coq Require Import List Permutation Lia Bool PeanoNat.
From GB Require Import ListLemmas TreeLemmas Frame LockProof UpdLemmas FrameRel.
Import ListNotations.

Ltac crunch H :=
  repeat (match type of H with
  | bind ?e _ = Ok _ => let E := fresh "E" in destruct e eqn:E; [cbn [bind] in H | discriminate H]
  | (let '(_, _) := ?p in _) = Ok _ => destruct p
  | (if ?c then _ else _) = Ok _ => let E := fresh "E" in destruct c eqn:E
  | match ?e with _ => _ end = Ok _ => let E := fresh "E" in destruct e eqn:E; try discriminate H
  end).

Section Inv.
Variables (K V : Type) (ltb : K -> K -> bool).
Notation itree := (itree K V).
Notation view := (view K V).
Notation pc := (pc K V).
Notation st := (st K V).
Notation out := (out K V).

(* ------------------------------------------------------------------------------------------------ *)
(* the auxiliary invariant                                                                           *)
(* ------------------------------------------------------------------------------------------------ *)

(* if p is (still) an internal node of t, its j-th child pointer is c *)
Definition child_at (t : itree) (p : id) (j : nat) (c : id) : Prop :=
  forall vcs, node_view p t = Some (VNode V vcs) -> exists k, nth_error vcs j = Some (k, c).

Definition left_ok (t : itree) (f : frame) : Prop :=
  0 < fidx f -> exists l, fl f = Some l /\ child_at t (fp f) (fidx f - 1) l.
Definition kid_ok (t : itree) (f : frame) : Prop :=
  exists c, fc f = Some c /\ child_at t (fp f) (fidx f) c.
Definition link (f : frame) (rest : list frame) : Prop :=
  match rest with [] => True | g :: _ => fc g = Some (fp f) end.

Fixpoint stack_ok (t : itree) (fr : id) (stk : list frame) : Prop :=
  match stk with
  | [] => True
  | f :: rest => fp f < fr /\ left_ok t f /\ kid_ok t f /\ link f rest /\ stack_ok t fr rest
  end.

Definition pc_ok (t : itree) (fr : id) (p : pc) : Prop :=
  match p with
  | InsWantChild _ p c index => p < fr /\ child_at t p index c
  | DelWantLeft _ (f :: rest) => fp f < fr /\ link f rest /\ stack_ok t fr rest
  | DelWantChild _ (f :: rest) => fp f < fr /\ left_ok t f /\ link f rest /\ stack_ok t fr rest
  | DelWantRight _ stk => stack_ok t fr stk
  | _ => True
  end.

Definition frame_inv (s : st) : Prop :=
  forall u th, get_thread u (ths s) = Some th -> pc_ok (tr s) (fresh s) (tpc th).

(* no node is so full that a split would drop entries (holds for even orders whenever no node exceeds the order) *)
Definition lossless (order : nat) (t : itree) : Prop :=
  forall x n, find x t = Some n -> icount n <= 2 * Nat.div2 order.

(* ---- child_at ---- *)
Lemma view_of_find x (t : itree) pi cs : find x t = Some (INode pi cs) -> node_view x t = Some (VNode V (ptrs cs)).
Proof. intros H. unfold node_view. rewrite H. reflexivity. Qed.

Lemma nth_ptrs (cs : list (K * itree)) j k ch : nth_error cs j = Some (k, ch) -> nth_error (ptrs cs) j = Some (k, nid ch).
Proof. intros H. unfold ptrs. rewrite nth_error_map', H. reflexivity. Qed.

Lemma child_id_at (t : itree) p j x : child_id t p j = Ok x -> child_at t p j x.
Proof.
  unfold child_id. intros H vcs Hv. destruct (find p t) as [[i nx es|pi cs]|] eqn:Hf; try discriminate H.
  rewrite (view_of_find _ _ _ _ Hf) in Hv. inversion Hv; subst vcs.
  destruct (get_nth j cs) as [[k ch]|] eqn:Hg; [|discriminate H]. simpl in H. inversion H; subst x.
  exists k. apply nth_ptrs. apply get_nth_Ok. exact Hg.
Qed.

Lemma child_at_nth (t : itree) p j c pi cs k ch :
  child_at t p j c -> find p t = Some (INode pi cs) -> nth_error cs j = Some (k, ch) -> nid ch = c.
Proof.
  intros H Hf Hn. destruct (H _ (view_of_find _ _ _ _ Hf)) as [k' Hk].
  rewrite (nth_ptrs _ _ _ _ Hn) in Hk. inversion Hk. reflexivity.
Qed.

Lemma find_child_at (t : itree) p pi cs j k ch :
  find p t = Some (INode pi cs) -> nth_error cs j = Some (k, ch) -> child_at t p j (nid ch).
Proof.
  intros Hf Hn vcs Hv. rewrite (view_of_find _ _ _ _ Hf) in Hv. inversion Hv; subst.
  exists k. apply nth_ptrs. exact Hn.
Qed.

Lemma child_at_frm (G : Prop) W (t t' : itree) p j c :
  frm G W t t' -> ~ In p W -> child_at t p j c -> child_at t' p j c.
Proof.
  intros Hfr Hp H vcs Hv. destruct (Hfr p Hp) as [E|[_ E]]; rewrite E in Hv; [auto | discriminate].
Qed.

Lemma stack_ok_frm (G : Prop) W (t t' : itree) fr fr' stk :
  frm G W t t' -> fr <= fr' -> (forall f, In f stk -> ~ In (fp f) W) -> stack_ok t fr stk -> stack_ok t' fr' stk.
Proof.
  intros Hfr Hle. induction stk as [|f rest IH]; simpl; intros HW H; [exact I|].
  destruct H as (H1 & H2 & H3 & H4 & H5).
  assert (Hp : ~ In (fp f) W) by (apply HW; auto).
  split; [lia|]. split; [|split; [|split; [exact H4 | apply IH; auto]]].
  - intros Hpos. destruct (H2 Hpos) as [l [A B]]. exists l. split; [exact A|]. eapply child_at_frm; eauto.
  - destruct H3 as [c [A B]]. exists c. split; [exact A|]. eapply child_at_frm; eauto.
Qed.

Lemma left_ok_frm (G : Prop) W (t t' : itree) f :
  frm G W t t' -> ~ In (fp f) W -> left_ok t f -> left_ok t' f.
Proof.
  intros Hfr Hp H Hpos. destruct (H Hpos) as [l [A B]]. exists l. split; [exact A|]. eapply child_at_frm; eauto.
Qed.

(* ---- the nodes of a Delete stack are held ---- *)
Fixpoint links (stk : list frame) : Prop :=
  match stk with [] => True | f :: rest => link f rest /\ links rest end.

Lemma stack_ok_links t fr stk : stack_ok t fr stk -> links stk.
Proof. induction stk as [|f rest IH]; simpl; [auto|]. intros (_ & _ & _ & H4 & H5). auto. Qed.

Lemma fp_in_frames root stk :
  links stk -> bottom_ok root stk -> forall f, In f stk -> In (fp f) (root :: flat_map fkids stk).
Proof.
  induction stk as [|f rest IH]; intros Hl Hb g Hg; [destruct Hg|].
  destruct Hl as [Hl1 Hl2]. destruct Hg as [<-|Hg].
  - destruct rest as [|g' rest'].
    + unfold bottom_ok in Hb. simpl in Hb. left. auto.
    + simpl in Hl1. right. simpl. rewrite !in_app_iff. right. left.
      unfold fkids. rewrite Hl1. rewrite in_app_iff. right. simpl. auto.
  - assert (Hb' : bottom_ok root rest) by (eapply bottom_ok_tail; eauto).
    destruct (IH Hl2 Hb' g Hg) as [H|H]; [left; exact H|]. right. simpl. rewrite in_app_iff. right. exact H.
Qed.

(* ... and strictly below the top frame's own entries *)
Lemma fp_in_tail root g rest :
  links (g :: rest) -> bottom_ok root (g :: rest) -> forall f, In f (g :: rest) -> In (fp f) (root :: flat_map fkids rest).
Proof.
  intros [Hl1 Hl2] Hb f [<-|Hf].
  - destruct rest as [|g' rest'].
    + unfold bottom_ok in Hb. simpl in Hb. left. auto.
    + simpl in Hl1. right. simpl. rewrite in_app_iff. left.
      unfold fkids. rewrite Hl1. rewrite in_app_iff. right. simpl. auto.
  - apply fp_in_frames; auto. eapply bottom_ok_tail; eauto.
Qed.

Lemma rest_fp_notin root f rest right :
  links (f :: rest) -> bottom_ok root (f :: rest) ->
  NoDup (root :: opt_list right ++ flat_map fkids (f :: rest)) ->
  forall f', In f' rest -> ~ In (fp f') (fp f :: opt_list right ++ fkids f).
Proof.
  intros [Hl1 Hl2] Hb Hnd f' Hf'.
  destruct rest as [|g rest']; [destruct Hf'|].
  assert (Hb' : bottom_ok root (g :: rest')) by (eapply bottom_ok_tail; eauto).
  pose proof (fp_in_tail root g rest' Hl2 Hb' f' Hf') as Hin.
  simpl in Hl1. simpl in Hnd.
  assert (Hfp : In (fp f) (fkids g)) by (unfold fkids; rewrite Hl1, in_app_iff; right; simpl; auto).
  revert Hnd. rewrite cnt_nodup. intros Hnd. specialize (Hnd (fp f')).
  simpl in Hnd. rewrite !cnt_app in Hnd.
  assert (Hc : 1 <= (if root =? fp f' then 1 else 0) + cnt (flat_map fkids rest') (fp f')).
  { destruct Hin as [E|Hin]; [rewrite E, Nat.eqb_refl; lia | apply cnt_in in Hin; lia]. }
  intros [E|Hx].
  - rewrite E in Hfp. apply cnt_in in Hfp. lia.
  - rewrite in_app_iff in Hx. destruct Hx as [Hx|Hx]; apply cnt_in in Hx; lia.
Qed.

(* ------------------------------------------------------------------------------------------------ *)
(* splitting, borrowing, merging                                                                     *)
(* ------------------------------------------------------------------------------------------------ *)
Lemma in_nodesl_firstn (l : list (K * itree)) n z : In z (nodesl (firstn n l)) -> In z (nodesl l).
Proof. intros H. rewrite <- (firstn_skipn n l), nodesl_app, in_app_iff. auto. Qed.
Lemma in_nodesl_skipn (l : list (K * itree)) n z : In z (nodesl (skipn n l)) -> In z (nodesl l).
Proof. intros H. rewrite <- (firstn_skipn n l), nodesl_app, in_app_iff. auto. Qed.

Lemma isplit_rel order fr (n l r : itree) : isplit order fr n = Some (l, r) ->
  nid l = nid n /\ nid r = fr /\
  (forall x, cnt (ids l ++ ids r) x <= cnt (ids n) x + cnt [fr] x) /\
  (forall y v, y <> nid n -> y <> fr -> In (y, v) (nodes l ++ nodes r) -> In (y, v) (nodes n)) /\
  (icount n <= 2 * Nat.div2 order -> forall y v, y <> nid n -> y <> fr -> In (y, v) (nodes n) -> In (y, v) (nodes l ++ nodes r)).
Proof.
  unfold isplit. destruct (icount n <? order); [discriminate|].
  destruct n as [i nx es|i cs]; intros H; inversion H; subst; clear H; simpl nid.
  - split; [reflexivity|]. split; [reflexivity|]. split; [|split].
    + intros x. simpl. lia.
    + simpl. intros y v H1 H2 [E|[E|[]]]; inversion E; congruence.
    + simpl. intros _ y v H1 H2 [E|[]]. inversion E; congruence.
  - set (h := Nat.div2 order). split; [reflexivity|]. split; [reflexivity|]. split; [|split].
    + intros x. rewrite !ids_node. simpl. rewrite cnt_app. simpl.
      unfold idsl. rewrite (cnt_firstn_skipn _ (fun c : K * itree => ids (snd c)) cs h x).
      pose proof (cnt_firstn_le _ (fun c : K * itree => ids (snd c)) (skipn h cs) h x). lia.
    + rewrite !nodes_node. intros y v H1 H2. simpl. rewrite in_app_iff. simpl.
      intros [E|[Hin|[E|Hin]]]; try (inversion E; congruence); right.
      * eapply in_nodesl_firstn; eauto.
      * eapply in_nodesl_skipn. eapply in_nodesl_firstn; eauto.
    + simpl icount. intros Hlen. rewrite !nodes_node. intros y v H1 H2. simpl. rewrite in_app_iff. simpl.
      intros [E|Hin]; [inversion E; congruence|]. right.
      rewrite <- (firstn_skipn h cs), nodesl_app, in_app_iff in Hin.
      destruct Hin as [Hin|Hin]; [left; exact Hin|]. right. right.
      rewrite firstn_all2; [exact Hin|]. rewrite skipn_length. lia.
Qed.

Lemma iadopt_right_rel (l r l' r' : itree) : iadopt_right l r = Ok (l', r') ->
  nid l' = nid l /\ nid r' = nid r /\
  (forall x, cnt (ids l' ++ ids r') x = cnt (ids l ++ ids r) x) /\
  (forall y v, y <> nid l -> y <> nid r -> (In (y, v) (nodes l' ++ nodes r') <-> In (y, v) (nodes l ++ nodes r))).
Proof.
  clear ltb. unfold iadopt_right. intros H.
  destruct l as [li ln le|li lc]; destruct r as [ri rn [|x re]|ri [|x rc]]; try discriminate H; inversion H; subst; clear H; simpl nid.
  - split; [reflexivity|]. split; [reflexivity|]. split; [intros; reflexivity|].
    simpl. intros y v H1 H2. split; intros [E|[E|[]]]; inversion E; congruence.
  - split; [reflexivity|]. split; [reflexivity|]. split.
    + intros y. rewrite !ids_node, !idsl_app, !idsl_cons. simpl. rewrite !cnt_app. simpl. rewrite !cnt_app. simpl. lia.
    + intros y v H1 H2. rewrite !nodes_node, !nodesl_app, !nodesl_cons. simpl. rewrite !in_app_iff. simpl. rewrite !in_app_iff.
      split; intros [E|Hin]; try (inversion E; congruence); right; intuition (try congruence);
        match goal with E : (_, _) = (_, _) |- _ => inversion E; congruence end.
Qed.

Lemma rev_cons_inv {A} (l : list A) x l' : rev l = x :: l' -> l = rev l' ++ [x].
Proof. intros H. rewrite <- (rev_involutive l), H. reflexivity. Qed.

Lemma iadopt_left_rel (l r l' r' : itree) : iadopt_left l r = Ok (l', r') ->
  nid l' = nid l /\ nid r' = nid r /\
  (forall x, cnt (ids l' ++ ids r') x = cnt (ids l ++ ids r) x) /\
  (forall y v, y <> nid l -> y <> nid r -> (In (y, v) (nodes l' ++ nodes r') <-> In (y, v) (nodes l ++ nodes r))).
Proof.
  clear ltb. unfold iadopt_left. intros H.
  destruct l as [li ln le|li lc]; destruct r as [ri rn re|ri rc]; try discriminate H.
  - destruct (rev le) as [|x le'] eqn:E; [discriminate|]. inversion H; subst; clear H. simpl nid.
    split; [reflexivity|]. split; [reflexivity|]. split; [intros; reflexivity|].
    simpl. intros y v H1 H2. split; intros [E1|[E1|[]]]; inversion E1; congruence.
  - destruct (rev lc) as [|x lc'] eqn:E; [discriminate|]. inversion H; subst; clear H. simpl nid.
    apply rev_cons_inv in E. subst lc.
    split; [reflexivity|]. split; [reflexivity|]. split.
    + intros y. rewrite !ids_node, !idsl_app, !idsl_cons. simpl. rewrite !cnt_app. simpl. rewrite !cnt_app. simpl. lia.
    + intros y v H1 H2. rewrite !nodes_node, !nodesl_app, !nodesl_cons. simpl. rewrite !in_app_iff. simpl. rewrite !in_app_iff.
      split; intros [E|Hin]; try (inversion E; congruence); right; intuition (try congruence);
        match goal with E : (_, _) = (_, _) |- _ => inversion E; congruence end.
Qed.

Lemma iabsorb_rel (l r l' : itree) : iabsorb l r = Ok l' ->
  nid l' = nid l /\
  (forall x, cnt (ids l') x <= cnt (ids l ++ ids r) x) /\
  (forall y v, y <> nid l -> y <> nid r -> (In (y, v) (nodes l') <-> In (y, v) (nodes l ++ nodes r))).
Proof.
  clear ltb. unfold iabsorb. intros H.
  destruct l as [li ln le|li lc]; destruct r as [ri rn re|ri rc]; try discriminate H; inversion H; subst; clear H; simpl nid.
  - split; [reflexivity|]. split; [intros x; simpl; lia|].
    simpl. intros y v H1 H2. split; [intros [E|[]] | intros [E|[E|[]]]]; inversion E; congruence.
  - split; [reflexivity|]. split.
    + intros y. rewrite !ids_node, !idsl_app. simpl. rewrite !cnt_app. simpl. lia.
    + intros y v H1 H2. rewrite !nodes_node, !nodesl_app. simpl. rewrite !in_app_iff. simpl.
      split; intros [E|Hin]; try (inversion E; congruence); right; intuition (try congruence);
        match goal with E : (_, _) = (_, _) |- _ => inversion E; congruence end.
Qed.

End Inv.

Arguments child_at {K V}. Arguments left_ok {K V}. Arguments kid_ok {K V}. Arguments stack_ok {K V}.
Arguments pc_ok {K V}. Arguments frame_inv {K V}. Arguments lossless {K V}.

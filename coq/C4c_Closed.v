(* C4c_Closed.v — the first-step theorem of C04 with every premise discharged: the three section hypotheses of
   C4c_Final.v are instantiated with NG_Proof.v (nogap is inductive) and SLo_Proof.v (a held node's lower-bound fact
   survives the steps of other threads). *)
From Coq Require Import List PeanoNat.
From GB Require Import Model Inv Conc GI Lin NoGap C4_Proof NG_Proof SLo_Proof C4c_Inv C4c_Final.
Import ListNotations.

Section Closed.
Variables (K V : Type) (ltb : K -> K -> bool).
Hypothesis HS : SWO ltb.
Variable order : nat.
Hypothesis Heven : Nat.even order = true.
Hypothesis H4 : 4 <= order.
Variable progs : list (tid * list (cop K V)).
Hypothesis Hnd : NoDup (map fst progs).
Variable sched : list tid.
Let s := fst (exec ltb order (init_st progs) sched).

(* both new invariants hold in every reachable state *)
Theorem nogap_and_scan_lo_reachable : nogap_st_b ltb s = true /\ scan_lo_b ltb s = true.
Proof.
  exact (scan_lo_reachable K V ltb HS order Heven H4
           (nogap_step K V ltb HS order H4) (nogap_init K V ltb)
           (scan_lo_other_step K V ltb HS order Heven H4) progs sched Hnd).
Qed.

(* the first pair a cursor yields is, at the step that yields it, the stored pair with the least key >= start *)
Theorem first_step_atomic : forall s' me acq ev e th k cnt,
  cstep ltb order s me = Stepped s' acq ev -> In (EPair e) ev ->
  get_thread me (ths s) = Some th -> yielded (tpc th) = [] ->
  hd_error (prog th) = Some (CScan k cnt) ->
  In e (abs ltb s) /\ abs ltb s' = abs ltb s /\ ltb (fst e) k = false /\
  forall e', In e' (abs ltb s) -> ltb (fst e') k = false -> ltb (fst e') (fst e) = false.
Proof.
  exact (C04_first_step_atomic K V ltb HS order Heven H4
           (nogap_step K V ltb HS order H4) (nogap_init K V ltb)
           (scan_lo_other_step K V ltb HS order Heven H4) progs Hnd sched).
Qed.
End Closed.

Print Assumptions nogap_and_scan_lo_reachable.
Print Assumptions first_step_atomic.

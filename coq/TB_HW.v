(* TB_HW.v — linearizability in the sense of Herlihy and Wing, as an abstract definition on histories (lists of
   invocation and response events tagged with thread ids), and the theorem that the history of every execution of
   the concurrent B+tree model is linearizable.  Derived from the whole-trace statements of TB_Link.v / TB_Proof.v
   (Good: every completed call has exactly one linearization point inside its interval, with its result;
    LpOk: every linearization point lies inside a call of its thread; legal_history: the linearization points in
    trace order are a legal run of the specification).  See the summary at the end of the file. *)
From Coq Require Import List Bool PeanoNat Lia Sorted.
From GB Require Import Model Inv Spec LinDef SoloBase LINc_Blocks LINc_Proof Final TB_Trace TB_Link TB_Proof.
Import ListNotations.

(* ================================================================================================ *)
(* generic list facts                                                                                *)
(* ================================================================================================ *)
Section IFilter.
Context {A B : Type}.
Variable f : nat -> A -> option B.

(* filter-map with positions: the elements kept, each with its position (counted from j) *)
Fixpoint ifilter (j : nat) (l : list A) : list (nat * B) :=
  match l with
  | [] => []
  | a :: l' => match f j a with Some b => (j, b) :: ifilter (S j) l' | None => ifilter (S j) l' end
  end.

Lemma ifilter_in : forall l j m b,
  In (m, b) (ifilter j l) <-> exists a, j <= m /\ nth_error l (m - j) = Some a /\ f m a = Some b.
Proof.
  induction l as [|a0 l IH]; intros j m b.
  - simpl. split; [tauto|]. intros (a & _ & H & _). destruct (m - j); discriminate H.
  - assert (R : (exists a, S j <= m /\ nth_error l (m - S j) = Some a /\ f m a = Some b) ->
                exists a, j <= m /\ nth_error (a0 :: l) (m - j) = Some a /\ f m a = Some b).
    { intros (a & H1 & H2 & H3). exists a. split; [lia|]. split; [|exact H3].
      replace (m - j) with (S (m - S j)) by lia. exact H2. }
    assert (L : (exists a, j <= m /\ nth_error (a0 :: l) (m - j) = Some a /\ f m a = Some b) ->
                (m = j /\ f j a0 = Some b) \/ exists a, S j <= m /\ nth_error l (m - S j) = Some a /\ f m a = Some b).
    { intros (a & H1 & H2 & H3). destruct (Nat.eq_dec m j) as [->|Hne].
      - left. split; [reflexivity|]. rewrite Nat.sub_diag in H2. simpl in H2. inversion H2; subst. exact H3.
      - right. exists a. split; [lia|]. split; [|exact H3].
        replace (m - j) with (S (m - S j)) in H2 by lia. exact H2. }
    simpl. destruct (f j a0) as [b0|] eqn:E.
    + simpl. rewrite IH. split.
      * intros [H|H]; [|exact (R H)]. inversion H; subst. exists a0. split; [lia|].
        rewrite Nat.sub_diag. split; [reflexivity|exact E].
      * intros H. destruct (L H) as [[-> H']|H']; [left; congruence|right; exact H'].
    + rewrite IH. split; [exact R|]. intros H. destruct (L H) as [[-> H']|H']; [congruence|exact H'].
Qed.

Lemma ifilter_ge : forall l j u, In u (ifilter j l) -> j <= fst u.
Proof.
  intros l j [m b] H. apply ifilter_in in H. destruct H as (a & H & _). exact H.
Qed.

Lemma ifilter_sorted : forall l j, StronglySorted (fun u v : nat * B => fst u < fst v) (ifilter j l).
Proof.
  induction l as [|a l IH]; intros j; simpl; [constructor|].
  destruct (f j a) as [b|]; [|apply IH]. constructor; [apply IH|].
  apply Forall_forall. intros u Hu. apply ifilter_ge in Hu. simpl. lia.
Qed.

End IFilter.

Lemma sorted_split {A} (R : A -> A -> Prop) (l1 l2 : list A) x :
  StronglySorted R (l1 ++ x :: l2) -> Forall (R x) l2.
Proof.
  induction l1 as [|a l1 IH]; simpl; intros H; apply StronglySorted_inv in H; destruct H as [H1 H2].
  - exact H2.
  - apply IH. exact H1.
Qed.

Lemma sorted_nodup {A B} (R : A -> A -> Prop) (g : A -> B) (l : list A) :
  StronglySorted R l -> (forall u v, In u l -> In v l -> R u v -> g u <> g v) -> NoDup (map g l).
Proof.
  induction l as [|a l IH]; intros HS Hg; simpl; [constructor|].
  apply StronglySorted_inv in HS. destruct HS as [HS1 HS2]. constructor.
  - intros Hin. apply in_map_iff in Hin. destruct Hin as (v & Ev & Hv).
    rewrite Forall_forall in HS2. apply (Hg a v); [left; reflexivity|right; exact Hv|apply HS2; exact Hv|].
    symmetry. exact Ev.
  - apply IH; [exact HS1|]. intros u v Hu Hv. apply Hg; right; assumption.
Qed.

Lemma nth_error_firstn_lt {A} : forall (l : list A) n j, j < n -> nth_error (firstn n l) j = nth_error l j.
Proof.
  induction l as [|a l IH]; intros n j Hj.
  - rewrite firstn_nil. reflexivity.
  - destruct n as [|n]; [lia|]. destruct j as [|j]; [reflexivity|]. simpl. apply IH. lia.
Qed.

(* ================================================================================================ *)
(* histories and the definition of linearizability                                                  *)
(* ================================================================================================ *)
Section Histories.
Variables (K V : Type) (ltb : K -> K -> bool).
Notation cop := (cop K V).
Notation ores := (ores K V).

(* an event of a history: thread t invokes call o / thread t receives response r *)
Inductive hev := HInv (t : tid) (o : cop) | HRes (t : tid) (r : ores).
Definition history := list hev.
Definition hev_tid (e : hev) : tid := match e with HInv t _ | HRes t _ => t end.

(* no event of thread t strictly between positions a and n *)
Definition quiet_between (h : history) (t : tid) (a n : nat) : Prop :=
  forall j e, a < j < n -> nth_error h j = Some e -> hev_tid e <> t.

(* the event at n is the response matching the invocation at a (the next event of the thread) *)
Definition matching (h : history) (a n : nat) (t : tid) (o : cop) (r : ores) : Prop :=
  a < n /\ nth_error h a = Some (HInv t o) /\ nth_error h n = Some (HRes t r) /\ quiet_between h t a n.

(* real-time order  <_H : the operation invoked at a1 is complete before the operation invoked at a2 begins *)
Definition precedes (h : history) (a1 a2 : nat) : Prop :=
  exists n1 t o r, matching h a1 n1 t o r /\ n1 < a2.

(* an operation of the sequential witness: the position in h of its invocation, the specification operation and
   the response the specification gives (for an operation pending in h this is the response appended to h in
   Herlihy and Wing's extension H' of H) *)
Definition sop : Type := nat * op K V * obs V.
Definition s_inv (e : sop) : nat := fst (fst e).
Definition s_op (e : sop) : op K V := snd (fst e).
Definition s_ans (e : sop) : obs V := snd e.

(* S consists of operations of h, each at most once *)
Definition ops_of_history (h : history) (S : list sop) : Prop :=
  NoDup (map s_inv S) /\
  forall e, In e S -> exists t o, nth_error h (s_inv e) = Some (HInv t o) /\ spec_op o = Some (s_op e).

(* S contains every completed (point) operation of h, with the response it has in h *)
Definition complete_in (h : history) (S : list sop) : Prop :=
  forall a n t o r, matching h a n t o r -> is_scan o = false ->
    exists e, In e S /\ s_inv e = a /\ ores_of_obs K (s_ans e) = r.

(* S is a legal sequential history of the specification (the ideal map, from the empty map) *)
Definition seq_legal (S : list sop) : Prop := snd (run_spec ltb [] (map s_op S)) = map s_ans S.

(* <_H is contained in <_S *)
Definition respects_rt (h : history) (S : list sop) : Prop :=
  forall S1 e2 S2 e1, S = S1 ++ e2 :: S2 -> In e1 S2 -> ~ precedes h (s_inv e1) (s_inv e2).

Definition linearizable (h : history) : Prop :=
  exists S, ops_of_history h S /\ complete_in h S /\ seq_legal S /\ respects_rt h S.

(* well-formedness: every thread alternates invocations and responses, beginning with an invocation *)
Fixpoint alternates (busy : bool) (l : history) : Prop :=
  match l with
  | [] => True
  | HInv _ _ :: l' => busy = false /\ alternates true l'
  | HRes _ _ :: l' => busy = true /\ alternates false l'
  end.
Definition well_formed (h : history) : Prop :=
  forall t, alternates false (filter (fun e => hev_tid e =? t) h).

(* ================================================================================================ *)
(* the history of a trace                                                                            *)
(* ================================================================================================ *)
Notation irec := (irec K V).

Definition hev_of (t : tid) (e : event K V) : list hev :=
  match e with EInvoke o => [HInv t o] | EReturn r => [HRes t r] | _ => [] end.
Definition rec_hist (r : irec) : list hev := flat_map (hev_of (r_tid r)) (r_ev r).
Definition history_of (T : list irec) : history := flat_map rec_hist T.

(* the position in the history of the events of the j-th record *)
Definition pos (T : list irec) (j : nat) : nat := length (history_of (firstn j T)).

Lemma pos_0 T : pos T 0 = 0.
Proof. reflexivity. Qed.
Lemma pos_nil j : pos [] j = 0.
Proof. unfold pos. rewrite firstn_nil. reflexivity. Qed.
Lemma pos_cons r T j : pos (r :: T) (S j) = length (rec_hist r) + pos T j.
Proof. unfold pos. simpl. rewrite app_length. reflexivity. Qed.

Lemma pos_event : forall T j r e, nth_error T j = Some r -> rec_hist r = [e] ->
  nth_error (history_of T) (pos T j) = Some e.
Proof.
  induction T as [|a T IH]; intros j r e Hj He; [destruct j; discriminate Hj|].
  destruct j as [|j]; simpl in Hj.
  - inversion Hj; subst a. rewrite pos_0. simpl. rewrite He. reflexivity.
  - rewrite pos_cons. change (history_of (a :: T)) with (rec_hist a ++ history_of T).
    rewrite nth_error_app2 by apply Nat.le_add_r.
    rewrite Nat.add_comm, Nat.add_sub. eapply IH; eauto.
Qed.

Lemma pos_inverse : forall T, (forall r, In r T -> length (rec_hist r) <= 1) -> forall p e,
  nth_error (history_of T) p = Some e -> exists j r, nth_error T j = Some r /\ rec_hist r = [e] /\ pos T j = p.
Proof.
  induction T as [|a T IH]; intros Hsh p e Hp; [destruct p; discriminate Hp|].
  assert (Hsh' : forall r, In r T -> length (rec_hist r) <= 1) by (intros r Hr; apply Hsh; right; exact Hr).
  pose proof (Hsh a (or_introl eq_refl)) as Ha. simpl in Hp.
  destruct (rec_hist a) as [|e0 [|e1 l]] eqn:E; [| |simpl in Ha; lia].
  - simpl in Hp. destruct (IH Hsh' p e Hp) as (j & r & H1 & H2 & H3).
    exists (S j), r. split; [exact H1|]. split; [exact H2|]. rewrite pos_cons, E. simpl. exact H3.
  - destruct p as [|p]; simpl in Hp.
    + inversion Hp; subst e0. exists 0, a. split; [reflexivity|]. split; [exact E|reflexivity].
    + destruct (IH Hsh' p e Hp) as (j & r & H1 & H2 & H3).
      exists (S j), r. split; [exact H1|]. split; [exact H2|]. rewrite pos_cons, E. simpl. rewrite H3. reflexivity.
Qed.

Lemma pos_mono : forall T j1 j2, j1 <= j2 -> pos T j1 <= pos T j2.
Proof.
  induction T as [|a T IH]; intros j1 j2 H; [rewrite !pos_nil; lia|].
  destruct j1 as [|j1]; [rewrite pos_0; lia|]. destruct j2 as [|j2]; [lia|].
  rewrite !pos_cons. specialize (IH j1 j2). lia.
Qed.

Lemma pos_strict : forall T j1 j2 r e, j1 < j2 -> nth_error T j1 = Some r -> rec_hist r = [e] ->
  pos T j1 < pos T j2.
Proof.
  induction T as [|a T IH]; intros j1 j2 r e H Hj He; [destruct j1; discriminate Hj|].
  destruct j2 as [|j2]; [lia|]. destruct j1 as [|j1]; simpl in Hj.
  - inversion Hj; subst a. rewrite pos_0, pos_cons, He. simpl. lia.
  - rewrite !pos_cons. assert (H' : j1 < j2) by lia. specialize (IH j1 j2 r e H' Hj He). lia.
Qed.

Lemma pos_lt_inv T j1 j2 : pos T j1 < pos T j2 -> j1 < j2.
Proof.
  intros H. destruct (Nat.lt_ge_cases j1 j2) as [Hlt|Hge]; [exact Hlt|].
  pose proof (pos_mono T j2 j1 Hge). lia.
Qed.

Lemma pos_inj T j1 j2 r1 e1 r2 e2 :
  nth_error T j1 = Some r1 -> rec_hist r1 = [e1] -> nth_error T j2 = Some r2 -> rec_hist r2 = [e2] ->
  pos T j1 = pos T j2 -> j1 = j2.
Proof.
  intros A1 A2 B1 B2 E. destruct (Nat.lt_trichotomy j1 j2) as [H|[H|H]]; [|exact H|].
  - pose proof (pos_strict T j1 j2 r1 e1 H A1 A2). lia.
  - pose proof (pos_strict T j2 j1 r2 e2 H B1 B2). lia.
Qed.

(* ---- the events of a well-shaped record ---- *)
Lemma shape_cases (r : irec) : rec_shape r ->
  (exists o, r_ev r = [EInvoke o] /\ r_lp r = None /\ rec_hist r = [HInv (r_tid r) o]) \/
  (quiet (r_ev r) /\ rec_hist r = []) \/
  (exists x, retev (r_ev r) x /\ rec_hist r = [HRes (r_tid r) x]).
Proof.
  intros [(o & E & L)|[Hq|(x & Hx)]].
  - left. exists o. split; [exact E|]. split; [exact L|]. unfold rec_hist. rewrite E. reflexivity.
  - right. left. split; [exact Hq|]. unfold rec_hist. destruct Hq as [->|[e ->]]; reflexivity.
  - right. right. exists x. split; [exact Hx|]. unfold rec_hist. destruct Hx as [->| ->]; reflexivity.
Qed.

Lemma shape_len (r : irec) : rec_shape r -> length (rec_hist r) <= 1.
Proof.
  intros H. destruct (shape_cases r H) as [(o & _ & _ & ->)|[[_ ->]|(x & _ & ->)]]; simpl; lia.
Qed.

Lemma shape_inv_hist (r : irec) t o : rec_shape r -> rec_hist r = [HInv t o] ->
  r_tid r = t /\ r_ev r = [EInvoke o].
Proof.
  intros H E. destruct (shape_cases r H) as [(o' & E1 & _ & E2)|[[_ E2]|(x & _ & E2)]]; rewrite E2 in E;
    inversion E; subst. split; [reflexivity|exact E1].
Qed.

Lemma shape_res_hist (r : irec) t x : rec_shape r -> rec_hist r = [HRes t x] ->
  r_tid r = t /\ retev (r_ev r) x.
Proof.
  intros H E. destruct (shape_cases r H) as [(o' & E1 & _ & E2)|[[_ E2]|(x' & Hx & E2)]]; rewrite E2 in E;
    inversion E; subst. split; [reflexivity|exact Hx].
Qed.

Lemma shape_is_inv (r : irec) t : rec_shape r -> is_inv_any t r -> exists o, rec_hist r = [HInv t o].
Proof.
  intros H [Et [o Hin]]. destruct (shape_cases r H) as [(o' & E1 & _ & E2)|[[Hq _]|(x & Hx & _)]].
  - exists o'. rewrite E2, Et. reflexivity.
  - exfalso. exact (quiet_no_invoke _ _ _ _ Hq Hin).
  - exfalso. exact (retev_no_invoke _ _ _ _ _ Hx Hin).
Qed.

Lemma shape_is_ret (r : irec) t : rec_shape r -> is_ret_any t r -> exists x, rec_hist r = [HRes t x].
Proof.
  intros H [Et [x Hin]]. destruct (shape_cases r H) as [(o' & E1 & _ & E2)|[[Hq _]|(x' & Hx & E2)]].
  - exfalso. rewrite E1 in Hin. destruct Hin as [Hin|[]]. discriminate Hin.
  - exfalso. exact (quiet_noret _ _ ltb _ _ Hq Hin).
  - exists x'. rewrite E2, Et. reflexivity.
Qed.

End Histories.

Arguments HInv {K V} t o.
Arguments HRes {K V} t r.
Arguments hev_tid {K V} e.
Arguments quiet_between {K V} h t a n.
Arguments matching {K V} h a n t o r.
Arguments precedes {K V} h a1 a2.
Arguments s_inv {K V} e.
Arguments s_op {K V} e.
Arguments s_ans {K V} e.
Arguments ops_of_history {K V} h S.
Arguments complete_in {K V} h S.
Arguments seq_legal {K V} ltb S.
Arguments respects_rt {K V} h S.
Arguments linearizable {K V} ltb h.
Arguments alternates {K V} busy l.
Arguments well_formed {K V} h.
Arguments rec_hist {K V} r.
Arguments history_of {K V} T.
Arguments pos {K V} T j.

(* ================================================================================================ *)
(* the sequential witness of a trace: its linearization points, in trace order                       *)
(* ================================================================================================ *)
Section Witness.
Variables (K V : Type) (ltb : K -> K -> bool).
Notation irec := (irec K V).
Notation sop := (sop K V).

Definition inv_b (t : tid) (r : irec) : bool := (r_tid r =? t) && invokes (r_ev r).

Lemma inv_b_iff t r : inv_b t r = true <-> is_inv_any t r.
Proof.
  unfold inv_b, is_inv_any, invokes. rewrite andb_true_iff, Nat.eqb_eq, existsb_exists. split.
  - intros [E (e & Hin & He)]. split; [exact E|]. destruct e; try discriminate He. eauto.
  - intros [E (o & Hin)]. split; [exact E|]. exists (EInvoke o). split; [exact Hin|reflexivity].
Qed.

(* the position of the last invocation of t in T *)
Fixpoint last_inv_o (t : tid) (T : list irec) : option nat :=
  match T with
  | [] => None
  | r :: T' => match last_inv_o t T' with
               | Some a => Some (S a)
               | None => if inv_b t r then Some 0 else None
               end
  end.
Definition last_inv (t : tid) (T : list irec) : nat := match last_inv_o t T with Some a => a | None => 0 end.

Lemma last_inv_o_none t : forall T, (forall j r, nth_error T j = Some r -> inv_b t r = false) -> last_inv_o t T = None.
Proof.
  induction T as [|r T IH]; intros H; [reflexivity|]. simpl.
  rewrite IH by (intros j r' Hj; apply (H (S j)); exact Hj). rewrite (H 0 r eq_refl). reflexivity.
Qed.

Lemma last_inv_o_some t : forall T a r, nth_error T a = Some r -> inv_b t r = true ->
  (forall j r', a < j -> nth_error T j = Some r' -> inv_b t r' = false) -> last_inv_o t T = Some a.
Proof.
  induction T as [|r0 T IH]; intros a r Ha Hb Hlater; [destruct a; discriminate Ha|].
  destruct a as [|a]; simpl in Ha.
  - inversion Ha; subst r0. simpl.
    rewrite last_inv_o_none by (intros j r' Hj; apply (Hlater (S j)); [lia|exact Hj]). rewrite Hb. reflexivity.
  - simpl. rewrite (IH a r Ha Hb); [reflexivity|]. intros j r' Hj Hn. apply (Hlater (S j)); [lia|exact Hn].
Qed.

Lemma last_inv_spec T t a o :
  at_ T a (is_inv t o) -> none_in T (is_inv_any t) (S a) (length T) -> last_inv t T = a.
Proof.
  intros (r & Ha & Et & Hin) Hnone. unfold last_inv. rewrite (last_inv_o_some t T a r Ha); [reflexivity| |].
  - apply inv_b_iff. split; [exact Et|eauto].
  - intros j r' Hj Hn. destruct (inv_b t r') eqn:E; [|reflexivity]. exfalso.
    apply (Hnone j).
    + split; [lia|]. apply nth_error_Some. rewrite Hn. discriminate.
    + exists r'. split; [exact Hn|]. apply inv_b_iff. exact E.
Qed.

Lemma last_inv_prefix T t a o m : a <= m -> m < length T ->
  at_ T a (is_inv t o) -> none_in T (is_inv_any t) (S a) (S m) -> last_inv t (firstn (S m) T) = a.
Proof.
  intros Ham Hm (r & Ha & Hr) Hnone. apply last_inv_spec with (o := o).
  - exists r. split; [|exact Hr]. rewrite nth_error_firstn_lt by lia. exact Ha.
  - intros j Hj (r' & Hn & Hr'). rewrite firstn_length in Hj.
    assert (Hj' : j < S m) by lia. rewrite nth_error_firstn_lt in Hn by exact Hj'.
    apply (Hnone j); [lia|]. exists r'. split; assumption.
Qed.

(* the witness: one operation per linearization point, in trace order, tagged with the history position of the
   last invocation of its thread *)
Definition wit_f (T : list irec) (m : nat) (r : irec) : option sop :=
  match r_lp r with
  | Some (po, x) => Some (pos T (last_inv (r_tid r) (firstn (S m) T)), po, x)
  | None => None
  end.
Definition witness' (T : list irec) : list (nat * sop) := ifilter (wit_f T) 0 T.
Definition witness (T : list irec) : list sop := map snd (witness' T).

Lemma witness_lps_gen T : forall l j,
  map (fun u : nat * sop => (s_op (snd u), s_ans (snd u))) (ifilter (wit_f T) j l) = lps_of l.
Proof.
  induction l as [|r l IH]; intros j; [reflexivity|]. simpl. unfold wit_f at 1.
  change (lps_of (r :: l)) with ((match r_lp r with Some p => [p] | None => [] end) ++ lps_of l).
  destruct (r_lp r) as [[po x]|]; simpl; rewrite IH; reflexivity.
Qed.

Lemma witness_legal T :
  snd (run_spec ltb [] (map fst (lps_of T))) = map snd (lps_of T) -> seq_legal ltb (witness T).
Proof.
  intros H. unfold seq_legal, witness. rewrite <- (witness_lps_gen T T 0) in H. fold (witness' T) in H.
  rewrite !map_map in H. rewrite !map_map. cbn [fst snd] in H. exact H.
Qed.

Lemma witness_in T m e :
  In (m, e) (witness' T) <-> exists r, nth_error T m = Some r /\ wit_f T m r = Some e.
Proof.
  unfold witness'. rewrite ifilter_in. rewrite Nat.sub_0_r. split.
  - intros (r & _ & H1 & H2). eauto.
  - intros (r & H1 & H2). exists r. split; [lia|]. split; assumption.
Qed.

Lemma is_inv_hist (ra : irec) t o : rec_shape ra -> is_inv t o ra -> rec_hist ra = [HInv t o].
Proof.
  intros Hsh [Et Hin]. destruct (shape_is_inv K V ra t Hsh) as (o' & E); [split; [exact Et|eauto]|].
  destruct (shape_inv_hist K V ra t o' Hsh E) as [_ Eev]. rewrite Eev in Hin. destruct Hin as [Hin|[]].
  inversion Hin; subst. exact E.
Qed.

Lemma is_ret_hist (rn : irec) t x : rec_shape rn -> is_ret t x rn -> rec_hist rn = [HRes t x].
Proof.
  intros Hsh [Et Hin]. destruct (shape_is_ret K V ltb rn t Hsh) as (x' & E); [split; [exact Et|eauto]|].
  destruct (shape_res_hist K V rn t x' Hsh E) as [_ Hr]. rewrite (retev_in _ _ _ _ _ Hr Hin). exact E.
Qed.

Section Main.
Variable T : list irec.
Hypothesis HSh : Shape T.
Hypothesis HG : Good T.
Hypothesis HLp : LpOk T.

Lemma at_shape j P : at_ T j P -> exists r, nth_error T j = Some r /\ P r /\ rec_shape r.
Proof. intros (r & H1 & H2). exists r. split; [exact H1|]. split; [exact H2|]. apply HSh. eapply nth_error_In; eauto. Qed.

(* what an element of the witness is *)
Lemma wit_elem m e : In (m, e) (witness' T) ->
  exists t a o ra,
    a <= m /\ nth_error T a = Some ra /\ rec_hist ra = [HInv t o] /\
    at_ T m (is_lp t (s_op e) (s_ans e)) /\ s_inv e = pos T a /\ spec_op o = Some (s_op e) /\
    none_in T (is_inv_any t) (S a) (S m) /\ none_in T (is_ret_any t) a m /\ none_in T (is_lp_any t) a m.
Proof.
  intros Hin. apply witness_in in Hin. destruct Hin as (r & Hm & Hw). unfold wit_f in Hw.
  destruct (r_lp r) as [[po x]|] eqn:Elp; [|discriminate Hw]. inversion Hw; subst e. clear Hw.
  assert (X : at_ T m (is_lp (r_tid r) po x)) by (exists r; split; [exact Hm|split; [reflexivity|exact Elp]]).
  destruct (HLp m (r_tid r) po x X) as (a & o & A1 & A2 & A3 & A4 & A5 & A6).
  destruct (at_shape a _ A2) as (ra & Ea & Ra & Sa).
  exists (r_tid r), a, o, ra. split; [exact A1|]. split; [exact Ea|]. split; [apply is_inv_hist; assumption|].
  split; [exact X|]. split; [|split; [exact A6|split; [exact A3|split; [exact A4|exact A5]]]].
  cbn [s_inv fst]. f_equal. apply last_inv_prefix with (o := o); try assumption.
  apply nth_error_Some. rewrite Hm. discriminate.
Qed.

Lemma shape_len_all : forall r, In r T -> length (rec_hist r) <= 1.
Proof. intros r Hr. apply (shape_len K V). apply HSh. exact Hr. Qed.

(* a matching invocation/response pair of the history is a completed call of the trace *)
Lemma matching_trace pa pn t o r : matching (history_of T) pa pn t o r ->
  exists a n, pos T a = pa /\ pos T n = pn /\ window T t a n o /\
    (is_scan o = false ->
     exists m po x, only_lp T t a n m po x /\ spec_op o = Some po /\ ores_of_obs K x = r).
Proof.
  intros (Hlt & Hpa & Hpn & Hq).
  destruct (pos_inverse K V T shape_len_all pa _ Hpa) as (a & ra & Ea & Ha & Pa).
  destruct (pos_inverse K V T shape_len_all pn _ Hpn) as (n & rn & En & Hn & Pn).
  assert (Sa : rec_shape ra) by (apply HSh; eapply nth_error_In; eauto).
  assert (Sn : rec_shape rn) by (apply HSh; eapply nth_error_In; eauto).
  destruct (shape_inv_hist K V ra t o Sa Ha) as [Ta Eva].
  destruct (shape_res_hist K V rn t r Sn Hn) as [Tn Evn].
  assert (Han : a < n) by (apply (pos_lt_inv K V T); lia).
  assert (X : at_ T n (is_ret t r)).
  { exists rn. split; [exact En|]. split; [exact Tn|apply retev_in_self; exact Evn]. }
  destruct (HG n t r X) as (a' & o' & (W1 & W2 & W3 & W4) & HL).
  destruct (at_shape a' _ W2) as (ra' & Ea' & Ra' & Sa').
  pose proof (is_inv_hist ra' t o' Sa' Ra') as Ha'.
  assert (Ea'a : a' = a).
  { destruct (Nat.lt_trichotomy a a') as [H|[H|H]]; [exfalso|symmetry; exact H|exfalso].
    - (* an invocation of t strictly between a and n *)
      assert (Hne : a' <> n).
      { intros ->. rewrite En in Ea'. inversion Ea'; subst ra'. rewrite Hn in Ha'. discriminate Ha'. }
      assert (Ha'n : a' < n) by lia.
      apply (Hq (pos T a') (HInv t o')); [|eapply pos_event; eauto|reflexivity].
      rewrite <- Pa, <- Pn. split; eapply pos_strict; eauto.
    - apply (W3 a); [lia|]. exists ra. split; [exact Ea|]. split; [exact Ta|]. exists o. rewrite Eva. left. reflexivity. }
  subst a'. rewrite Ea in Ea'. inversion Ea'; subst ra'. rewrite Ha in Ha'. inversion Ha'; subst o'.
  exists a, n. split; [exact Pa|]. split; [exact Pn|]. split; [|exact HL].
  split; [exact W1|]. split; [exact W2|]. split; assumption.
Qed.

Theorem witness_ops : ops_of_history (history_of T) (witness T).
Proof.
  split.
  - unfold witness. rewrite map_map.
    apply sorted_nodup with (R := fun u v : nat * sop => fst u < fst v); [apply ifilter_sorted|].
    intros [m1 e1] [m2 e2] H1 H2 Hlt Heq. cbn [fst snd] in *.
    destruct (wit_elem m1 e1 H1) as (t1 & a1 & o1 & ra1 & A1 & B1 & C1 & D1 & E1 & F1 & G1 & I1 & J1).
    destruct (wit_elem m2 e2 H2) as (t2 & a2 & o2 & ra2 & A2 & B2 & C2 & D2 & E2 & F2 & G2 & I2 & J2).
    rewrite E1, E2 in Heq. pose proof (pos_inj K V T a1 a2 _ _ _ _ B1 C1 B2 C2 Heq) as Ea. subst a2.
    rewrite B1 in B2. inversion B2; subst ra2. rewrite C1 in C2. inversion C2; subst t2 o2.
    apply (J2 m1); [lia|]. destruct D1 as (r & Hr & Et & Elp). exists r. split; [exact Hr|].
    split; [exact Et|]. rewrite Elp. discriminate.
  - intros e He. unfold witness in He. apply in_map_iff in He. destruct He as ([m e'] & Ee & He). cbn [snd] in Ee. subst e'.
    destruct (wit_elem m e He) as (t & a & o & ra & A & B & C & D & E & F & _).
    exists t, o. split; [|exact F]. rewrite E. eapply pos_event; eauto.
Qed.

Theorem witness_complete : complete_in (history_of T) (witness T).
Proof.
  intros pa pn t o r Hm Hsc.
  destruct (matching_trace pa pn t o r Hm) as (a & n & Pa & Pn & (W1 & W2 & W3 & W4) & HL).
  destruct (HL Hsc) as (m & po & x & ((M1 & M2) & (rm & Em & Tm & Lm) & M4 & M5) & Hop & Hres).
  exists (pos T a, po, x). split; [|split; [exact Pa|exact Hres]].
  unfold witness. apply in_map_iff. exists (m, (pos T a, po, x)). split; [reflexivity|].
  apply witness_in. exists rm. split; [exact Em|]. unfold wit_f. rewrite Lm, Tm. do 3 f_equal.
  rewrite (last_inv_prefix T t a o m); [reflexivity|exact M1| |exact W2|].
  - apply nth_error_Some. rewrite Em. discriminate.
  - eapply none_in_weaken; [| |exact W3]; lia.
Qed.

Theorem witness_rt : respects_rt (history_of T) (witness T).
Proof.
  intros S1 e2 S2 e1 HS Hin (pn1 & t & o & r & (Hlt & Hpa & Hpn & Hq) & Hbefore).
  unfold witness in HS. apply map_eq_app in HS. destruct HS as (l1 & l2 & El & _ & El2).
  apply map_eq_cons in El2. destruct El2 as ([m2 e2'] & tl & -> & Ee2 & Etl). cbn [snd] in Ee2. subst e2'.
  rewrite <- Etl in Hin. apply in_map_iff in Hin. destruct Hin as ([m1 e1'] & Ee1 & Hin1). cbn [snd] in Ee1. subst e1'.
  pose proof (ifilter_sorted (wit_f T) T 0) as Hsorted. fold (witness' T) in Hsorted. rewrite El in Hsorted.
  apply sorted_split in Hsorted. rewrite Forall_forall in Hsorted. specialize (Hsorted _ Hin1). cbn [fst] in Hsorted.
  assert (H1 : In (m1, e1) (witness' T)) by (rewrite El; apply in_or_app; right; right; exact Hin1).
  assert (H2 : In (m2, e2) (witness' T)) by (rewrite El; apply in_or_app; right; left; reflexivity).
  destruct (wit_elem m1 e1 H1) as (t1 & a1 & o1 & ra1 & A1 & B1 & C1 & D1 & E1 & F1 & G1 & I1 & J1).
  destruct (wit_elem m2 e2 H2) as (t2 & a2 & o2 & ra2 & A2 & B2 & C2 & D2 & E2 & F2 & G2 & I2 & J2).
  rewrite E1 in Hpa, Hlt. rewrite E2 in Hbefore.
  rewrite (pos_event K V T a1 ra1 _ B1 C1) in Hpa. inversion Hpa; subst t1 o1.
  destruct (pos_inverse K V T shape_len_all pn1 _ Hpn) as (n1 & rn1 & En1 & Hn1 & Pn1).
  assert (Sn1 : rec_shape rn1) by (apply HSh; eapply nth_error_In; eauto).
  destruct (shape_res_hist K V rn1 t r Sn1 Hn1) as [Tn1 Evn1].
  assert (L1 : a1 < n1) by (apply (pos_lt_inv K V T); lia).
  assert (L2 : n1 < a2) by (apply (pos_lt_inv K V T); lia).
  assert (L3 : m1 <= n1).
  { destruct (Nat.le_gt_cases m1 n1) as [H|H]; [exact H|]. exfalso. apply (I1 n1); [lia|].
    exists rn1. split; [exact En1|]. split; [exact Tn1|]. exists r. apply retev_in_self. exact Evn1. }
  lia.
Qed.

Theorem trace_linearizable :
  snd (run_spec ltb [] (map fst (lps_of T))) = map snd (lps_of T) -> linearizable ltb (history_of T).
Proof.
  intros Hlegal. exists (witness T).
  split; [exact witness_ops|]. split; [exact witness_complete|]. split; [apply witness_legal; exact Hlegal|exact witness_rt].
Qed.

End Main.
End Witness.

Arguments witness {K V} T.

(* ================================================================================================ *)
(* well-formedness of the history of a trace: every thread alternates invocations and responses      *)
(* ================================================================================================ *)
Section WellFormed.
Variables (K V : Type) (ltb : K -> K -> bool).
Variable order : nat.
Notation irec := (irec K V).
Notation istate := (istate K V).
Notation hev := (hev K V).

Definition hstep (s : option bool) (e : hev) : option bool :=
  match s, e with
  | Some false, HInv _ _ => Some true
  | Some true, HRes _ _ => Some false
  | _, _ => None
  end.
Definition proj (t : tid) (h : list hev) : list hev := filter (fun e => hev_tid e =? t) h.
Definition status (t : tid) (h : list hev) : option bool := fold_left hstep (proj t h) (Some false).

Lemma fold_hstep_none l : fold_left hstep l None = None.
Proof. induction l as [|e l IH]; [reflexivity|exact IH]. Qed.

Lemma alternates_status : forall l b, fold_left hstep l (Some b) <> None -> alternates b l.
Proof.
  induction l as [|e l IH]; intros b H; [exact I|]. simpl in H.
  destruct e as [t o|t r]; destruct b; simpl in *; try (rewrite fold_hstep_none in H; congruence);
    (split; [reflexivity|apply IH; exact H]).
Qed.

Lemma rec_hist_tid (r : irec) e : In e (rec_hist r) -> hev_tid e = r_tid r.
Proof.
  unfold rec_hist. intros H. apply in_flat_map in H. destruct H as (ev & _ & H).
  destruct ev; simpl in H; try destruct H as [<-|[]]; try reflexivity; destruct H.
Qed.

Lemma proj_other (r : irec) t : r_tid r <> t -> proj t (rec_hist r) = [].
Proof.
  intros Hne. unfold proj. induction (rec_hist r) as [|e l IH] eqn:E in |- *; [reflexivity|].
  assert (forall e', In e' (e :: l) -> (hev_tid e' =? t) = false) as Hall; [|clear E].
  { intros e' He'. rewrite <- E in He'. apply rec_hist_tid in He'. apply Nat.eqb_neq. congruence. }
  clear IH. induction (e :: l) as [|e' l' IH']; [reflexivity|]. simpl.
  rewrite (Hall e' (or_introl eq_refl)). apply IH'. intros e'' H''. apply Hall. right. exact H''.
Qed.

Lemma history_of_snoc (T : list irec) r : history_of (T ++ [r]) = history_of T ++ rec_hist r.
Proof. unfold history_of. rewrite flat_map_app. simpl. rewrite app_nil_r. reflexivity. Qed.

Lemma status_snoc t (T : list irec) r :
  status t (history_of (T ++ [r])) = fold_left hstep (proj t (rec_hist r)) (status t (history_of T)).
Proof. unfold status, proj. rewrite history_of_snoc, filter_app, fold_left_app. reflexivity. Qed.

Definition idle_b (p : pc K V) : bool := match p with Idle => true | _ => false end.

Lemma idle_b_true p : idle_b p = true <-> p = Idle.
Proof. destruct p; simpl; split; intros H; try discriminate H; reflexivity. Qed.
Lemma idle_b_false p : p <> Idle -> idle_b p = false.
Proof. destruct p; simpl; intros H; try reflexivity. congruence. Qed.

Definition WFinv (T : list irec) (i : istate) : Prop :=
  forall t th, get_thread t (ths (is_st i)) = Some th ->
    status t (history_of T) = Some (negb (idle_b (tpc th))).

Lemma WF_step P0 T (i i' : istate) me ev :
  lin_step_ok ltb order i me -> istep ltb order i me = Some (i', ev) ->
  TInv P0 T i -> WFinv T i ->
  WFinv (T ++ [{| r_tid := me; r_ev := ev; r_lp := istep_lp ltb order i me |}]) i'.
Proof.
  intros Hlin Hi (_ & HL & _) HW t th1 Ht. rewrite status_snoc.
  destruct (Nat.eq_dec t me) as [->|Hne].
  - destruct (istep_thread _ _ _ _ _ _ _ _ Hi) as (th & Hme).
    assert (Hfor : tpc th <> Idle -> exists o rest, prog th = o :: rest /\ pc_for (tpc th) o).
    { intros Hp. destruct (HL _ _ Hme Hp) as (a & o & rest & Hpr & Hfor & _). eauto. }
    destruct (istep_kind _ _ _ _ _ _ _ _ _ Hi Hlin Hme Hfor) as (th' & Hme' & HK).
    rewrite Hme' in Ht. inversion Ht; subst th1. rewrite (HW _ _ Hme). unfold rec_hist. cbn [r_ev r_tid].
    destruct HK as [o rest Hidle Hpr Eev Hpc' Hpr' Hlp Hg'
                   |o rest Hnidle Hpr Hq Hfor' Hpr' Hlp
                   |o rest r Hnidle Hpr Hr Hidle' Hpr' Hlp Hres].
    + rewrite Eev, Hidle, Hpc'. simpl. rewrite Nat.eqb_refl. reflexivity.
    + rewrite (idle_b_false _ Hnidle), (idle_b_false _ (pc_for_not_idle _ _ _ _ Hfor')).
      destruct Hq as [->|[e ->]]; reflexivity.
    + rewrite (idle_b_false _ Hnidle), Hidle'.
      destruct Hr as [->| ->]; simpl; rewrite Nat.eqb_refl; reflexivity.
  - destruct (istep_other _ _ _ _ _ _ _ _ _ Hi Hne) as [E1 _]. rewrite E1 in Ht.
    rewrite proj_other by (cbn [r_tid]; congruence). simpl. apply HW. exact Ht.
Qed.

Lemma WF_exec P0 : forall sched (i : istate) T,
  (forall sched' me, lin_step_ok ltb order (iexec ltb order i sched') me) ->
  TInv P0 T i -> WFinv T i ->
  WFinv (T ++ itrace ltb order i sched) (iexec ltb order i sched).
Proof.
  induction sched as [|t r IH]; intros i T Hreach HI HW; simpl.
  - rewrite app_nil_r. exact HW.
  - destruct (istep ltb order i t) as [[i' ev]|] eqn:Hi.
    + change (T ++ {| r_tid := t; r_ev := ev; r_lp := istep_lp ltb order i t |} :: itrace ltb order i' r)
        with (T ++ [{| r_tid := t; r_ev := ev; r_lp := istep_lp ltb order i t |}] ++ itrace ltb order i' r).
      rewrite app_assoc. apply IH.
      * intros sched' me. specialize (Hreach (t :: sched') me). simpl in Hreach. rewrite Hi in Hreach. exact Hreach.
      * apply TInv_step; [exact (Hreach [] t)|exact Hi|exact HI].
      * eapply WF_step; [exact (Hreach [] t)|exact Hi|exact HI|exact HW].
    + rewrite app_nil_r. exact HW.
Qed.

End WellFormed.

(* ================================================================================================ *)
(* the closed theorems                                                                               *)
(* ================================================================================================ *)
Section HWFinal.
Variables (K V : Type) (ltb : K -> K -> bool).
Hypothesis HS : SWO ltb.
Variable order : nat.
Hypothesis Heven : Nat.even order = true.
Hypothesis H4 : 4 <= order.
Variable progs : list (tid * list (cop K V)).
Hypothesis Hnd : NoDup (map fst progs).

(* the history of every execution is linearizable with respect to the ideal map of Spec.v *)
Theorem history_linearizable sched :
  linearizable ltb (history_of (itrace ltb order (iinit progs) sched)).
Proof.
  destruct (TInv_reach K V ltb HS order Heven H4 progs Hnd sched) as (HG & _ & _ & _ & HLp & HSh).
  apply trace_linearizable; try assumption.
  exact (proj1 (legal_history K V ltb HS order Heven H4 progs Hnd sched)).
Qed.

(* ... and the witness is the list of linearization points in trace order, whose final map is the tree's *)
Theorem history_linearizable_witness sched :
  let tr := itrace ltb order (iinit progs) sched in
  let S := witness tr in
  ops_of_history (history_of tr) S /\ complete_in (history_of tr) S /\ seq_legal ltb S /\
  respects_rt (history_of tr) S /\
  fst (run_spec ltb [] (map s_op S)) = abs ltb (is_st (iexec ltb order (iinit progs) sched)).
Proof.
  intros tr S.
  destruct (TInv_reach K V ltb HS order Heven H4 progs Hnd sched) as (HG & _ & _ & _ & HLp & HSh).
  destruct (legal_history K V ltb HS order Heven H4 progs Hnd sched) as [L1 L2].
  fold tr in HG, HLp, HSh.
  split; [apply witness_ops; assumption|]. split; [apply witness_complete; assumption|].
  split; [apply witness_legal; exact L1|]. split; [apply witness_rt; assumption|].
  rewrite <- L2. f_equal. f_equal. unfold S, witness.
  change (flat_map (fun r : irec K V => match r_lp r with Some p => [p] | None => [] end)
            (itrace ltb order (iinit progs) sched)) with (lps_of tr).
  rewrite <- (witness_lps_gen K V tr tr 0). rewrite !map_map. reflexivity.
Qed.

(* the history is well-formed *)
Theorem history_well_formed sched :
  well_formed (history_of (itrace ltb order (iinit progs) sched)).
Proof.
  intros t. set (tr := itrace ltb order (iinit progs) sched).
  assert (HW : WFinv K V tr (iexec ltb order (iinit progs) sched)).
  { change tr with ([] ++ itrace ltb order (iinit progs) sched).
    apply (WF_exec K V ltb order (P0 K V progs)).
    - exact (reach_lin K V ltb HS order Heven H4 progs Hnd).
    - exact (TInv_init K V order H4 progs).
    - intros u th Hu. simpl. rewrite (LockProof.get_thread_init K V progs u th Hu). reflexivity. }
  destruct (get_thread t (ths (is_st (iexec ltb order (iinit progs) sched)))) as [th|] eqn:Ht.
  - apply alternates_status. fold (proj K V t (history_of tr)). fold (status K V t (history_of tr)).
    rewrite (HW t th Ht). discriminate.
  - (* no record of the trace belongs to t *)
    destruct (TInv_reach K V ltb HS order Heven H4 progs Hnd sched) as (_ & _ & _ & HT & _). fold tr in HT.
    assert (E : forall T : list (irec K V), (forall r, In r T -> r_tid r <> t) ->
                filter (fun e : hev K V => hev_tid e =? t) (history_of T) = []).
    { induction T as [|r T IH]; intros HT'; [reflexivity|]. unfold history_of. simpl. rewrite filter_app.
      fold (history_of T). rewrite IH by (intros q Hq; apply HT'; right; exact Hq).
      rewrite app_nil_r. apply (proj_other K V). apply HT'. left. reflexivity. }
    rewrite E; [exact I|]. intros r Hr Er. destruct (HT r Hr) as (th & Hth). rewrite Er, Ht in Hth. discriminate Hth.
Qed.

End HWFinal.

Print Assumptions history_linearizable.
Print Assumptions history_linearizable_witness.
Print Assumptions history_well_formed.

(* SUMMARY.  Proved, no axioms.
   Abstract definitions (Section Histories), for histories h : list hev, hev := HInv t o | HRes t r:
     matching h a n t o r := a < n /\ h[a] = HInv t o /\ h[n] = HRes t r /\ no event of t strictly between a and n
     precedes h a1 a2     := the operation invoked at a1 has its matching response at some n1 < a2      (<_H)
     sop := (position in h of the invocation, specification operation, specification answer)
     ops_of_history h S   := NoDup (map s_inv S) /\ every e in S: h[s_inv e] = HInv t o with spec_op o = Some (s_op e)
     complete_in h S      := every matching pair (a,n,t,o,r) of a point operation is some e in S with s_inv e = a
                             and ores_of_obs (s_ans e) = r
     seq_legal ltb S      := snd (run_spec ltb [] (map s_op S)) = map s_ans S
     respects_rt h S      := S = S1 ++ e2 :: S2 -> In e1 S2 -> ~ precedes h (s_inv e1) (s_inv e2)        (<_H in <_S)
     linearizable ltb h   := exists S, ops_of_history h S /\ complete_in h S /\ seq_legal ltb S /\ respects_rt h S
     well_formed h        := every thread's subhistory alternates invocation / response, starting with an invocation
   (S is Herlihy and Wing's sequential history equivalent to complete(H'): the operations of S that are pending in
    h are those whose response is appended in the extension H'; pending operations not in S are dropped.  Scan calls
    appear in the history but are not point operations of the specification; they are ignored by complete_in.)
     history_of T := the EInvoke / EReturn events of the records of T, tagged with the record's thread, in order.
   Theorems (premises SWO ltb, Nat.even order = true, 4 <= order, NoDup (map fst progs); every sched):
     history_linearizable         : linearizable ltb (history_of (itrace ltb order (iinit progs) sched))
     history_linearizable_witness : the witness is  witness tr  = the linearization points of tr in trace order, and
                                    in addition fst (run_spec ltb [] (map s_op S)) = abs ltb (final state)
     history_well_formed          : well_formed (history_of (itrace ltb order (iinit progs) sched))
     trace_linearizable (generic) : Shape T -> Good T -> LpOk T -> legal run of lps_of T -> linearizable ltb (history_of T)
   Reusable: ifilter (positioned filter-map) with ifilter_in / ifilter_sorted, sorted_split, sorted_nodup, pos /
   pos_event / pos_inverse / pos_mono / pos_strict / pos_inj (history positions of trace records), last_inv_spec,
   matching_trace (a matching pair of the history is a completed call of the trace), wit_elem, WF_step. *)

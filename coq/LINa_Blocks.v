(* LINa_Blocks.v — what the atomic blocks of Insert / Update / Search do to the entries of the tree. *)
From Coq Require Import List Bool Lia PeanoNat Permutation Sorted.
From GB Require Import Model Spec Inv ListLemmas SearchProof TreeLemmas UpsertProof Conc GI LockInv LockProof CInv CInv3
  EraseLemmas EraseOps SoloBase SoloSearch SoloInsert Lin GIa1_Ctx GIa1_Local GIa1_Blocks LINa_Lists LINa_Ctx LINa_Abs.
From GB Require FrameRel.
Import ListNotations.

Section Blocks.
Variables (K V : Type) (ltb : K -> K -> bool).
Hypothesis HS : SWO ltb.
Notation itree := (itree K V).
Notation tree := (tree K V).
Notation cframe := (cframe K V).
Notation out := (out K V).
Notation cop := (cop K V).
Notation pc := (pc K V).
Notation SS := (StronglySorted (fun a b => ltb a b = true)).
Notation asc_SS := (asc_SS K ltb HS).
Notation rng := (rng ltb).
Notation sub_ok := (sub_ok ltb).
Notation tshape := (tshape ltb).
Notation shape := (shape ltb).
Notation FAR := (FAR ltb).

(* ------------------------------------------------------------------------------------------------ *)
(* splitting keeps the entries and the other leaves                                                   *)
(* ------------------------------------------------------------------------------------------------ *)
Lemma halves {A} order (l : list A) :
  Nat.even order = true -> length l <= order -> (length l <? order) = false ->
  l = firstn (Nat.div2 order) l ++ firstn (Nat.div2 order) (skipn (Nat.div2 order) l).
Proof.
  intros Hev Hle Hge. apply Nat.ltb_ge in Hge. pose proof (even_div2 order Hev) as Hh.
  rewrite (firstn_all2 (n := Nat.div2 order) (skipn (Nat.div2 order) l)) by (rewrite skipn_length; lia).
  symmetry. apply firstn_skipn.
Qed.

Lemma isplit_leaves order s (t lft rgt : itree) :
  Nat.even order = true -> icount t <= order -> isplit order s t = Some (lft, rgt) ->
  ents t = ents lft ++ ents rgt /\
  (forall l, In l (leaves t) -> lid l <> nid t -> In l (leaves lft ++ leaves rgt)).
Proof.
  intros Hev Hle H. unfold isplit in H. destruct (icount t <? order) eqn:E; [discriminate|].
  destruct t as [i nx es|i cs]; inversion H; subst; clear H; cbn [icount] in *.
  - split.
    + unfold ents. cbn [erase_ids entries]. apply halves; assumption.
    + intros l Hl Hne. simpl in Hl. destruct Hl as [<-|[]]. exfalso. apply Hne. reflexivity.
  - assert (Hl : leaves (INode i cs) = leaves (INode i (firstn (Nat.div2 order) cs)) ++
                                       leaves (INode s (firstn (Nat.div2 order) (skipn (Nat.div2 order) cs)))).
    { rewrite !leaves_node, <- leaves_list_app. f_equal. apply halves; assumption. }
    split.
    + unfold ents. rewrite !(leaves_entries K V), Hl, flat_map_app. reflexivity.
    + intros l Hin _. rewrite <- Hl. exact Hin.
Qed.

(* ------------------------------------------------------------------------------------------------ *)
(* the tree a descent works on, after the structural part of the block                                *)
(* ------------------------------------------------------------------------------------------------ *)
Definition prep (order : nat) (o : cop) (x : id) (t t' : itree) : Prop :=
  ents t' = ents t /\
  (forall l, In l (leaves t) -> lid l <> x -> In l (leaves t')) /\
  exists C nd fr0, t' = plug C nd /\ nid nd = x /\ shape order t' /\ wfc C nd fr0 /\ rng (cbounds C) (key_of o).

Lemma prep_refl order o x (t nd : itree) fr0 :
  shape order t -> NoDup (ids t) -> Forall (fun i => i < fr0) (ids t) ->
  Conc.find x t = Some nd -> in_range ltb (key_of o) x t = true -> prep order o x t t.
Proof.
  intros Hsh Hnd Hlt Hf Hr.
  destruct (find_in_range K V ltb x t nd fr0 (key_of o) Hnd Hlt Hf Hr) as (C & E & Hw & Hn & Hk).
  split; [reflexivity|]. split; [auto|]. exists C, nd, fr0. subst t. auto.
Qed.

(* ------------------------------------------------------------------------------------------------ *)
(* ins_descend                                                                                        *)
(* ------------------------------------------------------------------------------------------------ *)
(* the placeholder stored by an Update in mode 2 is the Update's key itself (not merely an equivalent key) *)
Definition pc_key_exact (t : itree) (p : pc) : Prop :=
  match p with
  | UpdCallback o leaf (S (S _)) index =>
    exists i nx es v, Conc.find leaf t = Some (ILeaf i nx es) /\ nth_error es index = Some (key_of o, v)
  | _ => True end.

Lemma ph_nil_exact (t : itree) (p : pc) : ph p = [] -> pc_key_exact t p.
Proof. destruct p; try (intros; exact I). destruct mode as [|[|m]]; try (intros; exact I). discriminate. Qed.

Inductive ins_eff (o : cop) (x : id) (t : itree) (out : out) : Prop :=
| IE_same : ents (otr out) = ents t -> ph (opc out) = [] -> oev out = [] ->
    (forall o' a b, opc out <> SeaWantChild o' a b) -> ins_eff o x t out
| IE_insert k v : o = CInsert k v -> ents (otr out) = put ltb k (fun _ => v) (ents t) -> opc out = Idle ->
    oev out = [EReturn RUnit] -> FAR x k t -> ins_eff o x t out
| IE_ph v' : ents (otr out) = put ltb (key_of o) (fun _ => v') (ents t) -> lookup ltb (key_of o) (ents t) = None ->
    ph (opc out) = [key_of o] -> oev out = [] -> pc_key_exact (otr out) (opc out) -> ins_eff o x t out.

Lemma ents_plug_leaf C i nx (es : list (K * V)) : ents (plug C (ILeaf i nx es)) = Lents C ++ es ++ Rents C.
Proof. unfold ents. rewrite entries_plug. reflexivity. Qed.

Ltac upd_eff Hupd Hss HL HR Hw H :=
  unfold mk in H; crunch H;
  try (inversion H; subst; clear H; apply IE_same; try reflexivity; cbn [opc]; discriminate);
  match goal with
  | E : last _ None = Some ?lk, E0 : ltb ?lk ?k = false, E1 : search_ge _ ?k _ = Ok ?a,
    E2 : get_nth ?a ?es = Ok (?k1, ?v), E3 : eqvb _ ?k ?k1 = false, E4 : upd _ _ _ = Ok ?t' |- _ =>
    rewrite Hupd in E4; inversion E4; subst; clear E4; inversion H; subst; clear H;
    destruct (mode2_insert K V ltb HS es k lk a k1 v Hss E E0 E1 E2 E3) as (Eput & Elook & Enth);
    apply (IE_ph _ _ _ _ v); cbn [otr opc oev ph key_of pc_key_exact];
    [rewrite !ents_plug_leaf, Eput; symmetry; apply (put_in_ctx K V ltb HS); assumption
    |rewrite ents_plug_leaf, (lookup_in_ctx K V ltb HS) by assumption; exact Elook
    |reflexivity|reflexivity
    |eexists _, _, _, _; split; [|exact Enth];
     match goal with |- Conc.find ?i (plug ?C ?new) = _ => apply (find_plug_self K V C new _ (wfc_same K V C _ new _ Hw eq_refl)) end]
  end.

Lemma ins_descend_ctx_eff order (o : cop) (C : list cframe) (nd : itree) l fr tmx (out : out) fr0 :
  shape order (plug C nd) -> wfc C nd fr0 -> rng (cbounds C) (key_of o) ->
  ins_descend ltb o (nid nd) (plug C nd) l fr tmx = Ok out ->
  ins_eff o (nid nd) (plug C nd) out.
Proof.
  intros Hsh Hw Hk H. unfold ins_descend in H. rewrite (find_plug_self K V C nd fr0 Hw) in H.
  destruct nd as [i nx es|pi cs].
  - cbn [nid] in *.
    destruct (ctx_sides K V ltb HS order C _ _ Hsh Hk) as [HL HR].
    pose proof (leaf_sorted_ctx K V ltb HS order C i nx es Hsh) as Hss.
    assert (Hupd : forall new, upd i (fun _ => Ok new) (plug C (ILeaf i nx es)) = Ok (plug C new)).
    { intros new. apply (upd_plug_self K V C (ILeaf i nx es) fr0 new Hw). }
    destruct o as [k v|k f|k|k|k n]; cbn [key_of] in *.
    + rewrite (leaf_upsert_spec K V ltb HS k (fun _ => v) es Hss) in H. cbn [bind] in H.
      rewrite Hupd in H. cbn [bind] in H. unfold mk in H. inversion H; subst; clear H.
      apply (IE_insert _ _ _ _ k v); cbn [otr opc oev]; try reflexivity.
      * rewrite !ents_plug_leaf. symmetry. apply (put_in_ctx K V ltb HS); assumption.
      * apply far_of_sides; assumption.
    + upd_eff Hupd Hss HL HR Hw H.
    + upd_eff Hupd Hss HL HR Hw H.
    + upd_eff Hupd Hss HL HR Hw H.
    + upd_eff Hupd Hss HL HR Hw H.
  - unfold mk in H. crunch H. inversion H; subst; clear H. apply IE_same; try reflexivity. cbn [opc]. discriminate.
Qed.

Lemma ins_eff_exact o x (t : itree) (out : out) : ins_eff o x t out -> pc_key_exact (otr out) (opc out).
Proof.
  intros [A1 A2 A3 A4|k v A1 A2 A3 A4 A5|v' A1 A2 A3 A4 A5]; [apply ph_nil_exact; exact A2|rewrite A3; exact I|exact A5].
Qed.

Lemma ins_eff_prep order o x (t t' : itree) l fr tmx (out : out) :
  prep order o x t t' -> ins_descend ltb o x t' l fr tmx = Ok out -> ins_eff o x t out.
Proof.
  intros (He & Hlv & C & nd & fr0 & -> & <- & Hsh & Hw & Hk) H.
  destruct (ins_descend_ctx_eff order o C nd l fr tmx out fr0 Hsh Hw Hk H) as [A1 A2 A3 A3'|k v A1 A2 A3 A4 A5|v' A1 A2 A3 A4 A5].
  - apply IE_same; [congruence|assumption|assumption|assumption].
  - apply (IE_insert _ _ _ _ k v); try assumption; [congruence|].
    intros lf Hin Hne. apply A5; [apply Hlv; assumption|exact Hne].
  - apply (IE_ph _ _ _ _ v'); try assumption; congruence.
Qed.

(* ------------------------------------------------------------------------------------------------ *)
(* replacing some children of a node by others with the same entries                                  *)
(* ------------------------------------------------------------------------------------------------ *)
Lemma ents_leaves (t : itree) : ents t = flat_map snd (leaves t).
Proof. apply (leaves_entries K V). Qed.

Lemma replace_mid (C : list cframe) p pre post (mid mid' : list (K * itree)) x :
  flat_map snd (leaves_list mid') = flat_map snd (leaves_list mid) ->
  (forall l, In l (leaves_list mid) -> lid l <> x -> In l (leaves_list mid')) ->
  ents (plug C (INode p (pre ++ mid' ++ post))) = ents (plug C (INode p (pre ++ mid ++ post))) /\
  (forall l, In l (leaves (plug C (INode p (pre ++ mid ++ post)))) -> lid l <> x ->
             In l (leaves (plug C (INode p (pre ++ mid' ++ post))))).
Proof.
  intros He Hl. split.
  - rewrite !ents_leaves, !leaves_plug, !leaves_node, !leaves_list_app, !flat_map_app, He. reflexivity.
  - intros l Hin Hne. rewrite leaves_plug, leaves_node, !leaves_list_app in *.
    rewrite !in_app_iff in *. intuition.
Qed.

(* ------------------------------------------------------------------------------------------------ *)
(* InsWantChild                                                                                       *)
(* ------------------------------------------------------------------------------------------------ *)
Lemma ins_child_prep order (o : cop) p c index (t : itree) l0 fr tm0 (out : out) :
  2 <= order -> Nat.even order = true ->
  shape order t -> NoDup (ids t) -> Forall (fun i => i < fr) (ids t) ->
  pc_ok_b ltb order t (InsWantChild o p c index) = true ->
  ins_child_blk K V ltb order o p c index t l0 fr tm0 = Ok out ->
  (exists t' fr', prep order o c t t' /\ ins_descend ltb o c t' (unlock p l0) fr' tm0 = Ok out) \/
  ins_eff o c t out.
Proof.
  intros H2 Hev Hsh Hnd Hlt Hpc H. unfold ins_child_blk in H. cbn [pc_ok_b] in Hpc.
  destruct (Conc.find p t) as [[?|pi cs]|] eqn:Hfp; try discriminate Hpc.
  apply andb_true_iff in Hpc. destruct Hpc as [Hpc Hrange].
  apply andb_true_iff in Hpc. destruct Hpc as [Hpc Hnth].
  apply andb_true_iff in Hpc. destruct Hpc as [Hlen Hsearch].
  apply Nat.ltb_lt in Hlen.
  destruct (search_le ltb (key_of o) (map fst cs)) as [ix|] eqn:Hse; [|discriminate Hsearch].
  simpl in Hsearch. apply Nat.eqb_eq in Hsearch. subst ix.
  destruct (nth_error cs index) as [[s0 ch]|] eqn:Hn; [|discriminate Hnth]. apply Nat.eqb_eq in Hnth.
  destruct (nth_error_split cs index Hn) as (pre & post & -> & Hlpre).
  assert (Hfc : Conc.find c t = Some ch).
  { subst c. eapply FrameRel.find_child; eauto. apply in_or_app; right; left; reflexivity. }
  rewrite Hfc in H.
  destruct (find_in_range K V ltb p t _ fr (key_of o) Hnd Hlt Hfp Hrange) as (C & -> & Hw & Hp & Hk).
  cbn [nid] in Hp. subst pi.
  rewrite <- Hlpre in H. rewrite get_nth_app in H. cbn [bind] in H.
  match type of H with bind ?X _ = _ => destruct X as [sep'|] eqn:Esep; [|discriminate H] end. cbn [bind] in H.
  assert (Esep' : new_sep ltb (key_of o) (length (erase_cs pre)) s0 (smallest (erase_ids ch)) = Ok sep').
  { unfold new_sep. rewrite erase_cs_length, ismallest_erase. exact Esep. }
  assert (Hupd : forall cs2, upd p (fun _ => Ok (INode p cs2)) (plug C (INode p (pre ++ (s0, ch) :: post)))
                             = Ok (plug C (INode p cs2))).
  { intros cs2. apply (upd_plug_self K V C _ fr _ Hw). }
  destruct (shape_ctx K V ltb HS order C _ Hsh) as (d0 & Hok & Hrep).
  rewrite erase_node, erase_cs_app, erase_cs_cons in Hok.
  destruct (frame_down K V ltb HS order _ d0 _ _ _ _ Hok) as (d & -> & Hokc & _).
  assert (Ha : asc ltb (map fst (erase_cs pre ++ (s0, erase_ids ch) :: erase_cs post))) by apply Hok.
  assert (Hne : erase_cs pre ++ (s0, erase_ids ch) :: erase_cs post <> []) by (destruct (erase_cs pre); discriminate).
  destruct (search_le_split K ltb HS (key_of o) _ Ha Hne)
    as (ix & pre' & s' & c' & post' & Hs' & Hsplit & Hl' & _ & Hpost' & Hidx').
  rewrite <- erase_cs_cons, <- erase_cs_app, erase_cs_fst, Hse in Hs'. inversion Hs'; subst ix; clear Hs'.
  destruct (app_cons_inj _ _ _ _ _ _ Hsplit) as (<- & E1 & <-); [rewrite erase_cs_length; lia|].
  inversion E1; subst s' c'; clear E1 Hsplit.
  assert (Hidx : 0 < length (erase_cs pre) -> ltb (key_of o) s0 = false).
  { rewrite erase_cs_length. intros Hpos. apply Hidx'. lia. }
  assert (Hcapc : icap order ch) by apply Hokc.
  destruct (isplit order fr ch) as [[lft rgt]|] eqn:Hisp.
  - (* split *)
    destruct (maybe_split order (erase_ids ch)) as [[el er]|] eqn:Esp;
      [|rewrite (isplit_none K V order fr ch Esp) in Hisp; discriminate Hisp].
    destruct (isplit_some K V order fr ch el er Hev Hcapc Esp)
      as (lft' & rgt' & Hisp' & Hel & Her & Hnl & Hnr & Hperm & Hlk & Hcl & Hcr).
    rewrite Hisp in Hisp'. inversion Hisp'; subst lft' rgt'; clear Hisp'. subst el er.
    destruct (ismallest rgt) as [rs|] eqn:Ers; [|discriminate H]. cbn [bind] in H.
    rewrite set_nth_app, ins_nth_app1, Hupd in H. cbn [bind] in H.
    assert (Ers' : smallest (erase_ids rgt) = Ok rs) by (rewrite ismallest_erase; exact Ers).
    assert (Hlen' : length (erase_cs pre ++ (s0, erase_ids ch) :: erase_cs post) < order).
    { rewrite <- erase_cs_cons, <- erase_cs_app, erase_cs_length. exact Hlen. }
    destruct (child_split K V ltb HS order _ d _ _ _ _ _ Hok Hk Hidx Hpost' sep' Esep' _ _ rs H2 Hev Hlen' Esp Ers')
      as (Hok2 & Hcl2 & Hcr2 & Hrng).
    set (N2 := INode p (pre ++ (sep', lft) :: (rs, rgt) :: post)) in *.
    assert (HwN : wfc C N2 (S fr)).
    { eapply (wfc_replace K V C _ N2 fr (S fr) [fr]); [exact Hw| |repeat constructor; simpl; tauto| |lia].
      - unfold N2. rewrite !ids_node, !ids_list_app, !ids_list_cons.
        generalize (ids_list pre) (ids_list post) (ids lft) (ids rgt) (ids ch) Hperm.
        intros a b d1 d2 d3 Hp. perm_lia.
      - repeat constructor; lia. }
    assert (Hsh2 : shape order (plug C N2)).
    { apply Hrep.
      - unfold N2. rewrite erase_node, erase_cs_app, !erase_cs_cons. exact Hok2.
      - unfold N2. rewrite !links_node, !links_list_app, !links_list_cons.
        rewrite (app_assoc (leaf_links lft)). apply links_equiv_ctx. exact Hlk. }
    destruct (isplit_leaves order fr ch lft rgt Hev (icap_count K V order ch Hcapc) Hisp) as [Hents Hleaves].
    destruct (replace_mid C p pre post [(s0, ch)] [(sep', lft); (rs, rgt)] c) as [Hrm1 Hrm2].
    { rewrite !leaves_list_cons. cbn [leaves_list flat_map]. rewrite !app_nil_r, flat_map_app, <- !ents_leaves.
      symmetry. exact Hents. }
    { intros lf Hin Hne2. rewrite !leaves_list_cons in *. cbn [leaves_list flat_map] in *. rewrite app_nil_r in *.
      apply Hleaves; [exact Hin|]. rewrite Hnth. exact Hne2. }
    cbn [app] in Hrm1, Hrm2. fold N2 in Hrm1, Hrm2.
    destruct (ltb (key_of o) rs) eqn:Elt.
    + assert (Hwl : wfc (mkcf p pre sep' ((rs, rgt) :: post) :: C) lft (S fr)) by (apply wfc_node; exact HwN).
      left. exists (plug C N2), (S fr). split; [|exact H].
      split; [exact Hrm1|]. split; [exact Hrm2|].
      exists (mkcf p pre sep' ((rs, rgt) :: post) :: C), lft, (S fr).
      split; [reflexivity|]. split; [congruence|]. split; [exact Hsh2|]. split; [exact Hwl|].
      cbn [cbounds csep cpost mkcf hi_of]. exact Hrng.
    + unfold mk in H. inversion H; subst; clear H. right. apply IE_same; cbn [otr opc oev ph]; auto; discriminate.
  - (* no split *)
    rewrite set_nth_app, Hupd in H. cbn [bind] in H.
    destruct (child_nosplit K V ltb HS order _ d _ _ _ _ _ Hok Hk Hidx Hpost' sep' Esep') as (Hok2 & Hrng).
    assert (Hsh2 : shape order (plug C (INode p (pre ++ (sep', ch) :: post)))).
    { apply Hrep.
      - rewrite erase_node, erase_cs_app, !erase_cs_cons. exact Hok2.
      - rewrite !links_node, !links_list_app, !links_list_cons. apply links_equiv_refl. }
    assert (Hwc : wfc (mkcf p pre sep' post :: C) ch fr).
    { apply wfc_node. eapply wfc_same; [exact Hw|]. apply ids_sep_irrel. }
    destruct (replace_mid C p pre post [(s0, ch)] [(sep', ch)] c) as [Hrm1 Hrm2]; [reflexivity|auto|].
    cbn [app] in Hrm1, Hrm2.
    left. exists (plug C (INode p (pre ++ (sep', ch) :: post))), fr. split; [|exact H].
    split; [exact Hrm1|]. split; [exact Hrm2|].
    exists (mkcf p pre sep' post :: C), ch, fr.
    split; [reflexivity|]. split; [exact Hnth|]. split; [exact Hsh2|]. split; [exact Hwc|].
    cbn [cbounds csep cpost mkcf]. rewrite <- (hi_of_erase K V). exact Hrng.
Qed.

(* ------------------------------------------------------------------------------------------------ *)
(* InsWantChild, NEW separator choice: the first separator is only ever lowered to the key             *)
(*   sep' = if index =? 0 then (if ltb key sep then key else sep) else sep                             *)
(* (variants of GIa1_Local.child_facts/child_nosplit/child_split, GIa1_Blocks.ins_child_blk and         *)
(*  ins_child_prep above, which speak about the OLD choice via `smallest child`)                        *)
(* ------------------------------------------------------------------------------------------------ *)
Section ChildN.
Variables (order : nat) (b : option K * option K) (d : nat) (pre post : list (K * tree)) (s : K) (c : tree) (k : K).
Hypothesis Hok : sub_ok order b (S d) (Node (pre ++ (s, c) :: post)).
Hypothesis Hk : rng b k.
Hypothesis Hidx : 0 < length pre -> ltb k s = false.
Hypothesis Hpost : Forall (fun e : K * tree => ltb k (fst e) = true) post.
Variable sep' : K.
Hypothesis Hsep : sep' = if length pre =? 0 then (if ltb k s then k else s) else s.

Let hi' := hi_of post (snd b).

Lemma child_facts_n :
  sub_ok order (Some s, hi') d c /\ rng b s /\ (pre = [] \/ sep' = s) /\
  ltb k sep' = false /\ lt_hi ltb k hi' = true /\
  Forall (fun x => ltb x sep' = false) (allkeys c) /\
  rng (fst b, hi') sep' /\
  Forall (rng (fst b, hi')) (allkeys c) /\
  (forall sm, smallest c = Ok sm -> ltb sm sep' = false).
Proof.
  destruct (frame_down K V ltb HS order b (S d) pre s c post Hok) as (d' & Ed & Hc & Hrs & Hss & Hs').
  inversion Ed; subst d'. fold hi' in Hc.
  pose proof (frame_sep_hi K V ltb HS order b (S d) pre s c post Hok) as Hshi. fold hi' in Hshi.
  destruct Hc as (Hco & Hcr & Hcb & Hcc).
  assert (Hcs : Forall (fun x => ltb x s = false) (allkeys c)).
  { eapply Forall_impl; [|exact Hcr]. intros x [Hx _]. simpl in Hx. apply negb_true_iff in Hx. exact Hx. }
  assert (Hkhi : lt_hi ltb k hi' = true).
  { subst hi'. destruct post as [|[s' c'] post']; [apply Hk|]. cbn [hi_of lt_hi]. inversion Hpost; assumption. }
  assert (Hcrng : Forall (rng (fst b, hi')) (allkeys c)).
  { eapply Forall_impl; [|exact Hcr]. intros x [Hx1 Hx2]. cbn [fst snd] in *. split; [|exact Hx2].
    simpl in Hx1. apply negb_true_iff in Hx1. eapply (ge_lo_trans K ltb HS); [exact Hx1|apply Hrs]. }
  assert (Hsame : sep' = s -> (pre = [] \/ sep' = s) -> ltb k s = false ->
    (pre = [] \/ sep' = s) /\ ltb k sep' = false /\ lt_hi ltb k hi' = true /\
    Forall (fun x => ltb x sep' = false) (allkeys c) /\ rng (fst b, hi') sep' /\
    Forall (rng (fst b, hi')) (allkeys c) /\ (forall sm, smallest c = Ok sm -> ltb sm sep' = false)).
  { intros E Hp Hks. rewrite E. rewrite E in Hp.
    split; [exact Hp|]. split; [exact Hks|]. split; [exact Hkhi|]. split; [exact Hcs|]. split; [|split].
    - split; [apply Hrs|exact Hshi].
    - exact Hcrng.
    - intros sm' E'. rewrite Forall_forall in Hcs. apply Hcs. now apply (smallest_in K V). }
  split; [repeat split; assumption|]. split; [exact Hrs|].
  destruct (length pre =? 0) eqn:E.
  - apply Nat.eqb_eq in E. destruct pre; [|discriminate].
    destruct (ltb k s) eqn:Ek.
    + subst sep'. split; [now left|].
      assert (Hck : Forall (fun x => ltb x k = false) (allkeys c)).
      { eapply Forall_impl; [|exact Hcs]. intros x Hx. cbn beta in Hx.
        destruct (ltb x k) eqn:Exk; auto. rewrite (trans K ltb HS _ _ _ Exk Ek) in Hx. discriminate. }
      split; [apply (irrefl K ltb HS)|]. split; [exact Hkhi|]. split; [exact Hck|]. split; [|split].
      * split; [apply Hk|exact Hkhi].
      * exact Hcrng.
      * intros sm' E'. rewrite Forall_forall in Hck. apply Hck. now apply (smallest_in K V).
    + apply Hsame; [exact Hsep|now left|reflexivity].
  - apply Nat.eqb_neq in E. apply Hsame; [exact Hsep|now right|apply Hidx; lia].
Qed.

(* no split: only the separator may change *)
Lemma child_nosplit_n :
  sub_ok order b (S d) (Node (pre ++ (sep', c) :: post)) /\ rng (Some sep', hi') k.
Proof.
  destruct child_facts_n as (Hc & Hrs & Hp & Hks & Hkhi & Hcs & Hsr & Hcr & _).
  destruct Hc as (Hco & _ & Hcb & Hcc).
  split; [|split; [simpl; rewrite Hks; reflexivity|exact Hkhi]].
  apply (node_replace K V ltb HS order b d pre s c post sep' c []); auto.
  - repeat constructor.
  - simpl. split; [exact Hcs|tauto].
  - simpl. tauto.
  - simpl. tauto.
  - simpl. tauto.
  - cbn [flat_map fst snd]. rewrite app_nil_r. constructor; assumption.
  - destruct Hok as (_ & _ & _ & Hcap). apply (cap_node K V) in Hcap. destruct Hcap as [Hl _].
    clear - Hl. cbn [count] in Hl. rewrite !app_length in *. cbn [length app] in *. lia.
Qed.

(* split: the right half becomes the next entry *)
Lemma child_split_n l r rs :
  2 <= order -> Nat.even order = true -> length (pre ++ (s, c) :: post) < order ->
  maybe_split order c = Some (l, r) -> smallest r = Ok rs ->
  sub_ok order b (S d) (Node (pre ++ (sep', l) :: (rs, r) :: post)) /\
  count l < order /\ count r < order /\
  (if ltb k rs then rng (Some sep', Some rs) k else rng (Some rs, hi') k).
Proof.
  intros H2 Hev Hlen Hm Hrs.
  destruct child_facts_n as (Hc & Hrss & Hp & Hks & Hkhi & Hcs & Hsr & Hcr & Hsm).
  assert (Hc' : sub_ok order (fst b, hi') d c).
  { destruct Hc as (A1 & _ & A3 & A4). repeat split; assumption. }
  destruct (split_ok K V ltb HS order _ d c l r H2 Hev Hm Hc')
    as (Hl & Hr & Cl & Cr & Hh1 & Hh2 & Esm & Hak & [ls Els] & (rs' & Ers & Hlrs & Hrrs & Hrsr)).
  rewrite Hrs in Ers. inversion Ers; subst rs'; clear Ers.
  destruct Hl as (Hlo & Hlr & Hlb & Hlc). destruct Hr as (Hro & Hrr & Hrb & Hrc).
  rewrite Hak in Hcs. apply Forall_app in Hcs. destruct Hcs as [Hcsl Hcsr].
  assert (Hseprs : ltb sep' rs = true).
  { rewrite Esm in Els. pose proof (Hsm ls Els) as H1. rewrite <- Esm in Els.
    pose proof (smallest_in K V l ls Els) as Hin. rewrite Forall_forall in Hlrs. specialize (Hlrs ls Hin).
    eapply (lelt K ltb HS); eauto. }
  split; [|split; [lia|split; [lia|]]].
  - change (pre ++ (sep', l) :: (rs, r) :: post) with (pre ++ ((sep', l) :: [(rs, r)]) ++ post).
    apply (node_replace K V ltb HS order b d pre s c post sep' l [(rs, r)]); auto.
    + cbn [map fst]. repeat constructor. exact Hseprs.
    + cbn [seps_ok]. split; [exact Hcsl|]. split; [exact Hlrs|]. split; [exact Hrrs|tauto].
    + simpl. tauto.
    + simpl. tauto.
    + simpl. tauto.
    + cbn [flat_map fst snd]. rewrite app_nil_r. constructor; [exact Hsr|].
      apply Forall_app. split; [exact Hlr|]. constructor; [exact Hrsr|exact Hrr].
    + clear - Hlen. rewrite !app_length in *. cbn [length app] in *. lia.
  - destruct (ltb k rs) eqn:Ekr.
    + split; simpl; [rewrite Hks; reflexivity|exact Ekr].
    + split; [simpl; rewrite Ekr; reflexivity|exact Hkhi].
Qed.

End ChildN.

(* the InsWantChild block of the new model (literally the body of that case of Conc.blk) *)
Definition ins_child_blk_n (order : nat) (o : cop) (p c : id) (index : nat) (t : itree) l0 fr tm0 : res out :=
  let key := key_of o in
  match Conc.find p t, Conc.find c t with
  | Some (INode pi cs), Some child =>
    '(sep, _) <- get_nth index cs ;;
    sep' <- Ok (if index =? 0 then (if ltb key sep then key else sep) else sep) ;;
    match isplit order fr child with
    | None =>
      t' <- upd p (fun _ => Ok (INode pi (set_nth index (sep', child) cs))) t ;;
      ins_descend ltb o c t' (unlock p l0) fr tm0
    | Some (lft, rgt) =>
      rs <- ismallest rgt ;;
      t' <- upd p (fun _ => Ok (INode pi (ins_nth (index + 1) (rs, rgt) (set_nth index (sep', lft) cs)))) t ;;
      if ltb key rs then ins_descend ltb o c t' (unlock p l0) (S fr) tm0
      else mk t' l0 (S fr) tm0 (InsWantSplitRight o p c fr) []
    end
  | _, _ => Panic PIndex end.

Lemma ins_child_prep_n order (o : cop) p c index (t : itree) l0 fr tm0 (out : out) :
  2 <= order -> Nat.even order = true ->
  shape order t -> NoDup (ids t) -> Forall (fun i => i < fr) (ids t) ->
  pc_ok_b ltb order t (InsWantChild o p c index) = true ->
  ins_child_blk_n order o p c index t l0 fr tm0 = Ok out ->
  (exists t' fr', prep order o c t t' /\ ins_descend ltb o c t' (unlock p l0) fr' tm0 = Ok out) \/
  ins_eff o c t out.
Proof.
  intros H2 Hev Hsh Hnd Hlt Hpc H. unfold ins_child_blk_n in H. cbn [pc_ok_b] in Hpc.
  destruct (Conc.find p t) as [[?|pi cs]|] eqn:Hfp; try discriminate Hpc.
  apply andb_true_iff in Hpc. destruct Hpc as [Hpc Hrange].
  apply andb_true_iff in Hpc. destruct Hpc as [Hpc Hnth].
  apply andb_true_iff in Hpc. destruct Hpc as [Hlen Hsearch].
  apply Nat.ltb_lt in Hlen.
  destruct (search_le ltb (key_of o) (map fst cs)) as [ix|] eqn:Hse; [|discriminate Hsearch].
  simpl in Hsearch. apply Nat.eqb_eq in Hsearch. subst ix.
  destruct (nth_error cs index) as [[s0 ch]|] eqn:Hn; [|discriminate Hnth]. apply Nat.eqb_eq in Hnth.
  destruct (nth_error_split cs index Hn) as (pre & post & -> & Hlpre).
  assert (Hfc : Conc.find c t = Some ch).
  { subst c. eapply FrameRel.find_child; eauto. apply in_or_app; right; left; reflexivity. }
  rewrite Hfc in H.
  destruct (find_in_range K V ltb p t _ fr (key_of o) Hnd Hlt Hfp Hrange) as (C & -> & Hw & Hp & Hk).
  cbn [nid] in Hp. subst pi.
  rewrite <- Hlpre in H. rewrite get_nth_app in H. cbn [bind] in H.
  remember (if length pre =? 0 then if ltb (key_of o) s0 then key_of o else s0 else s0) as sep' eqn:Esep in H.
  assert (Esep' : sep' = if length (erase_cs pre) =? 0 then (if ltb (key_of o) s0 then key_of o else s0) else s0).
  { rewrite erase_cs_length. exact Esep. }
  assert (Hupd : forall cs2, upd p (fun _ => Ok (INode p cs2)) (plug C (INode p (pre ++ (s0, ch) :: post)))
                             = Ok (plug C (INode p cs2))).
  { intros cs2. apply (upd_plug_self K V C _ fr _ Hw). }
  destruct (shape_ctx K V ltb HS order C _ Hsh) as (d0 & Hok & Hrep).
  rewrite erase_node, erase_cs_app, erase_cs_cons in Hok.
  destruct (frame_down K V ltb HS order _ d0 _ _ _ _ Hok) as (d & -> & Hokc & _).
  assert (Ha : asc ltb (map fst (erase_cs pre ++ (s0, erase_ids ch) :: erase_cs post))) by apply Hok.
  assert (Hne : erase_cs pre ++ (s0, erase_ids ch) :: erase_cs post <> []) by (destruct (erase_cs pre); discriminate).
  destruct (search_le_split K ltb HS (key_of o) _ Ha Hne)
    as (ix & pre' & s' & c' & post' & Hs' & Hsplit & Hl' & _ & Hpost' & Hidx').
  rewrite <- erase_cs_cons, <- erase_cs_app, erase_cs_fst, Hse in Hs'. inversion Hs'; subst ix; clear Hs'.
  destruct (app_cons_inj _ _ _ _ _ _ Hsplit) as (<- & E1 & <-); [rewrite erase_cs_length; lia|].
  inversion E1; subst s' c'; clear E1 Hsplit.
  assert (Hidx : 0 < length (erase_cs pre) -> ltb (key_of o) s0 = false).
  { rewrite erase_cs_length. intros Hpos. apply Hidx'. lia. }
  assert (Hcapc : icap order ch) by apply Hokc.
  destruct (isplit order fr ch) as [[lft rgt]|] eqn:Hisp.
  - (* split *)
    destruct (maybe_split order (erase_ids ch)) as [[el er]|] eqn:Esp;
      [|rewrite (isplit_none K V order fr ch Esp) in Hisp; discriminate Hisp].
    destruct (isplit_some K V order fr ch el er Hev Hcapc Esp)
      as (lft' & rgt' & Hisp' & Hel & Her & Hnl & Hnr & Hperm & Hlk & Hcl & Hcr).
    rewrite Hisp in Hisp'. inversion Hisp'; subst lft' rgt'; clear Hisp'. subst el er.
    destruct (ismallest rgt) as [rs|] eqn:Ers; [|discriminate H]. cbn [bind] in H.
    rewrite set_nth_app, ins_nth_app1, Hupd in H. cbn [bind] in H.
    assert (Ers' : smallest (erase_ids rgt) = Ok rs) by (rewrite ismallest_erase; exact Ers).
    assert (Hlen' : length (erase_cs pre ++ (s0, erase_ids ch) :: erase_cs post) < order).
    { rewrite <- erase_cs_cons, <- erase_cs_app, erase_cs_length. exact Hlen. }
    destruct (child_split_n order _ d _ _ _ _ _ Hok Hk Hidx Hpost' sep' Esep' _ _ rs H2 Hev Hlen' Esp Ers')
      as (Hok2 & Hcl2 & Hcr2 & Hrng).
    set (N2 := INode p (pre ++ (sep', lft) :: (rs, rgt) :: post)) in *.
    assert (HwN : wfc C N2 (S fr)).
    { eapply (wfc_replace K V C _ N2 fr (S fr) [fr]); [exact Hw| |repeat constructor; simpl; tauto| |lia].
      - unfold N2. rewrite !ids_node, !ids_list_app, !ids_list_cons.
        generalize (ids_list pre) (ids_list post) (ids lft) (ids rgt) (ids ch) Hperm.
        intros a b d1 d2 d3 Hp. perm_lia.
      - repeat constructor; lia. }
    assert (Hsh2 : shape order (plug C N2)).
    { apply Hrep.
      - unfold N2. rewrite erase_node, erase_cs_app, !erase_cs_cons. exact Hok2.
      - unfold N2. rewrite !links_node, !links_list_app, !links_list_cons.
        rewrite (app_assoc (leaf_links lft)). apply links_equiv_ctx. exact Hlk. }
    destruct (isplit_leaves order fr ch lft rgt Hev (icap_count K V order ch Hcapc) Hisp) as [Hents Hleaves].
    destruct (replace_mid C p pre post [(s0, ch)] [(sep', lft); (rs, rgt)] c) as [Hrm1 Hrm2].
    { rewrite !leaves_list_cons. cbn [leaves_list flat_map]. rewrite !app_nil_r, flat_map_app, <- !ents_leaves.
      symmetry. exact Hents. }
    { intros lf Hin Hne2. rewrite !leaves_list_cons in *. cbn [leaves_list flat_map] in *. rewrite app_nil_r in *.
      apply Hleaves; [exact Hin|]. rewrite Hnth. exact Hne2. }
    cbn [app] in Hrm1, Hrm2. fold N2 in Hrm1, Hrm2.
    destruct (ltb (key_of o) rs) eqn:Elt.
    + assert (Hwl : wfc (mkcf p pre sep' ((rs, rgt) :: post) :: C) lft (S fr)) by (apply wfc_node; exact HwN).
      left. exists (plug C N2), (S fr). split; [|exact H].
      split; [exact Hrm1|]. split; [exact Hrm2|].
      exists (mkcf p pre sep' ((rs, rgt) :: post) :: C), lft, (S fr).
      split; [reflexivity|]. split; [congruence|]. split; [exact Hsh2|]. split; [exact Hwl|].
      cbn [cbounds csep cpost mkcf hi_of]. exact Hrng.
    + unfold mk in H. inversion H; subst; clear H. right. apply IE_same; cbn [otr opc oev ph]; auto; discriminate.
  - (* no split *)
    rewrite set_nth_app, Hupd in H. cbn [bind] in H.
    destruct (child_nosplit_n order _ d _ _ _ _ _ Hok Hk Hidx Hpost' sep' Esep') as (Hok2 & Hrng).
    assert (Hsh2 : shape order (plug C (INode p (pre ++ (sep', ch) :: post)))).
    { apply Hrep.
      - rewrite erase_node, erase_cs_app, !erase_cs_cons. exact Hok2.
      - rewrite !links_node, !links_list_app, !links_list_cons. apply links_equiv_refl. }
    assert (Hwc : wfc (mkcf p pre sep' post :: C) ch fr).
    { apply wfc_node. eapply wfc_same; [exact Hw|]. apply ids_sep_irrel. }
    destruct (replace_mid C p pre post [(s0, ch)] [(sep', ch)] c) as [Hrm1 Hrm2]; [reflexivity|auto|].
    cbn [app] in Hrm1, Hrm2.
    left. exists (plug C (INode p (pre ++ (sep', ch) :: post))), fr. split; [|exact H].
    split; [exact Hrm1|]. split; [exact Hrm2|].
    exists (mkcf p pre sep' post :: C), ch, fr.
    split; [reflexivity|]. split; [exact Hnth|]. split; [exact Hsh2|]. split; [exact Hwc|].
    cbn [cbounds csep cpost mkcf]. rewrite <- (hi_of_erase K V). exact Hrng.
Qed.

(* ------------------------------------------------------------------------------------------------ *)
(* WantRoot (Insert / Update)                                                                         *)
(* ------------------------------------------------------------------------------------------------ *)
Lemma root_prep order (o : cop) r (t : itree) l0 fr tm0 (out : out) :
  2 <= order -> Nat.even order = true ->
  shape order t -> NoDup (ids t) -> Forall (fun i => i < fr) (ids t) -> r = nid t ->
  root_blk K V ltb order o r t l0 fr tm0 = Ok out ->
  (exists t' fr', prep order o r t t' /\ ins_descend ltb o r t' l0 fr' None = Ok out) \/
  ins_eff o r t out.
Proof.
  intros H2 Hev Hsh Hnd Hlt Hr H. unfold root_blk in H. subst r.
  assert (Hw : wfc [] t fr) by (apply wfc_nil; auto).
  destruct (isplit order fr t) as [[lft rgt]|] eqn:Hisp.
  - pose proof Hsh as [Hts Hch].
    assert (Hcap : icap order t) by apply Hts.
    destruct (maybe_split order (erase_ids t)) as [[el er]|] eqn:Esp;
      [|rewrite (isplit_none K V order fr t Esp) in Hisp; discriminate Hisp].
    destruct (isplit_some K V order fr t el er Hev Hcap Esp)
      as (lft' & rgt' & Hisp' & Hel & Her & Hnl & Hnr & Hperm & Hlk & Hcl & Hcr).
    rewrite Hisp in Hisp'. inversion Hisp'; subst lft' rgt'; clear Hisp'. subst el er.
    destruct (ismallest lft) as [ls|] eqn:Els; [|discriminate H]. cbn [bind] in H.
    destruct (ismallest rgt) as [rs|] eqn:Ers; [|discriminate H]. cbn [bind] in H.
    assert (Els' : smallest (erase_ids lft) = Ok ls) by (rewrite ismallest_erase; exact Els).
    assert (Ers' : smallest (erase_ids rgt) = Ok rs) by (rewrite ismallest_erase; exact Ers).
    destruct (root_split_ok K V ltb HS order _ _ _ (key_of o) ls rs H2 Hev Hts Esp Els' Ers')
      as (Hts2 & Hcl2 & Hcr2 & Hrng).
    set (ls' := if ltb (key_of o) ls then key_of o else ls) in *.
    set (t' := INode (S fr) [(ls', lft); (rs, rgt)]) in *.
    assert (Hsh2 : shape order t').
    { split; [exact Hts2|]. unfold t'. rewrite links_node, !links_list_cons. cbn [links_list flat_map].
      specialize (Hlk [] []). cbn [app] in Hlk. rewrite !app_nil_r in Hlk. rewrite app_nil_r. auto. }
    destruct (isplit_leaves order fr t lft rgt Hev (icap_count K V order t Hcap) Hisp) as [Hents Hleaves].
    assert (He' : ents t' = ents t).
    { rewrite Hents. unfold t'. rewrite (ents_leaves (INode _ _)), leaves_node, !leaves_list_cons.
      cbn [leaves_list flat_map]. rewrite app_nil_r, flat_map_app, <- !ents_leaves. reflexivity. }
    destruct (ltb (key_of o) rs) eqn:Elt.
    + assert (Hw2 : wfc [] t' (S (S fr))).
      { eapply (wfc_replace K V [] t t' fr (S (S fr)) [fr; S fr]); [exact Hw| | | |lia].
        - unfold t'. rewrite ids_node, !ids_list_cons. cbn [ids_list flat_map]. rewrite app_nil_r.
          generalize (ids lft) (ids rgt) (ids t) Hperm. intros d1 d2 d3 Hp. perm_lia.
        - constructor; [simpl; intros [E|[]]; lia|]. repeat constructor. simpl. tauto.
        - repeat constructor; lia. }
      assert (Hwl : wfc [mkcf (S fr) [] ls' [(rs, rgt)]] lft (S (S fr))) by (apply wfc_node; exact Hw2).
      left. exists t', (S (S fr)). split; [|exact H].
      split; [exact He'|]. split.
      * intros lf Hin Hne. unfold t'. rewrite leaves_node, !leaves_list_cons. cbn [leaves_list flat_map].
        rewrite app_nil_r. apply Hleaves; assumption.
      * exists [mkcf (S fr) [] ls' [(rs, rgt)]], lft, (S (S fr)).
        split; [reflexivity|]. split; [exact Hnl|]. split; [exact Hsh2|]. split; [exact Hwl|].
        cbn [cbounds csep cpost mkcf hi_of]. exact Hrng.
    + unfold mk in H. inversion H; subst; clear H. right. apply IE_same; cbn [otr opc oev ph]; auto; discriminate.
  - left. exists t, fr. split; [|exact H].
    split; [reflexivity|]. split; [auto|]. exists [], t, fr.
    split; [reflexivity|]. split; [reflexivity|]. split; [exact Hsh|]. split; [exact Hw|]. apply rng_top.
Qed.

(* ------------------------------------------------------------------------------------------------ *)
(* UpdCallback                                                                                        *)
(* ------------------------------------------------------------------------------------------------ *)

Lemma upd_cb_eff order (o : cop) leaf mode index (t : itree) l0 fr tm0 (out : out) :
  shape order t -> NoDup (ids t) -> Forall (fun i => i < fr) (ids t) ->
  pc_ok_b ltb order t (UpdCallback o leaf mode index) = true ->
  pc_key_exact t (UpdCallback o leaf mode index) ->
  upd_cb_blk K V o leaf mode index t l0 fr tm0 = Ok out ->
  exists k f a, o = CUpdate k f /\ opc out = Idle /\ oev out = [EReturn (RArg K a)] /\ FAR leaf k t /\
    SS (map fst (absP ltb (ph (UpdCallback o leaf mode index)) (ents t))) /\
    ents (otr out) = put ltb k f (absP ltb (ph (UpdCallback o leaf mode index)) (ents t)) /\
    lookup ltb k (absP ltb (ph (UpdCallback o leaf mode index)) (ents t)) = a.
Proof.
  intros Hsh Hnd Hlt Hpc Hex H. unfold upd_cb_blk in H. cbn [pc_ok_b] in Hpc.
  destruct o as [k v|k f|k|k|k n]; try discriminate H.
  destruct (Conc.find leaf t) as [[i nx es|]|] eqn:Hf; try discriminate Hpc.
  apply andb_true_iff in Hpc. destruct Hpc as [Hrange Hmode]. cbn [key_of] in *.
  destruct (find_in_range K V ltb leaf t _ fr k Hnd Hlt Hf Hrange) as (C & -> & Hw & Hp & Hk).
  cbn [nid] in Hp. subst i.
  assert (Hupd : forall new, upd leaf (fun _ => Ok new) (plug C (ILeaf leaf nx es)) = Ok (plug C new)).
  { intros new. apply (upd_plug_self K V C (ILeaf leaf nx es) fr new Hw). }
  pose proof (leaf_sorted_ctx K V ltb HS order C leaf nx es Hsh) as Hss.
  destruct (ctx_sides K V ltb HS order C _ _ Hsh Hk) as [HL HR].
  pose proof (far_of_sides K V ltb C leaf nx es k HL HR) as Hfar.
  pose proof (shape_entries_SS K V ltb HS order _ Hsh) as HssE. fold (ents (plug C (ILeaf leaf nx es))) in HssE.
  exists k, f.
  destruct mode as [|[|mode]].
  - rewrite Hupd in H. cbn [bind] in H. unfold mk in H. inversion H; subst; clear H. cbn [otr opc oev ph].
    apply andb_true_iff in Hmode. destruct Hmode as [Hl Hlast].
    destruct (mode0_store K V ltb HS k f es Hss Hlast) as [Eput Elook].
    exists None. rewrite absP_nil. repeat split; auto.
    + rewrite !ents_plug_leaf, Eput. symmetry. apply (put_in_ctx K V ltb HS); assumption.
    + rewrite ents_plug_leaf, (lookup_in_ctx K V ltb HS) by assumption. exact Elook.
  - destruct (get_nth index es) as [[k' v']|] eqn:Eg; [|discriminate H]. cbn [bind] in H.
    rewrite Hupd in H. cbn [bind] in H. unfold mk in H. inversion H; subst; clear H. cbn [otr opc oev ph].
    apply get_nth_some in Eg. rewrite Eg in Hmode.
    destruct (mode1_store K V ltb HS k k' v' index f es Hss Eg Hmode) as [Eput Elook].
    exists (Some v'). rewrite absP_nil. repeat split; auto.
    + rewrite !ents_plug_leaf, Eput. symmetry. apply (put_in_ctx K V ltb HS); assumption.
    + rewrite ents_plug_leaf, (lookup_in_ctx K V ltb HS) by assumption. exact Elook.
  - destruct Hex as (i' & nx' & es' & w & Hf' & Hn'). rewrite Hf in Hf'. inversion Hf'; subst i' nx' es'; clear Hf'.
    cbn [key_of] in Hn'.
    assert (Eg : get_nth index es = Ok (k, w)) by (unfold get_nth; rewrite Hn'; reflexivity).
    rewrite Eg in H. cbn [bind] in H.
    rewrite Hupd in H. cbn [bind] in H. unfold mk in H. inversion H; subst; clear H. cbn [otr opc oev ph key_of].
    destruct (nth_error_split es index Hn') as (A & B & -> & <-).
    rewrite set_nth_app. rewrite !ents_plug_leaf in *.
    replace (Lents C ++ (A ++ (k, w) :: B) ++ Rents C) with ((Lents C ++ A) ++ (k, w) :: (B ++ Rents C)) in *
      by (rewrite <- !app_assoc; reflexivity).
    replace (Lents C ++ (A ++ (k, f None) :: B) ++ Rents C) with ((Lents C ++ A) ++ (k, f None) :: (B ++ Rents C))
      by (rewrite <- !app_assoc; reflexivity).
    destruct (placeholder_store K V ltb HS (Lents C ++ A) k w (B ++ Rents C) f HssE) as (E1 & E2 & E3).
    exists None. rewrite E1. repeat split; auto.
    rewrite <- E1. apply (absP_SS K V ltb). exact HssE.
Qed.

(* ------------------------------------------------------------------------------------------------ *)
(* sea_descend                                                                                        *)
(* ------------------------------------------------------------------------------------------------ *)
Lemma sea_descend_leaf (o : cop) x (t : itree) l fr tmx (out : out) i nx es :
  Conc.find x t = Some (ILeaf i nx es) -> sea_descend ltb o x t l fr tmx = Ok out ->
  otr out = t /\
  match o with
  | CScan _ _ => oev out = [] /\ exists a b c d, opc out = CurRest a b c d
  | _ => opc out = Idle /\ exists r, oev out = [EReturn (RFound K r)] /\ (SS (map fst es) -> r = lookup ltb (key_of o) es)
  end.
Proof.
  intros Hf H. unfold sea_descend in H. rewrite Hf in H.
  destruct o as [k v|k f|k|k|k n]; cbn [key_of] in *.
  5: { unfold mk in H. crunch H. inversion H; subst; clear H. cbn [otr oev opc]. split; [reflexivity|]. split; eauto. }
  all: match type of H with bind ?X _ = _ => destruct X as [r|] eqn:Er; [|discriminate H] end; cbn [bind] in H;
       unfold mk in H; inversion H; subst; clear H; cbn [otr oev opc]; split; [reflexivity|]; split; [reflexivity|];
       exists r; split; [reflexivity|]; intros Hss; eapply (leaf_search_lookup K V ltb HS); eauto.
Qed.

Lemma sea_descend_node (o : cop) x (t : itree) l fr tmx (out : out) i cs :
  Conc.find x t = Some (INode i cs) -> sea_descend ltb o x t l fr tmx = Ok out ->
  otr out = t /\ oev out = [] /\
  exists idx s ch, search_le ltb (key_of o) (map fst cs) = Ok idx /\ nth_error cs idx = Some (s, ch) /\
    opc out = SeaWantChild o x (nid ch).
Proof.
  intros Hf H. unfold sea_descend in H. rewrite Hf in H.
  destruct (search_le ltb (key_of o) (map fst cs)) as [idx|] eqn:Es; [|discriminate H]. cbn [bind] in H.
  destruct (get_nth idx cs) as [[s ch]|] eqn:Eg; [|discriminate H]. cbn [bind] in H.
  unfold mk in H. inversion H; subst; clear H. cbn [otr oev opc]. split; [reflexivity|]. split; [reflexivity|].
  exists idx, s, ch. split; [reflexivity|]. split; [apply get_nth_some; exact Eg|reflexivity].
Qed.

(* the child the binary search selects, and what lies on either side of it *)
Lemma child_sides order (C : list cframe) p (cs : list (K * itree)) k idx s (ch : itree) fr :
  shape order (plug C (INode p cs)) -> wfc C (INode p cs) fr ->
  search_le ltb k (map fst cs) = Ok idx -> nth_error cs idx = Some (s, ch) ->
  lt_hi ltb k (snd (cbounds C)) = true ->
  exists pre post, cs = pre ++ (s, ch) :: post /\
    let C' := mkcf p pre s post :: C in
    wfc C' ch fr /\ plug C' ch = plug C (INode p cs) /\
    Forall (fun e => ltb k (fst e) = true) (Rents C') /\
    (ge_lo ltb k (fst (cbounds C)) = true -> Forall (fun e => ltb (fst e) k = true) (Lents C')) /\
    (ltb k s = true -> pre = []) /\
    ge_lo ltb s (fst (cbounds C)) = true /\
    Forall (fun e => ltb (fst e) s = false) (ents ch).
Proof.
  intros Hsh Hw Hse Hn Hhi.
  destruct (nth_error_split cs idx Hn) as (pre & post & -> & Hlpre).
  exists pre, post. split; [reflexivity|]. intros C'.
  assert (Hw' : wfc C' ch fr) by (apply wfc_node; exact Hw).
  assert (Hpl : plug C' ch = plug C (INode p (pre ++ (s, ch) :: post))) by reflexivity.
  destruct (shape_ctx K V ltb HS order C _ Hsh) as (d0 & Hok & _).
  rewrite erase_node, erase_cs_app, erase_cs_cons in Hok.
  destruct (frame_down K V ltb HS order _ d0 _ _ _ _ Hok) as (d & -> & Hokc & Hrs & _ & Hs').
  assert (Ha : asc ltb (map fst (erase_cs pre ++ (s, erase_ids ch) :: erase_cs post))) by apply Hok.
  assert (Hne : erase_cs pre ++ (s, erase_ids ch) :: erase_cs post <> []) by (destruct (erase_cs pre); discriminate).
  destruct (search_le_split K ltb HS k _ Ha Hne)
    as (ix & pre' & s' & c' & post' & Hs2 & Hsplit & Hl' & _ & Hpost' & Hidx').
  rewrite <- erase_cs_cons, <- erase_cs_app, erase_cs_fst, Hse in Hs2. inversion Hs2; subst ix; clear Hs2.
  destruct (app_cons_inj _ _ _ _ _ _ Hsplit) as (<- & E1 & <-); [rewrite erase_cs_length; lia|].
  inversion E1; subst s' c'; clear E1 Hsplit.
  rewrite <- Hpl in Hsh.
  split; [exact Hw'|]. split; [exact Hpl|]. split; [|split; [|split; [|split]]].
  - eapply (ctx_right K V ltb HS order C' ch k Hsh). cbn [cbounds snd C' mkcf cpost].
    rewrite <- (hi_of_erase K V). destruct (erase_cs post) as [|[s1 c1] post1]; [exact Hhi|].
    cbn [hi_of lt_hi]. inversion Hpost'; assumption.
  - intros Hlo. destruct pre as [|e0 pre0].
    + unfold C'. rewrite Lents_cons. cbn [mkcf cpre erase_cs map flat_map]. rewrite app_nil_r.
      eapply (ctx_left K V ltb HS order C (plug1 (mkcf p [] s post) ch) k); [exact Hsh|exact Hlo].
    + eapply (ctx_left K V ltb HS order C' ch k Hsh). cbn [cbounds fst C' mkcf csep ge_lo].
      apply negb_true_iff. apply Hidx'. rewrite ?erase_cs_length in *; simpl in *; lia.
  - intros Hks. destruct pre as [|e0 pre0]; [reflexivity|]. exfalso.
    rewrite Hidx' in Hks; [discriminate|]. rewrite ?erase_cs_length in *; simpl in *; lia.
  - apply Hrs.
  - pose proof (ctx_inner K V ltb HS order C' ch Hsh) as Hin. unfold ents.
    eapply Forall_impl; [|exact Hin]. intros e [He _]. cbn [cbounds fst C' mkcf csep ge_lo] in He.
    apply negb_true_iff in He. exact He.
Qed.

End Blocks.

Arguments pc_key_exact {K V} t p.

(* Properties2.v — property theorems, continued (same conventions as Properties.v: each closed by [exact <lemma>]
   and followed by Print Assumptions): the order-2 extension, the textbook form of linearizability, the counter
   corollary, the termination bound and the cursor theorems. *)
From Coq Require Import List PeanoNat.
From GB Require Import Model Spec Inv Conc GI CIDef Lin LinDef.
From GB Require Import O2_NoDel O2_Proof.
From GB Require Import TB_Trace TB_Link TB_Proof TB_Counter TB_HW.
From GB Require Import C4_Lists C4_Blocks C4_Inv C4_Proof C4_Trace C4_Final C4b_Proof C4b_Final NoGap C4c_Closed C4k_Final.
From GB Require Import TERM_Proof.
From GB Require Import Frame LockInv Final RD_Base RD_Proof.
Import ListNotations.
Open Scope nat_scope.

(* ====================== order 2 (and every even order >= 2) without Delete ====================== *)
(* the property texts cover order 2 when no client calls Delete (known finding K1): the concurrent theorems hold
   there too *)
Theorem C03_linearizable_order2_no_delete :
  forall (K V : Type) (ltb : K -> K -> bool), SWO ltb -> forall order, Nat.even order = true -> 2 <= order ->
  forall (progs : list (tid * list (cop K V))), NoDup (map fst progs) -> no_delete_progs K V progs ->
  forall sched me, lin_step_ok ltb order (iexec ltb order (iinit progs) sched) me.
Proof. exact o2_linearizable. Qed.
Print Assumptions C03_linearizable_order2_no_delete.

Theorem C06_deadlock_free_order2_no_delete :
  forall (K V : Type) (ltb : K -> K -> bool), SWO ltb -> forall order, Nat.even order = true -> 2 <= order ->
  forall (progs : list (tid * list (cop K V))), NoDup (map fst progs) -> no_delete_progs K V progs ->
  forall sched, let s := fst (exec ltb order (init_st progs) sched) in
  (exists t, unfinished s t = true) -> exists t, enabled order s t = true.
Proof. exact o2_no_deadlock. Qed.
Print Assumptions C06_deadlock_free_order2_no_delete.

Theorem C03_no_panic_order2_no_delete :
  forall (K V : Type) (ltb : K -> K -> bool), SWO ltb -> forall order, Nat.even order = true -> 2 <= order ->
  forall (progs : list (tid * list (cop K V))), NoDup (map fst progs) -> no_delete_progs K V progs ->
  forall sched me p, cstep ltb order (fst (exec ltb order (init_st progs) sched)) me <> Crash p.
Proof. exact o2_no_crash. Qed.
Print Assumptions C03_no_panic_order2_no_delete.

Theorem C08_invariant_order2_no_delete :
  forall (K V : Type) (ltb : K -> K -> bool), SWO ltb -> forall order, Nat.even order = true -> 2 <= order ->
  forall (progs : list (tid * list (cop K V))), NoDup (map fst progs) -> no_delete_progs K V progs ->
  forall sched, CIall ltb order (fst (exec ltb order (init_st progs) sched)).
Proof. exact o2_invariant_reachable. Qed.
Print Assumptions C08_invariant_order2_no_delete.

(* ====================== C03 in the textbook form; C05 counter ====================== *)

(* Herlihy-Wing linearizability of the whole history (invocations and responses with thread ids) of every
   execution: there is a sequential witness containing every completed point operation with its actual response
   (pending ones optionally), legal for the ideal map from the empty map, respecting the real-time order *)
Theorem C03_history_linearizable :
  forall (K V : Type) (ltb : K -> K -> bool), SWO ltb -> forall order, Nat.even order = true -> 4 <= order ->
  forall (progs : list (tid * list (cop K V))), NoDup (map fst progs) ->
  forall sched, linearizable ltb (history_of (itrace ltb order (iinit progs) sched)).
Proof. exact history_linearizable. Qed.
Print Assumptions C03_history_linearizable.

(* the linearization points, in trace order, are a legal run of the ideal map whose final contents are the tree's *)
Theorem C03_legal_sequential_history :
  forall (K V : Type) (ltb : K -> K -> bool), SWO ltb -> forall order, Nat.even order = true -> 4 <= order ->
  forall (progs : list (tid * list (cop K V))), NoDup (map fst progs) ->
  forall sched,
  let tr := itrace ltb order (iinit progs) sched in
  let lps := flat_map (fun r : irec K V => match r_lp r with Some p => [p] | None => [] end) tr in
  snd (run_spec ltb [] (map fst lps)) = map snd lps /\
  fst (run_spec ltb [] (map fst lps)) = abs ltb (is_st (iexec ltb order (iinit progs) sched)).
Proof. exact legal_history. Qed.
Print Assumptions C03_legal_sequential_history.

(* every completed call has exactly one linearization point, between its invocation and its return, with its result *)
Theorem C03_every_completed_call_linearized_once :
  forall (K V : Type) (ltb : K -> K -> bool), SWO ltb -> forall order, Nat.even order = true -> 4 <= order ->
  forall (progs : list (tid * list (cop K V))), NoDup (map fst progs) ->
  forall sched, let tr := itrace ltb order (iinit progs) sched in
  forall n t res, at_ tr n (is_ret t res) -> completed tr n t res.
Proof. exact completed_calls. Qed.
Print Assumptions C03_every_completed_call_linearized_once.

(* C05: if every writer of key k in every program is Update(k, inc), then once all threads have finished the value
   of k is inc applied once per such Update, whatever the schedule: no update is lost, none is applied twice;
   with inc = +1 on nat: N concurrent Updates raise the counter by exactly N *)
Theorem C05_counter :
  forall (K V : Type) (ltb : K -> K -> bool), SWO ltb -> forall order, Nat.even order = true -> 4 <= order ->
  forall (progs : list (tid * list (cop K V))), NoDup (map fst progs) ->
  forall (k : K) (inc : option V -> V),
  (forall t p o, In (t, p) progs -> In o p -> is_writer K V ltb k o = true -> exists k', o = CUpdate k' inc) ->
  forall sched, let final := is_st (iexec ltb order (iinit progs) sched) in
  (forall t, In t (map fst progs) -> unfinished final t = false) ->
  lookup ltb k (abs ltb final) = Nat.iter (writers K V ltb progs k) (fun a => Some (inc a)) None.
Proof. exact counter. Qed.
Print Assumptions C05_counter.

Theorem C05_counter_plus_one :
  forall (K : Type) (ltb : K -> K -> bool), SWO ltb -> forall order, Nat.even order = true -> 4 <= order ->
  forall (progs : list (tid * list (cop K nat))), NoDup (map fst progs) ->
  forall k : K, (forall t p o, In (t, p) progs -> In o p -> o = CUpdate k plus_one) ->
  forall sched, let final := is_st (iexec ltb order (iinit progs) sched) in
  let N := length (concat (map snd progs)) in
  (forall t, In t (map fst progs) -> unfinished final t = false) ->
  lookup ltb k (abs ltb final) = match N with 0 => None | S _ => Some N end.
Proof. exact counter_nat. Qed.
Print Assumptions C05_counter_plus_one.

(* ====================== C06: every call returns after boundedly many of its own steps ====================== *)

(* [measure s t] bounds the remaining own steps of t's call in flight; other threads' steps never increase it;
   so in any continuation in which t takes at least that many steps, t's call has returned.  With
   C06_deadlock_free: under any schedule that keeps scheduling enabled threads every started call returns. *)
Theorem C06_bounded_own_steps :
  forall (K V : Type) (ltb : K -> K -> bool) (order : nat), SWO ltb -> 4 <= order -> Nat.even order = true ->
  forall (progs : list (tid * list (cop K V))) (sched0 sched : list tid) (t : tid), NoDup (map fst progs) ->
  let s := fst (exec ltb order (init_st progs) sched0) in
  tpc_of K V s t <> Idle ->
  measure K V s t <= steps_of K V t (snd (exec ltb order s sched)) ->
  returned_in K V t (snd (exec ltb order s sched)).
Proof. exact returns_within_measure_reachable. Qed.
Print Assumptions C06_bounded_own_steps.

(* ====================== C04: cursor steps under concurrent writers ====================== *)
Section C04.
Variables (K V : Type) (ltb : K -> K -> bool).
Hypothesis HS : SWO ltb.
Variable order : nat.
Hypothesis Heven : Nat.even order = true.
Hypothesis H4 : 4 <= order.
Variable progs : list (tid * list (cop K V)).
Hypothesis Hnd : NoDup (map fst progs).
Variable sched : list tid.
Let s := fst (exec ltb order (init_st progs) sched).

(* every pair a cursor exposes is stored in the tree at the moment it is returned (and the step changes nothing) *)
Theorem C04_pair_is_stored : forall s' me acq ev e,
  cstep ltb order s me = Stepped s' acq ev -> In (EPair e) ev -> In e (abs ltb s') /\ abs ltb s' = abs ltb s.
Proof. exact (C04_stored K V ltb HS order Heven H4 progs Hnd sched). Qed.

(* successive pairs have strictly increasing keys, none below the start key *)
Theorem C04_strictly_increasing_from_start : forall s' me acq ev e,
  cstep ltb order s me = Stepped s' acq ev -> In (EPair e) ev ->
  exists th th' k cnt,
    get_thread me (ths s) = Some th /\ get_thread me (ths s') = Some th' /\
    hd_error (prog th) = Some (CScan k cnt) /\ prog th' = prog th /\
    is_cur (tpc th) = true /\ is_cur (tpc th') = true /\
    yielded (tpc th') = e :: yielded (tpc th) /\
    kdesc ltb (e :: yielded (tpc th)) /\
    Forall (fun x => ltb (fst x) k = false) (e :: yielded (tpc th)).
Proof. exact (C04_increasing K V ltb HS order Heven H4 progs Hnd sched). Qed.

(* every Scan step after the first is an atomic "smallest stored key greater than the previous one" query,
   taking effect at the step that reads the pair *)
Theorem C04_next_is_atomic_successor : forall s' me acq ev e th e0 rest,
  cstep ltb order s me = Stepped s' acq ev -> In (EPair e) ev ->
  get_thread me (ths s) = Some th -> yielded (tpc th) = e0 :: rest ->
  abs ltb s' = abs ltb s /\ successor_in ltb (abs ltb s) e0 e.
Proof. exact (C04_successor K V ltb HS order Heven H4 progs Hnd sched). Qed.

(* when Scan reports the end, nothing stored lies above the last pair (or at/above the start key if none was yielded) *)
Theorem C04_end_means_no_successor : forall s' me acq ev th e0 rest,
  cstep ltb order s me = Stepped s' acq ev -> In EScanEnd ev ->
  get_thread me (ths s) = Some th -> yielded (tpc th) = e0 :: rest ->
  forall e', In e' (abs ltb s) -> ltb (fst e0) (fst e') = false.
Proof. exact (C04_end_after K V ltb HS order Heven H4 progs Hnd sched). Qed.

Theorem C04_end_of_empty_scan : forall s' me acq ev th,
  cstep ltb order s me = Stepped s' acq ev -> In EScanEnd ev ->
  get_thread me (ths s) = Some th -> yielded (tpc th) = [] ->
  exists k cnt, hd_error (prog th) = Some (CScan k cnt) /\ forall e', In e' (abs ltb s) -> ltb (fst e') k = true.
Proof. exact (C04_end_first K V ltb HS order Heven H4 progs Hnd sched). Qed.

(* the first pair: stored, not below the start key, and the least such among the keys not below the landing leaf's
   separator; when NewScanner did not land by clamping it is the least stored key not below the start key.
   (The older, weaker form, kept: since fix f4bdcf5 the clamped landing is covered too, by
   C04_first_step_is_atomic_query below.) *)
Theorem C04_first_step_partial : forall s' me acq ev e th leaf k cnt,
  cstep ltb order s me = Stepped s' acq ev -> In (EPair e) ev ->
  get_thread me (ths s) = Some th -> cur_leaf (tpc th) = Some leaf -> yielded (tpc th) = [] ->
  hd_error (prog th) = Some (CScan k cnt) ->
  In e (abs ltb s) /\ ltb (fst e) k = false /\
  forall e', In e' (abs ltb s) -> ltb (fst e') k = false -> below_lo ltb (fst e') leaf (tr s) = false ->
    ltb (fst e') (fst e) = false.
Proof. exact (C04_first_general K V ltb HS order Heven H4 progs Hnd sched). Qed.

(* the FIRST Scan step is an atomic "smallest stored key at or above the start key" query, taking effect at the
   step that reads the pair (between the NewScanner call and the first Scan's return), however NewScanner landed.
   True since fix f4bdcf5 (defect D6); it rests on the two invariants below. *)
Theorem C04_first_step_is_atomic_query : forall s' me acq ev e th k cnt,
  cstep ltb order s me = Stepped s' acq ev -> In (EPair e) ev ->
  get_thread me (ths s) = Some th -> yielded (tpc th) = [] ->
  hd_error (prog th) = Some (CScan k cnt) ->
  In e (abs ltb s) /\ abs ltb s' = abs ltb s /\ ltb (fst e) k = false /\
  forall e', In e' (abs ltb s) -> ltb (fst e') k = false -> ltb (fst e') (fst e) = false.
Proof. exact (first_step_atomic K V ltb HS order Heven H4 progs Hnd sched). Qed.

(* in every reachable state: off the leftmost path a node's first separator IS its separator in its parent (no
   key range is routed by clamping there), and a descending Search/Scan or a cursor that has yielded nothing is
   at or above the lower bound of the node it holds, or on the leftmost path *)
Theorem C04_no_clamping_off_the_leftmost_path : nogap_st_b ltb s = true /\ scan_lo_b ltb s = true.
Proof. exact (nogap_and_scan_lo_reachable K V ltb HS order Heven H4 progs Hnd sched). Qed.

(* a pair that stays stored while the scan runs is among the pairs the scan returns when it reports its end *)
Theorem C04_persistent_key_reported : forall sched2 me x s2 acq ev,
  along K V ltb order (fun s1 => In x (abs ltb s1) /\ scanning K V me s1) s sched2 ->
  Cov K V ltb me x s ->
  cstep ltb order (fst (exec ltb order s sched2)) me = Stepped s2 acq ev -> In EScanEnd ev ->
  exists acc, In x acc /\ ev = [EScanEnd; EReturn (RPairs (rev acc))].
Proof. exact (C04_complete K V ltb HS order Heven H4 progs Hnd sched). Qed.
(* the "Consequently" clause in full, however NewScanner landed: if the scan runs to exhaustion, every pair whose
   key is not below the start key and that is stored in every state from the invocation of the scan on, is among the
   pairs the scan returns *)
Theorem C04_every_persistent_key_is_reported : forall me k cnt th sched2 x s2 acq ev,
  get_thread me (ths s) = Some th -> tpc th = Idle -> hd_error (prog th) = Some (CScan k cnt) ->
  ltb (fst x) k = false ->
  along K V ltb order (fun s1 => In x (abs ltb s1) /\ calling me (prog th) s1) s sched2 ->
  cstep ltb order (fst (exec ltb order s sched2)) me = Stepped s2 acq ev -> In EScanEnd ev ->
  exists acc, In x acc /\ ev = [EScanEnd; EReturn (RPairs (rev acc))].
Proof. exact (C04_complete_general K V ltb HS order Heven H4 progs Hnd sched). Qed.
(* the same at KEY level, as the property words it: a key >= start that is stored (with whatever values: concurrent
   Updates may change them) in every state from the invocation of the scan on is reported at exhaustion *)
Theorem C04_every_persistent_KEY_is_reported : forall me k cnt th sched2 kx s2 acq ev,
  get_thread me (ths s) = Some th -> tpc th = Idle -> hd_error (prog th) = Some (CScan k cnt) ->
  ltb kx k = false ->
  along K V ltb order (fun s1 => (exists x, In x (abs ltb s1) /\ eqvb ltb (fst x) kx = true) /\ calling me (prog th) s1) s sched2 ->
  cstep ltb order (fst (exec ltb order s sched2)) me = Stepped s2 acq ev -> In EScanEnd ev ->
  exists acc x, In x acc /\ eqvb ltb (fst x) kx = true /\ ev = [EScanEnd; EReturn (RPairs (rev acc))].
Proof. exact (C04_complete_key_level K V ltb HS order Heven H4 progs Hnd sched). Qed.

End C04.
Print Assumptions C04_every_persistent_key_is_reported.
Print Assumptions C04_pair_is_stored.
Print Assumptions C04_strictly_increasing_from_start.
Print Assumptions C04_next_is_atomic_successor.
Print Assumptions C04_end_means_no_successor.
Print Assumptions C04_end_of_empty_scan.
Print Assumptions C04_first_step_partial.
Print Assumptions C04_first_step_is_atomic_query.
Print Assumptions C04_no_clamping_off_the_leftmost_path.
Print Assumptions C04_persistent_key_reported.
Print Assumptions C04_every_persistent_KEY_is_reported.

(* ====================== C07 (model side): reads only under lock ====================== *)

(* non-interference: take two reachable states (possibly of different executions) in which thread [me] has the
   same thread record and which agree on the lock table, the tree mutex, the allocation counter, the fields of
   the nodes [me] holds or is being granted -- and on the root pointer only if [me] holds the tree mutex or is
   just taking it.  Then [me] makes the same step in both: same lock granted, same events, same new program
   counter, same lock table, and the nodes of its footprint and the nodes it allocates end up with the same
   fields.  So a step reads nothing but its own record, the lock table, and what its locks protect. *)
Theorem C07_reads_only_under_lock :
  forall (K V : Type) (ltb : K -> K -> bool), SWO ltb -> forall order, Nat.even order = true -> 4 <= order ->
  forall (progs1 progs2 : list (tid * list (cop K V))) sched1 sched2, NoDup (map fst progs1) -> NoDup (map fst progs2) ->
  let s1 := fst (exec ltb order (init_st progs1) sched1) in
  let s2 := fst (exec ltb order (init_st progs2) sched2) in
  forall me th s1' acq ev,
  get_thread me (ths s1) = Some th -> get_thread me (ths s2) = Some th ->
  lk s1 = lk s2 -> tm s1 = tm s2 -> fresh s1 = fresh s2 ->
  (pc_holds_T (tpc th) = true \/ (exists o, tpc th = WantT o) -> nid (tr s1) = nid (tr s2)) ->
  cstep ltb order s1 me = Stepped s1' acq ev ->
  agree_on (footprint s1 me acq) (tr s1) (tr s2) ->
  exists s2',
    cstep ltb order s2 me = Stepped s2' acq ev /\
    get_thread me (ths s2') = get_thread me (ths s1') /\
    lk s2' = lk s1' /\ tm s2' = tm s1' /\ fresh s2' = fresh s1' /\
    agree_on (footprint s1 me acq ++ seq (fresh s1) (fresh s1' - fresh s1)) (tr s1') (tr s2').
Proof.
  exact (fun K V ltb HS order He H4 progs1 progs2 sched1 sched2 N1 N2 me th s1' acq ev =>
    read_discipline K V ltb order He _ _ me th s1' acq ev
      (final_BigInv_reachable K V ltb HS order He H4 progs1 sched1 N1)
      (final_BigInv_reachable K V ltb HS order He H4 progs2 sched2 N2)).
Qed.
Print Assumptions C07_reads_only_under_lock.

(* CInv3.v — the program-counter facts the linearization proof needs beyond CInv.v: a Search resting on node p
   has its key below p's upper bound and waits for exactly the child the binary search selects; every Delete
   activation recorded the index the binary search selects at its node.  Executable; validated by the harness. *)
From Coq Require Import List Bool PeanoNat.
From GB Require Export Conc GI LockInv CInv.
Import ListNotations.
Set Implicit Arguments.

Section CInv3.
Variables (K V : Type) (ltb : K -> K -> bool).

Definition below_hi (k : K) (x : id) (t : itree K V) : bool :=
  match bounds x t with Some (_, hi) => lt_hi ltb k hi | None => false end.

Fixpoint frames_idx_b (k : K) (t : itree K V) (stk : list frame) : bool :=
  match stk with
  | [] => true
  | f :: rest =>
    (match Conc.find (fp f) t with
     | Some (INode _ cs) => res_nat_eqb (search_le ltb k (map fst cs)) (fidx f)
     | _ => false end) && frames_idx_b k t rest
  end.

Definition pc_ok3_b (t : itree K V) (p : pc K V) : bool :=
  match p with
  | SeaWantChild o pn c =>
    below_hi (key_of o) pn t &&
    match Conc.find pn t with
    | Some (INode _ cs) =>
      match search_le ltb (key_of o) (map fst cs) with
      | Ok i => match nth_error cs i with Some (_, ch) => nid ch =? c | None => false end
      | Panic _ => false end
    | _ => false end
  | CurRest leaf _ _ _ | CurWantNext leaf _ _ _ => true
  | DelWantLeft o stk | DelWantChild o stk | DelWantRight o stk => frames_idx_b (key_of o) t stk
  | _ => true
  end.

Definition all_pc_ok3_b (s : st K V) : bool := forallb (fun e => pc_ok3_b (tr s) (tpc (snd e))) (ths s).
End CInv3.

(* O2_PC.v — pc_ok_b preservation (own pc: PCb1, other threads' pcs: PCb2) for even order >= 2.
   PCb1.own_core needs only 1 <= order; PCb2.other_pc_ok_step_gen uses 4 <= order only for 1 <= div2 order
   (script copied with that one line changed).  No "no Delete" hypothesis is needed here. *)
From Coq Require Import List Permutation Lia Bool PeanoNat.
From GB Require Import ListLemmas TreeLemmas Inv InvProof Conc Frame LockProof ConcProps CInv CIDef UpdLemmas FrameRel FrameInv FrameBlocks FrameProof
  PCb1_Blocks PCb1_Proof PCb2_Bounds PCb2_View PCb2_Blocks PCb2_Step PCb2_Proof PCb2_RightFree O2_Crash.
Import ListNotations.

Section Stab.
Variables (K V : Type) (ltb : K -> K -> bool).
Hypothesis HS : SWO ltb.
Notation itree := (itree K V).
Notation pc := (pc K V).
Notation st := (st K V).
Notation thread := (thread K V).

Local Notation get_thread_in := (PCb2_Proof.get_thread_in K V).
Local Notation cstep_target := (PCb2_Proof.cstep_target K V ltb).
Local Notation right_free_b := (PCb2_Proof.right_free_b K V).
Local Notation wants := (PCb2_Proof.wants K V).

Theorem other_pc_ok_step_gen_nd : forall order (s s' : st) me acq ev t th,
  Nat.even order = true -> 2 <= order ->
  CIfull ltb order s -> all_inv K V s ->
  cstep ltb order s me = Stepped s' acq ev ->
  t <> me -> get_thread t (ths s) = Some th ->
  (forall r, right_of (tpc th) = Some r -> ~ In r (held_by me (lk s)) /\ acq <> Some (Some r)) ->
  pc_ok_b ltb order (tr s') (tpc th) = true.
Proof.
  intros order s s' me acq ev t th Hev H4 [[HGI [_ Hall]] _] (Hids & Hli2 & Hfi) Hstep Hne Hget Hright.
  assert (Hpc : pc_ok_b ltb order (tr s) (tpc th) = true).
  { unfold all_pc_ok_b in Hall. rewrite forallb_forall in Hall. apply (Hall (t, th)). apply get_thread_in. exact Hget. }
  pose proof (GI_lossless K V ltb order s Hev HGI) as Hll.
  assert (HJ : J ltb (tr s)).
  { destruct HGI as (_ & _ & Ho & Hb & _). eapply J_of_ordered; eauto. }
  assert (Hord : 1 <= Nat.div2 order) by (apply div2_ge1; assumption).
  pose proof (cstep_bm K V ltb HS order s s' me acq ev Hord Hids Hli2 Hfi Hll HJ Hstep) as Hbm.
  pose proof Hli2 as [Hli _]. pose proof Hli as (_ & _ & _ & _ & Hth).
  destruct (Hth t th Hget) as (_ & HPt & HTt).
  assert (Hfoot : forall x, In x (pc_foot (tpc th)) -> ~ In x (held_by me (lk s)) /\ acq <> Some (Some x)).
  { intros x Hx. unfold pc_foot in Hx. apply in_app_iff in Hx. destruct Hx as [Hx|Hx].
    - assert (Hxt : In x (held_by t (lk s))) by (eapply Permutation_in; [apply Permutation_sym; exact HPt | exact Hx]).
      split.
      + intro X. apply Hne. eapply (locks_exclusive K V s x t me); eauto.
      + intro X. subst acq. eapply (granted_was_free K V ltb order s s' me x ev t); eauto.
    - destruct (right_of (tpc th)) as [r|] eqn:Er; [|destruct Hx]. destruct Hx as [<-|[]]. apply Hright. reflexivity. }
  apply pc_ok_transfer with (t := tr s); [| | |exact Hpc].
  - intros x Hx Hin. destruct (Hfoot x Hx) as [F1 F2].
    eapply step_frame; eauto.
  - intros x k Hx Hr. destruct (Hfoot x Hx) as [F1 F2].
    eapply in_range_bm; [exact Hbm| |exact Hr].
    pose proof (in_range_in K V ltb k x (tr s) Hr) as Hin.
    destruct Hids as [_ Hlt]. rewrite Forall_forall in Hlt. apply Hlt in Hin.
    unfold wset. rewrite !in_app_iff. intros [[X|X]|X].
    + tauto.
    + destruct acq as [[y|]|]; simpl in X; try contradiction. destruct X as [<-|[]]. apply F2. reflexivity.
    + simpl in X. lia.
  - intros HT. destruct (Nat.eq_dec (nid (tr s')) (nid (tr s))) as [E|E]; [exact E|]. exfalso.
    pose proof (root_frame_strong K V ltb order s s' me acq ev Hli2 Hstep E) as Hm.
    apply HTt in HT. rewrite HT in Hm. inversion Hm. auto.
Qed.

(* ---------- the statement as asked, for every pc that does not await a fresh right half ---------- *)

(* ---------- the statement as asked, with the extra executable invariant ---------- *)
Theorem other_pc_ok_step_nd : forall order (s s' : st) me acq ev t th,
  Nat.even order = true -> 2 <= order ->
  CIfull ltb order s -> all_inv K V s -> right_free_b s = true ->
  cstep ltb order s me = Stepped s' acq ev ->
  t <> me -> get_thread t (ths s) = Some th ->
  pc_ok_b ltb order (tr s') (tpc th) = true.
Proof.
  intros order s s' me acq ev t th Hev H4 HCI Hall Hrf Hstep Hne Hget.
  eapply other_pc_ok_step_gen_nd; eauto. intros r Hr.
  unfold right_free_b in Hrf. rewrite forallb_forall in Hrf.
  specialize (Hrf (t, th) (get_thread_in _ _ _ Hget)). simpl in Hrf. rewrite Hr in Hrf.
  apply andb_prop in Hrf. destruct Hrf as [R1 R2]. split.
  - destruct (holder r (lk s)) eqn:Hh; [discriminate R1|]. apply holder_none in Hh.
    intro X. apply In_held_by in X. apply Hh. apply in_map_iff. exists (r, me). auto.
  - intro X. subst acq. destruct (cstep_target order s s' me _ ev Hstep) as [thm [Hgm Htg]].
    rewrite forallb_forall in R2. specialize (R2 (me, thm) (get_thread_in _ _ _ Hgm)). simpl in R2.
    unfold wants in R2. rewrite Htg, Nat.eqb_refl in R2. simpl in R2. rewrite orb_false_r in R2.
    apply Nat.eqb_eq in R2. auto.
Qed.

Theorem other_pc_ok_step_rfi_nd : forall order (s s' : st) me acq ev t th,
  Nat.even order = true -> 2 <= order ->
  CIfull ltb order s -> all_inv K V s -> rfi_b K V s = true ->
  cstep ltb order s me = Stepped s' acq ev ->
  t <> me -> get_thread t (ths s) = Some th ->
  pc_ok_b ltb order (tr s') (tpc th) = true.
Proof.
  intros order s s' me acq ev t th Hev H2 HCI Hinv Hrf Hstep Hne Hg.
  eapply other_pc_ok_step_nd; eauto. apply rfi_right_free. exact Hrf.
Qed.

(* own pc: PCb1_Proof.own_pc_ok_step_x with 1 <= order *)
Theorem own_pc_ok_step_x_nd : forall order (s s' : st) me acq ev th',
  1 <= order ->
  CIfull ltb order s -> all_inv K V s -> all_left_pos_b K V s = true ->
  cstep ltb order s me = Stepped s' acq ev ->
  get_thread me (ths s') = Some th' ->
  pc_ok_b ltb order (tr s') (tpc th') = true.
Proof.
  intros order s s' me acq ev th' Ho HCI Hai Hlp Hs Hg.
  destruct (cstep_out K V ltb order s s' me acq ev Hs) as (th & o & Hme & Htg & Hfree & HB & ->).
  destruct (commit_own K V s me th o th' Hme Hg) as [E1 E2]. rewrite E1, E2.
  eapply (own_core K V ltb HS); eauto. eapply all_left_pos_get; eauto.
Qed.

End Stab.

Print Assumptions other_pc_ok_step_rfi_nd.
Print Assumptions own_pc_ok_step_x_nd.

(* CB_Count.v — property C05, part 2: counting the callback steps of a thread in an execution.
   [cb_steps t s sched] = number of steps of the execution [exec ltb order s sched] taken by thread t from a pc of
   the form [UpdCallback _ _ _ _], i.e. the number of applications of an Update callback by t (Conc.v applies the
   callback in that block only, once per run of the block).
   Main theorem [cb_count]: over ANY execution stretch, from any state satisfying [call_ok] (inductive, holds
   initially: CB_Blocks.v), the program of t shrinks by a prefix [pre] — the calls of t that returned in the
   stretch — and
        cb_steps t s sched = number of Updates in pre        and      length pre = number of return steps of t.
   Corollaries: exactly one callback step for an Update that was invoked and returned in the stretch
   ([update_once]), none while the call is in flight ([update_not_yet]), none for calls that are not Updates
   ([no_update_no_callback]).  No hypothesis on the key order or on the tree order is needed here. *)
From Coq Require Import List Bool PeanoNat Lia.
From GB Require Import LinDef SoloBase LINc_Blocks LINc_Proof CB_Blocks.
Import ListNotations.

Section Count.
Variables (K V : Type) (ltb : K -> K -> bool).
Variable order : nat.
Notation itree := (itree K V).
Notation pc := (pc K V).
Notation st := (st K V).
Notation thread := (thread K V).
Notation cop := (cop K V).
Notation event := (event K V).

Definition pc_of (s : st) (t : tid) : pc :=
  match get_thread t (ths s) with Some th => tpc th | None => Idle end.

(* mirrors [exec]: one unit for each step taken by t from the callback's pc *)
Fixpoint cb_steps (t : tid) (s : st) (sched : list tid) : nat :=
  match sched with
  | [] => 0
  | u :: rest =>
    match cstep ltb order s u with
    | Stepped s' _ _ => (if (u =? t) && is_cb (pc_of s t) then 1 else 0) + cb_steps t s' rest
    | _ => 0
    end
  end.

(* the Updates among a list of calls; the return steps of t in a history *)
Definition count_upd (l : list cop) : nat := length (filter is_upd l).
Definition ret_steps (t : tid) (h : list (tid * list event)) : nat :=
  length (filter (fun e => (fst e =? t) && returned (snd e)) h).

Lemma exec_step (s s' : st) u rest acq ev :
  cstep ltb order s u = Stepped s' acq ev ->
  exec ltb order s (u :: rest) = (fst (exec ltb order s' rest), (u, ev) :: snd (exec ltb order s' rest)).
Proof. intros Hc. cbn [exec]. rewrite Hc. destruct (exec ltb order s' rest). reflexivity. Qed.

Lemma exec_stuck (s : st) u rest :
  (forall s' acq ev, cstep ltb order s u <> Stepped s' acq ev) -> exec ltb order s (u :: rest) = (s, []).
Proof.
  intros Hn. cbn [exec]. destruct (cstep ltb order s u) as [ | | |s' acq ev|p] eqn:Hc; try reflexivity.
  exfalso. eapply Hn. reflexivity.
Qed.

Lemma cb_steps_stuck t (s : st) u rest :
  (forall s' acq ev, cstep ltb order s u <> Stepped s' acq ev) -> cb_steps t s (u :: rest) = 0.
Proof.
  intros Hn. cbn [cb_steps]. destruct (cstep ltb order s u) as [ | | |s' acq ev|p] eqn:Hc; try reflexivity.
  exfalso. eapply Hn. reflexivity.
Qed.

Lemma count_upd_cons o (l : list cop) : count_upd (o :: l) = (if is_upd o then 1 else 0) + count_upd l.
Proof. unfold count_upd. cbn [filter]. destruct (is_upd o); reflexivity. Qed.

Lemma ret_steps_cons t u ev (h : list (tid * list event)) :
  ret_steps t ((u, ev) :: h) = (if (u =? t) && returned ev then 1 else 0) + ret_steps t h.
Proof. unfold ret_steps. cbn [filter fst snd]. destruct ((u =? t) && returned ev); reflexivity. Qed.

(* ---- the counting theorem ---- *)
Theorem cb_count : forall sched (s : st) t th,
  call_ok s -> get_thread t (ths s) = Some th ->
  exists th2 pre,
    get_thread t (ths (fst (exec ltb order s sched))) = Some th2 /\
    prog th = pre ++ prog th2 /\
    cb_steps t s sched = count_upd pre /\
    ret_steps t (snd (exec ltb order s sched)) = length pre.
Proof.
  induction sched as [|u rest IH]; intros s t th Hok Hg.
  - exists th, []. cbn. auto.
  - destruct (cstep ltb order s u) as [ | | |s1 acq ev|p] eqn:Hc;
      try (rewrite exec_stuck by (intros s' acq' ev'; rewrite Hc; discriminate);
           rewrite cb_steps_stuck by (intros s' acq' ev'; rewrite Hc; discriminate);
           exists th, []; cbn; auto).
    rewrite (exec_step _ _ _ _ _ _ Hc). cbn [fst snd]. cbn [cb_steps]. rewrite Hc.
    pose proof (call_ok_step K V ltb order s s1 u acq ev Hok Hc) as Hok1.
    rewrite ret_steps_cons.
    destruct (u =? t) eqn:Eu.
    + apply Nat.eqb_eq in Eu. subst u.
      destruct (own_step_class K V ltb order s s1 t acq ev th Hok Hg Hc) as (th1 & Hg1 & Hk).
      destruct (IH s1 t th1 Hok1 Hg1) as (th2 & pre & Hg2 & Hpr & Hcb & Hrs).
      unfold pc_of. rewrite Hg. cbn [andb].
      destruct Hk as [k f leaf mode index a Hpc Hp Hpc1 Hev Hres|Hcbf Hp Hret Hres|o Hcbf Hp Hu Hpc1 Hret].
      * exists th2, (CUpdate k f :: pre). split; [exact Hg2|]. split; [rewrite Hp, Hpr; reflexivity|].
        rewrite Hpc. cbn [is_cb]. rewrite count_upd_cons. cbn [is_upd]. rewrite Hcb.
        split; [reflexivity|]. rewrite Hev. cbn [returned existsb orb length]. rewrite Hrs. reflexivity.
      * exists th2, pre. split; [exact Hg2|]. split; [rewrite <- Hp; exact Hpr|].
        rewrite Hcbf, Hret. cbn [plus]. split; [exact Hcb|exact Hrs].
      * exists th2, (o :: pre). split; [exact Hg2|]. split; [rewrite Hp, Hpr; reflexivity|].
        rewrite Hcbf, Hret. rewrite count_upd_cons, Hu. cbn [plus length andb]. split; [exact Hcb|]. rewrite Hrs. reflexivity.
    + cbn [andb plus]. apply Nat.eqb_neq in Eu.
      assert (Hg1 : get_thread t (ths s1) = Some th).
      { rewrite (other_step_same K V ltb order s s1 u acq ev t Hc); [exact Hg|congruence]. }
      destruct (IH s1 t th Hok1 Hg1) as (th2 & pre & Hg2 & Hpr & Hcb & Hrs).
      exists th2, pre. auto.
Qed.

(* the prefix is determined by the two programs *)
Lemma prefix_unique (pre pre' l : list cop) : pre ++ l = pre' ++ l -> pre = pre'.
Proof. apply app_inv_tail. Qed.

Corollary cb_count_pre sched (s : st) t th th2 pre :
  call_ok s -> get_thread t (ths s) = Some th ->
  get_thread t (ths (fst (exec ltb order s sched))) = Some th2 ->
  prog th = pre ++ prog th2 ->
  cb_steps t s sched = count_upd pre /\ ret_steps t (snd (exec ltb order s sched)) = length pre.
Proof.
  intros Hok Hg Hg2 Hpr. destruct (cb_count sched s t th Hok Hg) as (th2' & pre' & Hg2' & Hpr' & Hcb & Hrs).
  rewrite Hg2 in Hg2'. inversion Hg2'; subst th2'; clear Hg2'.
  rewrite Hpr in Hpr'. apply prefix_unique in Hpr'. subst pre'. split; assumption.
Qed.

(* the program of a thread only ever loses a prefix (one call per return step) *)
Corollary prog_suffix sched (s : st) t th :
  call_ok s -> get_thread t (ths s) = Some th ->
  exists th2 pre, get_thread t (ths (fst (exec ltb order s sched))) = Some th2 /\ prog th = pre ++ prog th2.
Proof.
  intros Hok Hg. destruct (cb_count sched s t th Hok Hg) as (th2 & pre & Hg2 & Hpr & _). eauto.
Qed.

(* ---- C05 (B): exactly once per Update call ---- *)
(* an Update invoked in (or in flight at) s that has returned by the end of sched, no later call of t having
   returned: exactly one callback step *)
Corollary update_once sched (s : st) t th th2 k f rest :
  call_ok s -> get_thread t (ths s) = Some th -> prog th = CUpdate k f :: rest ->
  get_thread t (ths (fst (exec ltb order s sched))) = Some th2 -> prog th2 = rest ->
  cb_steps t s sched = 1.
Proof.
  intros Hok Hg Hp Hg2 Hp2.
  destruct (cb_count_pre sched s t th th2 [CUpdate k f] Hok Hg Hg2) as [Hcb _]; [rewrite Hp, Hp2; reflexivity|].
  exact Hcb.
Qed.

(* as long as no call of t has returned (in particular while the Update is in flight): no callback step yet *)
Corollary update_not_yet sched (s : st) t th th2 :
  call_ok s -> get_thread t (ths s) = Some th ->
  get_thread t (ths (fst (exec ltb order s sched))) = Some th2 -> prog th2 = prog th ->
  cb_steps t s sched = 0.
Proof.
  intros Hok Hg Hg2 Hp2.
  destruct (cb_count_pre sched s t th th2 [] Hok Hg Hg2) as [Hcb _]; [rewrite Hp2; reflexivity|].
  exact Hcb.
Qed.

(* calls that are not Updates never run the callback block *)
Corollary no_update_no_callback sched (s : st) t th th2 pre :
  call_ok s -> get_thread t (ths s) = Some th ->
  get_thread t (ths (fst (exec ltb order s sched))) = Some th2 -> prog th = pre ++ prog th2 ->
  (forall o, In o pre -> is_upd o = false) ->
  cb_steps t s sched = 0.
Proof.
  intros Hok Hg Hg2 Hpr Hn.
  destruct (cb_count_pre sched s t th th2 pre Hok Hg Hg2 Hpr) as [Hcb _]. rewrite Hcb.
  unfold count_upd. clear -Hn. induction pre as [|o pre IH]; [reflexivity|].
  cbn [filter]. rewrite (Hn o (or_introl eq_refl)). apply IH. intros o' Ho'. apply Hn. right. exact Ho'.
Qed.

(* a thread with no Update in its whole remaining program never runs the callback block *)
Corollary no_update_in_prog sched (s : st) t th :
  call_ok s -> get_thread t (ths s) = Some th -> (forall o, In o (prog th) -> is_upd o = false) ->
  cb_steps t s sched = 0.
Proof.
  intros Hok Hg Hn. destruct (cb_count sched s t th Hok Hg) as (th2 & pre & Hg2 & Hpr & _).
  eapply no_update_no_callback; eauto. intros o Ho. apply Hn. rewrite Hpr. apply in_or_app. left. exact Ho.
Qed.

(* a thread that is not in the thread table takes no step at all *)
Lemma cb_steps_nothread : forall sched (s : st) t, get_thread t (ths s) = None -> cb_steps t s sched = 0.
Proof.
  induction sched as [|u rest IH]; intros s t Hg; [reflexivity|]. cbn [cb_steps].
  destruct (cstep ltb order s u) as [ | | |s1 acq ev|p] eqn:Hc; try reflexivity.
  unfold pc_of. rewrite Hg. cbn [is_cb]. rewrite andb_false_r. cbn [plus].
  apply IH. destruct (Nat.eq_dec t u) as [->|Hne].
  - destruct (cstep_unpack _ _ _ _ _ _ _ _ _ Hc) as (th & o & Hgu & _). congruence.
  - rewrite (other_step_same K V ltb order s s1 u acq ev t Hc Hne). exact Hg.
Qed.

End Count.

Arguments count_upd {K V} l.

Print Assumptions cb_count.
Print Assumptions update_once.
Print Assumptions update_not_yet.
Print Assumptions no_update_no_callback.

package main

import (
	"bufio"
	"encoding/hex"
	"fmt"
	"os"
	"strconv"
	"strings"

	g "github.com/karrick/gobptree"
)

func verdict(isNil bool, err error) string {
	switch {
	case isNil && err != nil:
		return "nil+err"
	case !isNil && err == nil:
		return "tree+nil"
	case isNil && err == nil:
		return "nil+nil"
	}
	return "tree+err"
}

// runOrder: for every order of the input file, checkOrder's verdict and what each constructor returned.
func runOrder(inPath, outPath string) error {
	in, err := os.Open(inPath)
	if err != nil {
		return err
	}
	defer in.Close()
	out, err := os.Create(outPath)
	if err != nil {
		return err
	}
	w := bufio.NewWriter(out)
	defer func() { w.Flush(); out.Close() }()
	sc := bufio.NewScanner(in)
	for sc.Scan() {
		s := strings.TrimSpace(sc.Text())
		if s == "" {
			continue
		}
		o64, err := strconv.ParseInt(s, 10, 64)
		if err != nil {
			return err
		}
		o := int(o64)
		acc := "reject"
		if g.VerifCheckOrder(o) {
			acc = "accept"
		}
		res := []string{acc}
		if acc == "accept" && o > 1<<20 {
			for i := 0; i < 6; i++ {
				res = append(res, "skipped") // the root leaf is allocated with capacity = order
			}
		} else {
			t1, e1 := g.NewInt32Tree(o)
			t2, e2 := g.NewInt64Tree(o)
			t3, e3 := g.NewUint32Tree(o)
			t4, e4 := g.NewUint64Tree(o)
			t5, e5 := g.NewStringTree(o)
			t6, e6 := g.NewComparableTree(o)
			res = append(res, verdict(t1 == nil, e1), verdict(t2 == nil, e2), verdict(t3 == nil, e3), verdict(t4 == nil, e4), verdict(t5 == nil, e5), verdict(t6 == nil, e6))
		}
		fmt.Fprintf(w, "%s %s\n", s, strings.Join(res, " "))
	}
	return sc.Err()
}

// runSearch: direct differential test of the twelve binary-search helpers.
// Input: "TYPE <t>", "KEYS ...", then "Q <key> <v1> <v2> ..." with keys as class.tag.
func runSearch(inPath, outPath string) error {
	in, err := os.Open(inPath)
	if err != nil {
		return err
	}
	defer in.Close()
	out, err := os.Create(outPath)
	if err != nil {
		return err
	}
	w := bufio.NewWriter(out)
	defer func() { w.Flush(); out.Close() }()
	sc := bufio.NewScanner(in)
	sc.Buffer(make([]byte, 1<<20), 1<<26)
	typ := ""
	var lits []string
	n := 0
	for sc.Scan() {
		line := sc.Text()
		switch {
		case strings.HasPrefix(line, "TYPE "):
			typ = strings.Fields(line)[1]
		case strings.HasPrefix(line, "KEYS"):
			lits = strings.Fields(line)[1:]
		case strings.HasPrefix(line, "Q "):
			f := strings.Fields(line)[1:]
			ge, le, err := searchBoth(typ, lits, f[0], f[1:])
			if err != nil {
				return err
			}
			fmt.Fprintf(w, "%d ge=%s le=%s\n", n, ge, le)
			n++
		}
	}
	return sc.Err()
}

func guard(f func() int) (s string) {
	defer func() {
		if r := recover(); r != nil {
			s = "panic=" + panicCode(r)
		}
	}()
	return strconv.Itoa(f())
}

func searchBoth(typ string, lits []string, key string, vals []string) (string, string, error) {
	switch typ {
	case "int32":
		toK, _, err := tableKeys(lits, func(s string) (int32, error) { v, e := strconv.ParseInt(s, 10, 32); return int32(v), e }, func(a, b int32) bool { return a < b })
		if err != nil {
			return "", "", err
		}
		k := toK(parseKey(key))
		vs := make([]int32, len(vals))
		for i, v := range vals {
			vs[i] = toK(parseKey(v))
		}
		return guard(func() int { return g.VerifInt32SearchGE(k, vs) }), guard(func() int { return g.VerifInt32SearchLE(k, vs) }), nil
	case "int64":
		toK, _, err := tableKeys(lits, func(s string) (int64, error) { return strconv.ParseInt(s, 10, 64) }, func(a, b int64) bool { return a < b })
		if err != nil {
			return "", "", err
		}
		k := toK(parseKey(key))
		vs := make([]int64, len(vals))
		for i, v := range vals {
			vs[i] = toK(parseKey(v))
		}
		return guard(func() int { return g.VerifInt64SearchGE(k, vs) }), guard(func() int { return g.VerifInt64SearchLE(k, vs) }), nil
	case "uint32":
		toK, _, err := tableKeys(lits, func(s string) (uint32, error) { v, e := strconv.ParseUint(s, 10, 32); return uint32(v), e }, func(a, b uint32) bool { return a < b })
		if err != nil {
			return "", "", err
		}
		k := toK(parseKey(key))
		vs := make([]uint32, len(vals))
		for i, v := range vals {
			vs[i] = toK(parseKey(v))
		}
		return guard(func() int { return g.VerifUint32SearchGE(k, vs) }), guard(func() int { return g.VerifUint32SearchLE(k, vs) }), nil
	case "uint64":
		toK, _, err := tableKeys(lits, func(s string) (uint64, error) { return strconv.ParseUint(s, 10, 64) }, func(a, b uint64) bool { return a < b })
		if err != nil {
			return "", "", err
		}
		k := toK(parseKey(key))
		vs := make([]uint64, len(vals))
		for i, v := range vals {
			vs[i] = toK(parseKey(v))
		}
		return guard(func() int { return g.VerifUint64SearchGE(k, vs) }), guard(func() int { return g.VerifUint64SearchLE(k, vs) }), nil
	case "string":
		toK, _, err := tableKeys(lits, func(s string) (string, error) {
			if s == "-" {
				return "", nil
			}
			b, e := hex.DecodeString(s)
			return string(b), e
		}, func(a, b string) bool { return a < b })
		if err != nil {
			return "", "", err
		}
		k := toK(parseKey(key))
		vs := make([]string, len(vals))
		for i, v := range vals {
			vs[i] = toK(parseKey(v))
		}
		return guard(func() int { return g.VerifStringSearchGE(k, vs) }), guard(func() int { return g.VerifStringSearchLE(k, vs) }), nil
	case "comparable":
		pk := parseKey(key)
		k := g.Comparable(ckey{cls: pk.cls, tag: pk.tag})
		vs := make([]g.Comparable, len(vals))
		for i, v := range vals {
			p := parseKey(v)
			vs[i] = ckey{cls: p.cls, tag: p.tag}
		}
		return guard(func() int { return g.VerifComparableSearchGE(k, vs) }), guard(func() int { return g.VerifComparableSearchLE(k, vs) }), nil
	}
	return "", "", fmt.Errorf("unknown type %s", typ)
}

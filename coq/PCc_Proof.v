(* PCc_Proof.v — the three remaining pieces of the inductive invariant of the concurrent B+tree model:
     pc_ok2_step         the adjacency facts used by the deadlock-freedom proof are preserved by every step,
     pc_ok3_step         the route facts used by the linearizability proof are preserved by every step,
     decided_other_step  a step of [me] does not change whether ANOTHER thread's Search is decided,
   plus all_pc_ok2_init / all_pc_ok3_init, and (bonus) the assembled induction step [Base_step].
   Files: PCc_Low.v (lower bounds: lnodes/ll/bl and the per-block lemmas), PCc_Step.v (cstep_bl), PCc_Own.v (the
   stepping thread: own_core23), this one (the other threads, and the theorems).  See the summary at the end. *)
From Coq Require Import List Permutation Lia Bool PeanoNat.
From GB Require Import ListLemmas TreeLemmas Inv InvProof Conc GI CInv CInv3 CIDef NoDeadlock Lin LinDef Frame LockProof ConcProps
  UpdLemmas FrameRel FrameInv FrameBlocks FrameProof SoloBase
  PCb1_Blocks PCb1_Proof PCb2_Bounds PCb2_View PCb2_Blocks PCb2_Step PCb2_Proof PCb2_Tree PCb2_RightFree
  OCCc_Blocks OCCc_Proof OCCc_Op GIa1_Proof GIa2_Proof
  PCc_Low PCc_Step PCc_Own.
Import ListNotations.

Section Main.
Variables (K V : Type) (ltb : K -> K -> bool).
Hypothesis HS : SWO ltb.
Notation itree := (itree K V).
Notation pc := (pc K V).
Notation st := (st K V).
Notation out := (out K V).
Notation thread := (thread K V).
Notation find := (@Conc.find K V).

Definition Base (order : nat) (s : st) : Prop :=
  CIall ltb order s /\ all_small_b order s = true /\ all_op_b s = true /\ rfi_b K V s = true.

(* ---------- a predicate on every thread, after a step ---------- *)
Lemma forallb_step (P : tid * thread -> bool) me th' (l : list (tid * thread)) :
  P (me, th') = true -> (forall e, In e l -> fst e <> me -> P e = true) ->
  forallb P (set_thread me th' l) = true.
Proof.
  intros Hme Ho. apply forallb_forall. intros e He. unfold set_thread in He. apply in_map_iff in He.
  destruct He as [e0 [E Hin]]. destruct (fst e0 =? me) eqn:Eq.
  - subst e. exact Hme.
  - subst e. apply Ho; [exact Hin|]. apply Nat.eqb_neq. exact Eq.
Qed.

Lemma get_all (P : tid * thread -> bool) (l : list (tid * thread)) t th :
  forallb P l = true -> get_thread t l = Some th -> P (t, th) = true.
Proof. intros H Hg. rewrite forallb_forall in H. apply H. apply PCb1_Proof.get_thread_in. exact Hg. Qed.

Lemma granted_in x (tg : option (option id)) : In x (granted tg) -> tg = Some (Some x).
Proof. destruct tg as [[y|]|]; simpl; try contradiction. intros [<-|[]]. reflexivity. Qed.

(* ---------- what a thread that does not move keeps ---------- *)
Section Other.
Variables (order : nat) (s s' : st) (me : tid) (acq : option (option id)) (ev : list (event K V)) (t : tid) (th : thread).
Hypothesis Hev : Nat.even order = true.
Hypothesis H4 : 4 <= order.
Hypothesis HB : Base order s.
Hypothesis Hstep : cstep ltb order s me = Stepped s' acq ev.
Hypothesis Hne : t <> me.
Hypothesis Hget : get_thread t (ths s) = Some th.

Let HCI : CIfull ltb order s := proj1 (proj1 HB).
Let Hinv : all_inv K V s := proj1 (proj2 (proj1 HB)).

Lemma o_lossless : lossless order (tr s).
Proof. pose proof HCI as [[HGI _] _]. apply (GI_lossless K V ltb order s Hev HGI). Qed.

Lemma o_pc_ok : pc_ok_b ltb order (tr s) (tpc th) = true.
Proof. pose proof HCI as [[_ [_ Hall]] _]. apply (get_all _ _ _ _ Hall Hget). Qed.

Lemma o_nodup : NoDup (ids (tr s)).
Proof. pose proof Hinv as [[H _] _]. exact H. Qed.

Lemma o_nodup' : NoDup (ids (tr s')).
Proof.
  pose proof Hinv as (I1 & I2 & I3). destruct (ids_ok_step K V ltb order s s' me acq ev I1 I2 I3 Hstep) as [H _]. exact H.
Qed.

(* the fields of a node the thread holds do not change *)
Lemma o_view x : In x (pc_nodes (tpc th)) -> In x (ids (tr s)) -> node_view x (tr s') = node_view x (tr s).
Proof. intros Hx Hin. eapply (held_view_stable K V ltb order s s' me acq ev t th x); eauto. apply o_lossless. Qed.

(* a node the thread holds is outside the write set of the step *)
Lemma o_notin_wset x : In x (pc_nodes (tpc th)) -> In x (ids (tr s)) -> ~ In x (wset K V s me acq).
Proof.
  intros Hx Hin. pose proof Hinv as ([_ Hlt] & Hli2 & _). pose proof Hli2 as [Hli _].
  pose proof Hli as (_ & _ & _ & _ & Hth). destruct (Hth t th Hget) as (_ & HPt & _).
  assert (Hxt : In x (held_by t (lk s))) by (eapply Permutation_in; [apply Permutation_sym; exact HPt | exact Hx]).
  unfold wset. rewrite !in_app_iff. intros [[X|X]|X].
  - apply Hne. eapply (locks_exclusive K V s x t me); eauto.
  - apply granted_in in X. pose proof Hstep as Hs2. rewrite X in Hs2.
    eapply (granted_was_free K V ltb order s s' me x ev t); eauto.
  - rewrite Forall_forall in Hlt. apply Hlt in Hin. simpl in X. lia.
Qed.

Lemma o_bm : bm ltb (wset K V s me acq) (tr s) (tr s').
Proof.
  pose proof HCI as [[HGI _] _]. pose proof Hinv as (Hids & Hli2 & Hfi).
  assert (HJ : J ltb (tr s)).
  { destruct HGI as (_ & _ & Ho & Hb & _). eapply J_of_ordered; eauto. }
  assert (Hord : 1 <= Nat.div2 order) by (pose proof (div2_ge2 order H4); lia).
  apply (cstep_bm K V ltb HS order s s' me acq ev Hord Hids Hli2 Hfi o_lossless HJ Hstep).
Qed.

Lemma o_bl : bl (wset K V s me acq) (tr s) (tr s').
Proof. pose proof Hinv as (Hids & Hli2 & Hfi). apply (cstep_bl K V ltb order s s' me acq ev Hids Hli2 Hfi o_lossless Hstep). Qed.

(* ---- 1. adjacency ---- *)
Lemma other_pc_ok2 : pc_ok2_b (tr s') (tpc th) = true.
Proof.
  assert (Hok2 : pc_ok2_b (tr s) (tpc th) = true).
  { pose proof HB as [(_ & _ & _ & H2 & _) _]. apply (get_all _ _ _ _ H2 Hget). }
  apply (pc_ok2_view K V (tr s) (tr s') (tpc th)); [| |exact Hok2].
  - intros o pn c r E. apply o_view; [rewrite E; simpl; auto|].
    rewrite E in Hok2. simpl in Hok2. destruct (find pn (tr s)) eqn:Ef; [eapply find_in_ids; eauto | discriminate Hok2].
  - intros o l r E.
    pose proof HB as [_ (_ & _ & Hrfb)]. pose proof Hinv as (I1 & Hli2 & I3). pose proof Hli2 as [Hli _].
    pose proof (proj1 (rfi_b_iff K V s (ths_nodup K V s Hli2)) Hrfb t th Hget) as Hr. rewrite E in Hr. simpl in Hr.
    destruct Hr as (_ & _ & Hroot & Hhr & Hnw).
    pose proof Hli as (_ & _ & _ & _ & Hth). destruct (Hth t th Hget) as (_ & _ & HTt).
    assert (Htm : tm s = Some t) by (apply HTt; rewrite E; reflexivity).
    destruct (cstep_target K V ltb order s s' me acq ev Hstep) as [thm [Hgm Htg]].
    assert (Hrid : nid (tr s') = nid (tr s)).
    { destruct (Nat.eq_dec (nid (tr s')) (nid (tr s))) as [X|X]; [exact X|]. exfalso.
      pose proof (root_frame_strong K V ltb order s s' me acq ev Hli2 Hstep X) as Hm. rewrite Htm in Hm. inversion Hm. auto. }
    assert (Hvroot : node_view (nid (tr s)) (tr s') = node_view (nid (tr s)) (tr s)).
    { eapply step_frame; eauto.
      - apply o_lossless.
      - apply nid_in_ids.
      - intro X. apply In_held_by in X. eapply in_holder; eauto.
      - intro X. subst acq. specialize (Hnw me thm Hgm). unfold PCb2_Proof.wants in Hnw. rewrite Htg, Nat.eqb_refl in Hnw. discriminate. }
    apply (root_is_transfer K V (tr s) (tr s') l r Hrid Hvroot Hroot).
Qed.

(* ---- 2. routes ---- *)
Lemma other_pc_ok3 : pc_ok3_b ltb (tr s') (tpc th) = true.
Proof.
  assert (Hok3 : pc_ok3_b ltb (tr s) (tpc th) = true).
  { pose proof HB as [(_ & _ & _ & _ & H3) _]. apply (get_all _ _ _ _ H3 Hget). }
  pose proof o_pc_ok as Hok.
  assert (Hdel : forall (o : cop K V) stk, pc_nodes (tpc th) = frames_nodes stk -> frames_ok_b (tr s) stk = true ->
            frames_idx_b ltb (key_of o) (tr s) stk = true -> frames_idx_b ltb (key_of o) (tr s') stk = true).
  { intros o stk Hpn Hfo Hfi. apply (frames_idx_view K V ltb _ (tr s) (tr s') stk); [|exact Hfi].
    intros g Hg. apply o_view.
    - rewrite Hpn. eapply frames_fp_in; eauto.
    - exact (proj1 (frames_in_tree K V (tr s) o_nodup stk Hfo g Hg)). }
  destruct (tpc th) as [ |o|o r0|o l r|o pn c index|o p c r|o leaf mode index|o pn c|o stk|o stk|o stk|leaf i n acc|leaf nxt n acc] eqn:Ept;
    try reflexivity.
  - (* SeaWantChild *)
    simpl in Hok3, Hok |- *. apply andb_prop in Hok3. destruct Hok3 as [Hb Hc].
    destruct (find pn (tr s)) as [[?|pi cs]|] eqn:Hf; try discriminate Hc.
    assert (Hin : In pn (ids (tr s))) by (eapply find_in_ids; eauto).
    assert (Hpn : In pn (pc_nodes (tpc th))) by (rewrite Ept; simpl; auto).
    rewrite (below_hi_bm K V ltb _ (key_of o) pn (tr s) (tr s') o_bm (o_notin_wset pn Hpn Hin) Hb). simpl.
    destruct (PCb1_Blocks.view_node K V (tr s) (tr s') pn pi cs (o_view pn Hpn Hin) Hf) as (i' & cs' & Hf' & Hp).
    rewrite Hf', (ptrs_seps K V _ _ Hp).
    destruct (search_le ltb (key_of o) (map fst cs)) as [j|]; [|discriminate Hc].
    rewrite (ptrs_nth K V _ _ Hp). exact Hc.
  - simpl in Hok3, Hok |- *. apply (Hdel o stk); auto.
  - simpl in Hok3, Hok |- *. apply (Hdel o stk); auto.
  - simpl in Hok3, Hok |- *. apply andb_prop in Hok. destruct Hok as [Hok _]. apply (Hdel o stk); auto.
Qed.

(* ---- 3. decided ---- *)
Lemma other_below_lo k pn : In pn (pc_nodes (tpc th)) -> In pn (ids (tr s)) ->
  below_lo ltb k pn (tr s') = below_lo ltb k pn (tr s).
Proof.
  intros Hpn Hin. apply (below_lo_bl K V ltb (wset K V s me acq)); auto.
  - apply o_nodup.
  - apply o_nodup'.
  - apply o_bl.
  - apply o_notin_wset; auto.
Qed.

End Other.

(* the other threads of the new state are the other threads of the old one *)
Lemma step_threads order (s s' : st) me acq ev :
  cstep ltb order s me = Stepped s' acq ev ->
  exists th o, get_thread me (ths s) = Some th /\ target s (tpc th) = Ok acq /\ is_free s acq = true /\
    blk ltb order s me th acq = Ok (Some o) /\ s' = commit s me th o /\
    (forall u, u <> me -> get_thread u (ths s') = get_thread u (ths s)).
Proof.
  intros Hs. destruct (cstep_out K V ltb order s s' me acq ev Hs) as (th & o & H1 & H2 & H3 & H5 & H6).
  exists th, o. repeat (split; [assumption|]). intros u Hu. subst s'. unfold commit. cbn [ths]. apply get_set_other. exact Hu.
Qed.

(* ------------------------------------------------------------------------------------------------ *)
(* the theorems                                                                                       *)
(* ------------------------------------------------------------------------------------------------ *)
Lemma both_step : forall order (s s' : st) me acq ev,
  Nat.even order = true -> 4 <= order -> Base order s ->
  cstep ltb order s me = Stepped s' acq ev -> all_pc_ok2_b s' = true /\ all_pc_ok3_b ltb s' = true.
Proof.
  intros order s s' me acq ev Hev H4 HB Hs.
  destruct (step_threads order s s' me acq ev Hs) as (th & o & Hme & Htg & Hfree & Hblk & E & _).
  pose proof HB as [(HCI & Hinv & _ & _ & H3) _].
  assert (Hnd : NoDup (map fst (ths s))) by (apply (ths_nodup K V s (proj1 (proj2 Hinv)))).
  destruct (own_core23 K V ltb HS order s me th acq o HCI Hinv Hme Htg Hfree (get_all _ _ _ _ H3 Hme) Hblk) as [O2 O3].
  assert (Htr : tr s' = otr o) by (subst s'; reflexivity).
  unfold all_pc_ok2_b, all_pc_ok3_b. rewrite Htr. subst s'. unfold commit. cbn [ths].
  split; apply forallb_step.
  - cbn [snd]. destruct (returned (oev o)); exact O2.
  - intros [t tht] Hin Hne. cbn [fst snd] in *. rewrite <- Htr.
    eapply (other_pc_ok2 order s _ me acq ev t tht); eauto. apply in_get_thread; auto.
  - cbn [snd]. destruct (returned (oev o)); exact O3.
  - intros [t tht] Hin Hne. cbn [fst snd] in *. rewrite <- Htr.
    eapply (other_pc_ok3 order s _ me acq ev t tht); eauto. apply in_get_thread; auto.
Qed.

(* 1. the adjacency facts used by the deadlock-freedom proof *)
Theorem pc_ok2_step : forall order (s s' : st) me acq ev,
  Nat.even order = true -> 4 <= order -> Base order s ->
  cstep ltb order s me = Stepped s' acq ev -> all_pc_ok2_b s' = true.
Proof. intros. eapply (proj1 (both_step order s s' me acq ev _ _ _ _)). Unshelve. all: assumption. Qed.

(* 2. the route facts used by the linearizability proof *)
Theorem pc_ok3_step : forall order (s s' : st) me acq ev,
  Nat.even order = true -> 4 <= order -> Base order s ->
  cstep ltb order s me = Stepped s' acq ev -> all_pc_ok3_b ltb s' = true.
Proof. intros. eapply (proj2 (both_step order s s' me acq ev _ _ _ _)). Unshelve. all: assumption. Qed.

(* 3. a step of me does not change whether ANOTHER thread's Search is decided *)
Theorem decided_other_step : forall order (s s' : st) me acq ev t,
  Nat.even order = true -> 4 <= order -> Base order s ->
  cstep ltb order s me = Stepped s' acq ev -> t <> me -> decided ltb s' t = decided ltb s t.
Proof.
  intros order s s' me acq ev t Hev H4 HB Hs Hne.
  destruct (step_threads order s s' me acq ev Hs) as (_ & _ & _ & _ & _ & _ & _ & Hoth).
  unfold decided. rewrite (Hoth t Hne).
  destruct (get_thread t (ths s)) as [th|] eqn:Hg; [|reflexivity].
  destruct (tpc th) as [ |o|o r0|o l r|o pn c index|o p c r|o leaf mode index|o pn c|o stk|o stk|o stk|leaf i n acc|leaf nxt n acc] eqn:Ept;
    try reflexivity.
  destruct o as [| | |k|]; try reflexivity.
  pose proof (o_pc_ok order s t th HB Hg) as Hok. rewrite Ept in Hok. simpl in Hok.
  assert (A1 : In pn (pc_nodes (tpc th))) by (rewrite Ept; simpl; auto).
  assert (A2 : In pn (ids (tr s))).
  { destruct (find pn (tr s)) eqn:Ef; [eapply find_in_ids; eauto | discriminate Hok]. }
  eapply (other_below_lo order s s' me acq ev t th); eauto.
Qed.

(* initially *)
Theorem all_pc_ok2_init : forall progs, all_pc_ok2_b (init_st (K:=K) (V:=V) progs) = true.
Proof.
  intros progs. unfold all_pc_ok2_b, init_st. simpl. apply forallb_forall. intros e He.
  apply in_map_iff in He. destruct He as [p [<- _]]. reflexivity.
Qed.

Theorem all_pc_ok3_init : forall progs, all_pc_ok3_b ltb (init_st (K:=K) (V:=V) progs) = true.
Proof.
  intros progs. unfold all_pc_ok3_b, init_st. simpl. apply forallb_forall. intros e He.
  apply in_map_iff in He. destruct He as [p [<- _]]. reflexivity.
Qed.

End Main.

Print Assumptions pc_ok2_step.
Print Assumptions pc_ok3_step.
Print Assumptions decided_other_step.
Print Assumptions all_pc_ok2_init.
Print Assumptions all_pc_ok3_init.

(* STATUS: everything above is proved; no axioms, nothing admitted; all three statements hold exactly as asked
   (no extra hypothesis, no counterexample).  Compile order: PCc_Low, PCc_Step, PCc_Own, PCc_Proof, PCc_Assemble.

   With  Base order s := CIall ltb order s /\ all_small_b order s = true /\ all_op_b s = true /\ rfi_b K V s = true :
     pc_ok2_step        : even order -> 4 <= order -> Base order s -> cstep ltb order s me = Stepped s' acq ev -> all_pc_ok2_b s' = true
     pc_ok3_step        : ... -> all_pc_ok3_b ltb s' = true
     decided_other_step : ... -> t <> me -> decided ltb s' t = decided ltb s t        (does not even need SWO ltb)
     all_pc_ok2_init, all_pc_ok3_init.
   PCc_Assemble.v (bonus): CIfull_step, Base_step (Base is inductive), Base_init, Base_exec, Base_reachable,
   CIall_reachable: every reachable state (distinct thread ids, even order >= 4) satisfies CIall and Base.

   How:
   - stepping thread (PCc_Own.v, own_core23, skeleton of own_core): the only blocks that park at InsWantSplitRight /
     InsWantRootRight are the child split (ins_child_pc2: the new right half is inserted at index+1, adj_b_mid) and the
     root split (ins_root_pc2); sea_descend_pc3 + child_below_hi (upper bound of the child search_le selects: the next
     separator, above the key by search_le_split, or the parent's upper bound); del_descend_pc3; unwind_pc3 with
     frames_idx_view (frames_idx_b depends only on the node_views of the frames' nodes; analogue of frames_ok_view).
   - other threads (this file, Section Other): o_view (fields of held nodes are stable), o_notin_wset (held nodes are
     outside the step's write set), pc_ok2_view (pc_ok2_b depends on node_view pn / root_is), root_is via rfi_b exactly
     as in rfi_step, below_hi_bm (upper half of in_range_bm).
   - decided: the LOWER bound of a node outside the write set is exactly unchanged by every step: cstep_bl (PCc_Step.v)
     : ids_ok s -> lock_inv2 s -> frame_inv s -> lossless order (tr s) -> cstep .. -> bl (wset s me acq) (tr s) (tr s'),
     where bl W t t' := every (x, lo) of lnodes None t with x outside W is in lnodes None t' (PCc_Low.v; lnodes lists each
     node with its own separator in its parent, independent of the upper bounds).  The surviving child of a root collapse
     IS in the write set (reb_single: it is the node the last merge wrote), so the one step that changes a lower bound
     of a surviving node changes it only for a node the deleting thread holds.  Reusable: lnodes_bnodes, bounds_lnodes,
     lnodes_bounds, bl_bounds, below_lo_bl, below_hi_bm, upd_bl, kids_ll, *_bl per block, unwind_bl. *)

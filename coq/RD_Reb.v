(* RD_Reb.v — READ discipline for the rebalancing step of Delete: [irebalance] at a frame reads the node of the
   frame and the top nodes of the child, its left sibling (if any) and its right sibling (if any), nothing else. *)
From Coq Require Import List Permutation Lia Bool PeanoNat.
From GB Require Import ListLemmas TreeLemmas Frame LockProof UpdLemmas FrameRel FrameInv FrameBlocks OCCc_Base OCCc_Total OCCc_Reb RD_Base.
Import ListNotations.

Section RDReb.
Variables (K V : Type).
Notation itree := (itree K V).
Notation view := (view K V).

(* two lists of children with the same separators and identities, and the same top fields wherever P holds *)
Definition krel (P : id -> Prop) (a b : K * itree) : Prop :=
  fst a = fst b /\ nid (snd a) = nid (snd b) /\ (P (nid (snd a)) -> view_of (snd a) = view_of (snd b)).
Definition ksim (P : id -> Prop) (cs1 cs2 : list (K * itree)) : Prop := Forall2 (krel P) cs1 cs2.

Lemma krel_tsim P k (c1 c2 : itree) : tsim c1 c2 -> krel P (k, c1) (k, c2).
Proof. intros [A B]. split; [reflexivity|]. split; auto. Qed.

Lemma ksim_ptrs P cs1 cs2 : ksim P cs1 cs2 -> ptrs cs1 = ptrs cs2.
Proof. induction 1 as [|a b l1 l2 (A & B & _) _ IH]; simpl; [reflexivity|]. rewrite A, B, IH. reflexivity. Qed.

Lemma ksim_length P cs1 cs2 : ksim P cs1 cs2 -> length cs2 = length cs1.
Proof. induction 1; simpl; auto. Qed.

Lemma ksim_nth P cs1 cs2 j k c1 : ksim P cs1 cs2 -> nth_error cs1 j = Some (k, c1) ->
  exists c2, nth_error cs2 j = Some (k, c2) /\ nid c2 = nid c1 /\ (P (nid c1) -> tsim c1 c2).
Proof.
  intros H. revert j. induction H as [|a b l1 l2 (A & B & C) _ IH]; intros j Hn; destruct j; simpl in *; try discriminate.
  - inversion Hn; subst a. destruct b as [k2 c2]. simpl in *. subst k2. exists c2.
    split; [reflexivity|]. split; [auto|]. intros HP. split; auto.
  - apply IH. exact Hn.
Qed.

Lemma ksim_nth_none P cs1 cs2 j : ksim P cs1 cs2 -> nth_error cs1 j = None -> nth_error cs2 j = None.
Proof. intros H Hn. apply nth_error_None. apply nth_error_None in Hn. rewrite (ksim_length _ _ _ H). exact Hn. Qed.

Lemma ksim_get_nth P cs1 cs2 j k c1 : ksim P cs1 cs2 -> get_nth j cs1 = Ok (k, c1) ->
  exists c2, get_nth j cs2 = Ok (k, c2) /\ nid c2 = nid c1 /\ (P (nid c1) -> tsim c1 c2).
Proof.
  intros H Hg. apply get_nth_Ok in Hg. destruct (ksim_nth _ _ _ _ _ _ H Hg) as [c2 [A B]].
  exists c2. split; [|exact B]. unfold get_nth. rewrite A. reflexivity.
Qed.

Lemma F2_firstn {A B} (R : A -> B -> Prop) n l1 l2 : Forall2 R l1 l2 -> Forall2 R (firstn n l1) (firstn n l2).
Proof. intros H. revert n. induction H; intros [|n]; simpl; constructor; auto. Qed.
Lemma F2_skipn {A B} (R : A -> B -> Prop) n l1 l2 : Forall2 R l1 l2 -> Forall2 R (skipn n l1) (skipn n l2).
Proof. intros H. revert n. induction H; intros [|n]; simpl; auto. Qed.

Lemma ksim_set_nth P i a b cs1 cs2 : ksim P cs1 cs2 -> krel P a b -> ksim P (set_nth i a cs1) (set_nth i b cs2).
Proof. intros H Hab. unfold set_nth. apply Forall2_app; [apply F2_firstn; exact H|]. constructor; [exact Hab|apply F2_skipn; exact H]. Qed.
Lemma ksim_del_nth P i cs1 cs2 : ksim P cs1 cs2 -> ksim P (del_nth i cs1) (del_nth i cs2).
Proof. intros H. unfold del_nth. apply Forall2_app; [apply F2_firstn|apply F2_skipn]; exact H. Qed.

Lemma ksim_set_child_i P i (c1 c2 : itree) cs1 cs2 :
  ksim P cs1 cs2 -> tsim c1 c2 -> ksim P (set_child_i i c1 cs1) (set_child_i i c2 cs2).
Proof.
  intros H Hc. unfold set_child_i. destruct (nth_error cs1 i) as [[s x]|] eqn:E.
  - destruct (ksim_nth _ _ _ _ _ _ H E) as [x2 [E2 _]]. rewrite E2. apply ksim_set_nth; auto. apply krel_tsim. exact Hc.
  - rewrite (ksim_nth_none _ _ _ _ H E). exact H.
Qed.

Lemma ksim_intro (P : id -> Prop) p pi (cs1 cs2 : list (K * itree)) (t1 t2 : itree) :
  NoDup (ids t1) -> NoDup (ids t2) -> find p t1 = Some (INode pi cs1) -> find p t2 = Some (INode pi cs2) ->
  ptrs cs1 = ptrs cs2 -> (forall y, P y -> node_view y t1 = node_view y t2) -> ksim P cs1 cs2.
Proof.
  intros N1 N2 F1 F2 Hp HP.
  assert (H : forall l1 l2, ptrs l1 = ptrs l2 -> (forall x, In x l1 -> In x cs1) -> (forall x, In x l2 -> In x cs2) -> ksim P l1 l2).
  { induction l1 as [|[k1 c1] l1 IH]; intros [|[k2 c2] l2] E I1 I2; simpl in E; try discriminate; [constructor|].
    inversion E as [[E1 E2 E3]]; subst k2. constructor.
    - split; [reflexivity|]. split; [assumption|]. simpl. intros Hy.
      pose proof (view_kid K V _ _ _ _ _ _ N1 F1 (I1 _ (or_introl eq_refl))) as V1.
      pose proof (view_kid K V _ _ _ _ _ _ N2 F2 (I2 _ (or_introl eq_refl))) as V2.
      specialize (HP _ Hy). rewrite V1 in HP. rewrite E2, V2 in HP. inversion HP. reflexivity.
    - apply IH; auto; intros; [apply I1|apply I2]; right; auto. }
  apply H; auto.
Qed.

(* ---- borrowing and merging ---- *)
Lemma iadopt_right_sim (l1 r1 l2 r2 l1' r1' : itree) : tsim l1 l2 -> tsim r1 r2 ->
  iadopt_right l1 r1 = Ok (l1', r1') ->
  exists l2' r2', iadopt_right l2 r2 = Ok (l2', r2') /\ tsim l1' l2' /\ tsim r1' r2'.
Proof.
  intros Hl Hr H. unfold iadopt_right in *.
  destruct l1 as [li ln le|li lc]; destruct r1 as [ri rn [|x re]|ri [|x rc]]; try discriminate H; inversion H; subst; clear H.
  - rewrite (tsim_leaf _ _ _ _ _ _ Hl), (tsim_leaf _ _ _ _ _ _ Hr). do 2 eexists. split; [reflexivity|]. split; apply tsim_refl.
  - destruct (tsim_node _ _ _ _ _ Hl) as [lc2 [-> Pl]]. destruct (tsim_node _ _ _ _ _ Hr) as [rc2 [-> Pr]].
    unfold ptrs in *. destruct rc2 as [|x2 rc2]; [discriminate Pr|]. simpl in Pr. inversion Pr as [[Px1 Px2 Prc]].
    do 2 eexists. split; [reflexivity|]. split; (split; [reflexivity|]); simpl; f_equal.
    + rewrite !map_app. simpl. rewrite Pl, Px1, Px2. reflexivity.
    + symmetry. exact Prc.
Qed.

Lemma iadopt_left_sim (l1 r1 l2 r2 l1' r1' : itree) : tsim l1 l2 -> tsim r1 r2 ->
  iadopt_left l1 r1 = Ok (l1', r1') ->
  exists l2' r2', iadopt_left l2 r2 = Ok (l2', r2') /\ tsim l1' l2' /\ tsim r1' r2'.
Proof.
  intros Hl Hr H. unfold iadopt_left in *.
  destruct l1 as [li ln le|li lc]; destruct r1 as [ri rn re|ri rc]; try discriminate H.
  - rewrite (tsim_leaf _ _ _ _ _ _ Hl), (tsim_leaf _ _ _ _ _ _ Hr).
    destruct (rev le) as [|x le']; [discriminate H|]. inversion H; subst; clear H.
    do 2 eexists. split; [reflexivity|]. split; apply tsim_refl.
  - destruct (tsim_node _ _ _ _ _ Hl) as [lc2 [-> Pl]]. destruct (tsim_node _ _ _ _ _ Hr) as [rc2 [-> Pr]].
    unfold ptrs in *. destruct (rev lc) as [|x lc'] eqn:E; [discriminate H|]. inversion H; subst; clear H.
    assert (E2 : map (fun c : K * itree => (fst c, nid (snd c))) (rev lc2) = map (fun c : K * itree => (fst c, nid (snd c))) (x :: lc')).
    { rewrite map_rev, Pl, <- map_rev, E. reflexivity. }
    destruct (rev lc2) as [|x2 lc2']; [discriminate E2|]. simpl in E2. inversion E2 as [[Px1 Px2 Plc]].
    do 2 eexists. split; [reflexivity|]. split; (split; [reflexivity|]); simpl; f_equal.
    + rewrite !map_rev, Plc. reflexivity.
    + rewrite Px1, Px2, Pr. reflexivity.
Qed.

Lemma iabsorb_sim (l1 r1 l2 r2 l1' : itree) : tsim l1 l2 -> tsim r1 r2 ->
  iabsorb l1 r1 = Ok l1' -> exists l2', iabsorb l2 r2 = Ok l2' /\ tsim l1' l2'.
Proof.
  intros Hl Hr H. unfold iabsorb in *.
  destruct l1 as [li ln le|li lc]; destruct r1 as [ri rn re|ri rc]; try discriminate H; inversion H; subst; clear H.
  - rewrite (tsim_leaf _ _ _ _ _ _ Hl), (tsim_leaf _ _ _ _ _ _ Hr). eexists. split; [reflexivity|]. apply tsim_refl.
  - destruct (tsim_node _ _ _ _ _ Hl) as [lc2 [-> Pl]]. destruct (tsim_node _ _ _ _ _ Hr) as [rc2 [-> Pr]].
    unfold ptrs in *. eexists. split; [reflexivity|]. split; [reflexivity|]. simpl. f_equal.
    rewrite !map_app, Pl, Pr. reflexivity.
Qed.

(* ---- the decision and the new list of children ---- *)
Lemma rebal_core_sim (P : id -> Prop) order index cs1 cs2 (child1 child2 : itree) cs1' small :
  ksim P cs1 cs2 -> tsim child1 child2 ->
  (forall k ch, nth_error cs1 (index + 1) = Some (k, ch) -> P (nid ch)) ->
  (forall k ch, 0 < index -> nth_error cs1 (index - 1) = Some (k, ch) -> P (nid ch)) ->
  rebal_core order index cs1 child1 = Ok (cs1', small) ->
  exists cs2', rebal_core order index cs2 child2 = Ok (cs2', small) /\ ksim P cs1' cs2'.
Proof.
  intros Hk Hc Hr Hl H. unfold rebal_core in *. cbv zeta in *.
  rewrite (ksim_length _ _ _ Hk).
  assert (ER : (if index + 1 <? length cs1 then match nth_error cs2 (index + 1) with Some (_, r) => icount r | None => 0 end else 0)
             = (if index + 1 <? length cs1 then match nth_error cs1 (index + 1) with Some (_, r) => icount r | None => 0 end else 0)).
  { destruct (index + 1 <? length cs1); [|reflexivity].
    destruct (nth_error cs1 (index + 1)) as [[k r]|] eqn:E1.
    - destruct (ksim_nth _ _ _ _ _ _ Hk E1) as [r2 [E2 [_ Hv]]]. rewrite E2. apply tsim_icount. apply Hv. eapply Hr; eauto.
    - rewrite (ksim_nth_none _ _ _ _ Hk E1). reflexivity. }
  assert (EL : (if 0 <? index then match nth_error cs2 (index - 1) with Some (_, l) => icount l | None => 0 end else 0)
             = (if 0 <? index then match nth_error cs1 (index - 1) with Some (_, l) => icount l | None => 0 end else 0)).
  { destruct (0 <? index) eqn:E0; [|reflexivity]. apply Nat.ltb_lt in E0.
    destruct (nth_error cs1 (index - 1)) as [[k r]|] eqn:E1.
    - destruct (ksim_nth _ _ _ _ _ _ Hk E1) as [r2 [E2 [_ Hv]]]. rewrite E2. apply tsim_icount. apply Hv. eapply Hl; eauto.
    - rewrite (ksim_nth_none _ _ _ _ Hk E1). reflexivity. }
  rewrite ER, EL. clear ER EL.
  match type of H with (if ?c then _ else _) = _ => destruct c eqn:C1 end.
  { destruct (get_nth (index + 1) cs1) as [[k2 rgt1]|] eqn:G1; [cbn [bind] in H|discriminate H].
    destruct (ksim_get_nth _ _ _ _ _ _ Hk G1) as [rgt2 [G2 [_ Hv]]]. rewrite G2. cbn [bind].
    assert (Hsr : tsim rgt1 rgt2) by (apply Hv; eapply Hr; apply get_nth_Ok; eauto).
    destruct (iadopt_right child1 rgt1) as [[c1' r1']|] eqn:Ea; [cbn [bind] in H|discriminate H].
    destruct (iadopt_right_sim _ _ _ _ _ _ Hc Hsr Ea) as (c2' & r2' & Ea2 & S1 & S2). rewrite Ea2. cbn [bind].
    rewrite (tsim_ismallest _ _ _ _ S2). destruct (ismallest r1') as [rs|]; [cbn [bind] in *|discriminate H].
    inversion H; subst. eexists. split; [reflexivity|].
    apply ksim_set_nth; [apply ksim_set_child_i; auto | apply krel_tsim; auto]. }
  match type of H with (if ?c then _ else _) = _ => destruct c eqn:C2 end.
  { assert (E0 : 0 < index) by (apply andb_prop in C2; destruct C2 as [C2 _]; apply Nat.ltb_lt in C2; exact C2).
    destruct (get_nth (index - 1) cs1) as [[k0 lft1]|] eqn:G1; [cbn [bind] in H|discriminate H].
    destruct (ksim_get_nth _ _ _ _ _ _ Hk G1) as [lft2 [G2 [_ Hv]]]. rewrite G2. cbn [bind].
    assert (Hsl : tsim lft1 lft2) by (apply Hv; eapply Hl; [exact E0 | apply get_nth_Ok; eauto]).
    destruct (iadopt_left lft1 child1) as [[l1' c1']|] eqn:Ea; [cbn [bind] in H|discriminate H].
    destruct (iadopt_left_sim _ _ _ _ _ _ Hsl Hc Ea) as (l2' & c2' & Ea2 & S1 & S2). rewrite Ea2. cbn [bind].
    rewrite (tsim_ismallest _ _ _ _ S2). destruct (ismallest c1') as [sm|]; [cbn [bind] in *|discriminate H].
    inversion H; subst. eexists. split; [reflexivity|].
    apply ksim_set_nth; [apply ksim_set_child_i; auto | apply krel_tsim; auto]. }
  match type of H with (if ?c then _ else _) = _ => destruct c eqn:C3 end.
  { assert (E0 : 0 < index).
    { destruct (0 <? index) eqn:E0; [apply Nat.ltb_lt in E0; exact E0 | discriminate C3]. }
    destruct (get_nth (index - 1) cs1) as [[k0 lft1]|] eqn:G1; [cbn [bind] in H|discriminate H].
    destruct (ksim_get_nth _ _ _ _ _ _ Hk G1) as [lft2 [G2 [_ Hv]]]. rewrite G2. cbn [bind].
    assert (Hsl : tsim lft1 lft2) by (apply Hv; eapply Hl; [exact E0 | apply get_nth_Ok; eauto]).
    destruct (iabsorb lft1 child1) as [l1'|] eqn:Ea; [cbn [bind] in H|discriminate H].
    destruct (iabsorb_sim _ _ _ _ _ Hsl Hc Ea) as (l2' & Ea2 & S1). rewrite Ea2. cbn [bind].
    inversion H; subst; clear H.
    assert (KS : ksim P (del_nth index (set_child_i (index - 1) l1' cs1)) (del_nth index (set_child_i (index - 1) l2' cs2))).
    { apply ksim_del_nth. apply ksim_set_child_i; auto. }
    eexists. split; [|exact KS]. rewrite (ksim_length _ _ _ KS). reflexivity. }
  match type of H with (if ?c then _ else _) = _ => destruct c eqn:C4 end; [discriminate H|].
  destruct (get_nth (index + 1) cs1) as [[k2 rgt1]|] eqn:G1; [cbn [bind] in H|discriminate H].
  destruct (ksim_get_nth _ _ _ _ _ _ Hk G1) as [rgt2 [G2 [_ Hv]]]. rewrite G2. cbn [bind].
  assert (Hsr : tsim rgt1 rgt2) by (apply Hv; eapply Hr; apply get_nth_Ok; eauto).
  destruct (iabsorb child1 rgt1) as [c1'|] eqn:Ea; [cbn [bind] in H|discriminate H].
  destruct (iabsorb_sim _ _ _ _ _ Hc Hsr Ea) as (c2' & Ea2 & S1). rewrite Ea2. cbn [bind].
  inversion H; subst; clear H.
  assert (KS : ksim P (del_nth (index + 1) (set_child_i index c1' cs1)) (del_nth (index + 1) (set_child_i index c2' cs2))).
  { apply ksim_del_nth. apply ksim_set_child_i; auto. }
  eexists. split; [|exact KS]. rewrite (ksim_length _ _ _ KS). reflexivity.
Qed.

(* ---- the shape of the change: two adjacent children are rewritten ---- *)
Lemma rebal_core_mid order index (cs : list (K * itree)) child k1 cs' small :
  nth_error cs index = Some (k1, child) -> rebal_core order index cs child = Ok (cs', small) ->
  exists A B ka a kb b mid', cs = A ++ [(ka, a); (kb, b)] ++ B /\ cs' = A ++ mid' ++ B /\
    ((exists ka' a' kb' b', mid' = [(ka', a'); (kb', b')] /\ nid a' = nid a /\ nid b' = nid b) \/
     (exists ab, mid' = [(ka, ab)] /\ iabsorb a b = Ok ab)).
Proof.
  intros Eg Ecs. unfold rebal_core in Ecs. cbv zeta in Ecs.
  match type of Ecs with (if ?c then _ else _) = _ => destruct c eqn:C1 end.
  { destruct (get_nth (index + 1) cs) as [[k2 rgt]|] eqn:Eg2; [cbn [bind] in Ecs | discriminate Ecs].
    apply get_nth_Ok in Eg2.
    destruct (iadopt_right child rgt) as [[child' rgt']|] eqn:Ea; [cbn [bind] in Ecs | discriminate Ecs].
    destruct (ismallest rgt') as [rs|] eqn:Es; [cbn [bind] in Ecs | discriminate Ecs].
    inversion Ecs; subst cs'; clear Ecs.
    destruct (nth_error_split2 cs index _ _ Eg Eg2) as [A [B [E L]]]. subst cs index.
    unfold set_child_i. rewrite nth_error_app_len, set_nth_app, set_nth_app1.
    destruct (iadopt_right_rel K V _ _ _ _ Ea) as (R1 & R2 & _).
    exists A, B, k1, child, k2, rgt, [(k1, child'); (rs, rgt')]. split; [reflexivity|]. split; [reflexivity|].
    left. do 4 eexists. split; [reflexivity|]. auto. }
  match type of Ecs with (if ?c then _ else _) = _ => destruct c eqn:C2 end.
  { apply andb_prop in C2. destruct C2 as [C2 _]. apply Nat.ltb_lt in C2.
    destruct index as [|j]; [lia|].
    replace (S j - 1) with j in * by lia.
    destruct (get_nth j cs) as [[k0 lft]|] eqn:Eg0; [cbn [bind] in Ecs | discriminate Ecs].
    apply get_nth_Ok in Eg0.
    destruct (iadopt_left lft child) as [[lft' child']|] eqn:Ea; [cbn [bind] in Ecs | discriminate Ecs].
    destruct (ismallest child') as [sm|] eqn:Es; [cbn [bind] in Ecs | discriminate Ecs].
    inversion Ecs; subst cs'; clear Ecs.
    replace (S j) with (j + 1) in * by lia.
    destruct (nth_error_split2 cs j _ _ Eg0 Eg) as [A [B [E L]]]. subst cs j.
    unfold set_child_i. rewrite nth_error_app_len, set_nth_app, set_nth_app1.
    destruct (iadopt_left_rel K V _ _ _ _ Ea) as (R1 & R2 & _).
    exists A, B, k0, lft, k1, child, [(k0, lft'); (sm, child')]. split; [reflexivity|]. split; [reflexivity|].
    left. do 4 eexists. split; [reflexivity|]. auto. }
  match type of Ecs with (if ?c then _ else _) = _ => destruct c eqn:C3 end.
  { destruct (0 <? index) eqn:C0; [|discriminate C3]. apply Nat.ltb_lt in C0.
    destruct index as [|j]; [lia|].
    replace (S j - 1) with j in * by lia.
    destruct (get_nth j cs) as [[k0 lft]|] eqn:Eg0; [cbn [bind] in Ecs | discriminate Ecs].
    apply get_nth_Ok in Eg0.
    destruct (iabsorb lft child) as [lft'|] eqn:Ea; [cbn [bind] in Ecs | discriminate Ecs].
    inversion Ecs; subst cs'; clear Ecs.
    replace (S j) with (j + 1) in * by lia.
    destruct (nth_error_split2 cs j _ _ Eg0 Eg) as [A [B [E L]]]. subst cs j.
    unfold set_child_i. rewrite nth_error_app_len, set_nth_app, del_nth_app1.
    exists A, B, k0, lft, k1, child, [(k0, lft')]. split; [reflexivity|]. split; [reflexivity|].
    right. eexists. split; [reflexivity|]. exact Ea. }
  match type of Ecs with (if ?c then _ else _) = _ => destruct c eqn:C4 end; [discriminate Ecs|].
  destruct (get_nth (index + 1) cs) as [[k2 rgt]|] eqn:Eg2; [cbn [bind] in Ecs | discriminate Ecs].
  apply get_nth_Ok in Eg2.
  destruct (iabsorb child rgt) as [child'|] eqn:Ea; [cbn [bind] in Ecs | discriminate Ecs].
  inversion Ecs; subst cs'; clear Ecs.
  destruct (nth_error_split2 cs index _ _ Eg Eg2) as [A [B [E L]]]. subst cs index.
  unfold set_child_i. rewrite nth_error_app_len, set_nth_app, del_nth_app1.
  exists A, B, k1, child, k2, rgt, [(k1, child')]. split; [reflexivity|]. split; [reflexivity|].
  right. eexists. split; [reflexivity|]. exact Ea.
Qed.

(* ---- the node that a merge removes from the tree ---- *)
Lemma iabsorb_gone (l r l' : itree) : iabsorb l r = Ok l' -> NoDup (ids l ++ ids r) -> ~ In (nid r) (ids l').
Proof.
  unfold iabsorb. intros H Hnd Hin.
  destruct l as [li ln le|li lc]; destruct r as [ri rn re|ri rc]; try discriminate H; inversion H; subst; clear H.
  - simpl in *. inversion Hnd as [|? ? Hni _]; subst. apply Hni. destruct Hin as [E|[]]. subst. left. reflexivity.
  - rewrite !ids_node in *. rewrite idsl_app in Hin. simpl nid in Hin.
    rewrite cnt_nodup in Hnd. specialize (Hnd ri). apply cnt_in in Hin.
    simpl in Hnd, Hin. rewrite !cnt_app in *. simpl in Hnd. rewrite Nat.eqb_refl in Hnd. lia.
Qed.

Lemma upd_kids_gone p pi (A mid mid' B : list (K * itree)) (t t' : itree) y :
  NoDup (ids t) -> find p t = Some (INode pi (A ++ mid ++ B)) ->
  upd p (fun _ => Ok (INode pi (A ++ mid' ++ B))) t = Ok t' ->
  In y (idsl mid) -> ~ In y (idsl mid') -> node_view y t' = None.
Proof.
  intros Hnd Hf Hu Hin Hni. apply view_none. intro Hy.
  destruct (upd_nodes K V p (INode pi (A ++ mid ++ B)) (INode pi (A ++ mid' ++ B)) eq_refl t t' Hnd Hf Hu) as [_ [pre [post [P1 P2]]]].
  rewrite <- map_fst_nodes in Hy, Hnd. rewrite P1 in Hnd. rewrite P2 in Hy.
  rewrite !nodes_node, !map_app in *. simpl in Hnd, Hy. rewrite !map_fst_nodesl, !idsl_app in *.
  rewrite cnt_nodup in Hnd. specialize (Hnd y). apply cnt_in in Hy, Hin. apply cnt_notin in Hni.
  rewrite ?cnt_app in Hnd, Hy. simpl in Hnd, Hy. rewrite ?cnt_app in Hnd, Hy. lia.
Qed.

Lemma kid_in_ptrs (cs : list (K * itree)) k ch : In (k, ch) cs -> In (nid ch) (map snd (ptrs cs)).
Proof.
  intros H. apply in_map_iff. exists (k, nid ch). split; [reflexivity|]. unfold ptrs. apply in_map_iff. exists (k, ch). auto.
Qed.

Lemma ptrs_kid_nth (cs : list (K * itree)) y :
  In y (map snd (ptrs cs)) -> exists j k ch, nth_error cs j = Some (k, ch) /\ nid ch = y.
Proof.
  intros H. apply in_map_iff in H. destruct H as [[k x] [E H]]. simpl in E. subst x.
  unfold ptrs in H. apply in_map_iff in H. destruct H as [[k2 ch] [E H]]. inversion E; subst.
  apply In_nth_error in H. destruct H as [j Hj]. exists j, k, ch. auto.
Qed.

Lemma reb_gone order index p pi (cs : list (K * itree)) child k1 cs' small (t t' : itree) k ch :
  NoDup (ids t) -> find p t = Some (INode pi cs) -> nth_error cs index = Some (k1, child) ->
  rebal_core order index cs child = Ok (cs', small) ->
  upd p (fun _ => Ok (INode pi cs')) t = Ok t' ->
  In (k, ch) cs -> ~ In (nid ch) (map snd (ptrs cs')) -> node_view (nid ch) t' = None.
Proof.
  intros Hnd Hf Eg Hr Hu Hin Hni.
  destruct (rebal_core_mid _ _ _ _ _ _ _ Eg Hr) as (A & B & ka & a & kb & b & mid' & -> & -> & Hc).
  rewrite !ptrs_app, !map_app, !in_app_iff in Hni.
  apply in_app_or in Hin. destruct Hin as [Hin|Hin]; [exfalso; apply Hni; left; eapply kid_in_ptrs; eauto|].
  apply in_app_or in Hin. destruct Hin as [Hin|Hin]; [|exfalso; apply Hni; right; right; eapply kid_in_ptrs; eauto].
  destruct Hc as [(ka' & a' & kb' & b' & -> & Na & Nb) | (ab & -> & Hab)].
  - exfalso. apply Hni. right. left. simpl in *. destruct Hin as [E|[E|[]]]; inversion E; subst; auto.
  - destruct (iabsorb_rel K V _ _ _ Hab) as (Nab & _).
    simpl in Hin. destruct Hin as [E|[E|[]]]; inversion E; subst.
    + exfalso. apply Hni. right. left. simpl. auto.
    + eapply upd_kids_gone with (mid := [(ka, a); (k, ch)]) (mid' := [(ka, ab)]); eauto.
      * unfold idsl. simpl. rewrite !in_app_iff. right. left. apply nid_in_ids.
      * unfold idsl. simpl. rewrite app_nil_r. eapply iabsorb_gone; eauto.
        pose proof (find_sub_nodup K V _ _ _ Hf Hnd) as Hn. rewrite ids_node, !idsl_app in Hn.
        inversion Hn as [|? ? _ Hn']; subst. apply NoDup_app_remove_l in Hn'. apply NoDup_app_remove_r in Hn'.
        unfold idsl in Hn'. simpl in Hn'. rewrite app_nil_r in Hn'. exact Hn'.
Qed.

(* ---- irebalance on two trees ---- *)
Lemma irebalance_sim order f (t1 t2 t1' : itree) small pi cs1 :
  NoDup (ids t1) -> NoDup (ids t2) ->
  irebalance order f t1 = Ok (t1', small) ->
  find (fp f) t1 = Some (INode pi cs1) ->
  node_view (fp f) t1 = node_view (fp f) t2 ->
  (forall k ch, nth_error cs1 (fidx f) = Some (k, ch) -> node_view (nid ch) t1 = node_view (nid ch) t2) ->
  (forall k ch, 0 < fidx f -> nth_error cs1 (fidx f - 1) = Some (k, ch) -> node_view (nid ch) t1 = node_view (nid ch) t2) ->
  (forall k ch, nth_error cs1 (fidx f + 1) = Some (k, ch) -> node_view (nid ch) t1 = node_view (nid ch) t2) ->
  exists t2', irebalance order f t2 = Ok (t2', small) /\ pres [] t1 t2 t1' t2'.
Proof.
  intros N1 N2 H F1 Vp Vc Vl Vr.
  destruct (view_find _ _ _ _ _ _ Vp F1) as [n2 [F2 Hs]]. destruct (tsim_node _ _ _ _ _ Hs) as [cs2 [-> Hp]].
  symmetry in Hp.
  set (P := fun y => node_view y t1 = node_view y t2).
  assert (Hk : ksim P cs1 cs2) by (eapply ksim_intro with (t1 := t1) (t2 := t2); eauto).
  pose proof H as H0. rewrite irebalance_eq, F1 in H.
  destruct (get_nth (fidx f) cs1) as [[k1 child1]|] eqn:G1; [cbn [bind] in H|discriminate H].
  destruct (ksim_get_nth _ _ _ _ _ _ Hk G1) as [child2 [G2 [_ Hv]]].
  pose proof (get_nth_Ok _ _ _ G1) as G1'. pose proof (get_nth_Ok _ _ _ G2) as G2'.
  assert (Hc : tsim child1 child2) by (apply Hv; eapply Vc; eauto).
  destruct (rebal_core order (fidx f) cs1 child1) as [[cs1' sm]|] eqn:R1; [cbn [bind] in H|discriminate H].
  destruct (upd (fp f) (fun _ => Ok (INode pi cs1')) t1) as [u1|] eqn:U1; [cbn [bind] in H|discriminate H].
  inversion H; subst u1 sm; clear H.
  destruct (rebal_core_sim P _ _ _ _ _ _ _ _ Hk Hc Vr Vl R1) as (cs2' & R2 & Hk').
  destruct (upd_total K V (fp f) (INode pi cs2') t2) as [t2' U2].
  assert (H2 : irebalance order f t2 = Ok (t2', small)).
  { rewrite irebalance_eq, F2, G2. cbn [bind]. rewrite R2. cbn [bind]. rewrite U2. reflexivity. }
  exists t2'. split; [exact H2|].
  set (Wr := fp f :: map snd (ptrs cs1)).
  assert (HW : forall cs : list (K * itree), ptrs cs = ptrs cs1 -> forall j k ch, nth_error cs j = Some (k, ch) -> In (nid ch) Wr).
  { intros cs E j k ch Hn. right. rewrite <- E. eapply kid_in_ptrs. eapply nth_error_In; eauto. }
  destruct (irebalance_rel K V (fun _ _ => true) True order f t1 t1' small pi cs1 Wr N1 H0 F1) as (_ & FR1 & N1' & _);
    [left; reflexivity | intros; eapply (HW cs1); eauto .. |].
  destruct (irebalance_rel K V (fun _ _ => true) True order f t2 t2' small pi cs2 Wr N2 H2 F2) as (_ & FR2 & N2' & _);
    [left; reflexivity | intros; eapply (HW cs2); eauto .. |].
  pose proof (find_upd_same K V (fp f) (INode pi cs1) (INode pi cs1') eq_refl t1 t1' N1 F1 U1) as F1'.
  pose proof (find_upd_same K V (fp f) (INode pi cs2) (INode pi cs2') eq_refl t2 t2' N2 F2 U2) as F2'.
  pose proof (ksim_ptrs _ _ _ Hk') as Hp'.
  apply pres_frm with (Wr := Wr); auto.
  { intros y []. }
  intros y Hy [Hag|[]]. destruct Hy as [<-|Hy].
  - rewrite (view_found _ _ _ _ _ F1'), (view_found _ _ _ _ _ F2'). simpl. fold (ptrs cs1'). fold (ptrs cs2'). rewrite Hp'. reflexivity.
  - destruct (in_dec Nat.eq_dec y (map snd (ptrs cs1'))) as [Hin|Hni].
    + destruct (ptrs_kid_nth _ _ Hin) as (j & k & ch1 & Hn1 & <-).
      destruct (ksim_nth _ _ _ _ _ _ Hk' Hn1) as [ch2 [Hn2 [Hnn Hvv]]].
      rewrite (view_kid K V _ _ _ _ _ _ N1' F1' (nth_error_In _ _ Hn1)).
      rewrite <- Hnn. rewrite (view_kid K V _ _ _ _ _ _ N2' F2' (nth_error_In _ _ Hn2)).
      f_equal. apply Hvv. exact Hag.
    + destruct (ptrs_kid_nth _ _ Hy) as (j & k & ch1 & Hn1 & <-).
      assert (Hn2 : exists ch2, nth_error cs2 j = Some (k, ch2) /\ nid ch2 = nid ch1).
      { destruct (ksim_nth _ _ _ _ _ _ Hk Hn1) as [ch2 [A [B _]]]. exists ch2. auto. }
      destruct Hn2 as [ch2 [Hn2 Hnn]].
      rewrite (reb_gone _ _ _ _ _ _ _ _ _ _ _ _ _ N1 F1 G1' R1 U1 (nth_error_In _ _ Hn1) Hni).
      rewrite <- Hnn.
      rewrite (reb_gone _ _ _ _ _ _ _ _ _ _ _ _ _ N2 F2 G2' R2 U2 (nth_error_In _ _ Hn2)); [reflexivity|].
      rewrite Hnn, <- Hp'. exact Hni.
Qed.

End RDReb.

Arguments krel {K V}. Arguments ksim {K V}.

(* InvProof.v — the executable checker [inv_b] decides the invariant [Inv].  No assumption on [ltb]. *)
From Coq Require Import List Bool Lia PeanoNat.
From GB Require Import Model Inv.
Import ListNotations.

Section InvProof.
Variables (K V : Type) (ltb : K -> K -> bool).
Notation tree := (tree K V).

(* ---- an induction principle for the nested inductive [tree] ---- *)
Section Ind.
Variable P : tree -> Prop.
Hypothesis HL : forall es, P (Leaf es).
Hypothesis HN : forall cs, Forall (fun c => P (snd c)) cs -> P (Node cs).
Fixpoint tree_ind' (t : tree) : P t :=
  match t with
  | Leaf es => HL es
  | Node cs =>
    HN cs ((fix go (cs : list (K * tree)) : Forall (fun c => P (snd c)) cs :=
              match cs with
              | [] => Forall_nil _
              | c :: r => Forall_cons c (tree_ind' (snd c)) (go r)
              end) cs)
  end.
End Ind.

(* ---- unfolding equations for the local fixpoints ---- *)
Lemma all_kids_cons (P : tree -> Prop) s c r : all_kids P ((s, c) :: r) = (P c /\ all_kids P r).
Proof. reflexivity. Qed.
Lemma all_kids_b_cons (P : tree -> bool) s c r : all_kids_b P ((s, c) :: r) = P c && all_kids_b P r.
Proof. reflexivity. Qed.

Lemma all_kids_Forall (P : tree -> Prop) cs : all_kids P cs <-> Forall (fun c => P (snd c)) cs.
Proof.
  induction cs as [|[s c] r IH]; [simpl; split; auto|].
  rewrite all_kids_cons, IH. split.
  - intros [H1 H2]. constructor; assumption.
  - intros H. inversion H; subst. split; assumption.
Qed.

Lemma forallb_Forall' {A} (f : A -> bool) l : forallb f l = true <-> Forall (fun x => f x = true) l.
Proof.
  induction l as [|a l IH]; simpl; [split; auto|].
  rewrite andb_true_iff, IH. split.
  - intros [H1 H2]. constructor; assumption.
  - intros H. inversion H; subst. split; assumption.
Qed.

(* ---- reflection lemmas ---- *)
Lemma asc_b_iff ks : asc_b ltb ks = true <-> asc ltb ks.
Proof.
  induction ks as [|k ks IH]; [simpl; tauto|].
  destruct ks as [|k' ks]; [simpl; tauto|].
  change (asc_b ltb (k :: k' :: ks)) with (ltb k k' && asc_b ltb (k' :: ks)).
  change (asc ltb (k :: k' :: ks)) with (lt ltb k k' /\ asc ltb (k' :: ks)).
  rewrite andb_true_iff, IH. unfold lt. tauto.
Qed.

Lemma all_kids_b_iff (Pb : tree -> bool) (P : tree -> Prop) cs :
  Forall (fun c => Pb (snd c) = true <-> P (snd c)) cs ->
  (all_kids_b Pb cs = true <-> all_kids P cs).
Proof.
  induction cs as [|[s c] r IH]; intros H; [simpl; tauto|].
  inversion H; subst. simpl in H2.
  rewrite all_kids_b_cons, all_kids_cons, andb_true_iff, H2, (IH H3). tauto.
Qed.

Lemma seps_ok_b_iff (cs : list (K * tree)) : seps_ok_b ltb cs = true <-> seps_ok ltb cs.
Proof.
  induction cs as [|[s c] r IH]; [simpl; tauto|].
  change (seps_ok_b ltb ((s, c) :: r)) with
    (forallb (fun k => negb (ltb k s)) (allkeys c) &&
     match r with [] => true | (s', _) :: _ => forallb (fun k => ltb k s') (allkeys c) end &&
     seps_ok_b ltb r).
  change (seps_ok ltb ((s, c) :: r)) with
    (Forall (le ltb s) (allkeys c) /\
     match r with [] => True | (s', _) :: _ => Forall (fun k => lt ltb k s') (allkeys c) end /\
     seps_ok ltb r).
  rewrite !andb_true_iff, IH, forallb_Forall'.
  assert (H1 : Forall (fun x => negb (ltb x s) = true) (allkeys c) <-> Forall (le ltb s) (allkeys c)).
  { split; intros H; (eapply Forall_impl; [|exact H]); intros a Ha; unfold le in *;
      [apply negb_true_iff in Ha|apply negb_true_iff]; exact Ha. }
  rewrite H1.
  destruct r as [|[s' c'] r'].
  - tauto.
  - rewrite forallb_Forall'. unfold lt. tauto.
Qed.

Lemma ordered_b_iff (t : tree) : ordered_b ltb t = true <-> ordered ltb t.
Proof.
  induction t as [es|cs IH] using tree_ind'.
  - simpl. apply asc_b_iff.
  - change (ordered_b ltb (Node cs)) with
      (asc_b ltb (map fst cs) && seps_ok_b ltb cs && all_kids_b (ordered_b ltb) cs).
    change (ordered ltb (Node cs)) with
      (asc ltb (map fst cs) /\ seps_ok ltb cs /\ all_kids (ordered ltb) cs).
    rewrite !andb_true_iff, asc_b_iff, seps_ok_b_iff, (all_kids_b_iff _ _ cs IH). tauto.
Qed.

Lemma bal_b_iff (t : tree) : forall d, bal_b d t = true <-> bal d t.
Proof.
  induction t as [es|cs IH] using tree_ind'; intros d.
  - destruct d; simpl; [tauto|split; [discriminate|tauto]].
  - destruct d as [|d']; [simpl; split; [discriminate|tauto]|].
    change (bal_b (S d') (Node cs)) with (negb (length cs =? 0) && all_kids_b (bal_b d') cs).
    change (bal (S d') (Node cs)) with (cs <> [] /\ all_kids (bal d') cs).
    rewrite andb_true_iff.
    assert (H1 : negb (length cs =? 0) = true <-> cs <> []).
    { destruct cs; simpl; split; congruence. }
    rewrite H1, (all_kids_b_iff (bal_b d') (bal d') cs); [tauto|].
    eapply Forall_impl; [|exact IH]. intros c Hc. apply Hc.
Qed.

Lemma occ_b_iff order (t : tree) : forall isroot, occ_b order isroot t = true <-> occ order isroot t.
Proof.
  induction t as [es|cs IH] using tree_ind'; intros isroot.
  - simpl. rewrite !andb_true_iff, Nat.leb_le. destruct isroot; [intuition|].
    rewrite Nat.leb_le. intuition.
  - change (occ_b order isroot (Node cs)) with
      ((length cs <=? order) &&
       (if isroot then root_min order <=? length cs else Nat.div2 order <=? length cs) &&
       all_kids_b (fun c => occ_b order false c) cs).
    change (occ order isroot (Node cs)) with
      (length cs <= order /\
       (if isroot then root_min order <= length cs else Nat.div2 order <= length cs) /\
       all_kids (fun c => occ order false c) cs).
    rewrite !andb_true_iff, Nat.leb_le.
    rewrite (all_kids_b_iff (fun c => occ_b order false c) (fun c => occ order false c) cs).
    2:{ eapply Forall_impl; [|exact IH]. intros c Hc. apply Hc. }
    destruct isroot; rewrite Nat.leb_le; tauto.
Qed.

Theorem inv_b_iff : forall order (t : tree), inv_b ltb order t = true <-> Inv ltb order t.
Proof.
  intros order t. unfold inv_b, Inv.
  rewrite !andb_true_iff, ordered_b_iff, bal_b_iff, occ_b_iff. tauto.
Qed.

End InvProof.

Print Assumptions inv_b_iff.

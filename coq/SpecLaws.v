(* SpecLaws.v — the specification of Spec.v is recognisably an ideal map: laws of lookup/put/erase/from
   on association lists whose keys are strictly ascending.  Only the three strict-weak-order laws are
   assumed about [ltb]; equivalent keys need not be equal. *)
From Coq Require Import List Bool Lia PeanoNat.
From GB Require Import Model Spec Inv ListLemmas SearchProof.
Import ListNotations.

Section SpecLaws.
Variables (K V : Type) (ltb : K -> K -> bool).
Hypothesis HS : SWO ltb.

Definition eqv (a b : K) : Prop := ltb a b = false /\ ltb b a = false.

Let irr := ltb_irrefl K ltb HS.
Let tr := ltb_trans K ltb HS.
Let ntr := ltb_negtrans K ltb HS.
Let asym := lt_asym K ltb HS.
Let ltle := lt_le_trans K ltb HS.
Let lelt := le_lt_trans K ltb HS.

(* ---- order facts ---- *)
Lemma eqv_refl a : eqv a a.
Proof. split; apply irr. Qed.
Lemma eqv_sym a b : eqv a b -> eqv b a.
Proof. intros [H1 H2]; split; assumption. Qed.
Lemma eqv_trans a b c : eqv a b -> eqv b c -> eqv a c.
Proof. intros [H1 H2] [H3 H4]. split; eapply ntr; eauto. Qed.

Lemma eqv_ltb_l a b x : eqv a b -> ltb a x = ltb b x.
Proof.
  intros [H1 H2]. destruct (ltb a x) eqn:E1, (ltb b x) eqn:E2; try reflexivity.
  - rewrite (ntr a b x H1 E2) in E1. discriminate.
  - rewrite (ntr b a x H2 E1) in E2. discriminate.
Qed.
Lemma eqv_ltb_r a b x : eqv a b -> ltb x a = ltb x b.
Proof.
  intros [H1 H2]. destruct (ltb x a) eqn:E1, (ltb x b) eqn:E2; try reflexivity.
  - rewrite (ntr x b a E2 H2) in E1. discriminate.
  - rewrite (ntr x a b E1 H1) in E2. discriminate.
Qed.

Lemma asc_cons_iff k ks : asc ltb (k :: ks) <-> Forall (fun x => ltb k x = true) ks /\ asc ltb ks.
Proof.
  split.
  - intros H. split; [apply (asc_forall K ltb HS); exact H | eapply asc_cons_inv; exact H].
  - intros [H1 H2]. destruct ks as [|k' ks]; [exact I|]. split; [inversion H1; assumption|exact H2].
Qed.

Lemma asc_app_iff l1 l2 :
  asc ltb (l1 ++ l2) <->
  asc ltb l1 /\ asc ltb l2 /\ Forall (fun a => Forall (fun b => ltb a b = true) l2) l1.
Proof.
  induction l1 as [|a l1 IH].
  - simpl. split; [intros H; repeat split; auto|tauto].
  - rewrite <- app_comm_cons. rewrite !asc_cons_iff, IH, Forall_app. split.
    + intros [[Ha1 Ha2] [H1 [H2 H3]]]. repeat split; auto.
    + intros [[Ha1 H1] [H2 H3]]. inversion H3; subst. repeat split; auto.
Qed.

(* ---- keys of put / erase ---- *)
Lemma put_keys k f (m : list (K * V)) x : In x (map fst (put ltb k f m)) -> x = k \/ In x (map fst m).
Proof.
  induction m as [|[k' v] r IH]; simpl.
  - intros [H|[]]; auto.
  - destruct (ltb k k'); [|destruct (ltb k' k)]; simpl; intros H.
    + destruct H as [H|H]; auto.
    + destruct H as [H|H]; auto. destruct (IH H); auto.
    + exact (or_intror H).
Qed.

Lemma erase_keys k (m : list (K * V)) x : In x (map fst (erase ltb k m)) -> In x (map fst m).
Proof.
  induction m as [|[k' v] r IH]; simpl; [tauto|].
  destruct (ltb k k'); [|destruct (ltb k' k)]; simpl; intros H; auto.
  destruct H as [H|H]; auto.
Qed.

Lemma put_asc k f (m : list (K * V)) : asc ltb (map fst m) -> asc ltb (map fst (put ltb k f m)).
Proof.
  induction m as [|[k' v] r IH]; intros Ha; [exact I|].
  cbn [map fst] in Ha. apply asc_cons_iff in Ha as [Hall Hr]. cbn [put].
  destruct (ltb k k') eqn:E1; [|destruct (ltb k' k) eqn:E2]; cbn [map fst].
  - apply asc_cons_iff. split.
    + constructor; [exact E1|]. eapply Forall_impl; [|exact Hall]. intros x Hx. eapply tr; eauto.
    + apply asc_cons_iff. split; assumption.
  - apply asc_cons_iff. split; [|apply IH; exact Hr].
    apply Forall_forall. intros x Hx. apply put_keys in Hx as [->|Hx]; [exact E2|].
    rewrite Forall_forall in Hall. apply Hall; exact Hx.
  - apply asc_cons_iff. split; assumption.
Qed.

Lemma erase_asc k (m : list (K * V)) : asc ltb (map fst m) -> asc ltb (map fst (erase ltb k m)).
Proof.
  induction m as [|[k' v] r IH]; intros Ha; [exact I|].
  cbn [map fst] in Ha. pose proof Ha as Ha0. apply asc_cons_iff in Ha as [Hall Hr]. cbn [erase].
  destruct (ltb k k') eqn:E1; [|destruct (ltb k' k) eqn:E2]; cbn [map fst].
  - exact Ha0.
  - apply asc_cons_iff. split; [|apply IH; exact Hr].
    apply Forall_forall. intros x Hx. apply erase_keys in Hx.
    rewrite Forall_forall in Hall. apply Hall; exact Hx.
  - exact Hr.
Qed.

(* ---- lookup ---- *)
Lemma lookup_above k (m : list (K * V)) : Forall (fun e => ltb k (fst e) = true) m -> lookup ltb k m = None.
Proof. destruct m as [|[k' v] r]; intros H; [reflexivity|]. inversion H; subst. simpl in *. rewrite H2. reflexivity. Qed.

Lemma lookup_skip k (pre m : list (K * V)) :
  Forall (fun e => ltb (fst e) k = true) pre -> lookup ltb k (pre ++ m) = lookup ltb k m.
Proof.
  induction pre as [|[k' v] pre IH]; intros H; [reflexivity|]. inversion H; subst. simpl in *.
  rewrite (asym _ _ H2), H2. apply IH; assumption.
Qed.

Lemma lookup_app_above k (m post : list (K * V)) :
  Forall (fun e => ltb k (fst e) = true) post -> lookup ltb k (m ++ post) = lookup ltb k m.
Proof.
  intros H. induction m as [|[k' v] m IH]; simpl.
  - apply lookup_above; exact H.
  - rewrite IH. reflexivity.
Qed.

Lemma lookup_put_same k f (m : list (K * V)) :
  asc ltb (map fst m) -> lookup ltb k (put ltb k f m) = Some (f (lookup ltb k m)).
Proof.
  intros _. induction m as [|[k' v] r IH]; simpl.
  - rewrite irr. reflexivity.
  - destruct (ltb k k') eqn:E1; [|destruct (ltb k' k) eqn:E2]; simpl.
    + rewrite irr. reflexivity.
    + rewrite E1, E2. exact IH.
    + rewrite E1, E2. reflexivity.
Qed.

Lemma lookup_put_other k k' f (m : list (K * V)) :
  asc ltb (map fst m) -> ~ eqv k k' -> lookup ltb k (put ltb k' f m) = lookup ltb k m.
Proof.
  intros _ Hne. induction m as [|[k2 v] r IH]; simpl.
  - destruct (ltb k k') eqn:E1; [reflexivity|]. destruct (ltb k' k) eqn:E2; [reflexivity|].
    exfalso; apply Hne; split; assumption.
  - destruct (ltb k' k2) eqn:A1; [|destruct (ltb k2 k') eqn:A2]; simpl.
    + destruct (ltb k k') eqn:E1.
      * rewrite (tr _ _ _ E1 A1). reflexivity.
      * destruct (ltb k' k) eqn:E2; [reflexivity|]. exfalso; apply Hne; split; assumption.
    + destruct (ltb k k2); [reflexivity|]. destruct (ltb k2 k); [exact IH|reflexivity].
    + destruct (ltb k k2) eqn:B1; [reflexivity|]. destruct (ltb k2 k) eqn:B2; [reflexivity|].
      exfalso; apply Hne. apply (eqv_trans k k2 k'); split; assumption.
Qed.

Lemma lookup_erase_same k (m : list (K * V)) : asc ltb (map fst m) -> lookup ltb k (erase ltb k m) = None.
Proof.
  induction m as [|[k' v] r IH]; intros Ha; [reflexivity|].
  cbn [map fst] in Ha. apply asc_cons_iff in Ha as [Hall Hr]. cbn [erase].
  destruct (ltb k k') eqn:E1; [|destruct (ltb k' k) eqn:E2].
  - simpl. rewrite E1. reflexivity.
  - simpl. rewrite E1, E2. apply IH; exact Hr.
  - apply lookup_above. rewrite Forall_map in Hall. eapply Forall_impl; [|exact Hall].
    intros e He. simpl in He. eapply lelt; eauto.
Qed.

Lemma lookup_erase_other k k' (m : list (K * V)) :
  asc ltb (map fst m) -> ~ eqv k k' -> lookup ltb k (erase ltb k' m) = lookup ltb k m.
Proof.
  intros Ha Hne. induction m as [|[k2 v] r IH]; [reflexivity|].
  cbn [map fst] in Ha. apply asc_cons_iff in Ha as [Hall Hr]. cbn [erase].
  destruct (ltb k' k2) eqn:A1; [|destruct (ltb k2 k') eqn:A2]; [reflexivity| |].
  - simpl. rewrite (IH Hr). reflexivity.
  - simpl. destruct (ltb k k2) eqn:B1.
    + apply lookup_above. rewrite Forall_map in Hall. eapply Forall_impl; [|exact Hall].
      intros e He. simpl in He. eapply tr; eauto.
    + destruct (ltb k2 k) eqn:B2; [reflexivity|].
      exfalso; apply Hne. apply (eqv_trans k k2 k'); split; assumption.
Qed.

Lemma lookup_eqv k k' (m : list (K * V)) : eqv k k' -> lookup ltb k m = lookup ltb k' m.
Proof.
  intros He. induction m as [|[k2 v] r IH]; simpl; [reflexivity|].
  rewrite (eqv_ltb_l k k' k2 He), (eqv_ltb_r k k' k2 He), IH. reflexivity.
Qed.

Lemma lookup_In k v (m : list (K * V)) :
  asc ltb (map fst m) -> (lookup ltb k m = Some v <-> exists k', eqv k k' /\ In (k', v) m).
Proof.
  induction m as [|[k2 v2] r IH]; intros Ha.
  - simpl. split; [discriminate|intros [k' [_ []]]].
  - cbn [map fst] in Ha. apply asc_cons_iff in Ha as [Hall Hr]. specialize (IH Hr). simpl. split.
    + destruct (ltb k k2) eqn:E1; [discriminate|]. destruct (ltb k2 k) eqn:E2.
      * intros H. apply IH in H as [k' [He Hin]]. exists k'. auto.
      * intros H. inversion H; subst. exists k2. split; [split; assumption|left; reflexivity].
    + intros [k' [He [Hin|Hin]]].
      * inversion Hin; subst. destruct He as [H1 H2]. rewrite H1, H2. reflexivity.
      * assert (Hlt : ltb k2 k' = true).
        { rewrite Forall_forall in Hall. apply Hall. apply (in_map fst) in Hin. exact Hin. }
        rewrite <- (eqv_ltb_r k k' k2 He) in Hlt. rewrite (asym _ _ Hlt), Hlt.
        apply IH. exists k'. auto.
Qed.

(* ---- from ---- *)
Lemma from_skip k (pre m : list (K * V)) :
  Forall (fun e => ltb (fst e) k = true) pre -> from ltb k (pre ++ m) = from ltb k m.
Proof.
  induction pre as [|[k' v] pre IH]; intros H; [reflexivity|]. inversion H; subst. simpl in *.
  rewrite H2. apply IH; assumption.
Qed.

Lemma from_not_below k (m : list (K * V)) :
  Forall (fun e => ltb (fst e) k = false) m -> from ltb k m = m.
Proof. destruct m as [|[k' v] r]; intros H; [reflexivity|]. inversion H; subst. simpl in *. rewrite H2. reflexivity. Qed.

Lemma from_app_above k (m post : list (K * V)) :
  Forall (fun e => ltb k (fst e) = true) post -> from ltb k (m ++ post) = from ltb k m ++ post.
Proof.
  intros H. induction m as [|[k' v] m IH]; simpl.
  - apply from_not_below. eapply Forall_impl; [|exact H]. intros e He. apply asym; exact He.
  - destruct (ltb k' k); [exact IH|reflexivity].
Qed.

Lemma from_In k e (m : list (K * V)) :
  asc ltb (map fst m) -> (In e (from ltb k m) <-> In e m /\ ltb (fst e) k = false).
Proof.
  induction m as [|[k2 v2] r IH]; intros Ha.
  - simpl. tauto.
  - cbn [map fst] in Ha. apply asc_cons_iff in Ha as [Hall Hr]. specialize (IH Hr). cbn [from].
    destruct (ltb k2 k) eqn:E.
    + rewrite IH. split.
      * intros [H1 H2]. split; [right; exact H1|exact H2].
      * intros [[H1|H1] H2]; [subst e; simpl in H2; congruence|split; assumption].
    + split.
      * intros H. split; [exact H|]. destruct H as [H|H]; [subst e; exact E|].
        assert (Hlt : ltb k2 (fst e) = true).
        { rewrite Forall_forall in Hall. apply Hall. apply in_map; exact H. }
        destruct (ltb (fst e) k) eqn:E2; [|reflexivity].
        rewrite (tr _ _ _ Hlt E2) in E. discriminate.
      * tauto.
Qed.

Lemma from_suffix k (m : list (K * V)) :
  exists pre, m = pre ++ from ltb k m /\ Forall (fun e => ltb (fst e) k = true) pre.
Proof.
  induction m as [|[k2 v2] r IH].
  - exists []. split; [reflexivity|constructor].
  - cbn [from]. destruct (ltb k2 k) eqn:E.
    + destruct IH as [pre [H1 H2]]. exists ((k2, v2) :: pre). split.
      * simpl. f_equal. exact H1.
      * constructor; assumption.
    + exists []. split; [reflexivity|constructor].
Qed.

Lemma from_asc k (m : list (K * V)) : asc ltb (map fst m) -> asc ltb (map fst (from ltb k m)).
Proof.
  induction m as [|[k2 v2] r IH]; intros Ha; [exact I|].
  cbn [from]. destruct (ltb k2 k); [|exact Ha].
  apply IH. cbn [map fst] in Ha. eapply asc_cons_inv; exact Ha.
Qed.

Lemma from_nil_above k (m : list (K * V)) :
  asc ltb (map fst m) -> Forall (fun e => ltb (fst e) k = true) m -> from ltb k m = [].
Proof.
  intros _ H. rewrite <- (app_nil_r m). rewrite from_skip by exact H. reflexivity.
Qed.

(* ---- histories keep the map well-formed ---- *)
Lemma step_spec_asc o (m : list (K * V)) : asc ltb (map fst m) -> asc ltb (map fst (fst (step_spec ltb m o))).
Proof.
  intros Ha. destruct o; simpl; auto using put_asc, erase_asc.
Qed.

Lemma run_spec_asc ops (m : list (K * V)) : asc ltb (map fst m) -> asc ltb (map fst (fst (run_spec ltb m ops))).
Proof.
  revert m. induction ops as [|o ops IH]; intros m Ha; [exact Ha|].
  cbn [run_spec]. pose proof (step_spec_asc o m Ha) as H1.
  destruct (step_spec ltb m o) as [m' x]. simpl in H1. specialize (IH m' H1).
  destruct (run_spec ltb m' ops) as [m'' xs]. exact IH.
Qed.

End SpecLaws.

Arguments eqv {K} ltb a b.

Print Assumptions run_spec_asc.
Print Assumptions lookup_In.
Print Assumptions from_In.
Print Assumptions lookup_put_other.
Print Assumptions lookup_erase_other.

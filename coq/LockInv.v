(* LockInv.v — which locks a thread holds, as a function of its program counter alone (C09, C10, C05).
   Definitions only; proofs in LockProof.v. *)
From Coq Require Import List Permutation.
From GB Require Export Conc.
Import ListNotations.
Set Implicit Arguments.

Section LockInv.
Variables (K V : Type).
Notation pc := (pc K V).
Notation st := (st K V).

Definition opt_list (x : option id) : list id := match x with Some y => [y] | None => [] end.

(* Delete holds the root (the node of its outermost deleteKey activation) and, per activation, the left
   sibling and the child it locked *)
Definition frames_nodes (stk : list frame) : list id :=
  match rev stk with
  | [] => []
  | bottom :: _ => fp bottom :: flat_map (fun f => opt_list (fl f) ++ opt_list (fc f)) stk
  end.

(* node locks held by a thread resting at pc p *)
Definition pc_nodes (p : pc) : list id :=
  match p with
  | Idle | WantT _ | WantRoot _ _ => []
  | InsWantRootRight _ l _ => [l]
  | InsWantChild _ p _ _ => [p]
  | InsWantSplitRight _ p c _ => [p; c]
  | UpdCallback _ leaf _ _ => [leaf]
  | SeaWantChild _ p _ => [p]
  | DelWantLeft _ stk | DelWantChild _ stk | DelWantRight _ stk => frames_nodes stk
  | CurRest leaf _ _ _ => [leaf]
  | CurWantNext leaf _ _ _ => [leaf]
  end.

(* does a thread resting at p hold the tree mutex *)
Definition pc_holds_T (p : pc) : bool :=
  match p with
  | WantRoot _ _ | InsWantRootRight _ _ _ | DelWantLeft _ _ | DelWantChild _ _ | DelWantRight _ _ => true
  | _ => false
  end.

(* a Delete pc always has at least one activation *)
Definition pc_wf (p : pc) : Prop :=
  match p with
  | DelWantLeft _ stk | DelWantChild _ stk | DelWantRight _ stk => stk <> []
  | _ => True
  end.

Definition lock_inv (s : st) : Prop :=
  NoDup (map fst (lk s)) /\
  NoDup (map fst (ths s)) /\
  (forall x t, In (x, t) (lk s) -> exists th, get_thread t (ths s) = Some th) /\
  (forall t, tm s = Some t -> exists th, get_thread t (ths s) = Some th) /\
  (forall t th, get_thread t (ths s) = Some th ->
     pc_wf (tpc th) /\
     Permutation (held_by t (lk s)) (pc_nodes (tpc th)) /\
     (tm s = Some t <-> pc_holds_T (tpc th) = true)).

(* Search / NewScanner+Scan / Insert / Update, as opposed to Delete *)
Definition pc_is_delete (p : pc) : bool :=
  match p with DelWantLeft _ _ | DelWantChild _ _ | DelWantRight _ _ => true | WantT (CDelete _) | WantRoot (CDelete _) _ => true | _ => false end.

End LockInv.

(* OCCc_Crash.v — in a state satisfying the invariants no step of the concurrent model panics.
   See the summary at the end of OCCc_Proof.v / this file. *)
From Coq Require Import List Permutation Lia Bool PeanoNat.
From GB Require SoloBase OCCc_Chain.
From GB Require Import ListLemmas TreeLemmas Frame LockProof ConcProps UpdLemmas FrameRel FrameInv FrameBlocks FrameProof
  CInv CIDef OCCc_Base OCCc_Blocks OCCc_Reb OCCc_Total OCCc_Unwind OCCc_Proof.
Import ListNotations.

Section Crash.
Variables (K V : Type) (ltb : K -> K -> bool).
Notation itree := (itree K V).
Notation pc := (pc K V).
Notation st := (st K V).
Notation out := (out K V).
Notation thread := (thread K V).

(* ---- no node is empty (except a leaf root) ---- *)
Lemma exl_some (l : list (tid * thread)) x :
  exl l = Some x -> exists u th, In (u, th) l /\ exempt_of (tpc th) = Some x.
Proof.
  induction l as [|[u th] l IH]; [discriminate|]. simpl.
  destruct (exempt_of (tpc th)) as [y|] eqn:E.
  - intros H. inversion H; subst. exists u, th. split; [left; reflexivity|exact E].
  - intros H. destruct (IH H) as (u' & th' & Hin & He). exists u', th'. split; [right; exact Hin|exact He].
Qed.

Lemma exempt_small order (s : st) x :
  all_small_b order s = true -> exempt_node s = Some x ->
  exists ct, find x (tr s) = Some ct /\ S (icount ct) = Nat.div2 order.
Proof.
  intros Hsm He. rewrite exempt_node_exl in He. destruct (exl_some _ _ He) as (u & th & Hin & Hex).
  unfold all_small_b in Hsm. rewrite forallb_forall in Hsm. specialize (Hsm _ Hin). cbn [snd] in Hsm.
  destruct (tpc th) as [ | | | | | | | | | |o stk| | ]; try discriminate Hex.
  destruct stk as [|f r]; [discriminate Hex|]. simpl in Hex. cbn [pc_small_b] in Hsm.
  apply andb_prop in Hsm. destruct Hsm as [Hsm _]. rewrite Hex in Hsm.
  destruct (find x (tr s)) as [ct|]; [|discriminate]. apply Nat.eqb_eq in Hsm. eauto.
Qed.

Lemma ne_nodes order (s : st) x n :
  4 <= order -> occ_ok_b order s = true -> all_small_b order s = true -> find x (tr s) = Some n ->
  (forall i cs, n = INode i cs -> cs <> []) /\ (x <> nid (tr s) -> 1 <= icount n).
Proof.
  intros Ho4 Hocc Hsm Hf. unfold occ_ok_b in Hocc. pose proof (div2_ge2 order Ho4) as Hd.
  assert (Hex : is_ex (exempt_node s) x = true -> 1 <= icount n).
  { destruct (exempt_node s) as [y|] eqn:E; [|discriminate]. simpl. intros X. apply Nat.eqb_eq in X. subst y.
    destruct (exempt_small order s x Hsm E) as (ct & Hc & Hs). rewrite Hf in Hc. inversion Hc; subst. lia. }
  assert (Hx : nid n = x) by (eapply find_nid; eauto).
  destruct (iocc_find K V order _ _ _ _ Hocc Hf) as [[E1 E2]|[E1 E2]].
  - split; [|tauto]. intros i cs ->. intros ->.
    rewrite iocc_eq in Hocc. apply andb_prop in Hocc. destruct Hocc as [Ht _]. rewrite <- E2 in Ht.
    unfold top_ok in Ht. apply orb_prop in Ht. destruct Ht as [Ht|Ht].
    + rewrite Hx in Ht. apply Hex in Ht. simpl in Ht. lia.
    + simpl in Ht. apply Nat.leb_le in Ht. rewrite (root_min_4 order Ho4) in Ht. lia.
  - assert (H1 : 1 <= icount n).
    { rewrite iocc_eq in E2. apply andb_prop in E2. destruct E2 as [Ht _].
      unfold top_ok in Ht. apply orb_prop in Ht. destruct Ht as [Ht|Ht].
      - rewrite Hx in Ht. auto.
      - apply Nat.leb_le in Ht. lia. }
    split; [|auto]. intros i cs -> ->. simpl in H1. lia.
Qed.

(* ---- a child is not the root ---- *)
Lemma child_not_root (t : itree) p pi cs k ch :
  NoDup (ids t) -> find p t = Some (INode pi cs) -> In (k, ch) cs -> nid ch <> nid t.
Proof.
  intros Hnd Hf Hin E.
  assert (Hc : In (nid ch) (idsl cs)) by (eapply kid_in_idsl; [exact Hin | apply nid_in_ids]).
  rewrite find_eq in Hf. destruct (nid t =? p) eqn:Ep.
  - inversion Hf; subst t. simpl in E. subst pi. rewrite ids_node in Hnd. inversion Hnd; tauto.
  - destruct t as [i nx es|i cs0]; [discriminate|]. simpl in E. rewrite ids_node in Hnd.
    apply NoDup_cons_iff in Hnd. destruct Hnd as [Hni _]. apply Hni. rewrite <- E.
    eapply findl_sub_ids; [exact Hf|]. rewrite ids_node. right. exact Hc.
Qed.

(* ---- frames recorded in a Delete pc are internal nodes ---- *)
Lemma frames_found (t : itree) stk :
  frames_ok_b t stk = true -> Forall (fun f => exists pi cs, find (fp f) t = Some (INode pi cs)) stk.
Proof.
  induction stk as [|f rest IH]; intros H; [constructor|]. simpl in H.
  destruct (find (fp f) t) as [[i nx es|pi cs]|] eqn:Hf; try discriminate.
  repeat (apply andb_prop in H; destruct H as [H ?]). constructor; eauto.
Qed.

Lemma frames_top (t : itree) f rest :
  frames_ok_b t (f :: rest) = true -> exists pi cs, find (fp f) t = Some (INode pi cs) /\ fidx f < length cs.
Proof.
  intros H. simpl in H. destruct (find (fp f) t) as [[i nx es|pi cs]|] eqn:Hf; try discriminate.
  repeat (apply andb_prop in H; destruct H as [H ?]). apply Nat.ltb_lt in H. eauto.
Qed.

Lemma child_id_total (t : itree) p j pi cs :
  find p t = Some (INode pi cs) -> j < length cs -> exists x, child_id t p j = Ok x.
Proof.
  intros Hf Hj. unfold child_id. rewrite Hf. destruct (get_nth_total j cs Hj) as [[k c] ->]. cbn [bind]. eauto.
Qed.

Lemma child_id_find (t : itree) p j x :
  NoDup (ids t) -> child_id t p j = Ok x ->
  exists pi cs k ch, find p t = Some (INode pi cs) /\ nth_error cs j = Some (k, ch) /\ nid ch = x /\ find x t = Some ch.
Proof.
  intros Hnd H. unfold child_id in H. destruct (find p t) as [[i nx es|pi cs]|] eqn:Hf; try discriminate.
  destruct (get_nth j cs) as [[k ch]|] eqn:Hg; [|discriminate]. simpl in H. inversion H; subst x.
  apply get_nth_Ok in Hg. exists pi, cs, k, ch. split; [reflexivity|]. split; [exact Hg|]. split; [reflexivity|].
  eapply find_child; eauto. eapply nth_error_In; eauto.
Qed.

(* ---- the target of every pc is defined ---- *)
Lemma target_total order (s : st) th :
  pc_wf (tpc th) -> pc_ok_b ltb order (tr s) (tpc th) = true -> pc_small_b order (tr s) (tpc th) = true ->
  exists tg, target s (tpc th) = Ok tg.
Proof.
  intros Hwf Hok Hr. destruct (tpc th) as [ |o|o r|o lft rgt|o p c index|o p c r|o leaf mode index|o p c|o stk|o stk|o stk|leaf i n acc|leaf nxt n acc];
    simpl; eauto.
  - destruct stk as [|f rest]; [simpl in Hwf; congruence|]. simpl in Hok.
    destruct (frames_top _ _ _ Hok) as (pi & cs & Hf & Hlt).
    destruct (child_id_total (tr s) (fp f) (fidx f - 1) pi cs Hf) as [x ->]; [lia|]. cbn [bind]. eauto.
  - destruct stk as [|f rest]; [simpl in Hwf; congruence|]. simpl in Hok.
    destruct (frames_top _ _ _ Hok) as (pi & cs & Hf & Hlt).
    destruct (child_id_total (tr s) (fp f) (fidx f) pi cs Hf) as [x ->]; [lia|]. cbn [bind]. eauto.
  - destruct stk as [|f rest]; [simpl in Hwf; congruence|]. cbn [pc_small_b] in Hr.
    apply andb_prop in Hr. destruct Hr as [_ Hr].
    destruct (find (fp f) (tr s)) as [[?|pi cs]|] eqn:Hf; try discriminate. apply Nat.ltb_lt in Hr.
    destruct (child_id_total (tr s) (fp f) (fidx f + 1) pi cs Hf Hr) as [x ->]. cbn [bind]. eauto.
Qed.

(* ---- more list and split facts ---- *)
Lemma isplit_counts order x (t l r : itree) :
  Nat.even order = true -> isplit order x t = Some (l, r) ->
  icount l = Nat.div2 order /\ icount r = Nat.div2 order /\ nid l = nid t /\ nid r = x.
Proof.
  intros Hev H. unfold isplit in H. destruct (icount t <? order) eqn:E; [discriminate|].
  apply Nat.ltb_ge in E. pose proof (even_div2 order Hev) as Hd.
  destruct t as [i nx es|i cs]; inversion H; subst; clear H; simpl in *;
    rewrite !firstn_length, skipn_length; repeat split; lia.
Qed.

Lemma some_total {A} (e : res A) : (exists x, e = Ok x) -> exists r, (x <- e ;; Ok (Some x)) = Ok r.
Proof. intros [x ->]. cbn [bind]. eauto. Qed.

Lemma nonempty_of_count (n : itree) : 1 <= icount n -> forall i cs, n = INode i cs -> cs <> [].
Proof. intros H i cs -> ->. simpl in H. lia. Qed.

Opaque unwind.

Lemma blk_total order (s : st) me th tg :
  Nat.even order = true -> 4 <= order ->
  CIfull ltb order s -> all_inv K V s -> all_small_b order s = true -> all_op_b s = true ->
  get_thread me (ths s) = Some th -> target s (tpc th) = Ok tg -> is_free s tg = true ->
  exists r, SoloBase.blk ltb order s me th tg = Ok r.
Proof.
  intros Hev Ho4 [[HGI [Hinv Hpcs]] Hocc] ([Hnd Hlt] & _ & Hfi) Hsmall Hops Hme Htg Hfree.
  pose proof (div2_ge2 order Ho4) as Hd2.
  destruct Hinv as [Hinv Hwf2].
  pose proof Hinv as [Hndl [Hndt [Hlk [Htm Hth]]]].
  destruct (Hth me th Hme) as [Hwf [HP HT]].
  pose proof (Hwf2 me th Hme) as Hw2.
  pose proof (Hfi me th Hme) as Hok.
  pose proof (get_thread_in K V _ _ _ Hme) as Hin.
  assert (Hpcok : pc_ok_b ltb order (tr s) (tpc th) = true).
  { unfold all_pc_ok_b in Hpcs. rewrite forallb_forall in Hpcs. apply (Hpcs _ Hin). }
  assert (Hsm_me : pc_small_b order (tr s) (tpc th) = true).
  { unfold all_small_b in Hsmall. rewrite forallb_forall in Hsmall. apply (Hsmall _ Hin). }
  assert (Hop_me : pc_op_b (tpc th) = true).
  { unfold all_op_b in Hops. rewrite forallb_forall in Hops. apply (Hops _ Hin). }
  assert (Hexh : pc_holds_T (tpc th) = true -> exempt_node s = exempt_of (tpc th)).
  { intros X. eapply exempt_node_holder; eauto. }
  assert (NE : forall x n, find x (tr s) = Some n ->
            (forall i cs, n = INode i cs -> cs <> []) /\ (x <> nid (tr s) -> 1 <= icount n)).
  { intros x n. eapply ne_nodes; eauto. }
  assert (Hbal : ibal (Model.height (erase_ids (tr s))) (tr s)).
  { apply (bal_ibal K V ltb). destruct HGI as (_ & _ & _ & X & _). exact X. }
  assert (Hchain : GI.chain_ok (leaf_links (tr s))) by (destruct HGI as (_ & _ & _ & _ & _ & X); exact X).
  unfold occ_ok_b in Hocc.
  assert (Hfr1 : ~ In (fresh s) (ids (tr s))).
  { intro X. rewrite Forall_forall in Hlt. apply Hlt in X. lia. }
  assert (Hfr2 : ~ In (S (fresh s)) (ids (tr s))).
  { intro X. rewrite Forall_forall in Hlt. apply Hlt in X. lia. }
  assert (Hheld : forall x, In x (pc_nodes (tpc th)) -> In x (held_by me (lk s))).
  { intros x Hx. eapply Permutation_in; [apply Permutation_sym; exact HP | exact Hx]. }
  unfold SoloBase.blk. cbv zeta.
  destruct (tpc th) as [ |o|o r|o lft rgt|o p c index|o p c r|o leaf mode index|o p c|o stk|o stk|o stk|leaf i n acc|leaf nxt n acc] eqn:Hpc.
  all: simpl in Htg; crunch Htg; inversion Htg; subst tg; clear Htg.
  all: simpl in Hw2, Hok, Hheld.
  - (* Idle *) destruct (prog th); unfold mk; cbn [bind]; eauto.
  - (* WantT *) unfold mk. cbn [bind]. eauto.
  - (* WantRoot *)
    subst r. apply some_total.
    assert (Hroot : find (nid (tr s)) (tr s) = Some (tr s)) by apply find_root_self.
    assert (Hins : exists out : out,
              match isplit order (fresh s) (tr s) with
              | Some (lft, rgt) =>
                ls <- ismallest lft ;; rs <- ismallest rgt ;;
                (if ltb (key_of o) rs
                 then ins_descend ltb o (nid (tr s)) (INode (S (fresh s)) [(if ltb (key_of o) ls then key_of o else ls, lft); (rs, rgt)])
                        ((nid (tr s), me) :: lk s) (S (S (fresh s))) None
                 else mk (INode (S (fresh s)) [(if ltb (key_of o) ls then key_of o else ls, lft); (rs, rgt)])
                        ((nid (tr s), me) :: lk s) (S (S (fresh s))) (tm s) (InsWantRootRight o (nid (tr s)) (fresh s)) [])
              | None => ins_descend ltb o (nid (tr s)) (tr s) ((nid (tr s), me) :: lk s) (fresh s) None
              end = Ok out).
    { destruct (isplit order (fresh s) (tr s)) as [[lft rgt]|] eqn:Hsp.
      - destruct (isplit_counts order _ _ _ _ Hev Hsp) as (C1 & C2 & C3 & C4).
        destruct (ismallest_total K V lft) as [ls ->]; [lia|]. cbn [bind].
        destruct (ismallest_total K V rgt) as [rs ->]; [lia|]. cbn [bind].
        destruct (ltb (key_of o) rs); [|unfold mk; eauto].
        eapply ins_descend_total with (nd := lft).
        + rewrite find_eq. simpl nid.
          assert (E : S (fresh s) =? nid (tr s) = false).
          { apply Nat.eqb_neq. intros X. apply Hfr2. rewrite X. apply nid_in_ids. }
          rewrite E. rewrite findl_cons. rewrite find_eq, C3, Nat.eqb_refl. reflexivity.
        + apply nonempty_of_count. lia.
      - eapply ins_descend_total; [exact Hroot | apply (NE _ _ Hroot)]. }
    destruct o as [k v|k f|k|k|k cnt]; try exact Hins.
    + clear Hins. destruct (tr s) as [i nx es|i cs] eqn:Et.
      * destruct (leaf_delete_total K V ltb (Nat.div2 order) k es) as [[es' sm] ->]. unfold mk. cbn [bind]. eauto.
      * cbn [nid]. destruct (del_descend_total K V ltb (CDelete k) [] i (INode i cs) i cs) as [p ->]; [exact Hroot|].
        unfold mk. cbn [bind]. eauto.
    + eapply sea_descend_total; [exact Hroot | apply (NE _ _ Hroot)].
    + eapply sea_descend_total; [exact Hroot | apply (NE _ _ Hroot)].
  - (* InsWantRootRight *)
    apply some_total. simpl in Hpcok. destruct (find rgt (tr s)) as [rt|] eqn:Hfr; [|discriminate].
    eapply ins_descend_total; [exact Hfr | apply (NE _ _ Hfr)].
  - (* InsWantChild *)
    apply some_total. simpl in Hpcok.
    destruct (find p (tr s)) as [[?|pi cs]|] eqn:Hfp; try discriminate.
    repeat (apply andb_prop in Hpcok; destruct Hpcok as [Hpcok ?]).
    destruct (nth_error cs index) as [[sep child]|] eqn:Hg; [|discriminate].
    match goal with X : (nid child =? c) = true |- _ => apply Nat.eqb_eq in X; rename X into Hnc end.
    assert (Hfc : find c (tr s) = Some child).
    { rewrite <- Hnc. eapply find_child; eauto. eapply nth_error_In; eauto. }
    rewrite Hfc. unfold get_nth. rewrite Hg. cbn [bind].
    assert (Hcne : c <> nid (tr s)).
    { rewrite <- Hnc. eapply child_not_root; eauto. eapply nth_error_In; eauto. }
    destruct (NE _ _ Hfc) as [NE1 NE2]. specialize (NE2 Hcne).
    remember (if index =? 0 then (if ltb (key_of o) sep then key_of o else sep) else sep) as sep' eqn:Hsep.
    destruct (nth_error_split cs index Hg) as [A [B [E L]]].
    destruct (isplit order (fresh s) child) as [[l r]|] eqn:Hsp.
    + destruct (isplit_counts order _ _ _ _ Hev Hsp) as (C1 & C2 & C3 & C4).
      destruct (ismallest_total K V r) as [rs ->]; [lia|]. cbn [bind].
      destruct (upd_total K V p (INode pi (ins_nth (index + 1) (rs, r) (set_nth index (sep', l) cs))) (tr s)) as [t' Hu].
      rewrite Hu. cbn [bind].
      destruct (ltb (key_of o) rs); [|unfold mk; eauto].
      destruct (ins_split_rel K V ltb False order [p; c; fresh s] p pi cs index sep sep' rs child l r
                  (fresh s) (tr s) t' Hnd Hfp Hg Hsp Hu Hfr1) as (A1 & A2 & A3 & A4); try (simpl; tauto).
      { rewrite Hnc. simpl. tauto. }
      eapply ins_descend_total with (nd := l).
      * rewrite <- Hnc, <- C3.
        eapply (find_child K V p pi (ins_nth (index + 1) (rs, r) (set_nth index (sep', l) cs)) sep' l t' A3).
        -- eapply find_upd_same with (n := INode pi cs); [reflexivity | exact Hnd | exact Hfp | exact Hu].
        -- subst cs index. rewrite set_nth_app, ins_nth_app1. apply in_or_app. right. left. reflexivity.
      * apply nonempty_of_count. lia.
    + destruct (upd_total K V p (INode pi (set_nth index (sep', child) cs)) (tr s)) as [t' Hu].
      rewrite Hu. cbn [bind].
      destruct (ins_nosplit_rel K V False [p] p pi cs index sep sep' child (tr s) t' Hnd Hfp Hg Hu)
        as (A1 & A2 & A3 & A4); [simpl; tauto|].
      eapply ins_descend_total with (nd := child); [|exact NE1].
      rewrite <- Hnc.
      eapply (find_child K V p pi (set_nth index (sep', child) cs) sep' child t' A3).
      * eapply find_upd_same with (n := INode pi cs); [reflexivity | exact Hnd | exact Hfp | exact Hu].
      * subst cs index. rewrite set_nth_app. apply in_or_app. right. left. reflexivity.
  - (* InsWantSplitRight *)
    apply some_total. simpl in Hpcok.
    destruct (find p (tr s)) as [[?|pi cs]|] eqn:Hfp; try discriminate.
    destruct (find r (tr s)) as [rt|] eqn:Hfr; [|discriminate].
    eapply ins_descend_total; [exact Hfr | apply (NE _ _ Hfr)].
  - (* UpdCallback *)
    apply some_total. simpl in Hpcok. destruct o as [| k f | | |]; try discriminate Hop_me.
    destruct (find leaf (tr s)) as [[i nx es|?]|] eqn:Hfl; try discriminate.
    apply andb_prop in Hpcok. destruct Hpcok as [_ Hm].
    destruct mode as [|[|m]].
    + destruct (upd_total K V leaf (ILeaf i nx (es ++ [(k, f None)])) (tr s)) as [t' ->]. unfold mk. cbn [bind]. eauto.
    + destruct (nth_error es index) as [[k' v']|] eqn:Hn; [|discriminate]. unfold get_nth. rewrite Hn. cbn [bind].
      destruct (upd_total K V leaf (ILeaf i nx (set_nth index (k', f (Some v')) es)) (tr s)) as [t' ->]. unfold mk. cbn [bind]. eauto.
    + apply andb_prop in Hm. destruct Hm as [_ Hm].
      destruct (nth_error es index) as [[k' v']|] eqn:Hn; [|discriminate]. unfold get_nth. rewrite Hn. cbn [bind].
      destruct (upd_total K V leaf (ILeaf i nx (set_nth index (k', f None) es)) (tr s)) as [t' ->]. unfold mk. cbn [bind]. eauto.
  - (* SeaWantChild *)
    apply some_total. simpl in Hpcok.
    destruct (find p (tr s)) as [[?|pi cs]|] eqn:Hfp; try discriminate.
    apply existsb_exists in Hpcok. destruct Hpcok as [[k ch] [Hin' Hn]]. simpl in Hn. apply Nat.eqb_eq in Hn.
    assert (Hfc : find c (tr s) = Some ch) by (rewrite <- Hn; eapply find_child; eauto).
    eapply sea_descend_total; [exact Hfc | apply (NE _ _ Hfc)].
  - (* DelWantLeft *) unfold mk. cbn [bind]. eauto.
  - (* DelWantChild *)
    apply some_total. destruct Hok as (O1 & O2 & O3 & O4). destruct Hw2 as [Hb Hfc]. cbn [pc_ok_b] in Hpcok.
    destruct (child_id_find (tr s) _ _ _ Hnd E0) as (pi & cs & k & ch & Hfp & Hg & Hn & Hfa).
    rewrite Hfa. destruct ch as [i nx es|i cs0].
    + destruct (leaf_delete_total K V ltb (Nat.div2 order) (key_of o) es) as [[es' small] Hld]. rewrite Hld. cbn [bind].
      destruct (upd_total K V a (ILeaf i nx es') (tr s)) as [t' Hu]. rewrite Hu. cbn [bind].
      assert (Hex : exempt_node s = None) by (apply (Hexh eq_refl)).
      assert (Hb1 : bottom_ok (nid (tr s)) (set_fc f a :: l)) by (eapply bottom_ok_replace; eauto).
      assert (Hs1 : stack_ok (tr s) (fresh s) (set_fc f a :: l)).
      { simpl. split; [exact O1|]. split; [exact O2|]. split; [|split; [exact O3|exact O4]].
        exists a. split; [reflexivity|]. apply child_id_at. exact E0. }
      assert (Hperm : Permutation (a :: held_by me (lk s)) (nid (tr s) :: flat_map fkids (set_fc f a :: l))).
      { rewrite HP. simpl pc_nodes. eapply perm_trans; [eapply frames_set_fc; eauto|].
        rewrite (frames_nodes_bottom (nid (tr s))); [reflexivity | discriminate | exact Hb1]. }
      assert (Hga : NoDup (a :: held_by me (lk s))) by (eapply granted_nodup; eauto).
      assert (Hnd1 : NoDup (nid (tr s) :: flat_map fkids (set_fc f a :: l))).
      { eapply Permutation_NoDup; [exact Hperm | exact Hga]. }
      destruct (upd_leaf_rel K V True [a] a i nx nx es es' (tr s) t' Hnd Hfa Hu) as (A1 & A2 & A3 & A4);
        [simpl; tauto|].
      assert (Hia : i = a) by (apply find_nid in Hfa; exact Hfa). subst i.
      assert (Hane : a <> nid (tr s)).
      { intros Eq1. revert Hnd1. rewrite cnt_nodup. intros X. specialize (X a). simpl in X.
        rewrite <- Eq1, Nat.eqb_refl, cnt_app in X.
        assert (Hin2 : In a (fkids (set_fc f a))) by (unfold fkids; simpl; rewrite in_app_iff; right; simpl; auto).
        apply cnt_in in Hin2. lia. }
      rewrite Hex in Hocc.
      assert (HQ : UQ order (set_fc f a :: l) small t').
      { destruct (iocc_find K V order _ _ _ _ Hocc Hfa) as [[X _]|[_ Hle]]; [congruence|].
        apply iocc_elim_false in Hle. destruct Hle as [Hle _]. simpl in Hle.
        destruct (leaf_delete_facts K V ltb _ _ _ _ _ Hld) as [[-> ->]|[Hlen Hsm]].
        - unfold UQ. exact (leaf_upd_occ K V order None a a nx nx es es (tr s) t' Hnd Hfa Hu (le_n _) Hocc).
        - unfold UQ. subst small. destruct (length es' <? Nat.div2 order) eqn:Esm.
          + apply Nat.ltb_lt in Esm. exists a, (ILeaf a nx es'). split; [reflexivity|].
            split; [eapply find_upd_same with (n := ILeaf a nx es); [reflexivity|exact Hnd|exact Hfa|exact Hu]|].
            split; [simpl; lia|].
            eapply iocc_upd_root with (e := None) (n := ILeaf a nx es) (n' := ILeaf a nx es');
              [reflexivity | exact Hnd | exact Hfa | exact Hu | right; intros ? X; discriminate X | | | exact Hocc];
              intros _ _; rewrite iocc_leaf; unfold top_ok; simpl; rewrite Nat.eqb_refl; reflexivity.
          + apply Nat.ltb_ge in Esm.
            eapply iocc_upd_root with (e := None) (n := ILeaf a nx es) (n' := ILeaf a nx es');
              [reflexivity | exact Hnd | exact Hfa | exact Hu | left; reflexivity | | | exact Hocc]; intros X _.
            * congruence.
            * apply iocc_intro_false; [simpl; lia | reflexivity]. }
      assert (Hnotin : forall g, In g (set_fc f a :: l) -> ~ In (fp g) [a]).
      { intros g Hgg [Ea|[]].
        assert (Hgh : In (fp g) (held_by me (lk s))).
        { apply Hheld.
          assert (Hlinks : links (f :: l)) by (split; [exact O3 | eapply stack_ok_links; eauto]).
          rewrite (frames_nodes_bottom (nid (tr s))); [ | discriminate | exact Hb].
          destruct Hgg as [<-|Hgg].
          - apply (fp_in_frames (nid (tr s)) (f :: l) Hlinks Hb f). left. reflexivity.
          - apply (fp_in_frames (nid (tr s)) (f :: l) Hlinks Hb g). right. exact Hgg. }
        inversion Hga as [|? ? Hni _]. apply Hni. rewrite Ea. exact Hgh. }
      assert (Hs' : stack_ok t' (fresh s) (set_fc f a :: l)).
      { eapply stack_ok_frm with (W := [a]); [exact A2 | apply le_n | exact Hnotin | exact Hs1]. }
      assert (Hb' : bottom_ok (nid t') (set_fc f a :: l)) by (rewrite A4; exact Hb1).
      assert (Hr' : set_fc f a :: l = [] -> @None id = None) by reflexivity.
      assert (Hh' : NoDup (nid t' :: opt_list None ++ flat_map fkids (set_fc f a :: l))) by (rewrite A4; exact Hnd1).
      assert (Hri' : forall x, @None id = Some x -> child_at t' (fp (set_fc f a)) (fidx (set_fc f a) + 1) x)
        by (intros x Hx; discriminate Hx).
      assert (Hbal' : ibal (Model.height (erase_ids (tr s))) t').
      { apply (ibal_upd K V ltb a (ILeaf a nx es) (ILeaf a nx es')
                 (fun d X => proj2 (ibal_leaf K V d a nx es') (proj1 (ibal_leaf K V d a nx es) X))
                 (tr s) t' _ Hnd Hfa Hu Hbal). }
      assert (Hfound' : Forall (fun g => exists pi cs, find (fp g) t' = Some (INode pi cs)) (set_fc f a :: l)).
      { assert (Hff : Forall (fun g => exists pi cs, find (fp g) (tr s) = Some (INode pi cs)) (set_fc f a :: l)).
        { apply frames_found in Hpcok. inversion Hpcok as [|? ? X1 X2]; subst. constructor; [exact X1|exact X2]. }
        rewrite Forall_forall in Hff. apply Forall_forall. intros g Hgg.
        destruct (Hff g Hgg) as [pg [cg Hfg]].
        destruct (A2 (fp g) (Hnotin g Hgg)) as [Ev|[X _]]; [|exfalso; apply X; exact I].
        eapply view_node_found; eauto. }
      assert (Hfuel : length (set_fc f a :: l) < S (S (length (f :: l)))) by (simpl; lia).
      exact (unwind_total K V ltb order _ _ Ho4 o _ small None t' _ (fresh s) _ Hfuel A3 Hs' Hb' Hr' Hh' Hri' HQ Hbal' Hfound').
    + destruct (del_descend_total K V ltb o (set_fc f a :: l) a (tr s) i cs0 Hfa) as [p ->]. unfold mk. cbn [bind]. eauto.
  - (* DelWantRight *)
    apply some_total. destruct Hw2 as [Hb _]. cbn [pc_ok_b] in Hpcok. apply andb_prop in Hpcok. destruct Hpcok as [Hfrm _].
    assert (Hex : exempt_node s = fc f) by (apply (Hexh eq_refl)).
    assert (Hperm : Permutation (a :: held_by me (lk s)) (nid (tr s) :: a :: flat_map fkids (f :: l))).
    { rewrite HP. simpl pc_nodes. rewrite (frames_nodes_bottom (nid (tr s))); [apply perm_swap | discriminate | exact Hb]. }
    assert (HQ : UQ order (f :: l) true (tr s)).
    { destruct Hok as (_ & _ & [c [Hc _]] & _). unfold UQ. cbn [pc_small_b] in Hsm_me.
      apply andb_prop in Hsm_me. destruct Hsm_me as [Hsm_me _]. rewrite Hc in Hsm_me.
      destruct (find c (tr s)) as [ct|] eqn:Hfct; [|discriminate]. apply Nat.eqb_eq in Hsm_me.
      exists c, ct. rewrite Hex, Hc in Hocc. auto. }
    assert (Hr' : f :: l = [] -> Some a = None) by discriminate.
    assert (Hh' : NoDup (nid (tr s) :: opt_list (Some a) ++ flat_map fkids (f :: l))).
    { simpl opt_list. simpl app. eapply Permutation_NoDup; [exact Hperm | eapply granted_nodup; eauto]. }
    assert (Hri' : forall x, Some a = Some x -> child_at (tr s) (fp f) (fidx f + 1) x).
    { intros x Hx. inversion Hx; subst. apply child_id_at. exact E0. }
    assert (Hfound' : Forall (fun g => exists pi cs, find (fp g) (tr s) = Some (INode pi cs)) (f :: l)).
    { apply frames_found. exact Hfrm. }
    assert (Hfuel : length (f :: l) < S (S (length (f :: l)))) by (simpl; lia).
    exact (unwind_total K V ltb order _ _ Ho4 o _ true (Some a) (tr s) _ (fresh s) _ Hfuel Hnd Hok Hb Hr' Hh' Hri' HQ Hbal Hfound').
  - (* CurRest *)
    apply some_total. simpl in Hpcok. destruct n as [|n']; [unfold mk; eauto|].
    destruct (find leaf (tr s)) as [[? nx es|?]|]; try discriminate.
    destruct (nth_error es i); [unfold mk; eauto|]. destruct nx; unfold mk; eauto.
  - (* CurWantNext *)
    apply some_total. simpl in Hpcok.
    destruct (find leaf (tr s)) as [[i0 [x|] es|?]|] eqn:Hfl; try discriminate.
    apply Nat.eqb_eq in Hpcok. subst x.
    destruct (OCCc_Chain.next_leaf_found K V (tr s) leaf i0 nxt es Hnd Hchain Hfl) as (nx' & es' & Hfn & Hne).
    rewrite Hfn. destruct (NE _ _ Hfn) as [_ X]. specialize (X Hne). simpl in X.
    destruct es' as [|e es']; [simpl in X; lia|]. unfold mk. eauto.
Qed.

Transparent unwind.

(* (2) no panic *)
Theorem no_crash : forall order (s : st) me p,
  Nat.even order = true -> 4 <= order ->
  CIfull ltb order s -> all_inv K V s ->
  all_small_b order s = true -> all_op_b s = true ->
  cstep ltb order s me <> Crash p.
Proof.
  intros order s me p Hev Ho4 HCI Hall Hsmall Hops. rewrite SoloBase.cstep_eq.
  destruct (get_thread me (ths s)) as [th|] eqn:Hme; [|discriminate].
  pose proof HCI as [[HGI [Hinv Hpcs]] Hocc].
  pose proof (get_thread_in K V _ _ _ Hme) as Hin.
  assert (Hpcok : pc_ok_b ltb order (tr s) (tpc th) = true).
  { unfold all_pc_ok_b in Hpcs. rewrite forallb_forall in Hpcs. apply (Hpcs _ Hin). }
  assert (Hr_me : pc_small_b order (tr s) (tpc th) = true).
  { unfold all_small_b in Hsmall. rewrite forallb_forall in Hsmall. apply (Hsmall _ Hin). }
  destruct (proj1 Hinv) as (_ & _ & _ & _ & Hth). destruct (Hth me th Hme) as [Hwf _].
  destruct (target_total order s th Hwf Hpcok Hr_me) as [tg Htg]. rewrite Htg.
  destruct (negb (is_free s tg)) eqn:Hfree; [discriminate|]. apply negb_false_iff in Hfree.
  destruct (blk_total order s me th tg Hev Ho4 HCI Hall Hsmall Hops Hme Htg Hfree) as [r ->].
  destruct r; discriminate.
Qed.


End Crash.

(* ------------------------------------------------------------------------------------------------
   SUMMARY
   no_crash : even order -> 4 <= order -> CIfull ltb order s -> all_inv K V s ->
              all_small_b order s = true -> all_op_b s = true -> cstep ltb order s me <> Crash p
   for EVERY pc (including the unwinding of Delete).  The two extra hypotheses are executable (OCCc_Blocks.v):
   all_small_b (inductive: OCCc_Proof.small_step) and all_op_b (inductive: OCCc_Op.op_step; holds initially).
   Both are needed: OCCc_Cex.v.  The binary searches are total for any key order (OCCc_Total.v), so [ordered]
   is not used; [bal] is used (siblings have the same kind), [chain_ok] is used (CurWantNext).
   ------------------------------------------------------------------------------------------------ *)

Print Assumptions no_crash.

(* PCb2_Tree.v — structural facts about identity-carrying trees: every non-root node has exactly one parent, and in a
   well-formed leaf chain the next link of a leaf names a leaf and determines its predecessor. *)
From Coq Require Import List Permutation Lia Bool PeanoNat.
From GB Require Import ListLemmas TreeLemmas Frame UpdLemmas FrameRel.
Import ListNotations.

Section Tree.
Variables (K V : Type).
Notation itree := (itree K V).

Lemma assoc_functional {A B : Type} (l : list (A * B)) x a b :
  NoDup (map fst l) -> In (x, a) l -> In (x, b) l -> a = b.
Proof.
  induction l as [|[y w] l IH]; simpl; intros Hnd H1 H2; [tauto|].
  inversion Hnd as [|? ? Hni Hnd']; subst.
  destruct H1 as [H1|H1]; destruct H2 as [H2|H2].
  - congruence.
  - inversion H1; subst. exfalso. apply Hni. apply in_map_iff. exists (x, b). auto.
  - inversion H2; subst. exfalso. apply Hni. apply in_map_iff. exists (x, a). auto.
  - eauto.
Qed.

(* ---------- parents ---------- *)
Fixpoint plist (par : option id) (t : itree) : list (id * option id) :=
  match t with
  | ILeaf i _ _ => [(i, par)]
  | INode i cs => (i, par) :: flat_map (fun c => plist (Some i) (snd c)) cs
  end.

Lemma plist_hd par (t : itree) : exists r, plist par t = (nid t, par) :: r.
Proof. destruct t; simpl; eauto. Qed.

Lemma map_fst_plist (t : itree) : forall par, map fst (plist par t) = ids t.
Proof.
  induction t as [i nx es|i cs IH] using itree_ind2; intros par; [reflexivity|].
  simpl. f_equal. induction cs as [|[s c] r IHr]; [reflexivity|].
  inversion IH as [|? ? H1 H2]; subst. simpl in *. rewrite map_app, H1, IHr; auto.
Qed.

Lemma find_plist x (t : itree) : forall n par, find x t = Some n ->
  exists par' pre post, plist par t = pre ++ plist par' n ++ post.
Proof.
  induction t as [i nx es|i cs IH] using itree_ind2; intros n par Hf; rewrite find_eq in Hf; simpl nid in Hf.
  - destruct (i =? x); [|discriminate]. inversion Hf; subst. exists par, [], []. rewrite app_nil_r. reflexivity.
  - destruct (i =? x).
    + inversion Hf; subst. exists par, [], []. rewrite app_nil_r. reflexivity.
    + assert (H : exists par' pre post, flat_map (fun c => plist (Some i) (snd c)) cs = pre ++ plist par' n ++ post).
      { induction cs as [|[s c] r IHr]; [discriminate|].
        inversion IH as [|? ? H1 H2]; subst. rewrite findl_cons in Hf. simpl in H1.
        destruct (find x c) as [y|] eqn:Ec.
        - inversion Hf; subst y. destruct (H1 n (Some i) eq_refl) as [par' [pre [post Hp]]].
          exists par', pre, (post ++ flat_map (fun c => plist (Some i) (snd c)) r). simpl. rewrite Hp, <- !app_assoc. reflexivity.
        - destruct (IHr H2 Hf) as [par' [pre [post Hp]]].
          exists par', (plist (Some i) c ++ pre), post. simpl. rewrite Hp, <- !app_assoc. reflexivity. }
      destruct H as [par' [pre [post Hp]]]. exists par', ((i, par) :: pre), post. simpl. rewrite Hp. reflexivity.
Qed.

Lemma child_plist p pi (cs : list (K * itree)) k ch (t : itree) par :
  find p t = Some (INode pi cs) -> In (k, ch) cs -> In (nid ch, Some p) (plist par t).
Proof.
  intros Hf Hin. pose proof (find_nid _ _ _ _ _ Hf) as Hn. simpl in Hn. subst pi.
  destruct (find_plist p t _ par Hf) as [par' [pre [post Hp]]]. rewrite Hp.
  apply in_or_app. right. apply in_or_app. left. simpl. right.
  apply in_flat_map. exists (k, ch). split; [exact Hin|]. simpl. destruct (plist_hd (Some p) ch) as [r ->]. left. reflexivity.
Qed.

Lemma unique_parent (t : itree) p pi cs k ch q qi cs' k' ch' :
  NoDup (ids t) -> find p t = Some (INode pi cs) -> In (k, ch) cs ->
  find q t = Some (INode qi cs') -> In (k', ch') cs' -> nid ch' = nid ch -> p = q.
Proof.
  intros Hnd H1 H2 H3 H4 E.
  pose proof (child_plist _ _ _ _ _ _ None H1 H2) as P1.
  pose proof (child_plist _ _ _ _ _ _ None H3 H4) as P2. rewrite E in P2.
  assert (X : Some p = Some q).
  { eapply assoc_functional; [|exact P1|exact P2]. rewrite map_fst_plist. exact Hnd. }
  inversion X. reflexivity.
Qed.

Lemma child_not_root (t : itree) p pi cs k ch :
  NoDup (ids t) -> find p t = Some (INode pi cs) -> In (k, ch) cs -> nid ch <> nid t.
Proof.
  intros Hnd H1 H2 E.
  pose proof (child_plist _ _ _ _ _ _ None H1 H2) as P1. rewrite E in P1.
  assert (P2 : In (nid t, None) (plist None t)) by (destruct (plist_hd None t) as [r ->]; left; reflexivity).
  assert (X : Some p = None).
  { eapply assoc_functional; [|exact P1|exact P2]. rewrite map_fst_plist. exact Hnd. }
  discriminate X.
Qed.

(* ---------- leaves and the chain ---------- *)
Lemma chain_cons a l :
  chain_ok (a :: l) <-> (match l with [] => snd a = None | h :: _ => snd a = Some (fst h) end) /\ chain_ok l.
Proof. destruct a as [i nx]. destruct l as [|[j nj] r]; simpl; tauto. Qed.

Lemma nodes_links x nx es (t : itree) : In (x, VLeaf nx es) (nodes t) -> In (x, nx) (leaf_links t).
Proof.
  induction t as [i nx' es'|i cs IH] using itree_ind2.
  - simpl. intros [E|[]]. inversion E; subst. auto.
  - rewrite nodes_node. simpl. intros [E|Hin]; [discriminate E|].
    induction cs as [|[s c] r IHr]; [destruct Hin|].
    inversion IH as [|? ? H1 H2]; subst. rewrite nodesl_cons, in_app_iff in Hin. simpl in *. rewrite in_app_iff.
    destruct Hin as [Hin|Hin]; [left; auto | right; auto].
Qed.

Lemma links_nodes x nx (t : itree) : In (x, nx) (leaf_links t) -> exists es, In (x, VLeaf nx es) (nodes t).
Proof.
  induction t as [i nx' es'|i cs IH] using itree_ind2.
  - simpl. intros [E|[]]. inversion E; subst. eauto.
  - rewrite nodes_node. simpl. intros Hin.
    assert (H : exists es, In (x, VLeaf nx es) (nodesl cs)).
    { induction cs as [|[s c] r IHr]; [destruct Hin|].
      inversion IH as [|? ? H1 H2]; subst. simpl in Hin. rewrite in_app_iff in Hin. simpl in H1.
      destruct Hin as [Hin|Hin].
      - destruct (H1 Hin) as [es He]. exists es. rewrite nodesl_cons, in_app_iff. left. exact He.
      - destruct (IHr H2 Hin) as [es He]. exists es. rewrite nodesl_cons, in_app_iff. right. exact He. }
    destruct H as [es He]. exists es. right. exact He.
Qed.

Lemma leaf_in_links x i nx es (t : itree) : find x t = Some (ILeaf i nx es) -> In (x, nx) (leaf_links t).
Proof. intros H. apply find_in_nodes in H. simpl in H. eapply nodes_links; eauto. Qed.

Lemma links_leaf x nx (t : itree) : NoDup (ids t) -> In (x, nx) (leaf_links t) -> exists es, find x t = Some (ILeaf x nx es).
Proof.
  intros Hnd H. destruct (links_nodes _ _ _ H) as [es He].
  pose proof (nodes_view _ _ _ _ _ Hnd He) as Hv. unfold node_view in Hv.
  destruct (find x t) as [n|] eqn:Hf; simpl in Hv; [|discriminate].
  pose proof (find_nid _ _ _ _ _ Hf) as Hn.
  destruct n as [j nx' es'|j cs]; simpl in Hv; inversion Hv; subst. simpl. eauto.
Qed.

Lemma cnt_links (t : itree) y : cnt (map fst (leaf_links t)) y <= cnt (ids t) y.
Proof.
  induction t as [i nx es|i cs IH] using itree_ind2; [simpl; lia|].
  rewrite ids_node. simpl.
  assert (H : cnt (map fst (flat_map (fun c => leaf_links (snd c)) cs)) y <= cnt (idsl cs) y).
  { induction cs as [|[s c] r IHr]; [simpl; lia|].
    inversion IH as [|? ? H1 H2]; subst. rewrite idsl_cons. cbn [flat_map snd]. rewrite map_app, !cnt_app.
    simpl in H1. specialize (IHr H2). lia. }
  lia.
Qed.

Lemma links_nodup (t : itree) : NoDup (ids t) -> NoDup (map fst (leaf_links t)).
Proof. rewrite !cnt_nodup. intros H y. pose proof (cnt_links t y). specialize (H y). lia. Qed.

Lemma chain_split (L : list (id * option id)) y r :
  chain_ok L -> In (y, Some r) L -> exists L1 nx L2, L = L1 ++ (y, Some r) :: (r, nx) :: L2.
Proof.
  induction L as [|a L IH]; intros Hc Hin; [destruct Hin|].
  apply chain_cons in Hc. destruct Hc as [Hh Hc]. destruct Hin as [->|Hin].
  - simpl in Hh. destruct L as [|[j nj] L']; [discriminate Hh|]. simpl in Hh. inversion Hh; subst.
    exists [], nj, L'. reflexivity.
  - destruct (IH Hc Hin) as [L1 [nx [L2 E]]]. exists (a :: L1), nx, L2. rewrite E. reflexivity.
Qed.

Lemma nodup_split_unique {B : Type} (A : list (id * B)) : forall A' r a a' Bs Bs',
  NoDup (map fst (A ++ (r, a) :: Bs)) -> A ++ (r, a) :: Bs = A' ++ (r, a') :: Bs' -> A = A'.
Proof.
  induction A as [|[x w] A IH]; intros A' r a a' Bs Bs' Hnd E.
  - destruct A' as [|[x' w'] A']; [reflexivity|]. simpl in E. inversion E; subst. exfalso.
    simpl in Hnd. inversion Hnd as [|? ? Hni _]; subst. apply Hni. rewrite map_app, in_app_iff. right. simpl. auto.
  - destruct A' as [|[x' w'] A'].
    + simpl in E. inversion E; subst. exfalso.
      simpl in Hnd. inversion Hnd as [|? ? Hni _]; subst. apply Hni. rewrite map_app, in_app_iff. right. simpl. auto.
    + simpl in E. inversion E; subst. f_equal. simpl in Hnd. inversion Hnd; subst. eapply IH; eauto.
Qed.

Lemma chain_pred_unique (L : list (id * option id)) x y r :
  chain_ok L -> NoDup (map fst L) -> In (x, Some r) L -> In (y, Some r) L -> x = y.
Proof.
  intros Hc Hnd Hx Hy.
  destruct (chain_split L x r Hc Hx) as [L1 [nx [L2 E1]]].
  destruct (chain_split L y r Hc Hy) as [L1' [nx' [L2' E2]]].
  assert (E : (L1 ++ [(x, Some r)]) ++ (r, nx) :: L2 = (L1' ++ [(y, Some r)]) ++ (r, nx') :: L2').
  { rewrite <- !app_assoc. simpl. congruence. }
  apply nodup_split_unique in E.
  - apply app_inj_tail in E. destruct E as [_ E]. inversion E. reflexivity.
  - rewrite <- app_assoc. simpl. rewrite <- E1. exact Hnd.
Qed.

Lemma next_is_leaf (t : itree) y i r es :
  NoDup (ids t) -> chain_ok (leaf_links t) -> find y t = Some (ILeaf i (Some r) es) ->
  exists nx es', find r t = Some (ILeaf r nx es').
Proof.
  intros Hnd Hc Hf. apply leaf_in_links in Hf.
  destruct (chain_split _ _ _ Hc Hf) as [L1 [nx [L2 E]]].
  assert (Hin : In (r, nx) (leaf_links t)) by (rewrite E; apply in_or_app; right; right; left; reflexivity).
  destruct (links_leaf _ _ _ Hnd Hin) as [es' He]. eauto.
Qed.

Lemma pred_unique (t : itree) y i es z j es' r :
  NoDup (ids t) -> chain_ok (leaf_links t) ->
  find y t = Some (ILeaf i (Some r) es) -> find z t = Some (ILeaf j (Some r) es') -> y = z.
Proof.
  intros Hnd Hc H1 H2. apply leaf_in_links in H1. apply leaf_in_links in H2.
  eapply chain_pred_unique; eauto. apply links_nodup. exact Hnd.
Qed.

End Tree.

(* LinDef.v — statement of linearizability for the concurrent model by linearization points.
   The instrumented execution carries the specification's map [A] and, per thread, the result computed by the
   specification at the linearization point of its current call (ghost).  Definitions only. *)
From Coq Require Import List Bool PeanoNat.
From GB Require Export Conc GI LockInv LockProof CInv CIDef CInv3 NoDeadlock Frame FrameInv FrameProof Lin Spec PCb1_Blocks PCb1_Proof.
Import ListNotations.
Set Implicit Arguments.

Section LinDef.
Variables (K V : Type) (ltb : K -> K -> bool).
Notation st := (st K V).

(* everything the scheduled correspondence validates on each replayed step, as one invariant *)
Definition CIall (order : nat) (s : st) : Prop :=
  CIfull ltb order s /\ all_inv K V s /\ all_left_pos_b K V s = true /\ all_pc_ok2_b s = true /\ all_pc_ok3_b ltb s = true.

Definition ores_of_obs (x : obs V) : ores K V :=
  match x with ObsUnit => RUnit | ObsArg a => RArg K a | ObsFound a => RFound K a end.

(* ghost: the specification's answer for the call in flight of each thread, once linearized *)
Definition ghost := list (tid * obs V).
Definition gget (g : ghost) (t : tid) : option (obs V) :=
  match List.find (fun e => fst e =? t) g with Some e => Some (snd e) | None => None end.
Definition gclear (g : ghost) (t : tid) : ghost := filter (fun e => negb (fst e =? t)) g.
Definition gset (g : ghost) (t : tid) (x : obs V) : ghost := (t, x) :: gclear g t.

Definition invokes (ev : list (event K V)) : bool := existsb (fun e => match e with EInvoke _ => true | _ => false end) ev.

Record istate := { is_st : st; is_abs : list (K * V); is_ghost : ghost }.

(* one instrumented step: the model steps; an invocation clears the thread's ghost; at a linearization point the
   specification steps and its answer is recorded *)
Definition istep (order : nat) (i : istate) (me : tid) : option (istate * list (event K V)) :=
  match cstep ltb order (is_st i) me with
  | Stepped s' acq ev =>
    let g1 := if invokes ev then gclear (is_ghost i) me else is_ghost i in
    match lp_step ltb (is_st i) me acq ev s' with
    | Some po =>
      let '(a', x) := step_spec ltb (is_abs i) po in
      Some ({| is_st := s'; is_abs := a'; is_ghost := gset g1 me x |}, ev)
    | None => Some ({| is_st := s'; is_abs := is_abs i; is_ghost := g1 |}, ev)
    end
  | _ => None
  end.

Fixpoint iexec (order : nat) (i : istate) (sched : list tid) : istate :=
  match sched with
  | [] => i
  | t :: r => match istep order i t with Some (i', _) => iexec order i' r | None => i end
  end.

Definition iinit (progs : list (tid * list (cop K V))) : istate :=
  {| is_st := init_st progs; is_abs := []; is_ghost := [] |}.

(* is the call in flight of thread [me] (the head of its program) a point operation, and which *)
Definition call_in_flight (s : st) (me : tid) : option (cop K V) :=
  match get_thread me (ths s) with
  | Some th => match tpc th, prog th with Idle, _ => None | _, o :: _ => Some o | _, [] => None end
  | None => None end.
Definition is_scan (o : cop K V) : bool := match o with CScan _ _ => true | _ => false end.

(* what linearizability by linearization points says about one instrumented step *)
Definition lin_step_ok (order : nat) (i : istate) (me : tid) : Prop :=
  forall i' ev, istep order i me = Some (i', ev) ->
    (* the ghost map is the tree's contents *)
    is_abs i' = abs ltb (is_st i') /\
    (* a call is linearized at most once: at a linearization point nothing was recorded since the invocation *)
    (forall acq s', cstep ltb order (is_st i) me = Stepped s' acq ev ->
        lp_step ltb (is_st i) me acq ev s' <> None ->
        gget (if invokes ev then gclear (is_ghost i) me else is_ghost i) me = None) /\
    (* a point operation that returns, returns the answer the specification gave at its linearization point,
       which lies between its invocation and this return *)
    (forall o r, call_in_flight (is_st i) me = Some o -> is_scan o = false -> In (EReturn r) ev ->
        exists x, gget (is_ghost i') me = Some x /\ ores_of_obs x = r).

(* the answer the specification gives at a linearization point agrees with what the step returns (a Search that
   is linearized early, when it is routed below a node's separator, is promised "absent") *)
Definition lp_result_ok (po : op K V) (x : obs V) (ret : option (ores K V)) : Prop :=
  match po, ret with
  | OInsert _ _, Some RUnit => x = ObsUnit
  | OUpdate _ _, Some (RArg _ a) => x = ObsArg a
  | ODelete _, _ => x = ObsUnit
  | OSearch _, Some (RFound _ a) => x = ObsFound a
  | OSearch _, None => x = ObsFound None
  | _, _ => False
  end.

(* the abstraction commutes with every step: unchanged unless the step is a linearization point, where it
   changes as the specification says and the returned value (if the call returns now) is the specification's *)
Definition abs_step_ok (order : nat) (s : st) (me : tid) : Prop :=
  forall s' acq ev, cstep ltb order s me = Stepped s' acq ev ->
    match lp_step ltb s me acq ev s' with
    | None => abs ltb s' = abs ltb s
    | Some po => abs ltb s' = fst (step_spec ltb (abs ltb s) po) /\
                 lp_result_ok po (snd (step_spec ltb (abs ltb s) po)) (returns ev)
    end.

(* a Search already routed below a separator stays so and finally answers "absent" *)
Definition decided (s : st) (t : tid) : bool :=
  match get_thread t (ths s) with
  | Some th => match tpc th with
               | SeaWantChild (CSearch k) pn _ => below_lo ltb k pn (tr s)
               | _ => false end
  | None => false end.

Definition promise_step_ok (order : nat) (s : st) (me : tid) : Prop :=
  forall s' acq ev, cstep ltb order s me = Stepped s' acq ev ->
    (* own step of a decided Search *)
    (decided s me = true ->
       match returns ev with Some r => r = RFound K None | None => decided s' me = true end) /\
    (* other threads stay decided / undecided *)
    (forall t, t <> me -> decided s' t = decided s t).

End LinDef.

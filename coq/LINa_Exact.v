(* LINa_Exact.v — the extra fact abs_step_nondelete_x needs about the placeholder of an Update (mode 2): the key
   stored at the recorded index is the Update's key ITSELF (pc_ok_b only says "an equivalent key").  The predicate is
   not executable for an arbitrary key type (no decidable equality); it is PROVED inductive here, for every step of
   every thread (Delete included), from CIall. *)
From Coq Require Import List Bool Lia PeanoNat Permutation Sorted.
From GB Require Import Model Spec Inv ListLemmas SearchProof TreeLemmas Conc GI LockInv LockProof CInv CIDef CInv3
  Frame FrameInv FrameProof EraseLemmas EraseOps SoloBase SoloSearch Lin LinDef GIa1_Ctx GIa1_Local GIa1_Blocks
  LINa_Lists LINa_Ctx LINa_Abs LINa_Prog LINa_Blocks LINa_Core.
From GB Require GIa1_Proof UpdLemmas.
Import ListNotations.

Section Exact.
Variables (K V : Type) (ltb : K -> K -> bool).
Hypothesis HS : SWO ltb.
Notation itree := (itree K V).
Notation st := (st K V).
Notation out := (out K V).
Notation pc := (pc K V).
Notation cop := (cop K V).
Notation thread := (thread K V).

Definition key_exact (s : st) : Prop :=
  forall t th, get_thread t (ths s) = Some th -> pc_key_exact (tr s) (tpc th).

Theorem key_exact_init progs : key_exact (init_st (K:=K) (V:=V) progs).
Proof.
  intros t th Hg. destruct (GIa1_Proof.get_thread_in K V t _ th Hg) as (e & Hin & <-).
  unfold init_st in Hin. cbn [ths] in Hin. apply in_map_iff in Hin. destruct Hin as (x & <- & _). exact I.
Qed.

Lemma del_descend_ph (o : cop) stk n (t : itree) p : del_descend ltb o stk n t = Ok p -> ph p = [].
Proof. intros H. unfold del_descend in H. crunch H; inversion H; subst; clear H. destruct (0 <? a); reflexivity. Qed.

Lemma unwind_ph order fuel : forall (o : cop) stk small right (t : itree) l fr tmx (out : out),
  unwind order fuel o stk small right t l fr tmx = Ok out -> ph (opc out) = [].
Proof.
  induction fuel as [|fuel IH]; intros o stk small right t l fr tmx out H; simpl in H; [discriminate|].
  destruct stk as [|f rest]; [unfold mk in H; inversion H; reflexivity|].
  destruct (negb small); [eapply IH; eauto|].
  destruct (Conc.find (fp f) t) as [[?|pi cs]|]; try discriminate H.
  destruct ((fidx f + 1 <? length cs) && match right with None => true | Some _ => false end).
  - unfold mk in H. inversion H. reflexivity.
  - destruct (irebalance order f t) as [[t' small']|]; [cbn [bind] in H|discriminate H]. eapply IH; eauto.
Qed.

Opaque unwind.

(* the stepping thread's new pc *)
Lemma blk_exact order (s : st) me th tg (o : out) :
  Nat.even order = true -> 2 <= order -> CIall ltb order s ->
  get_thread me (ths s) = Some th -> blk ltb order s me th tg = Ok (Some o) ->
  pc_key_exact (otr o) (opc o).
Proof.
  intros Hev H2 HCI Hget Hb.
  destruct (CIall_facts K V ltb order s HCI) as (Hsh & Hnodup & Hlt & Hli & Hpcs & Hpc3s).
  pose proof (GIa1_Proof.pc_ok_me K V ltb order s me th Hpcs Hget) as Hpc.
  unfold blk in Hb. destruct (tpc th) eqn:Epc; cbv beta iota zeta in Hb.
  - destruct (prog th) eqn:Epr; [discriminate|]. apply GIa1_Proof.bind_some_inv in Hb. unfold mk in Hb.
    inversion Hb; subst o. exact I.
  - apply GIa1_Proof.bind_some_inv in Hb. unfold mk in Hb. inversion Hb; subst o. exact I.
  - apply GIa1_Proof.bind_some_inv in Hb. cbn [pc_ok_b] in Hpc. apply Nat.eqb_eq in Hpc.
    destruct o0 as [k v|k f|k|k|k n].
    + destruct (root_prep K V ltb HS order (CInsert k v) r (tr s) _ _ _ o H2 Hev Hsh Hnodup Hlt Hpc Hb)
        as [(t' & fr' & Hprep & Hd)|Heff]; [pose proof (ins_eff_prep K V ltb HS order _ _ _ _ _ _ _ _ Hprep Hd) as Heff|];
        eapply ins_eff_exact; eauto.
    + destruct (root_prep K V ltb HS order (CUpdate k f) r (tr s) _ _ _ o H2 Hev Hsh Hnodup Hlt Hpc Hb)
        as [(t' & fr' & Hprep & Hd)|Heff]; [pose proof (ins_eff_prep K V ltb HS order _ _ _ _ _ _ _ _ Hprep Hd) as Heff|];
        eapply ins_eff_exact; eauto.
    + destruct (tr s) as [i nx es|i cs].
      * unfold mk in Hb. crunch Hb. inversion Hb. exact I.
      * unfold mk in Hb. crunch Hb. inversion Hb. subst. cbn [opc]. apply ph_nil_exact. eapply del_descend_ph; eauto.
    + destruct (sea_quiet K V ltb _ _ _ _ _ _ _ Hb) as [_ Hp]. apply ph_nil_exact. exact Hp.
    + destruct (sea_quiet K V ltb _ _ _ _ _ _ _ Hb) as [_ Hp]. apply ph_nil_exact. exact Hp.
  - apply GIa1_Proof.bind_some_inv in Hb. cbn [pc_ok_b] in Hpc.
    destruct (Conc.find r (tr s)) as [rt|] eqn:Hf; [|discriminate Hpc].
    apply andb_true_iff in Hpc. destruct Hpc as [_ Hr].
    pose proof (prep_refl K V ltb order o0 r (tr s) rt (fresh s) Hsh Hnodup Hlt Hf Hr) as Hprep.
    eapply ins_eff_exact. eapply (ins_eff_prep K V ltb HS order); eauto.
  - apply GIa1_Proof.bind_some_inv in Hb.
    destruct (ins_child_prep_n K V ltb HS order o0 p c index (tr s) _ _ _ o H2 Hev Hsh Hnodup Hlt Hpc Hb)
      as [(t' & fr' & Hprep & Hd)|Heff]; [pose proof (ins_eff_prep K V ltb HS order _ _ _ _ _ _ _ _ Hprep Hd) as Heff|];
      eapply ins_eff_exact; eauto.
  - apply GIa1_Proof.bind_some_inv in Hb. cbn [pc_ok_b] in Hpc.
    destruct (Conc.find p (tr s)) as [[?|pi cs]|] eqn:Hfp; try discriminate Hpc.
    destruct (Conc.find r (tr s)) as [rt|] eqn:Hf; [|discriminate Hpc].
    apply andb_true_iff in Hpc. destruct Hpc as [Hpc _].
    apply andb_true_iff in Hpc. destruct Hpc as [Hpc _].
    apply andb_true_iff in Hpc. destruct Hpc as [_ Hr].
    pose proof (prep_refl K V ltb order o0 r (tr s) rt (fresh s) Hsh Hnodup Hlt Hf Hr) as Hprep.
    eapply ins_eff_exact. eapply (ins_eff_prep K V ltb HS order); eauto.
  - apply GIa1_Proof.bind_some_inv in Hb. unfold mk in Hb. crunch Hb; inversion Hb; exact I.
  - apply GIa1_Proof.bind_some_inv in Hb.
    destruct (sea_quiet K V ltb _ _ _ _ _ _ _ Hb) as [_ Hp]. apply ph_nil_exact. exact Hp.
  - apply GIa1_Proof.bind_some_inv in Hb. unfold mk in Hb. crunch Hb; inversion Hb; exact I.
  - apply GIa1_Proof.bind_some_inv in Hb. unfold mk in Hb. apply ph_nil_exact.
    crunch Hb; try (eapply unwind_ph; eassumption); inversion Hb; subst; cbn [opc]; eapply del_descend_ph; eauto.
  - apply GIa1_Proof.bind_some_inv in Hb. apply ph_nil_exact. crunch Hb. eapply unwind_ph; eauto.
  - apply GIa1_Proof.bind_some_inv in Hb. unfold mk in Hb. crunch Hb; inversion Hb; exact I.
  - apply GIa1_Proof.bind_some_inv in Hb. unfold mk in Hb. crunch Hb; inversion Hb; exact I.
Qed.

Transparent unwind.

Lemma view_leaf x (t t' : itree) i nx es :
  Conc.find x t = Some (ILeaf i nx es) -> node_view x t' = node_view x t ->
  exists i', Conc.find x t' = Some (ILeaf i' nx es).
Proof.
  unfold node_view. intros Hf Hv. rewrite Hf in Hv. cbn [option_map view_of] in Hv.
  destruct (Conc.find x t') as [[i' nx' es'|i' cs']|]; cbn [option_map view_of] in Hv; try discriminate Hv.
  inversion Hv; subst. eauto.
Qed.

Theorem key_exact_step : forall order (s s' : st) me acq ev,
  Nat.even order = true -> 2 <= order -> CIall ltb order s -> key_exact s ->
  cstep ltb order s me = Stepped s' acq ev -> key_exact s'.
Proof.
  intros order s s' me acq ev Hev H2 HCI Hke Hstep t tht Hgt.
  destruct (cstep_inv K V ltb order s s' me acq ev Hstep) as (th & o & Hget & Htg & Hfree & Hb & Hs' & Hev').
  destruct (Nat.eq_dec t me) as [->|Hne].
  - subst s'. destruct (commit_ths K V s me th o) as (th' & Hths' & Htpc').
    rewrite Hths', (get_set_same K V me th th' _ Hget) in Hgt. inversion Hgt; subst tht.
    rewrite Htpc'. change (tr (commit s me th o)) with (otr o).
    eapply blk_exact; eauto.
  - assert (Hgt0 : get_thread t (ths s) = Some tht).
    { subst s'. destruct (commit_ths K V s me th o) as (th' & Hths' & _).
      rewrite Hths', (get_set_other K V me t th' _ Hne) in Hgt. exact Hgt. }
    specialize (Hke t tht Hgt0).
    destruct (tpc tht) as [ |o0|o0 r0|o0 lft rgt|o0 p c index|o0 p c r0|o0 leaf mode index|o0 p c|o0 stk|o0 stk|o0 stk|leaf i n acc|leaf nxt n acc] eqn:Epc;
      try exact I.
    destruct mode as [|[|m]]; try exact I. cbn [pc_key_exact] in *.
    destruct Hke as (i & nx & es & v & Hf & Hn).
    pose proof HCI as (((HGI & Hli2 & _) & _) & (Hids & _ & Hfi) & _).
    pose proof (lock_inv2_lock_inv K V s Hli2) as Hli.
    assert (Hheld : In (leaf, t) (lk s)).
    { eapply (held_in K V s t tht); eauto. rewrite Epc. simpl. now left. }
    assert (Hv : node_view leaf (tr s') = node_view leaf (tr s)).
    { eapply (step_frame K V ltb order s s' me acq ev leaf); eauto.
      - apply (GI_lossless K V ltb order s Hev HGI).
      - eapply UpdLemmas.find_in_ids; eauto.
      - intros Hin. apply In_held_by in Hin. apply Hne. destruct Hli as (Hndl & _).
        eapply NoDup_ids_functional; eauto.
      - intros ->. apply (acquired_free K V) in Hfree. apply holder_none in Hfree. apply Hfree.
        apply in_map_iff. exists (leaf, t). auto. }
    destruct (view_leaf leaf (tr s) (tr s') i nx es Hf Hv) as [i' Hf'].
    exists i', nx, es, v. auto.
Qed.

(* an executable form, for key types with a sound boolean equality (all six key types of the library have one) *)
Definition pc_key_exact_b (keqb : K -> K -> bool) (t : itree) (p : pc) : bool :=
  match p with
  | UpdCallback o leaf (S (S _)) index =>
    match Conc.find leaf t with
    | Some (ILeaf _ _ es) => match nth_error es index with Some (k', _) => keqb (key_of o) k' | None => false end
    | _ => false end
  | _ => true end.
Definition key_exact_b (keqb : K -> K -> bool) (s : st) : bool :=
  forallb (fun e => pc_key_exact_b keqb (tr s) (tpc (snd e))) (ths s).

Lemma key_exact_b_sound (keqb : K -> K -> bool) (s : st) :
  (forall a b, keqb a b = true -> a = b) -> key_exact_b keqb s = true -> key_exact s.
Proof.
  intros Hsound Hb t th Hg. destruct (GIa1_Proof.get_thread_in K V t _ th Hg) as (e & Hin & <-).
  unfold key_exact_b in Hb. rewrite forallb_forall in Hb. specialize (Hb e Hin).
  destruct (tpc (snd e)) as [ |o0|o0 r0|o0 lft rgt|o0 p c index|o0 p c r0|o0 leaf mode index|o0 p c|o0 stk|o0 stk|o0 stk|leaf i n acc|leaf nxt n acc];
    try exact I.
  destruct mode as [|[|m]]; try exact I. cbn [pc_key_exact pc_key_exact_b] in *.
  destruct (Conc.find leaf (tr s)) as [[i nx es|]|]; try discriminate Hb.
  destruct (nth_error es index) as [[k' v]|] eqn:En; [|discriminate Hb].
  apply Hsound in Hb. subst k'. exists i, nx, es, v. split; [reflexivity|exact En].
Qed.

End Exact.

Arguments key_exact {K V} s.
Arguments key_exact_b {K V} keqb s.

Print Assumptions key_exact_step.

"""Seeded generators of sequential histories (every random choice comes from one random.Random)."""
import random

INT_RANGES = {"int32": (-2**31, 2**31 - 1), "int64": (-2**63, 2**63 - 1), "uint32": (0, 2**32 - 1), "uint64": (0, 2**64 - 1)}
STR_POOL = [b"", b"\x00", b"\x00\x00", b"a", b"a\x00", b"aa", b"ab", b"abc", b"b", b"ba", b"\x7f", b"\x80", b"\xfe", b"\xff",
            b"\xff\x00", b"\xff\xff", b"\xff\xff\xff", b"A", b"Z", b"a\xff", b"key", b"key0", b"key00", b"key1"]


def key_table(rng, typ, n):
    """n real keys of the type in strictly ascending order (as literals for the Go side)."""
    if typ == "comparable":
        return []
    if typ == "string":
        pool = set(rng.sample(STR_POOL, min(len(STR_POOL), rng.randint(0, min(n, len(STR_POOL))))))
        while len(pool) < n:
            ln = rng.choice([1, 1, 2, 2, 3, 5, 8])
            alphabet = rng.choice([b"ab", b"\x00\xff", bytes(range(256)), b"abcdefghij"])
            pool.add(bytes(rng.choice(alphabet) for _ in range(ln)))
        ks = sorted(pool)
        return ["-" if k == b"" else k.hex() for k in ks]
    lo, hi = INT_RANGES[typ]
    style = rng.choice(["dense0", "dense_lo", "dense_hi", "sparse", "mixed", "mixed"])
    if style == "dense0":
        start = max(lo, min(hi - n + 1, -(n // 2) if lo < 0 else 0))
        ks = list(range(start, start + n))
    elif style == "dense_lo":
        ks = list(range(lo, lo + n))
    elif style == "dense_hi":
        ks = list(range(hi - n + 1, hi + 1))
    else:
        s = set()
        if style == "mixed":
            s.update([lo, hi])
            s.update(x for x in (lo + 1, hi - 1, 0, -1, 1, 2**31 - 1, 2**31, -2**31, 2**32 - 1, 2**32, 2**63 - 1) if lo <= x <= hi and rng.random() < 0.6)
        while len(s) < n:
            if rng.random() < 0.5:
                s.add(rng.randint(lo, hi))
            else:
                s.add(max(lo, min(hi, rng.randint(-1000, 1000))))
        ks = sorted(s)[:n]
        if style == "mixed" and hi not in ks:
            ks[-1] = hi
    return [str(k) for k in ks]


def gen_ops(rng, typ, order, U, nops, allow_delete=True):
    ntags = 3 if typ == "comparable" else 1

    def key(c=None):
        if c is None:
            c = rng.randrange(U)
        c = max(0, min(U - 1, c))
        return "%d.%d" % (c, rng.randrange(ntags))

    def val():
        return "nil" if rng.random() < 0.1 else str(rng.randrange(1000))

    def scan(c=None):
        n = rng.choice([-1, -1, -1, 0, 1, 2, 3, rng.randrange(1, 40)])
        closes = rng.choice([1, 1, 2, 3]) if n >= 0 else rng.choice([0, 0, 1, 2])
        return "C %s %d %d" % (key(c), n, closes)
    ops = []
    structured = rng.random() < 0.7
    while len(ops) < nops:
        if not structured:
            r = rng.random()
            if r < 0.35:
                ops.append("I %s %s" % (key(), val()))
            elif r < 0.5:
                ops.append("U %s %d" % (key(), rng.randrange(1, 50)))
            elif r < 0.75 and allow_delete:
                ops.append("D %s" % key())
            elif r < 0.9:
                ops.append("S %s" % key())
            else:
                ops.append(scan())
            continue
        kind = rng.choice(["asc", "asc", "desc", "delrun", "delrun", "mix", "upd", "scans", "probe", "refill", "drainR", "drainL", "fill"])
        L = rng.randint(1, max(2, min(3 * order, 40)))
        c0 = rng.randrange(U)
        if kind == "asc":
            ops += ["I %s %s" % (key(c0 + i), val()) for i in range(L)]
        elif kind == "desc":
            ops += ["I %s %s" % (key(c0 - i), val()) for i in range(L)]
        elif kind == "delrun" and allow_delete:
            step = rng.choice([1, -1])
            ops += ["D %s" % key(c0 + step * i) for i in range(L)]
        elif kind == "mix":
            for i in range(L):
                if rng.random() < 0.5 or not allow_delete:
                    ops.append("I %s %s" % (key(c0 + rng.randint(-order, order)), val()))
                else:
                    ops.append("D %s" % key(c0 + rng.randint(-order, order)))
        elif kind == "upd":
            ops += ["U %s %d" % (key(c0 + rng.randint(-3, 3)), rng.randrange(1, 50)) for _ in range(rng.randint(1, 6))]
        elif kind == "scans":
            ops.append(scan(rng.choice([0, U - 1, c0, c0 + 1])))
        elif kind == "probe":
            ops += ["S %s" % key(c0 + i) for i in range(rng.randint(1, 5))]
        elif kind == "refill" and allow_delete:
            ops += ["D %s" % key(c0 + i) for i in range(L)]
            ops += ["I %s %s" % (key(c0 + i), val()) for i in rng.sample(range(L), L)]
        elif kind == "fill":
            ops += ["I %s %s" % (key(c), val()) for c in range(0, U, rng.choice([1, 1, 2]))][:4 * order * order]
        elif kind == "drainR" and allow_delete:
            # long delete run from the right end: internal nodes underflow with a rich left sibling (borrow from the left)
            ops += ["D %s" % key(U - 1 - i) for i in range(rng.randint(order, min(U, 8 * order)))]
        elif kind == "drainL" and allow_delete:
            ops += ["D %s" % key(i) for i in range(rng.randint(order, min(U, 8 * order)))]
        # probe around what was just touched: a lost or unreachable key shows up in a Search
        if kind in ("asc", "desc", "delrun", "mix", "refill", "drainR", "drainL") and rng.random() < 0.7:
            ops += ["S %s" % key(c0 + rng.randint(-L, L)) for _ in range(rng.randint(1, 4))]
    ops = ops[:nops]
    # final sweep: every class (or a sample of 80) is searched once
    sweep = list(range(U)) if U <= 80 else rng.sample(range(U), 80)
    ops += ["S %s" % key(c) for c in sweep]
    return ops


def gen_seq_cases(seed, ncases, types, orders, scale=1.0):
    """Returns list of dicts: id, type, order, keys, ops."""
    rng = random.Random(seed)
    cases = []
    for i in range(ncases):
        typ = types[i % len(types)]
        order = orders[(i // len(types)) % len(orders)]
        if order <= 8:
            U = rng.randint(order + 1, min(400, order * order * 3 + 8))
        else:
            U = rng.randint(order, min(600, order * 6))
        nops = int(scale * rng.randint(max(20, U // 2), max(40, min(700, U * 3))))
        ops = gen_ops(rng, typ, order, U, nops, allow_delete=(order != 2))
        cases.append(dict(id="s%d" % i, type=typ, order=order, keys=key_table(rng, typ, U), ops=ops))
    return cases


def write_cases(cases, path):
    with open(path, "w") as f:
        for c in cases:
            f.write("CASE %s type=%s order=%d%s\n" % (c["id"], c["type"], c["order"], " nodump=1" if c.get("nodump") else ""))
            f.write("KEYS %s\n" % " ".join(c["keys"]))
            f.write("OPS %s\n" % ";".join(c["ops"]))


def gen_growshrink_cases(seed, n, types, orders=(4, 8)):
    """Fill a tree to three or four levels, then delete most keys (random order, or from one end, or
    alternating ends) with probes in between: internal-level borrows from both sides, merges, root collapses."""
    rng = random.Random(seed * 3571 + 3)
    cases = []
    for i in range(n):
        typ = types[i % len(types)]
        order = orders[(i // len(types)) % len(orders)]
        ntags = 3 if typ == "comparable" else 1
        U = rng.randint(order * order * 2, min(600, order * order * order + order))
        ks = list(range(U))
        rng.shuffle(ks) if rng.random() < 0.6 else None
        upd = rng.random() < 0.5
        ops = [("U %d.%d %d" % (c, rng.randrange(ntags), 1 + c % 7)) if (upd and rng.random() < 0.4) else
               ("I %d.%d %d" % (c, rng.randrange(ntags), c % 1000)) for c in ks]
        style = rng.choice(["random", "right", "left", "ends", "middle_out"])
        dels = list(range(U))
        if style == "random":
            rng.shuffle(dels)
        elif style == "right":
            dels.reverse()
        elif style == "ends":
            dels = [x for pair in zip(range(U // 2), range(U - 1, U // 2 - 1, -1)) for x in pair]
        elif style == "middle_out":
            mid = U // 2
            dels = [x for pair in zip(range(mid, U), range(mid - 1, -1, -1)) for x in pair]
        dels = dels[:rng.randint(U // 2, U)]
        for j, c in enumerate(dels):
            ops.append("D %d.%d" % (c, rng.randrange(ntags)))
            if j % 7 == 0:
                ops.append("S %d.%d" % (rng.randrange(U), rng.randrange(ntags)))
            if j % 41 == 0:
                ops.append("C %d.0 %d 1" % (rng.randrange(U), rng.choice([-1, 5])))
            if j % 23 == 0 and rng.random() < 0.5:
                ops.append("I %d.%d %d" % (rng.randrange(U), rng.randrange(ntags), j))
            if upd and j % 11 == 0:
                # a new minimum (or a low key) through Update: must lower the first separator at every level
                ops.append("U %d.%d %d" % (rng.choice([0, 0, 1, rng.randrange(U)]), rng.randrange(ntags), 1 + j % 5))
        ops.append("C 0.0 -1 0")
        cases.append(dict(id="g%d" % i, type=typ, order=order, keys=key_table(rng, typ, U), ops=ops))
    return cases

#!/bin/bash
# confirm_seeded.sh <worktree> <outdir> <A|B>: existing suite passes with the change; demo fails with it, passes without.
export GOFLAGS=-mod=mod GOPROXY=off GOSUMDB=off GOTOOLCHAIN=local
wt=$1; out=$2; x=$3
cd $wt || exit 2
git checkout -q -- . ; git clean -fdq
race=""
grep -qi "race" $out/demo${x}_test.go 2>/dev/null && race="-race"
run_demo() { cp $out/demo${x}_test.go . ; timeout 300 go test -vet=off -count=1 $race -run "TestDemo${x}" -timeout 120s . > /tmp/demo.$$.log 2>&1; rc=$?; rm -f demo${x}_test.go; return $rc; }
run_demo; clean_rc=$?
git apply $out/patch${x}.diff || { echo "patch does not apply"; exit 2; }
go build ./... && go vet . >/dev/null 2>&1; build_rc=$?
timeout 600 go test -vet=off -count=1 . > /tmp/suite.$$.log 2>&1; suite_rc=$?
run_demo; mut_rc=$?
tail -3 /tmp/demo.$$.log | head -2
git checkout -q -- . ; git clean -fdq
echo "RESULT $out $x clean_demo_rc=$clean_rc build_rc=$build_rc suite_rc=$suite_rc mutant_demo_rc=$mut_rc race=$race"
rm -f /tmp/demo.$$.log /tmp/suite.$$.log

"""Sequential correspondence: the same histories on the Go trees (shadow copy) and on the extracted Coq
model; per-property projections; property monitors (independent Python oracles); shrinking."""
import os, re, subprocess, collections
from . import common, gen

SEQDRIVER = os.path.join(common.OCAML, "seqdriver")


def run_cases(vh, cases, workdir, tag="seq", mode="seq"):
    """Returns (go_lines_by_case, model_lines_by_case): dict id -> list of (res, snap, extra)."""
    cp = os.path.join(workdir, tag + ".cases")
    gen.write_cases(cases, cp)
    go_obs = os.path.join(workdir, tag + ".go.obs")
    mo_obs = os.path.join(workdir, tag + ".model.obs")
    r = common.run(["timeout", "600", vh, mode, cp, go_obs])
    if r.returncode != 0:
        raise RuntimeError("go harness failed: rc=%d %s" % (r.returncode, (r.stdout + r.stderr)[-2000:]))
    # cases flagged nomodel (very large orders: the list-based model is quadratic there) are decided by the
    # monitor alone; the model runs on the others
    mcases = [c for c in cases if not c.get("nomodel")]
    mp = os.path.join(workdir, tag + ".mcases")
    gen.write_cases(mcases, mp)
    r = common.run(["timeout", "2400", SEQDRIVER, mp, mo_obs])
    if r.returncode != 0:
        raise RuntimeError("model driver failed: rc=%s %s" % (r.returncode, (r.stdout + r.stderr)[-2000:]))
    g, m = parse_obs(go_obs), parse_obs(mo_obs)
    for c in cases:
        if c.get("nomodel"):
            m[c["id"]] = g.get(c["id"], [])
    return g, m


LINE = re.compile(r"^(\S+) (-?\d+) (.*?) \| (.*)$")


def parse_obs(path):
    d = collections.OrderedDict()
    with open(path) as f:
        for line in f:
            line = line.rstrip("\n")
            m = LINE.match(line)
            if not m:
                cid = line.split(" ", 1)[0]
                d.setdefault(cid, []).append(dict(res=line, snap="", chain="", locks="", raw=line))
                continue
            cid, idx, res, rest = m.groups()
            sm = re.match(r"^(.*?) chain=(\S+) locks=(-?\d+)(?: inv=(.))?$", rest)
            if sm:
                snap, chain, locks, inv = sm.groups()
            else:
                snap, chain, locks, inv = rest, "?", "?", None
            d.setdefault(cid, []).append(dict(res=res, snap=snap, chain=chain, locks=locks, inv=inv, raw=line))
    return d


# ---------------- projections: what each property compares ----------------
def proj_result(op, line):
    return line["res"]


def op_kind(op):
    return op.split(" ", 1)[0]


PROJECTIONS = {
    # property -> (which op kinds, function line -> comparable value)
    "C01": (("I", "U", "D", "S"), lambda l: l["res"]),
    "C02": (("C",), lambda l: l["res"]),
    "C05": (("U",), lambda l: l["res"]),
    "C08": (("I", "U", "D", "S", "C"), lambda l: (l["snap"], l["chain"]) if not l["res"].startswith("panic=") else l["res"]),
    "C09": (("I", "U", "D", "S", "C"), lambda l: l["locks"] if not l["res"].startswith("panic=") else l["res"]),
    "C11": (("I", "U", "D", "S", "C"), lambda l: (l["res"], l["snap"])),
    "C12": (("I", "U", "D", "S", "C"), lambda l: (l["res"], l["snap"], l["chain"])),
}


def first_mismatch(pid, case, go, mo):
    kinds, f = PROJECTIONS[pid]
    ops = case["ops"]
    n = max(len(go), len(mo))
    for i in range(n):
        if i >= len(go) or i >= len(mo):
            return dict(index=i, op=ops[i] if i < len(ops) else None, go=go[i]["raw"] if i < len(go) else None,
                        model=mo[i]["raw"] if i < len(mo) else None, why="one side stopped early")
        if i < len(ops) and op_kind(ops[i]) in kinds:
            if go[i]["res"].startswith("panic=") and mo[i]["res"].startswith("panic=") and is_known_k1(case, i, go[i]["res"]):
                return None   # known finding K1: both sides panic (the model cannot tell the two Go panic sites apart)
            if f(go[i]) != f(mo[i]):
                return dict(index=i, op=ops[i], go=go[i]["raw"], model=mo[i]["raw"], why="projection differs")
    return None


# ---------------- monitors: the property itself, checked on the Go observations only ----------------
def is_known_k1(case, opidx, res):
    """K1: order 2 + Delete panics inside deleteKey/adoptFromLeft."""
    return case["order"] == 2 and op_kind(case["ops"][opidx]) == "D" and res in ("panic=nosiblings", "panic=index")


def parse_snap(s):
    """'N[1.0:L[1.0=5 2.0=nil] 3.0:L[...]]' -> nested ('N', [(key, child)...]) / ('L', [(key, val)...])."""
    pos = [0]

    def node():
        kind = s[pos[0]]
        if kind not in "NL" or s[pos[0] + 1] != "[":
            raise ValueError("bad snapshot at %d: %s" % (pos[0], s[pos[0]:pos[0] + 20]))
        pos[0] += 2
        items = []
        while s[pos[0]] != "]":
            if s[pos[0]] == " ":
                pos[0] += 1
                continue
            j = pos[0]
            while s[j] not in ":=":
                j += 1
            key = s[pos[0]:j]
            pos[0] = j + 1
            if kind == "N":
                items.append((key, node()))
            else:
                j = pos[0]
                while s[j] not in " ]":
                    j += 1
                items.append((key, s[pos[0]:j]))
                pos[0] = j
        pos[0] += 1
        return (kind, items)
    return node()


def keycls(k):
    return int(k.split(".")[0])


def shape_errors(snap, chain, order, allow_underfull=False):
    """Independent statement of C08 on one snapshot; returns list of strings."""
    errs = []
    try:
        t = parse_snap(snap)
    except Exception as e:
        return ["unparsable snapshot: %s" % e]
    if chain != "ok":
        errs.append("leaf chain does not visit the leaves left to right ending at the last (%s)" % chain)
    depths = set()

    def walk(n, lo, hi, isroot, depth):
        kind, items = n
        ks = []
        for k, _ in items:
            try:
                ks.append(keycls(k))
            except ValueError:
                errs.append("placeholder or foreign key stored: %s" % k)
                ks.append(-10**9)
        for a, b in zip(ks, ks[1:]):
            if not a < b:
                errs.append("keys not strictly ascending in a node: %s" % ks)
                break
        for k in ks:
            if lo is not None and k < lo:
                errs.append("key/separator %d below its separator %d" % (k, lo))
            if hi is not None and k >= hi:
                errs.append("key/separator %d not below the next separator %d" % (k, hi))
        if len(items) > order:
            errs.append("node holds %d > order %d entries" % (len(items), order))
        if not isroot and not allow_underfull and len(items) < order // 2:
            errs.append("non-root node holds %d < order/2 entries" % len(items))
        if kind == "L":
            depths.add(depth)
        else:
            if len(items) == 0:
                errs.append("empty internal node")
            for i, (k, c) in enumerate(items):
                walk(c, ks[i], ks[i + 1] if i + 1 < len(ks) else hi, False, depth + 1)
    walk(t, None, None, True, 0)
    if len(depths) > 1:
        errs.append("leaves at different depths %s" % sorted(depths))
    return errs


def snap_entries(snap):
    out = []

    def walk(n):
        kind, items = n
        if kind == "L":
            out.extend(items)
        else:
            for _, c in items:
                walk(c)
    walk(parse_snap(snap))
    return out


def monitor_case(pid, case, go):
    """Checks the property's own statement on the Go observations of one case. Returns (violations, known)
    where each violation is dict(index, op, what)."""
    viol, known = [], []
    ideal = {}          # class -> [stored key string, value string]
    ops = case["ops"]
    prev_snap = "L[]"
    for i, line in enumerate(go):
        if i >= len(ops):
            break
        op = ops[i]
        f = op.split()
        k = f[0]
        res = line["res"]
        if res.startswith("panic="):
            if is_known_k1(case, i, res):
                known.append(dict(index=i, op=op, what="order=2 Delete panics (%s)" % res))
            elif pid in ("C01", "C02", "C05", "C09", "C11", "C12"):
                viol.append(dict(index=i, op=op, what="operation panicked: " + res))
            break
        if k in ("I", "U", "D", "S", "C"):
            cls = keycls(f[1])
        exp = None
        if k == "I":
            if cls in ideal:
                ideal[cls][1] = f[2]
            else:
                ideal[cls] = [f[1], f[2]]
            exp = "ok"
        elif k == "U":
            d = int(f[2])
            if cls in ideal:
                old = ideal[cls][1]
                exp = "arg=%s calls=1" % old
                ideal[cls][1] = str(int(old) + d) if old != "nil" else str(d)
            else:
                exp = "arg=none calls=1"
                ideal[cls] = [f[1], str(d)]
        elif k == "D":
            ideal.pop(cls, None)
            exp = "ok"
        elif k == "S":
            exp = "found=" + (ideal[cls][1] if cls in ideal else "none")
        elif k == "C":
            n = int(f[2])
            items = ["%s=%s" % (ideal[c][0], ideal[c][1]) for c in sorted(ideal) if c >= cls]
            if n >= 0:
                items = items[:n]
            exp = "pairs=" + ",".join(items)
        want = {"C01": "IUDS", "C02": "C", "C05": "U", "C11": "IUDSC", "C12": "IUDSC"}.get(pid, "")
        if k in want and res != exp:
            viol.append(dict(index=i, op=op, what="ideal map expects %s, tree returned %s" % (exp, res)))
        if pid in ("C01", "C11") and k == "S" and line["snap"] != prev_snap:
            viol.append(dict(index=i, op=op, what="Search changed the contents"))
        if pid in ("C08", "C11", "C12") and line["snap"] != "-":
            se = shape_errors(line["snap"], line["chain"], case["order"])
            if pid == "C08" or se:
                for e in se:
                    viol.append(dict(index=i, op=op, what=e))
            if "ZERO" in line["snap"] or "?" in line["snap"]:
                viol.append(dict(index=i, op=op, what="placeholder/foreign key appears as a stored key"))
            try:
                ent = snap_entries(line["snap"])
                want_ent = [(ideal[c][0], ideal[c][1]) for c in sorted(ideal)]
                if ent != want_ent:
                    viol.append(dict(index=i, op=op, what="leaf contents differ from the ideal map"))
            except Exception as e:
                pass
        if pid == "C09" and line["locks"] != "0":
            viol.append(dict(index=i, op=op, what="%s lock(s) still held after the call returned" % line["locks"]))
        prev_snap = line["snap"]
        if viol:
            break
    return viol, known


# ---------------- shrinking ----------------
def shrink(vh, workdir, case, still_bad, budget=150):
    """ddmin over the op list; still_bad(case) -> bool re-runs both sides."""
    ops = list(case["ops"])
    n = 2
    runs = 0
    while len(ops) >= 2 and runs < budget:
        chunk = max(1, len(ops) // n)
        reduced = False
        for start in range(0, len(ops), chunk):
            cand = ops[:start] + ops[start + chunk:]
            if not cand:
                continue
            runs += 1
            c2 = dict(case, ops=cand)
            if still_bad(c2):
                ops = cand
                n = max(n - 1, 2)
                reduced = True
                break
            if runs >= budget:
                break
        if not reduced:
            if chunk == 1:
                break
            n = min(len(ops), n * 2)
    return dict(case, ops=ops)


def search_helper_check(vh, workdir, seed, n_per_type=400):
    """Direct differential test of <type>SearchGreaterThanOrEqualTo / LessThanOrEqualTo against the model's
    search_ge / search_le on strictly ascending slices (incl. empty and one-element ones) and every kind of key
    position (below, equal, between, above). Returns (queries, mismatches list)."""
    import random
    from . import shadow
    rng = random.Random(seed * 13 + 1)
    total, mism = 0, []
    for typ in shadow.TYPE_NAMES:
        U = 48
        keys = gen.key_table(rng, typ, U)
        lines = ["TYPE %s" % typ, "KEYS %s" % " ".join(keys)]
        qs = []
        for _ in range(n_per_type):
            ln = rng.choice([0, 1, 1, 2, 2, 3, 4, 5, 7, 8, 15, 16, 17, 31, 32, 33])
            vs = sorted(rng.sample(range(U), min(ln, U)))
            k = rng.randrange(U) if not vs or rng.random() < 0.5 else rng.choice(vs)
            tag = (lambda: rng.randrange(3)) if typ == "comparable" else (lambda: 0)
            q = "Q %d.%d %s" % (k, tag(), " ".join("%d.%d" % (v, tag()) for v in vs))
            qs.append(q)
        path = os.path.join(workdir, "search.%s.txt" % typ)
        open(path, "w").write("\n".join(lines + qs) + "\n")
        go_out, mo_out = path + ".go", path + ".model"
        r = common.run(["timeout", "300", vh, "search", path, go_out])
        if r.returncode != 0:
            raise RuntimeError("go harness (search) failed: " + (r.stdout + r.stderr)[-1500:])
        r = common.run(["timeout", "300", SEQDRIVER, "search", path, mo_out])
        if r.returncode != 0:
            raise RuntimeError("model driver (search) failed: " + (r.stdout + r.stderr)[-1500:])
        g, m = open(go_out).read().splitlines(), open(mo_out).read().splitlines()
        total += len(qs)
        for i, q in enumerate(qs):
            if i >= len(g) or i >= len(m) or g[i] != m[i]:
                mism.append(dict(type=typ, query=q, go=g[i] if i < len(g) else None, model=m[i] if i < len(m) else None))
    return total, mism

(* LINa_Prog.v — the operation recorded in a thread's program counter is the head of its program (the call in
   flight).  [lp_step] (Lin.v) reads the operation from the program, [cstep] from the pc: the linearization proof
   needs them to agree.  The invariant is not executable (operations contain callbacks), so it is PROVED inductive
   here: it holds initially and is preserved by every step of every thread, with no other hypothesis. *)
From Coq Require Import List Permutation Lia Bool PeanoNat.
From GB Require SoloBase.
From GB Require Import Model Conc LockInv LockProof.
Import ListNotations.

Ltac blk_top HB :=
  match type of HB with
  | bind ?e _ = Ok _ => let E := fresh "HE" in destruct e eqn:E; [cbn [bind] in HB; inversion HB; subst; clear HB | discriminate HB]
  end.

Ltac crunch H :=
  repeat (match type of H with
  | bind ?e _ = Ok _ => let E := fresh "E" in destruct e eqn:E; [cbn [bind] in H | discriminate H]
  | (let '(_, _) := ?p in _) = Ok _ => destruct p
  | (if ?c then _ else _) = Ok _ => let E := fresh "E" in destruct c eqn:E
  | match ?e with _ => _ end = Ok _ => let E := fresh "E" in destruct e eqn:E; try discriminate H
  end).

Section Prog.
Variables (K V : Type) (ltb : K -> K -> bool).
Notation itree := (itree K V).
Notation pc := (pc K V).
Notation cop := (cop K V).
Notation st := (st K V).
Notation out := (out K V).
Notation thread := (thread K V).

Definition is_sea (o : cop) : bool := match o with CSearch _ | CScan _ _ => true | _ => false end.

Definition pc_prog (p : pc) (pr : list cop) : Prop :=
  match p with
  | Idle => True
  | SeaWantChild o _ _ => hd_error pr = Some o /\ is_sea o = true
  | WantT o | WantRoot o _ | InsWantRootRight o _ _ | InsWantChild o _ _ _ | InsWantSplitRight o _ _ _
  | UpdCallback o _ _ _ | DelWantLeft o _ | DelWantChild o _ | DelWantRight o _ =>
    hd_error pr = Some o
  | CurRest _ _ _ _ | CurWantNext _ _ _ _ => exists k n, hd_error pr = Some (CScan k n)
  end.

Definition prog_ok (s : st) : Prop := Forall (fun e => pc_prog (tpc (snd e)) (prog (snd e))) (ths s).

Lemma prog_ok_get (s : st) me th : prog_ok s -> get_thread me (ths s) = Some th -> pc_prog (tpc th) (prog th).
Proof.
  intros H Hg. unfold prog_ok in H. rewrite Forall_forall in H.
  unfold get_thread in Hg. destruct (List.find (fun e => fst e =? me) (ths s)) as [e|] eqn:E; [|discriminate].
  inversion Hg; subst. apply find_some in E. apply (H e). tauto.
Qed.

Theorem prog_ok_init progs : prog_ok (init_st (K:=K) (V:=V) progs).
Proof.
  unfold prog_ok, init_st. simpl. apply Forall_forall. intros e H. apply in_map_iff in H. destruct H as [x [<- _]]. exact I.
Qed.

(* what a block leaves: either the call returns (and the thread is idle) or the pc still records the call *)
Definition RES (out : out) (pr : list cop) : Prop :=
  (SoloBase.returned (oev out) = true /\ opc out = Idle) \/
  (SoloBase.returned (oev out) = false /\ pc_prog (opc out) pr).

Lemma ins_descend_pp o n (t : itree) l fr tmx (out : out) pr :
  ins_descend ltb o n t l fr tmx = Ok out -> hd_error pr = Some o -> RES out pr.
Proof.
  intros H Ho. unfold ins_descend, mk in H.
  crunch H; inversion H; subst; clear H; unfold RES; cbn [opc oev SoloBase.returned existsb pc_prog]; auto.
Qed.

Lemma sea_descend_pp o n (t : itree) l fr tmx (out : out) pr :
  sea_descend ltb o n t l fr tmx = Ok out -> hd_error pr = Some o -> is_sea o = true -> RES out pr.
Proof.
  intros H Ho Hsea. unfold sea_descend, mk in H.
  crunch H; inversion H; subst; clear H; unfold RES; cbn [opc oev SoloBase.returned existsb pc_prog]; eauto.
Qed.

Lemma del_descend_pp o stk n (t : itree) p pr :
  del_descend ltb o stk n t = Ok p -> hd_error pr = Some o -> pc_prog p pr.
Proof. intros H Ho. unfold del_descend in H. crunch H; inversion H; subst; clear H. destruct (0 <? a); exact Ho. Qed.

Lemma unwind_pp order fuel : forall o stk small right (t : itree) l fr tmx (out : out) pr,
  unwind order fuel o stk small right t l fr tmx = Ok out -> hd_error pr = Some o -> RES out pr.
Proof.
  induction fuel as [|fuel IH]; intros o stk small right t l fr tmx out pr H Ho; simpl in H; [discriminate|].
  destruct stk as [|f rest]; [unfold mk in H; inversion H; left; split; reflexivity|].
  destruct (negb small); [eapply IH; eauto|].
  destruct (find (fp f) t) as [[?|pi cs]|]; try discriminate H.
  destruct ((fidx f + 1 <? length cs) && match right with None => true | Some _ => false end).
  - unfold mk in H. inversion H. right. split; [reflexivity|exact Ho].
  - destruct (irebalance order f t) as [[t' small']|]; [cbn [bind] in H|discriminate H]. eapply IH; eauto.
Qed.

Opaque unwind.

Ltac res_now := unfold RES; cbn [opc oev SoloBase.returned existsb pc_prog orb]; eauto.

Lemma blk_pp order (s : st) me th tg (r : out) :
  pc_prog (tpc th) (prog th) -> SoloBase.blk ltb order s me th tg = Ok (Some r) -> RES r (prog th).
Proof.
  intros Hp H. unfold SoloBase.blk in H. cbv zeta in H.
  destruct (tpc th) as [ |o|o r0|o lft rgt|o p c index|o p c r0|o leaf mode index|o p c|o stk|o stk|o stk|leaf i n acc|leaf nxt n acc];
    cbn [pc_prog] in Hp.
  - destruct (prog th) eqn:Epr; unfold mk in H; cbn [bind] in H; inversion H. right. split; reflexivity.
  - unfold mk in H. cbn [bind] in H. inversion H. right. split; [reflexivity|exact Hp].
  - blk_top H. destruct o as [k v|k f|k|k|k cnt].
    + destruct (isplit order (fresh s) (tr s)) as [[l1 r1]|].
      * crunch HE; try (eapply ins_descend_pp; eassumption). unfold mk in HE. inversion HE. res_now.
      * eapply ins_descend_pp; eassumption.
    + destruct (isplit order (fresh s) (tr s)) as [[l1 r1]|].
      * crunch HE; try (eapply ins_descend_pp; eassumption). unfold mk in HE. inversion HE. res_now.
      * eapply ins_descend_pp; eassumption.
    + destruct (tr s) as [i nx es|i cs].
      * unfold mk in HE. crunch HE. inversion HE. res_now.
      * unfold mk in HE. crunch HE. inversion HE. subst. right. split; [reflexivity|].
        eapply del_descend_pp; eauto.
    + eapply sea_descend_pp; eauto.
    + eapply sea_descend_pp; eauto.
  - blk_top H. eapply ins_descend_pp; eauto.
  - blk_top H. unfold mk in HE.
    crunch HE; try (eapply ins_descend_pp; eassumption); inversion HE; subst; res_now.
  - blk_top H. eapply ins_descend_pp; eauto.
  - blk_top H. unfold mk in HE. crunch HE; inversion HE; res_now.
  - blk_top H. destruct Hp as [Hp1 Hp2]. eapply sea_descend_pp; eauto.
  - blk_top H. unfold mk in HE. crunch HE; inversion HE; res_now.
  - blk_top H. unfold mk in HE.
    crunch HE; try (eapply unwind_pp; eassumption); inversion HE; subst; right; (split; [reflexivity|]);
      eapply del_descend_pp; eauto.
  - blk_top H. crunch HE. eapply unwind_pp; eauto.
  - blk_top H. unfold mk in HE. crunch HE; inversion HE; res_now.
  - blk_top H. unfold mk in HE. crunch HE; inversion HE; res_now.
Qed.

Transparent unwind.

Lemma Forall_set_thread (P : tid * thread -> Prop) me (th' : thread) l :
  Forall P l -> P (me, th') -> Forall P (set_thread me th' l).
Proof.
  intros Hl Hp. rewrite Forall_forall in *. intros e He. unfold set_thread in He. apply in_map_iff in He.
  destruct He as [x [<- Hx]]. destruct (fst x =? me); [exact Hp | apply Hl; exact Hx].
Qed.

Theorem prog_ok_step : forall order (s s' : st) me acq ev,
  prog_ok s -> cstep ltb order s me = Stepped s' acq ev -> prog_ok s'.
Proof.
  intros order s s' me acq ev Hok H. rewrite SoloBase.cstep_eq in H.
  destruct (get_thread me (ths s)) as [th|] eqn:Hme; [|discriminate H].
  destruct (target s (tpc th)) as [tg|]; [|discriminate H].
  destruct (negb (is_free s tg)); [discriminate H|].
  destruct (SoloBase.blk ltb order s me th tg) as [[o|]|] eqn:HB; try discriminate H.
  inversion H; subst. unfold prog_ok, SoloBase.commit. cbn [ths].
  apply Forall_set_thread; [exact Hok|]. cbn [snd].
  pose proof (prog_ok_get s me th Hok Hme) as Hp.
  destruct (blk_pp order s me th _ o Hp HB) as [[Hr Hpc]|[Hr Hpc]]; rewrite Hr; cbn [tpc prog].
  - rewrite Hpc. exact I.
  - exact Hpc.
Qed.

Theorem prog_ok_exec : forall order sched (s : st), prog_ok s -> prog_ok (fst (exec ltb order s sched)).
Proof.
  intros order sched. induction sched as [|t rest IH]; intros s Hs; simpl; [exact Hs|].
  destruct (cstep ltb order s t) as [| | |s1 acq ev|] eqn:E; try exact Hs.
  specialize (IH s1 (prog_ok_step order s s1 t acq ev Hs E)).
  destruct (exec ltb order s1 rest) as [s2 h]. exact IH.
Qed.

End Prog.

Arguments is_sea {K V} o.
Arguments pc_prog {K V} p pr.
Arguments prog_ok {K V} s.

Print Assumptions prog_ok_step.

(* OCCc_Reb.v — minimum occupancy through rebalancing and the unwinding of Delete. *)
From Coq Require Import List Permutation Lia Bool PeanoNat.
From GB Require Import ListLemmas TreeLemmas Frame LockProof UpdLemmas FrameRel FrameInv FrameBlocks CInv OCCc_Base OCCc_Blocks.
Import ListNotations.

Section OccReb.
Variables (K V : Type) (ltb : K -> K -> bool).
Notation itree := (itree K V).
Notation pc := (pc K V).
Notation st := (st K V).
Notation out := (out K V).
Notation thread := (thread K V).

(* ---- introduction / elimination below the root ---- *)
Lemma iocc_intro_false order e (t : itree) :
  Nat.div2 order <= icount t -> kids_occ order e t = true -> iocc_b order e false t = true.
Proof.
  intros H1 H2. rewrite iocc_eq, H2, andb_true_r. unfold top_ok. apply orb_true_iff. right. apply Nat.leb_le. exact H1.
Qed.

Lemma iocc_elim_false order (t : itree) :
  iocc_b order None false t = true -> Nat.div2 order <= icount t /\ kids_occ order None t = true.
Proof.
  rewrite iocc_eq. intros H. apply andb_prop in H. destruct H as [H1 H2]. split; [|exact H2].
  unfold top_ok in H1. simpl in H1. apply Nat.leb_le. exact H1.
Qed.

Lemma top_none_node order b pi (cs : list (K * itree)) :
  top_ok order None b (INode pi cs) = true -> (if b then root_min order else Nat.div2 order) <= length cs.
Proof. unfold top_ok. simpl. destruct b; intros H; apply Nat.leb_le; exact H. Qed.

Lemma node_occ_intro order e (b : bool) pi (cs : list (K * itree)) :
  ioccl order None cs = true ->
  (is_ex e pi = true \/ ((if b then root_min order else Nat.div2 order) <= length cs)) ->
  iocc_b order e b (INode pi cs) = true.
Proof.
  intros Hk Ht. rewrite iocc_node. apply andb_true_intro. split; [|apply ioccl_none_any; exact Hk].
  unfold top_ok. simpl. destruct Ht as [->|Ht]; [reflexivity|]. apply orb_true_iff. right.
  destruct b; apply Nat.leb_le; exact Ht.
Qed.

Lemma node_occ_split order pi (A B : list (K * itree)) x b :
  NoDup (ids (INode pi (A ++ x :: B))) -> iocc_b order (Some (nid (snd x))) b (INode pi (A ++ x :: B)) = true ->
  top_ok order None b (INode pi (A ++ x :: B)) = true /\ ioccl order None A = true /\ ioccl order None B = true /\
  kids_occ order None (snd x) = true.
Proof.
  intros Hnd Ho. destruct (nodup_kid K V pi A B x Hnd) as [Hndx Hx].
  destruct (Hx (nid (snd x)) (nid_in_ids _ _ _)) as (H1 & H2 & H3).
  rewrite iocc_node in Ho. apply andb_prop in Ho. destruct Ho as [Ht Hk].
  rewrite ioccl_app, ioccl_cons in Hk. apply andb_prop in Hk. destruct Hk as [HA Hk]. apply andb_prop in Hk. destruct Hk as [Hc HB].
  split; [|split; [|split]].
  - eapply top_ok_clean; eauto.
  - eapply ioccl_clean; eauto.
  - eapply ioccl_clean; eauto.
  - eapply kids_clean; eauto.
Qed.

(* ---- borrowing and merging ---- *)
Lemma iadopt_right_occ order (l r l' r' : itree) :
  iadopt_right l r = Ok (l', r') -> kids_occ order None l = true -> iocc_b order None false r = true ->
  Nat.div2 order <= S (icount l) -> Nat.div2 order < icount r ->
  iocc_b order None false l' = true /\ iocc_b order None false r' = true.
Proof.
  clear ltb. intros H Hl Hr H1 H2. apply iocc_elim_false in Hr. destruct Hr as [_ Hr]. unfold iadopt_right in H.
  destruct l as [li ln le|li lc]; destruct r as [ri rn [|x re]|ri [|x rc]]; try discriminate H; inversion H; subst; clear H;
    cbn [icount kids_occ] in *; (split; apply iocc_intro_false; cbn [icount kids_occ length]; rewrite ?app_length; cbn [length] in *; try lia; try reflexivity).
  - rewrite ioccl_app, Hl. rewrite ioccl_cons in Hr. apply andb_prop in Hr. destruct Hr as [Hx _].
    rewrite ioccl_cons, Hx. reflexivity.
  - rewrite ioccl_cons in Hr. apply andb_prop in Hr. tauto.
Qed.

Lemma iadopt_left_occ order (l r l' r' : itree) :
  iadopt_left l r = Ok (l', r') -> iocc_b order None false l = true -> kids_occ order None r = true ->
  Nat.div2 order < icount l -> Nat.div2 order <= S (icount r) ->
  iocc_b order None false l' = true /\ iocc_b order None false r' = true.
Proof.
  clear ltb. intros H Hl Hr H1 H2. apply iocc_elim_false in Hl. destruct Hl as [_ Hl]. unfold iadopt_left in H.
  destruct l as [li ln le|li lc]; destruct r as [ri rn re|ri rc]; try discriminate H.
  - destruct (rev le) as [|x le'] eqn:E; [discriminate|]. inversion H; subst; clear H.
    apply rev_cons_inv in E. subst le. cbn [icount kids_occ] in *. rewrite app_length in H1. cbn [length] in H1. rewrite rev_length in H1.
    split; apply iocc_intro_false; cbn [icount kids_occ length]; rewrite ?rev_length; try lia; reflexivity.
  - destruct (rev lc) as [|x lc'] eqn:E; [discriminate|]. inversion H; subst; clear H.
    apply rev_cons_inv in E. subst lc. cbn [icount kids_occ] in *. rewrite app_length in H1. cbn [length] in H1. rewrite rev_length in H1.
    rewrite ioccl_app in Hl. apply andb_prop in Hl. destruct Hl as [Hl1 Hl2]. rewrite ioccl_rev in Hl1.
    split; apply iocc_intro_false; cbn [icount kids_occ length]; rewrite ?rev_length; try lia.
    + rewrite ioccl_rev. exact Hl1.
    + rewrite ioccl_cons. rewrite ioccl_cons in Hl2. apply andb_prop in Hl2. destruct Hl2 as [-> _]. exact Hr.
Qed.

Lemma iabsorb_occ order (l r z : itree) :
  iabsorb l r = Ok z -> kids_occ order None l = true -> kids_occ order None r = true ->
  Nat.div2 order <= icount l + icount r -> iocc_b order None false z = true.
Proof.
  clear ltb. intros H Hl Hr H1. unfold iabsorb in H.
  destruct l as [li ln le|li lc]; destruct r as [ri rn re|ri rc]; try discriminate H; inversion H; subst; clear H;
    cbn [icount kids_occ] in *; apply iocc_intro_false; cbn [icount kids_occ]; rewrite ?app_length; try lia; try reflexivity.
  rewrite ioccl_app, Hl, Hr. reflexivity.
Qed.

(* ---- the rebalancing computation on the list of children ---- *)
Definition rebal_core (order index : nat) (cs : list (K * itree)) (child : itree) : res (list (K * itree) * bool) :=
  let minSize := Nat.div2 order in
  let has_right := index + 1 <? length cs in
  let has_left := 0 <? index in
  let rightCount := if has_right then match nth_error cs (index + 1) with Some (_, r) => icount r | None => 0 end else 0 in
  let leftCount := if has_left then match nth_error cs (index - 1) with Some (_, l) => icount l | None => 0 end else 0 in
      (if has_right && (minSize <? rightCount) then
        '(_, rgt) <- get_nth (index + 1) cs ;;
        '(child', rgt') <- iadopt_right child rgt ;;
        rs <- ismallest rgt' ;;
        Ok (set_nth (index + 1) (rs, rgt') (set_child_i index child' cs), false)
      else if has_left && (minSize <? leftCount) then
        '(_, lft) <- get_nth (index - 1) cs ;;
        '(lft', child') <- iadopt_left lft child ;;
        sm <- ismallest child' ;;
        Ok (set_nth index (sm, child') (set_child_i (index - 1) lft' cs), false)
      else if 0 <? leftCount then
        '(_, lft) <- get_nth (index - 1) cs ;;
        lft' <- iabsorb lft child ;;
        let cs' := del_nth index (set_child_i (index - 1) lft' cs) in
        Ok (cs', length cs' <? minSize)
      else if rightCount =? 0 then Panic PNoSiblings
      else
        '(_, rgt) <- get_nth (index + 1) cs ;;
        child' <- iabsorb child rgt ;;
        let cs' := del_nth (index + 1) (set_child_i index child' cs) in
        Ok (cs', length cs' <? minSize)).

Lemma irebalance_eq order f (t : itree) :
  irebalance order f t =
  match find (fp f) t with
  | Some (INode pi cs) =>
    '(_, child) <- get_nth (fidx f) cs ;;
    '(cs', small) <- rebal_core order (fidx f) cs child ;;
    t' <- upd (fp f) (fun _ => Ok (INode pi cs')) t ;;
    Ok (t', small)
  | _ => Panic PIndex end.
Proof. reflexivity. Qed.

Lemma rebal_core_occ order pi index (cs : list (K * itree)) child k1 cs' small' b :
  4 <= order ->
  rebal_core order index cs child = Ok (cs', small') ->
  NoDup (ids (INode pi cs)) -> nth_error cs index = Some (k1, child) -> S (icount child) = Nat.div2 order ->
  iocc_b order (Some (nid child)) b (INode pi cs) = true ->
  iocc_b order (if small' then Some pi else None) b (INode pi cs') = true /\
  (small' = true -> 1 <= length cs' /\ (b = false -> S (length cs') = Nat.div2 order)).
Proof.
  intros Ho4 H Hnd Eg Hsm Ho. unfold rebal_core in H. cbv zeta in H.
  pose proof (root_min_le order Ho4) as Hrm.
  destruct ((index + 1 <? length cs) && (Nat.div2 order <? (if index + 1 <? length cs then match nth_error cs (index + 1) with Some (_, r) => icount r | None => 0 end else 0))) eqn:C1.
  { (* borrow from the right sibling *)
    destruct (get_nth (index + 1) cs) as [[k2 rgt]|] eqn:Eg2; [cbn [bind] in H | discriminate H].
    apply get_nth_Ok in Eg2.
    destruct (iadopt_right child rgt) as [[child' rgt']|] eqn:Ea; [cbn [bind] in H | discriminate H].
    destruct (ismallest rgt') as [rs|] eqn:Es; [cbn [bind] in H | discriminate H].
    inversion H; subst cs' small'; clear H.
    apply andb_prop in C1. destruct C1 as [C1a C1b]. rewrite C1a, Eg2 in C1b. apply Nat.ltb_lt in C1b.
    destruct (nth_error_split2 cs index _ _ Eg Eg2) as [A [B [E L]]]. subst cs index.
    unfold set_child_i. rewrite nth_error_app_len, set_nth_app, set_nth_app1.
    destruct (node_occ_split order pi A ((k2, rgt) :: B) (k1, child) b Hnd Ho) as (T & HA & HB & Hk).
    rewrite ioccl_cons in HB. apply andb_prop in HB. destruct HB as [Hr HB]. simpl in Hr, Hk.
    destruct (iadopt_right_occ order _ _ _ _ Ea Hk Hr) as [Hc' Hr']; [lia | lia |].
    split; [|discriminate].
    apply node_occ_intro.
    - rewrite ioccl_app, HA, !ioccl_cons. simpl. rewrite Hc', Hr', HB. reflexivity.
    - right. apply top_none_node in T. rewrite !app_length in *. simpl in *. exact T. }
  destruct ((0 <? index) && (Nat.div2 order <? (if 0 <? index then match nth_error cs (index - 1) with Some (_, l) => icount l | None => 0 end else 0))) eqn:C2.
  { (* borrow from the left sibling *)
    apply andb_prop in C2. destruct C2 as [C2a C2b]. rewrite C2a in C2b. apply Nat.ltb_lt in C2a.
    destruct index as [|j]; [lia|].
    replace (S j - 1) with j in * by lia.
    destruct (get_nth j cs) as [[k0 lft]|] eqn:Eg0; [cbn [bind] in H | discriminate H].
    apply get_nth_Ok in Eg0. rewrite Eg0 in C2b. apply Nat.ltb_lt in C2b.
    destruct (iadopt_left lft child) as [[lft' child']|] eqn:Ea; [cbn [bind] in H | discriminate H].
    destruct (ismallest child') as [sm|] eqn:Es; [cbn [bind] in H | discriminate H].
    inversion H; subst cs' small'; clear H.
    replace (S j) with (j + 1) in * by lia.
    destruct (nth_error_split2 cs j _ _ Eg0 Eg) as [A [B [E L]]]. subst cs j.
    unfold set_child_i. rewrite nth_error_app_len, set_nth_app, set_nth_app1.
    assert (Ecs : A ++ (k0, lft) :: (k1, child) :: B = (A ++ [(k0, lft)]) ++ (k1, child) :: B)
      by (rewrite <- app_assoc; reflexivity).
    rewrite Ecs in Hnd, Ho.
    destruct (node_occ_split order pi (A ++ [(k0, lft)]) B (k1, child) b Hnd Ho) as (T & HA & HB & Hk).
    rewrite ioccl_app, ioccl_cons in HA. apply andb_prop in HA. destruct HA as [HA Hl].
    apply andb_prop in Hl. destruct Hl as [Hl _]. simpl in Hl, Hk.
    destruct (iadopt_left_occ order _ _ _ _ Ea Hl Hk) as [Hl' Hc']; [lia | lia |].
    split; [|discriminate].
    apply node_occ_intro.
    - rewrite ioccl_app, HA, !ioccl_cons. simpl. rewrite Hc', Hl', HB. reflexivity.
    - right. apply top_none_node in T. rewrite !app_length in *. simpl in *. rewrite ?app_length in T. simpl in T.
      destruct b; lia. }
  destruct (0 <? (if 0 <? index then match nth_error cs (index - 1) with Some (_, l) => icount l | None => 0 end else 0)) eqn:C3.
  { (* merge into the left sibling *)
    destruct (0 <? index) eqn:C0; [|discriminate C3]. apply Nat.ltb_lt in C0.
    destruct index as [|j]; [lia|].
    replace (S j - 1) with j in * by lia.
    destruct (get_nth j cs) as [[k0 lft]|] eqn:Eg0; [cbn [bind] in H | discriminate H].
    apply get_nth_Ok in Eg0.
    destruct (iabsorb lft child) as [lft'|] eqn:Ea; [cbn [bind] in H | discriminate H].
    inversion H; subst cs' small'; clear H.
    replace (S j) with (j + 1) in * by lia.
    destruct (nth_error_split2 cs j _ _ Eg0 Eg) as [A [B [E L]]]. subst cs j.
    unfold set_child_i. rewrite nth_error_app_len, set_nth_app, del_nth_app1.
    assert (Ecs : A ++ (k0, lft) :: (k1, child) :: B = (A ++ [(k0, lft)]) ++ (k1, child) :: B)
      by (rewrite <- app_assoc; reflexivity).
    rewrite Ecs in Hnd, Ho.
    destruct (node_occ_split order pi (A ++ [(k0, lft)]) B (k1, child) b Hnd Ho) as (T & HA & HB & Hk).
    rewrite ioccl_app, ioccl_cons in HA. apply andb_prop in HA. destruct HA as [HA Hl].
    apply andb_prop in Hl. destruct Hl as [Hl _]. simpl in Hl, Hk.
    apply iocc_elim_false in Hl. destruct Hl as [Hl1 Hl2].
    pose proof (iabsorb_occ order _ _ _ Ea Hl2 Hk) as Hz.
    apply top_none_node in T. rewrite !app_length in T. simpl in T. rewrite ?app_length in T. simpl in T.
    assert (Hlen : length (A ++ (k0, lft') :: B) = length A + S (length B)) by (rewrite app_length; reflexivity).
    split.
    - apply node_occ_intro.
      + rewrite ioccl_app, HA, !ioccl_cons. simpl. rewrite Hz, HB by lia. reflexivity.
      + destruct (length (A ++ (k0, lft') :: B) <? Nat.div2 order) eqn:Esm.
        * left. simpl. apply Nat.eqb_refl.
        * right. apply Nat.ltb_ge in Esm. destruct b; lia.
    - intros Esm. apply Nat.ltb_lt in Esm. split; [lia|]. intros ->. lia. }
  destruct ((if index + 1 <? length cs then match nth_error cs (index + 1) with Some (_, r) => icount r | None => 0 end else 0) =? 0) eqn:C4; [discriminate H|].
  (* merge the right sibling into the child *)
  destruct (get_nth (index + 1) cs) as [[k2 rgt]|] eqn:Eg2; [cbn [bind] in H | discriminate H].
  apply get_nth_Ok in Eg2.
  destruct (iabsorb child rgt) as [child'|] eqn:Ea; [cbn [bind] in H | discriminate H].
  inversion H; subst cs' small'; clear H.
  destruct (nth_error_split2 cs index _ _ Eg Eg2) as [A [B [E L]]]. subst cs index.
  unfold set_child_i. rewrite nth_error_app_len, set_nth_app, del_nth_app1.
  destruct (node_occ_split order pi A ((k2, rgt) :: B) (k1, child) b Hnd Ho) as (T & HA & HB & Hk).
  rewrite ioccl_cons in HB. apply andb_prop in HB. destruct HB as [Hr HB]. simpl in Hr, Hk.
  apply iocc_elim_false in Hr. destruct Hr as [Hr1 Hr2].
  pose proof (iabsorb_occ order _ _ _ Ea Hk Hr2) as Hz.
  apply top_none_node in T. rewrite !app_length in T. simpl in T.
  assert (Hlen : length (A ++ (k1, child') :: B) = length A + S (length B)) by (rewrite app_length; reflexivity).
  split.
  - apply node_occ_intro.
    + rewrite ioccl_app, HA, !ioccl_cons. simpl. rewrite Hz, HB by lia. reflexivity.
    + destruct (length (A ++ (k1, child') :: B) <? Nat.div2 order) eqn:Esm.
      * left. simpl. apply Nat.eqb_refl.
      * right. apply Nat.ltb_ge in Esm. destruct b; lia.
  - intros Esm. apply Nat.ltb_lt in Esm. split; [lia|]. intros ->. lia.
Qed.

(* ---- occupancy of a node found in the tree ---- *)
Lemma iocc_find_false order e x : forall (t n : itree),
  iocc_b order e false t = true -> find x t = Some n -> iocc_b order e false n = true.
Proof.
  induction t as [i nx es|i cs IH] using itree_ind2; intros n Ho Hf; rewrite find_eq in Hf; simpl nid in Hf.
  - destruct (i =? x); [|discriminate]. inversion Hf; subst. exact Ho.
  - destruct (i =? x); [inversion Hf; subst; exact Ho|].
    apply iocc_kids in Ho. simpl in Ho.
    induction cs as [|[k c] r IHr]; [discriminate|].
    inversion IH as [|? ? H1 H2]; subst. rewrite findl_cons in Hf. rewrite ioccl_cons in Ho.
    apply andb_prop in Ho. destruct Ho as [Ho1 Ho2]. simpl in H1, Ho1.
    destruct (find x c) eqn:Ec; [inversion Hf; subst; eapply H1; eauto | eapply IHr; eauto].
Qed.

Lemma iocc_find order e x (t n : itree) :
  iocc_b order e true t = true -> find x t = Some n ->
  (x = nid t /\ n = t) \/ (x <> nid t /\ iocc_b order e false n = true).
Proof.
  intros Ho Hf. rewrite find_eq in Hf. destruct (nid t =? x) eqn:E.
  - apply Nat.eqb_eq in E. inversion Hf; subst. left. auto.
  - apply Nat.eqb_neq in E. right. split; [auto|]. destruct t as [i nx es|i cs]; [discriminate|].
    apply iocc_kids in Ho. simpl in Ho.
    induction cs as [|[k c] r IHr]; [discriminate|].
    rewrite findl_cons in Hf. rewrite ioccl_cons in Ho. apply andb_prop in Ho. destruct Ho as [Ho1 Ho2]. simpl in Ho1.
    destruct (find x c) eqn:Ec; [inversion Hf; subst; eapply iocc_find_false; eauto | eapply IHr; eauto].
Qed.

Lemma find_root_self (t : itree) : find (nid t) t = Some t.
Proof. rewrite find_eq, Nat.eqb_refl. reflexivity. Qed.

(* ---- rebalancing at one Delete frame ---- *)
Lemma irebalance_occ order f (t t' : itree) small' pi cs c ct :
  4 <= order -> NoDup (ids t) -> irebalance order f t = Ok (t', small') ->
  find (fp f) t = Some (INode pi cs) -> child_at t (fp f) (fidx f) c ->
  find c t = Some ct -> S (icount ct) = Nat.div2 order ->
  iocc_b order (Some c) true t = true ->
  iocc_b order (if small' then Some (fp f) else None) true t' = true /\
  (small' = true -> exists n', find (fp f) t' = Some n' /\ 1 <= icount n' /\ (fp f <> nid t -> S (icount n') = Nat.div2 order)).
Proof.
  intros Ho4 Hnd H Hf Hca Hfc Hsm Ho. rewrite irebalance_eq, Hf in H.
  destruct (get_nth (fidx f) cs) as [[k1 child]|] eqn:Eg; [cbn [bind] in H|discriminate H]. apply get_nth_Ok in Eg.
  destruct (rebal_core order (fidx f) cs child) as [[cs' sm]|] eqn:Er; [cbn [bind] in H|discriminate H].
  destruct (upd (fp f) (fun _ => Ok (INode pi cs')) t) as [t1|] eqn:Eu; [cbn [bind] in H|discriminate H].
  inversion H; subst t1 sm; clear H.
  assert (Hpi : pi = fp f) by (apply find_nid in Hf; exact Hf).
  assert (Hc : nid child = c) by (eapply child_at_nth; eauto).
  assert (Hch : ct = child).
  { pose proof (find_child K V _ _ _ _ _ _ Hnd Hf (nth_error_In _ _ Eg)) as X. rewrite Hc in X. congruence. }
  subst ct c.
  assert (Hndn : NoDup (ids (INode pi cs))) by (eapply find_sub_nodup; eauto).
  assert (Hloc : forall b, iocc_b order (Some (nid child)) b (INode pi cs) = true ->
            iocc_b order (if small' then Some pi else None) b (INode pi cs') = true /\
            (small' = true -> 1 <= length cs' /\ (b = false -> S (length cs') = Nat.div2 order))).
  { intros b X. eapply rebal_core_occ; eauto. }
  split.
  - rewrite <- Hpi. eapply iocc_upd_root with (n := INode pi cs) (n' := INode pi cs') (e := Some (nid child));
      [reflexivity | exact Hnd | exact Hf | exact Eu | | | | exact Ho].
    + right. intros c0 E. inversion E; subst. rewrite ids_node. right.
      eapply kid_in_idsl; [eapply nth_error_In; eauto | apply nid_in_ids].
    + intros _ X. apply (Hloc true X).
    + intros _ X. apply (Hloc false X).
  - intros ->. exists (INode pi cs'). split; [eapply find_upd_same with (n := INode pi cs); [reflexivity|exact Hnd|exact Hf|exact Eu]|]. simpl icount.
    destruct (iocc_find order _ _ _ _ Ho Hf) as [[E1 E2]|[E1 E2]].
    + rewrite E2 in Hloc. destruct (Hloc true Ho) as [_ X]. destruct (X eq_refl) as [X1 _]. split; [exact X1|]. tauto.
    + destruct (Hloc false E2) as [_ X]. destruct (X eq_refl) as [X1 X2]. split; [exact X1|]. auto.
Qed.

(* ---- what the unwinding of Delete maintains ---- *)
Definition UQ (order : nat) (stk : list frame) (small : bool) (t : itree) : Prop :=
  if small then
    match stk with
    | f :: _ => exists c ct, fc f = Some c /\ find c t = Some ct /\ S (icount ct) = Nat.div2 order /\
                             iocc_b order (Some c) true t = true
    | [] => iocc_b order (Some (nid t)) true t = true /\ 1 <= icount t
    end
  else iocc_b order None true t = true.

Lemma unwind_occ order fuel : 4 <= order -> forall o stk small right (t : itree) l fr tmx (out : out),
  unwind order fuel o stk small right t l fr tmx = Ok out ->
  NoDup (ids t) -> stack_ok t fr stk -> bottom_ok (nid t) stk ->
  (stk = [] -> right = None) ->
  NoDup (nid t :: opt_list right ++ flat_map fkids stk) ->
  (forall x, right = Some x -> match stk with f :: _ => child_at t (fp f) (fidx f + 1) x | [] => True end) ->
  UQ order stk small t ->
  iocc_b order (exempt_of (opc out)) true (otr out) = true /\ pc_small_b order (otr out) (opc out) = true.
Proof.
  intros Ho4. induction fuel as [|fuel IH]; intros o stk small right t l fr tmx out H Hnd Hs Hb Hr Hheld Hright HQ;
    simpl in H; [discriminate|].
  destruct stk as [|f rest].
  - unfold mk in H. inversion H; subst; clear H. cbn [otr opc exempt_of pc_small_b]. split; [|reflexivity].
    unfold UQ in HQ. destruct small; simpl.
    + destruct HQ as [HQ Hc]. pose proof (kids_clean K V order t true Hnd HQ) as Hk.
      destruct (1 <? icount t) eqn:E.
      * apply Nat.ltb_lt in E.
        destruct t as [i nx es|i cs]; [rewrite iocc_leaf; reflexivity|].
        apply node_occ_intro; [exact Hk|]. right. simpl in E. pose proof (root_min_le2 order). lia.
      * apply Nat.ltb_ge in E.
        destruct t as [i nx es|i [|[k c] r]]; try (rewrite iocc_leaf; reflexivity).
        -- simpl in Hc. lia.
        -- cbn [kids_occ] in Hk. rewrite ioccl_cons in Hk. apply andb_prop in Hk. destruct Hk as [Hk _]. apply iocc_as_root; auto.
    + exact HQ.
  - destruct Hs as (S1 & S2 & S3 & S4 & S5).
    assert (Hlinks : links (f :: rest)) by (split; [exact S4 | eapply stack_ok_links; eauto]).
    assert (Hrest : NoDup (nid t :: opt_list None ++ flat_map fkids rest)).
    { eapply nodup_sub; [|exact Hheld]. intros x. simpl. rewrite !cnt_app. lia. }
    destruct (negb small) eqn:Es.
    + destruct small; [discriminate|].
      eapply (IH o rest false None t); eauto.
      * eapply bottom_ok_tail; eauto.
      * intros x Hx; discriminate.
    + destruct small; [|discriminate].
      destruct HQ as (c & ct & Hfc & Hfct & Hsm & Ho).
      destruct (find (fp f) t) as [[i nx es|pi cs]|] eqn:Hf; try discriminate H.
      destruct ((fidx f + 1 <? length cs) && match right with None => true | Some _ => false end) eqn:Ec.
      * unfold mk in H. inversion H; subst; clear H. cbn [otr opc]. simpl exempt_of. rewrite Hfc. split; [exact Ho|].
        cbn [pc_small_b]. rewrite Hfc, Hfct, Hf. apply andb_true_intro. split; [apply Nat.eqb_eq; exact Hsm|].
        apply andb_prop in Ec. tauto.
      * destruct (irebalance order f t) as [[t' small']|] eqn:Er; [cbn [bind] in H|discriminate H].
        set (Wf := fp f :: opt_list right ++ fkids f).
        destruct S3 as [c' [Hfc' Hca]]. assert (c' = c) by congruence. subst c'.
        destruct (irebalance_rel K V ltb True order f t t' small' pi cs Wf Hnd Er Hf) as (R1 & R2 & R3 & R4).
        -- left. reflexivity.
        -- intros k ch Hn.
           rewrite (child_at_nth K V _ _ _ _ _ _ _ _ Hca Hf Hn).
           unfold Wf, fkids. rewrite Hfc. right. rewrite !in_app_iff. right. right. simpl. auto.
        -- intros k ch Hpos Hn. destruct (S2 Hpos) as [l0 [Hfl Hca0]].
           rewrite (child_at_nth K V _ _ _ _ _ _ _ _ Hca0 Hf Hn).
           unfold Wf, fkids. rewrite Hfl. right. rewrite !in_app_iff. right. left. simpl. auto.
        -- intros k ch Hn.
           assert (Hlt : fidx f + 1 < length cs) by (apply nth_error_Some; congruence).
           apply Nat.ltb_lt in Hlt. rewrite Hlt in Ec. simpl in Ec.
           destruct right as [x|]; [|discriminate Ec].
           specialize (Hright x eq_refl). simpl in Hright.
           rewrite (child_at_nth K V _ _ _ _ _ _ _ _ Hright Hf Hn).
           unfold Wf. right. simpl. left. reflexivity.
        -- destruct (irebalance_occ order f t t' small' pi cs c ct Ho4 Hnd Er Hf Hca Hfct Hsm Ho) as [O1 O2].
           eapply (IH o rest small' None t'); eauto.
           ++ eapply stack_ok_frm with (W := Wf) (fr := fr); eauto.
              apply rest_fp_notin with (root := nid t); auto.
           ++ rewrite R4. eapply bottom_ok_tail; eauto.
           ++ rewrite R4. exact Hrest.
           ++ intros x Hx; discriminate.
           ++ unfold UQ. destruct small'; [|exact O1].
              destruct (O2 eq_refl) as (n' & N1 & N2 & N3).
              destruct rest as [|g rest'].
              ** unfold bottom_ok in Hb. simpl in Hb.
                 assert (E : fp f = nid t') by (rewrite R4; exact Hb).
                 rewrite E in O1, N1. rewrite find_root_self in N1. inversion N1; subst n'. split; assumption.
              ** simpl in S4. exists (fp f), n'. split; [exact S4|]. split; [exact N1|]. split; [|exact O1].
                 apply N3. intros E.
                 revert Hheld. rewrite cnt_nodup. intros Hh. specialize (Hh (nid t)). simpl in Hh.
                 rewrite Nat.eqb_refl, !cnt_app in Hh.
                 assert (Hin : In (nid t) (fkids g)).
                 { unfold fkids. rewrite S4, in_app_iff. right. simpl. auto. }
                 apply cnt_in in Hin. lia.
Qed.

(* ---- the leaf step of Delete ---- *)
Lemma leaf_delete_facts minSize k (es es' : list (K * V)) small :
  leaf_delete ltb minSize k es = Ok (es', small) ->
  (es' = es /\ small = false) \/ (S (length es') = length es /\ small = (length es' <? minSize)).
Proof.
  unfold leaf_delete. intros H. crunch H; inversion H; subst; clear H; auto.
  right. split; [|reflexivity]. eapply del_nth_length; eauto.
Qed.

End OccReb.

Arguments UQ {K V}. Arguments rebal_core {K V}.
